module verif/factgen

go 1.23
