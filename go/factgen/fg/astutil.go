package fg

import (
	"bytes"
	"fmt"
	"go/ast"
	"go/parser"
	"go/printer"
	"go/token"
	"os"
	"path/filepath"
	"strconv"
	"strings"
)

type File struct {
	Path string
	Fset *token.FileSet
	AST  *ast.File
	Src  []byte
}

func ParseFile(repo, rel string) (*File, error) {
	p := filepath.Join(repo, rel)
	src, err := os.ReadFile(p)
	if err != nil {
		return nil, err
	}
	fset := token.NewFileSet()
	f, err := parser.ParseFile(fset, p, src, parser.ParseComments)
	if err != nil {
		return nil, err
	}
	return &File{Path: rel, Fset: fset, AST: f, Src: src}, nil
}

// ParseDir parses every non-test .go file of a package directory.
func ParseDir(repo, rel string) ([]*File, error) {
	ents, err := os.ReadDir(filepath.Join(repo, rel))
	if err != nil {
		return nil, err
	}
	var fs []*File
	for _, e := range ents {
		n := e.Name()
		if e.IsDir() || !strings.HasSuffix(n, ".go") || strings.HasSuffix(n, "_test.go") {
			continue
		}
		f, err := ParseFile(repo, filepath.Join(rel, n))
		if err != nil {
			return nil, err
		}
		fs = append(fs, f)
	}
	return fs, nil
}

func (f *File) Text(n ast.Node) string {
	var b bytes.Buffer
	printer.Fprint(&b, f.Fset, n)
	return b.String()
}

func (f *File) Line(n ast.Node) int { return f.Fset.Position(n.Pos()).Line }

// FuncDecl finds a function or method (recv may be "" or "T"/"*T" base name).
func (f *File) FuncDecl(recv, name string) *ast.FuncDecl {
	for _, d := range f.AST.Decls {
		fd, ok := d.(*ast.FuncDecl)
		if !ok || fd.Name.Name != name {
			continue
		}
		r := ""
		if fd.Recv != nil && len(fd.Recv.List) > 0 {
			t := fd.Recv.List[0].Type
			if s, ok := t.(*ast.StarExpr); ok {
				t = s.X
			}
			if ix, ok := t.(*ast.IndexExpr); ok {
				t = ix.X
			}
			if id, ok := t.(*ast.Ident); ok {
				r = id.Name
			}
		}
		if r == recv {
			return fd
		}
	}
	return nil
}

func FindFunc(files []*File, recv, name string) (*File, *ast.FuncDecl) {
	for _, f := range files {
		if fd := f.FuncDecl(recv, name); fd != nil {
			return f, fd
		}
	}
	return nil, nil
}

// ConstEnv: package-level constant expressions by name, for evaluation.
type ConstEnv struct {
	Exprs map[string]ast.Expr
	Pkgs  map[string]*ConstEnv // imported package alias -> env (for pkg.Const)
}

func NewConstEnv(files []*File) *ConstEnv {
	env := &ConstEnv{Exprs: map[string]ast.Expr{}, Pkgs: map[string]*ConstEnv{}}
	for _, f := range files {
		for _, d := range f.AST.Decls {
			gd, ok := d.(*ast.GenDecl)
			if !ok || (gd.Tok != token.CONST && gd.Tok != token.VAR) {
				continue
			}
			for _, s := range gd.Specs {
				vs := s.(*ast.ValueSpec)
				for i, n := range vs.Names {
					if i < len(vs.Values) {
						env.Exprs[n.Name] = vs.Values[i]
					}
				}
			}
		}
	}
	return env
}

var timeUnits = map[string]int64{
	"Nanosecond": 1, "Microsecond": 1e3, "Millisecond": 1e6, "Second": 1e9, "Minute": 60e9, "Hour": 3600e9,
}

// EvalInt evaluates an integer constant expression (ints, + - * / %, parens, time.X units,
// named package constants, pkg.Const through env.Pkgs, conversions like int64(x)/time.Duration(x)).
func (env *ConstEnv) EvalInt(e ast.Expr) (int64, error) {
	return env.eval(e, 0)
}

func (env *ConstEnv) eval(e ast.Expr, depth int) (int64, error) {
	if depth > 50 {
		return 0, fmt.Errorf("const evaluation too deep")
	}
	switch x := e.(type) {
	case *ast.BasicLit:
		if x.Kind == token.INT {
			s := strings.ReplaceAll(x.Value, "_", "")
			v, err := strconv.ParseInt(s, 0, 64)
			return v, err
		}
		if x.Kind == token.FLOAT {
			fv, err := strconv.ParseFloat(strings.ReplaceAll(x.Value, "_", ""), 64)
			if err != nil || fv != float64(int64(fv)) {
				return 0, fmt.Errorf("non-integer float literal %s", x.Value)
			}
			return int64(fv), nil
		}
	case *ast.ParenExpr:
		return env.eval(x.X, depth+1)
	case *ast.UnaryExpr:
		v, err := env.eval(x.X, depth+1)
		if err != nil {
			return 0, err
		}
		switch x.Op {
		case token.SUB:
			return -v, nil
		case token.ADD:
			return v, nil
		}
	case *ast.BinaryExpr:
		a, err := env.eval(x.X, depth+1)
		if err != nil {
			return 0, err
		}
		b, err := env.eval(x.Y, depth+1)
		if err != nil {
			return 0, err
		}
		switch x.Op {
		case token.ADD:
			return a + b, nil
		case token.SUB:
			return a - b, nil
		case token.MUL:
			return a * b, nil
		case token.QUO:
			if b == 0 {
				return 0, fmt.Errorf("division by zero")
			}
			return a / b, nil
		case token.REM:
			if b == 0 {
				return 0, fmt.Errorf("division by zero")
			}
			return a % b, nil
		case token.SHL:
			return a << uint(b), nil
		case token.SHR:
			return a >> uint(b), nil
		}
	case *ast.Ident:
		if ex, ok := env.Exprs[x.Name]; ok {
			return env.eval(ex, depth+1)
		}
		return 0, fmt.Errorf("unknown identifier %s", x.Name)
	case *ast.SelectorExpr:
		if p, ok := x.X.(*ast.Ident); ok {
			if p.Name == "time" {
				if u, ok := timeUnits[x.Sel.Name]; ok {
					return u, nil
				}
			}
			if p.Name == "math" {
				switch x.Sel.Name {
				case "MaxInt64":
					return 1<<63 - 1, nil
				case "MinInt64":
					return -1 << 63, nil
				case "MaxInt32":
					return 1<<31 - 1, nil
				case "MaxUint32":
					return 1<<32 - 1, nil
				case "MaxUint16":
					return 1<<16 - 1, nil
				}
			}
			if sub, ok := env.Pkgs[p.Name]; ok {
				if ex, ok := sub.Exprs[x.Sel.Name]; ok {
					return sub.eval(ex, depth+1)
				}
			}
		}
		return 0, fmt.Errorf("unknown selector")
	case *ast.CallExpr:
		// conversions: int64(x), time.Duration(x), int(x), uint64(x)
		if len(x.Args) == 1 {
			switch f := x.Fun.(type) {
			case *ast.Ident:
				switch f.Name {
				case "int64", "int", "uint64", "int32", "uint32", "uint16", "uint8", "uint":
					return env.eval(x.Args[0], depth+1)
				}
			case *ast.SelectorExpr:
				if p, ok := f.X.(*ast.Ident); ok && p.Name == "time" && f.Sel.Name == "Duration" {
					return env.eval(x.Args[0], depth+1)
				}
			}
		}
	}
	return 0, fmt.Errorf("unsupported constant expression %T", e)
}

// calls returns every call expression under n whose callee "name" matches (pkg.Func, recv.Method or Func:
// matching is on the final selector / identifier name).
func CallsNamed(n ast.Node, name string) []*ast.CallExpr {
	var out []*ast.CallExpr
	ast.Inspect(n, func(m ast.Node) bool {
		c, ok := m.(*ast.CallExpr)
		if !ok {
			return true
		}
		if CalleeName(c) == name {
			out = append(out, c)
		}
		return true
	})
	return out
}

func CalleeName(c *ast.CallExpr) string {
	switch f := c.Fun.(type) {
	case *ast.Ident:
		return f.Name
	case *ast.SelectorExpr:
		return f.Sel.Name
	case *ast.IndexExpr:
		if id, ok := f.X.(*ast.Ident); ok {
			return id.Name
		}
	}
	return ""
}

// LeanStr renders a Go string as a Lean string literal.
func LeanStr(s string) string {
	var b strings.Builder
	b.WriteByte('"')
	for _, r := range []byte(s) {
		switch {
		case r == '"':
			b.WriteString("\\\"")
		case r == '\\':
			b.WriteString("\\\\")
		case r == '\n':
			b.WriteString("\\n")
		case r == '\t':
			b.WriteString("\\t")
		case r < 0x20 || r == 0x7f:
			fmt.Fprintf(&b, "\\x%02x", r)
		default:
			b.WriteByte(r)
		}
	}
	b.WriteByte('"')
	return b.String()
}

func LeanInt(v int64) string {
	if v < 0 {
		return fmt.Sprintf("(%d)", v)
	}
	return fmt.Sprintf("%d", v)
}
