package main

import (
	"fmt"
	"go/ast"
	"go/token"
	"strconv"
	"strings"
	"verif/factgen/fg"
)

// C06: WAL framing constants, header field offsets used by writer and reader, the order of the
// reader's checks, and the on-error policy of Reader.ReadAll's loop (continue vs stop).
func main() { fg.Main("C06", c06) }

func c06(repo string, out *fg.Out) error {
	files, err := fg.ParseDir(repo, "internal/wal")
	if err != nil {
		return err
	}
	env := fg.NewConstEnv(files)
	geti := func(name string) (int64, error) {
		e, ok := env.Exprs[name]
		if !ok {
			return 0, fmt.Errorf("const %s not found in internal/wal", name)
		}
		v, err := env.EvalInt(e)
		if err != nil {
			return 0, fmt.Errorf("%s: %v", name, err)
		}
		return v, nil
	}
	names := []string{"WALEntryHeaderSize", "WALFileHeaderSize", "MaxWALPayloadSize", "WALEnvelopeMarker", "WALChecksumCRC32", "WALVersion"}
	vals := map[string]int64{}
	for _, n := range names {
		v, err := geti(n)
		if err != nil {
			return err
		}
		vals[n] = v
	}
	// WALMagic = []byte{'A','R','C','W'}
	var magic []int64
	if e, ok := env.Exprs["WALMagic"]; ok {
		if cl, ok := e.(*ast.CompositeLit); ok {
			for _, el := range cl.Elts {
				bl, ok := el.(*ast.BasicLit)
				if !ok {
					return fmt.Errorf("WALMagic: non-literal element")
				}
				switch bl.Kind {
				case token.CHAR:
					s, err := strconv.Unquote(bl.Value)
					if err != nil || len(s) != 1 {
						return fmt.Errorf("WALMagic: bad char literal %s", bl.Value)
					}
					magic = append(magic, int64(s[0]))
				case token.INT:
					v, err := strconv.ParseInt(bl.Value, 0, 64)
					if err != nil {
						return err
					}
					magic = append(magic, v)
				default:
					return fmt.Errorf("WALMagic: unsupported element %s", bl.Value)
				}
			}
		}
	}
	if len(magic) == 0 {
		return fmt.Errorf("var WALMagic = []byte{…} not found")
	}

	// ---- header field offsets: every binary.BigEndian.{Put,}UintNN(x[a:b] …) in the named functions
	type fld struct {
		Fn   string `json:"fn"`
		Call string `json:"call"`
		Lo   int64  `json:"lo"`
		Hi   int64  `json:"hi"`
	}
	sliceBounds := func(fn string, fd *ast.FuncDecl, arr string) ([]fld, error) {
		var res []fld
		var ferr error
		ast.Inspect(fd.Body, func(n ast.Node) bool {
			c, ok := n.(*ast.CallExpr)
			if !ok || len(c.Args) == 0 {
				return true
			}
			nm := fg.CalleeName(c)
			if !strings.HasPrefix(nm, "Uint") && !strings.HasPrefix(nm, "PutUint") {
				return true
			}
			se, ok := c.Args[0].(*ast.SliceExpr)
			if !ok {
				return true
			}
			id, ok := se.X.(*ast.Ident)
			if !ok || id.Name != arr {
				return true
			}
			lo, err1 := env.EvalInt(se.Low)
			hi, err2 := env.EvalInt(se.High)
			if err1 != nil || err2 != nil {
				ferr = fmt.Errorf("%s: non-constant slice bounds on %s", fn, arr)
				return false
			}
			res = append(res, fld{fn, nm, lo, hi})
			return true
		})
		return res, ferr
	}
	want := func(fn string, got []fld, exp [][3]any) error {
		if len(got) != len(exp) {
			return fmt.Errorf("%s: expected %d big-endian header field accesses, found %d", fn, len(exp), len(got))
		}
		for i, e := range exp {
			if got[i].Call != e[0].(string) || got[i].Lo != int64(e[1].(int)) || got[i].Hi != int64(e[2].(int)) {
				return fmt.Errorf("%s: header field #%d is %s[%d:%d], expected %s[%d:%d]", fn, i, got[i].Call, got[i].Lo, got[i].Hi, e[0], e[1], e[2])
			}
		}
		return nil
	}
	var allFields []fld
	for _, spec := range []struct {
		recv, fn, arr string
		exp           [][3]any
	}{
		{"Reader", "readEntry", "header", [][3]any{{"Uint32", 0, 4}, {"Uint64", 4, 12}, {"Uint32", 12, 16}}},
		{"Writer", "AppendRaw", "entryData", [][3]any{{"PutUint32", 0, 4}, {"PutUint64", 4, 12}, {"PutUint32", 12, 16}}},
		{"Writer", "AppendRawWithMeta", "entryData", [][3]any{{"PutUint32", 0, 4}, {"PutUint64", 4, 12}, {"PutUint32", 12, 16}}},
		{"Writer", "AppendRawWithMeta", "envHeader", [][3]any{{"PutUint16", 1, 3}}},
		{"Writer", "rotate", "header", [][3]any{{"PutUint16", 4, 6}}},
		{"", "ParseEnvelope", "payload", [][3]any{{"Uint16", 1, 3}}},
	} {
		_, fd := fg.FindFunc(files, spec.recv, spec.fn)
		if fd == nil {
			return fmt.Errorf("func %s.%s not found", spec.recv, spec.fn)
		}
		got, err := sliceBounds(spec.fn, fd, spec.arr)
		if err != nil {
			return err
		}
		if err := want(spec.fn+"/"+spec.arr, got, spec.exp); err != nil {
			return err
		}
		allFields = append(allFields, got...)
	}

	// ---- readEntry: the size check compares payloadLen > MaxWALPayloadSize, checksum is crc32.ChecksumIEEE
	rf, readEntry := fg.FindFunc(files, "Reader", "readEntry")
	sizeCheck, crcCall, envCall := false, false, false
	ast.Inspect(readEntry.Body, func(n ast.Node) bool {
		switch x := n.(type) {
		case *ast.BinaryExpr:
			if x.Op == token.GTR {
				if a, ok := x.X.(*ast.Ident); ok && a.Name == "payloadLen" {
					if b, ok := x.Y.(*ast.Ident); ok && b.Name == "MaxWALPayloadSize" {
						sizeCheck = true
					}
				}
			}
		case *ast.CallExpr:
			if fg.CalleeName(x) == "ChecksumIEEE" {
				crcCall = true
			}
			if fg.CalleeName(x) == "ParseEnvelope" {
				envCall = true
			}
		}
		return true
	})
	if !sizeCheck {
		return fmt.Errorf("readEntry: `payloadLen > MaxWALPayloadSize` check not found")
	}
	if !crcCall {
		return fmt.Errorf("readEntry: crc32.ChecksumIEEE(payload) not found")
	}
	if !envCall {
		return fmt.Errorf("readEntry: ParseEnvelope call not found")
	}
	// the writers use the same checksum
	for _, fn := range []string{"AppendRaw", "AppendRawWithMeta"} {
		_, fd := fg.FindFunc(files, "Writer", fn)
		if len(fg.CallsNamed(fd.Body, "ChecksumIEEE"))+len(fg.CallsNamed(fd.Body, "NewIEEE")) == 0 {
			return fmt.Errorf("%s: CRC-32 IEEE checksum call not found", fn)
		}
	}

	// ---- ParseEnvelope: the bound `3 + dbLen` must be computed in int (no uint16 wrap-around):
	//      <end> := 3 + int(binary.BigEndian.Uint16(payload[1:3])); if <end> <= len(payload) { return string(payload[3:<end>]), payload[<end>:] }
	pf, parseEnv := fg.FindFunc(files, "", "ParseEnvelope")
	envEnd := ""
	ast.Inspect(parseEnv.Body, func(n ast.Node) bool {
		as, ok := n.(*ast.AssignStmt)
		if !ok || len(as.Lhs) != 1 || len(as.Rhs) != 1 {
			return true
		}
		if strings.ReplaceAll(pf.Text(as.Rhs[0]), " ", "") == "3+int(binary.BigEndian.Uint16(payload[1:3]))" {
			if id, ok := as.Lhs[0].(*ast.Ident); ok {
				envEnd = id.Name
			}
		}
		return true
	})
	if envEnd == "" {
		return fmt.Errorf("ParseEnvelope: `<end> := 3 + int(binary.BigEndian.Uint16(payload[1:3]))` not found (is the bound computed in uint16 again?)")
	}
	envOK := false
	ast.Inspect(parseEnv.Body, func(n ast.Node) bool {
		is, ok := n.(*ast.IfStmt)
		if !ok {
			return true
		}
		if strings.ReplaceAll(pf.Text(is.Cond), " ", "") == envEnd+"<=len(payload)" && len(is.Body.List) == 1 &&
			strings.ReplaceAll(pf.Text(is.Body.List[0]), " ", "") == "returnstring(payload[3:"+envEnd+"]),payload["+envEnd+":]" {
			envOK = true
		}
		return true
	})
	if !envOK {
		return fmt.Errorf("ParseEnvelope: `if %s <= len(payload) { return string(payload[3:%s]), payload[%s:] }` not found", envEnd, envEnd, envEnd)
	}

	// ---- rotate: file name = "arc-" + time.Now().UTC().Format("20060102_150405.<fraction digits>") + ".wal",
	//      opened with O_WRONLY|O_CREATE|O_APPEND. The number of fraction digits is the name's time resolution.
	rotF, rotate := fg.FindFunc(files, "Writer", "rotate")
	nameRes := int64(-1)
	for _, c := range fg.CallsNamed(rotate.Body, "Format") {
		if len(c.Args) != 1 {
			continue
		}
		bl, ok := c.Args[0].(*ast.BasicLit)
		if !ok || bl.Kind != token.STRING {
			continue
		}
		layout, err := strconv.Unquote(bl.Value)
		if err != nil {
			continue
		}
		if !strings.Contains(strings.ReplaceAll(rotF.Text(c.Fun), " ", ""), "time.Now().UTC().Format") {
			return fmt.Errorf("rotate: file name time is no longer time.Now().UTC().Format(…)")
		}
		const pre = "20060102_150405"
		if !strings.HasPrefix(layout, pre) {
			return fmt.Errorf("rotate: unexpected file-name time layout %q", layout)
		}
		frac := strings.TrimPrefix(layout, pre)
		switch {
		case frac == "":
			nameRes = 1_000_000_000
		case frac[0] == '.' && len(frac) <= 10 && strings.Trim(frac[1:], "0") == "":
			nameRes = 1
			for i := len(frac) - 1; i < 9; i++ {
				nameRes *= 10
			}
		default:
			return fmt.Errorf("rotate: unexpected fraction in file-name time layout %q", layout)
		}
	}
	if nameRes < 0 {
		return fmt.Errorf("rotate: time.Now().UTC().Format(<layout>) not found")
	}
	openOK := false
	for _, c := range fg.CallsNamed(rotate.Body, "OpenFile") {
		if len(c.Args) == 3 && strings.ReplaceAll(rotF.Text(c.Args[1]), " ", "") == "os.O_WRONLY|os.O_CREATE|os.O_APPEND" {
			openOK = true
		}
	}
	if !openOK {
		return fmt.Errorf("rotate: os.OpenFile(newPath, os.O_WRONLY|os.O_CREATE|os.O_APPEND, …) not found")
	}

	// ---- ownership: AppendRaw / AppendRawWithMeta copy the caller's payload into a freshly made
	//      entryData and compute the checksum BEFORE tryEnqueue; only entryData is enqueued.
	for _, fn := range []string{"AppendRaw", "AppendRawWithMeta"} {
		ff, fd := fg.FindFunc(files, "Writer", fn)
		madeAt, copyAt, crcAt, enqAt := token.NoPos, token.NoPos, token.NoPos, token.NoPos
		ast.Inspect(fd.Body, func(n ast.Node) bool {
			switch x := n.(type) {
			case *ast.AssignStmt:
				if len(x.Lhs) == 1 && len(x.Rhs) == 1 && ff.Text(x.Lhs[0]) == "entryData" {
					if c, ok := x.Rhs[0].(*ast.CallExpr); ok && fg.CalleeName(c) == "make" {
						madeAt = x.Pos()
					}
				}
			case *ast.CallExpr:
				switch fg.CalleeName(x) {
				case "copy":
					if len(x.Args) == 2 && strings.HasPrefix(ff.Text(x.Args[0]), "entryData[") && ff.Text(x.Args[1]) == "payload" {
						copyAt = x.Pos()
					}
				case "ChecksumIEEE", "Sum32":
					crcAt = x.Pos()
				case "tryEnqueue":
					if len(x.Args) == 1 && ff.Text(x.Args[0]) == "entryData" {
						enqAt = x.Pos()
					} else {
						enqAt = token.Pos(1) // enqueues something else
					}
				}
			}
			return true
		})
		if madeAt == token.NoPos || copyAt == token.NoPos || crcAt == token.NoPos || enqAt == token.NoPos ||
			!(madeAt < copyAt && copyAt < enqAt && crcAt < enqAt) {
			return fmt.Errorf("%s: expected `entryData := make(…)`, `copy(entryData[…], payload)` and the CRC-32 before `tryEnqueue(entryData)` (the caller's slice must not be referenced after return)", fn)
		}
	}

	// ---- size limit: what the writers compare with MaxWALPayloadSize is the length they write
	//      AppendRaw:          `len(payload) > MaxWALPayloadSize`, length field uint32(len(payload))
	//      AppendRawWithMeta:  `totalPayloadLen > MaxWALPayloadSize`, totalPayloadLen := envelopeHeaderLen + len(payload),
	//                          envelopeHeaderLen := 1 + 2 + len(dbBytes), length field uint32(totalPayloadLen)
	//      reader:             `payloadLen > MaxWALPayloadSize` (same identifier = same constant; checked above)
	{
		norm := func(f *fg.File, n ast.Node) string { return strings.ReplaceAll(f.Text(n), " ", "") }
		hasCond := func(f *fg.File, fd *ast.FuncDecl, cond string) bool {
			ok := false
			ast.Inspect(fd.Body, func(n ast.Node) bool {
				if is, y := n.(*ast.IfStmt); y && norm(f, is.Cond) == cond && len(is.Body.List) == 1 {
					if _, r := is.Body.List[0].(*ast.ReturnStmt); r {
						ok = true
					}
				}
				return true
			})
			return ok
		}
		hasAssign := func(f *fg.File, fd *ast.FuncDecl, text string) bool {
			ok := false
			ast.Inspect(fd.Body, func(n ast.Node) bool {
				if as, y := n.(*ast.AssignStmt); y && norm(f, as) == text {
					ok = true
				}
				return true
			})
			return ok
		}
		hasCall := func(f *fg.File, fd *ast.FuncDecl, text string) bool {
			ok := false
			ast.Inspect(fd.Body, func(n ast.Node) bool {
				if c, y := n.(*ast.CallExpr); y && norm(f, c) == text {
					ok = true
				}
				return true
			})
			return ok
		}
		f1, ar := fg.FindFunc(files, "Writer", "AppendRaw")
		if !hasCond(f1, ar, "len(payload)>MaxWALPayloadSize") || !hasCall(f1, ar, "binary.BigEndian.PutUint32(entryData[0:4],uint32(len(payload)))") {
			return fmt.Errorf("AppendRaw: the size test is no longer `len(payload) > MaxWALPayloadSize` on the length it writes")
		}
		f2, am := fg.FindFunc(files, "Writer", "AppendRawWithMeta")
		if !hasCond(f2, am, "totalPayloadLen>MaxWALPayloadSize") ||
			!hasAssign(f2, am, "totalPayloadLen:=envelopeHeaderLen+len(payload)") ||
			!hasAssign(f2, am, "envelopeHeaderLen:=1+2+len(dbBytes)") ||
			!hasCall(f2, am, "binary.BigEndian.PutUint32(entryData[0:4],uint32(totalPayloadLen))") {
			return fmt.Errorf("AppendRawWithMeta: the size test is no longer `totalPayloadLen > MaxWALPayloadSize` with totalPayloadLen = envelope header + payload = the length it writes")
		}
	}

	// ---- Reader→Recovery composition: ReadAll ends with `return entries, nil` (stopping on damaged
	//      framing is NOT an error), and RecoverWithOptions skips a file only when ReadAll errs.
	{
		_, readAllFn := fg.FindFunc(files, "Reader", "ReadAll")
		if readAllFn == nil {
			return fmt.Errorf("Reader.ReadAll not found")
		}
		lastRet, ok := readAllFn.Body.List[len(readAllFn.Body.List)-1].(*ast.ReturnStmt)
		if !ok || strings.ReplaceAll(rf.Text(lastRet), " ", "") != "returnentries,nil" {
			return fmt.Errorf("ReadAll: no longer ends with `return entries, nil` — a torn tail would become an error and Recovery drops the whole file")
		}
		rcF, rec := fg.FindFunc(files, "Recovery", "RecoverWithOptions")
		if rec == nil {
			return fmt.Errorf("Recovery.RecoverWithOptions not found")
		}
		okShape := false
		ast.Inspect(rec.Body, func(n ast.Node) bool {
			bl, y := n.(*ast.BlockStmt)
			if !y {
				return true
			}
			for i := 0; i+1 < len(bl.List); i++ {
				if strings.ReplaceAll(rcF.Text(bl.List[i]), " ", "") == "entries,err:=reader.ReadAll()" {
					if is, y2 := bl.List[i+1].(*ast.IfStmt); y2 && rcF.Text(is.Cond) == "err != nil" && len(is.Body.List) > 0 {
						if br, y3 := is.Body.List[len(is.Body.List)-1].(*ast.BranchStmt); y3 && br.Tok == token.CONTINUE {
							okShape = true
						}
					}
				}
			}
			return true
		})
		if !okShape {
			return fmt.Errorf("RecoverWithOptions: `entries, err := reader.ReadAll(); if err != nil { …; continue }` not found")
		}
	}

	// ---- recovery order: findWALFiles sorts the Glob result (name order) with sort.Slice by
	//      ModTime; comparator strictness decides what happens to files with equal mtimes.
	recF, findWAL := fg.FindFunc(files, "Recovery", "findWALFiles")
	if findWAL == nil {
		return fmt.Errorf("Recovery.findWALFiles not found")
	}
	mtimeStrict := -1
	for _, c := range fg.CallsNamed(findWAL.Body, "Slice") {
		if len(c.Args) != 2 {
			continue
		}
		fl, ok := c.Args[1].(*ast.FuncLit)
		if !ok || len(fl.Body.List) == 0 {
			continue
		}
		ret, ok := fl.Body.List[len(fl.Body.List)-1].(*ast.ReturnStmt)
		if !ok || len(ret.Results) != 1 {
			continue
		}
		switch r := ret.Results[0].(type) {
		case *ast.CallExpr:
			if fg.CalleeName(r) == "Before" {
				mtimeStrict = 1
			}
		case *ast.UnaryExpr:
			if c2, ok := r.X.(*ast.CallExpr); ok && r.Op == token.NOT && fg.CalleeName(c2) == "After" {
				mtimeStrict = 0
			}
		}
	}
	if mtimeStrict < 0 {
		return fmt.Errorf("findWALFiles: sort.Slice comparator ending in `return a.Before(b)` (or `!a.After(b)`) not found: %s", recF.Path)
	}
	if len(fg.CallsNamed(findWAL.Body, "Glob")) != 1 {
		return fmt.Errorf("findWALFiles: filepath.Glob call not found")
	}

	// ---- ReadAll: the loop `for { entry, err := r.readEntry(f); if err == io.EOF {break}; if err != nil {…; POLICY}; … }`
	_, readAll := fg.FindFunc(files, "Reader", "ReadAll")
	if readAll == nil {
		return fmt.Errorf("Reader.ReadAll not found")
	}
	var loop *ast.ForStmt
	ast.Inspect(readAll.Body, func(n ast.Node) bool {
		f, ok := n.(*ast.ForStmt)
		if !ok || loop != nil {
			return true
		}
		if len(f.Body.List) > 0 {
			if as, ok := f.Body.List[0].(*ast.AssignStmt); ok && len(as.Rhs) == 1 {
				if c, ok := as.Rhs[0].(*ast.CallExpr); ok && fg.CalleeName(c) == "readEntry" {
					loop = f
				}
			}
		}
		return true
	})
	if loop == nil {
		return fmt.Errorf("ReadAll: `for { entry, err := r.readEntry(f) … }` loop not found")
	}
	if loop.Cond != nil || loop.Init != nil || loop.Post != nil {
		return fmt.Errorf("ReadAll: readEntry loop is no longer an unconditional `for {}`")
	}
	var eofIf, errIf *ast.IfStmt
	for _, st := range loop.Body.List[1:] {
		is, ok := st.(*ast.IfStmt)
		if !ok {
			continue
		}
		cond := rf.Text(is.Cond)
		switch {
		case cond == "err == io.EOF" && eofIf == nil:
			eofIf = is
		case cond == "err != nil" && errIf == nil:
			errIf = is
		}
	}
	if eofIf == nil || len(eofIf.Body.List) != 1 || rf.Text(eofIf.Body.List[0]) != "break" {
		return fmt.Errorf("ReadAll: `if err == io.EOF { break }` not found in the readEntry loop")
	}
	if errIf == nil || len(errIf.Body.List) == 0 {
		return fmt.Errorf("ReadAll: `if err != nil { … }` not found in the readEntry loop")
	}
	if eofIf.Pos() > errIf.Pos() {
		return fmt.Errorf("ReadAll: the io.EOF test no longer precedes the generic error test")
	}
	// classify the branch statements of the error block
	type br struct {
		tok  token.Token
		cond string // enclosing inner-if condition ("" = top level of the block)
	}
	var brs []br
	for _, st := range errIf.Body.List {
		switch x := st.(type) {
		case *ast.BranchStmt:
			brs = append(brs, br{x.Tok, ""})
		case *ast.ReturnStmt:
			brs = append(brs, br{token.RETURN, ""})
		case *ast.IfStmt:
			if x.Else != nil || x.Init != nil {
				return fmt.Errorf("ReadAll: unsupported nested if/else in the error block")
			}
			for _, s2 := range x.Body.List {
				switch y := s2.(type) {
				case *ast.BranchStmt:
					brs = append(brs, br{y.Tok, rf.Text(x.Cond)})
				case *ast.ReturnStmt:
					brs = append(brs, br{token.RETURN, rf.Text(x.Cond)})
				case *ast.IfStmt, *ast.ForStmt, *ast.SwitchStmt:
					return fmt.Errorf("ReadAll: unsupported nested control flow in the error block")
				}
			}
		case *ast.ForStmt, *ast.SwitchStmt, *ast.RangeStmt:
			return fmt.Errorf("ReadAll: unsupported control flow in the error block")
		}
	}
	frameCont, decodeCont := false, false
	policyShape := ""
	switch {
	case len(brs) == 1 && brs[0].cond == "" && brs[0].tok == token.CONTINUE:
		frameCont, decodeCont, policyShape = true, true, "continue-on-every-error"
	case len(brs) == 1 && brs[0].cond == "" && (brs[0].tok == token.BREAK || brs[0].tok == token.RETURN):
		frameCont, decodeCont, policyShape = false, false, "stop-on-every-error"
	case len(brs) == 2 && brs[0].tok == token.CONTINUE && strings.HasPrefix(brs[0].cond, "errors.Is(err, ") &&
		brs[1].cond == "" && (brs[1].tok == token.BREAK || brs[1].tok == token.RETURN):
		// `if errors.Is(err, X) { continue }; break` — accepted only when X is returned by readEntry
		// exclusively from its final (post-CRC, deserialisation) return.
		sentinel := strings.TrimSuffix(strings.TrimPrefix(brs[0].cond, "errors.Is(err, "), ")")
		var rets []*ast.ReturnStmt
		ast.Inspect(readEntry.Body, func(n ast.Node) bool {
			if r, ok := n.(*ast.ReturnStmt); ok && strings.Contains(rf.Text(r), sentinel) {
				rets = append(rets, r)
			}
			return true
		})
		last := readEntry.Body.List[len(readEntry.Body.List)-1]
		if len(rets) != 1 || ast.Node(rets[0]) != ast.Node(last) {
			return fmt.Errorf("ReadAll continues on %s, but readEntry does not return it exactly once, from its final deserialisation return", sentinel)
		}
		frameCont, decodeCont, policyShape = false, true, "continue-only-on:"+sentinel
	default:
		return fmt.Errorf("ReadAll: unrecognised on-error policy in the readEntry loop (%d branch statements)", len(brs))
	}
	// readEntry maps a short entry header to io.EOF (stop): `if err == io.EOF || err == io.ErrUnexpectedEOF { return nil, io.EOF }`
	shortHdr := false
	ast.Inspect(readEntry.Body, func(n ast.Node) bool {
		is, ok := n.(*ast.IfStmt)
		if !ok {
			return true
		}
		if rf.Text(is.Cond) == "err == io.EOF || err == io.ErrUnexpectedEOF" && len(is.Body.List) == 1 &&
			rf.Text(is.Body.List[0]) == "return nil, io.EOF" {
			shortHdr = true
		}
		return true
	})
	if !shortHdr {
		return fmt.Errorf("readEntry: short entry header is no longer mapped to io.EOF")
	}

	w := &out.Lean
	fmt.Fprintf(w, "namespace Arc.Generated.C06\n")
	fmt.Fprintf(w, "def entryHeaderSize : Nat := %d\n", vals["WALEntryHeaderSize"])
	fmt.Fprintf(w, "def fileHeaderSize : Nat := %d\n", vals["WALFileHeaderSize"])
	fmt.Fprintf(w, "def maxPayload : Nat := %d\n", vals["MaxWALPayloadSize"])
	fmt.Fprintf(w, "def envelopeMarker : Nat := %d\n", vals["WALEnvelopeMarker"])
	fmt.Fprintf(w, "def checksumType : Nat := %d\n", vals["WALChecksumCRC32"])
	fmt.Fprintf(w, "def version : Nat := %d\n", vals["WALVersion"])
	ms := make([]string, len(magic))
	for i, m := range magic {
		ms[i] = fmt.Sprint(m)
	}
	fmt.Fprintf(w, "def magic : List Nat := [%s]\n", strings.Join(ms, ", "))
	fmt.Fprintf(w, "/-- (function, call, lo, hi) of every big-endian header field access, in source order -/\n")
	fmt.Fprintf(w, "def fields : List (String × String × Nat × Nat) := [\n")
	for i, f := range allFields {
		sep := ","
		if i == len(allFields)-1 {
			sep = ""
		}
		fmt.Fprintf(w, "  (%s, %s, %d, %d)%s\n", fg.LeanStr(f.Fn), fg.LeanStr(f.Call), f.Lo, f.Hi, sep)
	}
	fmt.Fprintf(w, "]\n")
	fmt.Fprintf(w, "/-- Reader.ReadAll's loop after a framing error (size cap, short payload, CRC mismatch): true = `continue` -/\n")
	fmt.Fprintf(w, "def frameErrContinues : Bool := %v\n", frameCont)
	fmt.Fprintf(w, "/-- … and after a CRC-valid entry that fails to deserialise: true = `continue` -/\n")
	fmt.Fprintf(w, "def decodeErrContinues : Bool := %v\n", decodeCont)
	fmt.Fprintf(w, "def policyShape : String := %s\n", fg.LeanStr(policyShape))
	fmt.Fprintf(w, "/-- ParseEnvelope computes `3 + dbLen` in int (shape checked above): no uint16 wrap-around -/\n")
	fmt.Fprintf(w, "def envelopeBoundInInt : Bool := true\n")
	fmt.Fprintf(w, "/-- resolution (ns) of the time in rotate's file name layout; files are opened O_CREATE|O_APPEND -/\n")
	fmt.Fprintf(w, "def fileNameResolutionNs : Nat := %d\n", nameRes)
	fmt.Fprintf(w, "/-- AppendRaw/AppendRawWithMeta copy the payload into a fresh entry and checksum it before enqueueing (shape checked) -/\n")
	fmt.Fprintf(w, "def appendCopiesBeforeEnqueue : Bool := true\n")
	fmt.Fprintf(w, "/-- findWALFiles' mtime comparator: true = `Before` (strict <), false = `!After` (<=) -/\n")
	fmt.Fprintf(w, "def mtimeComparatorStrict : Bool := %v\n", mtimeStrict == 1)
	fmt.Fprintf(w, "/-- the writers compare the length they WRITE (envelope included) with MaxWALPayloadSize, the reader the same constant -/\n")
	fmt.Fprintf(w, "def sizeLimitOnWrittenLength : Bool := true\n")
	fmt.Fprintf(w, "/-- ReadAll ends with `return entries, nil`; RecoverWithOptions skips a file only on a ReadAll error -/\n")
	fmt.Fprintf(w, "def readAllStopIsNotAnError : Bool := true\n")
	fmt.Fprintf(w, "end Arc.Generated.C06\n")
	for k, v := range vals {
		out.JSON[k] = v
	}
	out.JSON["magic"] = magic
	out.JSON["fields"] = allFields
	out.JSON["frame_err_continues"] = frameCont
	out.JSON["decode_err_continues"] = decodeCont
	out.JSON["policy_shape"] = policyShape
	out.JSON["envelope_bound_in_int"] = true
	out.JSON["append_copies_before_enqueue"] = true
	out.JSON["mtime_comparator_strict"] = mtimeStrict == 1
	out.JSON["file_name_resolution_ns"] = nameRes
	return nil
}
