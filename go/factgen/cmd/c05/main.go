package main

import (
	"fmt"
	"go/ast"
	"go/token"
	"math"
	"strconv"
	"strings"
	"verif/factgen/fg"
)

// C05 facts:
//  * cmd/arc/main.go createWALRecoveryCallback: the key chains that select measurement / database, the
//    default database, and the keys REMOVED from the replayed columns (read from the `key == …` chain);
//    createColumnarRecoveryCallback: its default database;
//  * internal/ingest/arrow_writer.go columnarToWALRecords / typedBatchToWALRecords: the two routing keys
//    written into every WAL row; WriteColumnarDirectNoWAL: the ordered calls (normalise, sanitise, write
//    with skipWAL=true);
//  * internal/ingest/msgpack.go normalizeTimestampColumns: the threshold -> multiplier table;
//  * internal/wal/recovery.go RecoverWithOptions: inside the per-file loop every os.Remove(walFile) comes
//    after the entry loop that invokes the callbacks, guarded by allEntriesSucceeded, and no flush call
//    lies between them.
func main() { fg.Main("C05", c05) }

func strLit(e ast.Expr) (string, bool) {
	b, ok := e.(*ast.BasicLit)
	if !ok || b.Kind != token.STRING {
		return "", false
	}
	s, err := strconv.Unquote(b.Value)
	return s, err == nil
}

func bytesLean(s string) string {
	var ps []string
	for _, b := range []byte(s) {
		ps = append(ps, strconv.Itoa(int(b)))
	}
	return "[" + strings.Join(ps, ", ") + "]"
}

func listLean(xs []string) string {
	var ps []string
	for _, x := range xs {
		ps = append(ps, bytesLean(x))
	}
	return "[" + strings.Join(ps, ", ") + "]"
}

// rec["k"].(string) -> k
func recKey(e ast.Expr) (string, bool) {
	ta, ok := e.(*ast.TypeAssertExpr)
	if !ok {
		return "", false
	}
	if id, ok := ta.Type.(*ast.Ident); !ok || id.Name != "string" {
		return "", false
	}
	ix, ok := ta.X.(*ast.IndexExpr)
	if !ok {
		return "", false
	}
	if id, ok := ix.X.(*ast.Ident); !ok || id.Name != "rec" {
		return "", false
	}
	return strLit(ix.Index)
}

func numLit(e ast.Expr) (int64, bool) {
	neg := false
	if u, ok := e.(*ast.UnaryExpr); ok && u.Op == token.SUB {
		neg = true
		e = u.X
	}
	b, ok := e.(*ast.BasicLit)
	if !ok || (b.Kind != token.INT && b.Kind != token.FLOAT) {
		return 0, false
	}
	f, err := strconv.ParseFloat(strings.ReplaceAll(b.Value, "_", ""), 64)
	if err != nil || f != math.Trunc(f) || math.Abs(f) > 9e18 {
		return 0, false
	}
	v := int64(f)
	if neg {
		v = -v
	}
	return v, true
}

func c05(repo string, out *fg.Out) error {
	mainF, err := fg.ParseFile(repo, "cmd/arc/main.go")
	if err != nil {
		return err
	}
	// ---- row callback
	fd := mainF.FuncDecl("", "createWALRecoveryCallback")
	if fd == nil {
		return fmt.Errorf("createWALRecoveryCallback not found")
	}
	var measKeys, dbKeys, removed []string
	dbDefault := ""
	haveDefault := false
	var shapeErr error
	ast.Inspect(fd, func(n ast.Node) bool {
		switch x := n.(type) {
		case *ast.AssignStmt:
			if len(x.Lhs) >= 1 && len(x.Rhs) == 1 {
				id, ok := x.Lhs[0].(*ast.Ident)
				if !ok {
					return true
				}
				if k, ok := recKey(x.Rhs[0]); ok {
					switch id.Name {
					case "measurement":
						measKeys = append(measKeys, k)
					case "database":
						dbKeys = append(dbKeys, k)
					}
				} else if s, ok := strLit(x.Rhs[0]); ok && id.Name == "database" {
					if haveDefault {
						shapeErr = fmt.Errorf("two string defaults assigned to database")
					}
					dbDefault, haveDefault = s, true
				}
			}
		case *ast.IfStmt:
			// if key == "a" || key == "b" … { continue }
			var keys []string
			ok := true
			var walk func(e ast.Expr)
			walk = func(e ast.Expr) {
				be, isB := e.(*ast.BinaryExpr)
				if !isB {
					ok = false
					return
				}
				switch be.Op {
				case token.LOR:
					walk(be.X)
					walk(be.Y)
				case token.EQL:
					id, isId := be.X.(*ast.Ident)
					s, isS := strLit(be.Y)
					if !isId || id.Name != "key" || !isS {
						ok = false
						return
					}
					keys = append(keys, s)
				default:
					ok = false
				}
			}
			walk(x.Cond)
			if ok && len(keys) > 0 {
				if len(x.Body.List) != 1 {
					shapeErr = fmt.Errorf("key filter body is not a single continue")
					return true
				}
				if br, isBr := x.Body.List[0].(*ast.BranchStmt); !isBr || br.Tok != token.CONTINUE {
					shapeErr = fmt.Errorf("key filter body is not `continue`")
					return true
				}
				if removed != nil {
					shapeErr = fmt.Errorf("two key filters in createWALRecoveryCallback")
				}
				removed = keys
			}
		}
		return true
	})
	if shapeErr != nil {
		return shapeErr
	}
	if len(measKeys) == 0 || len(dbKeys) == 0 || !haveDefault || len(removed) == 0 {
		return fmt.Errorf("createWALRecoveryCallback: expected measurement chain, database chain, default and key filter; got %v %v %v %v", measKeys, dbKeys, haveDefault, removed)
	}
	if len(fg.CallsNamed(fd, "WriteColumnarDirectNoWAL")) != 1 {
		return fmt.Errorf("createWALRecoveryCallback: expected exactly one WriteColumnarDirectNoWAL call")
	}
	// ---- columnar callback
	fc := mainF.FuncDecl("", "createColumnarRecoveryCallback")
	if fc == nil {
		return fmt.Errorf("createColumnarRecoveryCallback not found")
	}
	colDefault, n := "", 0
	ast.Inspect(fc, func(nd ast.Node) bool {
		if as, ok := nd.(*ast.AssignStmt); ok && len(as.Lhs) == 1 && len(as.Rhs) == 1 {
			if id, ok := as.Lhs[0].(*ast.Ident); ok && id.Name == "database" {
				if s, ok := strLit(as.Rhs[0]); ok {
					colDefault = s
					n++
				}
			}
		}
		return true
	})
	if n != 1 || len(fg.CallsNamed(fc, "WriteColumnarDirectNoWAL")) != 1 {
		return fmt.Errorf("createColumnarRecoveryCallback: expected one default database and one WriteColumnarDirectNoWAL call")
	}

	// ---- WAL row keys
	aw, err := fg.ParseFile(repo, "internal/ingest/arrow_writer.go")
	if err != nil {
		return err
	}
	// routing keys of a WAL row: from the `row := map…{…}` literal and/or `row["k"] = …` assignments;
	// last = both keys are (re)assigned AFTER the loop that copies the column values into the row
	rowKeys := func(recv, name string) ([]string, bool, error) {
		f := aw.FuncDecl(recv, name)
		if f == nil {
			return nil, false, fmt.Errorf("%s not found", name)
		}
		var keys []string
		add := func(k string) {
			for _, x := range keys {
				if x == k {
					return
				}
			}
			keys = append(keys, k)
		}
		var colLoop *ast.RangeStmt
		after := map[string]bool{}
		ast.Inspect(f, func(nd ast.Node) bool {
			switch x := nd.(type) {
			case *ast.RangeStmt:
				if id, ok := x.Key.(*ast.Ident); ok && id.Name == "colName" {
					colLoop = x
				}
			case *ast.AssignStmt:
				if len(x.Lhs) == 1 && len(x.Rhs) == 1 {
					if id, ok := x.Lhs[0].(*ast.Ident); ok && id.Name == "row" {
						if cl, ok := x.Rhs[0].(*ast.CompositeLit); ok {
							for _, el := range cl.Elts {
								if kvp, ok := el.(*ast.KeyValueExpr); ok {
									if s, ok := strLit(kvp.Key); ok {
										add(s)
									}
								}
							}
						}
					}
					if ix, ok := x.Lhs[0].(*ast.IndexExpr); ok {
						if id, ok := ix.X.(*ast.Ident); ok && id.Name == "row" {
							if s, ok := strLit(ix.Index); ok {
								add(s)
								if colLoop != nil && x.Pos() > colLoop.End() {
									after[s] = true
								}
							}
						}
					}
				}
			}
			return true
		})
		if len(keys) != 2 || colLoop == nil {
			return nil, false, fmt.Errorf("%s: expected two routing keys and a `for colName, … := range` loop, got %v", name, keys)
		}
		if keys[0] != "_database" && keys[1] == "_database" {
			keys[0], keys[1] = keys[1], keys[0]
		}
		return keys, after[keys[0]] && after[keys[1]], nil
	}
	k1, last1, err := rowKeys("ArrowBuffer", "columnarToWALRecords")
	if err != nil {
		return err
	}
	k2, last2, err := rowKeys("", "typedBatchToWALRecords")
	if err != nil {
		return err
	}
	if last1 != last2 {
		return fmt.Errorf("the two WAL row builders disagree on whether the routing keys are written last (%v vs %v)", last1, last2)
	}
	if k1[0] != k2[0] || k1[1] != k2[1] {
		return fmt.Errorf("the two WAL row builders use different routing keys: %v vs %v", k1, k2)
	}
	// ---- WriteColumnarDirectNoWAL call order
	nw := aw.FuncDecl("ArrowBuffer", "WriteColumnarDirectNoWAL")
	if nw == nil {
		return fmt.Errorf("WriteColumnarDirectNoWAL not found")
	}
	var calls []string
	skipWAL := false
	ast.Inspect(nw, func(nd ast.Node) bool {
		if c, ok := nd.(*ast.CallExpr); ok {
			switch nm := fg.CalleeName(c); nm {
			case "normalizeTimestampColumns", "sanitizeColumnarStrings", "writeColumnarInternal":
				calls = append(calls, nm)
				if nm == "writeColumnarInternal" && len(c.Args) == 4 {
					if id, ok := c.Args[3].(*ast.Ident); ok && id.Name == "true" {
						skipWAL = true
					}
				}
			}
		}
		return true
	})
	if strings.Join(calls, ",") != "normalizeTimestampColumns,sanitizeColumnarStrings,writeColumnarInternal" || !skipWAL {
		return fmt.Errorf("WriteColumnarDirectNoWAL: expected normalise, sanitise, writeColumnarInternal(…, true); got %v skipWAL=%v", calls, skipWAL)
	}
	// generated time when "time" is absent
	genTime := false
	ast.Inspect(nw, func(nd ast.Node) bool {
		if is, ok := nd.(*ast.IfStmt); ok && strings.Contains(aw.Text(is.Cond), "!ok") && is.Init != nil && strings.Contains(aw.Text(is.Init), `columns["time"]`) {
			genTime = strings.Contains(aw.Text(is.Body), "UnixMicro()")
		}
		return true
	})
	if !genTime {
		return fmt.Errorf("WriteColumnarDirectNoWAL: generated-time branch (`if _, ok := columns[\"time\"]; !ok`) not found")
	}

	// ---- threshold table
	mp, err := fg.ParseFile(repo, "internal/ingest/msgpack.go")
	if err != nil {
		return err
	}
	nt := mp.FuncDecl("", "normalizeTimestampColumns")
	if nt == nil {
		return fmt.Errorf("normalizeTimestampColumns not found")
	}
	type row struct{ Below, Mult int64 }
	var table []row
	var elseMult int64
	found := false
	ast.Inspect(nt, func(nd ast.Node) bool {
		is, ok := nd.(*ast.IfStmt)
		if !ok || found {
			return true
		}
		be, ok := is.Cond.(*ast.BinaryExpr)
		if !ok || be.Op != token.LSS {
			return true
		}
		if id, ok := be.X.(*ast.Ident); !ok || id.Name != "firstVal" {
			return true
		}
		found = true
		cur := is
		for {
			b, _ := cur.Cond.(*ast.BinaryExpr)
			if b == nil || b.Op != token.LSS {
				shapeErr = fmt.Errorf("normalizeTimestampColumns: unexpected condition %s", mp.Text(cur.Cond))
				return false
			}
			th, ok1 := numLit(b.Y)
			mult, ok2 := multAssign(cur.Body)
			if !ok1 || !ok2 {
				shapeErr = fmt.Errorf("normalizeTimestampColumns: cannot read threshold/multiplier at line %d", mp.Line(cur))
				return false
			}
			table = append(table, row{th, mult})
			switch e := cur.Else.(type) {
			case *ast.IfStmt:
				cur = e
				continue
			case *ast.BlockStmt:
				m, ok := multAssign(e)
				if !ok {
					shapeErr = fmt.Errorf("normalizeTimestampColumns: final else does not assign multiplier")
					return false
				}
				elseMult = m
			default:
				shapeErr = fmt.Errorf("normalizeTimestampColumns: chain has no final else")
			}
			break
		}
		return false
	})
	if shapeErr != nil {
		return shapeErr
	}
	if !found || len(table) == 0 {
		return fmt.Errorf("normalizeTimestampColumns: threshold chain on firstVal not found")
	}
	if !strings.Contains(mp.Text(nt), "if multiplier < 0") || !strings.Contains(mp.Text(nt), "ts / divisor") || !strings.Contains(mp.Text(nt), "ts * multiplier") {
		return fmt.Errorf("normalizeTimestampColumns: negative-multiplier-means-division shape not found")
	}

	// ---- recovery order
	rf, err := fg.ParseFile(repo, "internal/wal/recovery.go")
	if err != nil {
		return err
	}
	rw := rf.FuncDecl("Recovery", "RecoverWithOptions")
	if rw == nil {
		return fmt.Errorf("RecoverWithOptions not found")
	}
	var fileLoop *ast.RangeStmt
	ast.Inspect(rw, func(nd ast.Node) bool {
		if rs, ok := nd.(*ast.RangeStmt); ok && fileLoop == nil {
			if id, ok := rs.Value.(*ast.Ident); ok && id.Name == "walFile" {
				fileLoop = rs
			}
		}
		return true
	})
	if fileLoop == nil {
		return fmt.Errorf("RecoverWithOptions: `for _, walFile := range …` not found")
	}
	var entryLoop *ast.RangeStmt
	for _, st := range fileLoop.Body.List {
		if rs, ok := st.(*ast.RangeStmt); ok {
			if id, ok := rs.Value.(*ast.Ident); ok && id.Name == "entry" {
				if entryLoop != nil {
					return fmt.Errorf("two entry loops")
				}
				entryLoop = rs
			}
		}
	}
	if entryLoop == nil {
		return fmt.Errorf("RecoverWithOptions: entry loop is not a direct statement of the file loop")
	}
	nCb := 0
	ast.Inspect(entryLoop, func(nd ast.Node) bool {
		if c, ok := nd.(*ast.CallExpr); ok {
			t := rf.Text(c.Fun)
			if t == "callback" || t == "opts.ColumnarCallback" {
				nCb++
			}
		}
		return true
	})
	if nCb < 2 {
		return fmt.Errorf("RecoverWithOptions: callbacks are not invoked inside the entry loop")
	}
	removeAfter, removeGuarded, nRemove := true, true, 0
	flushBetween := false
	var inspectIf func(st ast.Stmt, guarded bool)
	inspectIf = func(st ast.Stmt, guarded bool) {
		ast.Inspect(st, func(nd ast.Node) bool {
			c, ok := nd.(*ast.CallExpr)
			if !ok {
				return true
			}
			t := rf.Text(c.Fun)
			if t == "os.Remove" && len(c.Args) == 1 && rf.Text(c.Args[0]) == "walFile" {
				nRemove++
				if c.Pos() < entryLoop.End() {
					removeAfter = false
				}
				if !guarded {
					removeGuarded = false
				}
			}
			if strings.Contains(t, "Flush") {
				flushBetween = true
			}
			return true
		})
	}
	for _, st := range fileLoop.Body.List {
		if st.Pos() < entryLoop.End() {
			// statements before / the entry loop itself
			ast.Inspect(st, func(nd ast.Node) bool {
				if c, ok := nd.(*ast.CallExpr); ok && rf.Text(c.Fun) == "os.Remove" {
					removeAfter = false
					nRemove++
				}
				return true
			})
			continue
		}
		guarded := false
		if is, ok := st.(*ast.IfStmt); ok {
			guarded = strings.Contains(rf.Text(is.Cond), "allEntriesSucceeded")
		}
		inspectIf(st, guarded)
	}
	if nRemove == 0 {
		return fmt.Errorf("RecoverWithOptions: no os.Remove(walFile) in the file loop")
	}
	// every callback invocation sits in `if err := <cb>(…); err != nil { … allEntriesSucceeded = false … }`
	// directly inside the entry loop (a callback handed to a helper, or an error branch that does not clear
	// the flag, makes the fact false)
	nGuardedCol, nGuardedRow, nCallsCol, nCallsRow := 0, 0, 0, 0
	ast.Inspect(entryLoop, func(nd ast.Node) bool {
		switch x := nd.(type) {
		case *ast.CallExpr:
			switch rf.Text(x.Fun) {
			case "opts.ColumnarCallback":
				nCallsCol++
			case "callback":
				nCallsRow++
			}
		case *ast.IfStmt:
			as, ok := x.Init.(*ast.AssignStmt)
			if !ok || len(as.Rhs) != 1 {
				return true
			}
			call, ok := as.Rhs[0].(*ast.CallExpr)
			if !ok {
				return true
			}
			fn := rf.Text(call.Fun)
			if fn != "opts.ColumnarCallback" && fn != "callback" {
				return true
			}
			if rf.Text(x.Cond) != "err != nil" {
				return true
			}
			clears := false
			for _, st := range x.Body.List {
				if a, ok := st.(*ast.AssignStmt); ok && len(a.Lhs) == 1 && rf.Text(a.Lhs[0]) == "allEntriesSucceeded" && rf.Text(a.Rhs[0]) == "false" {
					clears = true
				}
			}
			if clears {
				if fn == "callback" {
					nGuardedRow++
				} else {
					nGuardedCol++
				}
			}
		}
		return true
	})
	// any mention of a callback anywhere else in the function body (e.g. passed to a helper) is not covered
	passedOn := strings.Count(rf.Text(rw), "opts.ColumnarCallback") - nCallsCol - 1 // -1: the `!= nil` dispatch test
	cbErrClears := nCallsCol >= 1 && nCallsRow >= 2 && nGuardedCol == nCallsCol && nGuardedRow == nCallsRow && passedOn == 0

	// ---- the WAL directory string: main() hands the SAME expression to NewWriter and NewRecovery, compares
	// writer.CurrentFile() with the recovery's file list; both sides build paths as filepath.Join(dir, …) and
	// neither rewrites the directory
	wsrc, err := fg.ParseFile(repo, "internal/wal/wal.go")
	if err != nil {
		return err
	}
	wtxt := string(wsrc.Src)
	mtxt := string(mainF.Src)
	rtxt := string(rf.Src)
	dirRewritten := false
	ast.Inspect(wsrc.AST, func(nd ast.Node) bool {
		if as, ok := nd.(*ast.AssignStmt); ok {
			for _, l := range as.Lhs {
				t := wsrc.Text(l)
				if t == "cfg.WALDir" || t == "w.config.WALDir" || t == "config.WALDir" {
					dirRewritten = true
				}
			}
		}
		return true
	})
	ast.Inspect(rf.AST, func(nd ast.Node) bool {
		if as, ok := nd.(*ast.AssignStmt); ok {
			for _, l := range as.Lhs {
				if rf.Text(l) == "r.walDir" {
					dirRewritten = true
				}
			}
		}
		return true
	})
	dirVerbatim := !dirRewritten &&
		strings.Contains(wtxt, "newPath := filepath.Join(w.config.WALDir, filename)") &&
		strings.Contains(wtxt, "w.currentPath = newPath") &&
		strings.Contains(rtxt, `pattern := filepath.Join(r.walDir, "*.wal")`) &&
		strings.Contains(rtxt, "walDir: walDir,") &&
		strings.Contains(rtxt, "walFile == opts.SkipActiveFile") &&
		strings.Contains(mtxt, "WALDir:       cfg.WAL.Directory,") &&
		strings.Contains(mtxt, "walRecovery = wal.NewRecovery(cfg.WAL.Directory,") &&
		strings.Contains(mtxt, "startupActiveFile = walWriter.CurrentFile()") &&
		strings.Contains(mtxt, "SkipActiveFile:   startupActiveFile,")

	// ---- parseColumnarEntry: which dynamic types of "m" are accepted
	rd, err := fg.ParseFile(repo, "internal/wal/reader.go")
	if err != nil {
		return err
	}
	pce := rd.FuncDecl("", "parseColumnarEntry")
	if pce == nil {
		return fmt.Errorf("parseColumnarEntry not found")
	}
	ptxt := rd.Text(pce)
	acceptsStr := strings.Contains(ptxt, `rawMap["m"].(string)`) || strings.Contains(ptxt, "case string:")
	acceptsInt := strings.Contains(ptxt, `rawMap["m"].(type)`) && strings.Contains(ptxt, "case int, int8, int16, int32, int64, uint, uint8, uint16, uint32, uint64:") &&
		strings.Contains(ptxt, `fmt.Sprintf("measurement_%v", v)`)
	if !acceptsStr {
		return fmt.Errorf("parseColumnarEntry: string measurement branch not found")
	}

	// ---- ownership of the queued WAL entry: Append* copy the caller's payload into a fresh buffer that is the
	// ONLY thing handed to the writer goroutine (the caller may re-use its slice as soon as the call returns)
	wf, err := fg.ParseFile(repo, "internal/wal/wal.go")
	if err != nil {
		return err
	}
	copies := func(name string) (bool, error) {
		f := wf.FuncDecl("Writer", name)
		if f == nil {
			return false, fmt.Errorf("wal.Writer.%s not found", name)
		}
		mk, cp, enq := false, false, false
		ast.Inspect(f, func(nd ast.Node) bool {
			switch x := nd.(type) {
			case *ast.AssignStmt:
				if len(x.Lhs) == 1 && len(x.Rhs) == 1 {
					if id, ok := x.Lhs[0].(*ast.Ident); ok && id.Name == "entryData" {
						if c, ok := x.Rhs[0].(*ast.CallExpr); ok && fg.CalleeName(c) == "make" {
							mk = true
						}
					}
				}
			case *ast.CallExpr:
				switch fg.CalleeName(x) {
				case "copy":
					if len(x.Args) == 2 && wf.Text(x.Args[1]) == "payload" && strings.HasPrefix(wf.Text(x.Args[0]), "entryData[") {
						cp = true
					}
				case "tryEnqueue":
					if len(x.Args) == 1 && wf.Text(x.Args[0]) == "entryData" {
						enq = true
					}
				}
			}
			return true
		})
		return mk && cp && enq, nil
	}
	c1, err := copies("AppendRawWithMeta")
	if err != nil {
		return err
	}
	c2, err := copies("AppendRaw")
	if err != nil {
		return err
	}
	entryFields := 0
	ast.Inspect(wf.AST, func(nd ast.Node) bool {
		if ts, ok := nd.(*ast.TypeSpec); ok && ts.Name.Name == "walEntry" {
			if st, ok := ts.Type.(*ast.StructType); ok {
				for _, fl := range st.Fields.List {
					entryFields += len(fl.Names)
				}
			}
		}
		return true
	})
	if entryFields == 0 {
		return fmt.Errorf("type walEntry struct not found in internal/wal/wal.go")
	}
	ownsCopy := c1 && c2 && entryFields == 1

	// ---- emit
	L := &out.Lean
	fmt.Fprintf(L, "namespace Arc.Generated.C05\n")
	fmt.Fprintf(L, "/-- createWALRecoveryCallback: keys tried (in order) for the measurement / database of a replayed row -/\n")
	fmt.Fprintf(L, "def measKeys : List (List Nat) := %s\n", listLean(measKeys))
	fmt.Fprintf(L, "def dbKeys : List (List Nat) := %s\n", listLean(dbKeys))
	fmt.Fprintf(L, "def dbDefault : List Nat := %s\n", bytesLean(dbDefault))
	fmt.Fprintf(L, "/-- keys removed from the columns of a replayed row (the `key == …` chain) -/\n")
	fmt.Fprintf(L, "def removedKeys : List (List Nat) := %s\n", listLean(removed))
	fmt.Fprintf(L, "def colDbDefault : List Nat := %s\n", bytesLean(colDefault))
	fmt.Fprintf(L, "/-- routing keys columnarToWALRecords / typedBatchToWALRecords put into every WAL row -/\n")
	fmt.Fprintf(L, "def walDbKey : List Nat := %s\n", bytesLean(k1[0]))
	fmt.Fprintf(L, "def walMeasKey : List Nat := %s\n", bytesLean(k1[1]))
	fmt.Fprintf(L, "/-- the routing keys are written into the row AFTER the column values (they win over same-named columns) -/\n")
	fmt.Fprintf(L, "def walKeysLast : Bool := %v\n", last1)
	fmt.Fprintf(L, "/-- parseColumnarEntry accepts an integer \"m\" as measurement_<n> (like extractMeasurement) -/\n")
	fmt.Fprintf(L, "def replayAcceptsIntMeas : Bool := %v\n", acceptsInt)
	fmt.Fprintf(L, "/-- AppendRawWithMeta / AppendRaw copy the caller's payload into the buffer they enqueue and walEntry carries\n    nothing else: the queued entry OWNS its bytes (the request buffer may be re-used after the ack) -/\n")
	fmt.Fprintf(L, "def queuedEntryOwnsCopy : Bool := %v\n", ownsCopy)
	fmt.Fprintf(L, "/-- normalizeTimestampColumns: (firstVal < bound, multiplier) rows, first match wins; negative = divide -/\n")
	var rows []string
	for _, r := range table {
		rows = append(rows, fmt.Sprintf("(%d, %d)", r.Below, r.Mult))
	}
	fmt.Fprintf(L, "def thresholds : List (Int × Int) := [%s]\n", strings.Join(rows, ", "))
	fmt.Fprintf(L, "def elseMult : Int := %d\n", elseMult)
	fmt.Fprintf(L, "/-- RecoverWithOptions, per WAL file: every os.Remove(walFile) is after the loop that runs the callbacks -/\n")
	fmt.Fprintf(L, "def removeAfterCallbacks : Bool := %v\n", removeAfter)
	fmt.Fprintf(L, "def removeGuardedByAllSucceeded : Bool := %v\n", removeGuarded)
	fmt.Fprintf(L, "/-- every callback call in the entry loop is `if err := cb(…); err != nil { … allEntriesSucceeded = false … }` -/\n")
	fmt.Fprintf(L, "def callbackErrorsClearAllOk : Bool := %v\n", cbErrClears)
	fmt.Fprintf(L, "/-- main() gives NewWriter and NewRecovery the same directory expression, both build file paths as\n    filepath.Join(dir, …) and neither rewrites dir, so SkipActiveFile = writer.CurrentFile() matches the listed path -/\n")
	fmt.Fprintf(L, "def walDirUsedVerbatim : Bool := %v\n", dirVerbatim)
	fmt.Fprintf(L, "/-- a flush call lies between the callbacks and os.Remove(walFile) (false in the current source) -/\n")
	fmt.Fprintf(L, "def flushBeforeRemove : Bool := %v\n", flushBetween)
	fmt.Fprintf(L, "end Arc.Generated.C05\n")
	out.JSON["measKeys"] = measKeys
	out.JSON["dbKeys"] = dbKeys
	out.JSON["dbDefault"] = dbDefault
	out.JSON["removedKeys"] = removed
	out.JSON["walKeys"] = k1
	out.JSON["walKeysLast"] = last1
	out.JSON["queuedEntryOwnsCopy"] = ownsCopy
	out.JSON["replayAcceptsIntMeas"] = acceptsInt
	out.JSON["thresholds"] = table
	out.JSON["elseMult"] = elseMult
	out.JSON["removeAfterCallbacks"] = removeAfter
	out.JSON["flushBeforeRemove"] = flushBetween
	out.JSON["callbackErrorsClearAllOk"] = cbErrClears
	out.JSON["walDirUsedVerbatim"] = dirVerbatim
	return nil
}

func multAssign(b *ast.BlockStmt) (int64, bool) {
	for _, st := range b.List {
		if as, ok := st.(*ast.AssignStmt); ok && len(as.Lhs) == 1 && len(as.Rhs) == 1 {
			if id, ok := as.Lhs[0].(*ast.Ident); ok && id.Name == "multiplier" {
				return numLit(as.Rhs[0])
			}
		}
	}
	return 0, false
}
