package main

import (
	"fmt"
	"go/ast"
	"sort"
	"strings"
	"verif/factgen/fg"
)

// C20: the invalidation table. For every mutating method of RBACManager (direct-database path), of
// AuthManager's token mutations, and for every Apply* materialiser in cluster_rbac_apply.go /
// cluster_apply.go (cluster-apply path): which RBAC-cache invalidation is performed on the SUCCESS
// path — InvalidateAllCache ("all"), InvalidateTokenCache(<token argument>) ("token"), or nothing
// ("none"). Shape expectations (any deviation = SHAPE-MISMATCH, never a silent default):
//   * the set of mutating methods is exactly the expected one (a new mutating method must be modelled);
//   * in a dual-path method the `if rm.getProposer() != nil {…}` block contains no invalidation
//     (cluster invalidation happens in Apply*), and every Invalidate* call outside it is a top-level
//     statement of the function body (i.e. on the success path, after all error returns);
//   * InvalidateTokenCache is called with the method's token argument.
func main() { fg.Main("C20", c20) }

var rbacOps = []string{
	"CreateOrganization", "UpdateOrganization", "DeleteOrganization",
	"CreateTeam", "UpdateTeam", "DeleteTeam",
	"CreateRole", "UpdateRole", "DeleteRole",
	"CreateMeasurementPermission", "DeleteMeasurementPermission",
	"AddTokenToTeam", "RemoveTokenFromTeam",
}
var tokenOps = []string{"CreateToken", "UpdateToken", "RevokeToken", "DeleteToken", "RotateToken"}

// methods that write RBAC/token rows but are not API mutations of the modelled universe
var ignoredMutators = map[string]bool{
	"SeedRBACFromLocalSQLite": true, // upgrade seed: proposes Create* (modelled ops) for pre-existing rows
	"seedOrganizations":       true, "seedTeams": true, "seedRoles": true, "seedMeasurementPermissions": true, "seedTokenMemberships": true,
	"insertToken":                 true, // helper of CreateToken
	"ensureFirstToken":            true, // bootstrap: creates the first token (fresh id, as CreateToken)
	"EnsureInitialToken":          true,
	"EnsureInitialTokenWithValue": true,
	"CreateTokenWithValue":        true, // CreateToken with a caller-chosen value (same row effect as CreateToken)
	"ForceAddRecoveryToken":       true,
	"initDB":                      true, "initRBACTables": true, "backfillTokenPrefixes": true,
	"applyLastUsed": true, // last_used_at only
}

func recvName(fd *ast.FuncDecl) string {
	if fd.Recv == nil || len(fd.Recv.List) == 0 {
		return ""
	}
	t := fd.Recv.List[0].Type
	if s, ok := t.(*ast.StarExpr); ok {
		t = s.X
	}
	if id, ok := t.(*ast.Ident); ok {
		return id.Name
	}
	return ""
}

func isProposerIf(f *fg.File, s ast.Stmt) bool {
	is, ok := s.(*ast.IfStmt)
	if !ok {
		return false
	}
	return strings.Contains(f.Text(is.Cond), "getProposer() != nil")
}

func c20(repo string, out *fg.Out) error {
	files, err := fg.ParseDir(repo, "internal/auth")
	if err != nil {
		return err
	}
	// index of methods by (recv, name)
	type mkey struct{ recv, name string }
	methods := map[mkey]*ast.FuncDecl{}
	mfile := map[mkey]*fg.File{}
	for _, f := range files {
		for _, d := range f.AST.Decls {
			if fd, ok := d.(*ast.FuncDecl); ok && fd.Body != nil {
				k := mkey{recvName(fd), fd.Name.Name}
				methods[k] = fd
				mfile[k] = f
			}
		}
	}
	// helperKind: does the body of method (recv,name) contain (anywhere) an RBAC invalidation / auth-cache invalidation
	var helperKind func(recv, name string, depth int) (kind string, auth bool)
	helperKind = func(recv, name string, depth int) (string, bool) {
		fd := methods[mkey{recv, name}]
		if fd == nil || depth > 2 {
			return "none", false
		}
		kind, auth := "none", false
		ast.Inspect(fd.Body, func(n ast.Node) bool {
			c, ok := n.(*ast.CallExpr)
			if !ok {
				return true
			}
			switch fg.CalleeName(c) {
			case "InvalidateAllCache":
				kind = "all"
			case "InvalidateTokenCache":
				if kind != "all" {
					kind = "token"
				}
			case "InvalidateCache":
				auth = true
			}
			return true
		})
		return kind, auth
	}
	// classify one call expression that is a top-level statement (or the result of a top-level return)
	classify := func(recv string, c *ast.CallExpr, f *fg.File) (kind, arg string, auth bool) {
		nm := fg.CalleeName(c)
		switch nm {
		case "InvalidateAllCache":
			return "all", "", false
		case "InvalidateTokenCache":
			a := ""
			if len(c.Args) == 1 {
				a = f.Text(c.Args[0])
			}
			return "token", a, false
		case "InvalidateCache":
			return "none", "", true
		}
		// one level of helper resolution: a method of AuthManager / RBACManager that invalidates
		if sel, ok := c.Fun.(*ast.SelectorExpr); ok {
			if _, ok := sel.X.(*ast.Ident); ok {
				for _, r := range []string{recv, "AuthManager", "RBACManager"} {
					if methods[mkey{r, nm}] != nil && strings.Contains(strings.ToLower(nm), "invalidate") {
						k, a := helperKind(r, nm, 1)
						arg := ""
						if k == "token" && len(c.Args) >= 1 {
							arg = f.Text(c.Args[0])
						}
						return k, arg, a
					}
				}
			}
		}
		return "none", "", false
	}

	// scan one method: returns the success-path invalidation
	scan := func(recv, name string, dual bool) (kind, arg string, auth bool, err error) {
		k := mkey{recv, name}
		fd, f := methods[k], mfile[k]
		if fd == nil {
			return "", "", false, fmt.Errorf("method (%s).%s not found in internal/auth", recv, name)
		}
		kind = "none"
		sawProposer := false
		for _, s := range fd.Body.List {
			if isProposerIf(f, s) {
				sawProposer = true
				// the cluster branch must not invalidate itself (Apply* does)
				bad := false
				ast.Inspect(s, func(n ast.Node) bool {
					if c, ok := n.(*ast.CallExpr); ok {
						nm := fg.CalleeName(c)
						if nm == "InvalidateAllCache" || nm == "InvalidateTokenCache" {
							bad = true
						}
					}
					return true
				})
				if bad {
					return "", "", false, fmt.Errorf("(%s).%s: RBAC cache invalidation inside the getProposer() branch (model assumes Apply* invalidates)", recv, name)
				}
				continue
			}
			var call *ast.CallExpr
			switch x := s.(type) {
			case *ast.ExprStmt:
				call, _ = x.X.(*ast.CallExpr)
			case *ast.ReturnStmt:
				for _, r := range x.Results {
					if c, ok := r.(*ast.CallExpr); ok {
						call = c
					}
				}
			}
			if call == nil {
				continue
			}
			k2, a2, au := classify(recv, call, f)
			if au {
				auth = true
			}
			if k2 == "all" || (k2 == "token" && kind != "all") {
				kind, arg = k2, a2
			}
		}
		if dual && !sawProposer {
			return "", "", false, fmt.Errorf("(%s).%s: expected a top-level `if …getProposer() != nil {…}` cluster branch", recv, name)
		}
		return kind, arg, auth, nil
	}
	// every RBAC invalidation call in a direct-path method outside the proposer branch must be top-level
	nestedCheck := func(recv, name string) error {
		k := mkey{recv, name}
		fd, f := methods[k], mfile[k]
		for _, s := range fd.Body.List {
			if isProposerIf(f, s) {
				continue
			}
			switch s.(type) {
			case *ast.ExprStmt, *ast.ReturnStmt:
				continue
			}
			bad := 0
			ast.Inspect(s, func(n ast.Node) bool {
				if c, ok := n.(*ast.CallExpr); ok {
					nm := fg.CalleeName(c)
					if nm == "InvalidateAllCache" || nm == "InvalidateTokenCache" {
						bad = f.Line(c)
					}
				}
				return true
			})
			if bad != 0 {
				return fmt.Errorf("(%s).%s: RBAC cache invalidation at line %d is nested (not on the plain success path); the model needs to be told when it runs", recv, name, bad)
			}
		}
		return nil
	}

	type row struct {
		Mode      string `json:"mode"`
		Op        string `json:"op"`
		Inv       string `json:"inv"`
		Site      string `json:"site"`
		AuthCache bool   `json:"auth_cache_cleared"`
	}
	var rows []row
	tokenArgOK := func(op, arg string) bool {
		a := strings.TrimSpace(arg)
		return a == "tokenID" || a == "entry.TokenID" || a == "id" || a == "entry.ID"
	}
	add := func(mode, op, recv, method string, dual bool) error {
		kind, arg, auth, err := scan(recv, method, dual)
		if err != nil {
			return err
		}
		if mode == "direct" {
			if err := nestedCheck(recv, method); err != nil {
				return err
			}
		}
		if kind == "token" && !tokenArgOK(op, arg) {
			return fmt.Errorf("(%s).%s: InvalidateTokenCache(%s): expected the operation's token id argument", recv, method, arg)
		}
		rows = append(rows, row{mode, op, kind, "(" + recv + ")." + method, auth})
		return nil
	}
	for _, op := range rbacOps {
		if err := add("direct", op, "RBACManager", op, true); err != nil {
			return err
		}
		if err := add("cluster", op, "RBACManager", "Apply"+op, false); err != nil {
			return err
		}
	}
	for _, op := range tokenOps {
		if err := add("direct", op, "AuthManager", op, true); err != nil {
			return err
		}
		if err := add("cluster", op, "AuthManager", "Apply"+op, false); err != nil {
			return err
		}
	}
	// Apply* success path = the LAST top-level statement must be the invalidating one or `return nil` right
	// after it; the scan above takes any top-level call, which is what we want. Additionally every token
	// mutation must clear AuthManager's own cache (the model takes VerifyToken = current row).
	for _, r := range rows {
		isTok := false
		for _, t := range tokenOps {
			if r.Op == t {
				isTok = true
			}
		}
		if isTok && r.Op != "CreateToken" && !r.AuthCache {
			return fmt.Errorf("%s: AuthManager.InvalidateCache() not found on the success path (model assumes VerifyToken reflects the current row)", r.Site)
		}
	}

	// completeness: no other mutating method on RBACManager / AuthManager
	expected := map[string]bool{}
	for _, op := range rbacOps {
		expected["RBACManager."+op] = true
		expected["RBACManager.Apply"+op] = true
	}
	for _, op := range tokenOps {
		expected["AuthManager."+op] = true
		expected["AuthManager.Apply"+op] = true
	}
	var unknown []string
	for k, fd := range methods {
		if k.recv != "RBACManager" && k.recv != "AuthManager" {
			continue
		}
		if expected[k.recv+"."+k.name] || ignoredMutators[k.name] {
			continue
		}
		f := mfile[k]
		mut := false
		ast.Inspect(fd.Body, func(n ast.Node) bool {
			bl, ok := n.(*ast.BasicLit)
			if !ok {
				return true
			}
			u := strings.ToUpper(bl.Value)
			for _, tbl := range []string{"RBAC_", "API_TOKENS"} {
				if !strings.Contains(u, tbl) {
					continue
				}
				if strings.Contains(u, "INSERT INTO") || strings.Contains(u, "DELETE FROM") || (strings.Contains(u, "UPDATE ") && strings.Contains(u, " SET")) {
					mut = true
				}
			}
			return true
		})
		if len(fg.CallsNamed(fd.Body, "proposeRBACCommand")) > 0 || len(fg.CallsNamed(fd.Body, "proposeCommand")) > 0 {
			if k.name != "proposeRBACCommand" && k.name != "proposeCommand" {
				mut = true
			}
		}
		_ = f
		if mut {
			unknown = append(unknown, k.recv+"."+k.name)
		}
	}
	sort.Strings(unknown)
	if len(unknown) > 0 {
		return fmt.Errorf("unmodelled mutating methods: %s (extend the C20 model + op list)", strings.Join(unknown, ", "))
	}

	// ---- structure of the two invalidators, per cache (the two caches are evicted independently, so
	// "the token has no loaded data" says nothing about its cached decisions)
	directCall := func(st ast.Stmt, name string) *ast.CallExpr {
		es, ok := st.(*ast.ExprStmt)
		if !ok {
			return nil
		}
		c, ok := es.X.(*ast.CallExpr)
		if !ok || fg.CalleeName(c) != name {
			return nil
		}
		return c
	}
	tokDrops, permScan := false, "never"
	{
		k := mkey{"RBACManager", "InvalidateTokenCache"}
		fd, f := methods[k], mfile[k]
		guardVar := "" // set when an `if !X { return }` precedes the scan
		for _, st := range fd.Body.List {
			if c := directCall(st, "delete"); c != nil && len(c.Args) == 2 && f.Text(c.Args[0]) == "rm.tokenCache" && f.Text(c.Args[1]) == "tokenID" {
				tokDrops = true
				continue
			}
			switch x := st.(type) {
			case *ast.RangeStmt:
				if f.Text(x.X) != "rm.permCache" {
					return fmt.Errorf("InvalidateTokenCache: unexpected range over %s", f.Text(x.X))
				}
				txt := f.Text(x.Body)
				if !strings.Contains(txt, "tokenID == tokenID") || !strings.Contains(txt, "delete(rm.permCache") {
					return fmt.Errorf("InvalidateTokenCache: permission-cache scan no longer deletes exactly the entries of tokenID")
				}
				if guardVar != "" {
					permScan = "if-data-cached"
				} else {
					permScan = "always"
				}
			case *ast.IfStmt:
				cond := f.Text(x.Cond)
				hasRet := false
				ast.Inspect(x.Body, func(n ast.Node) bool {
					if _, ok := n.(*ast.ReturnStmt); ok {
						hasRet = true
					}
					return true
				})
				// `_, loaded := rm.tokenCache[tokenID]` … `if !loaded { return }`
				v := strings.TrimPrefix(cond, "!")
				declared := strings.Contains(f.Text(fd.Body), ", "+v+" := rm.tokenCache[tokenID]")
				if hasRet && strings.HasPrefix(cond, "!") && declared && x.Else == nil {
					guardVar = v
				} else {
					return fmt.Errorf("InvalidateTokenCache: unrecognised conditional `if %s` (the model must be told when the permission cache is scanned)", cond)
				}
			case *ast.ReturnStmt:
				return fmt.Errorf("InvalidateTokenCache: unexpected top-level return")
			}
		}
	}
	allData, allPerm := false, false
	{
		k := mkey{"RBACManager", "InvalidateAllCache"}
		fd, f := methods[k], mfile[k]
		for _, st := range fd.Body.List {
			switch x := st.(type) {
			case *ast.AssignStmt:
				if len(x.Lhs) == 1 && len(x.Rhs) == 1 && strings.HasPrefix(f.Text(x.Rhs[0]), "make(map[") {
					switch f.Text(x.Lhs[0]) {
					case "rm.tokenCache":
						allData = true
					case "rm.permCache":
						allPerm = true
					}
				}
			case *ast.ExprStmt:
				if c := directCall(st, "clear"); c != nil && len(c.Args) == 1 {
					switch f.Text(c.Args[0]) {
					case "rm.tokenCache":
						allData = true
					case "rm.permCache":
						allPerm = true
					}
				}
			case *ast.IfStmt, *ast.ReturnStmt, *ast.ForStmt, *ast.RangeStmt:
				return fmt.Errorf("InvalidateAllCache: unexpected control flow (%T); the model assumes unconditional clearing", x)
			}
		}
	}
	// ---- the two non-insert success paths of ApplyCreateOrganization
	pathInv := func(condNeedle string) (string, error) {
		k := mkey{"RBACManager", "ApplyCreateOrganization"}
		fd, f := methods[k], mfile[k]
		var blk *ast.BlockStmt
		ast.Inspect(fd.Body, func(n ast.Node) bool {
			if is, ok := n.(*ast.IfStmt); ok && strings.Contains(f.Text(is.Cond), condNeedle) {
				blk = is.Body
				return false
			}
			return true
		})
		if blk == nil {
			return "", fmt.Errorf("ApplyCreateOrganization: branch `if …%s…` not found", condNeedle)
		}
		kind := "none"
		retNil := false
		for _, st := range blk.List {
			if directCall(st, "InvalidateAllCache") != nil {
				kind = "all"
			}
			if r, ok := st.(*ast.ReturnStmt); ok && len(r.Results) == 1 && f.Text(r.Results[0]) == "nil" {
				retNil = true
			}
		}
		if !retNil {
			return "", fmt.Errorf("ApplyCreateOrganization: branch `%s` no longer ends in `return nil`", condNeedle)
		}
		return kind, nil
	}
	replayInv, err := pathInv("existingName == entry.Name")
	if err != nil {
		return err
	}
	realignInv, err := pathInv("UNIQUE constraint failed")
	if err != nil {
		return err
	}
	{
		k := mkey{"RBACManager", "ApplyCreateOrganization"}
		txt := mfile[k].Text(methods[k].Body)
		if !strings.Contains(txt, "DELETE FROM rbac_organizations WHERE name = ?") {
			return fmt.Errorf("ApplyCreateOrganization: the re-align branch no longer deletes the local row by name (model: delete + cascade + insert)")
		}
	}
	rows = append(rows, row{"cluster", "CreateOrganization:replay", replayInv, "(RBACManager).ApplyCreateOrganization [same id, same name]", false})
	rows = append(rows, row{"cluster", "CreateOrganization:realign", realignInv, "(RBACManager).ApplyCreateOrganization [name exists under another id: delete+cascade+insert]", false})
	// eviction / sweep shapes the model relies on
	for _, nm := range []string{"evictPermCacheIfFull", "evictTokenCacheIfFull"} {
		fd := methods[mkey{"RBACManager", nm}]
		if fd == nil {
			return fmt.Errorf("(RBACManager).%s not found", nm)
		}
		txt := mfile[mkey{"RBACManager", nm}].Text(fd.Body)
		if !strings.Contains(txt, ">= rm.maxCacheSize") || !strings.Contains(txt, "break") {
			return fmt.Errorf("(RBACManager).%s: expected `if len(cache) >= rm.maxCacheSize { delete one arbitrary entry }`", nm)
		}
	}
	{
		fd := methods[mkey{"RBACManager", "cleanupExpiredCache"}]
		if fd == nil {
			return fmt.Errorf("(RBACManager).cleanupExpiredCache not found")
		}
		txt := mfile[mkey{"RBACManager", "cleanupExpiredCache"}].Text(fd.Body)
		if !strings.Contains(txt, "now.Sub(data.loadedAt) > rm.tokenCacheTTL") || !strings.Contains(txt, "now.After(entry.expiresAt)") {
			return fmt.Errorf("cleanupExpiredCache: sweep conditions changed (model: data age > ttl; now after expiresAt)")
		}
	}

	// default TTL constant (30 * time.Second) in NewRBACManager
	ttl := int64(-1)
	if fd := methods[mkey{"", "NewRBACManager"}]; fd != nil {
		env := fg.NewConstEnv(files)
		ast.Inspect(fd.Body, func(n ast.Node) bool {
			as, ok := n.(*ast.AssignStmt)
			if !ok || len(as.Lhs) != 1 || len(as.Rhs) != 1 {
				return true
			}
			if id, ok := as.Lhs[0].(*ast.Ident); ok && id.Name == "cacheTTL" && as.Tok.String() == "=" {
				if v, err := env.EvalInt(as.Rhs[0]); err == nil {
					ttl = v
				}
			}
			return true
		})
	}
	if ttl <= 0 {
		return fmt.Errorf("default `cacheTTL = <const>` not found in NewRBACManager")
	}

	sort.SliceStable(rows, func(i, j int) bool { return rows[i].Mode == "direct" && rows[j].Mode != "direct" })
	w := &out.Lean
	fmt.Fprintf(w, "namespace Arc.Generated.C20\n")
	fmt.Fprintf(w, "/-- (mode, operation, RBAC-cache invalidation on the success path): \"all\" = InvalidateAllCache(),\n    \"token\" = InvalidateTokenCache(<the operation's token id>), \"none\" = neither. -/\n")
	fmt.Fprintf(w, "def invalidation : List (String × String × String) := [\n")
	for i, r := range rows {
		sep := ","
		if i == len(rows)-1 {
			sep = ""
		}
		fmt.Fprintf(w, "  (%s, %s, %s)%s  -- %s\n", fg.LeanStr(r.Mode), fg.LeanStr(r.Op), fg.LeanStr(r.Inv), sep, r.Site)
	}
	fmt.Fprintf(w, "]\n")
	fmt.Fprintf(w, "def defaultTTLNs : Int := %s\n", fg.LeanInt(ttl))
	fmt.Fprintf(w, "/-- InvalidateTokenCache: deletes the token's entry of the token-DATA cache -/\ndef tokenInvDropsData : Bool := %v\n", tokDrops)
	fmt.Fprintf(w, "/-- InvalidateTokenCache: when is the permission-RESULT cache scanned for the token's entries:\n    \"always\" | \"if-data-cached\" (early return when the token had no data-cache entry) | \"never\" -/\ndef tokenInvPermScan : String := %s\n", fg.LeanStr(permScan))
	fmt.Fprintf(w, "/-- InvalidateAllCache: replaces the token-data cache / the permission-result cache unconditionally -/\ndef allInvClearsData : Bool := %v\ndef allInvClearsPerm : Bool := %v\n", allData, allPerm)
	fmt.Fprintf(w, "end Arc.Generated.C20\n")
	out.JSON["invalidation"] = rows
	out.JSON["default_ttl_ns"] = ttl
	out.JSON["token_inv"] = map[string]any{"drops_data": tokDrops, "perm_scan": permScan}
	out.JSON["all_inv"] = map[string]any{"clears_data": allData, "clears_perm": allPerm}
	return nil
}
