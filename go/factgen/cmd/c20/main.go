package main

import (
	"fmt"
	"go/ast"
	"sort"
	"strings"
	"verif/factgen/fg"
)

// C20: the invalidation table. For every mutating method of RBACManager (direct-database path), of
// AuthManager's token mutations, and for every Apply* materialiser in cluster_rbac_apply.go /
// cluster_apply.go (cluster-apply path): which RBAC-cache invalidation is performed on the SUCCESS
// path — InvalidateAllCache ("all"), InvalidateTokenCache(<token argument>) ("token"), or nothing
// ("none"). Shape expectations (any deviation = SHAPE-MISMATCH, never a silent default):
//   * the set of mutating methods is exactly the expected one (a new mutating method must be modelled);
//   * in a dual-path method the `if rm.getProposer() != nil {…}` block contains no invalidation
//     (cluster invalidation happens in Apply*), and every Invalidate* call outside it is a top-level
//     statement of the function body (i.e. on the success path, after all error returns);
//   * InvalidateTokenCache is called with the method's token argument.
func main() { fg.Main("C20", c20) }

var rbacOps = []string{
	"CreateOrganization", "UpdateOrganization", "DeleteOrganization",
	"CreateTeam", "UpdateTeam", "DeleteTeam",
	"CreateRole", "UpdateRole", "DeleteRole",
	"CreateMeasurementPermission", "DeleteMeasurementPermission",
	"AddTokenToTeam", "RemoveTokenFromTeam",
}
var tokenOps = []string{"CreateToken", "UpdateToken", "RevokeToken", "DeleteToken", "RotateToken"}

// methods that write RBAC/token rows but are not API mutations of the modelled universe
var ignoredMutators = map[string]bool{
	"SeedRBACFromLocalSQLite": true, // upgrade seed: proposes Create* (modelled ops) for pre-existing rows
	"seedOrganizations":       true, "seedTeams": true, "seedRoles": true, "seedMeasurementPermissions": true, "seedTokenMemberships": true,
	"insertToken":                 true, // helper of CreateToken
	"ensureFirstToken":            true, // bootstrap: creates the first token (fresh id, as CreateToken)
	"EnsureInitialToken":          true,
	"EnsureInitialTokenWithValue": true,
	"CreateTokenWithValue":        true, // CreateToken with a caller-chosen value (same row effect as CreateToken)
	"ForceAddRecoveryToken":       true,
	"initDB":                      true, "initRBACTables": true, "backfillTokenPrefixes": true,
	"applyLastUsed": true, // last_used_at only
}

func recvName(fd *ast.FuncDecl) string {
	if fd.Recv == nil || len(fd.Recv.List) == 0 {
		return ""
	}
	t := fd.Recv.List[0].Type
	if s, ok := t.(*ast.StarExpr); ok {
		t = s.X
	}
	if id, ok := t.(*ast.Ident); ok {
		return id.Name
	}
	return ""
}

func isProposerIf(f *fg.File, s ast.Stmt) bool {
	is, ok := s.(*ast.IfStmt)
	if !ok {
		return false
	}
	return strings.Contains(f.Text(is.Cond), "getProposer() != nil")
}

func c20(repo string, out *fg.Out) error {
	files, err := fg.ParseDir(repo, "internal/auth")
	if err != nil {
		return err
	}
	// index of methods by (recv, name)
	type mkey struct{ recv, name string }
	methods := map[mkey]*ast.FuncDecl{}
	mfile := map[mkey]*fg.File{}
	for _, f := range files {
		for _, d := range f.AST.Decls {
			if fd, ok := d.(*ast.FuncDecl); ok && fd.Body != nil {
				k := mkey{recvName(fd), fd.Name.Name}
				methods[k] = fd
				mfile[k] = f
			}
		}
	}
	// helperKind: does the body of method (recv,name) contain (anywhere) an RBAC invalidation / auth-cache invalidation
	var helperKind func(recv, name string, depth int) (kind string, auth bool)
	helperKind = func(recv, name string, depth int) (string, bool) {
		fd := methods[mkey{recv, name}]
		if fd == nil || depth > 2 {
			return "none", false
		}
		kind, auth := "none", false
		ast.Inspect(fd.Body, func(n ast.Node) bool {
			c, ok := n.(*ast.CallExpr)
			if !ok {
				return true
			}
			switch fg.CalleeName(c) {
			case "InvalidateAllCache":
				kind = "all"
			case "InvalidateTokenCache":
				if kind != "all" {
					kind = "token"
				}
			case "InvalidateCache":
				auth = true
			}
			return true
		})
		return kind, auth
	}
	// classify one call expression that is a top-level statement (or the result of a top-level return)
	classify := func(recv string, c *ast.CallExpr, f *fg.File) (kind, arg string, auth bool) {
		nm := fg.CalleeName(c)
		switch nm {
		case "InvalidateAllCache":
			return "all", "", false
		case "InvalidateTokenCache":
			a := ""
			if len(c.Args) == 1 {
				a = f.Text(c.Args[0])
			}
			return "token", a, false
		case "InvalidateCache":
			return "none", "", true
		}
		// one level of helper resolution: a method of AuthManager / RBACManager that invalidates
		if sel, ok := c.Fun.(*ast.SelectorExpr); ok {
			if _, ok := sel.X.(*ast.Ident); ok {
				for _, r := range []string{recv, "AuthManager", "RBACManager"} {
					if methods[mkey{r, nm}] != nil && strings.Contains(strings.ToLower(nm), "invalidate") {
						k, a := helperKind(r, nm, 1)
						arg := ""
						if k == "token" && len(c.Args) >= 1 {
							arg = f.Text(c.Args[0])
						}
						return k, arg, a
					}
				}
			}
		}
		return "none", "", false
	}

	// scan one method: returns the success-path invalidation
	scan := func(recv, name string, dual bool) (kind, arg string, auth bool, err error) {
		k := mkey{recv, name}
		fd, f := methods[k], mfile[k]
		if fd == nil {
			return "", "", false, fmt.Errorf("method (%s).%s not found in internal/auth", recv, name)
		}
		kind = "none"
		sawProposer := false
		for _, s := range fd.Body.List {
			if isProposerIf(f, s) {
				sawProposer = true
				// the cluster branch must not invalidate itself (Apply* does)
				bad := false
				ast.Inspect(s, func(n ast.Node) bool {
					if c, ok := n.(*ast.CallExpr); ok {
						nm := fg.CalleeName(c)
						if nm == "InvalidateAllCache" || nm == "InvalidateTokenCache" {
							bad = true
						}
					}
					return true
				})
				if bad {
					return "", "", false, fmt.Errorf("(%s).%s: RBAC cache invalidation inside the getProposer() branch (model assumes Apply* invalidates)", recv, name)
				}
				continue
			}
			var call *ast.CallExpr
			switch x := s.(type) {
			case *ast.ExprStmt:
				call, _ = x.X.(*ast.CallExpr)
			case *ast.ReturnStmt:
				for _, r := range x.Results {
					if c, ok := r.(*ast.CallExpr); ok {
						call = c
					}
				}
			}
			if call == nil {
				continue
			}
			k2, a2, au := classify(recv, call, f)
			if au {
				auth = true
			}
			if k2 == "all" || (k2 == "token" && kind != "all") {
				kind, arg = k2, a2
			}
		}
		if dual && !sawProposer {
			return "", "", false, fmt.Errorf("(%s).%s: expected a top-level `if …getProposer() != nil {…}` cluster branch", recv, name)
		}
		return kind, arg, auth, nil
	}
	// every RBAC invalidation call in a direct-path method outside the proposer branch must be top-level
	nestedCheck := func(recv, name string) error {
		k := mkey{recv, name}
		fd, f := methods[k], mfile[k]
		for _, s := range fd.Body.List {
			if isProposerIf(f, s) {
				continue
			}
			switch s.(type) {
			case *ast.ExprStmt, *ast.ReturnStmt:
				continue
			}
			bad := 0
			ast.Inspect(s, func(n ast.Node) bool {
				if c, ok := n.(*ast.CallExpr); ok {
					nm := fg.CalleeName(c)
					if nm == "InvalidateAllCache" || nm == "InvalidateTokenCache" {
						bad = f.Line(c)
					}
				}
				return true
			})
			if bad != 0 {
				return fmt.Errorf("(%s).%s: RBAC cache invalidation at line %d is nested (not on the plain success path); the model needs to be told when it runs", recv, name, bad)
			}
		}
		return nil
	}

	type row struct {
		Mode      string `json:"mode"`
		Op        string `json:"op"`
		Inv       string `json:"inv"`
		Site      string `json:"site"`
		AuthCache bool   `json:"auth_cache_cleared"`
	}
	var rows []row
	tokenArgOK := func(op, arg string) bool {
		a := strings.TrimSpace(arg)
		return a == "tokenID" || a == "entry.TokenID" || a == "id" || a == "entry.ID"
	}
	add := func(mode, op, recv, method string, dual bool) error {
		kind, arg, auth, err := scan(recv, method, dual)
		if err != nil {
			return err
		}
		if mode == "direct" {
			if err := nestedCheck(recv, method); err != nil {
				return err
			}
		}
		if kind == "token" && !tokenArgOK(op, arg) {
			return fmt.Errorf("(%s).%s: InvalidateTokenCache(%s): expected the operation's token id argument", recv, method, arg)
		}
		rows = append(rows, row{mode, op, kind, "(" + recv + ")." + method, auth})
		return nil
	}
	for _, op := range rbacOps {
		if err := add("direct", op, "RBACManager", op, true); err != nil {
			return err
		}
		if err := add("cluster", op, "RBACManager", "Apply"+op, false); err != nil {
			return err
		}
	}
	for _, op := range tokenOps {
		if err := add("direct", op, "AuthManager", op, true); err != nil {
			return err
		}
		if err := add("cluster", op, "AuthManager", "Apply"+op, false); err != nil {
			return err
		}
	}
	// Apply* success path = the LAST top-level statement must be the invalidating one or `return nil` right
	// after it; the scan above takes any top-level call, which is what we want. Additionally every token
	// mutation must clear AuthManager's own cache (the model takes VerifyToken = current row).
	for _, r := range rows {
		isTok := false
		for _, t := range tokenOps {
			if r.Op == t {
				isTok = true
			}
		}
		if isTok && r.Op != "CreateToken" && !r.AuthCache {
			return fmt.Errorf("%s: AuthManager.InvalidateCache() not found on the success path (model assumes VerifyToken reflects the current row)", r.Site)
		}
	}

	// completeness: no other mutating method on RBACManager / AuthManager
	expected := map[string]bool{}
	for _, op := range rbacOps {
		expected["RBACManager."+op] = true
		expected["RBACManager.Apply"+op] = true
	}
	for _, op := range tokenOps {
		expected["AuthManager."+op] = true
		expected["AuthManager.Apply"+op] = true
	}
	var unknown []string
	for k, fd := range methods {
		if k.recv != "RBACManager" && k.recv != "AuthManager" {
			continue
		}
		if expected[k.recv+"."+k.name] || ignoredMutators[k.name] {
			continue
		}
		f := mfile[k]
		mut := false
		ast.Inspect(fd.Body, func(n ast.Node) bool {
			bl, ok := n.(*ast.BasicLit)
			if !ok {
				return true
			}
			u := strings.ToUpper(bl.Value)
			for _, tbl := range []string{"RBAC_", "API_TOKENS"} {
				if !strings.Contains(u, tbl) {
					continue
				}
				if strings.Contains(u, "INSERT INTO") || strings.Contains(u, "DELETE FROM") || (strings.Contains(u, "UPDATE ") && strings.Contains(u, " SET")) {
					mut = true
				}
			}
			return true
		})
		if len(fg.CallsNamed(fd.Body, "proposeRBACCommand")) > 0 || len(fg.CallsNamed(fd.Body, "proposeCommand")) > 0 {
			if k.name != "proposeRBACCommand" && k.name != "proposeCommand" {
				mut = true
			}
		}
		_ = f
		if mut {
			unknown = append(unknown, k.recv+"."+k.name)
		}
	}
	sort.Strings(unknown)
	if len(unknown) > 0 {
		return fmt.Errorf("unmodelled mutating methods: %s (extend the C20 model + op list)", strings.Join(unknown, ", "))
	}

	// the two invalidators must clear BOTH caches (token cache + permission cache)
	for _, nm := range []string{"InvalidateAllCache", "InvalidateTokenCache"} {
		fd := methods[mkey{"RBACManager", nm}]
		if fd == nil {
			return fmt.Errorf("(RBACManager).%s not found", nm)
		}
		txt := mfile[mkey{"RBACManager", nm}].Text(fd.Body)
		if !strings.Contains(txt, "rm.tokenCache") || !strings.Contains(txt, "rm.permCache") {
			return fmt.Errorf("(RBACManager).%s no longer touches both tokenCache and permCache", nm)
		}
	}
	// default TTL constant (30 * time.Second) in NewRBACManager
	ttl := int64(-1)
	if fd := methods[mkey{"", "NewRBACManager"}]; fd != nil {
		env := fg.NewConstEnv(files)
		ast.Inspect(fd.Body, func(n ast.Node) bool {
			as, ok := n.(*ast.AssignStmt)
			if !ok || len(as.Lhs) != 1 || len(as.Rhs) != 1 {
				return true
			}
			if id, ok := as.Lhs[0].(*ast.Ident); ok && id.Name == "cacheTTL" && as.Tok.String() == "=" {
				if v, err := env.EvalInt(as.Rhs[0]); err == nil {
					ttl = v
				}
			}
			return true
		})
	}
	if ttl <= 0 {
		return fmt.Errorf("default `cacheTTL = <const>` not found in NewRBACManager")
	}

	sort.SliceStable(rows, func(i, j int) bool { return rows[i].Mode == "direct" && rows[j].Mode != "direct" })
	w := &out.Lean
	fmt.Fprintf(w, "namespace Arc.Generated.C20\n")
	fmt.Fprintf(w, "/-- (mode, operation, RBAC-cache invalidation on the success path): \"all\" = InvalidateAllCache(),\n    \"token\" = InvalidateTokenCache(<the operation's token id>), \"none\" = neither. -/\n")
	fmt.Fprintf(w, "def invalidation : List (String × String × String) := [\n")
	for i, r := range rows {
		sep := ","
		if i == len(rows)-1 {
			sep = ""
		}
		fmt.Fprintf(w, "  (%s, %s, %s)%s  -- %s\n", fg.LeanStr(r.Mode), fg.LeanStr(r.Op), fg.LeanStr(r.Inv), sep, r.Site)
	}
	fmt.Fprintf(w, "]\n")
	fmt.Fprintf(w, "def defaultTTLNs : Int := %s\n", fg.LeanInt(ttl))
	fmt.Fprintf(w, "end Arc.Generated.C20\n")
	out.JSON["invalidation"] = rows
	out.JSON["default_ttl_ns"] = ttl
	return nil
}
