package main

import (
	"fmt"
	"go/ast"
	"go/token"
	"regexp"
	"strconv"
	"strings"
	"verif/factgen/fg"
)

// C17: the epoch-arithmetic templates of rewriteTimeBucket / rewriteDateTrunc (fmt.Sprintf formats
// parsed into an expression AST with the holes bound to the argument identifiers), the
// intervalToSeconds multiplier table, the unit alternations of the trigger regexes, the origin layouts,
// the arms of buildURLDomainCASE and the capture-group permutations of the LIKE optimizer.
func main() { fg.Main("C17", c17) }

// ---------------------------------------------------------------- tiny SQL-expression parser for the formats

type node struct {
	kind string // hole, num, call, cast, bin
	verb string // hole: d|s
	idx  int    // hole: position among the verbs
	num  string
	name string // call name / cast type / operator
	a, b *node
}

type tok struct{ k, v string }

func lexFmt(s string) ([]tok, error) {
	var ts []tok
	for i := 0; i < len(s); {
		c := s[i]
		switch {
		case c == ' ':
			i++
		case c == '%' && i+1 < len(s) && s[i+1] == '%':
			ts = append(ts, tok{"op", "%"}) // `%%` prints the SQL remainder operator
			i += 2
		case c == '%' && i+1 < len(s) && (s[i+1] == 'd' || s[i+1] == 's'):
			ts = append(ts, tok{"hole", string(s[i+1])})
			i += 2
		case c == '/' && i+1 < len(s) && s[i+1] == '/':
			ts = append(ts, tok{"op", "//"})
			i += 2
		case c == ':' && i+1 < len(s) && s[i+1] == ':':
			ts = append(ts, tok{"op", "::"})
			i += 2
		case c == '+' || c == '-' || c == '*' || c == '(' || c == ')':
			ts = append(ts, tok{"op", string(c)})
			i++
		case c >= '0' && c <= '9':
			j := i
			for j < len(s) && s[j] >= '0' && s[j] <= '9' {
				j++
			}
			ts = append(ts, tok{"num", s[i:j]})
			i = j
		case c == '_' || (c >= 'a' && c <= 'z') || (c >= 'A' && c <= 'Z'):
			j := i
			for j < len(s) && (s[j] == '_' || (s[j] >= 'a' && s[j] <= 'z') || (s[j] >= 'A' && s[j] <= 'Z') || (s[j] >= '0' && s[j] <= '9')) {
				j++
			}
			ts = append(ts, tok{"id", s[i:j]})
			i = j
		default:
			return nil, fmt.Errorf("unexpected character %q in format %q", c, s)
		}
	}
	return ts, nil
}

type parser struct {
	ts    []tok
	p     int
	holes int
}

func (p *parser) peek() tok {
	if p.p < len(p.ts) {
		return p.ts[p.p]
	}
	return tok{"eof", ""}
}
func (p *parser) isOp(v string) bool { t := p.peek(); return t.k == "op" && t.v == v }

func (p *parser) expr() (*node, error) {
	a, err := p.term()
	if err != nil {
		return nil, err
	}
	for p.isOp("+") || p.isOp("-") {
		op := p.peek().v
		p.p++
		b, err := p.term()
		if err != nil {
			return nil, err
		}
		a = &node{kind: "bin", name: op, a: a, b: b}
	}
	return a, nil
}
func (p *parser) term() (*node, error) {
	a, err := p.postfix()
	if err != nil {
		return nil, err
	}
	for p.isOp("*") || p.isOp("//") || p.isOp("%") {
		op := p.peek().v
		p.p++
		b, err := p.postfix()
		if err != nil {
			return nil, err
		}
		a = &node{kind: "bin", name: op, a: a, b: b}
	}
	return a, nil
}
func (p *parser) postfix() (*node, error) {
	a, err := p.primary()
	if err != nil {
		return nil, err
	}
	for p.isOp("::") {
		p.p++
		t := p.peek()
		if t.k != "id" {
			return nil, fmt.Errorf("type name expected after ::")
		}
		p.p++
		a = &node{kind: "cast", name: strings.ToUpper(t.v), a: a}
	}
	return a, nil
}
func (p *parser) primary() (*node, error) {
	t := p.peek()
	switch {
	case t.k == "hole":
		p.p++
		n := &node{kind: "hole", verb: t.v, idx: p.holes}
		p.holes++
		return n, nil
	case t.k == "num":
		p.p++
		return &node{kind: "num", num: t.v}, nil
	case t.k == "id":
		p.p++
		if !p.isOp("(") {
			return nil, fmt.Errorf("call expected after identifier %s", t.v)
		}
		p.p++
		a, err := p.expr()
		if err != nil {
			return nil, err
		}
		if !p.isOp(")") {
			return nil, fmt.Errorf(") expected")
		}
		p.p++
		return &node{kind: "call", name: strings.ToLower(t.v), a: a}, nil
	case t.k == "op" && t.v == "(":
		p.p++
		a, err := p.expr()
		if err != nil {
			return nil, err
		}
		if !p.isOp(")") {
			return nil, fmt.Errorf(") expected")
		}
		p.p++
		return a, nil
	}
	return nil, fmt.Errorf("unexpected token %v", t)
}

// toLean renders the AST as an Arc.C17.RExpr term with holes bound to the Sprintf argument names.
func toLean(n *node, args []string) (string, error) {
	switch n.kind {
	case "num":
		return "(.lit " + n.num + ")", nil
	case "hole":
		if n.idx >= len(args) {
			return "", fmt.Errorf("more verbs than arguments")
		}
		if n.verb == "d" && args[n.idx] == "originEpoch" {
			return ".origin", nil
		}
		if n.verb == "d" && args[n.idx] == "seconds" {
			return ".seconds", nil
		}
		if n.verb == "d" && args[n.idx] == "originMicros" {
			return ".originMicros", nil
		}
		if n.verb == "d" && args[n.idx] == "widthMicros" {
			return ".widthMicros", nil
		}
		return "", fmt.Errorf("hole %%%s bound to %q outside epoch(...)::BIGINT", n.verb, args[n.idx])
	case "cast":
		if n.name == "BIGINT" && n.a.kind == "call" && n.a.name == "epoch" && n.a.a.kind == "hole" &&
			n.a.a.verb == "s" && n.a.a.idx < len(args) && args[n.a.a.idx] == "column" {
			return ".epochBigintCol", nil
		}
		return "", fmt.Errorf("unsupported cast ::%s", n.name)
	case "call":
		if n.name == "epoch_us" && n.a.kind == "hole" && n.a.verb == "s" && n.a.idx < len(args) && args[n.a.idx] == "column" {
			return ".epochUsCol", nil
		}
		if n.name == "to_timestamp" {
			a, err := toLean(n.a, args)
			if err != nil {
				return "", err
			}
			return "(.toTimestamp " + a + ")", nil
		}
		return "", fmt.Errorf("unsupported call %s(...) (only to_timestamp and epoch(col)::BIGINT)", n.name)
	case "bin":
		a, err := toLean(n.a, args)
		if err != nil {
			return "", err
		}
		b, err := toLean(n.b, args)
		if err != nil {
			return "", err
		}
		op := map[string]string{"+": "add", "-": "sub", "*": "mul", "//": "idiv", "%": "mod"}[n.name]
		return "(." + op + " " + a + " " + b + ")", nil
	}
	return "", fmt.Errorf("bad node")
}

func parseTemplate(format string, args []string) (string, error) {
	ts, err := lexFmt(format)
	if err != nil {
		return "", err
	}
	p := &parser{ts: ts}
	n, err := p.expr()
	if err != nil {
		return "", fmt.Errorf("format %q: %v", format, err)
	}
	if p.peek().k != "eof" {
		return "", fmt.Errorf("format %q: trailing tokens", format)
	}
	if p.holes != len(args) {
		return "", fmt.Errorf("format %q has %d verbs but %d arguments", format, p.holes, len(args))
	}
	return toLean(n, args)
}

// ---------------------------------------------------------------- helpers on the Go AST

// strConst evaluates a string literal or a `+` concatenation of string literals.
func strConst(e ast.Expr) (string, bool) {
	switch x := e.(type) {
	case *ast.BasicLit:
		if x.Kind != token.STRING {
			return "", false
		}
		s, err := strconv.Unquote(x.Value)
		return s, err == nil
	case *ast.BinaryExpr:
		if x.Op != token.ADD {
			return "", false
		}
		a, ok1 := strConst(x.X)
		b, ok2 := strConst(x.Y)
		return a + b, ok1 && ok2
	case *ast.ParenExpr:
		return strConst(x.X)
	}
	return "", false
}

// funcLitOf finds `<patternVar>.ReplaceAllStringFunc(sql, func(match string) string {...})` in fd.
func funcLitOf(fd *ast.FuncDecl, patternVar string) *ast.FuncLit {
	var res *ast.FuncLit
	ast.Inspect(fd, func(n ast.Node) bool {
		c, ok := n.(*ast.CallExpr)
		if !ok {
			return true
		}
		sel, ok := c.Fun.(*ast.SelectorExpr)
		if !ok || sel.Sel.Name != "ReplaceAllStringFunc" || len(c.Args) != 2 {
			return true
		}
		if id, ok := sel.X.(*ast.Ident); !ok || id.Name != patternVar {
			return true
		}
		if fl, ok := c.Args[1].(*ast.FuncLit); ok && res == nil {
			res = fl
		}
		return true
	})
	return res
}

func sprintfOf(n ast.Node) (format string, args []string, err error) {
	calls := fg.CallsNamed(n, "Sprintf")
	if len(calls) != 1 {
		return "", nil, fmt.Errorf("expected exactly one fmt.Sprintf, found %d", len(calls))
	}
	c := calls[0]
	if len(c.Args) < 1 {
		return "", nil, fmt.Errorf("Sprintf without format")
	}
	f, ok := strConst(c.Args[0])
	if !ok {
		return "", nil, fmt.Errorf("Sprintf format is not a constant string")
	}
	for _, a := range c.Args[1:] {
		id, ok := a.(*ast.Ident)
		if !ok {
			return "", nil, fmt.Errorf("Sprintf argument is not an identifier")
		}
		args = append(args, id.Name)
	}
	return f, args, nil
}

func norm(s string) string { return strings.Join(strings.Fields(s), " ") }

func expectSnippets(f *fg.File, n ast.Node, where string, snippets ...string) error {
	txt := norm(f.Text(n))
	for _, s := range snippets {
		if !strings.Contains(txt, norm(s)) {
			return fmt.Errorf("%s: expected code shape %q not found", where, s)
		}
	}
	return nil
}

func packageVarString(files []*fg.File, name string) (string, error) {
	for _, f := range files {
		for _, d := range f.AST.Decls {
			gd, ok := d.(*ast.GenDecl)
			if !ok || gd.Tok != token.VAR {
				continue
			}
			for _, sp := range gd.Specs {
				vs := sp.(*ast.ValueSpec)
				for i, id := range vs.Names {
					if id.Name != name || i >= len(vs.Values) {
						continue
					}
					c, ok := vs.Values[i].(*ast.CallExpr)
					if !ok || fg.CalleeName(c) != "MustCompile" || len(c.Args) != 1 {
						return "", fmt.Errorf("%s is not regexp.MustCompile(<literal>)", name)
					}
					s, ok := strConst(c.Args[0])
					if !ok {
						return "", fmt.Errorf("%s: pattern is not a constant", name)
					}
					return s, nil
				}
			}
		}
	}
	return "", fmt.Errorf("package variable %s not found", name)
}

func leanStrList(xs []string) string {
	var q []string
	for _, x := range xs {
		q = append(q, fg.LeanStr(x))
	}
	return "[" + strings.Join(q, ", ") + "]"
}

func leanBytes(s string) string {
	var q []string
	for _, b := range []byte(s) {
		q = append(q, strconv.Itoa(int(b)))
	}
	return "[" + strings.Join(q, ", ") + "]"
}

var unitAlt = regexp.MustCompile(`\((second\|[a-z|]+)\)`)

func unitsOf(pattern string) ([]string, error) {
	m := unitAlt.FindStringSubmatch(pattern)
	if m == nil {
		return nil, fmt.Errorf("unit alternation (second|…) not found in %q", pattern)
	}
	return strings.Split(m[1], "|"), nil
}

func c17(repo string, out *fg.Out) error {
	files, err := fg.ParseDir(repo, "internal/api")
	if err != nil {
		return err
	}
	// ---- intervalToSeconds: switch unit { case "second": return n; case "minute": return n * 60 … default: return 0 }
	qf, its := fg.FindFunc(files, "", "intervalToSeconds")
	if its == nil {
		return fmt.Errorf("func intervalToSeconds not found")
	}
	if err := expectSnippets(qf, its, "intervalToSeconds", `if err != nil { return 0 }`, `switch unit {`); err != nil {
		return err
	}
	// how the amount string becomes a number: strconv.Atoi(amount) (base 10) or strconv.ParseInt(amount, <base>, _)
	amountBase := int64(-1)
	amountCall := ""
	for _, cl := range append(fg.CallsNamed(its, "Atoi"), fg.CallsNamed(its, "ParseInt")...) {
		if len(cl.Args) == 0 {
			continue
		}
		if id, ok := cl.Args[0].(*ast.Ident); !ok || id.Name != "amount" {
			continue
		}
		if amountCall != "" {
			return fmt.Errorf("intervalToSeconds: amount is parsed more than once")
		}
		amountCall = fg.CalleeName(cl)
		if amountCall == "Atoi" {
			amountBase = 10
		} else if len(cl.Args) == 3 {
			lit, ok := cl.Args[1].(*ast.BasicLit)
			if !ok || lit.Kind != token.INT {
				return fmt.Errorf("intervalToSeconds: ParseInt base is not an integer literal")
			}
			amountBase, _ = strconv.ParseInt(lit.Value, 0, 64)
		}
	}
	if amountCall == "" || amountBase < 0 {
		return fmt.Errorf("intervalToSeconds: strconv.Atoi(amount) / strconv.ParseInt(amount, base, bits) not found")
	}
	type unitRow struct {
		Unit string `json:"unit"`
		Mult int64  `json:"mult"`
	}
	var table []unitRow
	defaultZero := false
	var serr error
	ast.Inspect(its, func(n ast.Node) bool {
		sw, ok := n.(*ast.SwitchStmt)
		if !ok {
			return true
		}
		for _, st := range sw.Body.List {
			cc := st.(*ast.CaseClause)
			if len(cc.Body) != 1 {
				serr = fmt.Errorf("intervalToSeconds: case body is not a single return")
				return false
			}
			ret, ok := cc.Body[0].(*ast.ReturnStmt)
			if !ok || len(ret.Results) != 1 {
				serr = fmt.Errorf("intervalToSeconds: case body is not `return <expr>`")
				return false
			}
			var mult int64
			switch r := ret.Results[0].(type) {
			case *ast.Ident:
				if r.Name != "n" {
					serr = fmt.Errorf("intervalToSeconds: return %s", r.Name)
					return false
				}
				mult = 1
			case *ast.BinaryExpr:
				id, ok := r.X.(*ast.Ident)
				lit, ok2 := r.Y.(*ast.BasicLit)
				if !ok || !ok2 || id.Name != "n" || r.Op != token.MUL || lit.Kind != token.INT {
					serr = fmt.Errorf("intervalToSeconds: return is not `n * <int>`")
					return false
				}
				mult, _ = strconv.ParseInt(lit.Value, 10, 64)
			case *ast.BasicLit:
				if r.Value != "0" {
					serr = fmt.Errorf("intervalToSeconds: constant return %s", r.Value)
					return false
				}
				mult = 0
			default:
				serr = fmt.Errorf("intervalToSeconds: unsupported return expression")
				return false
			}
			if cc.List == nil {
				defaultZero = mult == 0
				continue
			}
			for _, e := range cc.List {
				s, ok := strConst(e)
				if !ok {
					serr = fmt.Errorf("intervalToSeconds: non-constant case label")
					return false
				}
				table = append(table, unitRow{s, mult})
			}
		}
		return false
	})
	if serr != nil {
		return serr
	}
	if len(table) == 0 || !defaultZero {
		return fmt.Errorf("intervalToSeconds: switch table empty or default is not `return 0`")
	}

	// ---- rewriteTimeBucket: 3-arg and 2-arg templates
	_, rtb := fg.FindFunc(files, "", "rewriteTimeBucket")
	if rtb == nil {
		return fmt.Errorf("func rewriteTimeBucket not found")
	}
	fl3 := funcLitOf(rtb, "patternTimeBucket3Args")
	fl2 := funcLitOf(rtb, "patternTimeBucket2Args")
	if fl3 == nil || fl2 == nil {
		return fmt.Errorf("rewriteTimeBucket: patternTimeBucket{3,2}Args.ReplaceAllStringFunc(sql, func…) not found")
	}
	if fl3.Pos() > fl2.Pos() {
		return fmt.Errorf("rewriteTimeBucket: the 3-argument form must be handled before the 2-argument form")
	}
	common := []string{
		`amount := parts[1]`,
		`unit := strings.ToLower(strings.TrimSuffix(parts[2], "s"))`,
		`column := strings.TrimSpace(parts[3])`,
		`if strings.Contains(column, "(") { return match }`,
		`seconds := intervalToSeconds(amount, unit)`,
		`if seconds == 0 { return match`,
	}
	if err := expectSnippets(qf, fl3, "rewriteTimeBucket/3-arg", append(common,
		`origin := parts[4]`,
		`originTime, err := parseTimeBucketOrigin(origin)`,
		`if err != nil { return match`,
		`if originTime.Nanosecond() != 0 {`,
		`originEpoch := originTime.Unix()`,
		`widthMicros := int64(seconds) * 1000000`,
		`originMicros := (originEpoch * 1000000) % widthMicros`)...); err != nil {
		return err
	}
	if err := expectSnippets(qf, fl2, "rewriteTimeBucket/2-arg", common...); err != nil {
		return err
	}
	guardOK := false
	ast.Inspect(fl3, func(n ast.Node) bool {
		if is, ok := n.(*ast.IfStmt); ok && norm(qf.Text(is.Cond)) == "originTime.Nanosecond() != 0" && len(is.Body.List) == 1 {
			if ret, ok := is.Body.List[0].(*ast.ReturnStmt); ok && len(ret.Results) == 1 && qf.Text(ret.Results[0]) == "match" {
				guardOK = true
			}
		}
		return true
	})
	if !guardOK {
		return fmt.Errorf("rewriteTimeBucket/3-arg: `if originTime.Nanosecond() != 0 { return match }` not found")
	}
	fmt3, args3, err := sprintfOf(fl3)
	if err != nil {
		return fmt.Errorf("rewriteTimeBucket/3-arg: %v", err)
	}
	fmt2, args2, err := sprintfOf(fl2)
	if err != nil {
		return fmt.Errorf("rewriteTimeBucket/2-arg: %v", err)
	}
	ast3, err := parseTemplate(fmt3, args3)
	if err != nil {
		return err
	}
	ast2, err := parseTemplate(fmt2, args2)
	if err != nil {
		return err
	}
	// ---- rewriteDateTrunc
	_, rdt := fg.FindFunc(files, "", "rewriteDateTrunc")
	if rdt == nil {
		return fmt.Errorf("func rewriteDateTrunc not found")
	}
	fld := funcLitOf(rdt, "patternDateTrunc")
	if fld == nil {
		return fmt.Errorf("rewriteDateTrunc: patternDateTrunc.ReplaceAllStringFunc(sql, func…) not found")
	}
	if err := expectSnippets(qf, fld, "rewriteDateTrunc",
		`unit := strings.ToLower(parts[1])`,
		`column := strings.TrimSpace(parts[2])`,
		`if strings.Contains(column, "(") { return match }`,
		`seconds := intervalToSeconds("1", unit)`,
		`if seconds == 0 { return match`); err != nil {
		return err
	}
	fmtD, argsD, err := sprintfOf(fld)
	if err != nil {
		return fmt.Errorf("rewriteDateTrunc: %v", err)
	}
	astD, err := parseTemplate(fmtD, argsD)
	if err != nil {
		return err
	}
	// ---- trigger regexes
	p2, err := packageVarString(files, "patternTimeBucket2Args")
	if err != nil {
		return err
	}
	p3, err := packageVarString(files, "patternTimeBucket3Args")
	if err != nil {
		return err
	}
	pd, err := packageVarString(files, "patternDateTrunc")
	if err != nil {
		return err
	}
	tbUnits, err := unitsOf(p2)
	if err != nil {
		return err
	}
	tbUnits3, err := unitsOf(p3)
	if err != nil {
		return err
	}
	if strings.Join(tbUnits, "|") != strings.Join(tbUnits3, "|") {
		return fmt.Errorf("2-arg and 3-arg time_bucket patterns accept different units")
	}
	dtUnits, err := unitsOf(pd)
	if err != nil {
		return err
	}
	// ---- parseTimeBucketOrigin layouts
	_, pto := fg.FindFunc(files, "", "parseTimeBucketOrigin")
	if pto == nil {
		return fmt.Errorf("func parseTimeBucketOrigin not found")
	}
	var layouts []string
	ast.Inspect(pto, func(n ast.Node) bool {
		cl, ok := n.(*ast.CompositeLit)
		if !ok {
			return true
		}
		for _, e := range cl.Elts {
			if s, ok := strConst(e); ok {
				layouts = append(layouts, s)
			}
		}
		return false
	})
	if len(layouts) == 0 {
		return fmt.Errorf("parseTimeBucketOrigin: layout list not found")
	}
	// ---- where the rewrites are applied (call order in the query path)
	applied := 0
	for _, f := range files {
		if strings.HasSuffix(f.Path, "query.go") {
			txt := norm(string(f.Src))
			applied = strings.Count(txt, norm("sql = rewriteTimeBucket(sql) sql = rewriteDateTrunc(sql)"))
		}
	}
	if applied == 0 {
		return fmt.Errorf("query.go: `sql = rewriteTimeBucket(sql); sql = rewriteDateTrunc(sql)` call sites not found")
	}

	// ---- regex_rewriter.go: buildURLDomainCASEExact (guarded arms, ELSE = original call) + exact-pattern triggers
	rf, bcase := fg.FindFunc(files, "", "buildURLDomainCASEExact")
	if bcase == nil {
		return fmt.Errorf("func buildURLDomainCASEExact not found")
	}
	if err := expectSnippets(rf, bcase, "buildURLDomainCASEExact",
		`func buildURLDomainCASEExact(column, original string, needSlash bool) string`,
		`like, guard := "_%", ""`,
		`if needSlash { like, guard = "_%/%", fmt.Sprintf(" AND position(chr(10) in %s) = 0", column) }`,
		`b.WriteString("CASE ")`,
		`column, p, like, column, len(p)+1, guard, column, len(p)+1)`,
		`return b.String() + "ELSE " + original + " END"`); err != nil {
		return err
	}
	var casePrefixes []string
	caseWhenFmt := ""
	ast.Inspect(bcase, func(n ast.Node) bool {
		switch x := n.(type) {
		case *ast.RangeStmt:
			if cl, ok := x.X.(*ast.CompositeLit); ok {
				for _, e := range cl.Elts {
					if v, ok := strConst(e); ok {
						casePrefixes = append(casePrefixes, v)
					}
				}
			}
		case *ast.CallExpr:
			if fg.CalleeName(x) == "Fprintf" && len(x.Args) >= 2 {
				if v, ok := strConst(x.Args[1]); ok {
					caseWhenFmt = v
				}
			}
		}
		return true
	})
	if len(casePrefixes) == 0 || caseWhenFmt == "" {
		return fmt.Errorf("buildURLDomainCASEExact: prefix list / WHEN format not found")
	}
	type arm struct {
		Prefix string `json:"prefix"`
		Start  int    `json:"start"`
	}
	var armList []arm
	for _, p := range casePrefixes {
		armList = append(armList, arm{p, len(p) + 1})
	}
	var urlTriggers, urlCanon []string
	for i, fn := range []string{"rewriteURLDomainExtraction", "rewriteURLDomainExtractionExtract"} {
		_, fd := fg.FindFunc(files, "", fn)
		if fd == nil {
			return fmt.Errorf("func %s not found", fn)
		}
		ns := []string{"true", "false"}[i]
		if err := expectSnippets(rf, fd, fn,
			`column := parts[1]`, `pattern := parts[2]`,
			"if strings.ReplaceAll(pattern, `\\/`, \"/\") != `",
			`return buildURLDomainCASEExact(column, match, `+ns+`)`); err != nil {
			return err
		}
		canon := ""
		ast.Inspect(fd, func(n ast.Node) bool {
			if be, ok := n.(*ast.BinaryExpr); ok && be.Op == token.NEQ {
				if c, ok := be.X.(*ast.CallExpr); ok && fg.CalleeName(c) == "ReplaceAll" {
					if v, ok := strConst(be.Y); ok {
						canon = v
					}
				}
			}
			return true
		})
		if canon == "" {
			return fmt.Errorf("%s: canonical pattern comparison not found", fn)
		}
		urlCanon = append(urlCanon, canon)
		mc := fg.CallsNamed(fd, "MustCompile")
		if len(mc) != 1 {
			return fmt.Errorf("%s: expected one regexp.MustCompile", fn)
		}
		s, ok := strConst(mc[0].Args[0])
		if !ok {
			return fmt.Errorf("%s: non-constant regex", fn)
		}
		urlTriggers = append(urlTriggers, s)
	}

	// ---- like_optimizer.go
	pl1, err := packageVarString(files, "patternEmptyCheckAfterLike")
	if err != nil {
		return err
	}
	pl2, err := packageVarString(files, "patternEndEmptyCheck")
	if err != nil {
		return err
	}
	lf, r1 := fg.FindFunc(files, "", "reorderEmptyCheckBeforeLike")
	if r1 == nil {
		return fmt.Errorf("func reorderEmptyCheckBeforeLike not found")
	}
	ras := fg.CallsNamed(r1, "ReplaceAllString")
	if len(ras) != 1 || len(ras[0].Args) != 2 {
		return fmt.Errorf("reorderEmptyCheckBeforeLike: ReplaceAllString(sql, <template>) not found")
	}
	tmpl1, ok := strConst(ras[0].Args[1])
	if !ok {
		return fmt.Errorf("reorderEmptyCheckBeforeLike: template not constant")
	}
	var order1 []int64
	for _, m := range regexp.MustCompile(`\$\{(\d)\}`).FindAllStringSubmatch(tmpl1, -1) {
		k, _ := strconv.Atoi(m[1])
		order1 = append(order1, int64(k))
	}
	if strings.Join(regexp.MustCompile(`\$\{\d\}`).Split(tmpl1, -1), "") != "" {
		return fmt.Errorf("reorderEmptyCheckBeforeLike: template %q contains literal text", tmpl1)
	}
	_, r2 := fg.FindFunc(files, "", "optimizeMultiplePredicates")
	if r2 == nil {
		return fmt.Errorf("func optimizeMultiplePredicates not found")
	}
	if err := expectSnippets(lf, r2, "optimizeMultiplePredicates",
		`patternEndEmptyCheck.ReplaceAllStringFunc(sql, func(match string) string {`,
		`if strings.TrimSpace(parts[2]) == "" { return match }`,
		`if patternOrKeyword.MatchString(parts[2]) { return match }`,
		`if !strings.Contains(strings.ToUpper(parts[2]), "LIKE") { return match }`); err != nil {
		return err
	}
	orGuard, err := packageVarString(files, "patternOrKeyword")
	if err != nil {
		return err
	}
	var order2 []int64
	ast.Inspect(r2, func(n ast.Node) bool {
		ret, ok := n.(*ast.ReturnStmt)
		if !ok || len(ret.Results) != 1 {
			return true
		}
		if _, ok := ret.Results[0].(*ast.BinaryExpr); !ok {
			return true
		}
		var idx []int64
		good := true
		var walk func(e ast.Expr)
		walk = func(e ast.Expr) {
			switch x := e.(type) {
			case *ast.BinaryExpr:
				if x.Op != token.ADD {
					good = false
					return
				}
				walk(x.X)
				walk(x.Y)
			case *ast.IndexExpr:
				id, ok := x.X.(*ast.Ident)
				lit, ok2 := x.Index.(*ast.BasicLit)
				if !ok || !ok2 || id.Name != "parts" {
					good = false
					return
				}
				k, _ := strconv.Atoi(lit.Value)
				idx = append(idx, int64(k))
			default:
				good = false
			}
		}
		walk(ret.Results[0])
		if good && len(idx) > 0 {
			order2 = idx
		}
		return true
	})
	if len(order2) == 0 {
		return fmt.Errorf("optimizeMultiplePredicates: `return parts[i] + parts[j] + …` not found")
	}
	_, olp := fg.FindFunc(files, "", "OptimizeLikePatterns")
	if olp == nil {
		return fmt.Errorf("func OptimizeLikePatterns not found")
	}
	if err := expectSnippets(lf, olp, "OptimizeLikePatterns",
		`if !strings.Contains(sqlUpper, "LIKE") || !strings.Contains(sqlUpper, "WHERE") { return sql, false }`,
		`sql = reorderEmptyCheckBeforeLike(sql)`, `sql = optimizeMultiplePredicates(sql)`); err != nil {
		return err
	}

	// ---------------------------------------------------------------- emit
	w := &out.Lean
	fmt.Fprintf(w, "import Arc.Model.C17\nnamespace Arc.Generated.C17\nopen Arc.C17\n")
	fmt.Fprintf(w, "/-- `intervalToSeconds` switch: unit ↦ multiplier of `n` (default: return 0). -/\n")
	fmt.Fprintf(w, "def unitTable : List (String × Int) := [")
	for i, r := range table {
		if i > 0 {
			fmt.Fprintf(w, ", ")
		}
		fmt.Fprintf(w, "(%s, %s)", fg.LeanStr(r.Unit), fg.LeanInt(r.Mult))
	}
	fmt.Fprintf(w, "]\n")
	fmt.Fprintf(w, "/-- `intervalToSeconds` parses the amount with strconv.%s in this base (0 = Go's prefix-sniffing: 0x, 0o, leading 0 = octal). -/\n", amountCall)
	fmt.Fprintf(w, "def amountParseBase : Nat := %d\n", amountBase)
	fmt.Fprintf(w, "def tb3Fmt : String := %s\ndef tb3Args : List String := %s\ndef tb3Expr : RExpr := %s\n", fg.LeanStr(fmt3), leanStrList(args3), ast3)
	fmt.Fprintf(w, "def tb2Fmt : String := %s\ndef tb2Args : List String := %s\ndef tb2Expr : RExpr := %s\n", fg.LeanStr(fmt2), leanStrList(args2), ast2)
	fmt.Fprintf(w, "def dtFmt : String := %s\ndef dtArgs : List String := %s\ndef dtExpr : RExpr := %s\n", fg.LeanStr(fmtD), leanStrList(argsD), astD)
	fmt.Fprintf(w, "def tbUnits : List String := %s\ndef dtUnits : List String := %s\n", leanStrList(tbUnits), leanStrList(dtUnits))
	fmt.Fprintf(w, "def originLayouts : List String := %s\n", leanStrList(layouts))
	fmt.Fprintf(w, "def patternTimeBucket2Args : String := %s\ndef patternTimeBucket3Args : String := %s\ndef patternDateTrunc : String := %s\n",
		fg.LeanStr(p2), fg.LeanStr(p3), fg.LeanStr(pd))
	fmt.Fprintf(w, "/-- `buildURLDomainCASEExact`: (prefix bytes, substr start = len+1) per WHEN arm, in order; ELSE = the original call. -/\n")
	fmt.Fprintf(w, "def caseArmsTbl : List (List UInt8 × Nat) := [")
	for i, a := range armList {
		if i > 0 {
			fmt.Fprintf(w, ", ")
		}
		fmt.Fprintf(w, "(%s, %d)", leanBytes(a.Prefix), a.Start)
	}
	fmt.Fprintf(w, "]\ndef casePrefixes : List String := %s\n", leanStrList(casePrefixes))
	fmt.Fprintf(w, "def caseWhenFmt : String := %s\n", fg.LeanStr(caseWhenFmt))
	fmt.Fprintf(w, "def caseLikeTail : String := \"_%%\"\ndef caseLikeTailSlash : String := \"_%%/%%\"\n")
	fmt.Fprintf(w, "def caseGuardFmt : String := \" AND position(chr(10) in %%s) = 0\"\n")
	fmt.Fprintf(w, "/-- the only regexes (after `\\/` → `/`) for which the rewrite fires: REGEXP_REPLACE, REGEXP_EXTRACT. -/\n")
	fmt.Fprintf(w, "def urlCanonicalPatterns : List String := %s\n", leanStrList(urlCanon))
	fmt.Fprintf(w, "def urlTriggerPatterns : List String := %s\n", leanStrList(urlTriggers))
	fmt.Fprintf(w, "def likePattern1 : String := %s\ndef likePattern2 : String := %s\n", fg.LeanStr(pl1), fg.LeanStr(pl2))
	fmt.Fprintf(w, "/-- guard of pattern 2: no reordering when the text before the empty check matches this. -/\ndef likeOrGuard : String := %s\n", fg.LeanStr(orGuard))
	li := func(xs []int64) string {
		var q []string
		for _, x := range xs {
			q = append(q, strconv.FormatInt(x, 10))
		}
		return "[" + strings.Join(q, ", ") + "]"
	}
	fmt.Fprintf(w, "/-- capture-group order of the replacement of pattern 1 / pattern 2. -/\n")
	fmt.Fprintf(w, "def likeOrder1 : List Nat := %s\ndef likeOrder2 : List Nat := %s\n", li(order1), li(order2))
	fmt.Fprintf(w, "end Arc.Generated.C17\n")

	out.JSON["unit_table"] = table
	out.JSON["amount_parse"], out.JSON["amount_base"] = amountCall, amountBase
	out.JSON["tb3_fmt"], out.JSON["tb2_fmt"], out.JSON["dt_fmt"] = fmt3, fmt2, fmtD
	out.JSON["tb_units"], out.JSON["dt_units"] = tbUnits, dtUnits
	out.JSON["origin_layouts"] = layouts
	out.JSON["case_when_fmt"] = caseWhenFmt
	out.JSON["case_arms"] = armList
	out.JSON["like_order1"], out.JSON["like_order2"] = order1, order2
	out.JSON["apply_sites"] = applied
	return nil
}
