package main

import (
	"fmt"
	"go/ast"
	"go/token"
	"strconv"
	"strings"
	"time"
	"verif/factgen/fg"
)

// C18: facts of internal/pruning/partition_pruner.go and of its use in internal/api/query.go:
//   - every regexp literal of the time-range extraction (the Lean model states what each one recognises;
//     theorem C18_regex_tied compares the literals with the ones the model was written for)
//   - minPartitionDate, maxPartitionPaths, the end-only default start, the start-only default span,
//     the cache TTLs
//   - the parseDateTime layout list, the evaluateRelativeTime unit switch
//   - the shape of the GeneratePartitionPaths loop (init / condition / step / day-level loop)
//   - what query.go passes to OptimizeTablePath (the WHOLE original SQL, for every table reference)
//     and who invalidates the caches
func main() { fg.Main("C18", c18) }

func unq(e ast.Expr) (string, bool) {
	bl, ok := e.(*ast.BasicLit)
	if !ok || bl.Kind != token.STRING {
		return "", false
	}
	s, err := strconv.Unquote(bl.Value)
	return s, err == nil
}

// regexp.MustCompile(`...`) -> literal
func mustCompileLit(e ast.Expr) (string, bool) {
	c, ok := e.(*ast.CallExpr)
	if !ok || fg.CalleeName(c) != "MustCompile" || len(c.Args) != 1 {
		return "", false
	}
	return unq(c.Args[0])
}

// time.Date(y, m, d, h, mi, s, ns, time.UTC) -> unix seconds
func timeDateUnix(env *fg.ConstEnv, e ast.Expr) (int64, error) {
	c, ok := e.(*ast.CallExpr)
	if !ok || fg.CalleeName(c) != "Date" || len(c.Args) != 8 {
		return 0, fmt.Errorf("not a time.Date(…8 args…) call")
	}
	var v [7]int64
	for i := 0; i < 7; i++ {
		if i == 1 {
			// month may be time.January style or an int
			if sel, ok := c.Args[1].(*ast.SelectorExpr); ok {
				found := false
				for m := time.January; m <= time.December; m++ {
					if m.String() == sel.Sel.Name {
						v[1] = int64(m)
						found = true
					}
				}
				if found {
					continue
				}
			}
		}
		x, err := env.EvalInt(c.Args[i])
		if err != nil {
			return 0, fmt.Errorf("time.Date arg %d: %v", i, err)
		}
		v[i] = x
	}
	if sel, ok := c.Args[7].(*ast.SelectorExpr); !ok || sel.Sel.Name != "UTC" {
		return 0, fmt.Errorf("time.Date location is not time.UTC")
	}
	if v[6] != 0 {
		return 0, fmt.Errorf("time.Date with nanoseconds")
	}
	return time.Date(int(v[0]), time.Month(v[1]), int(v[2]), int(v[3]), int(v[4]), int(v[5]), 0, time.UTC).Unix(), nil
}

func c18(repo string, out *fg.Out) error {
	f, err := fg.ParseFile(repo, "internal/pruning/partition_pruner.go")
	if err != nil {
		return err
	}
	env := fg.NewConstEnv([]*fg.File{f})

	// ---- regex literals (package-level var block)
	single := map[string]string{}
	lists := map[string][]string{}
	for name, ex := range env.Exprs {
		if s, ok := mustCompileLit(ex); ok {
			single[name] = s
			continue
		}
		if cl, ok := ex.(*ast.CompositeLit); ok {
			var xs []string
			all := len(cl.Elts) > 0
			for _, el := range cl.Elts {
				s, ok := mustCompileLit(el)
				if !ok {
					all = false
					break
				}
				xs = append(xs, s)
			}
			if all {
				lists[name] = xs
			}
		}
	}
	needSingle := []string{"whereClausePattern", "betweenPattern", "relativeStartSubtractPattern", "relativeStartAddPattern",
		"relativeEndSubtractPattern", "relativeEndAddPattern", "storagePathPattern"}
	for _, n := range needSingle {
		if _, ok := single[n]; !ok {
			return fmt.Errorf("var %s = regexp.MustCompile(<literal>) not found", n)
		}
	}
	for _, n := range []string{"startTimePatterns", "endTimePatterns"} {
		if len(lists[n]) == 0 {
			return fmt.Errorf("var %s = []*regexp.Regexp{regexp.MustCompile(<literal>), …} not found", n)
		}
	}

	// ---- constants
	maxPaths, err := env.EvalInt(env.Exprs["maxPartitionPaths"])
	if err != nil {
		return fmt.Errorf("maxPartitionPaths: %v", err)
	}
	mpd, ok := env.Exprs["minPartitionDate"]
	if !ok {
		return fmt.Errorf("var minPartitionDate not found")
	}
	minDate, err := timeDateUnix(env, mpd)
	if err != nil {
		return fmt.Errorf("minPartitionDate: %v", err)
	}
	partTTL, err := env.EvalInt(env.Exprs["PartitionCacheTTL"])
	if err != nil {
		return fmt.Errorf("PartitionCacheTTL: %v", err)
	}
	globTTL, err := env.EvalInt(env.Exprs["GlobCacheTTL"])
	if err != nil {
		return fmt.Errorf("GlobCacheTTL: %v", err)
	}
	tf, err := fg.ParseFile(repo, "internal/database/sql_transform_cache.go")
	if err != nil {
		return err
	}
	tenv := fg.NewConstEnv([]*fg.File{tf})
	xformTTL, err := tenv.EvalInt(tenv.Exprs["SQLTransformCacheTTL"])
	if err != nil {
		return fmt.Errorf("SQLTransformCacheTTL: %v", err)
	}

	// ---- ExtractTimeRange: defaults of the one-sided branches + the order of the extraction steps
	ex := f.FuncDecl("PartitionPruner", "ExtractTimeRange")
	if ex == nil {
		return fmt.Errorf("(*PartitionPruner).ExtractTimeRange not found")
	}
	var defaultStart int64 = -1
	defaultIsFloor := false
	var startOnlyAdd int64 = -1
	ast.Inspect(ex.Body, func(n ast.Node) bool {
		as, ok := n.(*ast.AssignStmt)
		if !ok || len(as.Lhs) != 1 || len(as.Rhs) != 1 {
			return true
		}
		id, ok := as.Lhs[0].(*ast.Ident)
		if !ok {
			return true
		}
		switch id.Name {
		case "start":
			if v, err := timeDateUnix(env, as.Rhs[0]); err == nil {
				defaultStart = v
			} else if rid, ok := as.Rhs[0].(*ast.Ident); ok && rid.Name == "minPartitionDate" {
				defaultStart = minDate
				defaultIsFloor = true
			}
		case "end":
			// time.Now().UTC().Add(<dur>)
			if c, ok := as.Rhs[0].(*ast.CallExpr); ok && fg.CalleeName(c) == "Add" && len(c.Args) == 1 &&
				strings.Contains(f.Text(c.Fun), "Now()") {
				if v, err := env.EvalInt(c.Args[0]); err == nil {
					startOnlyAdd = v
				}
			}
		}
		return true
	})
	if defaultStart < 0 {
		return fmt.Errorf("ExtractTimeRange: `start := time.Date(<const>…, time.UTC)` / `start := minPartitionDate` (end-only default) not found")
	}
	if startOnlyAdd < 0 {
		return fmt.Errorf("ExtractTimeRange: `end := time.Now().UTC().Add(<const>)` (start-only default) not found")
	}
	// order in which the pattern variables are consulted inside ExtractTimeRange
	var order []string
	seen := map[string]bool{}
	ast.Inspect(ex.Body, func(n ast.Node) bool {
		id, ok := n.(*ast.Ident)
		if !ok {
			return true
		}
		if _, isS := single[id.Name]; isS || len(lists[id.Name]) > 0 {
			if !seen[id.Name] {
				seen[id.Name] = true
				order = append(order, id.Name)
			}
		}
		return true
	})
	// `break` after the first successfully parsed pattern of each list; relative patterns guarded by `== nil`
	breaks := 0
	ast.Inspect(ex.Body, func(n ast.Node) bool {
		if b, ok := n.(*ast.BranchStmt); ok && b.Tok == token.BREAK {
			breaks++
		}
		return true
	})
	nilGuards := strings.Count(f.Text(ex.Body), "startTime == nil") + strings.Count(f.Text(ex.Body), "endTime == nil")

	exText := f.Text(ex.Body)
	bailMulti := strings.Contains(exText, "multiTablePattern.MatchString(maskedSQL)") && strings.Contains(exText, "selectPattern.FindAllStringIndex(maskedSQL, 2)) > 1")
	bailOrNot := strings.Contains(exText, "disjunctionPattern.MatchString(maskedWhereClause)")
	inclRules := []string{}
	for _, l := range strings.Split(exText, "\n") {
		if strings.Contains(l, "endInclusive =") || strings.Contains(l, "endInclusive :=") {
			t := strings.TrimSpace(l)
			if i := strings.Index(t, "//"); i >= 0 {
				t = strings.TrimSpace(t[:i])
			}
			inclRules = append(inclRules, t)
		}
	}

	// ---- parseDateTime layouts
	pd := f.FuncDecl("", "parseDateTime")
	if pd == nil {
		return fmt.Errorf("parseDateTime not found")
	}
	var layouts []string
	ast.Inspect(pd.Body, func(n ast.Node) bool {
		cl, ok := n.(*ast.CompositeLit)
		if !ok || len(layouts) > 0 {
			return true
		}
		for _, el := range cl.Elts {
			if s, ok := unq(el); ok {
				layouts = append(layouts, s)
			} else if sel, ok := el.(*ast.SelectorExpr); ok {
				switch sel.Sel.Name {
				case "RFC3339":
					layouts = append(layouts, time.RFC3339)
				case "RFC3339Nano":
					layouts = append(layouts, time.RFC3339Nano)
				default:
					layouts = append(layouts, "time."+sel.Sel.Name)
				}
			}
		}
		return true
	})
	if len(layouts) == 0 {
		return fmt.Errorf("parseDateTime: layout list not found")
	}
	utcConv := strings.Contains(f.Text(pd.Body), "t.UTC()")

	// ---- evaluateRelativeTime: unit switch
	er := f.FuncDecl("", "evaluateRelativeTime")
	if er == nil {
		return fmt.Errorf("evaluateRelativeTime not found")
	}
	var units []string
	ast.Inspect(er.Body, func(n ast.Node) bool {
		cc, ok := n.(*ast.CaseClause)
		if !ok || len(cc.List) != 1 || len(cc.Body) == 0 {
			return true
		}
		u, ok := unq(cc.List[0])
		if !ok {
			return true
		}
		if ret, ok := cc.Body[0].(*ast.ReturnStmt); ok && len(cc.Body) == 1 && len(ret.Results) > 0 {
			units = append(units, u+" => "+f.Text(ret.Results[0]))
			return true
		}
		var parts []string
		for _, st := range cc.Body {
			parts = append(parts, strings.Join(strings.Fields(f.Text(st)), " "))
		}
		units = append(units, u+" => "+strings.Join(parts, "; "))
		return true
	})
	if len(units) == 0 {
		return fmt.Errorf("evaluateRelativeTime: unit switch not found")
	}

	// ---- GeneratePartitionPaths: loop shape
	gp := f.FuncDecl("PartitionPruner", "GeneratePartitionPaths")
	if gp == nil {
		return fmt.Errorf("(*PartitionPruner).GeneratePartitionPaths not found")
	}
	var loopInit, loopCond, loopStep, clampCond, capCond, hourlyExpr, dailyExpr string
	dayLoop := false
	for _, st := range gp.Body.List {
		switch s := st.(type) {
		case *ast.AssignStmt:
			if len(s.Lhs) == 1 && f.Text(s.Lhs[0]) == "current" && loopInit == "" {
				loopInit = f.Text(s.Rhs[0])
			}
		case *ast.IfStmt:
			c := f.Text(s.Cond)
			if strings.Contains(c, "minPartitionDate") {
				clampCond = c + " => " + strings.TrimSpace(f.Text(s.Body.List[0]))
			}
			if s.Init != nil && strings.Contains(f.Text(s.Init), "end.Sub(current)") {
				capCond = f.Text(s.Init) + "; " + c
				ast.Inspect(s.Body, func(n ast.Node) bool {
					switch x := n.(type) {
					case *ast.AssignStmt:
						if len(x.Lhs) == 1 {
							switch f.Text(x.Lhs[0]) {
							case "hourlyPaths":
								hourlyExpr = f.Text(x.Rhs[0])
							case "dailyPaths":
								dailyExpr = f.Text(x.Rhs[0])
							}
						}
					case *ast.IfStmt:
						if x.Init != nil && strings.Contains(f.Text(x.Init), "estPaths") {
							capCond += " | " + f.Text(x.Init) + "; " + f.Text(x.Cond)
						}
					}
					return true
				})
			}
		case *ast.ForStmt:
			if s.Init == nil && s.Post == nil && s.Cond != nil {
				loopCond = f.Text(s.Cond)
				for _, b := range s.Body.List {
					if as, ok := b.(*ast.AssignStmt); ok && len(as.Lhs) == 1 && f.Text(as.Lhs[0]) == "current" {
						loopStep = f.Text(as.Rhs[0])
					}
				}
			}
		case *ast.RangeStmt:
			if f.Text(s.X) == "daysMap" {
				for _, b := range s.Body.List {
					if as, ok := b.(*ast.AssignStmt); ok && strings.HasPrefix(f.Text(as.Rhs[0]), "append(paths") {
						dayLoop = true
					}
				}
			}
		}
	}
	if loopInit == "" || loopCond == "" || loopStep == "" || clampCond == "" || capCond == "" || hourlyExpr == "" || dailyExpr == "" {
		return fmt.Errorf("GeneratePartitionPaths: loop shape not recognised (init=%q cond=%q step=%q clamp=%q cap=%q hourly=%q daily=%q)",
			loopInit, loopCond, loopStep, clampCond, capCond, hourlyExpr, dailyExpr)
	}

	// ---- OptimizeTablePath: fallbacks
	op := f.FuncDecl("PartitionPruner", "OptimizeTablePath")
	if op == nil {
		return fmt.Errorf("(*PartitionPruner).OptimizeTablePath not found")
	}
	opText := f.Text(op.Body)
	emptyFallbacks := strings.Count(opText, "len(partitionPaths) == 0")
	cacheFirst := strings.Index(opText, "p.partitionCache.get(cacheKey)") >= 0 &&
		strings.Index(opText, "p.partitionCache.get(cacheKey)") < strings.Index(opText, "p.ExtractTimeRange(sql)")

	// ---- query.go: what is passed to OptimizeTablePath, who invalidates
	qf, err := fg.ParseFile(repo, "internal/api/query.go")
	if err != nil {
		return err
	}
	var optArgs []string
	for _, c := range fg.CallsNamed(qf.AST, "OptimizeTablePath") {
		if len(c.Args) != 3 {
			return fmt.Errorf("query.go: OptimizeTablePath call with %d args", len(c.Args))
		}
		optArgs = append(optArgs, qf.Text(c.Args[2]))
	}
	if len(optArgs) == 0 {
		return fmt.Errorf("query.go: no OptimizeTablePath call")
	}
	// every buildReadParquetExpr* call passes `originalSQL` / `sql` of the whole statement
	wholeSQL := true
	for _, a := range optArgs {
		if a != "originalSQL" {
			wholeSQL = false
		}
	}
	invalidateCallers := 0
	mainFiles, err := fg.ParseDir(repo, "cmd/arc")
	if err != nil {
		return err
	}
	for _, mf := range mainFiles {
		invalidateCallers += len(fg.CallsNamed(mf.AST, "InvalidateCaches"))
	}
	// the post-compaction hook QueryHandler.InvalidateCaches: which caches does it clear?
	ic := qf.FuncDecl("QueryHandler", "InvalidateCaches")
	if ic == nil {
		return fmt.Errorf("query.go: (*QueryHandler).InvalidateCaches not found")
	}
	clearsTransform, callsPrunerAll := false, false
	for _, c := range fg.CallsNamed(ic.Body, "Invalidate") {
		if strings.Contains(qf.Text(c.Fun), "queryCache") {
			clearsTransform = true
		}
	}
	for _, c := range fg.CallsNamed(ic.Body, "InvalidateAllCaches") {
		if strings.Contains(qf.Text(c.Fun), "pruner") {
			callsPrunerAll = true
		}
	}
	iac := f.FuncDecl("PartitionPruner", "InvalidateAllCaches")
	if iac == nil {
		return fmt.Errorf("(*PartitionPruner).InvalidateAllCaches not found")
	}
	iacText := f.Text(iac.Body)
	clearsPruner := callsPrunerAll && strings.Contains(iacText, "p.globCache.invalidate()") && strings.Contains(iacText, "p.partitionCache.invalidate()")
	// the hook is wired to compaction completion in cmd/arc
	compactionHook := false
	for _, mf := range mainFiles {
		for _, c := range fg.CallsNamed(mf.AST, "SetOnCompactionComplete") {
			if len(fg.CallsNamed(c, "InvalidateCaches")) > 0 {
				compactionHook = true
			}
		}
	}

	// does any ingest / flush path invalidate the pruner caches?  (expected: no)
	ingestInvalidates := 0
	for _, dir := range []string{"internal/ingest", "internal/wal", "internal/storage"} {
		fs, err := fg.ParseDir(repo, dir)
		if err != nil {
			continue
		}
		for _, x := range fs {
			for _, nm := range []string{"InvalidateCaches", "InvalidateAllCaches", "InvalidatePartitionCache", "InvalidateGlobCache"} {
				ingestInvalidates += len(fg.CallsNamed(x.AST, nm))
			}
		}
	}

	// ---- emit
	w := &out.Lean
	strList := func(name string, xs []string) {
		fmt.Fprintf(w, "def %s : List String := [\n", name)
		for i, s := range xs {
			sep := ","
			if i == len(xs)-1 {
				sep = ""
			}
			fmt.Fprintf(w, "  %s%s\n", fg.LeanStr(s), sep)
		}
		fmt.Fprintf(w, "]\n")
	}
	fmt.Fprintf(w, "namespace Arc.Generated.C18\n")
	fmt.Fprintf(w, "/-- time.Hour in ns (language constant) -/\ndef hourNs : Int := 3600000000000\n")
	fmt.Fprintf(w, "def maxPartitionPaths : Int := %s\n", fg.LeanInt(maxPaths))
	fmt.Fprintf(w, "/-- minPartitionDate as unix ns -/\ndef minPartitionDateNs : Int := %s * 1000000000\n", fg.LeanInt(minDate))
	fmt.Fprintf(w, "/-- start assumed by ExtractTimeRange when only an end bound is found (unix ns) -/\ndef defaultStartNs : Int := %s * 1000000000\n", fg.LeanInt(defaultStart))
	fmt.Fprintf(w, "/-- end assumed when only a start bound is found: now + this (ns) -/\ndef startOnlyAddNs : Int := %s\n", fg.LeanInt(startOnlyAdd))
	fmt.Fprintf(w, "def partitionCacheTTLNs : Int := %s\n", fg.LeanInt(partTTL))
	fmt.Fprintf(w, "def globCacheTTLNs : Int := %s\n", fg.LeanInt(globTTL))
	fmt.Fprintf(w, "def transformCacheTTLNs : Int := %s\n", fg.LeanInt(xformTTL))
	fmt.Fprintf(w, "def whereClausePattern : String := %s\n", fg.LeanStr(single["whereClausePattern"]))
	strList("startTimePatterns", lists["startTimePatterns"])
	strList("endTimePatterns", lists["endTimePatterns"])
	fmt.Fprintf(w, "def betweenPattern : String := %s\n", fg.LeanStr(single["betweenPattern"]))
	strList("relativePatterns", []string{single["relativeStartSubtractPattern"], single["relativeStartAddPattern"],
		single["relativeEndSubtractPattern"], single["relativeEndAddPattern"]})
	fmt.Fprintf(w, "def storagePathPattern : String := %s\n", fg.LeanStr(single["storagePathPattern"]))
	strList("extractOrder", order)
	for _, n := range []string{"multiTablePattern", "selectPattern", "disjunctionPattern"} {
		fmt.Fprintf(w, "def %s : String := %s\n", n, fg.LeanStr(single[n]))
	}
	fmt.Fprintf(w, "/-- ExtractTimeRange returns nil for statements with JOIN / set operations / more than one SELECT -/\ndef bailsOnMultiTable : Bool := %v\n", bailMulti)
	fmt.Fprintf(w, "/-- ExtractTimeRange returns nil when the WHERE text contains OR / NOT -/\ndef bailsOnOrNot : Bool := %v\n", bailOrNot)
	fmt.Fprintf(w, "def defaultStartIsFloor : Bool := %v\n", defaultIsFloor)
	strList("endInclusiveRules", inclRules)
	fmt.Fprintf(w, "def extractBreaks : Nat := %d\ndef extractNilGuards : Nat := %d\n", breaks, nilGuards)
	strList("parseLayouts", layouts)
	fmt.Fprintf(w, "def parseConvertsToUTC : Bool := %v\n", utcConv)
	strList("relativeUnits", units)
	fmt.Fprintf(w, "def loopInit : String := %s\n", fg.LeanStr(loopInit))
	fmt.Fprintf(w, "def loopCond : String := %s\n", fg.LeanStr(loopCond))
	fmt.Fprintf(w, "def loopStep : String := %s\n", fg.LeanStr(loopStep))
	fmt.Fprintf(w, "def clampStmt : String := %s\n", fg.LeanStr(clampCond))
	fmt.Fprintf(w, "def capStmt : String := %s\n", fg.LeanStr(capCond))
	fmt.Fprintf(w, "def hourlyExpr : String := %s\n", fg.LeanStr(hourlyExpr))
	fmt.Fprintf(w, "def dailyExpr : String := %s\n", fg.LeanStr(dailyExpr))
	fmt.Fprintf(w, "def dayLevelPaths : Bool := %v\n", dayLoop)
	fmt.Fprintf(w, "def emptyFallbacks : Nat := %d\n", emptyFallbacks)
	fmt.Fprintf(w, "def partitionCacheConsultedFirst : Bool := %v\n", cacheFirst)
	strList("optimizeSqlArgs", optArgs)
	fmt.Fprintf(w, "/-- every table reference of a statement is pruned with the text of the WHOLE statement -/\ndef prunesWithWholeStatement : Bool := %v\n", wholeSQL)
	fmt.Fprintf(w, "def invalidateCallersInMain : Nat := %d\n", invalidateCallers)
	fmt.Fprintf(w, "def ingestInvalidations : Nat := %d\n", ingestInvalidates)
	fmt.Fprintf(w, "/-- QueryHandler.InvalidateCaches calls h.queryCache.Invalidate() (the SQL transform cache, whose entries embed the pruned path list) -/\ndef invalidateClearsTransform : Bool := %v\n", clearsTransform)
	fmt.Fprintf(w, "/-- QueryHandler.InvalidateCaches calls h.pruner.InvalidateAllCaches(), which clears the glob and the partition cache -/\ndef invalidateClearsPruner : Bool := %v\n", clearsPruner)
	fmt.Fprintf(w, "/-- cmd/arc wires InvalidateCaches into compactionManager.SetOnCompactionComplete -/\ndef compactionCallsInvalidate : Bool := %v\n", compactionHook)
	fmt.Fprintf(w, "end Arc.Generated.C18\n")

	out.JSON["max_partition_paths"] = maxPaths
	out.JSON["min_partition_date_unix"] = minDate
	out.JSON["default_start_unix"] = defaultStart
	out.JSON["start_only_add_ns"] = startOnlyAdd
	out.JSON["partition_cache_ttl_ns"] = partTTL
	out.JSON["glob_cache_ttl_ns"] = globTTL
	out.JSON["transform_cache_ttl_ns"] = xformTTL
	out.JSON["start_patterns"] = lists["startTimePatterns"]
	out.JSON["end_patterns"] = lists["endTimePatterns"]
	out.JSON["between_pattern"] = single["betweenPattern"]
	out.JSON["layouts"] = layouts
	out.JSON["invalidate_clears_transform"] = clearsTransform
	out.JSON["invalidate_clears_pruner"] = clearsPruner
	out.JSON["loop"] = map[string]any{"init": loopInit, "cond": loopCond, "step": loopStep, "day_level": dayLoop}
	return nil
}
