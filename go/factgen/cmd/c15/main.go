package main

import (
	"fmt"
	"go/ast"
	"go/token"
	"sort"
	"strconv"
	"strings"
	"verif/factgen/fg"
)

// C15: (a) the placeholder formats MaskStringLiterals prints, (b) the replace mode of
// UnmaskStringLiterals per mask class, (c) for every function of internal/api/query.go that strips
// comments: does it mask first (the order the model's `normalize` assumes).
func main() { fg.Main("C15", c15) }

func byteList(s string) string {
	var xs []string
	for i := 0; i < len(s); i++ {
		xs = append(xs, strconv.Itoa(int(s[i])))
	}
	return "[" + strings.Join(xs, ", ") + "]"
}

func c15(repo string, out *fg.Out) error {
	mf, err := fg.ParseFile(repo, "internal/sql/mask.go")
	if err != nil {
		return err
	}
	fd := mf.FuncDecl("", "MaskStringLiterals")
	if fd == nil {
		return fmt.Errorf("func MaskStringLiterals not found in internal/sql/mask.go")
	}
	type pf struct{ Prefix, Suffix string }
	var strF, idF []pf
	for _, c := range fg.CallsNamed(fd, "Sprintf") {
		if len(c.Args) != 2 {
			return fmt.Errorf("MaskStringLiterals: Sprintf with %d args at line %d", len(c.Args), mf.Line(c))
		}
		lit, ok := c.Args[0].(*ast.BasicLit)
		if !ok || lit.Kind != token.STRING {
			return fmt.Errorf("MaskStringLiterals: Sprintf format is not a literal at line %d", mf.Line(c))
		}
		if id, ok := c.Args[1].(*ast.Ident); !ok || id.Name != "maskIndex" {
			return fmt.Errorf("MaskStringLiterals: Sprintf argument is not maskIndex at line %d", mf.Line(c))
		}
		f, _ := strconv.Unquote(lit.Value)
		parts := strings.Split(f, "%d")
		if len(parts) != 2 {
			return fmt.Errorf("placeholder format %q is not prefix%%dsuffix", f)
		}
		if strings.Contains(f, "IDENT") {
			idF = append(idF, pf{parts[0], parts[1]})
		} else {
			strF = append(strF, pf{parts[0], parts[1]})
		}
	}
	if len(strF) == 0 || len(idF) == 0 {
		return fmt.Errorf("expected string and identifier placeholder formats, got %d/%d", len(strF), len(idF))
	}
	// de-duplication key of identifier placeholders: every identPlaceholders[…] index must be the
	// masked token text itself (`original`), and `original` must be the raw slice sql[start:i].
	var keyExprs []string
	ast.Inspect(fd, func(n ast.Node) bool {
		if ix, ok := n.(*ast.IndexExpr); ok {
			if id, ok := ix.X.(*ast.Ident); ok && id.Name == "identPlaceholders" {
				keyExprs = append(keyExprs, mf.Text(ix.Index))
			}
		}
		return true
	})
	if len(keyExprs) < 2 {
		return fmt.Errorf("MaskStringLiterals: expected a lookup and a store into identPlaceholders, found %d index expressions", len(keyExprs))
	}
	keyIsOriginal := true
	for _, k := range keyExprs {
		if k != "original" {
			keyIsOriginal = false
		}
	}
	origIsSlice := false
	ast.Inspect(fd, func(n ast.Node) bool {
		if as, ok := n.(*ast.AssignStmt); ok && len(as.Lhs) == 1 && len(as.Rhs) == 1 {
			if id, ok := as.Lhs[0].(*ast.Ident); ok && id.Name == "original" && mf.Text(as.Rhs[0]) == "sql[start:i]" {
				origIsSlice = true
			}
		}
		return true
	})
	// UnmaskStringLiterals (942e7b2): ONE strings.NewReplacer(pairs...).Replace(sql) over all masks, the
	// pairs appended in mask order as (Placeholder, Original); no per-mask Replace / ReplaceAll loop.
	ud := mf.FuncDecl("", "UnmaskStringLiterals")
	if ud == nil {
		return fmt.Errorf("func UnmaskStringLiterals not found")
	}
	nr := fg.CallsNamed(ud, "NewReplacer")
	singlePass := len(nr) == 1 && len(fg.CallsNamed(ud, "ReplaceAll")) == 0 && len(fg.CallsNamed(ud, "Replace")) == 1
	if singlePass {
		singlePass = nr[0].Ellipsis.IsValid() && len(nr[0].Args) == 1 && mf.Text(nr[0].Args[0]) == "pairs"
	}
	pairsInOrder := false
	ast.Inspect(ud, func(n ast.Node) bool {
		if rs, ok := n.(*ast.RangeStmt); ok && mf.Text(rs.X) == "masks" {
			for _, c := range fg.CallsNamed(rs.Body, "append") {
				if len(c.Args) == 3 && mf.Text(c.Args[0]) == "pairs" && mf.Text(c.Args[1]) == "mask.Placeholder" && mf.Text(c.Args[2]) == "mask.Original" {
					pairsInOrder = true
				}
			}
		}
		return true
	})
	var replArg string
	for _, c := range fg.CallsNamed(ud, "Replace") {
		if len(c.Args) == 1 {
			replArg = mf.Text(c.Args[0])
		}
	}
	// call sites
	qf, err := fg.ParseFile(repo, "internal/api/query.go")
	if err != nil {
		return err
	}
	type site struct {
		Func            string `json:"func"`
		MaskBeforeStrip bool   `json:"mask_before_strip"`
	}
	var sites []site
	for _, d := range qf.AST.Decls {
		f, ok := d.(*ast.FuncDecl)
		if !ok || f.Body == nil || f.Name.Name == "stripSQLComments" {
			continue
		}
		strips := fg.CallsNamed(f.Body, "stripSQLComments")
		if len(strips) == 0 {
			continue
		}
		masks := fg.CallsNamed(f.Body, "MaskStringLiterals")
		okOrder := len(masks) > 0
		for _, s := range strips {
			before := false
			for _, m := range masks {
				if m.Pos() < s.Pos() {
					before = true
				}
			}
			if !before {
				okOrder = false
			}
		}
		sites = append(sites, site{f.Name.Name, okOrder})
	}
	sort.Slice(sites, func(i, j int) bool { return sites[i].Func < sites[j].Func })
	if len(sites) < 3 {
		return fmt.Errorf("expected ≥3 functions calling stripSQLComments in internal/api/query.go, found %d", len(sites))
	}
	w := &out.Lean
	fmt.Fprintln(w, "namespace Arc.Generated.C15")
	fmt.Fprintln(w, "/-- (prefix, suffix) bytes of every `fmt.Sprintf(\"…%d…\", maskIndex)` for string-class placeholders in MaskStringLiterals -/")
	fmt.Fprintln(w, "def strFormats : List (List UInt8 × List UInt8) := [")
	for i, p := range strF {
		sep := ","
		if i == len(strF)-1 {
			sep = ""
		}
		fmt.Fprintf(w, "  (%s, %s)%s\n", byteList(p.Prefix), byteList(p.Suffix), sep)
	}
	fmt.Fprintln(w, "]")
	fmt.Fprintln(w, "def identFormats : List (List UInt8 × List UInt8) := [")
	for i, p := range idF {
		sep := ","
		if i == len(idF)-1 {
			sep = ""
		}
		fmt.Fprintf(w, "  (%s, %s)%s\n", byteList(p.Prefix), byteList(p.Suffix), sep)
	}
	fmt.Fprintln(w, "]")
	fmt.Fprintf(w, "/-- UnmaskStringLiterals is one `strings.NewReplacer(pairs...).Replace(sql)`; `pairs` is built by `for _, mask := range masks { pairs = append(pairs, mask.Placeholder, mask.Original) }`; no strings.Replace / ReplaceAll loop -/\ndef unmaskSinglePass : Bool := %v\n", singlePass && pairsInOrder && replArg == "sql")
	fmt.Fprintf(w, "/-- every `identPlaceholders[k]` in MaskStringLiterals has k = `original` = `sql[start:i]` (index expressions found: %s) -/\ndef identDedupKeyIsTokenText : Bool := %v\n", strings.Join(keyExprs, ", "), keyIsOriginal && origIsSlice)
	fmt.Fprintln(w, "/-- (function of internal/api/query.go that calls stripSQLComments, MaskStringLiterals is called before every such call) -/")
	fmt.Fprintln(w, "def callSites : List (String × Bool) := [")
	for i, s := range sites {
		sep := ","
		if i == len(sites)-1 {
			sep = ""
		}
		fmt.Fprintf(w, "  (%s, %v)%s\n", fg.LeanStr(s.Func), s.MaskBeforeStrip, sep)
	}
	fmt.Fprintln(w, "]")
	fmt.Fprintln(w, "end Arc.Generated.C15")
	out.JSON["str_formats"] = strF
	out.JSON["ident_formats"] = idF
	out.JSON["call_sites"] = sites
	out.JSON["ident_dedup_keys"] = keyExprs
	return nil
}
