package main

import (
	"fmt"
	"go/ast"
	"go/token"
	"regexp"
	"strconv"
	"strings"
	"verif/factgen/fg"
)

// C11: facts of internal/api/retention.go the theorems depend on:
//   - the comparator applied to MAX(time) and the cutoff in deleteOldFiles
//     (`maxTime.Before(cutoffDate)` -> TimeCmp.before; `!maxTime.After(cutoffDate)` -> notAfter)
//   - the aggregate of the per-file query (`MAX(time)`, `COUNT(*)`)
//   - the listing prefixes: `database + "/" + measurement + "/"` and `policy.Database + "/"`
//     (trailing '/' present?)
//   - the cutoff expression `time.Now().UTC().AddDate(0, 0, -(policy.RetentionDays + policy.BufferDays))`
//     in BOTH execution paths (ExecutePolicy = scheduler, handleExecute = HTTP)
//   - the dry-run branch shape of deleteOldFiles.
func main() { fg.Main("C11", c11) }

var ws = regexp.MustCompile(`\s+`)

func norm(s string) string { return strings.TrimSpace(ws.ReplaceAllString(s, " ")) }

// concatParts flattens a `a + "x" + b` expression into operand texts.
func concatParts(f *fg.File, e ast.Expr) []string {
	if b, ok := e.(*ast.BinaryExpr); ok && b.Op == token.ADD {
		return append(concatParts(f, b.X), concatParts(f, b.Y)...)
	}
	if l, ok := e.(*ast.BasicLit); ok && l.Kind == token.STRING {
		s, _ := strconv.Unquote(l.Value)
		return []string{"\"" + s + "\""}
	}
	return []string{f.Text(e)}
}

func prefixAssign(f *fg.File, fd *ast.FuncDecl) ([]string, error) {
	var parts []string
	n := 0
	ast.Inspect(fd.Body, func(x ast.Node) bool {
		as, ok := x.(*ast.AssignStmt)
		if !ok || len(as.Lhs) != 1 || len(as.Rhs) != 1 {
			return true
		}
		if id, ok := as.Lhs[0].(*ast.Ident); ok && id.Name == "prefix" {
			parts = concatParts(f, as.Rhs[0])
			n++
		}
		return true
	})
	if n != 1 {
		return nil, fmt.Errorf("%s: expected exactly one `prefix := …` assignment, found %d", fd.Name.Name, n)
	}
	return parts, nil
}

func c11(repo string, out *fg.Out) error {
	f, err := fg.ParseFile(repo, "internal/api/retention.go")
	if err != nil {
		return err
	}
	get := func(name string) (*ast.FuncDecl, error) {
		fd := f.FuncDecl("RetentionHandler", name)
		if fd == nil {
			return nil, fmt.Errorf("method RetentionHandler.%s not found in internal/api/retention.go", name)
		}
		return fd, nil
	}
	del, err := get("deleteOldFiles")
	if err != nil {
		return err
	}
	// --- comparator: the single `if` whose condition mentions both maxTime and cutoffDate
	var conds []string
	ast.Inspect(del.Body, func(x ast.Node) bool {
		if is, ok := x.(*ast.IfStmt); ok {
			t := norm(f.Text(is.Cond))
			if strings.Contains(t, "maxTime") && strings.Contains(t, "cutoffDate") {
				conds = append(conds, t)
			}
		}
		return true
	})
	if len(conds) != 1 {
		return fmt.Errorf("deleteOldFiles: expected exactly one `if` comparing maxTime with cutoffDate, found %d %v", len(conds), conds)
	}
	var cmp string
	switch conds[0] {
	case "maxTime.Before(cutoffDate)", "cutoffDate.After(maxTime)":
		cmp = "before"
	case "!maxTime.After(cutoffDate)", "!cutoffDate.Before(maxTime)":
		cmp = "notAfter"
	default:
		return fmt.Errorf("deleteOldFiles: unrecognised eligibility condition %q (expected maxTime.Before(cutoffDate))", conds[0])
	}
	// --- prefixes
	mp, err := prefixAssign(f, del)
	if err != nil {
		return err
	}
	measSlash, ok := false, false
	switch strings.Join(mp, " ") {
	case `database "/" measurement "/"`:
		measSlash, ok = true, true
	case `database "/" measurement`:
		measSlash, ok = false, true
	}
	if !ok {
		return fmt.Errorf("deleteOldFiles: unrecognised listing prefix %v (expected database + \"/\" + measurement + \"/\")", mp)
	}
	gm, err := get("getMeasurementsToProcess")
	if err != nil {
		return err
	}
	dp, err := prefixAssign(f, gm)
	if err != nil {
		return err
	}
	dbSlash := false
	switch strings.Join(dp, " ") {
	case `policy.Database "/"`:
		dbSlash = true
	case `policy.Database`:
		dbSlash = false
	default:
		return fmt.Errorf("getMeasurementsToProcess: unrecognised listing prefix %v (expected policy.Database + \"/\")", dp)
	}
	gmBody := norm(f.Text(gm.Body))
	for _, want := range []string{`if policy.Measurement != nil && *policy.Measurement != "" {`, `return []string{*policy.Measurement}, nil`,
		`relPath := strings.TrimPrefix(f, prefix)`, `parts := strings.SplitN(relPath, "/", 2)`, `!strings.HasPrefix(parts[0], ".")`} {
		if !strings.Contains(gmBody, want) {
			return fmt.Errorf("getMeasurementsToProcess: `%s` not found", want)
		}
	}
	// --- per-file query
	q, err := get("getFileMaxTimeAndRowCount")
	if err != nil {
		return err
	}
	qb := norm(f.Text(q.Body))
	if !strings.Contains(qb, `"SELECT MAX(time) as max_time, COUNT(*) as cnt FROM read_parquet('%s')"`) {
		return fmt.Errorf("getFileMaxTimeAndRowCount: query `SELECT MAX(time) as max_time, COUNT(*) as cnt FROM read_parquet('%%s')` not found")
	}
	if !strings.Contains(qb, "Scan(&maxTime, &rowCount)") || !strings.Contains(qb, "return maxTime.UTC(), rowCount, nil") {
		return fmt.Errorf("getFileMaxTimeAndRowCount: scan/return shape changed")
	}
	// --- deleteOldFiles control shape
	db := norm(f.Text(del.Body))
	for _, want := range []string{
		`strings.HasSuffix(strings.ToLower(f), ".parquet")`,
		"maxTime, rowCount, err := h.getFileMaxTimeAndRowCount(ctx, fullPath)",
		"if !dryRun { eligiblePaths = append(eligiblePaths, relativePath) eligibleRows = append(eligibleRows, rowCount) } else { deletedRows += rowCount deletedFiles++ }",
		"if dryRun || len(eligiblePaths) == 0 { return deletedRows, deletedFiles, nil }",
		"h.storage.Delete(ctx, relativePath)",
		"deletedRows += subRows[j]",
	} {
		if !strings.Contains(db, want) {
			return fmt.Errorf("deleteOldFiles: `%s` not found", want)
		}
	}
	// --- cutoff in both execution paths
	const cut = "cutoffDate := time.Now().UTC().AddDate(0, 0, -(policy.RetentionDays + policy.BufferDays))"
	for _, fn := range []string{"ExecutePolicy", "handleExecute"} {
		fd, err := get(fn)
		if err != nil {
			return err
		}
		b := norm(f.Text(fd.Body))
		if !strings.Contains(b, cut) {
			return fmt.Errorf("%s: `%s` not found", fn, cut)
		}
		if !strings.Contains(b, "h.deleteOldFiles(") || !strings.Contains(b, "cutoffDate,") {
			return fmt.Errorf("%s: call deleteOldFiles(…, cutoffDate, …) not found", fn)
		}
	}
	ep, _ := get("ExecutePolicy")
	if !strings.Contains(norm(f.Text(ep.Body)), "policy.Database, measurement, cutoffDate, false,") {
		return fmt.Errorf("ExecutePolicy: deleteOldFiles is expected to be called with dryRun=false")
	}
	// which request field gates the deletion on the HTTP path: the dryRun argument of deleteOldFiles
	// and the confirmation gate.
	he, _ := get("handleExecute")
	heBody := norm(f.Text(he.Body))
	dryGate := ""
	ast.Inspect(he.Body, func(x ast.Node) bool {
		c, ok := x.(*ast.CallExpr)
		if !ok || fg.CalleeName(c) != "deleteOldFiles" || len(c.Args) != 6 {
			return true
		}
		switch a := norm(f.Text(c.Args[4])); {
		case a == "req.DryRun":
			dryGate = "reqDryRun"
		case a == "dryRun" && strings.Contains(heBody, "dryRun := !req.Confirm"):
			dryGate = "notConfirm"
		case a == "dryRun" && strings.Contains(heBody, "dryRun := req.DryRun"):
			dryGate = "reqDryRun"
		default:
			dryGate = "?" + a
		}
		return true
	})
	if dryGate == "" || strings.HasPrefix(dryGate, "?") {
		return fmt.Errorf("handleExecute: the dryRun argument of deleteOldFiles is %q, expected req.DryRun", strings.TrimPrefix(dryGate, "?"))
	}
	if dryGate == "reqDryRun" && !strings.Contains(heBody, "if !req.DryRun && !req.Confirm {") {
		return fmt.Errorf("handleExecute: confirmation gate `if !req.DryRun && !req.Confirm {` not found")
	}
	// --- policy validation in handleCreate
	hc, err := get("handleCreate")
	if err != nil {
		return err
	}
	hcb := norm(f.Text(hc.Body))
	for _, want := range []string{"if req.RetentionDays <= 0 {", "if req.RetentionDays <= req.BufferDays {"} {
		if !strings.Contains(hcb, want) {
			return fmt.Errorf("handleCreate: `%s` not found", want)
		}
	}

	// callees of a function body (selector or identifier names)
	callees := func(fd *ast.FuncDecl) map[string]bool {
		m := map[string]bool{}
		ast.Inspect(fd.Body, func(x ast.Node) bool {
			if c, ok := x.(*ast.CallExpr); ok {
				m[fg.CalleeName(c)] = true
			}
			return true
		})
		return m
	}
	extra := func(got map[string]bool, allowed ...string) []string {
		al := map[string]bool{}
		for _, a := range allowed {
			al[a] = true
		}
		var out []string
		for k := range got {
			if !al[k] {
				out = append(out, k)
			}
		}
		return out
	}
	// --- MAX(time) is computed by ONE aggregate over the whole file: getFileMaxTimeAndRowCount issues
	// exactly the scan query and nothing else can answer instead of it.
	qx := extra(callees(q), "DB", "ReplaceAll", "Sprintf", "QueryRowContext", "Scan", "UTC")
	wholeFile := len(qx) == 0 && strings.Count(qb, "QueryRowContext(") == 1 && strings.Count(qb, "return ") == 2
	// --- a run never consults earlier execution records: ExecutePolicy / handleExecute call only the
	// known helpers and never read policy.LastExecution*.
	execIndep := true
	execWhy := ""
	common := []string{"Now", "UTC", "AddDate", "Info", "Str", "Strs", "Time", "Bool", "Msg", "Err", "Error", "Int64", "Int", "Float64",
		"getPolicy", "getMeasurementsToProcess", "recordExecutionStart", "recordExecutionComplete", "deleteOldFiles", "Sprintf", "Errorf",
		"Since", "Milliseconds", "float64", "int64", "ClearHTTPCache", "freeOSMemoryThrottled", "Format", "Context"}
	for fn, more := range map[string][]string{
		"ExecutePolicy": {"CanUseRetentionScheduler"},
		"handleExecute": {"ParamsInt", "Status", "JSON", "BodyParser", "IsPrimaryWriter", "Role"},
	} {
		fd, _ := get(fn)
		if x := extra(callees(fd), append(common, more...)...); len(x) > 0 {
			execIndep, execWhy = false, fn+" calls "+strings.Join(x, ",")
		}
		if strings.Contains(f.Text(fd.Body), "LastExecution") || strings.Contains(f.Text(fd.Body), "retention_executions") {
			execIndep, execWhy = false, fn+" reads execution records"
		}
	}

	b := func(v bool) string {
		if v {
			return "true"
		}
		return "false"
	}
	w := &out.Lean
	fmt.Fprintf(w, "namespace Arc.Generated.C11\n")
	fmt.Fprintf(w, "/-- comparator applied to (MAX(time), cutoff): `before` = strictly older, `notAfter` = older or equal -/\n")
	fmt.Fprintf(w, "inductive TimeCmp | before | notAfter\nderiving DecidableEq, Repr\n")
	fmt.Fprintf(w, "/-- retention.go deleteOldFiles: `if %s {` -/\n", conds[0])
	fmt.Fprintf(w, "def comparator : TimeCmp := .%s\n", cmp)
	fmt.Fprintf(w, "/-- deleteOldFiles: `prefix := %s` -/\n", strings.Join(mp, " + "))
	fmt.Fprintf(w, "def measPrefixTrailingSlash : Bool := %s\n", b(measSlash))
	fmt.Fprintf(w, "/-- getMeasurementsToProcess: `prefix := %s` -/\n", strings.Join(dp, " + "))
	fmt.Fprintf(w, "def dbPrefixTrailingSlash : Bool := %s\n", b(dbSlash))
	fmt.Fprintf(w, "/-- which request field makes POST /:id/execute a dry run (dryRun argument of deleteOldFiles in handleExecute) -/\n")
	fmt.Fprintf(w, "inductive DryGate | reqDryRun | notConfirm\nderiving DecidableEq, Repr\n")
	fmt.Fprintf(w, "def dryGate : DryGate := .%s\n", dryGate)
	fmt.Fprintf(w, "/-- getFileMaxTimeAndRowCount: a single `SELECT MAX(time), COUNT(*) FROM read_parquet(file)` over the whole file, no other source%s -/\n", map[bool]string{true: "", false: " — VIOLATED: extra calls " + strings.Join(qx, ",")}[wholeFile])
	fmt.Fprintf(w, "def maxTimeScansWholeFile : Bool := %s\n", b(wholeFile))
	fmt.Fprintf(w, "/-- ExecutePolicy / handleExecute never consult earlier execution records%s -/\n", map[bool]string{true: "", false: " — VIOLATED: " + execWhy}[execIndep])
	fmt.Fprintf(w, "def runIgnoresExecutionRecords : Bool := %s\n", b(execIndep))
	fmt.Fprintf(w, "end Arc.Generated.C11\n")
	out.JSON["max_time_scans_whole_file"] = wholeFile
	out.JSON["run_ignores_execution_records"] = execIndep
	out.JSON["dry_gate"] = dryGate
	out.JSON["comparator"] = cmp
	out.JSON["condition"] = conds[0]
	out.JSON["meas_prefix"] = mp
	out.JSON["db_prefix"] = dp
	return nil
}
