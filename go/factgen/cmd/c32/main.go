package main

import (
	"fmt"
	"go/ast"
	"go/token"
	"sort"
	"strconv"
	"strings"
	"verif/factgen/fg"
)

// C32: the source facts the routing model rests on:
//  (1) extractMeasurements: the record types of its type switch, whether each is guarded by
//      `r.Measurement != ""`, and whether []interface{} is walked recursively;
//  (2) the order validate-db -> extract -> validate-names -> check -> write in writeMsgPack, and
//      validate-db -> check -> validate-names -> write in LineProtocolHandler.handleWrite;
//  (3) the buffer-key expressions of writeColumnarInternal / writeTypedColumnarRaw, splitBufferKey's
//      separator, generateStoragePath's format string;
//  (4) the routing keys filtered by coordinator.go:rowsToColumns and the measurement fallback chain of
//      buildReplicationIngestHandler, and the default database handed to ParseEnvelope there;
//  (5) importPreamble reports failures as `return "", "", c.Status(..).JSON(..)` (fiber's JSON returns
//      nil after writing the body) while its callers test `errResp != nil`;
//  (6) WAL emission: AppendRawWithMeta(database, …) for raw payloads, Append(rows) otherwise.
func main() { fg.Main("C32", c32) }

func bytesLit(s string) string {
	var p []string
	for _, b := range []byte(s) {
		p = append(p, strconv.Itoa(int(b)))
	}
	return "[" + strings.Join(p, ", ") + "]"
}

func strList(xs []string) string {
	var p []string
	for _, x := range xs {
		p = append(p, fg.LeanStr(x))
	}
	return "[" + strings.Join(p, ", ") + "]"
}

func bytesList(xs []string) string {
	var p []string
	for _, x := range xs {
		p = append(p, bytesLit(x))
	}
	return "[" + strings.Join(p, ", ") + "]"
}

func unq(l *ast.BasicLit) string {
	s, _ := strconv.Unquote(l.Value)
	return s
}

// callOrder: names (from `want`) of the calls in fd's body in source order, first occurrence each
func callOrder(fd *ast.FuncDecl, want map[string]bool) []string {
	type hit struct {
		pos  token.Pos
		name string
	}
	var hs []hit
	ast.Inspect(fd.Body, func(n ast.Node) bool {
		if c, ok := n.(*ast.CallExpr); ok {
			if nm := fg.CalleeName(c); want[nm] {
				hs = append(hs, hit{c.Pos(), nm})
			}
		}
		return true
	})
	sort.Slice(hs, func(i, j int) bool { return hs[i].pos < hs[j].pos })
	seen := map[string]bool{}
	var out []string
	for _, h := range hs {
		if !seen[h.name] {
			seen[h.name] = true
			out = append(out, h.name)
		}
	}
	return out
}

// cloneVisitor records every strings.Clone call together with the innermost enclosing if-condition
type cloneVisitor struct {
	f     *fg.File
	guard string
	fn    string
	out   *[][3]string
}

func (v cloneVisitor) Visit(n ast.Node) ast.Visitor {
	switch x := n.(type) {
	case *ast.IfStmt:
		if x.Init != nil {
			ast.Walk(v, x.Init)
		}
		ast.Walk(v, x.Cond)
		cond := strings.ReplaceAll(v.f.Text(x.Cond), " ", "")
		tv := v
		tv.guard = cond + ":then"
		ast.Walk(tv, x.Body)
		if x.Else != nil {
			ev := v
			ev.guard = cond + ":else"
			ast.Walk(ev, x.Else)
		}
		return nil
	case *ast.CallExpr:
		if se, ok := x.Fun.(*ast.SelectorExpr); ok && se.Sel.Name == "Clone" {
			if id, ok := se.X.(*ast.Ident); ok && id.Name == "strings" && len(x.Args) == 1 {
				*v.out = append(*v.out, [3]string{v.fn, strings.ReplaceAll(v.f.Text(x.Args[0]), " ", ""), v.guard})
			}
		}
	}
	return v
}

func c32(repo string, out *fg.Out) error {
	apiFiles, err := fg.ParseDir(repo, "internal/api")
	if err != nil {
		return err
	}
	ing, err := fg.ParseDir(repo, "internal/ingest")
	if err != nil {
		return err
	}
	cl, err := fg.ParseDir(repo, "internal/cluster")
	if err != nil {
		return err
	}

	// ---- (1) extractMeasurements
	f, fd := fg.FindFunc(apiFiles, "MsgPackHandler", "extractMeasurements")
	if fd == nil {
		return fmt.Errorf("MsgPackHandler.extractMeasurements not found")
	}
	type xc struct {
		Type    string `json:"type"`
		Guarded bool   `json:"guarded_nonempty"`
	}
	var cases []xc
	recurses := false
	nswitch := 0
	ast.Inspect(fd.Body, func(n ast.Node) bool {
		ts, ok := n.(*ast.TypeSwitchStmt)
		if !ok {
			return true
		}
		nswitch++
		for _, st := range ts.Body.List {
			cc := st.(*ast.CaseClause)
			for _, te := range cc.List {
				tn := f.Text(te)
				if tn == "[]interface{}" {
					// body must range over r and call extract(item)
					if len(fg.CallsNamed(cc, "extract")) > 0 {
						recurses = true
					}
					continue
				}
				guarded := false
				if len(cc.Body) == 1 {
					if is, ok := cc.Body[0].(*ast.IfStmt); ok {
						if strings.ReplaceAll(f.Text(is.Cond), " ", "") == `r.Measurement!=""` {
							guarded = true
						}
					}
				}
				cases = append(cases, xc{tn, guarded})
			}
		}
		return false
	})
	if nswitch != 1 || len(cases) == 0 {
		return fmt.Errorf("extractMeasurements: expected exactly one type switch with record cases (found %d switches, %d cases)", nswitch, len(cases))
	}
	sort.Slice(cases, func(i, j int) bool { return cases[i].Type < cases[j].Type })

	// ---- (2) call order in the two generic handlers
	_, wm := fg.FindFunc(apiFiles, "MsgPackHandler", "writeMsgPack")
	_, hw := fg.FindFunc(apiFiles, "LineProtocolHandler", "handleWrite")
	if wm == nil || hw == nil {
		return fmt.Errorf("writeMsgPack / handleWrite not found")
	}
	mpOrder := callOrder(wm, map[string]bool{"Decode": true, "isValidDatabaseName": true, "extractMeasurements": true, "isValidMeasurementName": true, "checkWritePermissions": true, "Write": true})
	lpOrder := callOrder(hw, map[string]bool{"isValidDatabaseName": true, "ParseBatchWithPrecision": true, "checkWritePermissions": true, "isValidMeasurementName": true, "WriteColumnarRecord": true})
	if len(mpOrder) != 6 || len(lpOrder) != 5 {
		return fmt.Errorf("handler call order: expected all of decode/validate/extract/check/write (got %v and %v)", mpOrder, lpOrder)
	}

	// ---- (3) buffer key, split separator, storage path format
	var keyExprs []string
	for _, fn := range []string{"writeColumnarInternal", "writeTypedColumnarRaw"} {
		af, afd := fg.FindFunc(ing, "ArrowBuffer", fn)
		if afd == nil {
			return fmt.Errorf("ArrowBuffer.%s not found", fn)
		}
		found := ""
		ast.Inspect(afd.Body, func(n ast.Node) bool {
			as, ok := n.(*ast.AssignStmt)
			if ok && len(as.Lhs) == 1 && len(as.Rhs) == 1 {
				if id, ok := as.Lhs[0].(*ast.Ident); ok && id.Name == "bufferKey" && found == "" {
					found = strings.ReplaceAll(af.Text(as.Rhs[0]), " ", "")
				}
			}
			return true
		})
		if found == "" {
			return fmt.Errorf("%s: no `bufferKey := …` assignment", fn)
		}
		keyExprs = append(keyExprs, found)
	}
	sf, sfd := fg.FindFunc(ing, "", "splitBufferKey")
	if sfd == nil {
		return fmt.Errorf("splitBufferKey not found")
	}
	sep := ""
	ast.Inspect(sfd.Body, func(n ast.Node) bool {
		if be, ok := n.(*ast.BinaryExpr); ok && be.Op == token.EQL {
			if bl, ok := be.Y.(*ast.BasicLit); ok && bl.Kind == token.CHAR {
				sep = strings.Trim(bl.Value, "'")
			}
		}
		return true
	})
	_ = sf
	if sep == "" {
		return fmt.Errorf("splitBufferKey: separator comparison not found")
	}
	_, gfd := fg.FindFunc(ing, "ArrowBuffer", "generateStoragePath")
	if gfd == nil {
		return fmt.Errorf("generateStoragePath not found")
	}
	pathFmt := ""
	for _, c := range fg.CallsNamed(gfd.Body, "Sprintf") {
		if len(c.Args) > 0 {
			if bl, ok := c.Args[0].(*ast.BasicLit); ok {
				pathFmt = unq(bl)
			}
		}
	}
	if pathFmt == "" {
		return fmt.Errorf("generateStoragePath: no fmt.Sprintf format literal")
	}

	// ---- (4) replication apply: filtered routing keys, fallback chain, default database
	cf, rfd := fg.FindFunc(cl, "", "rowsToColumns")
	if rfd == nil {
		return fmt.Errorf("rowsToColumns not found")
	}
	var rkeys []string
	ast.Inspect(rfd.Body, func(n ast.Node) bool {
		if be, ok := n.(*ast.BinaryExpr); ok && be.Op == token.EQL {
			if id, ok := be.X.(*ast.Ident); ok && id.Name == "k" {
				if bl, ok := be.Y.(*ast.BasicLit); ok && bl.Kind == token.STRING {
					rkeys = append(rkeys, unq(bl))
				}
			}
		}
		return true
	})
	_ = cf
	if len(rkeys) == 0 {
		return fmt.Errorf("rowsToColumns: no `k == \"…\"` comparisons")
	}
	_, bfd := fg.FindFunc(cl, "Coordinator", "buildReplicationIngestHandler")
	if bfd == nil {
		return fmt.Errorf("buildReplicationIngestHandler not found")
	}
	var chain []string
	envDefault := ""
	usesRowDatabase := false
	ast.Inspect(bfd.Body, func(n ast.Node) bool {
		switch x := n.(type) {
		case *ast.IndexExpr:
			if id, ok := x.X.(*ast.Ident); ok && id.Name == "r" {
				if bl, ok := x.Index.(*ast.BasicLit); ok && bl.Kind == token.STRING {
					k := unq(bl)
					if k == "_database" || k == "database" {
						usesRowDatabase = true
					} else {
						chain = append(chain, k)
					}
				}
			}
		case *ast.CallExpr:
			if fg.CalleeName(x) == "ParseEnvelope" && len(x.Args) == 2 {
				if bl, ok := x.Args[1].(*ast.BasicLit); ok {
					envDefault = unq(bl)
				}
			}
		}
		return true
	})
	if len(chain) == 0 || envDefault == "" {
		return fmt.Errorf("buildReplicationIngestHandler: measurement fallback chain / ParseEnvelope default not found")
	}

	// ---- (5) importPreamble error convention: every failure return is `preambleReject(c, …)`, preambleReject
	// ends in `return errImportPreambleResponded` (non-nil), and both callers leave on `errResp != nil`
	pf, pfd := fg.FindFunc(apiFiles, "ImportHandler", "importPreamble")
	if pfd == nil {
		return fmt.Errorf("importPreamble not found")
	}
	nerr, nreject, njson := 0, 0, 0
	ast.Inspect(pfd.Body, func(n ast.Node) bool {
		rs, ok := n.(*ast.ReturnStmt)
		if !ok || len(rs.Results) != 3 {
			return true
		}
		if id, ok := rs.Results[2].(*ast.Ident); ok && id.Name == "nil" {
			return true
		}
		nerr++
		if c, ok := rs.Results[2].(*ast.CallExpr); ok {
			switch fg.CalleeName(c) {
			case "preambleReject":
				nreject++
			case "JSON":
				njson++
			}
		}
		return true
	})
	_ = pf
	rejectNonNil := false
	if _, rfd2 := fg.FindFunc(apiFiles, "", "preambleReject"); rfd2 != nil && len(rfd2.Body.List) > 0 {
		if rs, ok := rfd2.Body.List[len(rfd2.Body.List)-1].(*ast.ReturnStmt); ok && len(rs.Results) == 1 {
			if id, ok := rs.Results[0].(*ast.Ident); ok && id.Name == "errImportPreambleResponded" {
				rejectNonNil = true
			}
		}
	}
	callersTestNil := 0
	for _, hn := range []string{"handleCSVImport", "handleParquetImport"} {
		hf, hfd := fg.FindFunc(apiFiles, "ImportHandler", hn)
		if hfd == nil {
			return fmt.Errorf("%s not found", hn)
		}
		ast.Inspect(hfd.Body, func(n ast.Node) bool {
			if is, ok := n.(*ast.IfStmt); ok && strings.ReplaceAll(hf.Text(is.Cond), " ", "") == "errResp!=nil" {
				// every path through the if-body must return
				if len(is.Body.List) > 0 {
					if _, ok := is.Body.List[len(is.Body.List)-1].(*ast.ReturnStmt); ok {
						callersTestNil++
					}
				}
			}
			return true
		})
	}
	if nerr == 0 {
		return fmt.Errorf("importPreamble: no failure returns found")
	}
	swallow := njson > 0
	stops := nreject == nerr && rejectNonNil && callersTestNil == 2

	// ---- (5b) WAL row records: the routing entries are assigned AFTER the loop that copies the columns
	routingLast := true
	for _, fn := range [][2]string{{"ArrowBuffer", "columnarToWALRecords"}, {"", "typedBatchToWALRecords"}} {
		_, wfd2 := fg.FindFunc(ing, fn[0], fn[1])
		if wfd2 == nil {
			return fmt.Errorf("%s not found", fn[1])
		}
		var copyEnd token.Pos
		assigns := map[string]token.Pos{}
		ast.Inspect(wfd2.Body, func(n ast.Node) bool {
			switch x := n.(type) {
			case *ast.RangeStmt:
				// the inner loop ranging over the columns (record.Columns / batch.Data)
				if se, ok := x.X.(*ast.SelectorExpr); ok && (se.Sel.Name == "Columns" || se.Sel.Name == "Data") {
					if _, isAssignToRow := x.Key.(*ast.Ident); isAssignToRow && x.Value != nil && x.End() > copyEnd {
						inner := false
						ast.Inspect(x.Body, func(m ast.Node) bool {
							if as, ok := m.(*ast.AssignStmt); ok && len(as.Lhs) == 1 {
								if ix, ok := as.Lhs[0].(*ast.IndexExpr); ok {
									if id, ok := ix.X.(*ast.Ident); ok && id.Name == "row" {
										inner = true
									}
								}
							}
							return true
						})
						if inner {
							copyEnd = x.End()
						}
					}
				}
			case *ast.AssignStmt:
				if len(x.Lhs) == 1 {
					if ix, ok := x.Lhs[0].(*ast.IndexExpr); ok {
						if id, ok := ix.X.(*ast.Ident); ok && id.Name == "row" {
							if bl, ok := ix.Index.(*ast.BasicLit); ok && bl.Kind == token.STRING {
								assigns[unq(bl)] = x.Pos()
							}
						}
					}
				}
			}
			return true
		})
		if copyEnd == 0 {
			return fmt.Errorf("%s: column copy loop not found", fn[1])
		}
		for _, k := range []string{"_database", "_measurement"} {
			if p, ok := assigns[k]; !ok || p < copyEnd {
				routingLast = false
			}
		}
	}

	// ---- (6) WAL emission in writeColumnarInternal
	wf, wfd := fg.FindFunc(ing, "ArrowBuffer", "writeColumnarInternal")
	rawEnveloped := len(fg.CallsNamed(wfd.Body, "AppendRawWithMeta")) == 1
	rowsPlain := len(fg.CallsNamed(wfd.Body, "Append")) == 1 && len(fg.CallsNamed(wfd.Body, "columnarToWALRecords")) == 1
	_ = wf
	if !rawEnveloped || !rowsPlain {
		return fmt.Errorf("writeColumnarInternal: expected one AppendRawWithMeta (raw payload) and one Append(columnarToWALRecords(..)) call")
	}

	// ---- (7) request-derived strings retained past the handler: every strings.Clone and its guard
	var clones [][3]string
	for _, hn := range [][2]string{{"LineProtocolHandler", "handleWrite"}, {"MsgPackHandler", "writeMsgPack"}, {"TLEHandler", "handleWrite"},
		{"ImportHandler", "handleLineProtocolImport"}, {"ImportHandler", "handleTLEImport"}, {"ImportHandler", "importPreamble"}} {
		cf2, cfd := fg.FindFunc(apiFiles, hn[0], hn[1])
		if cfd == nil {
			return fmt.Errorf("%s.%s not found", hn[0], hn[1])
		}
		before := len(clones)
		ast.Walk(cloneVisitor{f: cf2, fn: hn[0] + "." + hn[1], out: &clones}, cfd.Body)
		if len(clones) == before {
			return fmt.Errorf("%s.%s: no strings.Clone of the request-derived database name", hn[0], hn[1])
		}
	}
	out.JSON["clone_sites"] = clones

	out.JSON["extract_cases"] = cases
	out.JSON["extract_recurses"] = recurses
	out.JSON["msgpack_order"] = mpOrder
	out.JSON["lp_order"] = lpOrder
	out.JSON["buffer_key_exprs"] = keyExprs
	out.JSON["split_separator"] = sep
	out.JSON["storage_path_format"] = pathFmt
	out.JSON["routing_keys"] = rkeys
	out.JSON["measurement_fallback"] = chain
	out.JSON["envelope_default_db"] = envDefault
	out.JSON["replication_uses_row_database"] = usesRowDatabase
	out.JSON["import_preamble_swallows_errors"] = swallow
	out.JSON["import_preamble_failures_stop"] = stops
	out.JSON["wal_routing_keys_last"] = routingLast

	L := &out.Lean
	fmt.Fprintln(L, "namespace Arc.Generated.C32")
	fmt.Fprintln(L, "/-- record types of api.MsgPackHandler.extractMeasurements' type switch, and whether the case is guarded by `r.Measurement != \"\"` -/")
	var cs []string
	for _, c := range cases {
		cs = append(cs, fmt.Sprintf("(%s, %v)", fg.LeanStr(c.Type), c.Guarded))
	}
	fmt.Fprintf(L, "def extractCases : List (String × Bool) := [%s]\n", strings.Join(cs, ", "))
	fmt.Fprintf(L, "def extractRecursesIntoLists : Bool := %v\n", recurses)
	fmt.Fprintf(L, "/-- first occurrences, in source order, inside writeMsgPack -/\ndef msgpackOrder : List String := %s\n", strList(mpOrder))
	fmt.Fprintf(L, "/-- first occurrences, in source order, inside LineProtocolHandler.handleWrite -/\ndef lpOrder : List String := %s\n", strList(lpOrder))
	fmt.Fprintf(L, "def bufferKeyExprs : List String := %s\n", strList(keyExprs))
	fmt.Fprintf(L, "def splitSeparator : List UInt8 := %s\n", bytesLit(sep))
	fmt.Fprintf(L, "def storagePathFormat : String := %s\n", fg.LeanStr(pathFmt))
	fmt.Fprintf(L, "/-- keys dropped by coordinator.go:rowsToColumns (as bytes) -/\ndef routingKeys : List (List UInt8) := %s\n", bytesList(rkeys))
	fmt.Fprintf(L, "/-- r[\"…\"] lookups of buildReplicationIngestHandler, in source order (as bytes) -/\ndef measurementFallback : List (List UInt8) := %s\n", bytesList(chain))
	fmt.Fprintf(L, "def envelopeDefaultDB : List UInt8 := %s\n", bytesLit(envDefault))
	fmt.Fprintf(L, "/-- the replicated-row path reads r[\"_database\"] / r[\"database\"] -/\ndef replicationUsesRowDatabase : Bool := %v\n", usesRowDatabase)
	fmt.Fprintf(L, "/-- some failure return of importPreamble is a bare `c.Status(..).JSON(..)` (nil after a successful write) -/\ndef importPreambleSwallowsErrors : Bool := %v\n", swallow)
	fmt.Fprintf(L, "/-- every failure return of importPreamble is preambleReject(..), which returns the non-nil sentinel, and both callers return on `errResp != nil` -/\ndef importPreambleFailuresStop : Bool := %v\n", stops)
	fmt.Fprintf(L, "/-- columnarToWALRecords / typedBatchToWALRecords assign row[\"_database\"], row[\"_measurement\"] after copying the columns -/\ndef walRoutingKeysLast : Bool := %v\n", routingLast)
	var cl2 []string
	for _, c := range clones {
		cl2 = append(cl2, fmt.Sprintf("(%s, %s, %s)", fg.LeanStr(c[0]), fg.LeanStr(c[1]), fg.LeanStr(c[2])))
	}
	fmt.Fprintf(L, "/-- (handler, argument, innermost enclosing if-condition:branch or \"\") of every strings.Clone in the write handlers -/\ndef cloneSites : List (String × String × String) := [\n  %s\n]\n", strings.Join(cl2, ",\n  "))
	fmt.Fprintln(L, "end Arc.Generated.C32")
	return nil
}
