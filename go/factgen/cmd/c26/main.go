package main

import (
	"fmt"
	"go/ast"
	"strings"
	"verif/factgen/fg"
)

// C26: every NewNonceCache(ttl) construction paired with the tolerance of the validators that
// feed it, plus the two security constants.
func main() { fg.Main("C26", c26) }

func c26(repo string, out *fg.Out) error {
	secFiles, err := fg.ParseDir(repo, "internal/cluster/security")
	if err != nil {
		return err
	}
	sec := fg.NewConstEnv(secFiles)
	tolExpr, ok := sec.Exprs["HMACTimestampTolerance"]
	if !ok {
		return fmt.Errorf("const HMACTimestampTolerance not found in internal/cluster/security")
	}
	tol, err := sec.EvalInt(tolExpr)
	if err != nil {
		return fmt.Errorf("HMACTimestampTolerance: %v", err)
	}
	evExpr, ok := sec.Exprs["nonceCacheEvictInterval"]
	if !ok {
		return fmt.Errorf("const nonceCacheEvictInterval not found")
	}
	evict, err := sec.EvalInt(evExpr)
	if err != nil {
		return err
	}

	type site struct {
		Name  string `json:"name"`
		TolNs int64  `json:"tol_ns"`
		TtlNs int64  `json:"ttl_ns"`
	}
	var sites []site

	envFor := func(files []*fg.File) *fg.ConstEnv {
		e := fg.NewConstEnv(files)
		e.Pkgs["security"] = sec
		return e
	}
	// tolerances passed to Validate*HMAC* calls in a file set (last argument)
	validatorTols := func(files []*fg.File, env *fg.ConstEnv, skip func(string) bool) (map[string]int64, error) {
		res := map[string]int64{}
		for _, f := range files {
			var ferr error
			ast.Inspect(f.AST, func(n ast.Node) bool {
				c, ok := n.(*ast.CallExpr)
				if !ok {
					return true
				}
				nm := fg.CalleeName(c)
				if !strings.HasPrefix(nm, "Validate") || !strings.Contains(nm, "HMAC") || len(c.Args) == 0 {
					return true
				}
				if skip != nil && skip(nm) {
					return true
				}
				v, err := env.EvalInt(c.Args[len(c.Args)-1])
				if err != nil {
					// a non-constant tolerance (e.g. a handler field) is resolved by the caller
					res[nm+"@"+f.Path] = -1
					return true
				}
				res[nm+"@"+f.Path] = v
				return true
			})
			if ferr != nil {
				return nil, ferr
			}
		}
		return res, nil
	}

	// --- coordinator cache: coordinator.go `c.nonceCache = security.NewNonceCache(X)`
	clFiles, err := fg.ParseDir(repo, "internal/cluster")
	if err != nil {
		return err
	}
	clEnv := envFor(clFiles)
	var coordTTL int64 = -1
	for _, f := range clFiles {
		ast.Inspect(f.AST, func(n ast.Node) bool {
			as, ok := n.(*ast.AssignStmt)
			if !ok || len(as.Lhs) != 1 || len(as.Rhs) != 1 {
				return true
			}
			sel, ok := as.Lhs[0].(*ast.SelectorExpr)
			if !ok || sel.Sel.Name != "nonceCache" {
				return true
			}
			c, ok := as.Rhs[0].(*ast.CallExpr)
			if !ok || fg.CalleeName(c) != "NewNonceCache" || len(c.Args) != 1 {
				return true
			}
			if v, err := clEnv.EvalInt(c.Args[0]); err == nil {
				coordTTL = v
			}
			return true
		})
	}
	if coordTTL < 0 {
		return fmt.Errorf("`<x>.nonceCache = security.NewNonceCache(<const>)` not found in internal/cluster")
	}
	// validators guarded by Track(...) in the cluster package: the replicate-sync handshake and
	// forward-apply. (Other Validate*HMAC calls there — join/heartbeat/leave/fetch — are not
	// nonce-tracked and not in the property's list; they are recorded but not paired.)
	tols, err := validatorTols(clFiles, clEnv, nil)
	if err != nil {
		return err
	}
	paired := 0
	for k, v := range tols {
		if strings.HasPrefix(k, "ValidateReplicateSyncHMAC@") || strings.HasPrefix(k, "ValidateForwardHMAC@") {
			if v < 0 {
				return fmt.Errorf("non-constant tolerance at %s", k)
			}
			sites = append(sites, site{"coordinator:" + k, v, coordTTL})
			paired++
		}
	}
	if paired < 2 {
		return fmt.Errorf("expected ValidateReplicateSyncHMAC and ValidateForwardHMAC calls in internal/cluster, found %d", paired)
	}

	// --- main.go: edge-sync `Replay: security.NewNonceCache(X)` and the cache-invalidate handler
	mainFiles, err := fg.ParseDir(repo, "cmd/arc")
	if err != nil {
		return err
	}
	mainEnv := envFor(mainFiles)
	var edgeTTL, ciTTL, ciTol int64 = -1, -1, -1
	for _, f := range mainFiles {
		ast.Inspect(f.AST, func(n ast.Node) bool {
			switch x := n.(type) {
			case *ast.KeyValueExpr:
				if id, ok := x.Key.(*ast.Ident); ok && id.Name == "Replay" {
					if c, ok := x.Value.(*ast.CallExpr); ok && fg.CalleeName(c) == "NewNonceCache" && len(c.Args) == 1 {
						if v, err := mainEnv.EvalInt(c.Args[0]); err == nil {
							edgeTTL = v
						}
					}
				}
			case *ast.CallExpr:
				if fg.CalleeName(x) == "NewCacheInvalidateHandler" && len(x.Args) >= 5 {
					if c, ok := x.Args[3].(*ast.CallExpr); ok && fg.CalleeName(c) == "NewNonceCache" && len(c.Args) == 1 {
						if v, err := mainEnv.EvalInt(c.Args[0]); err == nil {
							ciTTL = v
						}
					}
					if v, err := mainEnv.EvalInt(x.Args[4]); err == nil {
						ciTol = v
					}
				}
			}
			return true
		})
	}
	if edgeTTL < 0 {
		return fmt.Errorf("`Replay: security.NewNonceCache(<const>)` not found in cmd/arc")
	}
	if ciTTL < 0 || ciTol < 0 {
		return fmt.Errorf("`api.NewCacheInvalidateHandler(_,_,_, security.NewNonceCache(<const>), <const>, …)` not found in cmd/arc")
	}
	sites = append(sites, site{"cache-invalidate:main.go", ciTol, ciTTL})

	apiFiles, err := fg.ParseDir(repo, "internal/api")
	if err != nil {
		return err
	}
	apiEnv := envFor(apiFiles)
	atols, err := validatorTols(apiFiles, apiEnv, nil)
	if err != nil {
		return err
	}
	paired = 0
	for k, v := range atols {
		if strings.HasPrefix(k, "ValidateSync") && strings.Contains(k, "WithReplay@") {
			if v < 0 {
				return fmt.Errorf("non-constant tolerance at %s", k)
			}
			sites = append(sites, site{"edgesync:" + k, v, edgeTTL})
			paired++
		}
	}
	if paired < 2 {
		return fmt.Errorf("expected ValidateSyncFileHMACWithReplay and ValidateSyncReconcileHMACWithReplay calls in internal/api, found %d", paired)
	}
	// the cache-invalidate handler must pass its configured tolerance field on to the validator
	found := false
	for k, v := range atols {
		if strings.HasPrefix(k, "ValidateCacheInvalidateHMAC@") {
			found = true
			_ = v // non-constant (handler field) expected
		}
	}
	if !found {
		return fmt.Errorf("ValidateCacheInvalidateHMAC call not found in internal/api")
	}

	// deterministic order
	for i := 0; i < len(sites); i++ {
		for j := i + 1; j < len(sites); j++ {
			if sites[j].Name < sites[i].Name {
				sites[i], sites[j] = sites[j], sites[i]
			}
		}
	}

	w := &out.Lean
	fmt.Fprintf(w, "namespace Arc.Generated.C26\n")
	fmt.Fprintf(w, "def hmacToleranceNs : Int := %s\n", fg.LeanInt(tol))
	fmt.Fprintf(w, "def evictIntervalNs : Int := %s\n", fg.LeanInt(evict))
	fmt.Fprintf(w, "/-- (site, toleranceNs used by the validators feeding this cache, ttlNs passed to NewNonceCache) -/\n")
	fmt.Fprintf(w, "def sites : List (String × Int × Int) := [\n")
	for i, s := range sites {
		sep := ","
		if i == len(sites)-1 {
			sep = ""
		}
		fmt.Fprintf(w, "  (%s, %s, %s)%s\n", fg.LeanStr(s.Name), fg.LeanInt(s.TolNs), fg.LeanInt(s.TtlNs), sep)
	}
	fmt.Fprintf(w, "]\nend Arc.Generated.C26\n")
	out.JSON["hmac_tolerance_ns"] = tol
	out.JSON["evict_interval_ns"] = evict
	out.JSON["sites"] = sites
	return nil
}
