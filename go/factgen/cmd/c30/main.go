package main

// C30 fact extractor. Regenerates, from the CURRENT sources:
//   - the NodeRole constants and the capability table of NodeRole.GetCapabilities (role.go),
//   - the health / writer-state constants and the registry predicates that choose forward targets
//     (node.go, registry.go),
//   - the forwarded-by marker, the header strip lists and the inline filter of BuildHTTPRequest,
//     and the decision skeleton of decideForward (internal/api/routing.go),
//   - the headers doForward sets on the outbound request and the local-capability guards of
//     RouteWrite / RouteQuery / CanRouteLocally (router.go),
//   - the (decision helper, route call) pairing and the "no fall-through" shape of every handler
//     that forwards (msgpack.go, lineprotocol.go, tle.go, query.go).
// Every expected shape that is missing is a SHAPE-MISMATCH (exit 2).

import (
	"fmt"
	"go/ast"
	"go/token"
	"net/textproto"
	"sort"
	"strconv"
	"strings"
	"unicode"

	"verif/factgen/fg"
)

func main() { fg.Main("C30", c30) }

func unq(e ast.Expr) (string, bool) {
	bl, ok := e.(*ast.BasicLit)
	if !ok || bl.Kind != token.STRING {
		return "", false
	}
	s, err := strconv.Unquote(bl.Value)
	return s, err == nil
}

// typed string constants of a given named type in a file set: name -> value
func typedStringConsts(files []*fg.File, typ string) (names []string, vals map[string]string) {
	vals = map[string]string{}
	for _, f := range files {
		for _, d := range f.AST.Decls {
			gd, ok := d.(*ast.GenDecl)
			if !ok || gd.Tok != token.CONST {
				continue
			}
			for _, s := range gd.Specs {
				vs := s.(*ast.ValueSpec)
				id, ok := vs.Type.(*ast.Ident)
				if !ok || id.Name != typ {
					continue
				}
				for i, n := range vs.Names {
					if i < len(vs.Values) {
						if v, ok := unq(vs.Values[i]); ok {
							names = append(names, n.Name)
							vals[n.Name] = v
						}
					}
				}
			}
		}
	}
	return
}

func lowerFirst(s string) string {
	if s == "" {
		return s
	}
	r := []rune(s)
	r[0] = unicode.ToLower(r[0])
	return string(r)
}

// http.CanonicalHeaderKey without importing net/http (stdlib net/textproto is enough)
func textprotoCanon(k string) string { return textproto.CanonicalMIMEHeaderKey(k) }

func recvOf(fd *ast.FuncDecl) string {
	if fd.Recv == nil || len(fd.Recv.List) == 0 {
		return ""
	}
	t := fd.Recv.List[0].Type
	if st, ok := t.(*ast.StarExpr); ok {
		t = st.X
	}
	if id, ok := t.(*ast.Ident); ok {
		return id.Name
	}
	return ""
}

func norm(s string) string { return strings.Join(strings.Fields(s), " ") }

// map[string]bool composite literal assigned to a package-level var: keys with value true
func boolMapKeys(files []*fg.File, name string) ([]string, error) {
	for _, f := range files {
		for _, d := range f.AST.Decls {
			gd, ok := d.(*ast.GenDecl)
			if !ok || gd.Tok != token.VAR {
				continue
			}
			for _, s := range gd.Specs {
				vs := s.(*ast.ValueSpec)
				for i, n := range vs.Names {
					if n.Name != name || i >= len(vs.Values) {
						continue
					}
					cl, ok := vs.Values[i].(*ast.CompositeLit)
					if !ok {
						return nil, fmt.Errorf("%s is not a composite literal", name)
					}
					var keys []string
					for _, e := range cl.Elts {
						kv, ok := e.(*ast.KeyValueExpr)
						if !ok {
							return nil, fmt.Errorf("%s: non key/value element", name)
						}
						k, ok := unq(kv.Key)
						if !ok {
							return nil, fmt.Errorf("%s: non-literal key %s", name, f.Text(kv.Key))
						}
						v, ok := kv.Value.(*ast.Ident)
						if !ok || (v.Name != "true" && v.Name != "false") {
							return nil, fmt.Errorf("%s[%q]: non-literal bool", name, k)
						}
						if v.Name == "true" {
							keys = append(keys, k)
						}
					}
					sort.Strings(keys)
					return keys, nil
				}
			}
		}
	}
	return nil, fmt.Errorf("var %s not found", name)
}

func c30(repo string, out *fg.Out) error {
	cl, err := fg.ParseDir(repo, "internal/cluster")
	if err != nil {
		return err
	}
	api, err := fg.ParseDir(repo, "internal/api")
	if err != nil {
		return err
	}

	// ---------------------------------------------------------------- roles + capability table
	roleNames, roleVals := typedStringConsts(cl, "NodeRole")
	if len(roleNames) == 0 {
		return fmt.Errorf("no NodeRole constants found in internal/cluster")
	}
	ctor := map[string]string{} // const name -> Lean constructor
	for _, n := range roleNames {
		if !strings.HasPrefix(n, "Role") || len(n) == 4 {
			return fmt.Errorf("NodeRole constant %s does not follow the Role<Name> convention", n)
		}
		c := lowerFirst(strings.TrimPrefix(n, "Role"))
		if c == "other" || c == "all" {
			return fmt.Errorf("NodeRole constant %s collides with a reserved generated name", n)
		}
		ctor[n] = c
	}
	// capability struct fields
	var capFields []string
	for _, f := range cl {
		for _, d := range f.AST.Decls {
			gd, ok := d.(*ast.GenDecl)
			if !ok || gd.Tok != token.TYPE {
				continue
			}
			for _, s := range gd.Specs {
				ts := s.(*ast.TypeSpec)
				if ts.Name.Name != "RoleCapabilities" {
					continue
				}
				st, ok := ts.Type.(*ast.StructType)
				if !ok {
					return fmt.Errorf("RoleCapabilities is not a struct")
				}
				for _, fl := range st.Fields.List {
					id, ok := fl.Type.(*ast.Ident)
					if !ok || id.Name != "bool" {
						return fmt.Errorf("RoleCapabilities has a non-bool field")
					}
					for _, n := range fl.Names {
						capFields = append(capFields, n.Name)
					}
				}
			}
		}
	}
	has := func(xs []string, x string) bool {
		for _, y := range xs {
			if y == x {
				return true
			}
		}
		return false
	}
	if !has(capFields, "CanIngest") || !has(capFields, "CanQuery") {
		return fmt.Errorf("RoleCapabilities lacks CanIngest/CanQuery (fields: %v)", capFields)
	}
	gf, gc := fg.FindFunc(cl, "NodeRole", "GetCapabilities")
	if gc == nil {
		return fmt.Errorf("func (NodeRole) GetCapabilities not found")
	}
	if len(gc.Body.List) != 1 {
		return fmt.Errorf("GetCapabilities: expected a single switch statement, found %d statements", len(gc.Body.List))
	}
	sw, ok := gc.Body.List[0].(*ast.SwitchStmt)
	if !ok || sw.Init != nil {
		return fmt.Errorf("GetCapabilities: body is not a plain switch")
	}
	recvName := gc.Recv.List[0].Names[0].Name
	if tag, ok := sw.Tag.(*ast.Ident); !ok || tag.Name != recvName {
		return fmt.Errorf("GetCapabilities: switch tag is not the receiver")
	}
	parseCaps := func(stmts []ast.Stmt) (map[string]bool, error) {
		if len(stmts) != 1 {
			return nil, fmt.Errorf("case body is not a single return")
		}
		rs, ok := stmts[0].(*ast.ReturnStmt)
		if !ok || len(rs.Results) != 1 {
			return nil, fmt.Errorf("case body is not `return RoleCapabilities{…}`")
		}
		lit, ok := rs.Results[0].(*ast.CompositeLit)
		if !ok {
			return nil, fmt.Errorf("return value is not a composite literal")
		}
		if id, ok := lit.Type.(*ast.Ident); !ok || id.Name != "RoleCapabilities" {
			return nil, fmt.Errorf("return value is not RoleCapabilities{…}")
		}
		m := map[string]bool{}
		for _, e := range lit.Elts {
			kv, ok := e.(*ast.KeyValueExpr)
			if !ok {
				return nil, fmt.Errorf("positional RoleCapabilities literal")
			}
			k, ok := kv.Key.(*ast.Ident)
			if !ok || !has(capFields, k.Name) {
				return nil, fmt.Errorf("unknown field in RoleCapabilities literal")
			}
			v, ok := kv.Value.(*ast.Ident)
			if !ok || (v.Name != "true" && v.Name != "false") {
				return nil, fmt.Errorf("field %s: non-literal bool %s", k.Name, gf.Text(kv.Value))
			}
			m[k.Name] = v.Name == "true"
		}
		return m, nil
	}
	table := map[string]map[string]bool{} // const name -> caps
	var deflt map[string]bool
	for _, s := range sw.Body.List {
		cc := s.(*ast.CaseClause)
		caps, err := parseCaps(cc.Body)
		if err != nil {
			return fmt.Errorf("GetCapabilities line %d: %v", gf.Line(cc), err)
		}
		if cc.List == nil {
			deflt = caps
			continue
		}
		for _, e := range cc.List {
			id, ok := e.(*ast.Ident)
			if !ok || ctor[id.Name] == "" {
				return fmt.Errorf("GetCapabilities line %d: case label %s is not a NodeRole constant", gf.Line(cc), gf.Text(e))
			}
			if _, dup := table[id.Name]; dup {
				return fmt.Errorf("GetCapabilities: duplicate case %s", id.Name)
			}
			table[id.Name] = caps
		}
	}
	if deflt == nil {
		deflt = map[string]bool{} // Go: falls off the switch … but then the function would not compile
		return fmt.Errorf("GetCapabilities: no default branch")
	}

	// ---------------------------------------------------------------- node state constants / predicates
	_, stateVals := typedStringConsts(cl, "NodeState")
	_, wsVals := typedStringConsts(cl, "WriterState")
	healthy, ok := stateVals["StateHealthy"]
	if !ok {
		return fmt.Errorf("const StateHealthy not found")
	}
	primary, ok := wsVals["WriterStatePrimary"]
	if !ok {
		return fmt.Errorf("const WriterStatePrimary not found")
	}
	var stateList []string
	for _, v := range stateVals {
		stateList = append(stateList, v)
	}
	sort.Strings(stateList)
	var wsList []string
	for _, v := range wsVals {
		wsList = append(wsList, v)
	}
	sort.Strings(wsList)
	retExpr := func(files []*fg.File, recv, name string) (string, *fg.File, *ast.FuncDecl, error) {
		f, fd := fg.FindFunc(files, recv, name)
		if fd == nil {
			return "", nil, nil, fmt.Errorf("func (%s) %s not found", recv, name)
		}
		var last *ast.ReturnStmt
		for _, s := range fd.Body.List {
			if r, ok := s.(*ast.ReturnStmt); ok {
				last = r
			}
		}
		if last == nil || len(last.Results) != 1 {
			return "", f, fd, fmt.Errorf("%s.%s: no single-value top-level return", recv, name)
		}
		return norm(f.Text(last.Results[0])), f, fd, nil
	}
	if e, _, _, err := retExpr(cl, "Node", "IsHealthy"); err != nil {
		return err
	} else if e != "n.State == StateHealthy" {
		return fmt.Errorf("Node.IsHealthy returns %q, expected `n.State == StateHealthy`", e)
	}
	// registry predicates: `return r.filterNodes(func(n *Node) bool { return n.Role == RoleX && n.IsHealthy() })`
	filterRole := func(name string) (string, error) {
		f, fd := fg.FindFunc(cl, "Registry", name)
		if fd == nil {
			return "", fmt.Errorf("func (Registry) %s not found", name)
		}
		var pred string
		ast.Inspect(fd, func(n ast.Node) bool {
			if fl, ok := n.(*ast.FuncLit); ok && len(fl.Body.List) == 1 {
				if r, ok := fl.Body.List[0].(*ast.ReturnStmt); ok && len(r.Results) == 1 {
					pred = norm(f.Text(r.Results[0]))
				}
			}
			return true
		})
		for cn := range ctor {
			if pred == "n.Role == "+cn+" && n.IsHealthy()" {
				return cn, nil
			}
		}
		return "", fmt.Errorf("Registry.%s predicate is %q, expected `n.Role == Role<X> && n.IsHealthy()`", name, pred)
	}
	writersRole, err := filterRole("GetWriters")
	if err != nil {
		return err
	}
	readersRole, err := filterRole("GetReaders")
	if err != nil {
		return err
	}
	// GetPrimaryWriter: for … { if node.Role == RoleX && node.WriterSt == WriterStatePrimary && node.IsHealthy() { return node.Clone() } } return nil
	primaryRole := ""
	{
		f, fd := fg.FindFunc(cl, "Registry", "GetPrimaryWriter")
		if fd == nil {
			return fmt.Errorf("func (Registry) GetPrimaryWriter not found")
		}
		nIf := 0
		ast.Inspect(fd, func(n ast.Node) bool {
			if is, ok := n.(*ast.IfStmt); ok {
				nIf++
				c := norm(f.Text(is.Cond))
				for cn := range ctor {
					if c == "node.Role == "+cn+" && node.WriterSt == WriterStatePrimary && node.IsHealthy()" {
						primaryRole = cn
					}
				}
			}
			return true
		})
		if nIf != 1 || primaryRole == "" {
			return fmt.Errorf("Registry.GetPrimaryWriter: expected exactly one `if node.Role == Role<X> && node.WriterSt == WriterStatePrimary && node.IsHealthy()`")
		}
	}

	// ---------------------------------------------------------------- routing.go
	apiEnv := fg.NewConstEnv(api)
	fwdBy, ok := unq(apiEnv.Exprs["ForwardedByHeader"])
	if !ok {
		return fmt.Errorf("const ForwardedByHeader (string literal) not found in internal/api")
	}
	hop, err := boolMapKeys(api, "hopByHopHeaders")
	if err != nil {
		return err
	}
	cfh, err := boolMapKeys(api, "clientForwardingHeaders")
	if err != nil {
		return err
	}
	for _, k := range append(append([]string{fwdBy}, hop...), cfh...) {
		if textprotoCanon(k) != k {
			return fmt.Errorf("header key %q in routing.go is not in http.CanonicalHeaderKey form (the lookup after canonicalisation can never match it)", k)
		}
	}
	for _, nm := range []string{"isHopByHop", "isClientForwardingHeader"} {
		e, _, fd, err := retExpr(api, "", nm)
		if err != nil {
			return err
		}
		arg := fd.Type.Params.List[0].Names[0].Name
		want := map[string]string{"isHopByHop": "hopByHopHeaders[" + arg + "]", "isClientForwardingHeader": "clientForwardingHeaders[" + arg + "]"}[nm]
		if e != want {
			return fmt.Errorf("%s returns %q, expected %q", nm, e, want)
		}
	}
	// BuildHTTPRequest: the VisitAll callback
	var inlineFiltered []string
	{
		f, fd := fg.FindFunc(api, "", "BuildHTTPRequest")
		if fd == nil {
			return fmt.Errorf("func BuildHTTPRequest not found")
		}
		var cb *ast.FuncLit
		for _, c := range fg.CallsNamed(fd, "VisitAll") {
			if len(c.Args) == 1 {
				if fl, ok := c.Args[0].(*ast.FuncLit); ok {
					cb = fl
				}
			}
		}
		if cb == nil {
			return fmt.Errorf("BuildHTTPRequest: Header.VisitAll(func…) not found")
		}
		var got []string
		for _, s := range cb.Body.List {
			got = append(got, norm(f.Text(s)))
		}
		want := []string{
			"k := http.CanonicalHeaderKey(string(key))",
			"", // first filter: parsed below
			"if isClientForwardingHeader(k) { return }",
			"req.Header[k] = append(req.Header[k], string(value))",
		}
		if len(got) != len(want) {
			return fmt.Errorf("BuildHTTPRequest VisitAll callback has %d statements, expected %d: %v", len(got), len(want), got)
		}
		for i := range want {
			if want[i] != "" && got[i] != want[i] {
				return fmt.Errorf("BuildHTTPRequest VisitAll callback statement %d is %q, expected %q", i, got[i], want[i])
			}
		}
		is, ok := cb.Body.List[1].(*ast.IfStmt)
		if !ok || norm(f.Text(is.Body)) != "{ return }" || is.Else != nil {
			return fmt.Errorf("BuildHTTPRequest: first filter is not `if … { return }`")
		}
		// cond: isHopByHop(k) || k == "A" || k == "B" …
		var terms []ast.Expr
		var flat func(e ast.Expr)
		flat = func(e ast.Expr) {
			if be, ok := e.(*ast.BinaryExpr); ok && be.Op == token.LOR {
				flat(be.X)
				flat(be.Y)
				return
			}
			terms = append(terms, e)
		}
		flat(is.Cond)
		sawHop := false
		for _, t := range terms {
			if norm(f.Text(t)) == "isHopByHop(k)" {
				sawHop = true
				continue
			}
			be, ok := t.(*ast.BinaryExpr)
			if !ok || be.Op != token.EQL || norm(f.Text(be.X)) != "k" {
				return fmt.Errorf("BuildHTTPRequest: unexpected filter term %q", f.Text(t))
			}
			v, ok := unq(be.Y)
			if !ok {
				return fmt.Errorf("BuildHTTPRequest: non-literal filter term %q", f.Text(t))
			}
			inlineFiltered = append(inlineFiltered, v)
		}
		if !sawHop {
			return fmt.Errorf("BuildHTTPRequest: isHopByHop(k) missing from the first filter")
		}
		sort.Strings(inlineFiltered)
	}
	// decideForward skeleton
	var skeleton [][2]string
	{
		f, fd := fg.FindFunc(api, "", "decideForward")
		if fd == nil {
			return fmt.Errorf("func decideForward not found")
		}
		for _, s := range fd.Body.List {
			switch x := s.(type) {
			case *ast.IfStmt:
				if x.Init != nil || x.Else != nil || len(x.Body.List) != 1 {
					return fmt.Errorf("decideForward line %d: unexpected if shape", f.Line(x))
				}
				r, ok := x.Body.List[0].(*ast.ReturnStmt)
				if !ok || len(r.Results) != 1 {
					return fmt.Errorf("decideForward line %d: if body is not a return", f.Line(x))
				}
				skeleton = append(skeleton, [2]string{norm(f.Text(x.Cond)), norm(f.Text(r.Results[0]))})
			case *ast.ReturnStmt:
				skeleton = append(skeleton, [2]string{"true", norm(f.Text(x.Results[0]))})
			default:
				return fmt.Errorf("decideForward line %d: unexpected statement %q", f.Line(s), norm(f.Text(s)))
			}
		}
		want := [][2]string{
			{"router == nil", "ForwardLocal"},
			{"router.CanRouteLocally(isWrite)", "ForwardLocal"},
			{`c.Get(ForwardedByHeader) != ""`, "ForwardAlreadyForwarded"},
			{"true", "ForwardToPeer"},
		}
		if fmt.Sprint(skeleton) != fmt.Sprint(want) {
			return fmt.Errorf("decideForward decision skeleton changed: got %v, expected %v", skeleton, want)
		}
		for _, p := range [][3]string{{"WriteForwardDecision", "decideForward(router, c, true)"}, {"QueryForwardDecision", "decideForward(router, c, false)"}} {
			e, _, _, err := retExpr(api, "", p[0])
			if err != nil {
				return err
			}
			if e != p[1] {
				return fmt.Errorf("%s returns %q, expected %q", p[0], e, p[1])
			}
		}
	}

	// ---------------------------------------------------------------- router.go
	// CanRouteLocally
	{
		f, fd := fg.FindFunc(cl, "Router", "CanRouteLocally")
		if fd == nil {
			return fmt.Errorf("func (Router) CanRouteLocally not found")
		}
		got := norm(f.Text(fd.Body))
		want := "{ if r.cfg.LocalNode == nil { return false } caps := r.cfg.LocalNode.Role.GetCapabilities() if isWrite { return caps.CanIngest } return caps.CanQuery }"
		if got != want {
			return fmt.Errorf("Router.CanRouteLocally body changed: %q", got)
		}
	}
	routeGuard := func(name, capField string) error {
		f, fd := fg.FindFunc(cl, "Router", name)
		if fd == nil {
			return fmt.Errorf("func (Router) %s not found", name)
		}
		is, ok := fd.Body.List[0].(*ast.IfStmt)
		want := "r.cfg.LocalNode != nil && r.cfg.LocalNode.Role.GetCapabilities()." + capField
		if !ok || norm(f.Text(is.Cond)) != want || norm(f.Text(is.Body)) != "{ return nil, ErrLocalNodeCanHandle }" {
			return fmt.Errorf("Router.%s: first statement is not `if %s { return nil, ErrLocalNodeCanHandle }`", name, want)
		}
		return nil
	}
	if err := routeGuard("RouteWrite", "CanIngest"); err != nil {
		return err
	}
	if err := routeGuard("RouteQuery", "CanQuery"); err != nil {
		return err
	}
	// target sources used by RouteWrite / RouteQuery (registry getters called, in source order)
	getters := func(name string) []string {
		_, fd := fg.FindFunc(cl, "Router", name)
		var g []string
		ast.Inspect(fd, func(n ast.Node) bool {
			if c, ok := n.(*ast.CallExpr); ok {
				nm := fg.CalleeName(c)
				if strings.HasPrefix(nm, "Get") && nm != "GetCapabilities" {
					g = append(g, nm)
				}
			}
			return true
		})
		return g
	}
	routeWriteGetters, routeQueryGetters := getters("RouteWrite"), getters("RouteQuery")
	if len(routeWriteGetters) == 0 || len(routeQueryGetters) == 0 {
		return fmt.Errorf("Router.RouteWrite / RouteQuery call no registry getter at all: %v / %v", routeWriteGetters, routeQueryGetters)
	}
	// "Route* reads the registry on every call": the Router's fields (any place a resolved target could be
	// memoised) and the receiver methods / fields RouteWrite and RouteQuery touch. Pinned by a Lean `decide`.
	var routerFields [][2]string
	for _, f := range cl {
		for _, d := range f.AST.Decls {
			gd, ok := d.(*ast.GenDecl)
			if !ok || gd.Tok != token.TYPE {
				continue
			}
			for _, sp := range gd.Specs {
				ts := sp.(*ast.TypeSpec)
				st, ok := ts.Type.(*ast.StructType)
				if !ok || ts.Name.Name != "Router" {
					continue
				}
				for _, fl := range st.Fields.List {
					for _, n := range fl.Names {
						routerFields = append(routerFields, [2]string{n.Name, norm(f.Text(fl.Type))})
					}
					if len(fl.Names) == 0 {
						routerFields = append(routerFields, [2]string{"(embedded)", norm(f.Text(fl.Type))})
					}
				}
			}
		}
	}
	if len(routerFields) == 0 {
		return fmt.Errorf("type Router struct not found in internal/cluster")
	}
	// every `r.<x>` selector (field read/write or method call) in the body, deduplicated, in source order
	recvUses := func(name string) []string {
		f, fd := fg.FindFunc(cl, "Router", name)
		rn := fd.Recv.List[0].Names[0].Name
		var out []string
		seen := map[string]bool{}
		ast.Inspect(fd.Body, func(n ast.Node) bool {
			sel, ok := n.(*ast.SelectorExpr)
			if !ok {
				return true
			}
			if id, ok := sel.X.(*ast.Ident); ok && id.Name == rn {
				t := norm(f.Text(sel))
				if !seen[t] {
					seen[t] = true
					out = append(out, sel.Sel.Name)
				}
			}
			return true
		})
		return out
	}
	routeWriteUses, routeQueryUses := recvUses("RouteWrite"), recvUses("RouteQuery")
	// doForward: forwardReq.Header.Set(K, V) in order; header copy loop uses Add on originalReq.Header
	type setH struct {
		Key string `json:"key"`
		Src string `json:"src"`
	}
	var sets []setH
	{
		f, fd := fg.FindFunc(cl, "Router", "doForward")
		if fd == nil {
			return fmt.Errorf("func (Router) doForward not found")
		}
		srcOf := map[string]string{"originalReq.RemoteAddr": "remoteAddr", "r.cfg.LocalNode.ID": "localID", "originalReq.Host": "host"}
		for _, c := range fg.CallsNamed(fd, "Set") {
			if norm(f.Text(c.Fun)) != "forwardReq.Header.Set" || len(c.Args) != 2 {
				continue
			}
			k, ok := unq(c.Args[0])
			if !ok {
				return fmt.Errorf("doForward: non-literal header key in %q", f.Text(c))
			}
			src, ok := srcOf[norm(f.Text(c.Args[1]))]
			if !ok {
				return fmt.Errorf("doForward: unexpected value expression in %q", f.Text(c))
			}
			if textprotoCanon(k) != k {
				return fmt.Errorf("doForward: header key %q is not in canonical form", k)
			}
			sets = append(sets, setH{k, src})
		}
		if len(sets) == 0 {
			return fmt.Errorf("doForward: no forwardReq.Header.Set calls found")
		}
		adds := 0
		for _, c := range fg.CallsNamed(fd, "Add") {
			if norm(f.Text(c.Fun)) == "forwardReq.Header.Add" {
				adds++
			}
		}
		dels := len(fg.CallsNamed(fd, "Del"))
		if adds != 1 || dels != 0 {
			return fmt.Errorf("doForward: expected exactly one forwardReq.Header.Add (copy loop) and no Del, found %d/%d", adds, dels)
		}
	}

	// ---------------------------------------------------------------- handler sites
	type hsite struct {
		Recv     string `json:"recv"`
		File     string `json:"file"`
		Func     string `json:"func"`
		Decision string `json:"decision"`
		Route    string `json:"route"`
	}
	var sites []hsite
	for _, f := range api {
		if f.Path == "internal/api/routing.go" {
			continue
		}
		for _, d := range f.AST.Decls {
			fd, ok := d.(*ast.FuncDecl)
			if !ok || fd.Body == nil {
				continue
			}
			for i, s := range fd.Body.List {
				ss, ok := s.(*ast.SwitchStmt)
				if !ok {
					continue
				}
				tc, ok := ss.Tag.(*ast.CallExpr)
				if !ok {
					continue
				}
				dn := fg.CalleeName(tc)
				if dn != "WriteForwardDecision" && dn != "QueryForwardDecision" {
					continue
				}
				where := fmt.Sprintf("%s:%s", f.Path, fd.Name.Name)
				if norm(f.Text(tc)) != dn+"(h.router, c)" {
					return fmt.Errorf("%s: decision call is %q", where, f.Text(tc))
				}
				// the statement right after the switch must be the localProcessing label
				if i+1 >= len(fd.Body.List) {
					return fmt.Errorf("%s: nothing after the routing switch", where)
				}
				if ls, ok := fd.Body.List[i+1].(*ast.LabeledStmt); !ok || ls.Label.Name != "localProcessing" {
					return fmt.Errorf("%s: routing switch is not followed by the localProcessing label", where)
				}
				seen := map[string]bool{}
				route := ""
				for _, cs := range ss.Body.List {
					cc := cs.(*ast.CaseClause)
					if len(cc.List) != 1 {
						return fmt.Errorf("%s: routing switch has a default/multi-label case", where)
					}
					lbl := norm(f.Text(cc.List[0]))
					seen[lbl] = true
					if len(cc.Body) == 0 {
						return fmt.Errorf("%s: empty case %s falls to local processing", where, lbl)
					}
					if _, ok := cc.Body[len(cc.Body)-1].(*ast.ReturnStmt); !ok {
						return fmt.Errorf("%s: case %s does not end in return (would fall to local processing)", where, lbl)
					}
					switch lbl {
					case "ForwardAlreadyForwarded":
						last := cc.Body[len(cc.Body)-1].(*ast.ReturnStmt)
						if len(last.Results) != 1 || norm(f.Text(last.Results[0])) != "RespondAlreadyForwarded(c)" {
							return fmt.Errorf("%s: ForwardAlreadyForwarded does not return RespondAlreadyForwarded(c)", where)
						}
						nGoto := 0
						ast.Inspect(cc, func(n ast.Node) bool {
							if b, ok := n.(*ast.BranchStmt); ok && b.Tok == token.GOTO {
								nGoto++
							}
							return true
						})
						if nGoto != 0 {
							return fmt.Errorf("%s: goto inside ForwardAlreadyForwarded", where)
						}
					case "ForwardToPeer":
						if len(fg.CallsNamed(cc, "BuildHTTPRequest")) != 1 {
							return fmt.Errorf("%s: ForwardToPeer does not call BuildHTTPRequest exactly once", where)
						}
						for _, rn := range []string{"RouteWrite", "RouteQuery"} {
							for _, c := range fg.CallsNamed(cc, rn) {
								if norm(f.Text(c.Fun)) == "h.router."+rn {
									if route != "" {
										return fmt.Errorf("%s: more than one route call", where)
									}
									route = rn
								}
							}
						}
						// every goto must be guarded by `err == cluster.ErrLocalNodeCanHandle`
						var bad error
						ast.Inspect(cc, func(n ast.Node) bool {
							is, ok := n.(*ast.IfStmt)
							if !ok {
								return true
							}
							hasGoto := false
							for _, b := range is.Body.List {
								if br, ok := b.(*ast.BranchStmt); ok && br.Tok == token.GOTO {
									hasGoto = true
								}
							}
							if hasGoto && norm(f.Text(is.Cond)) != "err == cluster.ErrLocalNodeCanHandle" {
								bad = fmt.Errorf("%s: goto localProcessing guarded by %q", where, norm(f.Text(is.Cond)))
							}
							return true
						})
						if bad != nil {
							return bad
						}
						nGoto, nGuarded := 0, 0
						ast.Inspect(cc, func(n ast.Node) bool {
							if b, ok := n.(*ast.BranchStmt); ok && b.Tok == token.GOTO {
								nGoto++
							}
							if is, ok := n.(*ast.IfStmt); ok && norm(f.Text(is.Cond)) == "err == cluster.ErrLocalNodeCanHandle" {
								nGuarded++
							}
							return true
						})
						if nGoto != 1 || nGuarded != 1 {
							return fmt.Errorf("%s: expected exactly one guarded goto localProcessing, found %d/%d", where, nGoto, nGuarded)
						}
					default:
						return fmt.Errorf("%s: unexpected routing case %s", where, lbl)
					}
				}
				if !seen["ForwardAlreadyForwarded"] || !seen["ForwardToPeer"] || route == "" {
					return fmt.Errorf("%s: routing switch lacks a case or a route call (cases %v, route %q)", where, seen, route)
				}
				sites = append(sites, hsite{recvOf(fd), f.Path, fd.Name.Name, dn, route})
			}
		}
	}
	sort.Slice(sites, func(i, j int) bool { return sites[i].File+sites[i].Func < sites[j].File+sites[j].Func })
	for _, need := range []string{"internal/api/msgpack.go", "internal/api/lineprotocol.go", "internal/api/query.go"} {
		found := false
		for _, s := range sites {
			if s.File == need {
				found = true
			}
		}
		if !found {
			return fmt.Errorf("no routing switch found in %s", need)
		}
	}
	// every use of the decision helpers outside routing.go must be one of the sites above
	nUses := 0
	for _, f := range api {
		if f.Path == "internal/api/routing.go" {
			continue
		}
		for _, nm := range []string{"WriteForwardDecision", "QueryForwardDecision", "ShouldForwardWrite", "ShouldForwardQuery", "decideForward"} {
			nUses += len(fg.CallsNamed(f.AST, nm))
		}
	}
	if nUses != len(sites) {
		return fmt.Errorf("%d uses of the forward-decision helpers in internal/api but %d recognised handler sites", nUses, len(sites))
	}

	// ---------------------------------------------------------------- routes of the five data handlers
	// Every `app.<Verb>("path", …, h.X)` in a method of these receivers; `routed` = X is one of the handler
	// sites above or calls (directly, same receiver, depth <= 3) a method that is.
	type routeT struct {
		Recv   string `json:"recv"`
		Route  string `json:"route"` // "METHOD path"
		Func   string `json:"func"`
		Routed bool   `json:"routed"`
	}
	dataRecvs := []string{"MsgPackHandler", "LineProtocolHandler", "TLEHandler", "QueryHandler", "ImportHandler"}
	siteSet := map[string]bool{}
	for _, s := range sites {
		siteSet[s.Recv+"."+s.Func] = true
	}
	methods := map[string]*ast.FuncDecl{}
	for _, f := range api {
		for _, d := range f.AST.Decls {
			if fd, ok := d.(*ast.FuncDecl); ok && fd.Body != nil && recvOf(fd) != "" {
				methods[recvOf(fd)+"."+fd.Name.Name] = fd
			}
		}
	}
	var reaches func(recv, fn string, depth int) bool
	reaches = func(recv, fn string, depth int) bool {
		if siteSet[recv+"."+fn] {
			return true
		}
		fd := methods[recv+"."+fn]
		if fd == nil || depth == 0 {
			return false
		}
		rn := fd.Recv.List[0].Names[0].Name
		found := false
		ast.Inspect(fd.Body, func(n ast.Node) bool {
			c, ok := n.(*ast.CallExpr)
			if !ok {
				return true
			}
			if sel, ok := c.Fun.(*ast.SelectorExpr); ok {
				if id, ok := sel.X.(*ast.Ident); ok && id.Name == rn && sel.Sel.Name != fn {
					if reaches(recv, sel.Sel.Name, depth-1) {
						found = true
					}
				}
			}
			return true
		})
		return found
	}
	verbs := map[string]string{"Get": "GET", "Post": "POST", "Put": "PUT", "Delete": "DELETE", "Patch": "PATCH", "Head": "HEAD", "All": "ALL"}
	var routes []routeT
	for _, f := range api {
		for _, d := range f.AST.Decls {
			fd, ok := d.(*ast.FuncDecl)
			if !ok || fd.Body == nil || !has(dataRecvs, recvOf(fd)) {
				continue
			}
			recv := recvOf(fd)
			var rerr error
			ast.Inspect(fd.Body, func(n ast.Node) bool {
				c, ok := n.(*ast.CallExpr)
				if !ok {
					return true
				}
				sel, ok := c.Fun.(*ast.SelectorExpr)
				if !ok || verbs[sel.Sel.Name] == "" || len(c.Args) < 2 {
					return true
				}
				if id, ok := sel.X.(*ast.Ident); !ok || id.Name != "app" {
					return true
				}
				path, ok := unq(c.Args[0])
				if !ok {
					rerr = fmt.Errorf("%s.%s: route with a non-literal path: %s", recv, fd.Name.Name, f.Text(c))
					return true
				}
				hsel, ok := c.Args[len(c.Args)-1].(*ast.SelectorExpr)
				if !ok {
					rerr = fmt.Errorf("%s.%s: route %q whose final handler is not a method value: %s", recv, fd.Name.Name, path, f.Text(c))
					return true
				}
				routes = append(routes, routeT{recv, verbs[sel.Sel.Name] + " " + path, hsel.Sel.Name, reaches(recv, hsel.Sel.Name, 3)})
				return true
			})
			if rerr != nil {
				return rerr
			}
		}
	}
	sort.Slice(routes, func(i, j int) bool { return routes[i].Recv+" "+routes[i].Route < routes[j].Recv+" "+routes[j].Route })
	nRouted := 0
	for _, r := range routes {
		if r.Routed {
			nRouted++
		}
	}
	if nRouted < len(sites) {
		return fmt.Errorf("only %d routes reach the %d handler sites that carry the routing prologue", nRouted, len(sites))
	}

	// ---------------------------------------------------------------- emit
	w := &out.Lean
	b := func(v bool) string {
		if v {
			return "true"
		}
		return "false"
	}
	fmt.Fprintf(w, "namespace Arc.Generated.C30\n")
	fmt.Fprintf(w, "/-- NodeRole constants of internal/cluster/role.go; `other` = any string not declared there. -/\ninductive Role where\n")
	for _, n := range roleNames {
		fmt.Fprintf(w, "  | %s\n", ctor[n])
	}
	fmt.Fprintf(w, "  | other\nderiving DecidableEq, Repr\n")
	fmt.Fprintf(w, "def Role.all : List Role := [")
	for _, n := range roleNames {
		fmt.Fprintf(w, ".%s, ", ctor[n])
	}
	fmt.Fprintf(w, ".other]\n")
	fmt.Fprintf(w, "def roleOfString (s : String) : Role :=\n")
	for _, n := range roleNames {
		fmt.Fprintf(w, "  if s == %s then .%s else\n", fg.LeanStr(roleVals[n]), ctor[n])
	}
	fmt.Fprintf(w, "  .other\n")
	fmt.Fprintf(w, "/-- RoleCapabilities -/\nstructure Caps where\n")
	for _, f := range capFields {
		fmt.Fprintf(w, "  %s : Bool\n", lowerFirst(f))
	}
	fmt.Fprintf(w, "deriving DecidableEq, Repr\n")
	capLit := func(m map[string]bool) string {
		var parts []string
		for _, f := range capFields {
			parts = append(parts, fmt.Sprintf("%s := %s", lowerFirst(f), b(m[f])))
		}
		return "{ " + strings.Join(parts, ", ") + " }"
	}
	fmt.Fprintf(w, "/-- NodeRole.GetCapabilities (switch in role.go; roles without a case take the default branch) -/\ndef caps : Role → Caps\n")
	jsTable := map[string]map[string]bool{}
	for _, n := range roleNames {
		m, ok := table[n]
		if !ok {
			m = deflt
		}
		fmt.Fprintf(w, "  | .%s => %s\n", ctor[n], capLit(m))
		jsTable[roleVals[n]] = m
	}
	fmt.Fprintf(w, "  | .other => %s\n", capLit(deflt))
	jsTable["*"] = deflt
	fmt.Fprintf(w, "/-- role compared by Registry.GetWriters / GetReaders / GetPrimaryWriter -/\n")
	fmt.Fprintf(w, "def writersRole : Role := .%s\n", ctor[writersRole])
	fmt.Fprintf(w, "def readersRole : Role := .%s\n", ctor[readersRole])
	fmt.Fprintf(w, "def primaryRole : Role := .%s\n", ctor[primaryRole])
	fmt.Fprintf(w, "def stateHealthy : String := %s\n", fg.LeanStr(healthy))
	fmt.Fprintf(w, "def writerStatePrimary : String := %s\n", fg.LeanStr(primary))
	strList := func(xs []string) string {
		var p []string
		for _, x := range xs {
			p = append(p, fg.LeanStr(x))
		}
		return "[" + strings.Join(p, ", ") + "]"
	}
	fmt.Fprintf(w, "def forwardedByHeader : String := %s\n", fg.LeanStr(fwdBy))
	fmt.Fprintf(w, "def hopByHop : List String := %s\n", strList(hop))
	fmt.Fprintf(w, "def clientForwarding : List String := %s\n", strList(cfh))
	fmt.Fprintf(w, "/-- literals compared inline in the first filter of BuildHTTPRequest -/\ndef inlineFiltered : List String := %s\n", strList(inlineFiltered))
	fmt.Fprintf(w, "/-- forwardReq.Header.Set(key, value) calls of doForward, in source order; value source ∈ remoteAddr | localID | host -/\n")
	fmt.Fprintf(w, "def forwardSets : List (String × String) := [")
	for i, s := range sets {
		if i > 0 {
			fmt.Fprintf(w, ", ")
		}
		fmt.Fprintf(w, "(%s, %s)", fg.LeanStr(s.Key), fg.LeanStr(s.Src))
	}
	fmt.Fprintf(w, "]\n")
	fmt.Fprintf(w, "/-- fields of `type Router struct` (name, type): every place a resolved target could be remembered -/\n")
	fmt.Fprintf(w, "def routerFields : List (String × String) := [")
	for i, rf := range routerFields {
		if i > 0 {
			fmt.Fprintf(w, ", ")
		}
		fmt.Fprintf(w, "(%s, %s)", fg.LeanStr(rf[0]), fg.LeanStr(rf[1]))
	}
	fmt.Fprintf(w, "]\n")
	fmt.Fprintf(w, "/-- registry getters called by RouteWrite / RouteQuery (source order) and the receiver members they touch -/\n")
	fmt.Fprintf(w, "def routeWriteGetters : List String := %s\n", strList(routeWriteGetters))
	fmt.Fprintf(w, "def routeQueryGetters : List String := %s\n", strList(routeQueryGetters))
	fmt.Fprintf(w, "def routeWriteUses : List String := %s\n", strList(routeWriteUses))
	fmt.Fprintf(w, "def routeQueryUses : List String := %s\n", strList(routeQueryUses))
	fmt.Fprintf(w, "/-- (file:func, decision helper, route method) of every handler that forwards -/\n")
	fmt.Fprintf(w, "def handlerSites : List (String × String × String) := [\n")
	for i, s := range sites {
		sep := ","
		if i == len(sites)-1 {
			sep = ""
		}
		fmt.Fprintf(w, "  (%s, %s, %s)%s\n", fg.LeanStr(s.File+":"+s.Func), fg.LeanStr(s.Decision), fg.LeanStr(s.Route), sep)
	}
	fmt.Fprintf(w, "]\n")
	fmt.Fprintf(w, "/-- (receiver, \"METHOD path\", handler method, handler reaches the routing prologue) for every route registered by the msgpack / line-protocol / TLE / query / import handlers -/\n")
	fmt.Fprintf(w, "def routes : List (String × String × String × Bool) := [\n")
	for i, r := range routes {
		sep := ","
		if i == len(routes)-1 {
			sep = ""
		}
		fmt.Fprintf(w, "  (%s, %s, %s, %s)%s\n", fg.LeanStr(r.Recv), fg.LeanStr(r.Route), fg.LeanStr(r.Func), b(r.Routed), sep)
	}
	fmt.Fprintf(w, "]\nend Arc.Generated.C30\n")

	var roles []map[string]string
	for _, n := range roleNames {
		roles = append(roles, map[string]string{"const": n, "value": roleVals[n], "ctor": ctor[n]})
	}
	out.JSON["roles"] = roles
	out.JSON["caps"] = jsTable
	out.JSON["cap_fields"] = capFields
	out.JSON["states"] = stateList
	out.JSON["state_healthy"] = healthy
	out.JSON["writer_states"] = wsList
	out.JSON["writer_state_primary"] = primary
	out.JSON["writers_role"] = roleVals[writersRole]
	out.JSON["readers_role"] = roleVals[readersRole]
	out.JSON["primary_role"] = roleVals[primaryRole]
	out.JSON["forwarded_by_header"] = fwdBy
	out.JSON["hop_by_hop"] = hop
	out.JSON["client_forwarding"] = cfh
	out.JSON["inline_filtered"] = inlineFiltered
	out.JSON["forward_sets"] = sets
	out.JSON["handler_sites"] = sites
	out.JSON["routes"] = routes
	out.JSON["router_fields"] = routerFields
	out.JSON["route_write_getters"] = routeWriteGetters
	out.JSON["route_query_getters"] = routeQueryGetters
	return nil
}
