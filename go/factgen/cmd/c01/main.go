package main

import (
	"fmt"
	"go/ast"
	"go/token"
	"strconv"
	"strings"
	"verif/factgen/fg"
)

// C01: the literal tables of the line-protocol parser that the Lean model hard-codes —
// unescape's escape set, the quote/escape/delimiter bytes of splitOnDelimiter, the '=' cut, the
// boolean spellings, the i/u suffixes, the precision switch (labels, factors, guards, default
// division) and the "_value"/"time" column names. Every fact has a shape expectation.
func main() { fg.Main("C01", c01) }

func charVal(e ast.Expr) (int, bool) {
	bl, ok := e.(*ast.BasicLit)
	if !ok || bl.Kind != token.CHAR {
		return 0, false
	}
	s, err := strconv.Unquote(bl.Value)
	if err != nil || len(s) != 1 {
		return 0, false
	}
	return int(s[0]), true
}

func strVal(e ast.Expr) (string, bool) {
	bl, ok := e.(*ast.BasicLit)
	if !ok || bl.Kind != token.STRING {
		return "", false
	}
	s, err := strconv.Unquote(bl.Value)
	return s, err == nil
}

func isIdent(e ast.Expr, name string) bool {
	id, ok := e.(*ast.Ident)
	return ok && id.Name == name
}

// chars compared with `==` against an expression accepted by `lhs`
func eqChars(f *fg.File, n ast.Node, lhs func(string) bool) []int {
	var out []int
	ast.Inspect(n, func(m ast.Node) bool {
		b, ok := m.(*ast.BinaryExpr)
		if !ok || b.Op != token.EQL {
			return true
		}
		if c, ok := charVal(b.Y); ok && lhs(f.Text(b.X)) {
			out = append(out, c)
		}
		return true
	})
	return out
}

func retBool(body []ast.Stmt) (bool, bool) {
	if len(body) != 1 {
		return false, false
	}
	r, ok := body[0].(*ast.ReturnStmt)
	if !ok || len(r.Results) != 1 {
		return false, false
	}
	if isIdent(r.Results[0], "true") {
		return true, true
	}
	if isIdent(r.Results[0], "false") {
		return false, true
	}
	return false, false
}

func c01(repo string, out *fg.Out) error {
	lp, err := fg.ParseFile(repo, "internal/ingest/lineprotocol.go")
	if err != nil {
		return err
	}
	fn := func(recv, name string) (*ast.FuncDecl, error) {
		fd := lp.FuncDecl(recv, name)
		if fd == nil || fd.Body == nil {
			return nil, fmt.Errorf("func %s.%s not found in internal/ingest/lineprotocol.go", recv, name)
		}
		return fd, nil
	}

	// ---- the parser type carries no state: struct fields of LineProtocolParser (must be none for the
	// model, a pure function of the input, to describe a parser instance shared by all request goroutines)
	var parserFields []string
	foundType := false
	for _, d := range lp.AST.Decls {
		gd, ok := d.(*ast.GenDecl)
		if !ok || gd.Tok != token.TYPE {
			continue
		}
		for _, sp := range gd.Specs {
			ts := sp.(*ast.TypeSpec)
			if ts.Name.Name != "LineProtocolParser" {
				continue
			}
			st, ok := ts.Type.(*ast.StructType)
			if !ok {
				return fmt.Errorf("LineProtocolParser is not a struct type")
			}
			foundType = true
			for _, f := range st.Fields.List {
				if len(f.Names) == 0 {
					parserFields = append(parserFields, lp.Text(f.Type))
				}
				for _, n := range f.Names {
					parserFields = append(parserFields, n.Name)
				}
			}
		}
	}
	if !foundType {
		return fmt.Errorf("type LineProtocolParser not found")
	}
	// assignments through the receiver inside any method (p.x = …, p.x[i] = …, p.x++ …)
	var receiverWrites []string
	for _, d := range lp.AST.Decls {
		fd, ok := d.(*ast.FuncDecl)
		if !ok || fd.Recv == nil || fd.Body == nil || len(fd.Recv.List) != 1 || len(fd.Recv.List[0].Names) != 1 {
			continue
		}
		rt := fd.Recv.List[0].Type
		if st, ok := rt.(*ast.StarExpr); ok {
			rt = st.X
		}
		if !isIdent(rt, "LineProtocolParser") {
			continue
		}
		recv := fd.Recv.List[0].Names[0].Name
		rooted := func(e ast.Expr) bool {
			for {
				switch x := e.(type) {
				case *ast.SelectorExpr:
					if isIdent(x.X, recv) {
						return true
					}
					e = x.X
				case *ast.IndexExpr:
					e = x.X
				case *ast.StarExpr:
					e = x.X
				case *ast.ParenExpr:
					e = x.X
				default:
					return false
				}
			}
		}
		ast.Inspect(fd.Body, func(m ast.Node) bool {
			switch x := m.(type) {
			case *ast.AssignStmt:
				for _, l := range x.Lhs {
					if rooted(l) {
						receiverWrites = append(receiverWrites, fd.Name.Name+":"+lp.Text(l))
					}
				}
			case *ast.IncDecStmt:
				if rooted(x.X) {
					receiverWrites = append(receiverWrites, fd.Name.Name+":"+lp.Text(x.X))
				}
			}
			return true
		})
	}

	// ---- unescape (names) and, if present, unescapeString (quoted string field values)
	escSwitch := func(name string) ([]int, int, error) {
		un, err := fn("LineProtocolParser", name)
		if err != nil {
			return nil, 0, err
		}
		var set []int
		nsw := 0
		ast.Inspect(un, func(m ast.Node) bool {
			sw, ok := m.(*ast.SwitchStmt)
			if !ok || !isIdent(sw.Tag, "next") {
				return true
			}
			nsw++
			for _, cc := range sw.Body.List {
				for _, e := range cc.(*ast.CaseClause).List {
					if c, ok := charVal(e); ok {
						set = append(set, c)
					} else {
						set = append(set, -1)
					}
				}
			}
			return true
		})
		if nsw != 1 || len(set) == 0 {
			return nil, 0, fmt.Errorf("%s: expected exactly one `switch next { case <chars>: }`", name)
		}
		for _, c := range set {
			if c < 0 {
				return nil, 0, fmt.Errorf("%s: non-char case label", name)
			}
		}
		esc := eqChars(lp, un, func(s string) bool { return s == "data[i]" })
		if len(esc) != 1 {
			return nil, 0, fmt.Errorf("%s: expected exactly one `data[i] == '<c>'` test, found %d", name, len(esc))
		}
		txt := lp.Text(un)
		for _, pat := range []string{"i+1 < len(data)", "next := data[i+1]", "buf = append(buf, next)", "buf = append(buf, data[i])"} {
			if !strings.Contains(txt, pat) {
				return nil, 0, fmt.Errorf("%s: pattern %q not found", name, pat)
			}
		}
		return set, esc[0], nil
	}
	unescapeSet, escByte, err := escSwitch("unescape")
	if err != nil {
		return err
	}
	escU := []int{escByte}
	nsw := 0

	// ---- splitOnDelimiter
	sp, err := fn("", "splitOnDelimiter")
	if err != nil {
		return err
	}
	spc := eqChars(lp, sp, func(s string) bool { return s == "data[i]" })
	if len(spc) != 2 {
		return fmt.Errorf("splitOnDelimiter: expected `data[i] == '\\\\'` and `data[i] == '\"'`, found %d char tests", len(spc))
	}
	if spc[0] != escU[0] {
		return fmt.Errorf("splitOnDelimiter and unescape use different escape bytes")
	}
	txt := lp.Text(sp)
	for _, pat := range []string{"inQuotes = !inQuotes", "data[i] == delim && !inQuotes", "i+1 < len(data)", "if i > start", "len(data) > start"} {
		if !strings.Contains(txt, pat) {
			return fmt.Errorf("splitOnDelimiter: pattern %q not found", pat)
		}
	}
	delimOf := func(name string) (int, error) {
		fd, err := fn("LineProtocolParser", name)
		if err != nil {
			return 0, err
		}
		cs := fg.CallsNamed(fd, "splitOnDelimiter")
		if len(cs) != 1 || len(cs[0].Args) != 2 {
			return 0, fmt.Errorf("%s: expected one splitOnDelimiter(x, '<c>') call", name)
		}
		c, ok := charVal(cs[0].Args[1])
		if !ok {
			return 0, fmt.Errorf("%s: delimiter is not a char literal", name)
		}
		return c, nil
	}
	lineDelim, err := delimOf("splitLine")
	if err != nil {
		return err
	}
	commaDelim, err := delimOf("splitOnComma")
	if err != nil {
		return err
	}

	// ---- key/value cut: `bytes.IndexByte(x, '=')` (escape-unaware) or `indexUnescaped(x, '=')` (escape-aware)
	kv := -1
	kvAware := -1
	for _, name := range []string{"parseMeasurementTags", "parseFields"} {
		fd, err := fn("LineProtocolParser", name)
		if err != nil {
			return err
		}
		plain := fg.CallsNamed(fd, "IndexByte")
		aware := fg.CallsNamed(fd, "indexUnescaped")
		if len(plain)+len(aware) != 1 {
			return fmt.Errorf("%s: expected exactly one bytes.IndexByte(x, '<c>') or indexUnescaped(x, '<c>') call", name)
		}
		call, a := plain, 0
		if len(aware) == 1 {
			call, a = aware, 1
		}
		if len(call[0].Args) != 2 {
			return fmt.Errorf("%s: unexpected argument count of the separator search", name)
		}
		c, ok := charVal(call[0].Args[1])
		if !ok {
			return fmt.Errorf("%s: separator is not a char literal", name)
		}
		if (kv >= 0 && kv != c) || (kvAware >= 0 && kvAware != a) {
			return fmt.Errorf("tags and fields are cut differently")
		}
		kv, kvAware = c, a
		if len(fg.CallsNamed(fd, "unescape")) == 0 {
			return fmt.Errorf("%s: no unescape call", name)
		}
	}
	if kvAware == 1 {
		iu, err := fn("", "indexUnescaped")
		if err != nil {
			return err
		}
		cs := eqChars(lp, iu, func(s string) bool { return s == "b[i]" })
		if len(cs) != 1 || cs[0] != escU[0] {
			return fmt.Errorf("indexUnescaped: expected the single char test `b[i] == '\\\\'`")
		}
		txt := lp.Text(iu)
		for _, pat := range []string{"i+1 < len(b)", "i++", "continue", "b[i] == c", "return i", "return -1"} {
			if !strings.Contains(txt, pat) {
				return fmt.Errorf("indexUnescaped: pattern %q not found", pat)
			}
		}
	}

	// ---- parseFieldValue
	pv, err := fn("LineProtocolParser", "parseFieldValue")
	if err != nil {
		return err
	}
	type bb struct {
		B int  `json:"byte"`
		V bool `json:"value"`
	}
	var boolBytes []bb
	nsw = 0
	ast.Inspect(pv, func(m ast.Node) bool {
		sw, ok := m.(*ast.SwitchStmt)
		if !ok || sw.Tag == nil || lp.Text(sw.Tag) != "value[0]" {
			return true
		}
		nsw++
		for _, cc := range sw.Body.List {
			c := cc.(*ast.CaseClause)
			v, ok := retBool(c.Body)
			for _, e := range c.List {
				ch, ok2 := charVal(e)
				if !ok || !ok2 {
					boolBytes = append(boolBytes, bb{-1, false})
					continue
				}
				boolBytes = append(boolBytes, bb{ch, v})
			}
		}
		return true
	})
	if nsw != 1 || len(boolBytes) == 0 {
		return fmt.Errorf("parseFieldValue: expected one `switch value[0]` with `return true/false` arms")
	}
	for _, b := range boolBytes {
		if b.B < 0 {
			return fmt.Errorf("parseFieldValue: unexpected shape in the one-byte boolean switch")
		}
	}
	type bw struct {
		N int    `json:"len"`
		W string `json:"word"`
		V bool   `json:"value"`
	}
	var boolWords []bw
	ast.Inspect(pv, func(m ast.Node) bool {
		is, ok := m.(*ast.IfStmt)
		if !ok {
			return true
		}
		cond, ok := is.Cond.(*ast.BinaryExpr)
		if !ok || cond.Op != token.LAND {
			return true
		}
		call, ok := cond.Y.(*ast.CallExpr)
		if !ok || fg.CalleeName(call) != "bytesEqualFold" || len(call.Args) != 2 {
			return true
		}
		w, ok1 := strVal(call.Args[1])
		l, ok2 := cond.X.(*ast.BinaryExpr)
		v, ok3 := retBool(is.Body.List)
		if !ok1 || !ok2 || !ok3 || l.Op != token.EQL || lp.Text(l.X) != "len(value)" {
			boolWords = append(boolWords, bw{-1, "", false})
			return true
		}
		n, err := strconv.Atoi(lp.Text(l.Y))
		if err != nil {
			n = -1
		}
		boolWords = append(boolWords, bw{n, w, v})
		return true
	})
	if len(boolWords) == 0 {
		return fmt.Errorf("parseFieldValue: no `len(value) == N && bytesEqualFold(value, \"…\")` test found")
	}
	for _, w := range boolWords {
		if w.N < 0 || w.N != len(w.W) || w.W != strings.ToLower(w.W) {
			return fmt.Errorf("parseFieldValue: unexpected bytesEqualFold shape (%v)", w)
		}
	}
	last := eqChars(lp, pv, func(s string) bool { return s == "value[len(value)-1]" })
	first := eqChars(lp, pv, func(s string) bool { return s == "value[0]" })
	if len(last) != 3 || len(first) != 1 || last[0] != first[0] {
		return fmt.Errorf("parseFieldValue: expected value[0]=='\"', value[len-1]=='\"', =='i', =='u' tests (got first=%v last=%v)", first, last)
	}
	stringSet := unescapeSet
	strFn := ""
	ast.Inspect(pv, func(m ast.Node) bool {
		c, ok := m.(*ast.CallExpr)
		if !ok || len(c.Args) != 1 || lp.Text(c.Args[0]) != "value[1 : len(value)-1]" {
			return true
		}
		strFn += fg.CalleeName(c) + ";"
		return true
	})
	switch strFn {
	case "unescape;":
	case "unescapeString;":
		set, esc, err := escSwitch("unescapeString")
		if err != nil {
			return err
		}
		if esc != escU[0] {
			return fmt.Errorf("unescapeString uses a different escape byte")
		}
		stringSet = set
	default:
		return fmt.Errorf("parseFieldValue: expected exactly one unescape/unescapeString call on value[1 : len(value)-1], found %q", strFn)
	}
	ptxt := lp.Text(pv)
	for _, pat := range []string{"strconv.ParseInt(strValue[:len(strValue)-1], 10, 64)", "strconv.ParseUint(strValue[:len(strValue)-1], 10, 64)", "strconv.ParseFloat(strValue, 64)", "value = bytes.TrimSpace(value)"} {
		if !strings.Contains(ptxt, pat) {
			return fmt.Errorf("parseFieldValue: pattern %q not found", pat)
		}
	}

	// ---- precision switch
	pl, err := fn("LineProtocolParser", "parseLineWithPrecision")
	if err != nil {
		return err
	}
	env := fg.NewConstEnv(nil)
	type arm struct {
		Label string `json:"label"`
		Kind  string `json:"kind"`
		K     int64  `json:"k"`
	}
	var arms []arm
	var defaultDiv int64 = -1
	nsw = 0
	var shapeErr error
	assignOf := func(s ast.Stmt) (ast.Expr, bool) {
		as, ok := s.(*ast.AssignStmt)
		if !ok || len(as.Lhs) != 1 || len(as.Rhs) != 1 || !isIdent(as.Lhs[0], "timestamp") {
			return nil, false
		}
		return as.Rhs[0], true
	}
	guardK := func(e ast.Expr, op token.Token, bound string) (int64, bool) {
		b, ok := e.(*ast.BinaryExpr)
		if !ok || b.Op != op || !isIdent(b.X, "rawTs") {
			return 0, false
		}
		q, ok := b.Y.(*ast.BinaryExpr)
		if !ok || q.Op != token.QUO || lp.Text(q.X) != bound {
			return 0, false
		}
		k, err := env.EvalInt(q.Y)
		return k, err == nil
	}
	ast.Inspect(pl, func(m ast.Node) bool {
		sw, ok := m.(*ast.SwitchStmt)
		if !ok || !isIdent(sw.Tag, "precision") {
			return true
		}
		nsw++
		for _, cc := range sw.Body.List {
			c := cc.(*ast.CaseClause)
			if c.List == nil { // default
				if len(c.Body) == 1 {
					if rhs, ok := assignOf(c.Body[0]); ok {
						if q, ok := rhs.(*ast.BinaryExpr); ok && q.Op == token.QUO && isIdent(q.X, "rawTs") {
							if k, err := env.EvalInt(q.Y); err == nil {
								defaultDiv = k
								continue
							}
						}
					}
				}
				shapeErr = fmt.Errorf("precision switch: default arm is not `timestamp = rawTs / K`")
				continue
			}
			for _, e := range c.List {
				label, ok := strVal(e)
				if !ok || len(c.Body) != 1 {
					shapeErr = fmt.Errorf("precision switch: unexpected case shape")
					continue
				}
				if rhs, ok := assignOf(c.Body[0]); ok {
					if isIdent(rhs, "rawTs") {
						arms = append(arms, arm{label, "id", 1})
						continue
					}
				}
				is, ok := c.Body[0].(*ast.IfStmt)
				if ok {
					cond, ok1 := is.Cond.(*ast.BinaryExpr)
					if ok1 && cond.Op == token.LAND && len(is.Body.List) == 1 && is.Else != nil {
						k1, a := guardK(cond.X, token.LEQ, "math.MaxInt64")
						k2, b := guardK(cond.Y, token.GEQ, "math.MinInt64")
						rhs, c3 := assignOf(is.Body.List[0])
						var k3 int64
						d := false
						if c3 {
							if mu, ok := rhs.(*ast.BinaryExpr); ok && mu.Op == token.MUL && isIdent(mu.X, "rawTs") {
								if k, err := env.EvalInt(mu.Y); err == nil {
									k3, d = k, true
								}
							}
						}
						els, okE := is.Else.(*ast.BlockStmt)
						elseNow := okE && len(els.List) == 1 && strings.Contains(lp.Text(els.List[0]), "time.Now().UnixMicro()")
						if a && b && d && k1 == k2 && k2 == k3 && elseNow {
							arms = append(arms, arm{label, "mul", k1})
							continue
						}
					}
				}
				shapeErr = fmt.Errorf("precision switch: arm %q is neither `timestamp = rawTs` nor the guarded multiplication with one constant", label)
			}
		}
		return true
	})
	if nsw != 1 {
		return fmt.Errorf("parseLineWithPrecision: expected exactly one `switch precision`, found %d", nsw)
	}
	if shapeErr != nil {
		return shapeErr
	}
	if defaultDiv < 0 {
		return fmt.Errorf("precision switch: no default arm")
	}
	if !strings.Contains(lp.Text(pl), "strconv.ParseInt(string(bytes.TrimSpace(parts[2])), 10, 64)") {
		return fmt.Errorf("parseLineWithPrecision: timestamp ParseInt call not found")
	}

	// ---- BatchToColumnar
	bc, err := fn("", "BatchToColumnar")
	if err != nil {
		return err
	}
	suffix := ""
	var sufErr error
	ast.Inspect(bc, func(m ast.Node) bool {
		b, ok := m.(*ast.BinaryExpr)
		if !ok || b.Op != token.ADD || !isIdent(b.X, "key") {
			return true
		}
		s, ok := strVal(b.Y)
		if !ok || (suffix != "" && suffix != s) {
			sufErr = fmt.Errorf("BatchToColumnar: inconsistent key+\"…\" suffix")
			return true
		}
		suffix = s
		return true
	})
	if sufErr != nil || suffix == "" {
		return fmt.Errorf("BatchToColumnar: key+\"_value\" renaming not found (%v)", sufErr)
	}
	timeCol := ""
	if strings.Contains(lp.Text(bc), `columns["time"] = true`) && strings.Contains(lp.Text(bc), `columnarData["time"][i] = record.Timestamp`) {
		timeCol = "time"
	} else {
		return fmt.Errorf("BatchToColumnar: time column statements not found")
	}

	// ---- handler
	api, err := fg.ParseFile(repo, "internal/api/lineprotocol.go")
	if err != nil {
		return err
	}
	hw := api.FuncDecl("LineProtocolHandler", "handleWrite")
	if hw == nil {
		return fmt.Errorf("handleWrite not found")
	}
	var handlerPrecs []string
	ast.Inspect(hw, func(m ast.Node) bool {
		sw, ok := m.(*ast.SwitchStmt)
		if !ok || !isIdent(sw.Tag, "precision") || handlerPrecs != nil {
			return true
		}
		for _, cc := range sw.Body.List {
			for _, e := range cc.(*ast.CaseClause).List {
				if s, ok := strVal(e); ok {
					handlerPrecs = append(handlerPrecs, s)
				}
			}
		}
		return true
	})
	if len(handlerPrecs) == 0 {
		return fmt.Errorf("handleWrite: precision validation switch not found")
	}
	regex := ""
	aenv := fg.NewConstEnv([]*fg.File{api})
	if e, ok := aenv.Exprs["validMeasurementName"]; ok {
		if c, ok := e.(*ast.CallExpr); ok && fg.CalleeName(c) == "MustCompile" && len(c.Args) == 1 {
			regex, _ = strVal(c.Args[0])
		}
	}
	if regex == "" {
		return fmt.Errorf("validMeasurementName regexp literal not found")
	}

	// ---- the handler shares one parser instance among all requests
	nh := api.FuncDecl("", "NewLineProtocolHandler")
	squash := func(t string) string { return strings.Join(strings.Fields(t), "") }
	shares := nh != nil && strings.Contains(squash(api.Text(nh)), "parser:ingest.NewLineProtocolParser()") &&
		strings.Contains(squash(api.Text(hw)), "h.parser.ParseBatchWithPrecision(body,precision)")
	if !shares {
		return fmt.Errorf("handler: expected `parser: ingest.NewLineProtocolParser()` in NewLineProtocolHandler and `h.parser.ParseBatchWithPrecision(body, precision)` in handleWrite")
	}

	// ---- emit
	w := &out.Lean
	nat := func(xs []int) string {
		ss := make([]string, len(xs))
		for i, x := range xs {
			ss[i] = strconv.Itoa(x)
		}
		return "[" + strings.Join(ss, ", ") + "]"
	}
	fmt.Fprintf(w, "namespace Arc.Generated.C01\n")
	lstr := func(xs []string) string {
		ss := make([]string, len(xs))
		for i, x := range xs {
			ss[i] = fg.LeanStr(x)
		}
		return "[" + strings.Join(ss, ", ") + "]"
	}
	fmt.Fprintf(w, "/-- struct fields of LineProtocolParser (the handler shares ONE instance among all request goroutines) -/\ndef parserFields : List String := %s\n", lstr(parserFields))
	fmt.Fprintf(w, "/-- `method:lvalue` of every assignment through the receiver inside a LineProtocolParser method -/\ndef parserReceiverWrites : List String := %s\n", lstr(receiverWrites))
	fmt.Fprintf(w, "/-- bytes of the `case` list of unescape's inner switch (source order) -/\ndef unescapeSet : List Nat := %s\n", nat(unescapeSet))
	fmt.Fprintf(w, "/-- escape set applied to the inside of a quoted string field value (unescape's own set, or unescapeString's) -/\ndef stringUnescapeSet : List Nat := %s\n", nat(stringSet))
	fmt.Fprintf(w, "/-- true when the key/value separator is located by the escape-aware indexUnescaped, false for bytes.IndexByte -/\ndef kvCutEscapeAware : Bool := %v\n", kvAware == 1)
	fmt.Fprintf(w, "/-- `data[i] == '\\\\'` in unescape and splitOnDelimiter (same literal) -/\ndef escapeByte : Nat := %d\n", escU[0])
	fmt.Fprintf(w, "/-- the quote toggle byte of splitOnDelimiter -/\ndef quoteByte : Nat := %d\n", spc[1])
	fmt.Fprintf(w, "def lineDelim : Nat := %d\ndef commaDelim : Nat := %d\n", lineDelim, commaDelim)
	fmt.Fprintf(w, "/-- the key/value separator searched in parseMeasurementTags and parseFields -/\ndef kvSeparator : Nat := %d\n", kv)
	var bs []string
	for _, b := range boolBytes {
		bs = append(bs, fmt.Sprintf("(%d, %v)", b.B, b.V))
	}
	fmt.Fprintf(w, "/-- one-byte boolean spellings of parseFieldValue -/\ndef boolBytes : List (Nat × Bool) := [%s]\n", strings.Join(bs, ", "))
	var ws []string
	for _, b := range boolWords {
		ws = append(ws, fmt.Sprintf("(%d, %s, %v)", b.N, nat(bytesOf(b.W)), b.V))
	}
	fmt.Fprintf(w, "/-- (length guard, bytes of the bytesEqualFold literal, value) -/\ndef boolWords : List (Nat × List Nat × Bool) := [%s]\n", strings.Join(ws, ", "))
	fmt.Fprintf(w, "def stringQuote : Nat := %d\ndef intSuffix : Nat := %d\ndef uintSuffix : Nat := %d\n", last[0], last[1], last[2])
	var as []string
	for _, a := range arms {
		as = append(as, fmt.Sprintf("(%s, %s, %s)", fg.LeanStr(a.Label), fg.LeanStr(a.Kind), fg.LeanInt(a.K)))
	}
	fmt.Fprintf(w, "/-- `switch precision`: (label, \"id\" = `timestamp = rawTs` | \"mul\" = guarded `rawTs * K` else now, K) -/\ndef precisionArms : List (String × String × Int) := [%s]\n", strings.Join(as, ", "))
	fmt.Fprintf(w, "/-- default arm `timestamp = rawTs / K` -/\ndef defaultDiv : Int := %s\n", fg.LeanInt(defaultDiv))
	var hs []string
	for _, s := range handlerPrecs {
		hs = append(hs, fg.LeanStr(s))
	}
	fmt.Fprintf(w, "def handlerPrecisions : List String := [%s]\n", strings.Join(hs, ", "))
	fmt.Fprintf(w, "def valueSuffix : List Nat := %s\ndef timeColumn : List Nat := %s\n", nat(bytesOf(suffix)), nat(bytesOf(timeCol)))
	fmt.Fprintf(w, "def measurementRegex : String := %s\n", fg.LeanStr(regex))
	fmt.Fprintf(w, "end Arc.Generated.C01\n")

	out.JSON["parser_fields"] = parserFields
	out.JSON["parser_receiver_writes"] = receiverWrites
	out.JSON["unescape_set"] = unescapeSet
	out.JSON["string_unescape_set"] = stringSet
	out.JSON["kv_cut_escape_aware"] = kvAware == 1
	out.JSON["escape_byte"] = escU[0]
	out.JSON["quote_byte"] = spc[1]
	out.JSON["line_delim"] = lineDelim
	out.JSON["comma_delim"] = commaDelim
	out.JSON["kv_separator"] = kv
	out.JSON["bool_bytes"] = boolBytes
	out.JSON["bool_words"] = boolWords
	out.JSON["suffixes"] = last
	out.JSON["precision_arms"] = arms
	out.JSON["default_div"] = defaultDiv
	out.JSON["handler_precisions"] = handlerPrecs
	out.JSON["value_suffix"] = suffix
	out.JSON["time_column"] = timeCol
	out.JSON["measurement_regex"] = regex
	return nil
}

func bytesOf(s string) []int {
	out := make([]int, len(s))
	for i := 0; i < len(s); i++ {
		out[i] = int(s[i])
	}
	return out
}
