package main

import (
	"fmt"
	"go/ast"
	"go/token"
	"strconv"
	"strings"
	"verif/factgen/fg"
)

// C16: syntactic facts of the SQL-to-storage-path rewrite the Lean model was written against.
//   - the five reference / CTE regex literals and validIdentifierPattern (internal/api/query.go)
//   - skipPrefixes, arcInvalidIdentifierSentinel, buildReadParquetOptions' literal
//   - fromKeywordFunctions (internal/sql/mask.go)
//   - the transform-cache key construction in getTransformedSQL (`headerDB + <sep> + sql`, one unconditional
//     definition) and the literals of its two short circuits
//   - the literals of isSingleTableQuery / convertSingleTableQuery / isDotOrCallAt
//   - the ORDER in which the reference patterns are applied in convertSQLToStoragePaths and in
//     convertSQLToStoragePathsWithHeaderDB, and that CTE/skip/dot-or-call checks guard only the simple passes
//   - the storage path template of GetStoragePath for the local backend
func main() { fg.Main("C16", c16) }

func unq(e ast.Expr) (string, bool) {
	bl, ok := e.(*ast.BasicLit)
	if !ok || bl.Kind != token.STRING {
		return "", false
	}
	s, err := strconv.Unquote(bl.Value)
	return s, err == nil
}

func mustCompileLit(e ast.Expr) (string, bool) {
	c, ok := e.(*ast.CallExpr)
	if !ok || fg.CalleeName(c) != "MustCompile" || len(c.Args) != 1 {
		return "", false
	}
	return unq(c.Args[0])
}

// string literals that appear as the 2nd argument of strings.<fn>(x, "lit") calls inside a function, in order
func strArgs(fd *ast.FuncDecl, fn string) []string {
	var out []string
	for _, c := range fg.CallsNamed(fd, fn) {
		if len(c.Args) >= 2 {
			if s, ok := unq(c.Args[1]); ok {
				out = append(out, s)
			}
		}
	}
	return out
}

func leanList(xs []string) string {
	ys := make([]string, len(xs))
	for i, x := range xs {
		ys[i] = fg.LeanStr(x)
	}
	return "[" + strings.Join(ys, ", ") + "]"
}

func c16(repo string, out *fg.Out) error {
	q, err := fg.ParseFile(repo, "internal/api/query.go")
	if err != nil {
		return err
	}
	env := fg.NewConstEnv([]*fg.File{q})
	regexNames := []string{"patternDBTable", "patternSimpleTable", "patternJoinDBTable", "patternJoinSimpleTable", "patternCTENames", "validIdentifierPattern", "patternJoinWord", "patternReadParquetCall"}
	regex := map[string]string{}
	for _, n := range regexNames {
		ex, ok := env.Exprs[n]
		if !ok {
			return fmt.Errorf("var %s not found in internal/api/query.go", n)
		}
		s, ok := mustCompileLit(ex)
		if !ok {
			return fmt.Errorf("var %s is not regexp.MustCompile(<string literal>)", n)
		}
		regex[n] = s
	}
	// skipPrefixes
	var skip []string
	if cl, ok := env.Exprs["skipPrefixes"].(*ast.CompositeLit); ok {
		for _, el := range cl.Elts {
			s, ok := unq(el)
			if !ok {
				return fmt.Errorf("skipPrefixes: non-literal element")
			}
			skip = append(skip, s)
		}
	}
	if len(skip) == 0 {
		return fmt.Errorf("var skipPrefixes = []string{…} not found")
	}
	sentinel, ok := unq(env.Exprs["arcInvalidIdentifierSentinel"])
	if !ok {
		return fmt.Errorf("const arcInvalidIdentifierSentinel = <string literal> not found")
	}
	// buildReadParquetOptions: return "<literal>"
	opts := ""
	if fd := q.FuncDecl("", "buildReadParquetOptions"); fd != nil {
		ast.Inspect(fd, func(n ast.Node) bool {
			if r, ok := n.(*ast.ReturnStmt); ok && len(r.Results) == 1 {
				if s, ok := unq(r.Results[0]); ok {
					opts = s
				}
			}
			return true
		})
	}
	if opts == "" {
		return fmt.Errorf("buildReadParquetOptions: `return <string literal>` not found")
	}
	// ---- cache key construction in getTransformedSQL
	gts := q.FuncDecl("QueryHandler", "getTransformedSQL")
	if gts == nil {
		return fmt.Errorf("method QueryHandler.getTransformedSQL not found")
	}
	// cacheKey := headerDB + <sep literal> + sql   (single, unconditional definition since 12df811)
	keySep, keyShape, keyAssigns := "", "", 0
	ast.Inspect(gts, func(n ast.Node) bool {
		as, ok := n.(*ast.AssignStmt)
		if !ok || len(as.Lhs) != 1 || len(as.Rhs) != 1 {
			return true
		}
		lhs, ok := as.Lhs[0].(*ast.Ident)
		if !ok || lhs.Name != "cacheKey" {
			return true
		}
		keyAssigns++
		if r, ok := as.Rhs[0].(*ast.BinaryExpr); ok && r.Op == token.ADD {
			if l, ok := r.X.(*ast.BinaryExpr); ok && l.Op == token.ADD {
				a, aok := l.X.(*ast.Ident)
				sep, sok := unq(l.Y)
				b, bok := r.Y.(*ast.Ident)
				if aok && sok && bok {
					keySep = sep
					keyShape = a.Name + "+sep+" + b.Name
				}
			}
		}
		return true
	})
	if keyAssigns != 1 || keyShape != "headerDB+sep+sql" {
		return fmt.Errorf("getTransformedSQL: expected exactly one assignment `cacheKey := headerDB + <lit> + sql`, found %d assignment(s), shape=%q", keyAssigns, keyShape)
	}
	// the cache is consulted with exactly that key
	if len(fg.CallsNamed(gts, "Get")) != 1 || len(fg.CallsNamed(gts, "Set")) != 1 {
		return fmt.Errorf("getTransformedSQL: expected one queryCache.Get and one queryCache.Set")
	}
	short := strArgs(gts, "Contains")
	if len(short) != 3 {
		return fmt.Errorf("getTransformedSQL: expected 3 strings.Contains short-circuit tests, found %v", short)
	}
	// ---- fast path literals
	ist := q.FuncDecl("", "isSingleTableQuery")
	if ist == nil {
		return fmt.Errorf("func isSingleTableQuery not found")
	}
	istCount, istTrim := strArgs(ist, "Count"), strArgs(ist, "TrimLeft")
	// since d4e5686 the JOIN test is patternJoinWord.MatchString(sqlLower), no longer Contains(" join ")
	joinTest := ""
	for _, c := range fg.CallsNamed(ist, "MatchString") {
		if sel, ok := c.Fun.(*ast.SelectorExpr); ok {
			if id, ok := sel.X.(*ast.Ident); ok {
				joinTest = id.Name
			}
		}
	}
	if len(istCount) != 1 || len(istTrim) != 1 || joinTest != "patternJoinWord" || len(strArgs(ist, "Contains")) != 0 {
		return fmt.Errorf("isSingleTableQuery: expected one Count, one TrimLeft with literal arguments and patternJoinWord.MatchString; found %v %v %q", istCount, istTrim, joinTest)
	}
	istContains := []string{joinTest}
	// since 53c9b19: the fast path is gated by the permission extractor's pattern and by the CTE extractor
	var istGuards []string
	for _, n := range []string{"FindAllStringIndex", "extractCTENames"} {
		if len(fg.CallsNamed(ist, n)) == 1 {
			istGuards = append(istGuards, n)
		}
	}
	// since 04fa395: the header transform extracts the CTE names unconditionally (top-level statement)
	headerCteAlways := false
	if hfd := q.FuncDecl("QueryHandler", "convertSQLToStoragePathsWithHeaderDB"); hfd != nil {
		for _, st := range hfd.Body.List {
			if as, ok := st.(*ast.AssignStmt); ok && len(as.Lhs) == 1 && len(as.Rhs) == 1 {
				if id, ok := as.Lhs[0].(*ast.Ident); ok && id.Name == "cteNames" {
					if c, ok := as.Rhs[0].(*ast.CallExpr); ok && fg.CalleeName(c) == "extractCTENames" {
						headerCteAlways = true
					}
				}
			}
		}
	}
	fastGuard := true
	for _, fn := range []string{"convertSingleTableQuery", "convertSingleTableQueryForParallel"} {
		fd := q.FuncDecl("QueryHandler", fn)
		if fd == nil || len(fg.CallsNamed(fd, "isDotOrCallAt")) != 1 {
			fastGuard = false
		}
	}
	quotedCTE := true
	for _, fn := range []string{"convertSQLToStoragePaths", "convertSQLToStoragePathsWithHeaderDB"} {
		fd := q.FuncDecl("QueryHandler", fn)
		found := false
		if fd != nil {
			ast.Inspect(fd, func(n ast.Node) bool {
				if r, ok := n.(*ast.RangeStmt); ok {
					if id, ok := r.X.(*ast.Ident); ok && id.Name == "identNames" && strings.Contains(q.Text(r.Body), "cteNames[") {
						found = true
					}
				}
				return true
			})
		}
		quotedCTE = quotedCTE && found
	}
	rpNeedsCall := len(fg.CallsNamed(gts, "MatchString")) == 1 && len(fg.CallsNamed(gts, "ioDenylistNormalise")) == 1
	cst := q.FuncDecl("QueryHandler", "convertSingleTableQuery")
	if cst == nil {
		return fmt.Errorf("method convertSingleTableQuery not found")
	}
	cstIndex := strArgs(cst, "Index")
	if len(cstIndex) != 1 {
		return fmt.Errorf("convertSingleTableQuery: expected one strings.Index(sqlLower, <lit>)")
	}
	doc := q.FuncDecl("", "isDotOrCallAt")
	if doc == nil {
		return fmt.Errorf("func isDotOrCallAt not found")
	}
	docTrim := strArgs(doc, "TrimLeft")
	if len(docTrim) != 1 {
		return fmt.Errorf("isDotOrCallAt: expected one strings.TrimLeft(_, <lit>)")
	}
	// ---- order of the reference passes
	passOrder := func(name string) ([]string, error) {
		fd := q.FuncDecl("QueryHandler", name)
		if fd == nil {
			return nil, fmt.Errorf("method %s not found", name)
		}
		type hit struct {
			pos token.Pos
			pat string
		}
		var hits []hit
		ast.Inspect(fd, func(n ast.Node) bool {
			c, ok := n.(*ast.CallExpr)
			if !ok {
				return true
			}
			switch fg.CalleeName(c) {
			case "ReplaceAllStringFunc":
				if sel, ok := c.Fun.(*ast.SelectorExpr); ok {
					if id, ok := sel.X.(*ast.Ident); ok {
						hits = append(hits, hit{c.Pos(), id.Name + ":all"})
					}
				}
			case "replaceTableRefs":
				if len(c.Args) == 3 {
					if id, ok := c.Args[1].(*ast.Ident); ok {
						guard := ""
						for _, g := range []string{"cteNames", "shouldSkipTableConversion", "isDotOrCallAt"} {
							found := false
							ast.Inspect(c.Args[2], func(m ast.Node) bool {
								switch x := m.(type) {
								case *ast.Ident:
									if x.Name == g {
										found = true
									}
								}
								return true
							})
							if found {
								guard += "+" + g
							}
						}
						hits = append(hits, hit{c.Pos(), id.Name + ":guarded" + guard})
					}
				}
			}
			return true
		})
		var xs []string
		for _, h := range hits {
			xs = append(xs, h.pat)
		}
		return xs, nil
	}
	slowOrder, err := passOrder("convertSQLToStoragePaths")
	if err != nil {
		return err
	}
	hdrOrder, err := passOrder("convertSQLToStoragePathsWithHeaderDB")
	if err != nil {
		return err
	}
	if len(slowOrder) == 0 || len(hdrOrder) == 0 {
		return fmt.Errorf("no reference passes found in convertSQLToStoragePaths / …WithHeaderDB")
	}
	// ---- mask.go
	mk, err := fg.ParseFile(repo, "internal/sql/mask.go")
	if err != nil {
		return err
	}
	menv := fg.NewConstEnv([]*fg.File{mk})
	var trig []string
	if cl, ok := menv.Exprs["fromKeywordFunctions"].(*ast.CompositeLit); ok {
		for _, el := range cl.Elts {
			if s, ok := unq(el); ok {
				trig = append(trig, s)
			}
		}
	}
	if len(trig) == 0 {
		return fmt.Errorf("var fromKeywordFunctions = [...]string{…} not found in internal/sql/mask.go")
	}
	// ---- storage path template (local backend)
	su, err := fg.ParseFile(repo, "internal/storage/util.go")
	if err != nil {
		return err
	}
	gsp := su.FuncDecl("", "GetStoragePath")
	if gsp == nil {
		return fmt.Errorf("func GetStoragePath not found")
	}
	localTmpl := ""
	ast.Inspect(gsp, func(n ast.Node) bool {
		cc, ok := n.(*ast.CaseClause)
		if !ok || len(cc.List) != 1 || !strings.Contains(su.Text(cc.List[0]), "LocalBackend") {
			return true
		}
		for _, st := range cc.Body {
			if r, ok := st.(*ast.ReturnStmt); ok && len(r.Results) == 1 {
				localTmpl = su.Text(r.Results[0])
			}
		}
		return true
	})
	if localTmpl == "" {
		return fmt.Errorf("GetStoragePath: case *LocalBackend: return … not found")
	}

	w := &out.Lean
	fmt.Fprintln(w, "namespace Arc.Generated.C16")
	for _, n := range regexNames {
		fmt.Fprintf(w, "def %s : String := %s\n", n, fg.LeanStr(regex[n]))
	}
	fmt.Fprintf(w, "def skipPrefixes : List String := %s\n", leanList(skip))
	fmt.Fprintf(w, "def fromKeywordFunctions : List String := %s\n", leanList(trig))
	fmt.Fprintf(w, "def sentinel : String := %s\n", fg.LeanStr(sentinel))
	fmt.Fprintf(w, "def readParquetOptions : String := %s\n", fg.LeanStr(opts))
	fmt.Fprintf(w, "def cacheKeySep : String := %s\n", fg.LeanStr(keySep))
	fmt.Fprintf(w, "def cacheKeyShape : String := %s\n", fg.LeanStr(keyShape))
	fmt.Fprintf(w, "def shortCircuitLits : List String := %s\n", leanList(short))
	fmt.Fprintf(w, "def singleTableLits : List String := %s\n", leanList([]string{istCount[0], istContains[0], istTrim[0], cstIndex[0]}))
	fmt.Fprintf(w, "def dotOrCallTrim : String := %s\n", fg.LeanStr(docTrim[0]))
	fmt.Fprintf(w, "def singleTableGuards : List String := %s\n", leanList(istGuards))
	fmt.Fprintf(w, "def headerCteAlways : Bool := %v\n", headerCteAlways)
	fmt.Fprintf(w, "def fastPathCallGuard : Bool := %v\n", fastGuard)
	fmt.Fprintf(w, "def quotedCteRegistered : Bool := %v\n", quotedCTE)
	fmt.Fprintf(w, "def readParquetShortCircuitNeedsCall : Bool := %v\n", rpNeedsCall)
	fmt.Fprintf(w, "def slowPassOrder : List String := %s\n", leanList(slowOrder))
	fmt.Fprintf(w, "def headerPassOrder : List String := %s\n", leanList(hdrOrder))
	fmt.Fprintf(w, "def localPathTemplate : String := %s\n", fg.LeanStr(localTmpl))
	fmt.Fprintln(w, "end Arc.Generated.C16")

	out.JSON["regex"] = regex
	out.JSON["skip_prefixes"] = skip
	out.JSON["from_keyword_functions"] = trig
	out.JSON["cache_key_sep"] = keySep
	out.JSON["slow_pass_order"] = slowOrder
	out.JSON["header_pass_order"] = hdrOrder
	out.JSON["local_path_template"] = localTmpl
	return nil
}
