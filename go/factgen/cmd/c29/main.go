package main

import (
	"fmt"
	"go/ast"
	"go/token"
	"sort"
	"strings"
	"verif/factgen/fg"
)

// C29: the step order of the two continuous-query execution paths, the shape of the
// record-and-advance transaction, every writer of last_processed_time, the row-label expression and
// the scheduler's entry point — the facts the Lean model of Arc/Model/C29.lean is built on.
func main() { fg.Main("C29", c29) }

const cqFile = "internal/api/continuous_query.go"
const schedFile = "internal/scheduler/cq_scheduler.go"

func c29(repo string, out *fg.Out) error {
	f, err := fg.ParseFile(repo, cqFile)
	if err != nil {
		return err
	}
	env := fg.NewConstEnv([]*fg.File{f})

	need := func(recv, name string) (*ast.FuncDecl, error) {
		fd := f.FuncDecl(recv, name)
		if fd == nil || fd.Body == nil {
			return nil, fmt.Errorf("func (%s) %s not found in %s", recv, name, cqFile)
		}
		return fd, nil
	}

	// ---- step order of one execution path
	var lookbacks []int64
	steps := func(fd *ast.FuncDecl) []string {
		var st []string
		add := func(s string) {
			for _, x := range st {
				if x == s && s != "recordExecution:failed" {
					return
				}
			}
			st = append(st, s)
		}
		ast.Inspect(fd.Body, func(n ast.Node) bool {
			switch x := n.(type) {
			case *ast.IfStmt:
				c := f.Text(x.Cond)
				switch {
				case c == "!cq.IsActive":
					add("activeCheck")
				case c == "!startTime.Before(endTime)":
					if returns(x.Body) {
						add("beforeCheck")
					}
				case c == "req.DryRun":
					if returns(x.Body) {
						add("dryRunReturn")
					}
				}
			case *ast.CallExpr:
				switch fg.CalleeName(x) {
				case "getQuery":
					add("getQuery")
				case "Parse":
					if len(x.Args) == 2 && f.Text(x.Args[0]) == "time.RFC3339" {
						switch f.Text(x.Args[1]) {
						case "*req.StartTime":
							add("parseStart")
						case "*req.EndTime":
							add("parseEnd")
						case "*cq.LastProcessedTime":
							add("cursorOrLookback")
						default:
							add("parse:" + f.Text(x.Args[1]))
						}
					}
				case "Add":
					// time.Now().UTC().Add(-1 * time.Hour)
					if len(x.Args) == 1 && strings.HasPrefix(f.Text(x.Fun), "time.Now().UTC().Add") {
						if v, err := evalSigned(env, x.Args[0]); err == nil {
							lookbacks = append(lookbacks, -v)
						} else {
							lookbacks = append(lookbacks, 0)
						}
					}
				case "executeAggregation":
					add("executeAggregation")
				case "recordExecution":
					if len(x.Args) >= 3 {
						add("recordExecution:" + strings.Trim(f.Text(x.Args[2]), `"`))
					}
				case "recordExecutionAndUpdateTime":
					add("recordExecutionAndUpdateTime")
				case "updateLastProcessedTime":
					add("updateLastProcessedTime")
				}
			}
			return true
		})
		return st
	}
	fdExec, err := need("ContinuousQueryHandler", "ExecuteCQ")
	if err != nil {
		return err
	}
	fdMan, err := need("ContinuousQueryHandler", "handleExecute")
	if err != nil {
		return err
	}
	execSteps := steps(fdExec)
	manSteps := steps(fdMan)
	if len(lookbacks) != 2 || lookbacks[0] != lookbacks[1] || lookbacks[0] <= 0 {
		return fmt.Errorf("expected the same `time.Now().UTC().Add(-<const>)` look-back in ExecuteCQ and handleExecute, got %v", lookbacks)
	}
	// the window placeholders must be formatted with time.RFC3339 in both paths
	for _, fd := range []*ast.FuncDecl{fdExec, fdMan} {
		txt := f.Text(fd.Body)
		for _, want := range []string{`"{start_time}", fmt.Sprintf("'%s'", startTime.Format(time.RFC3339))`, `"{end_time}", fmt.Sprintf("'%s'", endTime.Format(time.RFC3339))`} {
			if !strings.Contains(txt, want) {
				return fmt.Errorf("%s: placeholder substitution %q not found", fd.Name.Name, want)
			}
		}
		// both paths pass the un-truncated startTime/endTime on
		for _, want := range []string{"h.executeAggregation(ctx, cq, executedQuery, startTime, endTime)", "executionID, startTime, endTime, recordsWritten, executionDuration)"} {
			if !strings.Contains(txt, want) {
				return fmt.Errorf("%s: call shape %q not found", fd.Name.Name, want)
			}
		}
		// endTime default is the clock
		if !strings.Contains(txt, "endTime = time.Now().UTC()") {
			return fmt.Errorf("%s: `endTime = time.Now().UTC()` not found", fd.Name.Name)
		}
	}

	// ---- record-and-advance transaction
	fdRec, err := need("ContinuousQueryHandler", "recordExecutionAndUpdateTime")
	if err != nil {
		return err
	}
	var tx []string
	ast.Inspect(fdRec.Body, func(n ast.Node) bool {
		switch x := n.(type) {
		case *ast.DeferStmt:
			if f.Text(x.Call) == "tx.Rollback()" {
				tx = append(tx, "defer Rollback")
			}
			return false
		case *ast.CallExpr:
			switch f.Text(x.Fun) {
			case "h.sqliteDB.Begin":
				tx = append(tx, "Begin")
			case "tx.Commit":
				tx = append(tx, "Commit")
			case "tx.Exec":
				if len(x.Args) == 0 {
					return true
				}
				sql := strings.Join(strings.Fields(strings.Trim(f.Text(x.Args[0]), "`")), " ")
				var fm []string
				for _, a := range x.Args[1:] {
					if t := f.Text(a); strings.Contains(t, ".Format(") {
						fm = append(fm, t)
					}
				}
				switch {
				case strings.HasPrefix(sql, "INSERT INTO continuous_query_executions") && strings.Contains(sql, "'completed'"):
					tx = append(tx, "INSERT continuous_query_executions:"+strings.Join(fm, ","))
				case strings.HasPrefix(sql, "UPDATE continuous_queries SET last_processed_time = ? WHERE id = ?"):
					tx = append(tx, "UPDATE last_processed_time:"+strings.Join(fm, ","))
				default:
					tx = append(tx, "Exec:"+sql)
				}
			case "h.sqliteDB.Exec":
				tx = append(tx, "non-tx Exec")
			}
		}
		return true
	})

	// ---- every function whose SQL assigns last_processed_time; callers of the writers
	var writers, recCallers, updCallers []string
	for _, d := range f.AST.Decls {
		fd, ok := d.(*ast.FuncDecl)
		if !ok || fd.Body == nil {
			continue
		}
		writes := false
		ast.Inspect(fd.Body, func(n ast.Node) bool {
			switch x := n.(type) {
			case *ast.BasicLit:
				if x.Kind == token.STRING {
					s := strings.ToLower(strings.Join(strings.Fields(x.Value), " "))
					if strings.Contains(s, "last_processed_time =") || (strings.Contains(s, "insert into continuous_queries") && strings.Contains(s, "last_processed_time")) {
						writes = true
					}
				}
			case *ast.CallExpr:
				switch fg.CalleeName(x) {
				case "recordExecutionAndUpdateTime":
					recCallers = append(recCallers, fd.Name.Name)
				case "updateLastProcessedTime":
					updCallers = append(updCallers, fd.Name.Name)
				}
			}
			return true
		})
		if writes {
			writers = append(writers, fd.Name.Name)
		}
	}
	sort.Strings(writers)
	sort.Strings(recCallers)
	sort.Strings(updCallers)
	// no other non-test file of the package may write the cursor
	apiFiles, err := fg.ParseDir(repo, "internal/api")
	if err != nil {
		return err
	}
	for _, af := range apiFiles {
		if af.Path == cqFile {
			continue
		}
		if strings.Contains(string(af.Src), "last_processed_time") {
			return fmt.Errorf("%s mentions last_processed_time: a second writer/reader of the cursor outside %s", af.Path, cqFile)
		}
	}

	// ---- label expression in executeAggregation
	fdAgg, err := need("ContinuousQueryHandler", "executeAggregation")
	if err != nil {
		return err
	}
	label := ""
	ast.Inspect(fdAgg.Body, func(n ast.Node) bool {
		if as, ok := n.(*ast.AssignStmt); ok && len(as.Lhs) == 1 && len(as.Rhs) == 1 && f.Text(as.Lhs[0]) == "windowMicro" {
			label = f.Text(as.Rhs[0])
		}
		return true
	})
	if label == "" {
		return fmt.Errorf("`windowMicro := …` not found in executeAggregation")
	}
	aggTxt := f.Text(fdAgg.Body)
	if !strings.Contains(aggTxt, "times[i] = windowMicro") || !strings.Contains(aggTxt, `columnarData["time"] = times`) {
		return fmt.Errorf("executeAggregation no longer stamps the time column with windowMicro")
	}
	if pl := fdAgg.Type.Params.List; len(pl) != 4 || len(pl[3].Names) != 2 || pl[3].Names[0].Name != "startTime" ||
		pl[3].Names[1].Name != "_" || f.Text(pl[3].Type) != "time.Time" {
		return fmt.Errorf("executeAggregation parameter list changed (expected `…, startTime, _ time.Time`)")
	}

	// ---- error propagation of the destination write: exactly one WriteColumnarRecord call, guarded as
	// `if err := …WriteColumnarRecord(…); err != nil { return 0, … }` directly in the function body
	writeStep := "missing"
	nWrites := len(fg.CallsNamed(fdAgg.Body, "WriteColumnarRecord"))
	for _, st := range fdAgg.Body.List {
		is, ok := st.(*ast.IfStmt)
		if !ok || is.Init == nil {
			continue
		}
		as, ok := is.Init.(*ast.AssignStmt)
		if !ok || len(as.Lhs) != 1 || len(as.Rhs) != 1 || as.Tok != token.DEFINE {
			continue
		}
		c, ok := as.Rhs[0].(*ast.CallExpr)
		if !ok || fg.CalleeName(c) != "WriteColumnarRecord" {
			continue
		}
		v := f.Text(as.Lhs[0])
		if f.Text(is.Cond) == v+" != nil" && is.Else == nil && len(is.Body.List) == 1 {
			if rs, ok := is.Body.List[0].(*ast.ReturnStmt); ok && len(rs.Results) == 2 && f.Text(rs.Results[0]) == "0" &&
				strings.Contains(f.Text(rs.Results[1]), v) {
				writeStep = "if err := write; err != nil { return 0, wrap(err) }"
			}
		}
	}
	if nWrites != 1 {
		writeStep = fmt.Sprintf("%d WriteColumnarRecord calls", nWrites)
	} else if writeStep == "missing" {
		writeStep = "write error not returned by a top-level `if err := …; err != nil { return 0, … }`"
	}
	// the success return must be the last statement and report len(records)
	if last, ok := fdAgg.Body.List[len(fdAgg.Body.List)-1].(*ast.ReturnStmt); !ok || len(last.Results) != 2 ||
		f.Text(last.Results[0]) != "int64(len(records))" || f.Text(last.Results[1]) != "nil" {
		return fmt.Errorf("executeAggregation no longer ends with `return int64(len(records)), nil`")
	}

	// ---- every assignment to startTime / endTime in the two execution paths (no clamp, no rounding)
	assigns := func(fd *ast.FuncDecl, name string) []string {
		var out []string
		ast.Inspect(fd.Body, func(n ast.Node) bool {
			as, ok := n.(*ast.AssignStmt)
			if !ok {
				return true
			}
			for i, l := range as.Lhs {
				if id, ok := l.(*ast.Ident); ok && id.Name == name {
					if len(as.Rhs) == len(as.Lhs) {
						out = append(out, f.Text(as.Rhs[i]))
					} else {
						out = append(out, f.Text(as.Rhs[0]))
					}
				}
			}
			return true
		})
		return out
	}
	execStart, execEnd := assigns(fdExec, "startTime"), assigns(fdExec, "endTime")
	manStart, manEnd := assigns(fdMan, "startTime"), assigns(fdMan, "endTime")

	// ---- handleUpdate must not touch the cursor
	fdUpd, err := need("ContinuousQueryHandler", "handleUpdate")
	if err != nil {
		return err
	}
	if strings.Contains(f.Text(fdUpd.Body), "last_processed_time") {
		return fmt.Errorf("handleUpdate now mentions last_processed_time")
	}

	// ---- scheduler: executeJob calls cqHandler.ExecuteCQ; runJob calls executeJob
	sf, err := fg.ParseFile(repo, schedFile)
	if err != nil {
		return err
	}
	fdJob := sf.FuncDecl("CQScheduler", "executeJob")
	fdRun := sf.FuncDecl("CQScheduler", "runJob")
	if fdJob == nil || fdRun == nil {
		return fmt.Errorf("CQScheduler.executeJob / runJob not found in %s", schedFile)
	}
	var schedCalls []string
	ast.Inspect(fdJob.Body, func(n ast.Node) bool {
		if c, ok := n.(*ast.CallExpr); ok && strings.HasPrefix(sf.Text(c.Fun), "s.cqHandler.") {
			schedCalls = append(schedCalls, fg.CalleeName(c))
		}
		return true
	})
	if len(fg.CallsNamed(fdRun.Body, "executeJob")) != 1 {
		return fmt.Errorf("runJob does not call executeJob exactly once")
	}

	w := &out.Lean
	list := func(xs []string) string {
		q := make([]string, len(xs))
		for i, x := range xs {
			q[i] = fg.LeanStr(x)
		}
		return "[" + strings.Join(q, ", ") + "]"
	}
	fmt.Fprintf(w, "namespace Arc.Generated.C29\n")
	fmt.Fprintf(w, "/-- `time.Now().UTC().Add(-1 * time.Hour)` look-back of a query without a cursor (ns) -/\n")
	fmt.Fprintf(w, "def lookbackNs : Int := %s\n", fg.LeanInt(lookbacks[0]))
	fmt.Fprintf(w, "def executeCQSteps : List String := %s\n", list(execSteps))
	fmt.Fprintf(w, "def handleExecuteSteps : List String := %s\n", list(manSteps))
	fmt.Fprintf(w, "def recordTx : List String := %s\n", list(tx))
	fmt.Fprintf(w, "def cursorWriters : List String := %s\n", list(writers))
	fmt.Fprintf(w, "def recordCallers : List String := %s\n", list(recCallers))
	fmt.Fprintf(w, "def updateLastProcessedTimeCallers : List String := %s\n", list(updCallers))
	fmt.Fprintf(w, "def labelExpr : String := %s\n", fg.LeanStr(label))
	fmt.Fprintf(w, "def writeStep : String := %s\n", fg.LeanStr(writeStep))
	fmt.Fprintf(w, "def executeCQStartAssigns : List String := %s\n", list(execStart))
	fmt.Fprintf(w, "def executeCQEndAssigns : List String := %s\n", list(execEnd))
	fmt.Fprintf(w, "def handleExecuteStartAssigns : List String := %s\n", list(manStart))
	fmt.Fprintf(w, "def handleExecuteEndAssigns : List String := %s\n", list(manEnd))
	fmt.Fprintf(w, "def windowFormat : String := \"time.RFC3339\"\n")
	fmt.Fprintf(w, "def schedulerCalls : List String := %s\n", list(schedCalls))
	fmt.Fprintf(w, "end Arc.Generated.C29\n")

	out.JSON["lookback_ns"] = lookbacks[0]
	out.JSON["execute_cq_steps"] = execSteps
	out.JSON["handle_execute_steps"] = manSteps
	out.JSON["record_tx"] = tx
	out.JSON["cursor_writers"] = writers
	out.JSON["record_callers"] = recCallers
	out.JSON["label_expr"] = label
	out.JSON["write_step"] = writeStep
	out.JSON["execute_cq_start_assigns"] = execStart
	out.JSON["scheduler_calls"] = schedCalls
	return nil
}

func returns(b *ast.BlockStmt) bool {
	for _, s := range b.List {
		if _, ok := s.(*ast.ReturnStmt); ok {
			return true
		}
	}
	return false
}

// evalSigned: fg.EvalInt plus a leading unary minus inside a product (`-1 * time.Hour`).
func evalSigned(env *fg.ConstEnv, e ast.Expr) (int64, error) {
	if v, err := env.EvalInt(e); err == nil {
		return v, nil
	}
	switch x := e.(type) {
	case *ast.UnaryExpr:
		if x.Op == token.SUB {
			v, err := evalSigned(env, x.X)
			return -v, err
		}
	case *ast.BinaryExpr:
		if x.Op == token.MUL {
			a, err := evalSigned(env, x.X)
			if err != nil {
				return 0, err
			}
			b, err := evalSigned(env, x.Y)
			return a * b, err
		}
	case *ast.ParenExpr:
		return evalSigned(env, x.X)
	}
	return 0, fmt.Errorf("not a constant: %T", e)
}
