package main

import (
	"fmt"
	"go/ast"
	"go/token"
	"strconv"
	"strings"
	"verif/factgen/fg"
)

// C21: the structural facts of internal/auth the LTS is parameterised by.
//   - max_open_conns            literal argument of db.SetMaxOpenConns in NewAuthManager
//   - rows_held_across_insert   VerifyToken: `defer rows.Close()` and the cache insert is inside the
//     `for rows.Next()` loop with no explicit rows.Close() before it
//   - gen_guard                 the insert is guarded by a generation counter that InvalidateCache bumps
//   - hit_checks_expiry         the cache-hit condition re-checks entry.info.ExpiresAt
//   - mutators                  per mutating method: does it invalidate the cache after its SQL statement
func main() { fg.Main("C21", c21) }

func isSel(e ast.Expr, x, sel string) bool {
	s, ok := e.(*ast.SelectorExpr)
	if !ok || s.Sel.Name != sel {
		return false
	}
	id, ok := s.X.(*ast.Ident)
	return ok && id.Name == x
}

// amField returns F when e is `am.F`, `am.F.Load()`.
func amField(e ast.Expr) string {
	if c, ok := e.(*ast.CallExpr); ok && len(c.Args) == 0 {
		if s, ok := c.Fun.(*ast.SelectorExpr); ok && s.Sel.Name == "Load" {
			e = s.X
		}
	}
	if s, ok := e.(*ast.SelectorExpr); ok {
		if id, ok := s.X.(*ast.Ident); ok && id.Name == "am" {
			return s.Sel.Name
		}
	}
	return ""
}

// callOn finds calls `am.<field>.<method>(` (field "" = directly on am) and returns their positions.
func callsOn(n ast.Node, field, method string) []token.Pos {
	var ps []token.Pos
	ast.Inspect(n, func(x ast.Node) bool {
		c, ok := x.(*ast.CallExpr)
		if !ok {
			return true
		}
		s, ok := c.Fun.(*ast.SelectorExpr)
		if !ok || s.Sel.Name != method {
			return true
		}
		if field == "" {
			if id, ok := s.X.(*ast.Ident); ok && id.Name == "am" {
				ps = append(ps, c.Pos())
			}
		} else if isSel(s.X, "am", field) {
			ps = append(ps, c.Pos())
		}
		return true
	})
	return ps
}

func mentions(n ast.Node, f *fg.File, what string) bool {
	if n == nil {
		return false
	}
	return strings.Contains(f.Text(n), what)
}

func c21(repo string, out *fg.Out) error {
	files, err := fg.ParseDir(repo, "internal/auth")
	if err != nil {
		return err
	}
	// ---- pool size
	nf, newAM := fg.FindFunc(files, "", "NewAuthManager")
	if newAM == nil {
		return fmt.Errorf("func NewAuthManager not found in internal/auth")
	}
	maxOpen := int64(-1)
	for _, c := range fg.CallsNamed(newAM, "SetMaxOpenConns") {
		if len(c.Args) == 1 {
			if lit, ok := c.Args[0].(*ast.BasicLit); ok && lit.Kind == token.INT {
				v, _ := strconv.ParseInt(lit.Value, 0, 64)
				maxOpen = v
			}
		}
	}
	_ = nf
	if maxOpen < 0 {
		// no (literal) limit: database/sql default is unlimited
		maxOpen = 0
	}

	// ---- VerifyToken shape
	vf, vt := fg.FindFunc(files, "AuthManager", "VerifyToken")
	if vt == nil {
		return fmt.Errorf("method (*AuthManager).VerifyToken not found")
	}
	queries := callsOn(vt, "db", "Query")
	if len(queries) != 1 {
		return fmt.Errorf("VerifyToken: expected exactly one am.db.Query call, found %d", len(queries))
	}
	queryPos := queries[0]
	rlocks := callsOn(vt, "cacheMu", "RLock")
	locks := callsOn(vt, "cacheMu", "Lock")
	if len(rlocks) != 1 || len(locks) != 1 {
		return fmt.Errorf("VerifyToken: expected one cacheMu.RLock and one cacheMu.Lock, found %d/%d", len(rlocks), len(locks))
	}
	if !(rlocks[0] < queryPos && queryPos < locks[0]) {
		return fmt.Errorf("VerifyToken: expected order lookup(RLock) < db.Query < insert(Lock)")
	}
	// the insert: assignment to am.cache[...]
	var insertPos token.Pos
	var insertStack []ast.Node
	var stack []ast.Node
	ast.Inspect(vt, func(n ast.Node) bool {
		if n == nil {
			stack = stack[:len(stack)-1]
			return true
		}
		stack = append(stack, n)
		if as, ok := n.(*ast.AssignStmt); ok && len(as.Lhs) == 1 {
			if ix, ok := as.Lhs[0].(*ast.IndexExpr); ok && isSel(ix.X, "am", "cache") {
				if insertPos != token.NoPos {
					insertPos = -1
				} else {
					insertPos = as.Pos()
					insertStack = append([]ast.Node{}, stack...)
				}
			}
		}
		return true
	})
	if insertPos <= 0 {
		return fmt.Errorf("VerifyToken: expected exactly one `am.cache[...] = …` assignment")
	}
	if insertPos < locks[0] {
		return fmt.Errorf("VerifyToken: the cache insert is not after cacheMu.Lock()")
	}
	// rows loop
	var rowsLoop *ast.ForStmt
	for _, n := range insertStack {
		if fs, ok := n.(*ast.ForStmt); ok && mentions(fs.Cond, vf, "rows.Next()") {
			rowsLoop = fs
		}
	}
	deferClose := false
	explicitCloseBeforeInsert := false
	ast.Inspect(vt, func(n ast.Node) bool {
		switch x := n.(type) {
		case *ast.DeferStmt:
			if mentions(x.Call, vf, "rows.Close()") {
				deferClose = true
			}
			return false
		case *ast.CallExpr:
			if s, ok := x.Fun.(*ast.SelectorExpr); ok && s.Sel.Name == "Close" {
				if id, ok := s.X.(*ast.Ident); ok && id.Name == "rows" && x.Pos() < insertPos {
					explicitCloseBeforeInsert = true
				}
			}
		}
		return true
	})
	rowsHeld := rowsLoop != nil && deferClose && !explicitCloseBeforeInsert

	// ---- generation guard (the proposed repair): InvalidateCache bumps am.<F> under the write lock,
	// VerifyToken snapshots am.<F> before the query and compares it under the write lock around the insert.
	invf, inv := fg.FindFunc(files, "AuthManager", "InvalidateCache")
	if inv == nil {
		return fmt.Errorf("method (*AuthManager).InvalidateCache not found")
	}
	if len(callsOn(inv, "cacheMu", "Lock")) != 1 || !mentions(inv, invf, "am.cache = make(") {
		return fmt.Errorf("InvalidateCache: expected cacheMu.Lock() and `am.cache = make(…)`")
	}
	bumped := map[string]bool{}
	ast.Inspect(inv, func(n ast.Node) bool {
		switch x := n.(type) {
		case *ast.IncDecStmt:
			if x.Tok == token.INC {
				if f := amField(x.X); f != "" {
					bumped[f] = true
				}
			}
		case *ast.AssignStmt:
			if len(x.Lhs) == 1 && (x.Tok == token.ADD_ASSIGN || x.Tok == token.ASSIGN) {
				if f := amField(x.Lhs[0]); f != "" && f != "cache" {
					bumped[f] = true
				}
			}
		case *ast.CallExpr:
			if s, ok := x.Fun.(*ast.SelectorExpr); ok && s.Sel.Name == "Add" {
				if f := amField(s.X); f != "" {
					bumped[f] = true
				}
			}
		}
		return true
	})
	genGuard := false
	genField := ""
	for f := range bumped {
		// snapshot `L := am.F` (or .Load()) between RLock and the query
		local := ""
		ast.Inspect(vt, func(n ast.Node) bool {
			as, ok := n.(*ast.AssignStmt)
			if !ok || len(as.Lhs) != 1 || len(as.Rhs) != 1 {
				return true
			}
			if amField(as.Rhs[0]) == f && as.Pos() > rlocks[0] && as.Pos() < queryPos {
				if id, ok := as.Lhs[0].(*ast.Ident); ok {
					local = id.Name
				}
			}
			return true
		})
		if local == "" {
			continue
		}
		cmp := func(e ast.Expr, op token.Token) bool {
			b, ok := e.(*ast.BinaryExpr)
			if !ok || b.Op != op {
				return false
			}
			l, lok := b.X.(*ast.Ident)
			r, rok := b.Y.(*ast.Ident)
			return (lok && l.Name == local && amField(b.Y) == f) || (rok && r.Name == local && amField(b.X) == f)
		}
		// form 1: the insert is enclosed by `if L == am.F {` located after the Lock
		for _, n := range insertStack {
			if is, ok := n.(*ast.IfStmt); ok && is.Pos() > locks[0] && cmp(is.Cond, token.EQL) {
				genGuard = true
			}
		}
		// form 2: `if L != am.F { …Unlock…; return … }` between the Lock and the insert
		ast.Inspect(vt, func(n ast.Node) bool {
			is, ok := n.(*ast.IfStmt)
			if !ok || !(is.Pos() > locks[0] && is.Pos() < insertPos) || !cmp(is.Cond, token.NEQ) {
				return true
			}
			hasRet := false
			for _, st := range is.Body.List {
				if _, ok := st.(*ast.ReturnStmt); ok {
					hasRet = true
				}
			}
			if hasRet && mentions(is.Body, vf, "am.cacheMu.Unlock()") {
				genGuard = true
			}
			return true
		})
		if genGuard {
			genField = f
			break
		}
	}

	// ---- cache-hit condition
	var hitIf *ast.IfStmt
	ast.Inspect(vt, func(n ast.Node) bool {
		is, ok := n.(*ast.IfStmt)
		if ok && hitIf == nil && is.Pos() > rlocks[0] && is.Pos() < queryPos && mentions(is.Init, vf, "am.cache[") {
			hitIf = is
		}
		return true
	})
	if hitIf == nil {
		return fmt.Errorf("VerifyToken: cache-hit `if entry, ok := am.cache[key]; …` not found between RLock and db.Query")
	}
	if !mentions(hitIf.Cond, vf, "now.Before(") || !mentions(hitIf.Cond, vf, ".expiresAt") {
		return fmt.Errorf("VerifyToken: cache-hit condition no longer tests now.Before(entry.expiresAt): %s", vf.Text(hitIf.Cond))
	}
	hitChecksExpiry := mentions(hitIf.Cond, vf, ".info.ExpiresAt")

	// ---- does the hit path write the cache? Anything reachable from the hit branch (its own statements
	// and, transitively, the AuthManager methods it calls) that takes cacheMu.Lock(), assigns am.cache /
	// am.cache[...] or deletes from am.cache counts. The branch must still start by releasing the read lock
	// and end by returning the cached info.
	if len(hitIf.Body.List) < 2 || !mentions(hitIf.Body.List[0], vf, "am.cacheMu.RUnlock()") {
		return fmt.Errorf("VerifyToken: the cache-hit branch no longer starts with am.cacheMu.RUnlock()")
	}
	if r, ok := hitIf.Body.List[len(hitIf.Body.List)-1].(*ast.ReturnStmt); !ok || len(r.Results) != 1 || !mentions(r.Results[0], vf, ".info") {
		return fmt.Errorf("VerifyToken: the cache-hit branch no longer ends with `return entry.info`")
	}
	var writesCache func(n ast.Node, f *fg.File, depth int, seen map[string]bool) bool
	writesCache = func(n ast.Node, f *fg.File, depth int, seen map[string]bool) bool {
		found := false
		ast.Inspect(n, func(x ast.Node) bool {
			if found {
				return false
			}
			switch y := x.(type) {
			case *ast.AssignStmt:
				for _, l := range y.Lhs {
					if ix, ok := l.(*ast.IndexExpr); ok && isSel(ix.X, "am", "cache") {
						found = true
					}
					if isSel(l, "am", "cache") {
						found = true
					}
				}
			case *ast.CallExpr:
				if id, ok := y.Fun.(*ast.Ident); ok && id.Name == "delete" && len(y.Args) > 0 && isSel(y.Args[0], "am", "cache") {
					found = true
				}
				if s, ok := y.Fun.(*ast.SelectorExpr); ok {
					if s.Sel.Name == "Lock" && isSel(s.X, "am", "cacheMu") {
						found = true
					}
					if id, ok := s.X.(*ast.Ident); ok && id.Name == "am" && depth < 4 && !seen[s.Sel.Name] {
						seen[s.Sel.Name] = true
						if cf, cd := fg.FindFunc(files, "AuthManager", s.Sel.Name); cd != nil && cd.Body != nil {
							if writesCache(cd.Body, cf, depth+1, seen) {
								found = true
							}
						}
					}
				}
			}
			return true
		})
		return found
	}
	hitWrites := writesCache(hitIf.Body, vf, 0, map[string]bool{})

	// the database path must still check the token's own expiry before the insert
	dbExpiry := false
	ast.Inspect(vt, func(n ast.Node) bool {
		is, ok := n.(*ast.IfStmt)
		if ok && is.Pos() > queryPos && is.Pos() < locks[0] && mentions(is.Cond, vf, "now.After(expiresAt.Time)") {
			for _, st := range is.Body.List {
				if r, ok := st.(*ast.ReturnStmt); ok && len(r.Results) == 1 && vf.Text(r.Results[0]) == "nil" {
					dbExpiry = true
				}
			}
		}
		return true
	})
	if !dbExpiry {
		return fmt.Errorf("VerifyToken: `if expiresAt.Valid && now.After(expiresAt.Time) { return nil }` not found between the query and the insert")
	}

	// ---- mutators
	type mut struct {
		Func        string `json:"func"`
		Cluster     bool   `json:"cluster"`
		Kind        string `json:"kind"`
		Invalidates bool   `json:"invalidates"`
	}
	var muts []mut
	_, iar := fg.FindFunc(files, "AuthManager", "invalidateAndReturn")
	iarInvalidates := iar != nil && len(callsOn(iar, "", "InvalidateCache")) == 1
	for _, d := range []struct {
		fn, kind string
		cluster  bool
	}{
		{"RevokeToken", "revoke", false}, {"DeleteToken", "delete", false}, {"RotateToken", "rotate", false}, {"UpdateToken", "update", false},
		{"ApplyRevokeToken", "revoke", true}, {"ApplyDeleteToken", "delete", true}, {"ApplyRotateToken", "rotate", true}, {"ApplyUpdateToken", "update", true},
	} {
		f, fd := fg.FindFunc(files, "AuthManager", d.fn)
		if fd == nil {
			return fmt.Errorf("method (*AuthManager).%s not found", d.fn)
		}
		execs := callsOn(fd, "db", "Exec")
		if len(execs) != 1 {
			return fmt.Errorf("%s: expected exactly one am.db.Exec call, found %d", d.fn, len(execs))
		}
		inval := false
		// success path = the top-level statements of the function body after the Exec statement
		for _, st := range fd.Body.List {
			if st.Pos() < execs[0] {
				continue
			}
			switch x := st.(type) {
			case *ast.ExprStmt:
				if c, ok := x.X.(*ast.CallExpr); ok && isSel(c.Fun, "am", "InvalidateCache") {
					inval = true
				}
			case *ast.ReturnStmt:
				for _, r := range x.Results {
					if c, ok := r.(*ast.CallExpr); ok && isSel(c.Fun, "am", "invalidateAndReturn") && iarInvalidates {
						inval = true
					}
				}
			}
		}
		if !d.cluster {
			// the direct method must route to the Raft proposer when one is configured
			if !mentions(fd, f, "am.getProposer() != nil") || !mentions(fd, f, "am.proposeCommand(") {
				return fmt.Errorf("%s: cluster-mode proposer branch not found", d.fn)
			}
		}
		muts = append(muts, mut{d.fn, d.cluster, d.kind, inval})
	}

	// ---- ApplyCreateToken under log replay: an identical create (same hash + name) must return without
	// writing (`if existingHash == entry.TokenHash && existingName == entry.Name { return am.invalidateAndReturn(nil) }`
	// inside `case queryErr == nil:`), and the INSERT must be a plain INSERT (no upsert).
	acf, ac := fg.FindFunc(files, "AuthManager", "ApplyCreateToken")
	if ac == nil {
		return fmt.Errorf("method (*AuthManager).ApplyCreateToken not found")
	}
	acExecs := callsOn(ac, "db", "Exec")
	if len(acExecs) != 1 {
		return fmt.Errorf("ApplyCreateToken: expected exactly one am.db.Exec call, found %d", len(acExecs))
	}
	replayReturn := false
	ast.Inspect(ac, func(n ast.Node) bool {
		cc, ok := n.(*ast.CaseClause)
		if !ok || len(cc.List) != 1 || acf.Text(cc.List[0]) != "queryErr == nil" {
			return true
		}
		for _, st := range cc.Body {
			is, ok := st.(*ast.IfStmt)
			if !ok || !mentions(is.Cond, acf, "existingHash == entry.TokenHash") || mentions(is.Cond, acf, "||") {
				continue
			}
			if len(is.Body.List) == 1 {
				if r, ok := is.Body.List[0].(*ast.ReturnStmt); ok && len(r.Results) == 1 && is.Pos() < acExecs[0] {
					replayReturn = true
				}
			}
		}
		return true
	})
	acText := strings.ToUpper(acf.Text(ac))
	createReplayNoop := replayReturn && !strings.Contains(acText, "ON CONFLICT") && !strings.Contains(acText, "OR REPLACE") && !strings.Contains(acText, "UPDATE API_TOKENS")

	b := func(v bool) string {
		if v {
			return "true"
		}
		return "false"
	}
	w := &out.Lean
	fmt.Fprintf(w, "namespace Arc.Generated.C21\n")
	fmt.Fprintf(w, "/-- literal argument of db.SetMaxOpenConns in NewAuthManager (0 = no limit set) -/\n")
	fmt.Fprintf(w, "def maxOpenConns : Nat := %d\n", maxOpen)
	fmt.Fprintf(w, "/-- VerifyToken: deferred rows.Close(), cache insert inside the rows.Next() loop, no earlier rows.Close() -/\n")
	fmt.Fprintf(w, "def rowsHeldAcrossInsert : Bool := %s\n", b(rowsHeld))
	fmt.Fprintf(w, "/-- the cache insert is guarded by a generation counter that InvalidateCache bumps (field %q) -/\n", genField)
	fmt.Fprintf(w, "def genGuard : Bool := %s\n", b(genGuard))
	fmt.Fprintf(w, "/-- the cache-hit condition re-checks entry.info.ExpiresAt -/\n")
	fmt.Fprintf(w, "def hitChecksExpiry : Bool := %s\n", b(hitChecksExpiry))
	fmt.Fprintf(w, "/-- something reachable from the cache-hit branch takes cacheMu.Lock() or writes am.cache -/\n")
	fmt.Fprintf(w, "def hitPathWritesCache : Bool := %s\n", b(hitWrites))
	fmt.Fprintf(w, "/-- ApplyCreateToken: an identical replayed create returns before any write; the INSERT is not an upsert -/\n")
	fmt.Fprintf(w, "def createReplayNoop : Bool := %s\n", b(createReplayNoop))
	fmt.Fprintf(w, "/-- (method, cluster-apply, kind, calls InvalidateCache on the success path after its SQL statement) -/\n")
	fmt.Fprintf(w, "def mutators : List (String × Bool × String × Bool) := [\n")
	for i, m := range muts {
		sep := ","
		if i == len(muts)-1 {
			sep = ""
		}
		fmt.Fprintf(w, "  (%s, %s, %s, %s)%s\n", fg.LeanStr(m.Func), b(m.Cluster), fg.LeanStr(m.Kind), b(m.Invalidates), sep)
	}
	fmt.Fprintf(w, "]\nend Arc.Generated.C21\n")
	out.JSON["max_open_conns"] = maxOpen
	out.JSON["rows_held_across_insert"] = rowsHeld
	out.JSON["gen_guard"] = genGuard
	out.JSON["gen_field"] = genField
	out.JSON["hit_checks_expiry"] = hitChecksExpiry
	out.JSON["hit_path_writes_cache"] = hitWrites
	out.JSON["create_replay_noop"] = createReplayNoop
	out.JSON["mutators"] = muts
	return nil
}
