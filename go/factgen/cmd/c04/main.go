package main

import (
	"fmt"
	"go/ast"
	"go/token"
	"strings"
	"verif/factgen/fg"
)

// C04 ("no request payload can crash the server"): the syntactic facts the Lean model
// (Arc/Model/C04.lean) is parameterised by.  Every fact is the presence/absence of a GUARD in front
// of a Go operation that can panic, or a size limit; a repair of the source flips the fact, the model
// follows and the witness / `_tied` theorems of Arc/Props/C04.lean are re-checked.
//
//   getColumnSignature   which column names the buffer signature skips (empty, `_`-prefixed)
//   getSchema/inferSchema  `name[0]` indexed with or without a length guard; `_` columns skipped
//   mergeBatches         `merged[name].([]T)` single-value (panicking) type assertions in the copy phase
//   applyPermutation     `col[idx]` without a bounds check; sliceColumnsByIndices WITH `idx < colLen`
//   sortTypedColumnBatchByKeys  `valid[idx]` without a bounds check
//   AppendRawWithMeta    the fixed envelope header array `[1 + 2 + 255]byte` sliced by 3+len(db)
//   isValidDatabaseName / isValidMeasurementName   length limits, first-char / charset rules
//   every write/import handler calls isValidDatabaseName before anything is buffered
//   NewServer installs fiber's recover middleware (request-goroutine panics become 500s);
//   flushWorker / periodicFlush / flushRecordsAsync contain no recover()
//   rowsToColumnar appends the row timestamp to columns["time"] and has no guard against a tag or
//   field that is itself called "time"
//   validateImportHeader rejects empty column names; extractMeasurements skips "" measurements
func main() { fg.Main("C04", c04) }

func norm(s string) string { return strings.Join(strings.Fields(s), " ") }

func c04(repo string, out *fg.Out) error {
	const aw = "internal/ingest/arrow_writer.go"
	f, err := fg.ParseFile(repo, aw)
	if err != nil {
		return err
	}
	fn := func(file *fg.File, recv, name string) (*ast.FuncDecl, string, error) {
		fd := file.FuncDecl(recv, name)
		if fd == nil || fd.Body == nil {
			return nil, "", fmt.Errorf("func %s not found in %s", name, file.Path)
		}
		return fd, norm(file.Text(fd.Body)), nil
	}

	// ---- 1. getColumnSignature: the `continue` guard of the range loop
	fdSig, sigBody, err := fn(f, "", "getColumnSignature")
	if err != nil {
		return err
	}
	sigSkipsEmpty, sigSkipsUnderscore := false, false
	nguards := 0
	ast.Inspect(fdSig.Body, func(n ast.Node) bool {
		is, ok := n.(*ast.IfStmt)
		if !ok || len(is.Body.List) != 1 {
			return true
		}
		if bs, ok := is.Body.List[0].(*ast.BranchStmt); !ok || bs.Tok != token.CONTINUE {
			return true
		}
		c := norm(f.Text(is.Cond))
		nguards++
		switch c {
		case "len(name) == 0 || name[0] == '_'":
			sigSkipsEmpty, sigSkipsUnderscore = true, true
		case "len(name) == 0":
			sigSkipsEmpty = true
		case "len(name) > 0 && name[0] == '_'":
			sigSkipsUnderscore = true
		default:
			nguards += 100
		}
		return true
	})
	if nguards > 1 {
		return fmt.Errorf("getColumnSignature: unexpected skip guard(s) in %q", sigBody)
	}
	if !strings.Contains(sigBody, "sort.Slice(entries") || !strings.Contains(sigBody, "sb.WriteByte(':')") {
		return fmt.Errorf("getColumnSignature: no longer sorted name:type entries")
	}

	// ---- 2. getSchema / inferSchema: how the name is inspected
	schemaFact := func(name string) (guardsEmpty, skipsUnderscore bool, err error) {
		fd, body, e := fn(f, "ArrowWriter", name)
		if e != nil {
			return false, false, e
		}
		found := 0
		ast.Inspect(fd.Body, func(n ast.Node) bool {
			is, ok := n.(*ast.IfStmt)
			if !ok || len(is.Body.List) == 0 {
				return true
			}
			if bs, ok := is.Body.List[len(is.Body.List)-1].(*ast.BranchStmt); !ok || bs.Tok != token.CONTINUE {
				return true
			}
			switch norm(f.Text(is.Cond)) {
			case "name[0] == '_'":
				found++
				skipsUnderscore = true
			case "len(name) == 0 || name[0] == '_'", "name == \"\" || name[0] == '_'":
				found++
				guardsEmpty, skipsUnderscore = true, true
			case "len(name) > 0 && name[0] == '_'", "strings.HasPrefix(name, \"_\")":
				found++
				guardsEmpty, skipsUnderscore = true, true
			case "len(name) == 0", "name == \"\"":
				found++
				guardsEmpty = true
			}
			return true
		})
		if found == 0 && strings.Contains(body, "name[0]") {
			return false, false, fmt.Errorf("%s: name[0] used in an unrecognised shape", name)
		}
		if found == 0 {
			guardsEmpty = true // no indexing at all: nothing to guard
		}
		return
	}
	gsGuard, gsSkip, err := schemaFact("getSchema")
	if err != nil {
		return err
	}
	isGuard, isSkip, err := schemaFact("inferSchema")
	if err != nil {
		return err
	}
	if gsSkip != isSkip {
		return fmt.Errorf("getSchema and inferSchema disagree on skipping `_` columns")
	}
	// WriteParquetColumnar must call getSchema first
	_, wpBody, err := fn(f, "ArrowWriter", "WriteParquetColumnar")
	if err != nil {
		return err
	}
	if !strings.Contains(wpBody, "w.getSchema(measurement, columns") || !strings.Contains(wpBody, "builder.AppendValues(") || !strings.Contains(wpBody, "w.writeRecordToParquet(schema, arrays)") {
		return fmt.Errorf("WriteParquetColumnar: expected getSchema → AppendValues builders → writeRecordToParquet")
	}
	_, wrBody, err := fn(f, "ArrowWriter", "writeRecordToParquet")
	if err != nil {
		return err
	}
	if !strings.Contains(wrBody, "array.NewRecord(schema, arrays, -1)") {
		return fmt.Errorf("writeRecordToParquet: expected array.NewRecord(schema, arrays, -1)")
	}

	// ---- 3. mergeBatches: single-value type assertions on merged[name] inside copy(...)
	fdM, mBody, err := fn(f, "ArrowBuffer", "mergeBatches")
	if err != nil {
		return err
	}
	unchecked := 0
	for _, c := range fg.CallsNamed(fdM.Body, "copy") {
		if len(c.Args) != 2 {
			continue
		}
		ast.Inspect(c.Args[0], func(n ast.Node) bool {
			if ta, ok := n.(*ast.TypeAssertExpr); ok && ta.Type != nil && strings.HasPrefix(norm(f.Text(ta.X)), "merged[") {
				unchecked++
			}
			return true
		})
	}
	if unchecked == 0 && !strings.Contains(mBody, "merged[name]") {
		return fmt.Errorf("mergeBatches: copy phase not recognised")
	}
	if !strings.Contains(mBody, "if len(batches) == 1") || !strings.Contains(mBody, "if _, seen := colTypes[name]; !seen") {
		return fmt.Errorf("mergeBatches: expected the single-batch shortcut and first-seen column typing")
	}
	mergeRecovers := strings.Contains(mBody, "recover()")

	// ---- 4. permutation / slicing helpers
	_, apBody, err := fn(f, "", "applyPermutation")
	if err != nil {
		return err
	}
	if !strings.Contains(apBody, "result[i] = col[idx]") {
		return fmt.Errorf("applyPermutation: expected result[i] = col[idx]")
	}
	permChecked := strings.Contains(apBody, "idx <") || strings.Contains(apBody, "< len(col)")
	_, slBody, err := fn(f, "", "sliceColumnsByIndices")
	if err != nil {
		return err
	}
	sliceChecked := strings.Contains(slBody, "if idx < colLen")
	_, stBody, err := fn(f, "", "sortTypedColumnBatchByKeys")
	if err != nil {
		return err
	}
	if !strings.Contains(stBody, "newValid[i] = valid[idx]") {
		return fmt.Errorf("sortTypedColumnBatchByKeys: expected newValid[i] = valid[idx]")
	}
	validPermChecked := strings.Contains(stBody, "idx <")

	// ---- 5. rowsToColumnar: timestamp appended to columns["time"]; no guard for a tag/field named time
	_, rcBody, err := fn(f, "ArrowBuffer", "rowsToColumnar")
	if err != nil {
		return err
	}
	if !strings.Contains(rcBody, `columns["time"] = append(columns["time"], timestamp)`) || !strings.Contains(rcBody, `columns[field+"_value"]`) {
		return fmt.Errorf("rowsToColumnar: shape changed")
	}
	rowTimeGuard := strings.Contains(rcBody, `== "time"`) || strings.Contains(rcBody, `!= "time"`)

	// ---- 6. flush goroutines: no recover()
	flushRecover := false
	for _, nm := range []string{"flushWorker", "periodicFlush", "flushRecordsAsync", "flushAgedBuffers"} {
		_, b, e := fn(f, "ArrowBuffer", nm)
		if e != nil {
			return e
		}
		if strings.Contains(b, "recover()") {
			flushRecover = true
		}
	}
	// Write(): returns inside the record loop (records before the failing one stay buffered)
	_, wBody, err := fn(f, "ArrowBuffer", "Write")
	if err != nil {
		return err
	}
	if !strings.Contains(wBody, "for _, record := range recordList") || !strings.Contains(wBody, "return err") {
		return fmt.Errorf("ArrowBuffer.Write: expected a record loop that returns the first error")
	}
	writeAtomic := strings.Contains(wBody, "rollback") || strings.Contains(wBody, "validateAll")

	// both columnar write paths refuse a batch that has a column with the empty name
	writeRejectsEmpty := true
	for _, nm := range []string{"writeColumnarInternal", "writeTypedColumnarRaw"} {
		_, b, e := fn(f, "ArrowBuffer", nm)
		if e != nil {
			return e
		}
		i := strings.Index(b, `typedColumns.Data[""]`)
		j := strings.Index(b, "shard.mu.Lock()")
		if i < 0 || j < 0 || i > j {
			writeRejectsEmpty = false
		}
	}

	// convertColumnsToTyped refuses columns of unequal length (the chokepoint every generic write passes)
	_, ccBody, err := fn(f, "ArrowBuffer", "convertColumnsToTyped")
	if err != nil {
		return err
	}
	convChecksLen := strings.Contains(ccBody, "} else if len(col) != numRecords { return nil, 0, fmt.Errorf(")
	// decodeRow rejects a tag or a field called "time"
	mdf, err := fg.ParseFile(repo, "internal/ingest/msgpack.go")
	if err != nil {
		return err
	}
	_, drBody, err := fn(mdf, "MessagePackDecoder", "decodeRow")
	if err != nil {
		return err
	}
	rowRejectsTime := strings.Contains(drBody, `if _, ok := tags["time"]; ok { return nil, fmt.Errorf(`) &&
		strings.Contains(drBody, `if _, ok := fields["time"]; ok { return nil, fmt.Errorf(`)

	// ---- 7. WAL envelope
	wf, err := fg.ParseFile(repo, "internal/wal/wal.go")
	if err != nil {
		return err
	}
	fdE, eBody, err := fn(wf, "Writer", "AppendRawWithMeta")
	if err != nil {
		return err
	}
	envCap := int64(-1)
	ast.Inspect(fdE.Body, func(n ast.Node) bool {
		vs, ok := n.(*ast.ValueSpec)
		if !ok || len(vs.Names) != 1 || vs.Names[0].Name != "envHeader" {
			return true
		}
		if at, ok := vs.Type.(*ast.ArrayType); ok && at.Len != nil {
			if v, e := fg.NewConstEnv([]*fg.File{wf}).EvalInt(at.Len); e == nil {
				envCap = v
			}
		}
		return true
	})
	if envCap < 3 || !strings.Contains(eBody, "envelopeHeaderLen := 1 + 2 + len(dbBytes)") || !strings.Contains(eBody, "envHeader[:envelopeHeaderLen]") {
		return fmt.Errorf("AppendRawWithMeta: envelope header shape changed")
	}
	envGuard := strings.Contains(eBody, "len(dbBytes) > 255") || strings.Contains(eBody, "len(database) > 255") || strings.Contains(eBody, "len(dbBytes) > math.MaxUint8")

	// ---- 8. name validators
	df, err := fg.ParseFile(repo, "internal/api/databases.go")
	if err != nil {
		return err
	}
	_, dbBody, err := fn(df, "", "isValidDatabaseName")
	if err != nil {
		return err
	}
	wantDB := norm(`{ n := len(name)
		if n == 0 || n > 64 { return false }
		c := name[0]
		if !((c >= 'a' && c <= 'z') || (c >= 'A' && c <= 'Z')) { return false }
		for i := 1; i < n; i++ { c = name[i]
			if !((c >= 'a' && c <= 'z') || (c >= 'A' && c <= 'Z') || (c >= '0' && c <= '9') || c == '_' || c == '-') { return false } }
		return true }`)
	// comments are not printed inside expressions by go/printer for this body; strip `// …` defensively
	stripComments := func(s string) string {
		var b []string
		for _, l := range strings.Split(s, "\n") {
			if i := strings.Index(l, "//"); i >= 0 {
				l = l[:i]
			}
			b = append(b, l)
		}
		return norm(strings.Join(b, "\n"))
	}
	fdDB := df.FuncDecl("", "isValidDatabaseName")
	if got := stripComments(df.Text(fdDB.Body)); got != wantDB {
		_ = dbBody
		return fmt.Errorf("isValidDatabaseName body changed: %q", got)
	}
	lf, err := fg.ParseFile(repo, "internal/api/lineprotocol.go")
	if err != nil {
		return err
	}
	fdMN := lf.FuncDecl("", "isValidMeasurementName")
	if fdMN == nil {
		return fmt.Errorf("isValidMeasurementName not found")
	}
	if got := stripComments(lf.Text(fdMN.Body)); got != norm(`{ if len(name) == 0 || len(name) > 128 { return false }
		return validMeasurementName.MatchString(name) }`) {
		return fmt.Errorf("isValidMeasurementName body changed: %q", got)
	}
	env := fg.NewConstEnv([]*fg.File{lf})
	re, ok := env.Exprs["validMeasurementName"]
	if !ok || norm(lf.Text(re)) != "regexp.MustCompile(`^[a-zA-Z][a-zA-Z0-9_-]*$`)" {
		return fmt.Errorf("validMeasurementName regexp changed")
	}

	// ---- 9. every write/import handler validates the database name
	type site struct{ file, recv, fn string }
	sites := []site{
		{"internal/api/msgpack.go", "MsgPackHandler", "writeMsgPack"},
		{"internal/api/lineprotocol.go", "LineProtocolHandler", "handleWrite"},
		{"internal/api/tle.go", "TLEHandler", "handleWrite"},
		{"internal/api/import.go", "ImportHandler", "handleLineProtocolImport"},
		{"internal/api/import.go", "ImportHandler", "handleTLEImport"},
		{"internal/api/import_inprocess.go", "ImportHandler", "importPreamble"},
	}
	var siteNames []string
	for _, s := range sites {
		hf, e := fg.ParseFile(repo, s.file)
		if e != nil {
			return e
		}
		_, b, e := fn(hf, s.recv, s.fn)
		if e != nil {
			return e
		}
		iv := strings.Index(b, "isValidDatabaseName(database)")
		if iv < 0 {
			return fmt.Errorf("%s.%s no longer calls isValidDatabaseName(database)", s.recv, s.fn)
		}
		for _, w := range []string{"arrowBuffer.Write(", "buffer.WriteColumnarRecord(", "WriteTypedColumnarDirect("} {
			if i := strings.Index(b, w); i >= 0 && i < iv {
				return fmt.Errorf("%s.%s buffers before validating the database name", s.recv, s.fn)
			}
		}
		siteNames = append(siteNames, s.recv+"."+s.fn)
	}
	// name validation is a pass of its own that is complete before the first record is handed to the buffer:
	// every validator call precedes every write call, and no loop contains both a validator and a write
	isWrite := func(c *ast.CallExpr) bool {
		switch fg.CalleeName(c) {
		case "WriteColumnarRecord", "WriteTypedColumnarDirect", "WriteColumnarDirect", "importCSV", "importParquet":
			return true
		case "Write":
			if se, ok := c.Fun.(*ast.SelectorExpr); ok {
				if inner, ok := se.X.(*ast.SelectorExpr); ok && inner.Sel.Name == "arrowBuffer" {
					return true
				}
			}
		}
		return false
	}
	isValidator := func(c *ast.CallExpr) bool {
		n := fg.CalleeName(c)
		return n == "isValidMeasurementName" || n == "isValidDatabaseName" || n == "importPreamble"
	}
	validationFirst := true
	var vfSites []string
	for _, s := range []site{
		{"internal/api/msgpack.go", "MsgPackHandler", "writeMsgPack"},
		{"internal/api/lineprotocol.go", "LineProtocolHandler", "handleWrite"},
		{"internal/api/tle.go", "TLEHandler", "handleWrite"},
		{"internal/api/import.go", "ImportHandler", "handleLineProtocolImport"},
		{"internal/api/import.go", "ImportHandler", "handleTLEImport"},
		{"internal/api/import_inprocess.go", "ImportHandler", "handleCSVImport"},
		{"internal/api/import_inprocess.go", "ImportHandler", "handleParquetImport"},
	} {
		hf, e := fg.ParseFile(repo, s.file)
		if e != nil {
			return e
		}
		fd := hf.FuncDecl(s.recv, s.fn)
		if fd == nil || fd.Body == nil {
			return fmt.Errorf("%s.%s not found", s.recv, s.fn)
		}
		var lastVal, firstWrite token.Pos = token.NoPos, token.NoPos
		nVal, nWrite := 0, 0
		ast.Inspect(fd.Body, func(n ast.Node) bool {
			if c, ok := n.(*ast.CallExpr); ok {
				if isValidator(c) {
					nVal++
					if c.Pos() > lastVal {
						lastVal = c.Pos()
					}
				}
				if isWrite(c) {
					nWrite++
					if firstWrite == token.NoPos || c.Pos() < firstWrite {
						firstWrite = c.Pos()
					}
				}
			}
			return true
		})
		if nVal == 0 || nWrite == 0 {
			return fmt.Errorf("%s.%s: expected name validators and a buffer write (found %d / %d)", s.recv, s.fn, nVal, nWrite)
		}
		ok := lastVal < firstWrite
		ast.Inspect(fd.Body, func(n ast.Node) bool {
			var body *ast.BlockStmt
			switch l := n.(type) {
			case *ast.RangeStmt:
				body = l.Body
			case *ast.ForStmt:
				body = l.Body
			}
			if body == nil {
				return true
			}
			hasV, hasW := false, false
			ast.Inspect(body, func(m ast.Node) bool {
				if c, ok := m.(*ast.CallExpr); ok {
					hasV = hasV || isValidator(c)
					hasW = hasW || isWrite(c)
				}
				return true
			})
			if hasV && hasW {
				ok = false
			}
			return true
		})
		if ok {
			vfSites = append(vfSites, s.recv+"."+s.fn)
		} else {
			validationFirst = false
		}
	}

	// the column names an import STORES are exactly the names validateImportHeader CHECKED: after the call no
	// statement assigns to `header`, `header[i]` or the loop variable `name` (no TrimSpace/ToLower/... in between)
	namesAsValidated := true
	for _, fnm := range []string{"importCSV", "importParquet"} {
		hf, e := fg.ParseFile(repo, "internal/api/import_inprocess.go")
		if e != nil {
			return e
		}
		fd := hf.FuncDecl("ImportHandler", fnm)
		if fd == nil || fd.Body == nil {
			return fmt.Errorf("%s not found", fnm)
		}
		var vpos token.Pos
		for _, c := range fg.CallsNamed(fd.Body, "validateImportHeader") {
			vpos = c.Pos()
		}
		if vpos == token.NoPos {
			return fmt.Errorf("%s no longer calls validateImportHeader", fnm)
		}
		stores := false
		ast.Inspect(fd.Body, func(n ast.Node) bool {
			as, ok := n.(*ast.AssignStmt)
			if !ok || as.Pos() < vpos {
				return true
			}
			for _, l := range as.Lhs {
				switch x := l.(type) {
				case *ast.Ident:
					if (x.Name == "name" || x.Name == "header") && as.Tok == token.ASSIGN {
						namesAsValidated = false
					}
				case *ast.IndexExpr:
					if id, ok := x.X.(*ast.Ident); ok {
						if id.Name == "header" {
							namesAsValidated = false
						}
						if id.Name == "cols" {
							if k, ok := x.Index.(*ast.Ident); ok && k.Name == "name" {
								stores = true
							} else if bl, ok := x.Index.(*ast.BasicLit); !ok || bl.Value != `"time"` {
								namesAsValidated = false // cols[<some expression of the name>]
							}
						}
					}
				}
			}
			return true
		})
		if !stores {
			return fmt.Errorf("%s: expected `cols[name] = …` after validateImportHeader", fnm)
		}
	}

	// import handlers flush synchronously on the request goroutine
	for _, s := range []site{{"internal/api/import_inprocess.go", "ImportHandler", "importCSV"}, {"internal/api/import_inprocess.go", "ImportHandler", "importParquet"},
		{"internal/api/import.go", "ImportHandler", "handleLineProtocolImport"}, {"internal/api/import.go", "ImportHandler", "handleTLEImport"}} {
		hf, _ := fg.ParseFile(repo, s.file)
		_, b, e := fn(hf, s.recv, s.fn)
		if e != nil {
			return e
		}
		if !strings.Contains(b, "arrowBuffer.FlushAll(") {
			return fmt.Errorf("%s no longer calls FlushAll", s.fn)
		}
	}
	// validateImportHeader / extractMeasurements
	ipf, _ := fg.ParseFile(repo, "internal/api/import_inprocess.go")
	_, vhBody, err := fn(ipf, "", "validateImportHeader")
	if err != nil {
		return err
	}
	importRejectsEmpty := strings.Contains(vhBody, `if name == ""`)
	// `_`-prefixed header names are rejected too (after the empty check, so name[0] is safe)
	iu, ie := strings.Index(vhBody, `if name[0] == '_' { return -1, &importError{`), strings.Index(vhBody, `if name == ""`)
	importRejectsUnderscore := iu >= 0 && ie >= 0 && ie < iu
	if strings.Contains(vhBody, "name[0]") && !importRejectsUnderscore {
		return fmt.Errorf("validateImportHeader: name[0] used in an unrecognised shape")
	}
	mpf, _ := fg.ParseFile(repo, "internal/api/msgpack.go")
	_, emBody, err := fn(mpf, "MsgPackHandler", "extractMeasurements")
	if err != nil {
		return err
	}
	emSkipsEmpty := strings.Contains(emBody, `if r.Measurement != ""`)

	// ---- 10. recover middleware
	sf, err := fg.ParseFile(repo, "internal/api/server.go")
	if err != nil {
		return err
	}
	_, nsBody, err := fn(sf, "", "NewServer")
	if err != nil {
		return err
	}
	handlerRecover := strings.Contains(nsBody, "app.Use(recover.New(")

	b := func(v bool) string {
		if v {
			return "true"
		}
		return "false"
	}
	w := &out.Lean
	fmt.Fprintf(w, "namespace Arc.Generated.C04\n")
	fmt.Fprintf(w, "/-- getColumnSignature skips columns with an empty name -/\ndef sigSkipsEmpty : Bool := %s\n", b(sigSkipsEmpty))
	fmt.Fprintf(w, "/-- getColumnSignature skips `_`-prefixed columns -/\ndef sigSkipsUnderscore : Bool := %s\n", b(sigSkipsUnderscore))
	fmt.Fprintf(w, "/-- getSchema AND inferSchema test the length of `name` before indexing `name[0]` -/\ndef schemaGuardsEmpty : Bool := %s\n", b(gsGuard && isGuard))
	fmt.Fprintf(w, "/-- getSchema / inferSchema leave `_`-prefixed columns out of the Parquet schema -/\ndef schemaSkipsUnderscore : Bool := %s\n", b(gsSkip))
	fmt.Fprintf(w, "/-- number of single-value (panicking) type assertions `merged[name].([]T)` in mergeBatches' copy phase -/\ndef mergeUncheckedAsserts : Nat := %d\n", unchecked)
	fmt.Fprintf(w, "def mergeRecovers : Bool := %s\n", b(mergeRecovers))
	fmt.Fprintf(w, "/-- writeColumnarInternal AND writeTypedColumnarRaw return an error for a batch with a column named \"\" (before the buffer is touched) -/\ndef writeRejectsEmptyName : Bool := %s\n", b(writeRejectsEmpty))
	fmt.Fprintf(w, "/-- applyPermutation bounds-checks `col[idx]` -/\ndef permBoundsChecked : Bool := %s\n", b(permChecked))
	fmt.Fprintf(w, "/-- sortTypedColumnBatchByKeys bounds-checks `valid[idx]` -/\ndef validPermBoundsChecked : Bool := %s\n", b(validPermChecked))
	fmt.Fprintf(w, "/-- sliceColumnsByIndices bounds-checks (`if idx < colLen`) -/\ndef sliceBoundsChecked : Bool := %s\n", b(sliceChecked))
	fmt.Fprintf(w, "/-- convertColumnsToTyped returns an error when two non-empty columns differ in length -/\ndef convertChecksLengths : Bool := %s\n", b(convChecksLen))
	fmt.Fprintf(w, "/-- MessagePackDecoder.decodeRow rejects a tag or field called \"time\" -/\ndef decodeRowRejectsTime : Bool := %s\n", b(rowRejectsTime))
	fmt.Fprintf(w, "/-- rowsToColumnar guards against a tag/field called \"time\" -/\ndef rowTimeGuard : Bool := %s\n", b(rowTimeGuard))
	fmt.Fprintf(w, "/-- some flush goroutine (flushWorker, periodicFlush, flushRecordsAsync, flushAgedBuffers) recovers -/\ndef flushGoroutinesRecover : Bool := %s\n", b(flushRecover))
	fmt.Fprintf(w, "/-- ArrowBuffer.Write validates every record before buffering the first -/\ndef writeAtomic : Bool := %s\n", b(writeAtomic))
	fmt.Fprintf(w, "/-- capacity of AppendRawWithMeta's `envHeader` array -/\ndef envHeaderCap : Nat := %d\n", envCap)
	fmt.Fprintf(w, "/-- AppendRawWithMeta checks the database-name length itself -/\ndef envGuardsDbLen : Bool := %s\n", b(envGuard))
	fmt.Fprintf(w, "def dbNameMaxLen : Nat := 64\n")
	fmt.Fprintf(w, "def measNameMaxLen : Nat := 128\n")
	fmt.Fprintf(w, "/-- handlers that call isValidDatabaseName before buffering -/\ndef dbValidatedAt : List String := [%s]\n", leanStrs(siteNames))
	fmt.Fprintf(w, "/-- in every write/import handler all name validation is complete before the first record is handed to the buffer (no loop validates and writes) -/\ndef namesValidatedBeforeAnyWrite : Bool := %s\n", b(validationFirst))
	fmt.Fprintf(w, "def validationFirstAt : List String := [%s]\n", leanStrs(vfSites))
	fmt.Fprintf(w, "/-- importCSV / importParquet store every column under exactly the header name validateImportHeader checked (no assignment to header / header[i] / name after the call) -/\ndef importNamesStoredAsValidated : Bool := %s\n", b(namesAsValidated))
	fmt.Fprintf(w, "/-- validateImportHeader rejects header names that start with '_' (they would be left out of the Parquet schema) -/\ndef importRejectsUnderscoreName : Bool := %s\n", b(importRejectsUnderscore))
	fmt.Fprintf(w, "def importRejectsEmptyName : Bool := %s\n", b(importRejectsEmpty))
	fmt.Fprintf(w, "def extractMeasurementsSkipsEmpty : Bool := %s\n", b(emSkipsEmpty))
	fmt.Fprintf(w, "/-- NewServer installs fiber's recover middleware -/\ndef handlerPanicsRecovered : Bool := %s\n", b(handlerRecover))
	fmt.Fprintf(w, "end Arc.Generated.C04\n")
	out.JSON["sig_skips_empty"] = sigSkipsEmpty
	out.JSON["sig_skips_underscore"] = sigSkipsUnderscore
	out.JSON["schema_guards_empty"] = gsGuard && isGuard
	out.JSON["schema_skips_underscore"] = gsSkip
	out.JSON["merge_unchecked_asserts"] = unchecked
	out.JSON["write_rejects_empty_name"] = writeRejectsEmpty
	out.JSON["perm_bounds_checked"] = permChecked
	out.JSON["row_time_guard"] = rowTimeGuard
	out.JSON["convert_checks_lengths"] = convChecksLen
	out.JSON["decode_row_rejects_time"] = rowRejectsTime
	out.JSON["flush_goroutines_recover"] = flushRecover
	out.JSON["env_header_cap"] = envCap
	out.JSON["handler_panics_recovered"] = handlerRecover
	out.JSON["write_atomic"] = writeAtomic
	out.JSON["import_rejects_underscore_name"] = importRejectsUnderscore
	out.JSON["import_names_stored_as_validated"] = namesAsValidated
	out.JSON["names_validated_before_any_write"] = validationFirst
	return nil
}

func leanStrs(xs []string) string {
	q := make([]string, len(xs))
	for i, x := range xs {
		q[i] = fg.LeanStr(x)
	}
	return strings.Join(q, ", ")
}
