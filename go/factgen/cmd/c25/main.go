package main

import (
	"fmt"
	"go/ast"
	"regexp"
	"strings"
	"verif/factgen/fg"
)

// C25: the four code facts the Lean model is parameterised by, plus the fixed shapes the model
// hard-codes (resume only on attempt > 1, ReadToAt fallback, staging/rename order, cleanup calls,
// digest comparison last in Fetch).
//
//	statPartFallback    LocalBackend.StatFile stats partPath(fullPath) when the final file is absent
//	deleteRemovesPart   LocalBackend.Delete removes partPath(fullPath) before touching the final path
//	presenceNeedsFinal  processEntry's "already present" shortcut also requires the final file (Exists)
//	promoteAfterVerdict WriteReader copies the caller's un-limited reader and renames only after it returned nil
func main() { fg.Main("C25", c25) }

var ws = regexp.MustCompile(`\s+`)

func norm(s string) string { return strings.TrimSpace(ws.ReplaceAllString(s, " ")) }

func c25(repo string, out *fg.Out) error {
	loc, err := fg.ParseFile(repo, "internal/storage/local.go")
	if err != nil {
		return err
	}
	pul, err := fg.ParseFile(repo, "internal/cluster/filereplication/puller.go")
	if err != nil {
		return err
	}
	fc, err := fg.ParseFile(repo, "internal/cluster/filereplication/fetch_client.go")
	if err != nil {
		return err
	}
	need := func(f *fg.File, recv, name string) (*ast.FuncDecl, error) {
		fd := f.FuncDecl(recv, name)
		if fd == nil || fd.Body == nil {
			return nil, fmt.Errorf("%s: func (%s) %s not found", f.Path, recv, name)
		}
		return fd, nil
	}
	// calls `pkgfn(args)` under n whose printed form equals want
	hasCall := func(f *fg.File, n ast.Node, want string) int {
		k := 0
		ast.Inspect(n, func(m ast.Node) bool {
			if c, ok := m.(*ast.CallExpr); ok && norm(f.Text(c)) == want {
				k++
			}
			return true
		})
		return k
	}
	contains := func(f *fg.File, n ast.Node, sub string) bool {
		return strings.Contains(norm(f.Text(n)), sub)
	}

	// ---- partPath
	pp, err := need(loc, "", "partPath")
	if err != nil {
		return err
	}
	if !contains(loc, pp.Body, `return fullPath + ".part"`) {
		return fmt.Errorf("partPath no longer returns fullPath + \".part\"")
	}

	// ---- StatFile
	sf, err := need(loc, "LocalBackend", "StatFile")
	if err != nil {
		return err
	}
	if hasCall(loc, sf.Body, "os.Stat(fullPath)") != 1 {
		return fmt.Errorf("StatFile: expected exactly one os.Stat(fullPath)")
	}
	nPartStat := hasCall(loc, sf.Body, "os.Stat(partPath(fullPath))")
	if nPartStat > 1 || len(fg.CallsNamed(sf.Body, "Stat")) != 1+nPartStat {
		return fmt.Errorf("StatFile: unexpected os.Stat calls (want os.Stat(fullPath) and optionally os.Stat(partPath(fullPath)))")
	}
	statPartFallback := nPartStat == 1
	if statPartFallback {
		// the final-file result must win: the first statement using os.Stat must be the fullPath one
		txt := norm(loc.Text(sf.Body))
		if strings.Index(txt, "os.Stat(fullPath)") > strings.Index(txt, "os.Stat(partPath(fullPath))") {
			return fmt.Errorf("StatFile: staging file is consulted before the final file")
		}
	}

	// ---- Exists: final path only
	ex, err := need(loc, "LocalBackend", "Exists")
	if err != nil {
		return err
	}
	if hasCall(loc, ex.Body, "os.Stat(fullPath)") != 1 || contains(loc, ex.Body, "partPath") {
		return fmt.Errorf("Exists: expected a single os.Stat(fullPath) and no staging-file lookup")
	}

	// ---- ReadToAt: final, else .part (hard-coded in the model)
	ra, err := need(loc, "LocalBackend", "ReadToAt")
	if err != nil {
		return err
	}
	if hasCall(loc, ra.Body, "os.Open(fullPath)") != 1 || hasCall(loc, ra.Body, "os.Open(partPath(fullPath))") != 1 ||
		!contains(loc, ra.Body, "if os.IsNotExist(err) { file, err = os.Open(partPath(fullPath)) }") {
		return fmt.Errorf("ReadToAt: expected os.Open(fullPath) with an IsNotExist fallback to os.Open(partPath(fullPath))")
	}

	// ---- Delete
	del, err := need(loc, "LocalBackend", "Delete")
	if err != nil {
		return err
	}
	idxFinal, idxPart := -1, -1
	for i, st := range del.Body.List {
		if hasCall(loc, st, "os.Remove(fullPath)") > 0 && idxFinal < 0 {
			idxFinal = i
		}
		if hasCall(loc, st, "os.Remove(partPath(fullPath))") > 0 && idxPart < 0 {
			idxPart = i
		}
	}
	if idxFinal < 0 {
		return fmt.Errorf("Delete: os.Remove(fullPath) not found at statement level")
	}
	nPartRm := hasCall(loc, del.Body, "os.Remove(partPath(fullPath))")
	deleteRemovesPart := false
	switch {
	case nPartRm == 0 && !contains(loc, del.Body, "partPath"):
		deleteRemovesPart = false
	case nPartRm == 1 && idxPart >= 0 && idxPart < idxFinal:
		// removal of the staging file is a top-level statement that runs before the final-path
		// removal (whose IsNotExist branch returns early)
		deleteRemovesPart = true
	default:
		return fmt.Errorf("Delete: staging-file handling has an unrecognised shape (os.Remove(partPath(fullPath)) must be a top-level statement before the os.Remove(fullPath) statement)")
	}

	// ---- WriteReader / AppendReader (fixed shapes)
	wr, err := need(loc, "LocalBackend", "WriteReader")
	if err != nil {
		return err
	}
	wtxt := norm(loc.Text(wr.Body))
	for _, s := range []string{
		"stagingPath := partPath(fullPath)",
		"os.OpenFile(stagingPath, os.O_WRONLY|os.O_CREATE|os.O_TRUNC, 0600)",
		"written, copyErr := io.Copy(stagingFile, ",
		"os.Rename(stagingPath, fullPath)",
	} {
		if !strings.Contains(wtxt, s) {
			return fmt.Errorf("WriteReader: missing %q", s)
		}
	}
	// promoteAfterVerdict: the copy drains the CALLER's reader itself (so it ends only with the
	// EOF/err the puller's pipe delivers after Fetch returned), not a size-bounded or otherwise
	// wrapped view of it, and `reader` is not re-bound before the copy.
	promoteAfterVerdict := false
	{
		copies := fg.CallsNamed(wr.Body, "Copy")
		if len(copies) != 1 || len(copies[0].Args) != 2 {
			return fmt.Errorf("WriteReader: expected exactly one io.Copy(stagingFile, …)")
		}
		src := norm(loc.Text(copies[0].Args[1]))
		rebound := false
		ast.Inspect(wr.Body, func(n ast.Node) bool {
			if as, ok := n.(*ast.AssignStmt); ok {
				for _, l := range as.Lhs {
					if id, ok := l.(*ast.Ident); ok && id.Name == "reader" {
						rebound = true
					}
				}
			}
			return true
		})
		hasParam := false
		for _, fl := range wr.Type.Params.List {
			for _, nm := range fl.Names {
				if nm.Name == "reader" && norm(loc.Text(fl.Type)) == "io.Reader" {
					hasParam = true
				}
			}
		}
		if !hasParam {
			return fmt.Errorf("WriteReader: parameter `reader io.Reader` not found")
		}
		promoteAfterVerdict = src == "reader" && !rebound
		out.JSON["write_reader_copy_source"] = src
	}
	iCopyRet := strings.Index(wtxt, `if copyErr != nil {`)
	iRename := strings.Index(wtxt, "os.Rename(stagingPath, fullPath)")
	if iCopyRet < 0 || iCopyRet > iRename || strings.Count(wtxt, "os.Rename(") != 1 {
		return fmt.Errorf("WriteReader: copy-error return must precede the single rename")
	}
	ar, err := need(loc, "LocalBackend", "AppendReader")
	if err != nil {
		return err
	}
	atxt := norm(loc.Text(ar.Body))
	for _, s := range []string{
		"stagingPath := partPath(fullPath)",
		"os.OpenFile(stagingPath, os.O_WRONLY|os.O_APPEND, 0600)",
		"written, err := io.Copy(file, reader)",
		"if written == appendSize {",
		"os.Rename(stagingPath, fullPath)",
	} {
		if !strings.Contains(atxt, s) {
			return fmt.Errorf("AppendReader: missing %q", s)
		}
	}
	if strings.Index(atxt, "if written == appendSize {") > strings.Index(atxt, "os.Rename(stagingPath, fullPath)") ||
		strings.Count(atxt, "os.Rename(") != 1 {
		return fmt.Errorf("AppendReader: the single rename must be guarded by written == appendSize")
	}

	// ---- processEntry: the skip shortcut
	pe, err := need(pul, "Puller", "processEntry")
	if err != nil {
		return err
	}
	var skipIf *ast.IfStmt
	ast.Inspect(pe.Body, func(n ast.Node) bool {
		if is, ok := n.(*ast.IfStmt); ok && contains(pul, is.Body, "p.totalSkippedLocal.Add(1)") && skipIf == nil {
			// innermost: the body itself must directly hold the Add
			for _, st := range is.Body.List {
				if norm(pul.Text(st)) == "p.totalSkippedLocal.Add(1)" {
					skipIf = is
				}
			}
		}
		return true
	})
	if skipIf == nil {
		return fmt.Errorf("processEntry: `if … { p.totalSkippedLocal.Add(1) … }` not found")
	}
	if !contains(pul, pe.Body, "localSize, statErr := p.cfg.Backend.StatFile(statCtx, entry.Path)") {
		return fmt.Errorf("processEntry: pre-pull StatFile call not found")
	}
	cond := norm(pul.Text(skipIf.Cond))
	const baseCond = "statErr == nil && localSize == entry.SizeBytes"
	presenceNeedsFinal := false
	switch {
	case cond == baseCond:
		presenceNeedsFinal = false
	case cond == baseCond+" && p.finalExists(entry.Path)":
		fe, err := need(pul, "Puller", "finalExists")
		if err != nil {
			return err
		}
		if len(fg.CallsNamed(fe.Body, "Exists")) != 1 || !contains(pul, fe.Body, "p.cfg.Backend.Exists(") ||
			!contains(pul, fe.Body, "return err == nil && ok") {
			return fmt.Errorf("finalExists: expected `ok, err := p.cfg.Backend.Exists(…); return err == nil && ok`")
		}
		presenceNeedsFinal = true
	default:
		return fmt.Errorf("processEntry: unrecognised presence condition %q", cond)
	}
	if !contains(pul, skipIf.Body, "succeeded = true") || !contains(pul, skipIf.Body, "return") {
		return fmt.Errorf("processEntry: the skip branch no longer sets succeeded and returns")
	}
	for _, s := range []string{
		"for attempt := 1; attempt <= p.cfg.RetryMaxAttempts; attempt++ {",
		"err := p.pullOnce(log, entry, peerAddr, attempt)",
		"if err == nil { p.totalPulled.Add(1)",
		"if errors.Is(err, ErrChecksumMismatch) { checksumMismatch = true break }",
		"if attempt >= p.cfg.RetryMaxAttempts { p.totalFailed.Add(1) failed = true",
		"if len(peers) == 0 { p.totalPeerLookupFailure.Add(1)",
	} {
		if !contains(pul, pe.Body, s) {
			return fmt.Errorf("processEntry: missing %q", s)
		}
	}

	// ---- pullOnce / tryResumeFromPartial / deleteFile
	po, err := need(pul, "Puller", "pullOnce")
	if err != nil {
		return err
	}
	for _, s := range []string{
		"if attempt > 1 { byteOffset, prefixHasher = p.tryResumeFromPartial(log, entry) }",
		"if errors.Is(fetchErr, ErrChecksumMismatch) { p.totalChecksumMismatch.Add(1) p.deleteFile(log, entry.Path) }",
		"p.totalBadOffsetServer.Add(1) p.deleteFile(log, entry.Path) }",
		"_ = pw.CloseWithError(fetchErr) wg.Wait()",
	} {
		if !contains(pul, po.Body, s) {
			return fmt.Errorf("pullOnce: missing %q", s)
		}
	}
	tr, err := need(pul, "Puller", "tryResumeFromPartial")
	if err != nil {
		return err
	}
	for _, s := range []string{
		"partial, statErr := p.cfg.Backend.StatFile(statCtx, entry.Path)",
		"hashErr := p.cfg.Backend.ReadToAt(hashCtx, entry.Path, h, 0)",
		"return partial, h",
	} {
		if !contains(pul, tr.Body, s) {
			return fmt.Errorf("tryResumeFromPartial: missing %q", s)
		}
	}
	// resume boundary: a local file of length >= SizeBytes must not become a resume point
	resumeFullPart := false
	switch {
	case contains(pul, tr.Body, "if statErr != nil || partial <= 0 || partial >= entry.SizeBytes { return 0, nil }"):
		resumeFullPart = false
	case contains(pul, tr.Body, "if statErr != nil || partial <= 0 || partial > entry.SizeBytes { return 0, nil }"):
		resumeFullPart = true
	default:
		return fmt.Errorf("tryResumeFromPartial: unrecognised resume guard (want `statErr != nil || partial <= 0 || partial >= entry.SizeBytes`)")
	}
	wt, err := need(pul, "Puller", "writeFileTail")
	if err != nil {
		return err
	}
	for _, s := range []string{
		"if byteOffset > 0 {",
		"return ab.AppendReader(ctx, entry.Path, r, tailBytes)",
		"return p.cfg.Backend.WriteReader(ctx, entry.Path, r, entry.SizeBytes)",
	} {
		if !contains(pul, wt.Body, s) {
			return fmt.Errorf("writeFileTail: missing %q", s)
		}
	}
	df, err := need(pul, "Puller", "deleteFile")
	if err != nil {
		return err
	}
	if !contains(pul, df.Body, "p.cfg.Backend.Delete(delCtx, path)") {
		return fmt.Errorf("deleteFile: Backend.Delete call not found")
	}

	// ---- Fetch: the digest comparison is the last gate before `return written, nil`
	ft, err := need(fc, "FetchClient", "Fetch")
	if err != nil {
		return err
	}
	n := len(ft.Body.List)
	if n < 3 || norm(fc.Text(ft.Body.List[n-1])) != "return written, nil" ||
		!strings.HasPrefix(norm(fc.Text(ft.Body.List[n-2])), "if computed != entry.SHA256 { return written, fmt.Errorf(\"%w:") ||
		!contains(fc, ft.Body.List[n-2], "ErrChecksumMismatch") ||
		norm(fc.Text(ft.Body.List[n-3])) != "computed := hex.EncodeToString(hasher.Sum(nil))" {
		return fmt.Errorf("Fetch: expected `computed := …; if computed != entry.SHA256 { return …ErrChecksumMismatch }; return written, nil` at the end")
	}
	for _, s := range []string{
		"if ack.SizeBytes != expectedTail {",
		"if ack.SHA256 != entry.SHA256 {",
		"mw := io.MultiWriter(dst, hasher)",
		"written, err := io.CopyN(mw, conn, ack.SizeBytes)",
		"if ack.Code == protocol.AckCodeBadOffset { return 0, fmt.Errorf(\"%w: %s\", ErrBadOffset, ack.Error) }",
	} {
		if !contains(fc, ft.Body, s) {
			return fmt.Errorf("Fetch: missing %q", s)
		}
	}

	b := func(v bool) string {
		if v {
			return "true"
		}
		return "false"
	}
	w := &out.Lean
	fmt.Fprintf(w, "import Arc.Model.C25\n")
	fmt.Fprintf(w, "namespace Arc.Generated.C25\n")
	fmt.Fprintf(w, "/-- read off LocalBackend.StatFile / LocalBackend.Delete / Puller.processEntry of the current source -/\n")
	fmt.Fprintf(w, "def facts : Arc.C25.Facts :=\n  { statPartFallback := %s, deleteRemovesPart := %s, presenceNeedsFinal := %s,\n    promoteAfterVerdict := %s, resumeFullPart := %s }\n",
		b(statPartFallback), b(deleteRemovesPart), b(presenceNeedsFinal), b(promoteAfterVerdict), b(resumeFullPart))
	fmt.Fprintf(w, "end Arc.Generated.C25\n")
	out.JSON["stat_part_fallback"] = statPartFallback
	out.JSON["delete_removes_part"] = deleteRemovesPart
	out.JSON["presence_needs_final"] = presenceNeedsFinal
	out.JSON["promote_after_verdict"] = promoteAfterVerdict
	out.JSON["resume_full_part"] = resumeFullPart
	out.JSON["presence_condition"] = cond
	return nil
}
