package main

import (
	"fmt"
	"go/ast"
	"go/token"
	"sort"
	"strconv"
	"strings"
	"verif/factgen/fg"
)

// C27: the ledger's guarded state transitions, read from the SQL string literals of every
// state-changing Ledger method (`SET state = …` target(s) and `WHERE … state = ? / state IN (…)`
// source set, placeholders resolved through the call's argument list to the `State*` constants),
// the initial state of inserted rows, DefaultMaxAttempts, the call sites of MarkSynced in the agent
// and the mutation skeleton of Receiver.Receive (verify before promote before record).
func main() { fg.Main("C27", c27) }

type trans struct {
	Method string   `json:"method"`
	From   []string `json:"from"`
	To     []string `json:"to"`
}

func c27(repo string, out *fg.Out) error {
	files, err := fg.ParseDir(repo, "internal/edgesync")
	if err != nil {
		return err
	}
	// ---- State* constants
	states := map[string]string{}
	for _, f := range files {
		for _, d := range f.AST.Decls {
			gd, ok := d.(*ast.GenDecl)
			if !ok || gd.Tok != token.CONST {
				continue
			}
			for _, s := range gd.Specs {
				vs := s.(*ast.ValueSpec)
				id, ok := vs.Type.(*ast.Ident)
				if !ok || id.Name != "SyncState" || len(vs.Values) != 1 {
					continue
				}
				bl, ok := vs.Values[0].(*ast.BasicLit)
				if !ok || bl.Kind != token.STRING {
					continue
				}
				v, _ := strconv.Unquote(bl.Value)
				states[vs.Names[0].Name] = v
			}
		}
	}
	if len(states) < 6 {
		return fmt.Errorf("expected >= 6 SyncState constants, found %d", len(states))
	}
	stateOf := func(e ast.Expr) (string, bool) {
		// string(StateX)
		c, ok := e.(*ast.CallExpr)
		if !ok || len(c.Args) != 1 {
			return "", false
		}
		if id, ok := c.Fun.(*ast.Ident); !ok || id.Name != "string" {
			return "", false
		}
		id, ok := c.Args[0].(*ast.Ident)
		if !ok {
			return "", false
		}
		v, ok := states[id.Name]
		return v, ok
	}

	lf, _ := fg.FindFunc(files, "Ledger", "MarkSynced")
	if lf == nil {
		return fmt.Errorf("Ledger.MarkSynced not found")
	}

	// ---- every Ledger method containing an `UPDATE sync_ledger` literal
	var table []trans
	for _, f := range files {
		for _, d := range f.AST.Decls {
			fd, ok := d.(*ast.FuncDecl)
			if !ok || fd.Recv == nil || fd.Body == nil {
				continue
			}
			if f.FuncDecl("Ledger", fd.Name.Name) != fd {
				continue
			}
			var sql string
			var args []ast.Expr
			nUpdates := 0
			ast.Inspect(fd.Body, func(n ast.Node) bool {
				switch x := n.(type) {
				case *ast.CallExpr:
					nm := fg.CalleeName(x)
					if nm == "ExecContext" || nm == "Exec" {
						for i, a := range x.Args {
							if bl, ok := a.(*ast.BasicLit); ok && bl.Kind == token.STRING {
								s, _ := strconv.Unquote(bl.Value)
								if strings.Contains(s, "UPDATE sync_ledger") {
									sql = s
									args = x.Args[i+1:]
									nUpdates++
								}
							}
						}
					}
				case *ast.AssignStmt:
					// query := `UPDATE …` ; args := []any{…}
					if len(x.Lhs) == 1 && len(x.Rhs) == 1 {
						if id, ok := x.Lhs[0].(*ast.Ident); ok {
							if bl, ok := x.Rhs[0].(*ast.BasicLit); ok && id.Name == "query" && bl.Kind == token.STRING {
								s, _ := strconv.Unquote(bl.Value)
								if strings.Contains(s, "UPDATE sync_ledger") {
									sql = s
									nUpdates++
								}
							}
							if cl, ok := x.Rhs[0].(*ast.CompositeLit); ok && id.Name == "args" {
								args = cl.Elts
							}
						}
					}
				}
				return true
			})
			if sql == "" {
				continue
			}
			if nUpdates != 1 {
				return fmt.Errorf("Ledger.%s: expected exactly one UPDATE sync_ledger statement, found %d", fd.Name.Name, nUpdates)
			}
			tr, err := parseUpdate(fd.Name.Name, sql, args, stateOf)
			if err != nil {
				return err
			}
			if tr != nil {
				table = append(table, *tr)
			}
		}
	}
	sort.Slice(table, func(i, j int) bool { return table[i].Method < table[j].Method })
	need := []string{"MarkInFlight", "MarkSynced", "MarkFailed", "MarkConflicted", "MarkSkipped", "RecoverInFlight", "RecordProgress"}
	for _, n := range need {
		found := false
		for _, t := range table {
			if t.Method == n {
				found = true
			}
		}
		if !found {
			return fmt.Errorf("no guarded UPDATE found for Ledger.%s", n)
		}
	}

	// ---- initial state of tracked rows: the last argument of the INSERT in Track/TrackBatch
	initial := ""
	for _, name := range []string{"Track", "TrackBatch"} {
		f, fd := fg.FindFunc(files, "Ledger", name)
		if fd == nil {
			return fmt.Errorf("Ledger.%s not found", name)
		}
		_ = f
		got := ""
		ast.Inspect(fd.Body, func(n ast.Node) bool {
			c, ok := n.(*ast.CallExpr)
			if !ok || fg.CalleeName(c) != "ExecContext" || len(c.Args) == 0 {
				return true
			}
			if v, ok := stateOf(c.Args[len(c.Args)-1]); ok {
				got = v
			}
			return true
		})
		if got == "" {
			return fmt.Errorf("Ledger.%s: INSERT … string(State*) as last argument not found", name)
		}
		if initial != "" && initial != got {
			return fmt.Errorf("Track and TrackBatch insert different initial states")
		}
		initial = got
	}

	// ---- DefaultMaxAttempts
	env := fg.NewConstEnv(files)
	ex, ok := env.Exprs["DefaultMaxAttempts"]
	if !ok {
		return fmt.Errorf("DefaultMaxAttempts not found")
	}
	maxAtt, err := env.EvalInt(ex)
	if err != nil {
		return err
	}

	// ---- MarkSynced call sites in agent.go: enclosing function + enclosing construct
	af, err := fg.ParseFile(repo, "internal/edgesync/agent.go")
	if err != nil {
		return err
	}
	var sites []string
	for _, d := range af.AST.Decls {
		fd, ok := d.(*ast.FuncDecl)
		if !ok || fd.Body == nil {
			continue
		}
		var stack []ast.Node
		ast.Inspect(fd.Body, func(n ast.Node) bool {
			if n == nil {
				stack = stack[:len(stack)-1]
				return true
			}
			stack = append(stack, n)
			c, ok := n.(*ast.CallExpr)
			if !ok || fg.CalleeName(c) != "MarkSynced" {
				return true
			}
			ctx := "?"
			for i := len(stack) - 1; i >= 0; i-- {
				switch x := stack[i].(type) {
				case *ast.RangeStmt:
					ctx = "range " + af.Text(x.X)
				case *ast.CaseClause:
					if len(x.List) == 1 {
						ctx = "case " + af.Text(x.List[0])
					} else {
						ctx = "case ?"
					}
				default:
					continue
				}
				break
			}
			sites = append(sites, fd.Name.Name+":"+ctx)
			return true
		})
	}
	sort.Strings(sites)
	if len(sites) == 0 {
		return fmt.Errorf("no MarkSynced call in agent.go")
	}

	// ---- Receive skeleton: order of the mutating steps on the commit path
	rf, rfd := fg.FindFunc(files, "Receiver", "Receive")
	if rfd == nil {
		return fmt.Errorf("Receiver.Receive not found")
	}
	var skeleton []string
	ast.Inspect(rfd.Body, func(n ast.Node) bool {
		switch x := n.(type) {
		case *ast.CallExpr:
			switch nm := fg.CalleeName(x); nm {
			case "stage", "promote", "register", "recordReceived", "resolveExisting":
				skeleton = append(skeleton, nm)
			case "Lookup":
				skeleton = append(skeleton, "index.Lookup")
			case "Exists":
				skeleton = append(skeleton, "backend.Exists")
			}
		case *ast.BinaryExpr:
			if x.Op == token.NEQ && strings.Contains(rf.Text(x), "declaredSHA256") && strings.Contains(rf.Text(x), "got") {
				skeleton = append(skeleton, "hash-check")
			}
		}
		return true
	})
	want := []string{"index.Lookup", "backend.Exists", "resolveExisting", "stage", "hash-check", "promote", "register", "recordReceived"}
	if strings.Join(skeleton, ",") != strings.Join(want, ",") {
		return fmt.Errorf("Receiver.Receive skeleton changed: got %v want %v", skeleton, want)
	}

	// ---- emit
	w := &out.Lean
	fmt.Fprintf(w, "namespace Arc.Generated.C27\n")
	fmt.Fprintf(w, "/-- (Ledger method, source states of its guarded UPDATE, target state(s) it can write) -/\n")
	fmt.Fprintf(w, "def ledgerTransitions : List (String × List String × List String) := [\n")
	for i, t := range table {
		sep := ","
		if i == len(table)-1 {
			sep = ""
		}
		fmt.Fprintf(w, "  (%s, %s, %s)%s\n", fg.LeanStr(t.Method), leanStrList(t.From), leanStrList(t.To), sep)
	}
	fmt.Fprintf(w, "]\n")
	fmt.Fprintf(w, "def initialState : String := %s\n", fg.LeanStr(initial))
	fmt.Fprintf(w, "def defaultMaxAttempts : Nat := %d\n", maxAtt)
	fmt.Fprintf(w, "/-- every call of Ledger.MarkSynced in agent.go: function:enclosing construct -/\n")
	fmt.Fprintf(w, "def markSyncedSites : List String := %s\n", leanStrList(sites))
	fmt.Fprintf(w, "/-- order of the steps of Receiver.Receive -/\n")
	fmt.Fprintf(w, "def receiveSkeleton : List String := %s\n", leanStrList(skeleton))
	fmt.Fprintf(w, "end Arc.Generated.C27\n")
	out.JSON["transitions"] = table
	out.JSON["initial_state"] = initial
	out.JSON["default_max_attempts"] = maxAtt
	out.JSON["mark_synced_sites"] = sites
	out.JSON["receive_skeleton"] = skeleton
	return nil
}

func leanStrList(xs []string) string {
	var b strings.Builder
	b.WriteString("[")
	for i, x := range xs {
		if i > 0 {
			b.WriteString(", ")
		}
		b.WriteString(fg.LeanStr(x))
	}
	b.WriteString("]")
	return b.String()
}

// parseUpdate reads one `UPDATE sync_ledger SET … WHERE …` literal. Placeholders are numbered in
// order of appearance and resolved through args. Returns nil for an UPDATE that neither writes nor
// guards on `state`.
func parseUpdate(method, sql string, args []ast.Expr, stateOf func(ast.Expr) (string, bool)) (*trans, error) {
	up := strings.Index(sql, "UPDATE sync_ledger")
	s := sql[up:]
	wi := strings.Index(s, "WHERE")
	if wi < 0 {
		return nil, fmt.Errorf("Ledger.%s: UPDATE without WHERE", method)
	}
	setPart, wherePart := s[:wi], s[wi:]
	// placeholder index of the k-th '?' of the whole statement
	qIndex := func(prefixLen int) int { return strings.Count(s[:prefixLen], "?") }
	resolve := func(pos int) (string, error) {
		i := qIndex(pos)
		if i >= len(args) {
			return "", fmt.Errorf("Ledger.%s: placeholder %d has no argument (have %d)", method, i, len(args))
		}
		v, ok := stateOf(args[i])
		if !ok {
			return "", fmt.Errorf("Ledger.%s: placeholder %d in a state position is not string(State*)", method, i)
		}
		return v, nil
	}
	tr := &trans{Method: method, From: []string{}, To: []string{}}
	// --- SET state = ? | SET state = CASE WHEN … THEN ? ELSE ? END
	if i := findWord(setPart, "state = "); i >= 0 {
		rest := setPart[i+len("state = "):]
		base := i + len("state = ")
		switch {
		case strings.HasPrefix(rest, "?"):
			v, err := resolve(base)
			if err != nil {
				return nil, err
			}
			tr.To = append(tr.To, v)
		case strings.HasPrefix(rest, "CASE"):
			end := strings.Index(rest, "END")
			if end < 0 {
				return nil, fmt.Errorf("Ledger.%s: CASE without END", method)
			}
			cs := rest[:end]
			for _, kw := range []string{"THEN ", "ELSE "} {
				off := 0
				for {
					k := strings.Index(cs[off:], kw)
					if k < 0 {
						break
					}
					p := off + k + len(kw)
					if !strings.HasPrefix(cs[p:], "?") {
						return nil, fmt.Errorf("Ledger.%s: CASE arm is not a placeholder", method)
					}
					v, err := resolve(base + p)
					if err != nil {
						return nil, err
					}
					tr.To = append(tr.To, v)
					off = p
				}
			}
		default:
			return nil, fmt.Errorf("Ledger.%s: unsupported `SET state = …` form", method)
		}
	}
	// --- WHERE … state = ? … / state IN (?, ?, …)
	off := 0
	for {
		k := findWord(wherePart[off:], "state ")
		if k < 0 {
			break
		}
		p := off + k + len("state ")
		rest := wherePart[p:]
		switch {
		case strings.HasPrefix(rest, "= ?"):
			v, err := resolve(wi + p + 2)
			if err != nil {
				return nil, err
			}
			tr.From = append(tr.From, v)
		case strings.HasPrefix(rest, "IN ("):
			close := strings.Index(rest, ")")
			inner := rest[len("IN ("):close]
			for j, ch := range inner {
				if ch == '?' {
					v, err := resolve(wi + p + len("IN (") + j)
					if err != nil {
						return nil, err
					}
					tr.From = append(tr.From, v)
				}
			}
		default:
			return nil, fmt.Errorf("Ledger.%s: unsupported state predicate %q", method, firstN(rest, 20))
		}
		off = p
	}
	if len(tr.To) == 0 && len(tr.From) == 0 {
		return nil, nil
	}
	if len(tr.From) == 0 {
		return nil, fmt.Errorf("Ledger.%s: writes state without a state guard", method)
	}
	sort.Strings(tr.From)
	sort.Strings(tr.To)
	return tr, nil
}

// findWord finds `w` at a position not preceded by an identifier character (so `state = ` does not
// match inside `xstate = `).
func findWord(s, w string) int {
	off := 0
	for {
		k := strings.Index(s[off:], w)
		if k < 0 {
			return -1
		}
		p := off + k
		if p == 0 || !(isIdent(s[p-1])) {
			return p
		}
		off = p + 1
	}
}

func isIdent(c byte) bool {
	return c == '_' || (c >= 'a' && c <= 'z') || (c >= 'A' && c <= 'Z') || (c >= '0' && c <= '9')
}

func firstN(s string, n int) string {
	if len(s) < n {
		return s
	}
	return s[:n]
}
