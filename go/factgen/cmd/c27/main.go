package main

import (
	"fmt"
	"go/ast"
	"go/token"
	"sort"
	"strconv"
	"strings"
	"verif/factgen/fg"
)

// C27: the ledger's guarded state transitions, read from the SQL string literals of every
// state-changing Ledger method (`SET state = …` target(s) and `WHERE … state = ? / state IN (…)`
// source set, placeholders resolved through the call's argument list to the `State*` constants),
// the initial state of inserted rows, DefaultMaxAttempts, the call sites of MarkSynced in the agent
// and the mutation skeleton of Receiver.Receive (verify before promote before record).
func main() { fg.Main("C27", c27) }

type trans struct {
	Method string   `json:"method"`
	From   []string `json:"from"`
	To     []string `json:"to"`
}

func c27(repo string, out *fg.Out) error {
	files, err := fg.ParseDir(repo, "internal/edgesync")
	if err != nil {
		return err
	}
	// ---- State* constants
	states := map[string]string{}
	for _, f := range files {
		for _, d := range f.AST.Decls {
			gd, ok := d.(*ast.GenDecl)
			if !ok || gd.Tok != token.CONST {
				continue
			}
			for _, s := range gd.Specs {
				vs := s.(*ast.ValueSpec)
				id, ok := vs.Type.(*ast.Ident)
				if !ok || id.Name != "SyncState" || len(vs.Values) != 1 {
					continue
				}
				bl, ok := vs.Values[0].(*ast.BasicLit)
				if !ok || bl.Kind != token.STRING {
					continue
				}
				v, _ := strconv.Unquote(bl.Value)
				states[vs.Names[0].Name] = v
			}
		}
	}
	if len(states) < 6 {
		return fmt.Errorf("expected >= 6 SyncState constants, found %d", len(states))
	}
	stateOf := func(e ast.Expr) (string, bool) {
		// string(StateX)
		c, ok := e.(*ast.CallExpr)
		if !ok || len(c.Args) != 1 {
			return "", false
		}
		if id, ok := c.Fun.(*ast.Ident); !ok || id.Name != "string" {
			return "", false
		}
		id, ok := c.Args[0].(*ast.Ident)
		if !ok {
			return "", false
		}
		v, ok := states[id.Name]
		return v, ok
	}

	lf, _ := fg.FindFunc(files, "Ledger", "MarkSynced")
	if lf == nil {
		return fmt.Errorf("Ledger.MarkSynced not found")
	}

	// ---- every Ledger method containing an `UPDATE sync_ledger` literal
	var table []trans
	for _, f := range files {
		for _, d := range f.AST.Decls {
			fd, ok := d.(*ast.FuncDecl)
			if !ok || fd.Recv == nil || fd.Body == nil {
				continue
			}
			if f.FuncDecl("Ledger", fd.Name.Name) != fd {
				continue
			}
			var sql string
			var args []ast.Expr
			nUpdates := 0
			ast.Inspect(fd.Body, func(n ast.Node) bool {
				switch x := n.(type) {
				case *ast.CallExpr:
					nm := fg.CalleeName(x)
					if nm == "ExecContext" || nm == "Exec" {
						for i, a := range x.Args {
							if bl, ok := a.(*ast.BasicLit); ok && bl.Kind == token.STRING {
								s, _ := strconv.Unquote(bl.Value)
								if strings.Contains(s, "UPDATE sync_ledger") {
									sql = s
									args = x.Args[i+1:]
									nUpdates++
								}
							}
						}
					}
				case *ast.AssignStmt:
					// query := `UPDATE …` ; args := []any{…}
					if len(x.Lhs) == 1 && len(x.Rhs) == 1 {
						if id, ok := x.Lhs[0].(*ast.Ident); ok {
							if bl, ok := x.Rhs[0].(*ast.BasicLit); ok && id.Name == "query" && bl.Kind == token.STRING {
								s, _ := strconv.Unquote(bl.Value)
								if strings.Contains(s, "UPDATE sync_ledger") {
									sql = s
									nUpdates++
								}
							}
							if cl, ok := x.Rhs[0].(*ast.CompositeLit); ok && id.Name == "args" {
								args = cl.Elts
							}
						}
					}
				}
				return true
			})
			if sql == "" {
				continue
			}
			if nUpdates != 1 {
				return fmt.Errorf("Ledger.%s: expected exactly one UPDATE sync_ledger statement, found %d", fd.Name.Name, nUpdates)
			}
			tr, err := parseUpdate(fd.Name.Name, sql, args, stateOf)
			if err != nil {
				return err
			}
			if tr != nil {
				table = append(table, *tr)
			}
		}
	}
	sort.Slice(table, func(i, j int) bool { return table[i].Method < table[j].Method })
	need := []string{"MarkInFlight", "MarkSynced", "MarkFailed", "MarkConflicted", "MarkSkipped", "RecoverInFlight", "RecordProgress"}
	for _, n := range need {
		found := false
		for _, t := range table {
			if t.Method == n {
				found = true
			}
		}
		if !found {
			return fmt.Errorf("no guarded UPDATE found for Ledger.%s", n)
		}
	}

	// ---- initial state of tracked rows: the last argument of the INSERT in Track/TrackBatch
	initial := ""
	for _, name := range []string{"Track", "TrackBatch"} {
		f, fd := fg.FindFunc(files, "Ledger", name)
		if fd == nil {
			return fmt.Errorf("Ledger.%s not found", name)
		}
		_ = f
		got := ""
		ast.Inspect(fd.Body, func(n ast.Node) bool {
			c, ok := n.(*ast.CallExpr)
			if !ok || fg.CalleeName(c) != "ExecContext" || len(c.Args) == 0 {
				return true
			}
			if v, ok := stateOf(c.Args[len(c.Args)-1]); ok {
				got = v
			}
			return true
		})
		if got == "" {
			return fmt.Errorf("Ledger.%s: INSERT … string(State*) as last argument not found", name)
		}
		if initial != "" && initial != got {
			return fmt.Errorf("Track and TrackBatch insert different initial states")
		}
		initial = got
	}

	// ---- DefaultMaxAttempts
	env := fg.NewConstEnv(files)
	ex, ok := env.Exprs["DefaultMaxAttempts"]
	if !ok {
		return fmt.Errorf("DefaultMaxAttempts not found")
	}
	maxAtt, err := env.EvalInt(ex)
	if err != nil {
		return err
	}

	// ---- MarkSynced call sites in agent.go: enclosing function + enclosing construct
	af, err := fg.ParseFile(repo, "internal/edgesync/agent.go")
	if err != nil {
		return err
	}
	var sites []string
	for _, d := range af.AST.Decls {
		fd, ok := d.(*ast.FuncDecl)
		if !ok || fd.Body == nil {
			continue
		}
		var stack []ast.Node
		ast.Inspect(fd.Body, func(n ast.Node) bool {
			if n == nil {
				stack = stack[:len(stack)-1]
				return true
			}
			stack = append(stack, n)
			c, ok := n.(*ast.CallExpr)
			if !ok || fg.CalleeName(c) != "MarkSynced" {
				return true
			}
			ctx := "?"
			for i := len(stack) - 1; i >= 0; i-- {
				switch x := stack[i].(type) {
				case *ast.RangeStmt:
					ctx = "range " + af.Text(x.X)
				case *ast.CaseClause:
					if len(x.List) == 1 {
						ctx = "case " + af.Text(x.List[0])
					} else {
						ctx = "case ?"
					}
				default:
					continue
				}
				break
			}
			sites = append(sites, fd.Name.Name+":"+ctx)
			return true
		})
	}
	sort.Strings(sites)
	if len(sites) == 0 {
		return fmt.Errorf("no MarkSynced call in agent.go")
	}

	// ---- Receive skeleton: order of the mutating steps on the commit path
	rf, rfd := fg.FindFunc(files, "Receiver", "Receive")
	if rfd == nil {
		return fmt.Errorf("Receiver.Receive not found")
	}
	var skeleton []string
	ast.Inspect(rfd.Body, func(n ast.Node) bool {
		switch x := n.(type) {
		case *ast.CallExpr:
			switch nm := fg.CalleeName(x); nm {
			case "stage", "promote", "register", "recordReceived", "resolveExisting":
				skeleton = append(skeleton, nm)
			case "Lookup":
				skeleton = append(skeleton, "index.Lookup")
			case "Exists":
				skeleton = append(skeleton, "backend.Exists")
			}
		case *ast.BinaryExpr:
			if x.Op == token.NEQ && strings.Contains(rf.Text(x), "declaredSHA256") && strings.Contains(rf.Text(x), "got") {
				skeleton = append(skeleton, "hash-check")
			}
		}
		return true
	})
	// The ORDER is a generated fact (theorems C27_receive_order / C27_receipt_before_exists name a
	// reordering); only a missing or duplicated step is a shape error.
	want := []string{"index.Lookup", "backend.Exists", "resolveExisting", "stage", "hash-check", "promote", "register", "recordReceived"}
	{
		a := append([]string(nil), skeleton...)
		b := append([]string(nil), want...)
		sort.Strings(a)
		sort.Strings(b)
		if strings.Join(a, ",") != strings.Join(b, ",") {
			return fmt.Errorf("Receiver.Receive steps changed: got %v want (any order) %v", skeleton, want)
		}
	}

	// ---- Agent.Run: which Ledger methods Run calls directly on a.ledger, as top-level statements of
	// its body, unconditionally, and at which statement index. The exactly-once/termination argument
	// needs RecoverInFlight at the start of EVERY pass (not once per Agent).
	_, runFd := func() (*fg.File, *ast.FuncDecl) { return af, af.FuncDecl("Agent", "Run") }()
	if runFd == nil {
		return fmt.Errorf("Agent.Run not found")
	}
	var runLedgerCalls []string
	for i, st := range runFd.Body.List {
		var call *ast.CallExpr
		switch x := st.(type) {
		case *ast.AssignStmt:
			if len(x.Rhs) == 1 {
				call, _ = x.Rhs[0].(*ast.CallExpr)
			}
		case *ast.ExprStmt:
			call, _ = x.X.(*ast.CallExpr)
		}
		if call == nil {
			continue
		}
		if sel, ok := call.Fun.(*ast.SelectorExpr); ok {
			if strings.HasSuffix(af.Text(sel.X), ".ledger") {
				runLedgerCalls = append(runLedgerCalls, fmt.Sprintf("(%d, %s)", i, fg.LeanStr(sel.Sel.Name)))
			}
		}
	}
	// the first call statement of Run overall (to see that nothing precedes the recovery but locals)
	firstCall := ""
	for _, st := range runFd.Body.List {
		found := ""
		ast.Inspect(st, func(n ast.Node) bool {
			if c, ok := n.(*ast.CallExpr); ok && found == "" {
				t := af.Text(c.Fun)
				if t != "time.Now" {
					found = t
				}
			}
			return found == ""
		})
		if found != "" {
			firstCall = found
			break
		}
	}

	// ---- Reconciler.confirmPresent: from which collection the paths appended to `stale` are drawn.
	recFile, cpFd := fg.FindFunc(files, "Reconciler", "confirmPresent")
	if cpFd == nil {
		return fmt.Errorf("Reconciler.confirmPresent not found")
	}
	staleRoots, err := staleAppendRoots(recFile, cpFd)
	if err != nil {
		return err
	}
	if len(staleRoots) == 0 {
		return fmt.Errorf("confirmPresent: no append(stale, …) found")
	}

	// ---- emit
	w := &out.Lean
	fmt.Fprintf(w, "namespace Arc.Generated.C27\n")
	fmt.Fprintf(w, "/-- (Ledger method, source states of its guarded UPDATE, target state(s) it can write) -/\n")
	fmt.Fprintf(w, "def ledgerTransitions : List (String × List String × List String) := [\n")
	for i, t := range table {
		sep := ","
		if i == len(table)-1 {
			sep = ""
		}
		fmt.Fprintf(w, "  (%s, %s, %s)%s\n", fg.LeanStr(t.Method), leanStrList(t.From), leanStrList(t.To), sep)
	}
	fmt.Fprintf(w, "]\n")
	fmt.Fprintf(w, "def initialState : String := %s\n", fg.LeanStr(initial))
	fmt.Fprintf(w, "def defaultMaxAttempts : Nat := %d\n", maxAtt)
	fmt.Fprintf(w, "/-- every call of Ledger.MarkSynced in agent.go: function:enclosing construct -/\n")
	fmt.Fprintf(w, "def markSyncedSites : List String := %s\n", leanStrList(sites))
	fmt.Fprintf(w, "/-- order of the steps of Receiver.Receive -/\n")
	fmt.Fprintf(w, "def receiveSkeleton : List String := %s\n", leanStrList(skeleton))
	fmt.Fprintf(w, "/-- Ledger methods Agent.Run calls directly, unconditionally, as top-level statements: (statement index, method) -/\n")
	fmt.Fprintf(w, "def runLedgerCalls : List (Nat × String) := [%s]\n", strings.Join(runLedgerCalls, ", "))
	fmt.Fprintf(w, "/-- the first call Agent.Run makes (besides time.Now) -/\n")
	fmt.Fprintf(w, "def runFirstCall : String := %s\n", fg.LeanStr(firstCall))
	fmt.Fprintf(w, "/-- collection each path appended to `stale` in Reconciler.confirmPresent is drawn from -/\n")
	fmt.Fprintf(w, "def staleRoots : List String := %s\n", leanStrList(staleRoots))
	fmt.Fprintf(w, "end Arc.Generated.C27\n")
	out.JSON["transitions"] = table
	out.JSON["initial_state"] = initial
	out.JSON["default_max_attempts"] = maxAtt
	out.JSON["mark_synced_sites"] = sites
	out.JSON["receive_skeleton"] = skeleton
	out.JSON["run_ledger_calls"] = runLedgerCalls
	out.JSON["run_first_call"] = firstCall
	out.JSON["stale_roots"] = staleRoots
	return nil
}

func leanStrList(xs []string) string {
	var b strings.Builder
	b.WriteString("[")
	for i, x := range xs {
		if i > 0 {
			b.WriteString(", ")
		}
		b.WriteString(fg.LeanStr(x))
	}
	b.WriteString("]")
	return b.String()
}

// parseUpdate reads one `UPDATE sync_ledger SET … WHERE …` literal. Placeholders are numbered in
// order of appearance and resolved through args. Returns nil for an UPDATE that neither writes nor
// guards on `state`.
func parseUpdate(method, sql string, args []ast.Expr, stateOf func(ast.Expr) (string, bool)) (*trans, error) {
	up := strings.Index(sql, "UPDATE sync_ledger")
	s := sql[up:]
	wi := strings.Index(s, "WHERE")
	if wi < 0 {
		return nil, fmt.Errorf("Ledger.%s: UPDATE without WHERE", method)
	}
	setPart, wherePart := s[:wi], s[wi:]
	// placeholder index of the k-th '?' of the whole statement
	qIndex := func(prefixLen int) int { return strings.Count(s[:prefixLen], "?") }
	resolve := func(pos int) (string, error) {
		i := qIndex(pos)
		if i >= len(args) {
			return "", fmt.Errorf("Ledger.%s: placeholder %d has no argument (have %d)", method, i, len(args))
		}
		v, ok := stateOf(args[i])
		if !ok {
			return "", fmt.Errorf("Ledger.%s: placeholder %d in a state position is not string(State*)", method, i)
		}
		return v, nil
	}
	tr := &trans{Method: method, From: []string{}, To: []string{}}
	// --- SET state = ? | SET state = CASE WHEN … THEN ? ELSE ? END
	if i := findWord(setPart, "state = "); i >= 0 {
		rest := setPart[i+len("state = "):]
		base := i + len("state = ")
		switch {
		case strings.HasPrefix(rest, "?"):
			v, err := resolve(base)
			if err != nil {
				return nil, err
			}
			tr.To = append(tr.To, v)
		case strings.HasPrefix(rest, "CASE"):
			end := strings.Index(rest, "END")
			if end < 0 {
				return nil, fmt.Errorf("Ledger.%s: CASE without END", method)
			}
			cs := rest[:end]
			for _, kw := range []string{"THEN ", "ELSE "} {
				off := 0
				for {
					k := strings.Index(cs[off:], kw)
					if k < 0 {
						break
					}
					p := off + k + len(kw)
					if !strings.HasPrefix(cs[p:], "?") {
						return nil, fmt.Errorf("Ledger.%s: CASE arm is not a placeholder", method)
					}
					v, err := resolve(base + p)
					if err != nil {
						return nil, err
					}
					tr.To = append(tr.To, v)
					off = p
				}
			}
		default:
			return nil, fmt.Errorf("Ledger.%s: unsupported `SET state = …` form", method)
		}
	}
	// --- WHERE … state = ? … / state IN (?, ?, …)
	off := 0
	for {
		k := findWord(wherePart[off:], "state ")
		if k < 0 {
			break
		}
		p := off + k + len("state ")
		rest := wherePart[p:]
		switch {
		case strings.HasPrefix(rest, "= ?"):
			v, err := resolve(wi + p + 2)
			if err != nil {
				return nil, err
			}
			tr.From = append(tr.From, v)
		case strings.HasPrefix(rest, "IN ("):
			close := strings.Index(rest, ")")
			inner := rest[len("IN ("):close]
			for j, ch := range inner {
				if ch == '?' {
					v, err := resolve(wi + p + len("IN (") + j)
					if err != nil {
						return nil, err
					}
					tr.From = append(tr.From, v)
				}
			}
		default:
			return nil, fmt.Errorf("Ledger.%s: unsupported state predicate %q", method, firstN(rest, 20))
		}
		off = p
	}
	if len(tr.To) == 0 && len(tr.From) == 0 {
		return nil, nil
	}
	if len(tr.From) == 0 {
		return nil, fmt.Errorf("Ledger.%s: writes state without a state guard", method)
	}
	sort.Strings(tr.From)
	sort.Strings(tr.To)
	return tr, nil
}

// findWord finds `w` at a position not preceded by an identifier character (so `state = ` does not
// match inside `xstate = `).
func findWord(s, w string) int {
	off := 0
	for {
		k := strings.Index(s[off:], w)
		if k < 0 {
			return -1
		}
		p := off + k
		if p == 0 || !(isIdent(s[p-1])) {
			return p
		}
		off = p + 1
	}
}

func isIdent(c byte) bool {
	return c == '_' || (c >= 'a' && c <= 'z') || (c >= 'A' && c <= 'Z') || (c >= '0' && c <= '9')
}

func firstN(s string, n int) string {
	if len(s) < n {
		return s
	}
	return s[:n]
}

// staleAppendRoots resolves, for every `append(stale, X)` in fd, the collection X is drawn from:
// X.f / X[i] → root of X; an identifier bound by `for _, v := range C` → root of C; an identifier that
// is a parameter of a func literal invoked as `go func(..){..}(args)` → root of the matching argument.
func staleAppendRoots(f *fg.File, fd *ast.FuncDecl) ([]string, error) {
	type binding struct{ expr ast.Expr }
	rangeVal := map[string]ast.Expr{} // value variable -> ranged collection
	param := map[string]ast.Expr{}    // func-literal parameter -> call argument
	ast.Inspect(fd.Body, func(n ast.Node) bool {
		switch x := n.(type) {
		case *ast.RangeStmt:
			if id, ok := x.Value.(*ast.Ident); ok && id.Name != "_" {
				rangeVal[id.Name] = x.X
			}
		case *ast.CallExpr:
			if fl, ok := x.Fun.(*ast.FuncLit); ok {
				i := 0
				for _, fld := range fl.Type.Params.List {
					for _, nm := range fld.Names {
						if i < len(x.Args) {
							param[nm.Name] = x.Args[i]
						}
						i++
					}
				}
			}
		}
		return true
	})
	var root func(e ast.Expr, depth int) string
	root = func(e ast.Expr, depth int) string {
		if depth > 10 {
			return "?"
		}
		switch x := e.(type) {
		case *ast.SelectorExpr:
			return root(x.X, depth+1)
		case *ast.IndexExpr:
			return root(x.X, depth+1)
		case *ast.ParenExpr:
			return root(x.X, depth+1)
		case *ast.Ident:
			if a, ok := param[x.Name]; ok {
				if id, same := a.(*ast.Ident); !same || id.Name != x.Name {
					return root(a, depth+1)
				}
			}
			if c, ok := rangeVal[x.Name]; ok {
				return root(c, depth+1)
			}
			return x.Name
		}
		return "?" + f.Text(e)
	}
	var roots []string
	ast.Inspect(fd.Body, func(n ast.Node) bool {
		c, ok := n.(*ast.CallExpr)
		if !ok || fg.CalleeName(c) != "append" || len(c.Args) < 2 {
			return true
		}
		if id, ok := c.Args[0].(*ast.Ident); !ok || id.Name != "stale" {
			return true
		}
		for _, a := range c.Args[1:] {
			roots = append(roots, root(a, 0))
		}
		return true
	})
	return roots, nil
}
