package main

import (
	"fmt"
	"go/ast"
	"go/token"
	"math/big"
	"strings"
	"verif/factgen/fg"
)

// C02 facts (all with shape expectations):
//   - maxTypedPreallocElems (msgpack_typed.go)
//   - the unit-detection table (threshold, multiplier)* + default multiplier, from BOTH
//     normalizeTimestampColumns (msgpack.go, if/else-if chain on firstVal) and decodeTimeColumnTyped
//     (msgpack_typed.go, tagless switch on ts inside `if i == 0`); both must scale with
//     `multiplier < 0` meaning divide
//   - dynamic types accepted by toInt64 / toFloat64 (arrow_writer.go) and toInt64Timestamp (msgpack.go),
//     and which toInt64 cases carry a range guard
//   - the msgpcode names each wire-code class predicate of msgpack_typed.go tests
func main() { fg.Main("C02", c02) }

func litInt(e ast.Expr) (*big.Int, error) {
	neg := false
	if u, ok := e.(*ast.UnaryExpr); ok && u.Op == token.SUB {
		neg = true
		e = u.X
	}
	bl, ok := e.(*ast.BasicLit)
	if !ok || (bl.Kind != token.INT && bl.Kind != token.FLOAT) {
		return nil, fmt.Errorf("not a numeric literal")
	}
	s := strings.ReplaceAll(bl.Value, "_", "")
	f, _, err := big.ParseFloat(s, 10, 400, big.ToNearestEven)
	if err != nil {
		return nil, err
	}
	if !f.IsInt() {
		return nil, fmt.Errorf("literal %s is not integral", bl.Value)
	}
	i, _ := f.Int(nil)
	if neg {
		i.Neg(i)
	}
	return i, nil
}

// `<v> < <lit>`
func ltCond(e ast.Expr, v string) (*big.Int, error) {
	b, ok := e.(*ast.BinaryExpr)
	if !ok || b.Op != token.LSS {
		return nil, fmt.Errorf("condition is not `%s < const`", v)
	}
	id, ok := b.X.(*ast.Ident)
	if !ok || id.Name != v {
		return nil, fmt.Errorf("condition is not on %s", v)
	}
	return litInt(b.Y)
}

// body must contain exactly the assignment `multiplier = <lit>` (comments aside)
func multAssign(stmts []ast.Stmt) (*big.Int, error) {
	var found *big.Int
	for _, s := range stmts {
		as, ok := s.(*ast.AssignStmt)
		if !ok || len(as.Lhs) != 1 || len(as.Rhs) != 1 {
			return nil, fmt.Errorf("unexpected statement in unit branch")
		}
		id, ok := as.Lhs[0].(*ast.Ident)
		if !ok || id.Name != "multiplier" || as.Tok != token.ASSIGN {
			return nil, fmt.Errorf("unit branch assigns something other than multiplier")
		}
		v, err := litInt(as.Rhs[0])
		if err != nil {
			return nil, err
		}
		found = v
	}
	if found == nil {
		return nil, fmt.Errorf("unit branch without multiplier assignment")
	}
	return found, nil
}

type unitTable struct {
	Th, Mu []*big.Int
	Def    *big.Int
}

func (t unitTable) lean(name string) string {
	var xs []string
	for i := range t.Th {
		xs = append(xs, fmt.Sprintf("(%s, %s)", t.Th[i].String(), leanBig(t.Mu[i])))
	}
	return fmt.Sprintf("def %sUnits : List (Int × Int) := [%s]\ndef %sUnitDefault : Int := %s\n", name, strings.Join(xs, ", "), name, leanBig(t.Def))
}

func leanBig(v *big.Int) string {
	if v.Sign() < 0 {
		return "(" + v.String() + ")"
	}
	return v.String()
}

func (t unitTable) json() map[string]any {
	var th, mu []string
	for i := range t.Th {
		th = append(th, t.Th[i].String())
		mu = append(mu, t.Mu[i].String())
	}
	return map[string]any{"thresholds": th, "multipliers": mu, "default": t.Def.String()}
}

// if firstVal < A { multiplier = a } else if firstVal < B {…} else { multiplier = d }
func ifChain(s *ast.IfStmt, v string) (unitTable, error) {
	var t unitTable
	for {
		th, err := ltCond(s.Cond, v)
		if err != nil {
			return t, err
		}
		m, err := multAssign(s.Body.List)
		if err != nil {
			return t, err
		}
		t.Th = append(t.Th, th)
		t.Mu = append(t.Mu, m)
		switch e := s.Else.(type) {
		case *ast.IfStmt:
			s = e
			continue
		case *ast.BlockStmt:
			d, err := multAssign(e.List)
			if err != nil {
				return t, err
			}
			t.Def = d
			return t, nil
		default:
			return t, fmt.Errorf("unit chain has no final else")
		}
	}
}

func switchChain(s *ast.SwitchStmt, v string) (unitTable, error) {
	var t unitTable
	if s.Tag != nil {
		return t, fmt.Errorf("unit switch has a tag")
	}
	for _, c := range s.Body.List {
		cc := c.(*ast.CaseClause)
		if cc.List == nil {
			d, err := multAssign(cc.Body)
			if err != nil {
				return t, err
			}
			t.Def = d
			continue
		}
		if len(cc.List) != 1 {
			return t, fmt.Errorf("unit case with several conditions")
		}
		if t.Def != nil {
			return t, fmt.Errorf("default is not the last unit case")
		}
		th, err := ltCond(cc.List[0], v)
		if err != nil {
			return t, err
		}
		m, err := multAssign(cc.Body)
		if err != nil {
			return t, err
		}
		t.Th = append(t.Th, th)
		t.Mu = append(t.Mu, m)
	}
	if t.Def == nil {
		return t, fmt.Errorf("unit switch without default")
	}
	return t, nil
}

// number of `if multiplier < 0 {…}` statements in fn (the "negative = divide" convention)
func negDivides(f *fg.File, fn *ast.FuncDecl) int {
	n := 0
	ast.Inspect(fn, func(x ast.Node) bool {
		if is, ok := x.(*ast.IfStmt); ok && f.Text(is.Cond) == "multiplier < 0" {
			n++
		}
		return true
	})
	return n
}

// type switch `switch val := v.(type)`: accepted type names per case, and whether the case body
// contains an `if … { return 0, false }` guard
func typeSwitchCases(f *fg.File, fn *ast.FuncDecl) (accepted []string, guarded []string, err error) {
	var ts *ast.TypeSwitchStmt
	ast.Inspect(fn, func(x ast.Node) bool {
		if t, ok := x.(*ast.TypeSwitchStmt); ok && ts == nil {
			ts = t
		}
		return true
	})
	if ts == nil {
		return nil, nil, fmt.Errorf("%s: no type switch", fn.Name.Name)
	}
	for _, c := range ts.Body.List {
		cc := c.(*ast.CaseClause)
		if cc.List == nil {
			// default must reject
			if !strings.Contains(f.Text(cc), "false") {
				return nil, nil, fmt.Errorf("%s: default case does not return false", fn.Name.Name)
			}
			continue
		}
		hasGuard := false
		for _, s := range cc.Body {
			if _, ok := s.(*ast.IfStmt); ok {
				hasGuard = true
			}
		}
		for _, e := range cc.List {
			nm := f.Text(e)
			accepted = append(accepted, nm)
			if hasGuard {
				guarded = append(guarded, nm)
			}
		}
	}
	return accepted, guarded, nil
}

// names X in `msgpcode.X` mentioned by a predicate function
func codeNames(f *fg.File, fn *ast.FuncDecl) []string {
	var out []string
	ast.Inspect(fn.Body, func(x ast.Node) bool {
		if se, ok := x.(*ast.SelectorExpr); ok {
			if id, ok := se.X.(*ast.Ident); ok && id.Name == "msgpcode" {
				out = append(out, se.Sel.Name)
			}
		}
		return true
	})
	return out
}

// has: whitespace-insensitive containment of a source snippet in the printed node
func has(text, snippet string) bool {
	strip := func(x string) string {
		return strings.Join(strings.Fields(x), "")
	}
	return strings.Contains(strip(text), strip(snippet))
}

func leanStrList(xs []string) string {
	q := make([]string, len(xs))
	for i, x := range xs {
		q[i] = fg.LeanStr(x)
	}
	return "[" + strings.Join(q, ", ") + "]"
}

func c02(repo string, out *fg.Out) error {
	typedF, err := fg.ParseFile(repo, "internal/ingest/msgpack_typed.go")
	if err != nil {
		return err
	}
	genF, err := fg.ParseFile(repo, "internal/ingest/msgpack.go")
	if err != nil {
		return err
	}
	awF, err := fg.ParseFile(repo, "internal/ingest/arrow_writer.go")
	if err != nil {
		return err
	}
	L := &out.Lean
	fmt.Fprintf(L, "namespace Arc.Generated.C02\n\n")

	// --- maxTypedPreallocElems
	env := fg.NewConstEnv([]*fg.File{typedF})
	ex, ok := env.Exprs["maxTypedPreallocElems"]
	if !ok {
		return fmt.Errorf("const maxTypedPreallocElems not found in msgpack_typed.go")
	}
	mx, err := env.EvalInt(ex)
	if err != nil {
		return fmt.Errorf("maxTypedPreallocElems: %v", err)
	}
	fmt.Fprintf(L, "def maxTypedPreallocElems : Nat := %d\n\n", mx)
	out.JSON["maxTypedPreallocElems"] = mx

	// --- unit tables
	nfn := genF.FuncDecl("", "normalizeTimestampColumns")
	if nfn == nil {
		return fmt.Errorf("func normalizeTimestampColumns not found in msgpack.go")
	}
	var chain *ast.IfStmt
	ast.Inspect(nfn, func(x ast.Node) bool {
		if is, ok := x.(*ast.IfStmt); ok && chain == nil {
			if b, ok := is.Cond.(*ast.BinaryExpr); ok && b.Op == token.LSS {
				if id, ok := b.X.(*ast.Ident); ok && id.Name == "firstVal" {
					chain = is
				}
			}
		}
		return true
	})
	if chain == nil {
		return fmt.Errorf("normalizeTimestampColumns: `if firstVal < …` chain not found")
	}
	nt, err := ifChain(chain, "firstVal")
	if err != nil {
		return fmt.Errorf("normalizeTimestampColumns: %v", err)
	}
	if negDivides(genF, nfn) != 1 {
		return fmt.Errorf("normalizeTimestampColumns: expected exactly one `if multiplier < 0` (divide) branch")
	}
	if !strings.Contains(genF.Text(nfn), "toInt64Timestamp(timeCol[0])") {
		return fmt.Errorf("normalizeTimestampColumns: unit is no longer detected from timeCol[0]")
	}
	tfn := typedF.FuncDecl("", "decodeTimeColumnTyped")
	if tfn == nil {
		return fmt.Errorf("func decodeTimeColumnTyped not found in msgpack_typed.go")
	}
	var sw *ast.SwitchStmt
	ast.Inspect(tfn, func(x ast.Node) bool {
		if is, ok := x.(*ast.IfStmt); ok && typedF.Text(is.Cond) == "i == 0" {
			for _, s := range is.Body.List {
				if ss, ok := s.(*ast.SwitchStmt); ok {
					sw = ss
				}
			}
		}
		return true
	})
	if sw == nil {
		return fmt.Errorf("decodeTimeColumnTyped: `if i == 0 { switch {…} }` (unit from element 0) not found")
	}
	tt, err := switchChain(sw, "ts")
	if err != nil {
		return fmt.Errorf("decodeTimeColumnTyped: %v", err)
	}
	if negDivides(typedF, tfn) != 1 {
		return fmt.Errorf("decodeTimeColumnTyped: expected exactly one `if multiplier < 0` (divide) branch")
	}
	// scaling statements: every assignment to arr[i] / ts (typed) and timeCol[i] (generic), as source text
	assigns := func(f *fg.File, fn *ast.FuncDecl, lhs string) []string {
		var out []string
		ast.Inspect(fn, func(x ast.Node) bool {
			if as, ok := x.(*ast.AssignStmt); ok && len(as.Lhs) == 1 && len(as.Rhs) == 1 && f.Text(as.Lhs[0]) == lhs {
				out = append(out, strings.Join(strings.Fields(f.Text(as.Rhs[0])), " "))
			}
			return true
		})
		return out
	}
	fmt.Fprintf(L, "def typedTimeScale : List String := %s\n", leanStrList(assigns(typedF, tfn, "arr[i]")))
	fmt.Fprintf(L, "def typedTimeElem : List String := %s\n", leanStrList(assigns(typedF, tfn, "ts")))
	fmt.Fprintf(L, "def normTimeScale : List String := %s\n", leanStrList(assigns(genF, nfn, "timeCol[i]")))
	out.JSON["typedTimeScale"] = assigns(typedF, tfn, "arr[i]")
	out.JSON["typedTimeElem"] = assigns(typedF, tfn, "ts")
	out.JSON["normTimeScale"] = assigns(genF, nfn, "timeCol[i]")
	L.WriteString(nt.lean("norm"))
	L.WriteString(tt.lean("typed"))
	L.WriteString("\n")
	out.JSON["normUnits"] = nt.json()
	out.JSON["typedUnits"] = tt.json()

	// --- decodeTypedColumns: does the non-array branch fall back when an array was already decoded
	// under the same key (generic map is last-wins)?  `if !isArrayCode(vc) { if _, dup := typed[name]; dup { return … } … }`
	cfn := typedF.FuncDecl("MessagePackDecoder", "decodeTypedColumns")
	if cfn == nil {
		cfn = typedF.FuncDecl("", "decodeTypedColumns")
	}
	if cfn == nil {
		return fmt.Errorf("func decodeTypedColumns not found in msgpack_typed.go")
	}
	var nonArr *ast.IfStmt
	ast.Inspect(cfn, func(x ast.Node) bool {
		if is, ok := x.(*ast.IfStmt); ok && typedF.Text(is.Cond) == "!isArrayCode(vc)" {
			nonArr = is
		}
		return true
	})
	if nonArr == nil {
		return fmt.Errorf("decodeTypedColumns: `if !isArrayCode(vc)` branch not found")
	}
	dupFalls := false
	for _, st := range nonArr.Body.List {
		is, ok := st.(*ast.IfStmt)
		if !ok || is.Init == nil {
			continue
		}
		if typedF.Text(is.Init) == "_, dup := typed[name]" && typedF.Text(is.Cond) == "dup" && len(is.Body.List) == 1 {
			if _, isRet := is.Body.List[0].(*ast.ReturnStmt); isRet {
				dupFalls = true
			}
		}
	}
	if !strings.Contains(typedF.Text(nonArr.Body), "dec.Skip()") {
		return fmt.Errorf("decodeTypedColumns: non-array branch no longer Skip()s the value")
	}
	fmt.Fprintf(L, "def nonArrayDupFallsBack : Bool := %v\n\n", dupFalls)
	out.JSON["nonArrayDupFallsBack"] = dupFalls

	// --- WAL record of a write: which function does ArrowBuffer.Write hand each record kind to, and
	// does the raw client payload travel with it?
	wfn := awF.FuncDecl("ArrowBuffer", "Write")
	if wfn == nil {
		return fmt.Errorf("func (*ArrowBuffer) Write not found in arrow_writer.go")
	}
	var wts *ast.TypeSwitchStmt
	ast.Inspect(wfn, func(x ast.Node) bool {
		if t, ok := x.(*ast.TypeSwitchStmt); ok && wts == nil {
			wts = t
		}
		return true
	})
	if wts == nil {
		return fmt.Errorf("ArrowBuffer.Write: record type switch not found")
	}
	dispatch := map[string]*ast.CallExpr{}
	for _, c := range wts.Body.List {
		cc := c.(*ast.CaseClause)
		if len(cc.List) != 1 {
			continue
		}
		tn := awF.Text(cc.List[0])
		var call *ast.CallExpr
		ast.Inspect(cc, func(x ast.Node) bool {
			if ce, ok := x.(*ast.CallExpr); ok && call == nil {
				if se, ok := ce.Fun.(*ast.SelectorExpr); ok {
					if id, ok := se.X.(*ast.Ident); ok && id.Name == "b" {
						call = ce
					}
				}
			}
			return true
		})
		if call != nil {
			dispatch[tn] = call
		}
	}
	tc, ok1 := dispatch["*TypedColumnarRecord"]
	gc, ok2 := dispatch["*models.ColumnarRecord"]
	if !ok1 || !ok2 {
		return fmt.Errorf("ArrowBuffer.Write: cases *TypedColumnarRecord / *models.ColumnarRecord with a b.<fn>(…) call not found")
	}
	typedFn := tc.Fun.(*ast.SelectorExpr).Sel.Name
	genFn := gc.Fun.(*ast.SelectorExpr).Sel.Name
	passesRaw := false
	for _, a := range tc.Args {
		if awF.Text(a) == "r.RawPayload" {
			passesRaw = true
		}
	}
	// the callee must log the raw bytes when it has them: `if len(rawPayload) > 0 { … AppendRawWithMeta(database, rawPayload)`
	rawLogs := false
	if rf := awF.FuncDecl("ArrowBuffer", typedFn); rf != nil {
		t := awF.Text(rf)
		rawLogs = has(t, "len(rawPayload) > 0") && has(t, "AppendRawWithMeta(database, rawPayload)")
	}
	gi := awF.FuncDecl("ArrowBuffer", "writeColumnarInternal")
	if gi == nil {
		return fmt.Errorf("func writeColumnarInternal not found")
	}
	git := awF.Text(gi)
	genRawLogs := genFn == "writeColumnar" && has(git, "len(record.RawPayload) > 0") &&
		has(git, "AppendRawWithMeta(database, record.RawPayload)")
	// both decoders put the request body into RawPayload
	typedCarries := has(typedF.Text(typedF.FuncDecl("MessagePackDecoder", "tryDecodeColumnarTyped")), "RawPayload: data,")
	genCarries := has(genF.Text(genF.FuncDecl("MessagePackDecoder", "decodeColumnar")), "RawPayload: rawData,") &&
		has(genF.Text(genF.FuncDecl("MessagePackDecoder", "Decode")), "d.decodeMapPayload(payload, data)")
	fmt.Fprintf(L, "def typedWriteFn : String := %s\n", fg.LeanStr(typedFn))
	fmt.Fprintf(L, "def genericWriteFn : String := %s\n", fg.LeanStr(genFn))
	fmt.Fprintf(L, "def typedWriteLogsRaw : Bool := %v\n", passesRaw && rawLogs && typedCarries)
	fmt.Fprintf(L, "def genericWriteLogsRaw : Bool := %v\n\n", genRawLogs && genCarries)
	out.JSON["typedWriteFn"] = typedFn
	out.JSON["genericWriteFn"] = genFn
	out.JSON["typedWriteLogsRaw"] = passesRaw && rawLogs && typedCarries
	out.JSON["genericWriteLogsRaw"] = genRawLogs && genCarries

	// --- accepted dynamic types
	for _, it := range []struct {
		f    *fg.File
		name string
	}{{awF, "toInt64"}, {awF, "toFloat64"}, {genF, "toInt64Timestamp"}} {
		fn := it.f.FuncDecl("", it.name)
		if fn == nil {
			return fmt.Errorf("func %s not found", it.name)
		}
		acc, guarded, err := typeSwitchCases(it.f, fn)
		if err != nil {
			return err
		}
		fmt.Fprintf(L, "def %sAccepts : List String := %s\n", it.name, leanStrList(acc))
		fmt.Fprintf(L, "def %sGuarded : List String := %s\n", it.name, leanStrList(guarded))
		out.JSON[it.name+"Accepts"] = acc
		out.JSON[it.name+"Guarded"] = guarded
	}
	L.WriteString("\n")

	// --- wire-code class predicates
	for _, nm := range []string{"isMapCode", "isArrayCode", "isIntCode", "isFloatCode", "isStrCode", "isBoolCode"} {
		fn := typedF.FuncDecl("", nm)
		if fn == nil {
			return fmt.Errorf("func %s not found in msgpack_typed.go", nm)
		}
		cs := codeNames(typedF, fn)
		fmt.Fprintf(L, "def %sCodes : List String := %s\n", nm, leanStrList(cs))
		out.JSON[nm+"Codes"] = cs
	}
	fmt.Fprintf(L, "\nend Arc.Generated.C02\n")
	return nil
}
