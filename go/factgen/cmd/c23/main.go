package main

import (
	"fmt"
	"go/ast"
	"strings"
	"verif/factgen/fg"
)

// C23: the three source shapes behind the role-assignment findings, as the Lean model encodes them:
//   - applyAddNode / applyUpdateNode replace the whole node record (`f.nodes[p.Node.ID] = &p.Node`)
//   - applyPromoteWriter assigns `f.primaryWriterID = p.NodeID` BEFORE its `if !exists { return … }`
//   - applyRemoveNode never touches f.primaryWriterID
//   - handleJoinRequest builds the NodeInfo it proposes without a WriterState field
func main() { fg.Main("C23", c23) }

func c23(repo string, out *fg.Out) error {
	files, err := fg.ParseDir(repo, "internal/cluster/raft")
	if err != nil {
		return err
	}
	replaces := func(name string) (bool, error) {
		f, fd := fg.FindFunc(files, "ClusterFSM", name)
		if fd == nil {
			return false, fmt.Errorf("%s not found", name)
		}
		found := false
		ast.Inspect(fd.Body, func(n ast.Node) bool {
			if as, ok := n.(*ast.AssignStmt); ok && len(as.Lhs) == 1 && len(as.Rhs) == 1 {
				if f.Text(as.Lhs[0]) == "f.nodes[p.Node.ID]" && f.Text(as.Rhs[0]) == "&p.Node" {
					found = true
				}
			}
			return true
		})
		return found, nil
	}
	addRep, err := replaces("applyAddNode")
	if err != nil {
		return err
	}
	updRep, err := replaces("applyUpdateNode")
	if err != nil {
		return err
	}
	// promote: position of the primaryWriterID assignment vs. the `if !exists { return` statement
	pf, pd := fg.FindFunc(files, "ClusterFSM", "applyPromoteWriter")
	if pd == nil {
		return fmt.Errorf("applyPromoteWriter not found")
	}
	assignPos, notFoundPos := -1, -1
	for i, st := range pd.Body.List {
		switch x := st.(type) {
		case *ast.AssignStmt:
			if len(x.Lhs) == 1 && pf.Text(x.Lhs[0]) == "f.primaryWriterID" {
				assignPos = i
			}
		case *ast.IfStmt:
			if pf.Text(x.Cond) == "!exists" && len(x.Body.List) == 1 {
				if _, ok := x.Body.List[0].(*ast.ReturnStmt); ok {
					notFoundPos = i
				}
			}
		}
	}
	if assignPos < 0 {
		return fmt.Errorf("applyPromoteWriter: top-level `f.primaryWriterID = …` not found")
	}
	// a repaired version that validates existence first has no top-level `if !exists` after the
	// assignment; report the order either way
	setsBefore := notFoundPos > assignPos
	// remove: any mention of primaryWriterID?
	rf, rd := fg.FindFunc(files, "ClusterFSM", "applyRemoveNode")
	if rd == nil {
		return fmt.Errorf("applyRemoveNode not found")
	}
	removeTouches := strings.Contains(rf.Text(rd.Body), "primaryWriterID")
	// join: composite literal raft.NodeInfo{…} in handleJoinRequest without WriterState
	cfiles, err := fg.ParseDir(repo, "internal/cluster")
	if err != nil {
		return err
	}
	jf, jd := fg.FindFunc(cfiles, "Coordinator", "handleJoinRequest")
	if jd == nil {
		return fmt.Errorf("Coordinator.handleJoinRequest not found")
	}
	joinSets, lit := false, false
	ast.Inspect(jd.Body, func(n ast.Node) bool {
		if cl, ok := n.(*ast.CompositeLit); ok && jf.Text(cl.Type) == "raft.NodeInfo" {
			lit = true
			for _, e := range cl.Elts {
				if kv, ok := e.(*ast.KeyValueExpr); ok && jf.Text(kv.Key) == "WriterState" {
					joinSets = true
				}
			}
		}
		return true
	})
	if !lit {
		return fmt.Errorf("handleJoinRequest: raft.NodeInfo{…} literal not found")
	}
	w := &out.Lean
	fmt.Fprintf(w, "namespace Arc.Generated.C23\n")
	fmt.Fprintf(w, "def addNodeReplacesRecord : Bool := %v\n", addRep)
	fmt.Fprintf(w, "def updateNodeReplacesRecord : Bool := %v\n", updRep)
	fmt.Fprintf(w, "def promoteSetsPrimaryBeforeNotFound : Bool := %v\n", setsBefore)
	fmt.Fprintf(w, "def removeNodeTouchesPrimary : Bool := %v\n", removeTouches)
	fmt.Fprintf(w, "def joinRequestSetsWriterState : Bool := %v\n", joinSets)
	fmt.Fprintf(w, "end Arc.Generated.C23\n")
	out.JSON["addNodeReplacesRecord"] = addRep
	out.JSON["updateNodeReplacesRecord"] = updRep
	out.JSON["promoteSetsPrimaryBeforeNotFound"] = setsBefore
	out.JSON["removeNodeTouchesPrimary"] = removeTouches
	out.JSON["joinRequestSetsWriterState"] = joinSets
	return nil
}
