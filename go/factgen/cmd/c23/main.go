package main

import (
	"fmt"
	"go/ast"
	"go/token"
	"strings"
	"verif/factgen/fg"
)

// C23: the source shapes the role-assignment theorems rest on, as the Lean model encodes them:
//   - applyAddNode / applyUpdateNode keep the recorded writer state of an existing id and never let a
//     new id come in marked "primary" (both before `f.nodes[p.Node.ID] = &p.Node`)
//   - applyPromoteWriter's `if !exists { return … }` precedes every mutation
//   - applyRemoveNode clears f.primaryWriterID when it removes that node
//   - handleJoinRequest builds the NodeInfo it proposes without a WriterState field (informational)
func main() { fg.Main("C23", c23) }

func c23(repo string, out *fg.Out) error {
	files, err := fg.ParseDir(repo, "internal/cluster/raft")
	if err != nil {
		return err
	}
	// AddNode/UpdateNode: the record is stored with `f.nodes[p.Node.ID] = &p.Node`, and BEFORE that
	// store the payload's writer state is overwritten: `p.Node.WriterState = old.WriterState` for an
	// existing id, `p.Node.WriterState = ""` when a new id comes in marked "primary".
	keeps := func(name string) (bool, error) {
		f, fd := fg.FindFunc(files, "ClusterFSM", name)
		if fd == nil {
			return false, fmt.Errorf("%s not found", name)
		}
		store, keepOld, clearNew := token.NoPos, token.NoPos, token.NoPos
		ast.Inspect(fd.Body, func(n ast.Node) bool {
			switch x := n.(type) {
			case *ast.AssignStmt:
				if len(x.Lhs) == 1 && len(x.Rhs) == 1 {
					l, r := f.Text(x.Lhs[0]), f.Text(x.Rhs[0])
					if l == "f.nodes[p.Node.ID]" && r == "&p.Node" {
						store = x.Pos()
					}
					if l == "p.Node.WriterState" && r == "old.WriterState" {
						keepOld = x.Pos()
					}
				}
			case *ast.IfStmt:
				if f.Text(x.Cond) == `p.Node.WriterState == "primary"` && len(x.Body.List) == 1 && f.Text(x.Body.List[0]) == `p.Node.WriterState = ""` {
					clearNew = x.Pos()
				}
			}
			return true
		})
		if store == token.NoPos {
			return false, fmt.Errorf("%s: `f.nodes[p.Node.ID] = &p.Node` not found", name)
		}
		return keepOld != token.NoPos && clearNew != token.NoPos && keepOld < store && clearNew < store, nil
	}
	addKeeps, err := keeps("applyAddNode")
	if err != nil {
		return err
	}
	updKeeps, err := keeps("applyUpdateNode")
	if err != nil {
		return err
	}
	// PromoteWriter: the `if !exists { … return … }` guard precedes every mutation
	// (any assignment to f.primaryWriterID or to a .WriterState field).
	pf, pd := fg.FindFunc(files, "ClusterFSM", "applyPromoteWriter")
	if pd == nil {
		return fmt.Errorf("applyPromoteWriter not found")
	}
	guard, firstMut := token.NoPos, token.NoPos
	ast.Inspect(pd.Body, func(n ast.Node) bool {
		switch x := n.(type) {
		case *ast.IfStmt:
			if pf.Text(x.Cond) == "!exists" && guard == token.NoPos {
				for _, st := range x.Body.List {
					if _, ok := st.(*ast.ReturnStmt); ok {
						guard = x.Pos()
					}
				}
			}
		case *ast.AssignStmt:
			for _, l := range x.Lhs {
				t := pf.Text(l)
				if t == "f.primaryWriterID" || strings.HasSuffix(t, ".WriterState") {
					if firstMut == token.NoPos || x.Pos() < firstMut {
						firstMut = x.Pos()
					}
				}
			}
		}
		return true
	})
	if firstMut == token.NoPos {
		return fmt.Errorf("applyPromoteWriter: no assignment to f.primaryWriterID / .WriterState found")
	}
	validatesFirst := guard != token.NoPos && guard < firstMut
	// RemoveNode: `if f.primaryWriterID == p.NodeID { f.primaryWriterID = "" }`
	rf, rd := fg.FindFunc(files, "ClusterFSM", "applyRemoveNode")
	if rd == nil {
		return fmt.Errorf("applyRemoveNode not found")
	}
	removeClears := false
	ast.Inspect(rd.Body, func(n ast.Node) bool {
		if x, ok := n.(*ast.IfStmt); ok && rf.Text(x.Cond) == "f.primaryWriterID == p.NodeID" &&
			len(x.Body.List) == 1 && rf.Text(x.Body.List[0]) == `f.primaryWriterID = ""` {
			removeClears = true
		}
		return true
	})
	// join: composite literal raft.NodeInfo{…} in handleJoinRequest without WriterState (informational:
	// with the fixes above a rejoin can no longer change the recorded assignment)
	cfiles, err := fg.ParseDir(repo, "internal/cluster")
	if err != nil {
		return err
	}
	jf, jd := fg.FindFunc(cfiles, "Coordinator", "handleJoinRequest")
	if jd == nil {
		return fmt.Errorf("Coordinator.handleJoinRequest not found")
	}
	joinSets, lit := false, false
	ast.Inspect(jd.Body, func(n ast.Node) bool {
		if cl, ok := n.(*ast.CompositeLit); ok && jf.Text(cl.Type) == "raft.NodeInfo" {
			lit = true
			for _, e := range cl.Elts {
				if kv, ok := e.(*ast.KeyValueExpr); ok && jf.Text(kv.Key) == "WriterState" {
					joinSets = true
				}
			}
		}
		return true
	})
	if !lit {
		return fmt.Errorf("handleJoinRequest: raft.NodeInfo{…} literal not found")
	}
	w := &out.Lean
	fmt.Fprintf(w, "namespace Arc.Generated.C23\n")
	fmt.Fprintf(w, "def addNodeKeepsWriterState : Bool := %v\n", addKeeps)
	fmt.Fprintf(w, "def updateNodeKeepsWriterState : Bool := %v\n", updKeeps)
	fmt.Fprintf(w, "def promoteValidatesBeforeMutating : Bool := %v\n", validatesFirst)
	fmt.Fprintf(w, "def removeNodeClearsPrimary : Bool := %v\n", removeClears)
	fmt.Fprintf(w, "def joinRequestSetsWriterState : Bool := %v\n", joinSets)
	fmt.Fprintf(w, "end Arc.Generated.C23\n")
	out.JSON["addNodeKeepsWriterState"] = addKeeps
	out.JSON["updateNodeKeepsWriterState"] = updKeeps
	out.JSON["promoteValidatesBeforeMutating"] = validatesFirst
	out.JSON["removeNodeClearsPrimary"] = removeClears
	out.JSON["joinRequestSetsWriterState"] = joinSets
	return nil
}
