package main

import (
	"fmt"
	"go/ast"
	"go/token"
	"strings"
	"verif/factgen/fg"
)

// C28: (window, slots) arguments of every newSlidingWindowCounter call site, the constructor's
// defaults, the quota tracker's truncation periods and reset comparison, the order of the two
// governance checks in executeQuery, and "CheckRateLimit never touches the quota trackers".
func main() { fg.Main("C28", c28) }

func c28(repo string, out *fg.Out) error {
	gov, err := fg.ParseDir(repo, "internal/governance")
	if err != nil {
		return err
	}
	env := fg.NewConstEnv(gov)

	// ---- (1) call sites of newSlidingWindowCounter: exactly the two getOrCreate*Limiter helpers
	type site struct {
		Name     string `json:"name"`
		WindowNs int64  `json:"window_ns"`
		Slots    int64  `json:"slots"`
	}
	var sites []site
	total := 0
	for _, f := range gov {
		for _, d := range f.AST.Decls {
			fd, ok := d.(*ast.FuncDecl)
			if !ok || fd.Body == nil {
				continue
			}
			for _, c := range fg.CallsNamed(fd.Body, "newSlidingWindowCounter") {
				total++
				if len(c.Args) != 3 {
					return fmt.Errorf("newSlidingWindowCounter call in %s with %d args (expected window, slots, limit)", fd.Name.Name, len(c.Args))
				}
				w, err := env.EvalInt(c.Args[0])
				if err != nil {
					return fmt.Errorf("%s: window argument not constant: %v", fd.Name.Name, err)
				}
				n, err := env.EvalInt(c.Args[1])
				if err != nil {
					return fmt.Errorf("%s: slot-count argument not constant: %v", fd.Name.Name, err)
				}
				sites = append(sites, site{fd.Name.Name, w, n})
			}
		}
	}
	byName := map[string]site{}
	for _, s := range sites {
		byName[s.Name] = s
	}
	mi, ok1 := byName["getOrCreateMinuteLimiter"]
	ho, ok2 := byName["getOrCreateHourLimiter"]
	if !ok1 || !ok2 || total != 2 {
		return fmt.Errorf("expected exactly two newSlidingWindowCounter call sites (getOrCreateMinuteLimiter, getOrCreateHourLimiter), found %d: %v", total, sites)
	}

	// ---- (2) which limiter CheckRateLimit consults under which policy field
	mf, crl := fg.FindFunc(gov, "Manager", "CheckRateLimit")
	if crl == nil {
		return fmt.Errorf("(*Manager).CheckRateLimit not found")
	}
	crlText := mf.Text(crl.Body)
	iMin := strings.Index(crlText, "getOrCreateMinuteLimiter(tokenID, policy.RateLimitPerMinute)")
	iHour := strings.Index(crlText, "getOrCreateHourLimiter(tokenID, policy.RateLimitPerHour)")
	if iMin < 0 || iHour < 0 || iMin > iHour {
		return fmt.Errorf("CheckRateLimit: expected getOrCreateMinuteLimiter(tokenID, policy.RateLimitPerMinute) before getOrCreateHourLimiter(tokenID, policy.RateLimitPerHour)")
	}
	if !strings.Contains(crlText, "policy.RateLimitPerMinute > 0") || !strings.Contains(crlText, "policy.RateLimitPerHour > 0") {
		return fmt.Errorf("CheckRateLimit: guards `policy.RateLimitPerMinute > 0` / `policy.RateLimitPerHour > 0` not found")
	}
	// CheckRateLimit (and what it calls in this package) never touches the quota trackers
	touches := false
	for _, fn := range [][2]string{{"Manager", "CheckRateLimit"}, {"Manager", "getOrCreateMinuteLimiter"}, {"Manager", "getOrCreateHourLimiter"},
		{"slidingWindowCounter", "Allow"}, {"slidingWindowCounter", "advance"}, {"slidingWindowCounter", "RetryAfterSec"}} {
		ff, fd := fg.FindFunc(gov, fn[0], fn[1])
		if fd == nil {
			return fmt.Errorf("%s.%s not found", fn[0], fn[1])
		}
		t := ff.Text(fd.Body)
		for _, w := range []string{"quotaTrackers", "getOrCreateQuotaTracker", "AllowQuery", "quotaTracker", "queriesThis"} {
			if strings.Contains(t, w) {
				touches = true
			}
		}
	}

	// ---- (3) constructor defaults
	sf, nsw := fg.FindFunc(gov, "", "newSlidingWindowCounter")
	if nsw == nil {
		return fmt.Errorf("newSlidingWindowCounter not found")
	}
	var defSlots, minSlot int64 = -1, -1
	ast.Inspect(nsw.Body, func(n ast.Node) bool {
		is, ok := n.(*ast.IfStmt)
		if !ok {
			return true
		}
		cond := sf.Text(is.Cond)
		if len(is.Body.List) == 1 {
			if as, ok := is.Body.List[0].(*ast.AssignStmt); ok && len(as.Rhs) == 1 {
				switch {
				case cond == "slotCount <= 0" && sf.Text(as.Lhs[0]) == "slotCount":
					if v, err := env.EvalInt(as.Rhs[0]); err == nil {
						defSlots = v
					}
				case strings.HasPrefix(cond, "slotDuration < ") && sf.Text(as.Lhs[0]) == "slotDuration":
					be := is.Cond.(*ast.BinaryExpr)
					a, e1 := env.EvalInt(be.Y)
					b, e2 := env.EvalInt(as.Rhs[0])
					if e1 == nil && e2 == nil && a == b {
						minSlot = a
					}
				}
			}
		}
		return true
	})
	if defSlots < 0 || minSlot < 0 {
		return fmt.Errorf("newSlidingWindowCounter: `if slotCount <= 0 { slotCount = C }` / `if slotDuration < M { slotDuration = M }` not found")
	}
	if !strings.Contains(sf.Text(nsw.Body), "slotDuration := windowSize / time.Duration(slotCount)") {
		return fmt.Errorf("newSlidingWindowCounter: `slotDuration := windowSize / time.Duration(slotCount)` not found")
	}
	// Allow: the admission test
	_, allow := fg.FindFunc(gov, "slidingWindowCounter", "Allow")
	if allow == nil || !strings.Contains(sf.Text(allow.Body), "s.limit > 0 && s.total >= s.limit") {
		return fmt.Errorf("Allow: admission test `s.limit > 0 && s.total >= s.limit` not found")
	}
	_, adv := fg.FindFunc(gov, "slidingWindowCounter", "advance")
	if adv == nil || !strings.Contains(sf.Text(adv.Body), "slotsToAdvance >= s.slotCount") || !strings.Contains(sf.Text(adv.Body), "elapsed <= 0") {
		return fmt.Errorf("advance: `elapsed <= 0` / `slotsToAdvance >= s.slotCount` not found")
	}

	// ---- (4) quota tracker: truncation periods and the reset comparison
	qf, mr := fg.FindFunc(gov, "quotaTracker", "maybeReset")
	if mr == nil {
		return fmt.Errorf("(*quotaTracker).maybeReset not found")
	}
	type reset struct {
		field  string
		cmp    string
		period int64
	}
	var resets []reset
	for _, st := range mr.Body.List {
		is, ok := st.(*ast.IfStmt)
		if !ok {
			continue
		}
		cmp := ""
		var field string
		switch c := is.Cond.(type) {
		case *ast.CallExpr: // now.After(q.xResetAt)
			if sel, ok := c.Fun.(*ast.SelectorExpr); ok && qf.Text(sel.X) == "now" && len(c.Args) == 1 {
				cmp = sel.Sel.Name
				field = qf.Text(c.Args[0])
			}
		case *ast.UnaryExpr: // !now.Before(q.xResetAt)
			if c.Op == token.NOT {
				if cc, ok := c.X.(*ast.CallExpr); ok {
					if sel, ok := cc.Fun.(*ast.SelectorExpr); ok && qf.Text(sel.X) == "now" && len(cc.Args) == 1 {
						cmp = "Not" + sel.Sel.Name
						field = qf.Text(cc.Args[0])
					}
				}
			}
		}
		if cmp == "" {
			return fmt.Errorf("maybeReset: unrecognised reset condition %q", qf.Text(is.Cond))
		}
		var period int64 = -1
		for _, c := range fg.CallsNamed(is.Body, "Truncate") {
			if v, err := env.EvalInt(c.Args[0]); err == nil {
				period = v
			}
		}
		var addP int64 = -2
		for _, c := range fg.CallsNamed(is.Body, "Add") {
			if v, err := env.EvalInt(c.Args[0]); err == nil {
				addP = v
			}
		}
		if period < 0 || addP != period {
			return fmt.Errorf("maybeReset: expected `%s = now.Truncate(P).Add(P)` in the %s branch", field, field)
		}
		resets = append(resets, reset{field, cmp, period})
	}
	if len(resets) != 2 || resets[0].field != "q.hourResetAt" || resets[1].field != "q.dayResetAt" {
		return fmt.Errorf("maybeReset: expected the hour branch then the day branch, got %v", resets)
	}
	_, aq := fg.FindFunc(gov, "quotaTracker", "AllowQuery")
	if aq == nil {
		return fmt.Errorf("AllowQuery not found")
	}
	aqt := qf.Text(aq.Body)
	i1 := strings.Index(aqt, "q.maxPerHour > 0 && q.queriesThisHour >= q.maxPerHour")
	i2 := strings.Index(aqt, "q.maxPerDay > 0 && q.queriesThisDay >= q.maxPerDay")
	if i1 < 0 || i2 < 0 || i1 > i2 {
		return fmt.Errorf("AllowQuery: hourly test then daily test not found")
	}

	// ---- (5) order of the checks in executeQuery
	api, err := fg.ParseFile(repo, "internal/api/query.go")
	if err != nil {
		return err
	}
	eq := api.FuncDecl("QueryHandler", "executeQuery")
	if eq == nil {
		return fmt.Errorf("(*QueryHandler).executeQuery not found in internal/api/query.go")
	}
	var order []string
	rlReturns := false
	quotaInsideRL := false
	ast.Inspect(eq.Body, func(n ast.Node) bool {
		is, ok := n.(*ast.IfStmt)
		if !ok || is.Init == nil {
			return true
		}
		as, ok := is.Init.(*ast.AssignStmt)
		if !ok || len(as.Rhs) != 1 {
			return true
		}
		call, ok := as.Rhs[0].(*ast.CallExpr)
		if !ok {
			return true
		}
		nm := fg.CalleeName(call)
		if nm != "CheckRateLimit" && nm != "CheckQuota" {
			return true
		}
		if api.Text(is.Cond) != "!result.Allowed" {
			return true
		}
		order = append(order, nm)
		if nm == "CheckRateLimit" {
			if k := len(is.Body.List); k > 0 {
				_, rlReturns = is.Body.List[k-1].(*ast.ReturnStmt)
			}
			if len(fg.CallsNamed(is.Body, "CheckQuota")) > 0 {
				quotaInsideRL = true
			}
			if is.Else != nil {
				quotaInsideRL = true
			}
		}
		return true
	})
	nRL := len(fg.CallsNamed(eq.Body, "CheckRateLimit"))
	nQ := len(fg.CallsNamed(eq.Body, "CheckQuota"))
	if len(order) != 2 || order[0] != "CheckRateLimit" || order[1] != "CheckQuota" || nRL != 1 || nQ != 1 || quotaInsideRL {
		return fmt.Errorf("executeQuery: expected `if result := …CheckRateLimit(…); !result.Allowed {… return}` followed by `if result := …CheckQuota(…); !result.Allowed`, got order=%v (calls: %d, %d)", order, nRL, nQ)
	}

	b2s := func(b bool) string {
		if b {
			return "true"
		}
		return "false"
	}
	w := &out.Lean
	fmt.Fprintf(w, "namespace Arc.Generated.C28\n")
	fmt.Fprintf(w, "/-- (helper containing the call, windowSize ns, slotCount) for every newSlidingWindowCounter call site -/\n")
	fmt.Fprintf(w, "def sites : List (String × Int × Int) := [\n  (%s, %s, %s),\n  (%s, %s, %s)\n]\n",
		fg.LeanStr(mi.Name), fg.LeanInt(mi.WindowNs), fg.LeanInt(mi.Slots), fg.LeanStr(ho.Name), fg.LeanInt(ho.WindowNs), fg.LeanInt(ho.Slots))
	fmt.Fprintf(w, "def defaultSlots : Int := %s\n", fg.LeanInt(defSlots))
	fmt.Fprintf(w, "def minSlotNs : Int := %s\n", fg.LeanInt(minSlot))
	fmt.Fprintf(w, "/-- maybeReset: (field, comparison `now.<cmp>(field)`, Truncate/Add period ns) in source order -/\n")
	fmt.Fprintf(w, "def resets : List (String × String × Int) := [\n  (%s, %s, %s),\n  (%s, %s, %s)\n]\n",
		fg.LeanStr(resets[0].field), fg.LeanStr(resets[0].cmp), fg.LeanInt(resets[0].period),
		fg.LeanStr(resets[1].field), fg.LeanStr(resets[1].cmp), fg.LeanInt(resets[1].period))
	fmt.Fprintf(w, "/-- governance checks of executeQuery in source order -/\n")
	fmt.Fprintf(w, "def handlerOrder : List String := [%s, %s]\n", fg.LeanStr(order[0]), fg.LeanStr(order[1]))
	fmt.Fprintf(w, "/-- the `!result.Allowed` branch of the CheckRateLimit check ends with `return` -/\n")
	fmt.Fprintf(w, "def rateLimitRejectReturns : Bool := %s\n", b2s(rlReturns))
	fmt.Fprintf(w, "/-- CheckRateLimit / the limiter code mention the quota tracker -/\n")
	fmt.Fprintf(w, "def rateLimitTouchesQuota : Bool := %s\n", b2s(touches))
	fmt.Fprintf(w, "end Arc.Generated.C28\n")
	out.JSON["sites"] = []site{mi, ho}
	out.JSON["default_slots"] = defSlots
	out.JSON["min_slot_ns"] = minSlot
	out.JSON["resets"] = []map[string]any{{"field": resets[0].field, "cmp": resets[0].cmp, "period_ns": resets[0].period}, {"field": resets[1].field, "cmp": resets[1].cmp, "period_ns": resets[1].period}}
	out.JSON["handler_order"] = order
	out.JSON["rate_limit_reject_returns"] = rlReturns
	out.JSON["rate_limit_touches_quota"] = touches
	return nil
}
