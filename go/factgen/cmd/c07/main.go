package main

import (
	"fmt"
	"go/ast"
	"go/token"
	"sort"
	"strings"
	"verif/factgen/fg"
)

// C07: the code facts the durability theorems hinge on, read off the current source:
//   - cmd/arc/main.go: order of PurgeOlderThan / RecoverWithOptions / ResetFlushFailure in the two
//     branches of the WAL maintenance tick, the RecoveryOptions of the periodic and the start-up
//     recovery, the safeAge formula, the shutdown registrations (kind, priority) of arrow-buffer, wal
//     and the wal-purge hook;
//   - internal/shutdown/shutdown.go: hooks run before components, both ascending by priority;
//   - internal/ingest/arrow_writer.go: which failure sites call markFlushFailure, what the write path
//     returns after a queue-full drop, Close() never drains the flush queue.
func main() { fg.Main("C07", c07) }

func contains(f *fg.File, n ast.Node, callee string) bool { return len(fg.CallsNamed(n, callee)) > 0 }

// selText: "a.b.c" for nested selector/ident expressions
func selText(e ast.Expr) string {
	switch x := e.(type) {
	case *ast.Ident:
		return x.Name
	case *ast.SelectorExpr:
		return selText(x.X) + "." + x.Sel.Name
	}
	return "?"
}

type posAct struct {
	pos token.Pos
	act string
}

func tickActs(n ast.Node) []string {
	var ps []posAct
	ast.Inspect(n, func(m ast.Node) bool {
		c, ok := m.(*ast.CallExpr)
		if !ok {
			return true
		}
		switch fg.CalleeName(c) {
		case "PurgeOlderThan":
			ps = append(ps, posAct{c.Pos(), "purge"})
		case "RecoverWithOptions":
			ps = append(ps, posAct{c.Pos(), "replay"})
		case "ResetFlushFailure":
			ps = append(ps, posAct{c.Pos(), "reset"})
		}
		return true
	})
	sort.Slice(ps, func(i, j int) bool { return ps[i].pos < ps[j].pos })
	var out []string
	for _, p := range ps {
		out = append(out, p.act)
	}
	return out
}

// options of a RecoverWithOptions call: keys of the &wal.RecoveryOptions{...} literal
func recOptions(c *ast.CallExpr) (map[string]ast.Expr, error) {
	if len(c.Args) != 3 {
		return nil, fmt.Errorf("RecoverWithOptions: expected 3 args")
	}
	u, ok := c.Args[2].(*ast.UnaryExpr)
	if !ok {
		return nil, fmt.Errorf("RecoverWithOptions: options are not a &literal")
	}
	cl, ok := u.X.(*ast.CompositeLit)
	if !ok {
		return nil, fmt.Errorf("RecoverWithOptions: options are not a composite literal")
	}
	out := map[string]ast.Expr{}
	for _, e := range cl.Elts {
		kv, ok := e.(*ast.KeyValueExpr)
		if !ok {
			return nil, fmt.Errorf("RecoveryOptions literal without keys")
		}
		out[selText(kv.Key)] = kv.Value
	}
	return out, nil
}

func c07(repo string, out *fg.Out) error {
	mainF, err := fg.ParseFile(repo, "cmd/arc/main.go")
	if err != nil {
		return err
	}
	shFiles, err := fg.ParseDir(repo, "internal/shutdown")
	if err != nil {
		return err
	}
	shEnv := fg.NewConstEnv(shFiles)
	timeEnv := &fg.ConstEnv{Exprs: map[string]ast.Expr{}, Pkgs: map[string]*fg.ConstEnv{}}
	for n, v := range map[string]string{"Nanosecond": "1", "Microsecond": "1000", "Millisecond": "1000000", "Second": "1000000000", "Minute": "60000000000", "Hour": "3600000000000"} {
		timeEnv.Exprs[n] = &ast.BasicLit{Kind: token.INT, Value: v}
	}
	env := fg.NewConstEnv([]*fg.File{mainF})
	env.Pkgs["shutdown"] = shEnv
	env.Pkgs["time"] = timeEnv

	mainFn := mainF.FuncDecl("", "main")
	if mainFn == nil {
		return fmt.Errorf("func main not found in cmd/arc/main.go")
	}

	// ---- maintenance tick: the if statement on arrowBuffer.HasFlushFailure()
	var tickIf *ast.IfStmt
	nIf := 0
	ast.Inspect(mainFn, func(n ast.Node) bool {
		is, ok := n.(*ast.IfStmt)
		if !ok {
			return true
		}
		if c, ok := is.Cond.(*ast.CallExpr); ok && fg.CalleeName(c) == "HasFlushFailure" && is.Else != nil {
			tickIf = is
			nIf++
		}
		return true
	})
	if nIf != 1 || tickIf.Else == nil {
		return fmt.Errorf("expected exactly one `if arrowBuffer.HasFlushFailure() {…} else {…}` in main (found %d)", nIf)
	}
	tickFlag := tickActs(tickIf.Body)
	tickElse := tickActs(tickIf.Else)
	cnt := func(xs []string, a string) int {
		n := 0
		for _, x := range xs {
			if x == a {
				n++
			}
		}
		return n
	}
	if cnt(tickFlag, "replay") != 1 || cnt(tickFlag, "reset") != 1 || cnt(tickFlag, "purge") > 1 || len(tickElse) > 1 || cnt(tickElse, "replay")+cnt(tickElse, "reset") != 0 {
		return fmt.Errorf("tick branches have an unexpected shape: flag=%v else=%v", tickFlag, tickElse)
	}
	// ResetFlushFailure must not be guarded by the number of recovered files (the model resets whenever
	// RecoverWithOptions returned no error)
	resetGuarded := false
	ast.Inspect(tickIf.Body, func(n ast.Node) bool {
		is, ok := n.(*ast.IfStmt)
		if !ok {
			return true
		}
		if strings.Contains(mainF.Text(is.Cond), "RecoveredFiles") && contains(mainF, is.Body, "ResetFlushFailure") {
			resetGuarded = true
		}
		return true
	})
	if resetGuarded {
		return fmt.Errorf("ResetFlushFailure is now guarded by RecoveredFiles: the model's tick needs an update")
	}
	resetClean := false
	ast.Inspect(tickIf.Body, func(n ast.Node) bool {
		is, ok := n.(*ast.IfStmt)
		if !ok {
			return true
		}
		ct := strings.Join(strings.Fields(mainF.Text(is.Cond)), "")
		if strings.Contains(ct, "CorruptedEntries==0") && contains(mainF, is.Body, "ResetFlushFailure") {
			resetClean = true
		}
		return true
	})
	// purge argument is safeAge in both branches
	for _, c := range fg.CallsNamed(tickIf, "PurgeOlderThan") {
		if len(c.Args) != 1 || selText(c.Args[0]) != "safeAge" {
			return fmt.Errorf("PurgeOlderThan in the tick is not called with safeAge")
		}
	}
	// periodic recovery options
	perCalls := fg.CallsNamed(tickIf.Body, "RecoverWithOptions")
	perOpts, err := recOptions(perCalls[0])
	if err != nil {
		return err
	}
	if _, ok := perOpts["SkipActiveFile"]; !ok {
		return fmt.Errorf("periodic RecoverWithOptions no longer passes SkipActiveFile")
	}
	if _, ok := perOpts["ColumnarCallback"]; !ok {
		return fmt.Errorf("periodic RecoverWithOptions no longer passes ColumnarCallback")
	}
	var minFileAge int64
	if e, ok := perOpts["MinFileAge"]; ok {
		minFileAge, err = env.EvalInt(e)
		if err != nil {
			return fmt.Errorf("periodic MinFileAge: %v", err)
		}
	}
	// start-up recovery: the RecoverWithOptions call in main that is not inside the tick
	var startCall *ast.CallExpr
	for _, c := range fg.CallsNamed(mainFn, "RecoverWithOptions") {
		if c.Pos() < tickIf.Pos() || c.Pos() > tickIf.End() {
			if startCall != nil {
				return fmt.Errorf("more than one RecoverWithOptions outside the tick")
			}
			startCall = c
		}
	}
	if startCall == nil {
		return fmt.Errorf("start-up RecoverWithOptions not found")
	}
	stOpts, err := recOptions(startCall)
	if err != nil {
		return err
	}
	if _, ok := stOpts["SkipActiveFile"]; !ok {
		return fmt.Errorf("start-up RecoverWithOptions no longer passes SkipActiveFile")
	}
	var startMinAge int64
	if e, ok := stOpts["MinFileAge"]; ok {
		startMinAge, err = env.EvalInt(e)
		if err != nil {
			return err
		}
	}
	if startMinAge != 0 {
		return fmt.Errorf("start-up recovery now has MinFileAge=%d: the model's restart needs an update", startMinAge)
	}
	// safeAge := time.Duration(cfg.Ingest.MaxBufferAgeMS) * time.Millisecond * K ; if safeAge < F { safeAge = F }
	var mult, floor int64 = -1, -1
	ast.Inspect(mainFn, func(n ast.Node) bool {
		switch x := n.(type) {
		case *ast.AssignStmt:
			if len(x.Lhs) == 1 && selText(x.Lhs[0]) == "safeAge" && x.Tok == token.DEFINE {
				if be, ok := x.Rhs[0].(*ast.BinaryExpr); ok && be.Op == token.MUL {
					txt := mainF.Text(be.X)
					if strings.Contains(txt, "MaxBufferAgeMS") && strings.Contains(txt, "time.Millisecond") {
						if v, err := env.EvalInt(be.Y); err == nil {
							mult = v
						}
					}
				}
			}
		case *ast.IfStmt:
			if be, ok := x.Cond.(*ast.BinaryExpr); ok && be.Op == token.LSS && selText(be.X) == "safeAge" {
				if v, err := env.EvalInt(be.Y); err == nil {
					floor = v
				}
			}
		}
		return true
	})
	if mult < 0 || floor < 0 {
		return fmt.Errorf("safeAge formula not recognised (mult=%d floor=%d)", mult, floor)
	}

	// ---- shutdown registrations
	type reg struct {
		Name     string `json:"name"`
		Kind     string `json:"kind"` // hook | component
		Priority int64  `json:"priority"`
		Action   string `json:"action"`
	}
	var regs []reg
	purgeGuarded := false
	want := map[string]string{"arrow-buffer": "bufClose", "wal": "walClose", "wal-purge": "purgeAll"}
	var rerr error
	ast.Inspect(mainFn, func(n ast.Node) bool {
		c, ok := n.(*ast.CallExpr)
		if !ok {
			return true
		}
		nm := fg.CalleeName(c)
		if nm != "Register" && nm != "RegisterHook" {
			return true
		}
		se, ok := c.Fun.(*ast.SelectorExpr)
		if !ok || selText(se.X) != "shutdownCoordinator" || len(c.Args) != 3 {
			return true
		}
		lit, ok := c.Args[0].(*ast.BasicLit)
		if !ok {
			return true
		}
		name := strings.Trim(lit.Value, "\"")
		act, ok := want[name]
		if !ok {
			return true
		}
		p, err := env.EvalInt(c.Args[2])
		if err != nil {
			rerr = fmt.Errorf("priority of %s: %v", name, err)
			return false
		}
		kind := "component"
		if name == "wal-purge" {
			if !contains(mainF, c.Args[1], "PurgeAll") {
				rerr = fmt.Errorf("wal-purge no longer calls PurgeAll")
			}
			// skipped while a flush failure is pending: an if on HasFlushFailure() that returns before PurgeAll
			ast.Inspect(c.Args[1], func(m ast.Node) bool {
				if is, ok := m.(*ast.IfStmt); ok && contains(mainF, is.Cond, "HasFlushFailure") {
					for _, pc := range fg.CallsNamed(c.Args[1], "PurgeAll") {
						hasRet := false
						ast.Inspect(is.Body, func(x ast.Node) bool {
							if _, ok := x.(*ast.ReturnStmt); ok {
								hasRet = true
							}
							return true
						})
						if is.End() < pc.Pos() && hasRet {
							purgeGuarded = true
						}
					}
				}
				return true
			})
		}
		if nm == "RegisterHook" {
			kind = "hook"
		} else if name != "wal-purge" {
			arg := selText(c.Args[1])
			if (name == "arrow-buffer" && arg != "arrowBuffer") || (name == "wal" && arg != "walWriter") {
				rerr = fmt.Errorf("component %s registered with %s", name, arg)
			}
		}
		regs = append(regs, reg{name, kind, p, act})
		return true
	})
	if rerr != nil {
		return rerr
	}
	if len(regs) != 3 {
		return fmt.Errorf("expected the registrations arrow-buffer, wal, wal-purge exactly once each, found %v", regs)
	}
	// coordinator: hooks loop before components loop, ascending sorts
	shF, shFn := fg.FindFunc(shFiles, "Coordinator", "Shutdown")
	if shFn == nil {
		return fmt.Errorf("Coordinator.Shutdown not found")
	}
	var hooksPos, compPos token.Pos
	ast.Inspect(shFn, func(n ast.Node) bool {
		if r, ok := n.(*ast.RangeStmt); ok {
			switch selText(r.X) {
			case "hooks":
				if contains(shF, r.Body, "hook") {
					hooksPos = r.Pos()
				}
			case "components":
				if contains(shF, r.Body, "Close") {
					compPos = r.Pos()
				}
			}
		}
		return true
	})
	if hooksPos == 0 || compPos == 0 {
		return fmt.Errorf("Coordinator.Shutdown: hook / component loops not found")
	}
	hooksFirst := hooksPos < compPos
	for _, nm := range []string{"sortComponentsByPriority", "sortHooksByPriority"} {
		f, fn := fg.FindFunc(shFiles, "", nm)
		if fn == nil {
			return fmt.Errorf("%s not found", nm)
		}
		t := strings.Join(strings.Fields(f.Text(fn.Body)), "")
		if !strings.Contains(t, "[j].priority<") || !strings.Contains(t, "[i].priority{") {
			return fmt.Errorf("%s is not the ascending exchange sort any more", nm)
		}
	}
	ordered := append([]reg{}, regs...)
	sort.SliceStable(ordered, func(i, j int) bool {
		a, b := ordered[i], ordered[j]
		if a.Kind != b.Kind {
			return (a.Kind == "hook") == hooksFirst
		}
		return a.Priority < b.Priority
	})
	var shutOrder []string
	for _, r := range ordered {
		shutOrder = append(shutOrder, r.Action)
	}

	// ---- arrow_writer.go
	aw, err := fg.ParseFile(repo, "internal/ingest/arrow_writer.go")
	if err != nil {
		return err
	}
	fn := func(name string) (*ast.FuncDecl, error) {
		d := aw.FuncDecl("ArrowBuffer", name)
		if d == nil {
			return nil, fmt.Errorf("ArrowBuffer.%s not found", name)
		}
		return d, nil
	}
	mff, err := fn("markFlushFailure")
	if err != nil {
		return err
	}
	if !strings.Contains(strings.Join(strings.Fields(aw.Text(mff.Body)), ""), "hasFlushFailure.Store(true)") {
		return fmt.Errorf("markFlushFailure no longer sets hasFlushFailure")
	}
	teq, err := fn("tryEnqueueFlush")
	if err != nil {
		return err
	}
	var defClause *ast.CommClause
	nsel := 0
	ast.Inspect(teq, func(n ast.Node) bool {
		if s, ok := n.(*ast.SelectStmt); ok {
			nsel++
			for _, cc := range s.Body.List {
				if c := cc.(*ast.CommClause); c.Comm == nil {
					defClause = c
				}
			}
		}
		return true
	})
	if nsel != 1 || defClause == nil {
		return fmt.Errorf("tryEnqueueFlush: expected one select with a default (queue-full) arm")
	}
	queueFullSetsFlag := contains(aw, defClause, "markFlushFailure")
	returnsFull := false
	for _, st := range defClause.Body {
		if r, ok := st.(*ast.ReturnStmt); ok && len(r.Results) == 1 && selText(r.Results[0]) == "flushQueueFull" {
			returnsFull = true
		}
	}
	if !returnsFull {
		return fmt.Errorf("tryEnqueueFlush default arm no longer returns flushQueueFull")
	}
	// write paths, each on its own: is a queue-full drop turned into a non-nil return value, and only
	// when b.wal == nil?  A `return helper(outcome)` is resolved through the helper's body; a helper call
	// whose result is discarded reports nothing.
	noWalCond := func(e ast.Expr) bool {
		return strings.Contains(strings.Join(strings.Fields(aw.Text(e)), ""), "b.wal==nil")
	}
	// errorReturns: does the subtree return a non-nil error (errs), and is every such return under a
	// `b.wal == nil` condition (noWal)?
	var errorReturns func(root ast.Node, from token.Pos, depth int) (bool, bool)
	errorReturns = func(root ast.Node, from token.Pos, depth int) (bool, bool) {
		errs, allNoWal := false, true
		var stack []ast.Node
		ast.Inspect(root, func(n ast.Node) bool {
			if n == nil {
				stack = stack[:len(stack)-1]
				return true
			}
			stack = append(stack, n)
			r, ok := n.(*ast.ReturnStmt)
			if !ok || r.Pos() < from || len(r.Results) != 1 {
				return true
			}
			if id, ok := r.Results[0].(*ast.Ident); ok && id.Name == "nil" {
				return true
			}
			guarded := false
			for _, a := range stack {
				if is, ok := a.(*ast.IfStmt); ok && noWalCond(is.Cond) {
					guarded = true
				}
			}
			if c, ok := r.Results[0].(*ast.CallExpr); ok && depth < 2 {
				if h := aw.FuncDecl("ArrowBuffer", fg.CalleeName(c)); h != nil {
					he, hn := errorReturns(h.Body, 0, depth+1)
					if he {
						errs = true
						if !guarded && !hn {
							allNoWal = false
						}
					}
					return true
				}
			}
			errs = true
			if !guarded {
				allNoWal = false
			}
			return true
		})
		return errs, errs && allNoWal
	}
	pathFacts := map[string][2]bool{}
	for _, name := range []string{"writeColumnarInternal", "writeTypedColumnarRaw"} {
		d, err := fn(name)
		if err != nil {
			return err
		}
		calls := fg.CallsNamed(d, "tryEnqueueFlush")
		if len(calls) != 1 {
			return fmt.Errorf("%s: expected one tryEnqueueFlush call", name)
		}
		e, n := errorReturns(d, calls[0].Pos(), 0)
		pathFacts[name] = [2]bool{e, n}
	}
	queueFullErrors, onlyNoWal := pathFacts["writeColumnarInternal"][0], pathFacts["writeColumnarInternal"][1]
	typedErrors, typedOnlyNoWal := pathFacts["writeTypedColumnarRaw"][0], pathFacts["writeTypedColumnarRaw"][1]
	// the public entry points of the typed path end in writeTypedColumnarRaw and pass its error on
	for _, pr := range [][2]string{{"WriteTypedColumnarDirect", "writeTypedColumnarInternal"}, {"writeTypedColumnarInternal", "writeTypedColumnarRaw"}} {
		d, err := fn(pr[0])
		if err != nil {
			return err
		}
		if !strings.Contains(strings.Join(strings.Fields(aw.Text(d.Body)), ""), "returnb."+pr[1]+"(") {
			return fmt.Errorf("%s no longer returns the result of %s", pr[0], pr[1])
		}
	}
	fra, err := fn("flushRecordsAsync")
	if err != nil {
		return err
	}
	fbl, err := fn("flushBufferLocked")
	if err != nil {
		return err
	}
	// failBranchMarks: (the failure branch calls markFlushFailure, it also does so when the flush context is
	// done) — a statement before the call that tests ctx.Err()/ctx.Done()/context.DeadlineExceeded/Canceled
	// and returns makes the site conditional on a live context.
	failBranchMarks := func(d *ast.FuncDecl, callee string) (bool, bool, error) {
		found, marks, onTimeout := false, false, false
		ast.Inspect(d, func(n ast.Node) bool {
			is, ok := n.(*ast.IfStmt)
			if !ok || is.Init == nil {
				return true
			}
			if !contains(aw, is.Init, callee) {
				return true
			}
			found = true
			mcs := fg.CallsNamed(is.Body, "markFlushFailure")
			marks = len(mcs) > 0
			onTimeout = marks
			ast.Inspect(is.Body, func(m ast.Node) bool {
				g, ok := m.(*ast.IfStmt)
				if !ok {
					return true
				}
				ct := strings.Join(strings.Fields(aw.Text(g.Cond)), "")
				ctxCond := strings.Contains(ct, "ctx.Err()") || strings.Contains(ct, "ctx.Done()") || strings.Contains(ct, "context.DeadlineExceeded") || strings.Contains(ct, "context.Canceled")
				if !ctxCond {
					return true
				}
				for _, mc := range mcs {
					inside := mc.Pos() >= g.Pos() && mc.End() <= g.End()
					returnsBefore := false
					ast.Inspect(g.Body, func(x ast.Node) bool {
						if _, ok := x.(*ast.ReturnStmt); ok {
							returnsBefore = true
						}
						return true
					})
					if (g.End() < mc.Pos() && returnsBefore) || (inside && strings.Contains(ct, "==nil")) {
						onTimeout = false
					}
					if g.Else != nil && mc.Pos() >= g.Else.Pos() && mc.End() <= g.Else.End() {
						onTimeout = false
					}
				}
				return true
			})
			return true
		})
		if !found {
			return false, false, fmt.Errorf("%s: `if err := b.%s(…); err != nil` not found", d.Name.Name, callee)
		}
		return marks, onTimeout, nil
	}
	workerFail, workerTimeout, err := failBranchMarks(fra, "flushWithDataTimePartitioning")
	if err != nil {
		return err
	}
	syncFail, syncTimeout, err := failBranchMarks(fbl, "flushBufferLockedDataTime")
	if err != nil {
		return err
	}
	cl, err := fn("Close")
	if err != nil {
		return err
	}
	clText := strings.Join(strings.Fields(aw.Text(cl.Body)), "")
	if strings.Contains(clText, "<-b.flushQueue") || strings.Contains(clText, "rangeb.flushQueue") || strings.Contains(clText, "close(b.flushQueue)") {
		return fmt.Errorf("ArrowBuffer.Close now drains / closes flushQueue: the model's bufClose needs an update")
	}
	closeDropSetsFlag := false
	ast.Inspect(cl.Body, func(n ast.Node) bool {
		if is, ok := n.(*ast.IfStmt); ok {
			t := strings.Join(strings.Fields(aw.Text(is)), "")
			if strings.Contains(t, "len(b.flushQueue)") && contains(aw, is.Body, "markFlushFailure") {
				closeDropSetsFlag = true
			}
		}
		return true
	})
	if !contains(aw, cl, "flushBufferLocked") {
		return fmt.Errorf("ArrowBuffer.Close no longer flushes the remaining buffers")
	}
	cb := mainF.FuncDecl("", "createColumnarRecoveryCallback")
	if cb == nil || !contains(mainF, cb, "WriteColumnarDirectNoWAL") {
		return fmt.Errorf("createColumnarRecoveryCallback no longer replays through WriteColumnarDirectNoWAL")
	}

	// ---- every HTTP ingest handler turns a buffer write error into a non-2xx reply: the ArrowBuffer
	// write call is the Init of `if err := …; err != nil { … return c.Status(…) / error … }`
	apiFiles, err := fg.ParseDir(repo, "internal/api")
	if err != nil {
		return err
	}
	writeCallers := 0
	for _, f := range apiFiles {
		var ferr error
		ast.Inspect(f.AST, func(n ast.Node) bool {
			is, ok := n.(*ast.IfStmt)
			var call *ast.CallExpr
			if ok && is.Init != nil {
				for _, nm := range []string{"Write", "WriteColumnarRecord", "WriteTypedColumnarDirect", "WriteColumnarDirect"} {
					for _, c := range fg.CallsNamed(is.Init, nm) {
						if se, ok := c.Fun.(*ast.SelectorExpr); ok {
							t := selText(se.X)
							if strings.HasSuffix(t, ".arrowBuffer") || strings.HasSuffix(t, ".buffer") {
								call = c
							}
						}
					}
				}
			}
			if call == nil {
				return true
			}
			writeCallers++
			hasRet := false
			ast.Inspect(is.Body, func(m ast.Node) bool {
				if r, ok := m.(*ast.ReturnStmt); ok {
					t := f.Text(r)
					if strings.Contains(t, "Status(") || strings.Contains(t, "importError") || strings.Contains(t, "Errorf") || strings.Contains(t, "err") {
						if !strings.Contains(t, "StatusNoContent") && !strings.Contains(t, "StatusOK") {
							hasRet = true
						}
					}
				}
				return true
			})
			if !hasRet {
				ferr = fmt.Errorf("%s:%d: buffer write error is not turned into an error reply", f.Path, f.Line(is))
			}
			return true
		})
		if ferr != nil {
			return ferr
		}
	}
	// the err := …; if err != nil form (lineprotocol.go)
	for _, f := range apiFiles {
		t := strings.Join(strings.Fields(string(f.Src)), "")
		if strings.Contains(t, "err:=h.buffer.WriteColumnarRecord(") {
			if !strings.Contains(t, "err:=h.buffer.WriteColumnarRecord(c.Context(),database,record)iferr!=nil{") {
				return fmt.Errorf("%s: WriteColumnarRecord error no longer checked", f.Path)
			}
			writeCallers++
		}
	}
	if writeCallers < 5 {
		return fmt.Errorf("expected at least 5 checked ArrowBuffer write call sites in internal/api, found %d", writeCallers)
	}

	// ---- output
	leanList := func(xs []string) string {
		var p []string
		for _, x := range xs {
			p = append(p, "."+x)
		}
		return "[" + strings.Join(p, ", ") + "]"
	}
	b := func(x bool) string {
		if x {
			return "true"
		}
		return "false"
	}
	fmt.Fprintf(&out.Lean, "import Arc.Model.C07\nnamespace Arc.Generated.C07\n")
	fmt.Fprintf(&out.Lean, "/-- cmd/arc/main.go (maintenance tick, shutdown registrations), internal/shutdown (hooks %s components),\ninternal/ingest/arrow_writer.go (markFlushFailure sites, queue-full return) of the current source -/\n", map[bool]string{true: "before", false: "after"}[hooksFirst])
	fmt.Fprintf(&out.Lean, "def facts : Arc.C07.Facts :=\n  { tickFlag := %s, tickElse := %s,\n    queueFullSetsFlag := %s, queueFullErrors := %s, queueFullErrorsOnlyNoWal := %s,\n    typedQueueFullErrors := %s, typedQueueFullErrorsOnlyNoWal := %s,\n    workerFailSetsFlag := %s, syncFailSetsFlag := %s,\n    workerTimeoutSetsFlag := %s, syncTimeoutSetsFlag := %s,\n    closeDropSetsFlag := %s, purgeGuardedByFlag := %s, resetRequiresCleanPass := %s,\n    shutdown := %s }\n",
		leanList(tickFlag), leanList(tickElse), b(queueFullSetsFlag), b(queueFullErrors), b(onlyNoWal), b(typedErrors), b(typedOnlyNoWal), b(workerFail), b(syncFail), b(workerTimeout), b(syncTimeout), b(closeDropSetsFlag), b(purgeGuarded), b(resetClean), leanList(shutOrder))
	fmt.Fprintf(&out.Lean, "/-- periodic recovery MinFileAge (ns), safeAge = max(floor, mult * MaxBufferAge) -/\ndef minFileAgeNs : Nat := %d\ndef safeAgeMult : Nat := %d\ndef safeAgeFloorNs : Nat := %d\n", minFileAge, mult, floor)
	fmt.Fprintf(&out.Lean, "def hooksBeforeComponents : Bool := %s\n", b(hooksFirst))
	fmt.Fprintf(&out.Lean, "/-- ArrowBuffer write call sites in internal/api whose error becomes a non-2xx reply -/\ndef apiWriteCallersChecked : Nat := %d\n", writeCallers)
	for _, r := range regs {
		fmt.Fprintf(&out.Lean, "-- %s: %s priority %d -> %s\n", r.Name, r.Kind, r.Priority, r.Action)
	}
	fmt.Fprintf(&out.Lean, "end Arc.Generated.C07\n")
	out.JSON["api_write_callers_checked"] = writeCallers
	out.JSON["tick_flag"] = tickFlag
	out.JSON["tick_else"] = tickElse
	out.JSON["registrations"] = regs
	out.JSON["shutdown_order"] = shutOrder
	out.JSON["hooks_before_components"] = hooksFirst
	out.JSON["min_file_age_ns"] = minFileAge
	out.JSON["safe_age_mult"] = mult
	out.JSON["safe_age_floor_ns"] = floor
	out.JSON["queue_full_sets_flag"] = queueFullSetsFlag
	out.JSON["queue_full_errors"] = queueFullErrors
	out.JSON["queue_full_errors_only_nowal"] = onlyNoWal
	out.JSON["purge_guarded_by_flag"] = purgeGuarded
	out.JSON["reset_requires_clean_pass"] = resetClean
	out.JSON["close_drop_sets_flag"] = closeDropSetsFlag
	out.JSON["typed_queue_full_errors"] = typedErrors
	out.JSON["typed_queue_full_errors_only_nowal"] = typedOnlyNoWal
	out.JSON["worker_timeout_sets_flag"] = workerTimeout
	out.JSON["sync_timeout_sets_flag"] = syncTimeout
	out.JSON["worker_fail_sets_flag"] = workerFail
	out.JSON["sync_fail_sets_flag"] = syncFail
	return nil
}
