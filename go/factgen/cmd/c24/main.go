package main

import (
	"fmt"
	"go/ast"
	"go/token"
	"strings"
	"verif/factgen/fg"
)

// C24: (1) are sequence assignment and enqueue of Sender.Replicate one critical section?
// (2) does Replicate overwrite the sequence the WAL hook passes in? (3) is the WAL's hook call
// inside w.mu? (4) order of the receiver's checks; (5) constants; (6) the coordinator's hook wiring.
func main() { fg.Main("C24", c24) }

// lockName: `X.Lock()` / `X.Unlock()` statement → ("X", "Lock"|"Unlock"); defer X.Unlock() → ("X","defer-Unlock")
func lockOp(f *fg.File, s ast.Stmt) (string, string) {
	var call *ast.CallExpr
	kind := ""
	switch x := s.(type) {
	case *ast.ExprStmt:
		call, _ = x.X.(*ast.CallExpr)
	case *ast.DeferStmt:
		call = x.Call
		kind = "defer-"
	}
	if call == nil {
		return "", ""
	}
	sel, ok := call.Fun.(*ast.SelectorExpr)
	if !ok || (sel.Sel.Name != "Lock" && sel.Sel.Name != "Unlock") {
		return "", ""
	}
	return f.Text(sel.X), kind + sel.Sel.Name
}

// heldAt: set of mutex expressions held at statement index idx of a flat statement list.
func heldAt(f *fg.File, stmts []ast.Stmt, idx int) map[string]bool {
	held := map[string]bool{}
	for i := 0; i < idx && i < len(stmts); i++ {
		x, op := lockOp(f, stmts[i])
		switch op {
		case "Lock":
			held[x] = true
		case "Unlock":
			delete(held, x)
		}
	}
	return held
}

func containsText(f *fg.File, n ast.Node, sub string) bool { return strings.Contains(f.Text(n), sub) }

func c24(repo string, out *fg.Out) error {
	// ---- Sender.Replicate
	sf, err := fg.ParseFile(repo, "internal/cluster/replication/sender.go")
	if err != nil {
		return err
	}
	rep := sf.FuncDecl("Sender", "Replicate")
	if rep == nil {
		return fmt.Errorf("func (s *Sender) Replicate not found")
	}
	if len(rep.Type.Params.List) != 1 || len(rep.Type.Params.List[0].Names) != 1 {
		return fmt.Errorf("Sender.Replicate: expected one parameter")
	}
	param := rep.Type.Params.List[0].Names[0].Name
	stmts := rep.Body.List
	ai, ei := -1, -1
	overwrites := false
	for i, s := range stmts {
		if as, ok := s.(*ast.AssignStmt); ok && len(as.Rhs) == 1 && containsText(sf, as.Rhs[0], "s.sequence.Add(1)") {
			if ai >= 0 {
				return fmt.Errorf("Sender.Replicate: more than one s.sequence.Add(1)")
			}
			ai = i
			overwrites = as.Tok == token.ASSIGN && sf.Text(as.Lhs[0]) == param+".Sequence"
		}
		if sel, ok := s.(*ast.SelectStmt); ok && containsText(sf, sel, "s.entryChan <- "+param) {
			ei = i
		}
		if snd, ok := s.(*ast.SendStmt); ok && containsText(sf, snd, "s.entryChan <- "+param) {
			ei = i
		}
	}
	if ai < 0 || ei < 0 || ei <= ai {
		return fmt.Errorf("Sender.Replicate: expected top-level `… = s.sequence.Add(1)` followed by a send `s.entryChan <- %s` (assign #%d, send #%d)", param, ai, ei)
	}
	hA, hE := heldAt(sf, stmts, ai), heldAt(sf, stmts, ei)
	senderAtomic := false
	for m := range hA {
		if hE[m] {
			// the same mutex must stay held in between (no Unlock/Lock pair between the two)
			still := true
			for i := ai; i < ei; i++ {
				if x, op := lockOp(sf, stmts[i]); x == m && op == "Unlock" {
					still = false
				}
			}
			if still {
				senderAtomic = true
			}
		}
	}
	env := fg.NewConstEnv([]*fg.File{sf})
	ckExpr, ok := env.Exprs["defaultCheckpointInterval"]
	if !ok {
		return fmt.Errorf("const defaultCheckpointInterval not found")
	}
	ckInt, err := env.EvalInt(ckExpr)
	if err != nil {
		return err
	}
	// sendToReader: tag, hash write, entry write, then checkpoint when the interval is reached
	str := sf.FuncDecl("Sender", "sendToReader")
	if str == nil {
		return fmt.Errorf("Sender.sendToReader not found")
	}
	txt := sf.Text(str.Body)
	order := []string{"ComputeReplicationEntryTagWithMAC(", "reader.cumulativeHash.Write(", "reader.entriesSinceCheckpoint++", "WriteEntry(", "reader.entriesSinceCheckpoint >= s.cfg.CheckpointInterval", "emitCheckpointLocked("}
	pos := -1
	for _, o := range order {
		p := strings.Index(txt, o)
		if p < 0 || p < pos {
			return fmt.Errorf("Sender.sendToReader: expected %q after the previous step", o)
		}
		pos = p
	}
	ecl := sf.FuncDecl("Sender", "emitCheckpointLocked")
	if ecl == nil || !containsText(sf, ecl.Body, "reader.entriesSinceCheckpoint = 0") || !containsText(sf, ecl.Body, "reader.cumulativeHash.Sum(") {
		return fmt.Errorf("Sender.emitCheckpointLocked: expected cumulativeHash.Sum(...) and entriesSinceCheckpoint = 0")
	}
	// scope of the running hash on the sender: whole session (never reset after PrepareReader) or
	// per checkpoint window (reset / re-created anywhere in the send path)
	senderScope := "session"
	for _, fn := range []string{"emitCheckpointLocked", "sendToReader"} {
		fd := sf.FuncDecl("Sender", fn)
		if fd != nil && (containsText(sf, fd.Body, "cumulativeHash.Reset(") || containsText(sf, fd.Body, "cumulativeHash = ")) {
			senderScope = "window"
		}
	}

	// ---- wal.go hook path
	wf, err := fg.ParseFile(repo, "internal/wal/wal.go")
	if err != nil {
		return err
	}
	walUnder := true
	for _, fn := range []string{"AppendRaw", "AppendRawWithMeta"} {
		fd := wf.FuncDecl("Writer", fn)
		if fd == nil {
			return fmt.Errorf("Writer.%s not found", fn)
		}
		found := false
		for _, s := range fd.Body.List {
			ifs, ok := s.(*ast.IfStmt)
			if !ok || !containsText(wf, ifs.Cond, "w.replicationHook != nil") {
				continue
			}
			found = true
			inc, hook := -1, -1
			for i, b := range ifs.Body.List {
				if containsText(wf, b, "w.sequence++") {
					inc = i
				}
				if es, ok := b.(*ast.ExprStmt); ok {
					if c, ok := es.X.(*ast.CallExpr); ok && fg.CalleeName(c) == "hook" {
						hook = i
					}
				}
			}
			if inc < 0 || hook < 0 || hook < inc {
				return fmt.Errorf("Writer.%s: expected `w.sequence++` then `hook(...)` inside `if w.replicationHook != nil`", fn)
			}
			if !heldAt(wf, ifs.Body.List, inc)["w.mu"] {
				return fmt.Errorf("Writer.%s: w.sequence++ is not under w.mu", fn)
			}
			if !heldAt(wf, ifs.Body.List, hook)["w.mu"] {
				walUnder = false
			}
		}
		if !found {
			return fmt.Errorf("Writer.%s: `if w.replicationHook != nil` block not found", fn)
		}
	}

	// ---- ownership of the payload handed to the hook: the Sender only QUEUES the slice, so the
	// bytes must never change after hook(...) returns. AppendRawWithMeta must pass a freshly
	// allocated envelope (`make`), AppendRaw passes the caller's slice (callers hand over ownership).
	ownership := map[string]string{}
	for _, fn := range []string{"AppendRaw", "AppendRawWithMeta"} {
		fd := wf.FuncDecl("Writer", fn)
		var hookCall *ast.CallExpr
		for _, c := range fg.CallsNamed(fd.Body, "hook") {
			hookCall = c
		}
		if hookCall == nil || len(hookCall.Args) != 1 {
			return fmt.Errorf("Writer.%s: hook(&ReplicationEntry{…}) not found", fn)
		}
		payExpr := ""
		ast.Inspect(hookCall.Args[0], func(n ast.Node) bool {
			if kv, ok := n.(*ast.KeyValueExpr); ok && wf.Text(kv.Key) == "Payload" {
				payExpr = wf.Text(kv.Value)
			}
			return true
		})
		kind := "other:" + payExpr
		if len(fd.Type.Params.List) > 0 {
			for _, prm := range fd.Type.Params.List {
				for _, nm := range prm.Names {
					if nm.Name == payExpr {
						kind = "caller-slice"
					}
				}
			}
		}
		// local variable: every assignment to it must be `make([]byte, …)` (copy() into it is fine)
		if kind != "caller-slice" && payExpr != "" {
			nAssign, nMake := 0, 0
			ast.Inspect(fd.Body, func(n ast.Node) bool {
				if as, ok := n.(*ast.AssignStmt); ok {
					for i, l := range as.Lhs {
						if wf.Text(l) == payExpr && i < len(as.Rhs) {
							nAssign++
							if strings.HasPrefix(wf.Text(as.Rhs[i]), "make([]byte,") {
								nMake++
							}
						}
					}
				}
				return true
			})
			if nAssign > 0 && nAssign == nMake {
				kind = "fresh-make"
			}
		}
		if containsText(wf, fd.Body, "Pool.Put(") || containsText(wf, fd.Body, "Pool.Get(") {
			kind += "+pooled"
		}
		ownership[fn] = kind
	}
	senderCopies := false
	for _, st := range stmts[:ei] {
		t := sf.Text(st)
		if strings.Contains(t, param+".Payload = ") && (strings.Contains(t, "append([]byte") || strings.Contains(t, "bytes.Clone(") || strings.Contains(t, "slices.Clone(")) {
			senderCopies = true
		}
	}

	// ---- coordinator wiring
	cf, err := fg.ParseFile(repo, "internal/cluster/coordinator.go")
	if err != nil {
		return err
	}
	wired := false
	for _, c := range fg.CallsNamed(cf.AST, "SetReplicationHook") {
		if len(c.Args) == 1 {
			if fl, ok := c.Args[0].(*ast.FuncLit); ok && len(fl.Body.List) == 1 {
				t := cf.Text(fl.Body.List[0])
				if strings.Contains(t, "replicationSender.Replicate(&replication.ReplicateEntry{") && strings.Contains(t, "Payload:") {
					wired = true
				}
			}
		}
	}
	if !wired {
		return fmt.Errorf("coordinator.go: `walWriter.SetReplicationHook(func(entry){ c.replicationSender.Replicate(&replication.ReplicateEntry{…}) })` not found")
	}

	// ---- receiver
	rf, err := fg.ParseFile(repo, "internal/cluster/replication/receiver.go")
	if err != nil {
		return err
	}
	rl := rf.FuncDecl("Receiver", "receiveLoop")
	if rl == nil {
		return fmt.Errorf("Receiver.receiveLoop not found")
	}
	var entryCase, ckCase *ast.CaseClause
	ast.Inspect(rl.Body, func(n ast.Node) bool {
		if cc, ok := n.(*ast.CaseClause); ok && len(cc.List) == 1 {
			switch rf.Text(cc.List[0]) {
			case "MsgReplicateEntry":
				entryCase = cc
			case "MsgReplicateCheckpoint":
				ckCase = cc
			}
		}
		return true
	})
	if entryCase == nil || ckCase == nil {
		return fmt.Errorf("receiveLoop: case MsgReplicateEntry / MsgReplicateCheckpoint not found")
	}
	endsWith := func(b *ast.BlockStmt, kw string) bool {
		if len(b.List) == 0 {
			return false
		}
		switch x := b.List[len(b.List)-1].(type) {
		case *ast.ReturnStmt:
			return kw == "return"
		case *ast.BranchStmt:
			return x.Tok.String() == kw
		}
		return false
	}
	var eo []string
	for _, s := range entryCase.Body {
		t := rf.Text(s)
		switch x := s.(type) {
		case *ast.IfStmt:
			cond := rf.Text(x.Cond)
			switch {
			case x.Init != nil && strings.Contains(rf.Text(x.Init), "ValidateReplicationEntryTagWithMAC(entryMAC, entry.Sequence, payloadHash, tagBytes[:])"):
				if endsWith(x.Body, "return") {
					eo = append(eo, "verify-tag")
				} else {
					eo = append(eo, "verify-tag-without-return")
				}
			case strings.Contains(cond, "r.lastSeq.Load()"):
				if cond == "entry.Sequence <= r.lastSeq.Load()" && endsWith(x.Body, "return") {
					eo = append(eo, "seq-check")
				} else {
					eo = append(eo, "seq-check?:"+cond)
				}
			case x.Init != nil && strings.Contains(rf.Text(x.Init), "r.applyEntry(entry)"):
				eo = append(eo, "apply")
				if endsWith(x.Body, "continue") {
					eo = append(eo, "apply-error-continue")
				} else {
					eo = append(eo, "apply-error-other")
				}
			}
		case *ast.ExprStmt:
			switch {
			case strings.HasPrefix(t, "cumulativeHash.Write(entry.Payload)"):
				eo = append(eo, "hash-write")
			case strings.HasPrefix(t, "r.lastSeq.Store(entry.Sequence)"):
				eo = append(eo, "advance")
			case strings.Contains(t, "r.lastSeq.Store("):
				eo = append(eo, "advance?:"+t)
			}
		}
	}
	var co []string
	for _, s := range ckCase.Body {
		x, ok := s.(*ast.IfStmt)
		if !ok || !endsWith(x.Body, "return") {
			continue
		}
		cond := rf.Text(x.Cond)
		switch {
		case cond == "cp.ClusterName != r.cfg.ClusterName":
			co = append(co, "cluster")
		case cond == "cp.LastSequence != r.lastSeq.Load()":
			co = append(co, "seq")
		case cond == "subtle.ConstantTimeCompare(ourHash, theirHash[:]) != 1":
			co = append(co, "hash")
		case x.Init != nil && strings.Contains(rf.Text(x.Init), "security.ValidateReplicationCheckpointHMAC(") &&
			strings.Contains(rf.Text(x.Init), "theirHash, cp.LastSequence, cp.Timestamp, cp.HMAC, security.HMACTimestampTolerance"):
			co = append(co, "hmac")
		}
	}
	// scope of the running hash on the receiver: `cumulativeHash := sha256.New()` once before the
	// loop and never reset / reassigned inside it
	recvScope := "session"
	if !containsText(rf, rl.Body, "cumulativeHash := sha256.New()") {
		return fmt.Errorf("receiveLoop: `cumulativeHash := sha256.New()` not found")
	}
	var loop *ast.ForStmt
	for _, st := range rl.Body.List {
		if fs, ok := st.(*ast.ForStmt); ok {
			loop = fs
		}
	}
	if loop == nil {
		return fmt.Errorf("receiveLoop: main for loop not found")
	}
	if containsText(rf, loop.Body, "cumulativeHash.Reset(") || containsText(rf, loop.Body, "cumulativeHash = ") || containsText(rf, loop.Body, "cumulativeHash := ") {
		recvScope = "window"
	}
	// ---- security constants
	secFiles, err := fg.ParseDir(repo, "internal/cluster/security")
	if err != nil {
		return err
	}
	sec := fg.NewConstEnv(secFiles)
	get := func(name string) (int64, error) {
		e, ok := sec.Exprs[name]
		if !ok {
			return 0, fmt.Errorf("const %s not found in internal/cluster/security", name)
		}
		return sec.EvalInt(e)
	}
	tagLen, err := get("ReplicationEntryTagLen")
	if err != nil {
		return err
	}
	tolNs, err := get("HMACTimestampTolerance")
	if err != nil {
		return err
	}
	_, vf := fg.FindFunc(secFiles, "", "ValidateReplicationCheckpointHMAC")
	if vf == nil {
		return fmt.Errorf("ValidateReplicationCheckpointHMAC not found")
	}

	effective := senderAtomic
	if !overwrites {
		effective = walUnder
	}
	b := func(v bool) string {
		if v {
			return "true"
		}
		return "false"
	}
	strs := func(xs []string) string {
		q := make([]string, len(xs))
		for i, x := range xs {
			q[i] = fg.LeanStr(x)
		}
		return "[" + strings.Join(q, ", ") + "]"
	}
	w := &out.Lean
	fmt.Fprintf(w, "namespace Arc.Generated.C24\n")
	fmt.Fprintf(w, "/-- Sender.Replicate: `s.sequence.Add(1)` and the channel send are inside one mutex critical section -/\n")
	fmt.Fprintf(w, "def senderAssignEnqueueAtomic : Bool := %s\n", b(senderAtomic))
	fmt.Fprintf(w, "/-- Sender.Replicate assigns `entry.Sequence` itself (the WAL hook's number never reaches the wire) -/\n")
	fmt.Fprintf(w, "def senderOverwritesSequence : Bool := %s\n", b(overwrites))
	fmt.Fprintf(w, "/-- wal.Writer.AppendRaw*/: hook(...) is called while w.mu is held -/\n")
	fmt.Fprintf(w, "def walHookUnderLock : Bool := %s\n", b(walUnder))
	fmt.Fprintf(w, "/-- the atomicity the model's `Cfg.atomic` stands for -/\n")
	fmt.Fprintf(w, "def assignEnqueueAtomic : Bool := %s\n", b(effective))
	fmt.Fprintf(w, "def defaultCheckpointInterval : Nat := %d\n", ckInt)
	fmt.Fprintf(w, "def entryTagLen : Nat := %d\n", tagLen)
	fmt.Fprintf(w, "def hmacToleranceSec : Int := %d\n", tolNs/1_000_000_000)
	fmt.Fprintf(w, "/-- what the checkpoint hash covers on each side: \"session\" = every payload since the handshake, \"window\" = since the previous checkpoint -/\n")
	fmt.Fprintf(w, "def hashScopeSender : String := %s\n", fg.LeanStr(senderScope))
	fmt.Fprintf(w, "def hashScopeReceiver : String := %s\n", fg.LeanStr(recvScope))
	fmt.Fprintf(w, "/-- who owns the payload bytes passed to the replication hook (the Sender queues the slice, it does not copy unless senderCopiesPayload) -/\n")
	fmt.Fprintf(w, "def hookPayloadAppendRaw : String := %s\n", fg.LeanStr(ownership["AppendRaw"]))
	fmt.Fprintf(w, "def hookPayloadAppendRawWithMeta : String := %s\n", fg.LeanStr(ownership["AppendRawWithMeta"]))
	fmt.Fprintf(w, "def senderCopiesPayload : Bool := %s\n", b(senderCopies))
	fmt.Fprintf(w, "def recvEntryOrder : List String := %s\n", strs(eo))
	fmt.Fprintf(w, "def recvCkptOrder : List String := %s\n", strs(co))
	fmt.Fprintf(w, "end Arc.Generated.C24\n")
	out.JSON["sender_assign_enqueue_atomic"] = senderAtomic
	out.JSON["sender_overwrites_sequence"] = overwrites
	out.JSON["wal_hook_under_lock"] = walUnder
	out.JSON["assign_enqueue_atomic"] = effective
	out.JSON["default_checkpoint_interval"] = ckInt
	out.JSON["hmac_tolerance_sec"] = tolNs / 1_000_000_000
	out.JSON["hash_scope_sender"] = senderScope
	out.JSON["hash_scope_receiver"] = recvScope
	out.JSON["hook_payload"] = ownership
	out.JSON["sender_copies_payload"] = senderCopies
	out.JSON["recv_entry_order"] = eo
	out.JSON["recv_ckpt_order"] = co
	return nil
}
