package main

import (
	"fmt"
	"go/ast"
	"go/token"
	"strconv"
	"strings"
	"verif/factgen/fg"
)

// C08: (1) the ordered list of file-system mutating calls of LocalBackend.Write / WriteReader /
// AppendReader with the *role* (dir / staging / final) of every path argument, split into success
// path, conditional blocks, error blocks and deferred calls; (2) the statement order of sanitizePath
// and the call chain of validatePath; (3) constants (".part", ".arc-*.tmp", MaxManifestPathLen,
// StagingPrefix).
func main() { fg.Main("C08", c08) }

type step struct {
	Call string `json:"call"`
	A    string `json:"a"`
	B    string `json:"b"`
	Line int    `json:"line"`
}

type skeleton struct {
	Success  []step            `json:"success"`
	Cond     map[string][]step `json:"cond"`
	CondKeys []string          `json:"cond_keys"`
	OnError  []step            `json:"on_error"`
	Deferred []step            `json:"deferred"`
}

type extractor struct {
	f     *fg.File
	role  map[string]string // variable -> dir|staging|final (paths) ; file variables map to the role of the path they were opened on
	sk    *skeleton
	notes []string
	err   error
	// which validator produced the final path (validatePath | validateFilePath)
	validator string
}

func (x *extractor) fail(format string, a ...any) {
	if x.err == nil {
		x.err = fmt.Errorf(format, a...)
	}
}

func identName(e ast.Expr) string {
	if id, ok := e.(*ast.Ident); ok {
		return id.Name
	}
	return ""
}

func selParts(e ast.Expr) (string, string) {
	if s, ok := e.(*ast.SelectorExpr); ok {
		return identName(s.X), s.Sel.Name
	}
	return "", ""
}

func (x *extractor) roleOf(e ast.Expr) string {
	switch v := e.(type) {
	case *ast.Ident:
		if r, ok := x.role[v.Name]; ok {
			return r
		}
		return "none"
	case *ast.CallExpr:
		// partPath(fullPath) / tmpFile.Name() / filepath.Dir(fullPath) used inline
		if r := x.derivedRole(v); r != "" {
			return r
		}
	case *ast.BinaryExpr:
		// fullPath + ".part"
		if v.Op == token.ADD && x.roleOf(v.X) == "final" {
			return "staging"
		}
	}
	return "none"
}

// derivedRole: role of the value of a path-producing call, "" if the call is not one.
func (x *extractor) derivedRole(c *ast.CallExpr) string {
	pkg, name := selParts(c.Fun)
	switch {
	case name == "validatePath" || name == "validateFilePath":
		x.validator = name
		return "final"
	case identName(c.Fun) == "partPath" && len(c.Args) == 1 && x.roleOf(c.Args[0]) == "final":
		return "staging"
	case pkg == "filepath" && name == "Dir" && len(c.Args) == 1 && x.roleOf(c.Args[0]) == "final":
		return "dir"
	case name == "Name" && len(c.Args) == 0 && x.role[pkg] != "":
		return x.role[pkg] // tmpFile.Name()
	}
	return ""
}

func mentionsErr(e ast.Expr) bool {
	found := false
	ast.Inspect(e, func(n ast.Node) bool {
		if id, ok := n.(*ast.Ident); ok {
			l := strings.ToLower(id.Name)
			if strings.Contains(l, "err") || id.Name == "IsNotExist" {
				found = true
			}
		}
		return true
	})
	return found
}

// ctx: "" success, "err" error block, "cond:<text>" conditional block, "defer"
func (x *extractor) emit(ctx string, s step) {
	switch {
	case ctx == "":
		x.sk.Success = append(x.sk.Success, s)
	case ctx == "err":
		x.sk.OnError = append(x.sk.OnError, s)
	case ctx == "defer":
		x.sk.Deferred = append(x.sk.Deferred, s)
	default:
		k := strings.TrimPrefix(ctx, "cond:")
		if _, ok := x.sk.Cond[k]; !ok {
			x.sk.CondKeys = append(x.sk.CondKeys, k)
		}
		x.sk.Cond[k] = append(x.sk.Cond[k], s)
	}
}

// call classifies one call expression; lhs are the assigned identifiers (for role tracking).
func (x *extractor) call(ctx string, c *ast.CallExpr, lhs []string) {
	pkg, name := selParts(c.Fun)
	line := x.f.Line(c)
	setLHS := func(r string) {
		if len(lhs) > 0 && lhs[0] != "_" && lhs[0] != "" {
			x.role[lhs[0]] = r
		}
	}
	if r := x.derivedRole(c); r != "" {
		setLHS(r)
		return
	}
	switch {
	case name == "ensureDir":
		x.emit(ctx, step{"ensureDir", x.roleOf(c.Args[0]), "none", line})
	case pkg == "os" && name == "CreateTemp":
		if len(c.Args) != 2 {
			x.fail("os.CreateTemp: unexpected arity at line %d", line)
			return
		}
		x.emit(ctx, step{"createTemp", x.roleOf(c.Args[0]), "none", line})
		x.notes = append(x.notes, "pattern="+x.f.Text(c.Args[1]))
		if x.roleOf(c.Args[0]) == "dir" {
			setLHS("staging")
		}
	case pkg == "os" && name == "OpenFile":
		if len(c.Args) != 3 {
			x.fail("os.OpenFile: unexpected arity at line %d", line)
			return
		}
		flags := x.f.Text(c.Args[1])
		r := x.roleOf(c.Args[0])
		switch {
		case strings.Contains(flags, "O_TRUNC") && strings.Contains(flags, "O_CREATE") && !strings.Contains(flags, "O_APPEND"):
			x.emit(ctx, step{"openTrunc", r, "none", line})
		case strings.Contains(flags, "O_APPEND") && !strings.Contains(flags, "O_CREATE") && !strings.Contains(flags, "O_TRUNC"):
			x.emit(ctx, step{"openAppend", r, "none", line})
		default:
			x.fail("os.OpenFile with unmodelled flags %q at line %d", flags, line)
		}
		setLHS(r)
	case pkg == "os" && (name == "Create" || name == "WriteFile"):
		r := x.roleOf(c.Args[0])
		x.emit(ctx, step{"openTrunc", r, "none", line})
		if name == "WriteFile" {
			x.emit(ctx, step{"write", r, "none", line})
			x.emit(ctx, step{"close", r, "none", line})
		}
		setLHS(r)
	case pkg == "os" && name == "Rename":
		x.emit(ctx, step{"rename", x.roleOf(c.Args[0]), x.roleOf(c.Args[1]), line})
	case pkg == "os" && name == "Remove":
		x.emit(ctx, step{"remove", x.roleOf(c.Args[0]), "none", line})
	case pkg == "os" && (name == "IsNotExist" || name == "IsExist" || name == "Stat" || name == "Lstat"):
		// pure
	case pkg == "os":
		x.fail("unmodelled os.%s call at line %d", name, line)
	case pkg == "io" && name == "Copy":
		r := x.roleOf(c.Args[0])
		if r == "none" {
			x.fail("io.Copy destination %s has no known role at line %d", x.f.Text(c.Args[0]), line)
		}
		x.emit(ctx, step{"write", r, "none", line})
	case name == "Write" || name == "WriteString" || name == "ReadFrom":
		if r, ok := x.role[pkg]; ok {
			x.emit(ctx, step{"write", r, "none", line})
		}
	case name == "Close":
		if r, ok := x.role[pkg]; ok {
			x.emit(ctx, step{"close", r, "none", line})
		}
	case name == "Sync":
		if r, ok := x.role[pkg]; ok {
			x.emit(ctx, step{"sync", r, "none", line})
		}
	case name == "Truncate" || name == "Seek" || name == "WriteAt" || name == "Chmod":
		if _, ok := x.role[pkg]; ok {
			x.fail("unmodelled file method %s at line %d", name, line)
		}
	}
}

func (x *extractor) exprCalls(ctx string, e ast.Node, lhs []string) {
	if e == nil {
		return
	}
	// innermost-first is not needed: calls of interest are never nested inside one another here,
	// except as arguments (partPath(fullPath)), which roleOf handles.
	ast.Inspect(e, func(n ast.Node) bool {
		if _, ok := n.(*ast.FuncLit); ok {
			return false
		}
		if c, ok := n.(*ast.CallExpr); ok {
			x.call(ctx, c, lhs)
			lhs = nil
		}
		return true
	})
}

func (x *extractor) stmts(ctx string, list []ast.Stmt) {
	for _, s := range list {
		x.stmt(ctx, s)
	}
}

func (x *extractor) stmt(ctx string, s ast.Stmt) {
	switch v := s.(type) {
	case *ast.AssignStmt:
		var lhs []string
		for _, l := range v.Lhs {
			lhs = append(lhs, identName(l))
		}
		for i, r := range v.Rhs {
			// plain aliasing / derived path expressions: stagingPath := fullPath, p := fullPath + ".part"
			if _, isCall := r.(*ast.CallExpr); !isCall && len(v.Lhs) == len(v.Rhs) {
				if rr := x.roleOf(r); rr != "none" && lhs[i] != "" && lhs[i] != "_" {
					x.role[lhs[i]] = rr
				}
			}
			x.exprCalls(ctx, r, lhs)
		}
	case *ast.ExprStmt:
		x.exprCalls(ctx, v.X, nil)
	case *ast.DeferStmt:
		x.exprCalls("defer", v.Call, nil)
	case *ast.ReturnStmt:
		for _, r := range v.Results {
			x.exprCalls(ctx, r, nil)
		}
	case *ast.IfStmt:
		if v.Init != nil {
			x.stmt(ctx, v.Init)
		}
		x.exprCalls(ctx, v.Cond, nil)
		inner := ctx
		if ctx != "err" && ctx != "defer" {
			if mentionsErr(v.Cond) {
				inner = "err"
			} else {
				if ctx != "" {
					x.fail("nested conditional block at line %d", x.f.Line(v))
				}
				inner = "cond:" + x.f.Text(v.Cond)
			}
		}
		x.stmts(inner, v.Body.List)
		if v.Else != nil {
			x.stmt(inner, v.Else)
		}
	case *ast.BlockStmt:
		x.stmts(ctx, v.List)
	case *ast.ForStmt, *ast.RangeStmt, *ast.SwitchStmt, *ast.SelectStmt, *ast.GoStmt:
		// none of the three procedures loops/branches otherwise; a new construct must be re-modelled
		hasFS := false
		ast.Inspect(v, func(n ast.Node) bool {
			if c, ok := n.(*ast.CallExpr); ok {
				if p, _ := selParts(c.Fun); p == "os" || p == "io" {
					hasFS = true
				}
			}
			return true
		})
		if hasFS {
			x.fail("file-system call inside %T at line %d", v, x.f.Line(v))
		}
	case *ast.DeclStmt:
		x.exprCalls(ctx, v, nil)
	}
}

func extractProc(f *fg.File, name string) (*skeleton, []string, error) {
	fd := f.FuncDecl("LocalBackend", name)
	if fd == nil || fd.Body == nil {
		return nil, nil, fmt.Errorf("method LocalBackend.%s not found in %s", name, f.Path)
	}
	x := &extractor{f: f, role: map[string]string{}, sk: &skeleton{Cond: map[string][]step{}}}
	x.stmts("", fd.Body.List)
	if x.err != nil {
		return nil, nil, fmt.Errorf("%s: %v", name, x.err)
	}
	x.notes = append(x.notes, "validator="+x.validator)
	return x.sk, x.notes, nil
}

func leanSteps(ss []step) string {
	var parts []string
	for _, s := range ss {
		parts = append(parts, fmt.Sprintf("⟨.%s, .%s, .%s⟩", s.Call, s.A, s.B))
	}
	return "[" + strings.Join(parts, ", ") + "]"
}

func leanBytes(s string) string {
	var parts []string
	for _, b := range []byte(s) {
		parts = append(parts, strconv.Itoa(int(b)))
	}
	return "[" + strings.Join(parts, ", ") + "]"
}

func strLit(e ast.Expr) (string, bool) {
	if bl, ok := e.(*ast.BasicLit); ok && bl.Kind == token.STRING {
		s, err := strconv.Unquote(bl.Value)
		return s, err == nil
	}
	return "", false
}

func c08(repo string, out *fg.Out) error {
	f, err := fg.ParseFile(repo, "internal/storage/local.go")
	if err != nil {
		return err
	}
	sks := map[string]*skeleton{}
	pattern := ""
	var validators []string
	for _, name := range []string{"Write", "WriteReader", "AppendReader"} {
		sk, notes, err := extractProc(f, name)
		if err != nil {
			return err
		}
		sks[name] = sk
		for _, n := range notes {
			if strings.HasPrefix(n, "validator=") {
				validators = append(validators, strings.TrimPrefix(n, "validator="))
			}
			if strings.HasPrefix(n, "pattern=") {
				p, perr := strconv.Unquote(strings.TrimPrefix(n, "pattern="))
				if perr != nil {
					return fmt.Errorf("%s: CreateTemp pattern is not a string literal: %s", name, n)
				}
				if pattern != "" && pattern != p {
					return fmt.Errorf("%s: two different CreateTemp patterns", name)
				}
				pattern = p
			}
		}
	}
	if len(sks["Write"].CondKeys) != 0 || len(sks["WriteReader"].CondKeys) != 0 {
		return fmt.Errorf("Write/WriteReader: unexpected non-error conditional block(s) %v %v", sks["Write"].CondKeys, sks["WriteReader"].CondKeys)
	}
	ar := sks["AppendReader"]
	if len(ar.CondKeys) != 1 || ar.CondKeys[0] != "written == appendSize" {
		return fmt.Errorf("AppendReader: expected exactly one conditional block `written == appendSize`, found %v", ar.CondKeys)
	}
	for n, sk := range sks {
		if len(sk.Success) == 0 {
			return fmt.Errorf("%s: no file-system calls found on the success path", n)
		}
	}
	if pattern == "" {
		return fmt.Errorf("Write: os.CreateTemp(dir, <pattern>) not found")
	}

	// partPath: return fullPath + "<suffix>"
	pp := f.FuncDecl("", "partPath")
	suffix := ""
	if pp != nil && pp.Body != nil && len(pp.Body.List) == 1 {
		if r, ok := pp.Body.List[0].(*ast.ReturnStmt); ok && len(r.Results) == 1 {
			if be, ok := r.Results[0].(*ast.BinaryExpr); ok && be.Op == token.ADD && identName(be.X) != "" {
				suffix, _ = strLit(be.Y)
			}
		}
	}
	if suffix == "" {
		return fmt.Errorf("partPath: expected `return <param> + \"<suffix>\"`")
	}

	// sanitizePath: ordered statements
	sp := f.FuncDecl("", "sanitizePath")
	if sp == nil || sp.Body == nil {
		return fmt.Errorf("sanitizePath not found")
	}
	var san []string
	for _, st := range sp.Body.List {
		switch v := st.(type) {
		case *ast.AssignStmt:
			if len(v.Rhs) != 1 {
				return fmt.Errorf("sanitizePath: unexpected assignment at line %d", f.Line(v))
			}
			c, ok := v.Rhs[0].(*ast.CallExpr)
			if !ok {
				return fmt.Errorf("sanitizePath: non-call assignment at line %d", f.Line(v))
			}
			pkg, name := selParts(c.Fun)
			var lits []string
			for _, a := range c.Args[1:] {
				s, ok := strLit(a)
				if !ok {
					return fmt.Errorf("sanitizePath: non-literal argument at line %d", f.Line(v))
				}
				lits = append(lits, s)
			}
			key := pkg + "." + name + "(" + strings.Join(quoteAll(lits), ",") + ")"
			switch key {
			case `strings.TrimPrefix("/")`:
				san = append(san, "trimLeadingSlash")
			case `strings.ReplaceAll("..","_")`:
				san = append(san, "replaceDotDot")
			case `strings.ReplaceAll("\x00","")`:
				san = append(san, "removeNul")
			default:
				return fmt.Errorf("sanitizePath: unmodelled step %s at line %d", key, f.Line(v))
			}
		case *ast.ReturnStmt:
		default:
			return fmt.Errorf("sanitizePath: unmodelled statement %T at line %d", st, f.Line(st))
		}
	}
	if len(san) == 0 {
		return fmt.Errorf("sanitizePath: no steps")
	}

	// validatePath: ordered call chain with argument texts
	vp := f.FuncDecl("LocalBackend", "validatePath")
	if vp == nil || vp.Body == nil {
		return fmt.Errorf("validatePath not found")
	}
	var chain []string
	ast.Inspect(vp.Body, func(n ast.Node) bool {
		switch v := n.(type) {
		case *ast.CallExpr:
			pkg, name := selParts(v.Fun)
			if pkg == "" {
				name = identName(v.Fun)
			}
			if pkg == "fmt" {
				return false
			}
			var args []string
			for _, a := range v.Args {
				args = append(args, f.Text(a))
			}
			q := name
			if pkg != "" {
				q = pkg + "." + name
			}
			chain = append(chain, q+"("+strings.Join(args, ",")+")")
		case *ast.ReturnStmt:
			if len(v.Results) == 2 && identName(v.Results[1]) == "nil" {
				chain = append(chain, "return "+f.Text(v.Results[0]))
			}
		}
		return true
	})

	// validateFilePath (the validator of the write procedures): statement shapes in order
	var fileChain []string
	retText := func(r *ast.ReturnStmt) string {
		var parts []string
		for _, e := range r.Results {
			if c, ok := e.(*ast.CallExpr); ok {
				if p, n := selParts(c.Fun); p == "fmt" && n == "Errorf" {
					parts = append(parts, "error")
					continue
				}
			}
			parts = append(parts, f.Text(e))
		}
		return "return " + strings.Join(parts, ",")
	}
	if vf := f.FuncDecl("LocalBackend", "validateFilePath"); vf != nil && vf.Body != nil {
		for _, st := range vf.Body.List {
			switch v := st.(type) {
			case *ast.AssignStmt:
				fileChain = append(fileChain, strings.Join(strings.Fields(f.Text(v)), ""))
			case *ast.IfStmt:
				t := "if " + f.Text(v.Cond)
				if v.Init != nil || v.Else != nil || len(v.Body.List) != 1 {
					t += " <unmodelled>"
				} else if r, ok := v.Body.List[0].(*ast.ReturnStmt); ok {
					t += " " + retText(r)
				} else {
					t += " <unmodelled>"
				}
				fileChain = append(fileChain, t)
			case *ast.ReturnStmt:
				fileChain = append(fileChain, retText(v))
			default:
				fileChain = append(fileChain, fmt.Sprintf("<unmodelled %T>", st))
			}
		}
	}
	expectedFileChain := []string{"fullPath,err:=b.validatePath(path)", `if err != nil return "",err`,
		`if fullPath == b.basePath return "",error`, "return fullPath,nil"}
	rejectRoot := len(validators) == 3 && strings.Join(fileChain, "|") == strings.Join(expectedFileChain, "|")
	for _, v := range validators {
		if v != "validateFilePath" {
			rejectRoot = false
		}
	}

	// constants from the other anchors
	raftFiles, err := fg.ParseDir(repo, "internal/cluster/raft")
	if err != nil {
		return err
	}
	renv := fg.NewConstEnv(raftFiles)
	mx, ok := renv.Exprs["MaxManifestPathLen"]
	if !ok {
		return fmt.Errorf("const MaxManifestPathLen not found in internal/cluster/raft")
	}
	maxLen, err := renv.EvalInt(mx)
	if err != nil {
		return err
	}
	esFiles, err := fg.ParseDir(repo, "internal/edgesync")
	if err != nil {
		return err
	}
	eenv := fg.NewConstEnv(esFiles)
	spx, ok := eenv.Exprs["StagingPrefix"]
	if !ok {
		return fmt.Errorf("const StagingPrefix not found in internal/edgesync")
	}
	stagingPrefix, ok := strLit(spx)
	if !ok {
		return fmt.Errorf("StagingPrefix is not a string literal")
	}

	w := &out.Lean
	fmt.Fprintf(w, "namespace Arc.Generated.C08\n")
	fmt.Fprintf(w, "inductive Call where\n  | ensureDir | createTemp | openTrunc | openAppend | write | sync | close | rename | remove\n  deriving DecidableEq, Repr\n")
	fmt.Fprintf(w, "/-- role of a path argument: the directory of the final path, the staging file, the final path -/\n")
	fmt.Fprintf(w, "inductive Tgt where\n  | dir | staging | final | none\n  deriving DecidableEq, Repr\n")
	fmt.Fprintf(w, "structure Step where\n  call : Call\n  a : Tgt\n  b : Tgt\n  deriving DecidableEq, Repr\n")
	fmt.Fprintf(w, "inductive SanStep where\n  | trimLeadingSlash | replaceDotDot | removeNul\n  deriving DecidableEq, Repr\n")
	emit := func(name string, ss []step) {
		fmt.Fprintf(w, "def %s : List Step := %s\n", name, leanSteps(ss))
	}
	emit("writeSuccess", sks["Write"].Success)
	emit("writeOnError", sks["Write"].OnError)
	emit("writeDeferred", sks["Write"].Deferred)
	emit("writeReaderSuccess", sks["WriteReader"].Success)
	emit("writeReaderOnError", sks["WriteReader"].OnError)
	emit("writeReaderDeferred", sks["WriteReader"].Deferred)
	emit("appendSuccess", ar.Success)
	fmt.Fprintf(w, "/-- executed only when `%s` -/\n", ar.CondKeys[0])
	emit("appendPromote", ar.Cond[ar.CondKeys[0]])
	emit("appendOnError", ar.OnError)
	emit("appendDeferred", ar.Deferred)
	var sl []string
	for _, s := range san {
		sl = append(sl, "."+s)
	}
	fmt.Fprintf(w, "/-- statement order of sanitizePath -/\ndef sanitizeSteps : List SanStep := [%s]\n", strings.Join(sl, ", "))
	var cl []string
	for _, c := range chain {
		cl = append(cl, fg.LeanStr(c))
	}
	fmt.Fprintf(w, "/-- call chain of validatePath (calls in source order, then the success return) -/\ndef validateChain : List String := [\n  %s\n]\n", strings.Join(cl, ",\n  "))
	var vl, fl []string
	for _, v := range validators {
		vl = append(vl, fg.LeanStr(v))
	}
	for _, c := range fileChain {
		fl = append(fl, fg.LeanStr(c))
	}
	fmt.Fprintf(w, "/-- the validator Write, WriteReader, AppendReader obtain their final path from -/\ndef writeValidators : List String := [%s]\n", strings.Join(vl, ", "))
	fmt.Fprintf(w, "/-- statements of validateFilePath -/\ndef validateFileChain : List String := [\n  %s\n]\n", strings.Join(fl, ",\n  "))
	fmt.Fprintf(w, "/-- all three write procedures use validateFilePath and it is validatePath + rejection of `fullPath == b.basePath` -/\ndef writersRejectRootKey : Bool := %v\n", rejectRoot)
	fmt.Fprintf(w, "def partSuffix : List UInt8 := %s -- %s\n", leanBytes(suffix), strconv.Quote(suffix))
	fmt.Fprintf(w, "def tempPattern : String := %s\n", fg.LeanStr(pattern))
	fmt.Fprintf(w, "def stagingPrefix : List UInt8 := %s -- %s\n", leanBytes(stagingPrefix), strconv.Quote(stagingPrefix))
	fmt.Fprintf(w, "def maxManifestPathLen : Nat := %d\n", maxLen)
	fmt.Fprintf(w, "end Arc.Generated.C08\n")

	out.JSON["write"] = sks["Write"]
	out.JSON["write_reader"] = sks["WriteReader"]
	out.JSON["append_reader"] = ar
	out.JSON["sanitize_steps"] = san
	out.JSON["validate_chain"] = chain
	out.JSON["write_validators"] = validators
	out.JSON["validate_file_chain"] = fileChain
	out.JSON["writers_reject_root_key"] = rejectRoot
	out.JSON["part_suffix"] = suffix
	out.JSON["temp_pattern"] = pattern
	out.JSON["staging_prefix"] = stagingPrefix
	out.JSON["max_manifest_path_len"] = maxLen
	return nil
}

func quoteAll(ss []string) []string {
	var o []string
	for _, s := range ss {
		o = append(o, strconv.Quote(s))
	}
	return o
}
