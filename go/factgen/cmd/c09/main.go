package main

import (
	"fmt"
	"go/ast"
	"go/token"
	"sort"
	"strings"

	"verif/factgen/fg"
)

// C09: mutation skeletons of Job.Run and recoverManifest, the call order of runCycleInternal, what
// GetFilesInManifests tracks, whether the adaptive retry path consults manifests, batch constants.
func main() { fg.Main("C09", c09) }

func recvCallName(c *ast.CallExpr) string { return fg.CalleeName(c) }

// callsIn returns the calls under n (in source order) whose callee name is in names.
func callsIn(n ast.Node, names ...string) []*ast.CallExpr {
	var out []*ast.CallExpr
	if n == nil {
		return nil
	}
	ast.Inspect(n, func(m ast.Node) bool {
		if c, ok := m.(*ast.CallExpr); ok {
			nm := recvCallName(c)
			for _, w := range names {
				if nm == w {
					out = append(out, c)
				}
			}
		}
		return true
	})
	return out
}

func initCallName(s *ast.IfStmt) string {
	as, ok := s.Init.(*ast.AssignStmt)
	if !ok || len(as.Rhs) != 1 {
		return ""
	}
	c, ok := as.Rhs[0].(*ast.CallExpr)
	if !ok {
		return ""
	}
	return recvCallName(c)
}

func hasReturn(b *ast.BlockStmt) bool {
	found := false
	ast.Inspect(b, func(n ast.Node) bool {
		if _, ok := n.(*ast.ReturnStmt); ok {
			found = true
		}
		return true
	})
	return found
}

func c09(repo string, out *fg.Out) error {
	files, err := fg.ParseDir(repo, "internal/compaction")
	if err != nil {
		return err
	}
	env := fg.NewConstEnv(files)

	// ---------------------------------------------------------------- Job.Run
	jf, run := fg.FindFunc(files, "Job", "Run")
	if run == nil {
		return fmt.Errorf("(*Job).Run not found")
	}
	type stepPos struct {
		name string
		pos  token.Pos
	}
	var steps []stepPos
	wm := callsIn(run.Body, "WriteManifest")
	if len(wm) != 1 {
		return fmt.Errorf("Job.Run: expected exactly one WriteManifest call, found %d", len(wm))
	}
	steps = append(steps, stepPos{"writeManifest", wm[0].Pos()})
	var upIf, delIf *ast.IfStmt
	ast.Inspect(run.Body, func(n ast.Node) bool {
		if s, ok := n.(*ast.IfStmt); ok {
			switch initCallName(s) {
			case "uploadFile":
				upIf = s
			case "deleteOldFiles":
				delIf = s
			}
		}
		return true
	})
	if upIf == nil || len(callsIn(run.Body, "uploadFile")) != 1 {
		return fmt.Errorf("Job.Run: expected exactly one `if err := j.uploadFile(...); err != nil {` statement")
	}
	if delIf == nil || len(callsIn(run.Body, "deleteOldFiles")) != 1 {
		return fmt.Errorf("Job.Run: expected exactly one `if err := j.deleteOldFiles(ctx); err != nil {` statement")
	}
	steps = append(steps, stepPos{"upload", upIf.Pos()}, stepPos{"deleteInputs", delIf.Pos()})
	// upload failure: manifest removed, job fails
	if len(callsIn(upIf.Body, "DeleteManifest")) != 1 || !hasReturn(upIf.Body) {
		return fmt.Errorf("Job.Run: the upload-failure branch no longer deletes the manifest and returns")
	}
	// delete failure keeps the manifest; success deletes it
	if len(callsIn(delIf.Body, "DeleteManifest")) != 0 {
		return fmt.Errorf("Job.Run: the delete-failure branch now deletes the manifest")
	}
	elseBlk, ok := delIf.Else.(*ast.BlockStmt)
	if !ok {
		return fmt.Errorf("Job.Run: `if err := j.deleteOldFiles(ctx) … else {…}`: else block missing")
	}
	dm := callsIn(elseBlk, "DeleteManifest")
	if len(dm) != 1 {
		return fmt.Errorf("Job.Run: expected one DeleteManifest in the delete-success branch, found %d", len(dm))
	}
	steps = append(steps, stepPos{"deleteManifest", dm[0].Pos()})
	if n := len(callsIn(run.Body, "DeleteManifest")); n != 2 {
		return fmt.Errorf("Job.Run: expected 2 DeleteManifest calls (upload failure, delete success), found %d", n)
	}
	sort.Slice(steps, func(i, j int) bool { return steps[i].pos < steps[j].pos })
	var jobSteps []string
	for _, s := range steps {
		jobSteps = append(jobSteps, s.name)
	}
	// other storage mutations in Run? (Write/WriteReader/Delete directly on the backend)
	if n := len(callsIn(run.Body, "Write", "WriteReader", "Delete", "DeleteBatch")); n != 0 {
		return fmt.Errorf("Job.Run: unexpected direct storage mutation calls (%d)", n)
	}
	// deleteOldFiles deletes exactly j.compactedFiles
	_, dof := fg.FindFunc(files, "Job", "deleteOldFiles")
	if dof == nil {
		return fmt.Errorf("(*Job).deleteOldFiles not found")
	}
	dtxt := jf.Text(dof.Body)
	if !strings.Contains(dtxt, "DeleteBatch(ctx, j.compactedFiles)") || !strings.Contains(dtxt, "range j.compactedFiles") {
		return fmt.Errorf("deleteOldFiles no longer deletes j.compactedFiles (batch and per-file paths)")
	}
	// uploadFile fails only with the error of the storage write itself (Run deletes the manifest on
	// an upload failure "since the output doesn't exist")
	_, upf := fg.FindFunc(files, "Job", "uploadFile")
	if upf == nil {
		return fmt.Errorf("(*Job).uploadFile not found")
	}
	wrs := callsIn(upf.Body, "WriteReader")
	if len(wrs) != 1 {
		return fmt.Errorf("uploadFile: expected exactly one WriteReader call, found %d", len(wrs))
	}
	uploadErrOnlyWrite := true
	var wrIf *ast.IfStmt
	ast.Inspect(upf.Body, func(n ast.Node) bool {
		if s, ok := n.(*ast.IfStmt); ok && initCallName(s) == "WriteReader" {
			wrIf = s
		}
		return true
	})
	ast.Inspect(upf.Body, func(n ast.Node) bool {
		r, ok := n.(*ast.ReturnStmt)
		if !ok || r.Pos() < wrs[0].Pos() && !(r.Pos() <= wrs[0].Pos() && wrs[0].End() <= r.End()) {
			return true
		}
		if len(r.Results) != 1 {
			uploadErrOnlyWrite = false
			return true
		}
		res := r.Results[0]
		switch {
		case res == ast.Expr(wrs[0]): // return j.StorageBackend.WriteReader(...)
		case jf.Text(res) == "nil":
		case jf.Text(res) == "err" && wrIf != nil && r.Pos() >= wrIf.Body.Pos() && r.End() <= wrIf.Body.End():
		default:
			uploadErrOnlyWrite = false // e.g. `return ctx.Err()` after a write that succeeded
		}
		return true
	})

	// download skips files that no longer exist
	_, dsf := fg.FindFunc(files, "Job", "downloadSingleFile")
	if dsf == nil {
		return fmt.Errorf("(*Job).downloadSingleFile not found")
	}
	downloadSkips := strings.Contains(jf.Text(dsf.Body), "skipped: true")

	// ---------------------------------------------------------------- recoverManifest
	mf, rec := fg.FindFunc(files, "ManifestManager", "recoverManifest")
	if rec == nil {
		return fmt.Errorf("(*ManifestManager).recoverManifest not found")
	}
	classify := func(c *ast.CallExpr) (string, error) {
		switch recvCallName(c) {
		case "DeleteManifest":
			return "deleteManifest", nil
		case "Delete":
			if len(c.Args) != 2 {
				return "", fmt.Errorf("recoverManifest: Delete with %d args", len(c.Args))
			}
			switch mf.Text(c.Args[1]) {
			case "manifest.OutputPath":
				return "deleteOutput", nil
			case "inputFile":
				return "deleteInputs", nil
			}
			return "", fmt.Errorf("recoverManifest: Delete of unexpected operand %s", mf.Text(c.Args[1]))
		}
		return "", fmt.Errorf("unexpected call")
	}
	seq := func(n ast.Node) ([]string, error) {
		var res []string
		for _, c := range callsIn(n, "Delete", "DeleteManifest", "DeleteBatch", "Write", "WriteReader") {
			k, err := classify(c)
			if err != nil {
				return nil, err
			}
			res = append(res, k)
		}
		return res, nil
	}
	var missingIf, mismatchIf, errorsIf, readErrIf, staleIf *ast.IfStmt
	var inputsLoop *ast.RangeStmt
	ast.Inspect(rec.Body, func(n ast.Node) bool {
		switch s := n.(type) {
		case *ast.IfStmt:
			switch strings.ReplaceAll(mf.Text(s.Cond), " ", "") {
			case "!exists":
				if missingIf == nil {
					missingIf = s
				}
			case "actualSize!=manifest.OutputSize":
				mismatchIf = s
			case "deleteErrors>0":
				errorsIf = s
			}
			if ct := mf.Text(s.Cond); (strings.Contains(ct, "isStale") || strings.Contains(ct, "ManifestMaxAge")) && staleIf == nil {
				staleIf = s
			}
		case *ast.RangeStmt:
			if mf.Text(s.X) == "manifest.InputFiles" {
				inputsLoop = s
			}
		}
		return true
	})
	// first statement pair: ReadManifest; if err != nil { …DeleteManifest }
	for _, st := range rec.Body.List {
		if s, ok := st.(*ast.IfStmt); ok && strings.ReplaceAll(mf.Text(s.Cond), " ", "") == "err!=nil" && readErrIf == nil {
			readErrIf = s
		}
	}
	if missingIf == nil || mismatchIf == nil || errorsIf == nil || inputsLoop == nil || readErrIf == nil {
		return fmt.Errorf("recoverManifest: expected `if !exists`, `if actualSize != manifest.OutputSize`, `for … range manifest.InputFiles`, `if deleteErrors > 0`, and the unreadable-manifest branch")
	}
	recMissing, err := seq(missingIf.Body)
	if err != nil {
		return err
	}
	recMismatch, err := seq(mismatchIf.Body)
	if err != nil {
		return err
	}
	if !hasReturn(missingIf.Body) || !hasReturn(mismatchIf.Body) {
		return fmt.Errorf("recoverManifest: a branch no longer returns")
	}
	// valid branch = mutation calls at positions after the mismatch check, outside the other branches
	var recValid []string
	for _, c := range callsIn(rec.Body, "Delete", "DeleteManifest", "DeleteBatch", "Write", "WriteReader") {
		p := c.Pos()
		inside := func(n ast.Node) bool { return p >= n.Pos() && p < n.End() }
		if inside(missingIf) || inside(mismatchIf) || inside(readErrIf) || (staleIf != nil && inside(staleIf)) {
			continue
		}
		if p < mismatchIf.End() {
			return fmt.Errorf("recoverManifest: storage mutation before the output checks")
		}
		k, err := classify(c)
		if err != nil {
			return err
		}
		if k == "deleteInputs" && !(p >= inputsLoop.Pos() && p < inputsLoop.End()) {
			return fmt.Errorf("recoverManifest: input delete outside the loop over manifest.InputFiles")
		}
		recValid = append(recValid, k)
	}
	if !(missingIf.Pos() < mismatchIf.Pos() && mismatchIf.Pos() < inputsLoop.Pos() && inputsLoop.Pos() < errorsIf.Pos()) {
		return fmt.Errorf("recoverManifest: checks are no longer in the order exists / size / delete inputs / error check")
	}
	keepOnErr := hasReturn(errorsIf.Body) && len(callsIn(errorsIf.Body, "DeleteManifest")) == 0
	// the age check (ManifestMaxAge) only warns: no return, no storage mutation in its branch
	if staleIf == nil {
		return fmt.Errorf("recoverManifest: the ManifestMaxAge / isStale check was not found")
	}
	staleWarnOnly := !hasReturn(staleIf.Body) && len(callsIn(staleIf.Body, "Delete", "DeleteManifest", "DeleteBatch", "Write", "WriteReader")) == 0

	// ---------------------------------------------------------------- runCycleInternal
	mgf, cyc := fg.FindFunc(files, "Manager", "runCycleInternal")
	if cyc == nil {
		return fmt.Errorf("(*Manager).runCycleInternal not found")
	}
	rc := callsIn(cyc.Body, "RecoverOrphanedManifests")
	fc := callsIn(cyc.Body, "FindCandidates")
	flt := callsIn(cyc.Body, "filterCandidateFiles")
	spl := callsIn(cyc.Body, "SplitCandidateIntoBatches")
	ada := callsIn(cyc.Body, "compactFilesAdaptively")
	if len(rc) != 1 || len(fc) != 1 || len(flt) != 1 || len(spl) != 1 || len(ada) != 1 {
		return fmt.Errorf("runCycleInternal: expected one call each of RecoverOrphanedManifests, FindCandidates, filterCandidateFiles, SplitCandidateIntoBatches, compactFilesAdaptively")
	}
	recoverFirst := rc[0].Pos() < fc[0].Pos()
	if !(fc[0].Pos() < flt[0].Pos() && flt[0].Pos() < spl[0].Pos() && spl[0].Pos() < ada[0].Pos()) {
		return fmt.Errorf("runCycleInternal: candidates / filter / split / compact are no longer in this order")
	}
	_ = mgf

	// ---------------------------------------------------------------- GetFilesInManifests / filterCandidateFiles
	_, gfm := fg.FindFunc(files, "ManifestManager", "GetFilesInManifests")
	if gfm == nil {
		return fmt.Errorf("GetFilesInManifests not found")
	}
	gtxt := strings.ReplaceAll(mf.Text(gfm.Body), " ", "")
	filterInputs := strings.Contains(gtxt, "range manifest.InputFiles") || strings.Contains(gtxt, "rangemanifest.InputFiles")
	filterInputs = filterInputs && strings.Contains(gtxt, "result[f]=struct{}{}")
	filterOutputs := strings.Contains(gtxt, "result[manifest.OutputPath]=struct{}{}")
	_, fcf := fg.FindFunc(files, "Manager", "filterCandidateFiles")
	if fcf == nil || len(callsIn(fcf.Body, "GetFilesInManifests")) != 1 {
		return fmt.Errorf("filterCandidateFiles no longer calls GetFilesInManifests")
	}

	// ---------------------------------------------------------------- adaptive retry path
	_, cfa := fg.FindFunc(files, "Manager", "compactFilesAdaptively")
	_, cp := fg.FindFunc(files, "Manager", "CompactPartition")
	if cfa == nil || cp == nil {
		return fmt.Errorf("compactFilesAdaptively / CompactPartition not found")
	}
	consult := []string{"RecoverOrphanedManifests", "recoverManifest", "RecoverManifest", "filterCandidateFiles", "GetFilesInManifests", "IsFileInManifest"}
	retryConsults := len(callsIn(cfa.Body, consult...))+len(callsIn(cp.Body, consult...)) > 0
	if len(callsIn(cfa.Body, "CompactPartition")) != 1 || len(callsIn(cfa.Body, "compactFilesAdaptively")) != 2 || len(callsIn(cfa.Body, "ClassifySubprocessError")) != 1 {
		return fmt.Errorf("compactFilesAdaptively: expected one CompactPartition attempt, one ClassifySubprocessError and two recursive half-batch calls")
	}
	var maxDepth, minBatch int64 = -1, -1
	ast.Inspect(cfa.Body, func(n ast.Node) bool {
		if gd, ok := n.(*ast.GenDecl); ok && gd.Tok == token.CONST {
			for _, sp := range gd.Specs {
				vs := sp.(*ast.ValueSpec)
				for i, nm := range vs.Names {
					if i >= len(vs.Values) {
						continue
					}
					v, err := env.EvalInt(vs.Values[i])
					if err != nil {
						continue
					}
					switch nm.Name {
					case "maxDepth":
						maxDepth = v
					case "minBatchSize":
						minBatch = v
					}
				}
			}
		}
		return true
	})
	if maxDepth < 0 || minBatch < 0 {
		return fmt.Errorf("compactFilesAdaptively: const maxDepth / minBatchSize not found")
	}
	cst := func(name string) (int64, error) {
		e, ok := env.Exprs[name]
		if !ok {
			return 0, fmt.Errorf("const %s not found", name)
		}
		return env.EvalInt(e)
	}
	minPer, err := cst("MinFilesPerBatch")
	if err != nil {
		return err
	}
	defMax, err := cst("DefaultMaxFilesPerBatch")
	if err != nil {
		return err
	}
	maxAllowed, err := cst("MaxAllowedFilesPerBatch")
	if err != nil {
		return err
	}
	// hourly tier default MinFiles: `if cfg.MinFiles == 0 { cfg.MinFiles = N }`
	hf, nht := fg.FindFunc(files, "", "NewHourlyTier")
	if nht == nil {
		return fmt.Errorf("NewHourlyTier not found")
	}
	var hourlyMin int64 = -1
	ast.Inspect(nht.Body, func(n ast.Node) bool {
		if s, ok := n.(*ast.IfStmt); ok && strings.ReplaceAll(hf.Text(s.Cond), " ", "") == "cfg.MinFiles==0" {
			for _, st := range s.Body.List {
				if as, ok := st.(*ast.AssignStmt); ok && len(as.Rhs) == 1 {
					if v, err := env.EvalInt(as.Rhs[0]); err == nil {
						hourlyMin = v
					}
				}
			}
		}
		return true
	})
	if hourlyMin < 0 {
		return fmt.Errorf("NewHourlyTier: default MinFiles not found")
	}
	// compaction COPY does not re-emit the dedup metadata
	df, bcq := fg.FindFunc(files, "", "buildCompactionQuery")
	if bcq == nil {
		return fmt.Errorf("buildCompactionQuery not found")
	}
	keepsMeta := strings.Contains(df.Text(bcq.Body), "KV_METADATA")
	// dedup is enabled when ANY input carries tag metadata (union across files)
	_, rtc := fg.FindFunc(files, "", "readTagColumnsFromParquetFiles")
	if rtc == nil {
		return fmt.Errorf("readTagColumnsFromParquetFiles not found")
	}
	anyFile := strings.Contains(df.Text(rtc.Body), "foundAny")
	// the dedup key is the UNION of the tag lists of ALL inputs: the loop over filePaths only
	// accumulates into a set (its only returns are error returns `return nil, err`), and the
	// result is built from that set after the loop.
	var tagLoop *ast.RangeStmt
	for _, st := range rtc.Body.List {
		if rs, ok := st.(*ast.RangeStmt); ok && df.Text(rs.X) == "filePaths" {
			tagLoop = rs
		}
	}
	if tagLoop == nil {
		return fmt.Errorf("readTagColumnsFromParquetFiles: top-level loop over filePaths not found")
	}
	unionKey := true
	accumulates := false
	ast.Inspect(tagLoop.Body, func(n ast.Node) bool {
		switch x := n.(type) {
		case *ast.ReturnStmt:
			if len(x.Results) != 2 || df.Text(x.Results[0]) != "nil" || df.Text(x.Results[1]) != "err" {
				unionKey = false // the loop answers early from a single file
			}
		case *ast.BranchStmt:
			if x.Tok == token.BREAK {
				unionKey = false
			}
		case *ast.AssignStmt:
			if len(x.Lhs) == 1 {
				if ix, ok := x.Lhs[0].(*ast.IndexExpr); ok && df.Text(ix.X) == "tagSet" {
					accumulates = true
				}
			}
		}
		return true
	})
	afterLoop := false
	for _, st := range rtc.Body.List {
		if st.Pos() > tagLoop.End() {
			if rs, ok := st.(*ast.RangeStmt); ok && df.Text(rs.X) == "tagSet" {
				afterLoop = true
			}
		}
	}
	unionKey = unionKey && accumulates && afterLoop

	lean := func(xs []string, typ string) string {
		var ps []string
		for _, x := range xs {
			ps = append(ps, "."+x)
		}
		return "[" + strings.Join(ps, ", ") + "]"
	}
	b := func(v bool) string {
		if v {
			return "true"
		}
		return "false"
	}
	w := &out.Lean
	fmt.Fprintf(w, "namespace Arc.Generated.C09\n")
	fmt.Fprintf(w, "/-- storage-mutating phases of `Job.Run` after the DuckDB COPY, in source order -/\n")
	fmt.Fprintf(w, "inductive JobStep | writeManifest | upload | deleteInputs | deleteManifest\nderiving DecidableEq, Repr\n")
	fmt.Fprintf(w, "/-- storage mutations of one branch of `recoverManifest`, in source order -/\n")
	fmt.Fprintf(w, "inductive RecStep | deleteOutput | deleteInputs | deleteManifest\nderiving DecidableEq, Repr\n")
	fmt.Fprintf(w, "def jobSteps : List JobStep := %s\n", lean(jobSteps, "JobStep"))
	fmt.Fprintf(w, "def recOutputMissing : List RecStep := %s\n", lean(recMissing, "RecStep"))
	fmt.Fprintf(w, "def recSizeMismatch : List RecStep := %s\n", lean(recMismatch, "RecStep"))
	fmt.Fprintf(w, "def recOutputValid : List RecStep := %s\n", lean(recValid, "RecStep"))
	fmt.Fprintf(w, "def recKeepsManifestOnDeleteError : Bool := %s\n", b(keepOnErr))
	fmt.Fprintf(w, "def cycleRecoversBeforeCandidates : Bool := %s\n", b(recoverFirst))
	fmt.Fprintf(w, "def filterExcludesManifestInputs : Bool := %s\n", b(filterInputs))
	fmt.Fprintf(w, "def filterExcludesManifestOutputs : Bool := %s\n", b(filterOutputs))
	fmt.Fprintf(w, "/-- does compactFilesAdaptively / CompactPartition look at manifests (recovery or filter) before re-compacting? -/\n")
	fmt.Fprintf(w, "def retryConsultsManifests : Bool := %s\n", b(retryConsults))
	fmt.Fprintf(w, "def downloadSkipsMissing : Bool := %s\n", b(downloadSkips))
	fmt.Fprintf(w, "def outputKeepsDedupMetadata : Bool := %s\n", b(keepsMeta))
	fmt.Fprintf(w, "/-- uploadFile returns an error only when the storage write itself failed -/\n")
	fmt.Fprintf(w, "def uploadErrorOnlyFromStorageWrite : Bool := %s\n", b(uploadErrOnlyWrite))
	fmt.Fprintf(w, "/-- the ManifestMaxAge check of recoverManifest only warns (no return, no delete) -/\n")
	fmt.Fprintf(w, "def staleManifestWarnOnly : Bool := %s\n", b(staleWarnOnly))
	fmt.Fprintf(w, "def dedupWhenAnyInputTagged : Bool := %s\n", b(anyFile))
	fmt.Fprintf(w, "/-- readTagColumnsFromParquetFiles returns the union of the arc:tags lists of ALL inputs -/\n")
	fmt.Fprintf(w, "def dedupKeyIsUnionOfInputTags : Bool := %s\n", b(unionKey))
	fmt.Fprintf(w, "def minFilesPerBatch : Nat := %d\n", minPer)
	fmt.Fprintf(w, "def defaultMaxFilesPerBatch : Nat := %d\n", defMax)
	fmt.Fprintf(w, "def maxAllowedFilesPerBatch : Nat := %d\n", maxAllowed)
	fmt.Fprintf(w, "def adaptiveMaxDepth : Nat := %d\n", maxDepth)
	fmt.Fprintf(w, "def adaptiveMinBatch : Nat := %d\n", minBatch)
	fmt.Fprintf(w, "def hourlyDefaultMinFiles : Nat := %d\n", hourlyMin)
	fmt.Fprintf(w, "end Arc.Generated.C09\n")
	out.JSON["job_steps"] = jobSteps
	out.JSON["rec_missing"] = recMissing
	out.JSON["rec_mismatch"] = recMismatch
	out.JSON["rec_valid"] = recValid
	out.JSON["retry_consults_manifests"] = retryConsults
	out.JSON["recover_first"] = recoverFirst
	out.JSON["filter_inputs"] = filterInputs
	out.JSON["filter_outputs"] = filterOutputs
	out.JSON["output_keeps_dedup_metadata"] = keepsMeta
	out.JSON["dedup_key_is_union"] = unionKey
	return nil
}
