package main

// C19 facts: the escape table / hexDigit / literal texts of the hand-rolled JSON writer, the envelope layout of
// streamArrowJSON and streamMsgPackFromBatches, and — from the msgpack fork at the version go.mod pins, read in
// the module cache — every format code and every size-class threshold of the header writers arc calls.
// Each extraction states the shape it expects; anything else is SHAPE-MISMATCH (tie broken).

import (
	"fmt"
	"go/ast"
	"go/token"
	"os"
	"path/filepath"
	"regexp"
	"strconv"
	"strings"
	"verif/factgen/fg"
)

func main() { fg.Main("C19", c19) }

func natList(b []byte) string {
	p := make([]string, len(b))
	for i, x := range b {
		p[i] = strconv.Itoa(int(x))
	}
	return "[" + strings.Join(p, ", ") + "]"
}

func litValue(e ast.Expr) (int64, error) {
	bl, ok := e.(*ast.BasicLit)
	if !ok {
		return 0, fmt.Errorf("not a literal")
	}
	switch bl.Kind {
	case token.CHAR:
		s, err := strconv.Unquote(bl.Value)
		if err != nil || len(s) != 1 {
			return 0, fmt.Errorf("char literal %s", bl.Value)
		}
		return int64(s[0]), nil
	case token.INT:
		return strconv.ParseInt(bl.Value, 0, 64)
	}
	return 0, fmt.Errorf("literal kind")
}

func strLit(e ast.Expr) (string, bool) {
	bl, ok := e.(*ast.BasicLit)
	if !ok || bl.Kind != token.STRING {
		return "", false
	}
	s, err := strconv.Unquote(bl.Value)
	return s, err == nil
}

// writeStrings: string literals passed to <recv>.WriteString / EncodeString(...) inside n, in source order
func callStrings(n ast.Node, method string) []string {
	var out []string
	ast.Inspect(n, func(x ast.Node) bool {
		c, ok := x.(*ast.CallExpr)
		if !ok {
			return true
		}
		if fg.CalleeName(c) == method && len(c.Args) == 1 {
			if s, ok := strLit(c.Args[0]); ok {
				out = append(out, s)
			}
		}
		return true
	})
	return out
}

var mathConst = map[string]int64{"math.MaxInt8": 127, "math.MaxUint8": 255, "math.MaxUint16": 65535, "math.MaxUint32": 4294967295,
	"math.MinInt8": -128, "math.MinInt16": -32768, "math.MinInt32": -2147483648}

type branch struct {
	op   string
	val  int64
	call string
}

// ifChain: the top-level `if <var> <op> <bound> { return <call> }` statements of a function body + the final return.
func ifChain(f *fg.File, fd *ast.FuncDecl, codes *fg.ConstEnv) ([]branch, string, error) {
	var bs []branch
	last := ""
	for _, st := range fd.Body.List {
		switch s := st.(type) {
		case *ast.IfStmt:
			be, ok := s.Cond.(*ast.BinaryExpr)
			if !ok || len(s.Body.List) != 1 {
				return nil, "", fmt.Errorf("%s: unexpected if shape %s", fd.Name.Name, f.Text(s.Cond))
			}
			rt := f.Text(be.Y)
			var v int64
			if m, ok := mathConst[rt]; ok {
				v = m
			} else if rt == "int64(int8(msgpcode.NegFixedNumLow))" {
				c, err := codes.EvalInt(codes.Exprs["NegFixedNumLow"])
				if err != nil {
					return nil, "", err
				}
				v = int64(int8(c))
			} else if lv, err := litValue(be.Y); err == nil {
				v = lv
			} else {
				return nil, "", fmt.Errorf("%s: bound %s not understood", fd.Name.Name, rt)
			}
			ret, ok := s.Body.List[0].(*ast.ReturnStmt)
			if !ok || len(ret.Results) != 1 {
				return nil, "", fmt.Errorf("%s: branch body is not a single return", fd.Name.Name)
			}
			bs = append(bs, branch{be.Op.String(), v, f.Text(ret.Results[0])})
		case *ast.ReturnStmt:
			if len(s.Results) == 1 {
				last = f.Text(s.Results[0])
			}
		case *ast.SwitchStmt:
			// handled by the caller (encodeExtLen)
		default:
			return nil, "", fmt.Errorf("%s: unexpected statement %T", fd.Name.Name, st)
		}
	}
	return bs, last, nil
}

// excl: exclusive upper bound of `x < v` / `x <= v`
func excl(b branch) (int64, error) {
	switch b.op {
	case "<":
		return b.val, nil
	case "<=":
		return b.val + 1, nil
	}
	return 0, fmt.Errorf("operator %s where < or <= expected", b.op)
}

func expectCalls(fn string, bs []branch, last string, want []string) error {
	got := []string{}
	for _, b := range bs {
		got = append(got, b.call)
	}
	got = append(got, last)
	if strings.Join(got, " | ") != strings.Join(want, " | ") {
		return fmt.Errorf("%s: branch calls changed:\n got  %s\n want %s", fn, strings.Join(got, " | "), strings.Join(want, " | "))
	}
	return nil
}

func modDir(repo string) (string, string, error) {
	gm, err := os.ReadFile(filepath.Join(repo, "go.mod"))
	if err != nil {
		return "", "", err
	}
	m := regexp.MustCompile(`(?m)^\s*github\.com/Basekick-Labs/msgpack/v6\s+(v\S+)`).FindSubmatch(gm)
	if m == nil {
		return "", "", fmt.Errorf("go.mod does not require github.com/Basekick-Labs/msgpack/v6")
	}
	ver := string(m[1])
	cache := os.Getenv("GOMODCACHE")
	if cache == "" {
		gp := os.Getenv("GOPATH")
		if gp == "" {
			home, _ := os.UserHomeDir()
			gp = filepath.Join(home, "go")
		}
		cache = filepath.Join(gp, "pkg", "mod")
	}
	// a vendored / replaced copy inside the repo wins (go.mod replace => local dir)
	if r := regexp.MustCompile(`(?m)^\s*replace\s+github\.com/Basekick-Labs/msgpack/v6\s*=>\s*(\S+)`).FindSubmatch(gm); r != nil && strings.HasPrefix(string(r[1]), ".") {
		return filepath.Join(repo, string(r[1])), ver + "(replace)", nil
	}
	d := filepath.Join(cache, "github.com", "!basekick-!labs", "msgpack", "v6@"+ver)
	if _, err := os.Stat(d); err != nil {
		return "", "", fmt.Errorf("msgpack fork %s not in module cache (%s)", ver, d)
	}
	return d, ver, nil
}

func c19(repo string, out *fg.Out) error {
	L := &out.Lean
	fmt.Fprintln(L, "namespace Arc.Generated.C19\n")

	// ---------------- writeJSONString
	jw, err := fg.ParseFile(repo, "internal/api/query_json_writer.go")
	if err != nil {
		return err
	}
	fd := jw.FuncDecl("", "writeJSONString")
	if fd == nil {
		return fmt.Errorf("writeJSONString not found")
	}
	var escIf *ast.IfStmt
	ast.Inspect(fd, func(n ast.Node) bool {
		if s, ok := n.(*ast.IfStmt); ok && escIf == nil {
			if be, ok := s.Cond.(*ast.BinaryExpr); ok && be.Op == token.LOR {
				escIf = s
			}
		}
		return true
	})
	if escIf == nil {
		return fmt.Errorf("writeJSONString: escape test `c == .. || c == .. || c < ..` not found")
	}
	var always []string
	below := int64(-1)
	var walk func(e ast.Expr) error
	walk = func(e ast.Expr) error {
		be, ok := e.(*ast.BinaryExpr)
		if !ok {
			return fmt.Errorf("writeJSONString: unexpected escape test %s", jw.Text(e))
		}
		switch be.Op {
		case token.LOR:
			if err := walk(be.X); err != nil {
				return err
			}
			return walk(be.Y)
		case token.EQL, token.LSS:
			if jw.Text(be.X) != "c" {
				return fmt.Errorf("writeJSONString: escape test on %s", jw.Text(be.X))
			}
			v, err := litValue(be.Y)
			if err != nil {
				return err
			}
			if be.Op == token.EQL {
				always = append(always, strconv.FormatInt(v, 10))
			} else {
				below = v
			}
			return nil
		}
		return fmt.Errorf("writeJSONString: operator %s in escape test", be.Op)
	}
	if err := walk(escIf.Cond); err != nil {
		return err
	}
	if below < 0 {
		return fmt.Errorf("writeJSONString: no `c < N` clause")
	}
	var sw *ast.SwitchStmt
	ast.Inspect(escIf.Body, func(n ast.Node) bool {
		if s, ok := n.(*ast.SwitchStmt); ok && sw == nil {
			sw = s
		}
		return true
	})
	if sw == nil || jw.Text(sw.Tag) != "c" {
		return fmt.Errorf("writeJSONString: `switch c` not found")
	}
	var table []string
	defPrefix := ""
	for _, cc := range sw.Body.List {
		cl := cc.(*ast.CaseClause)
		ws := []string{}
		for _, st := range cl.Body {
			ws = append(ws, jw.Text(st))
		}
		if cl.List == nil {
			if len(cl.Body) != 3 || ws[1] != "w.WriteByte(hexDigit(c >> 4))" || ws[2] != "w.WriteByte(hexDigit(c & 0x0f))" {
				return fmt.Errorf("writeJSONString: default escape changed: %v", ws)
			}
			ss := callStrings(cl.Body[0], "WriteString")
			if len(ss) != 1 {
				return fmt.Errorf("writeJSONString: default prefix")
			}
			defPrefix = ss[0]
			continue
		}
		if len(cl.List) != 1 || len(cl.Body) != 1 {
			return fmt.Errorf("writeJSONString: case shape changed")
		}
		v, err := litValue(cl.List[0])
		if err != nil {
			return err
		}
		ss := callStrings(cl.Body[0], "WriteString")
		if len(ss) != 1 {
			return fmt.Errorf("writeJSONString: case %d does not write one literal", v)
		}
		table = append(table, fmt.Sprintf("(%d, %s)", v, natList([]byte(ss[0]))))
	}
	if defPrefix == "" {
		return fmt.Errorf("writeJSONString: no default clause")
	}
	hd := jw.FuncDecl("", "hexDigit")
	if hd == nil {
		return fmt.Errorf("hexDigit not found")
	}
	m := regexp.MustCompile(`(?s)if b < (\d+) \{\s*return '(.)' \+ b\s*\}\s*return '(.)' \+ b - 10`).FindStringSubmatch(jw.Text(hd.Body))
	if m == nil {
		return fmt.Errorf("hexDigit: body changed: %s", jw.Text(hd.Body))
	}
	fmt.Fprintln(L, "/-! writeJSONString (internal/api/query_json_writer.go) -/")
	fmt.Fprintf(L, "def escAlways : List Nat := [%s]\n", strings.Join(always, ", "))
	fmt.Fprintf(L, "def escBelow : Nat := %d\n", below)
	fmt.Fprintf(L, "def escTable : List (Nat × List Nat) :=\n  [%s]\n", strings.Join(table, ", "))
	fmt.Fprintf(L, "def escDefaultPrefix : List Nat := %s\n", natList([]byte(defPrefix)))
	fmt.Fprintf(L, "def hexDigitBelow : Nat := %s\ndef hexDigitNum : Nat := %d\ndef hexDigitAlpha : Nat := %d\n", m[1], m[2][0], m[3][0])
	out.JSON["esc_table"] = table
	out.JSON["esc_below"] = below

	// ---------------- writeArrowValue / streamArrowJSON
	aj, err := fg.ParseFile(repo, "internal/api/query_arrow_json.go")
	if err != nil {
		return err
	}
	wav := aj.FuncDecl("", "writeArrowValue")
	if wav == nil {
		return fmt.Errorf("writeArrowValue not found")
	}
	wtxt := aj.Text(wav)
	nonFinite := ""
	for _, ty := range []string{"Float64", "Float32"} {
		re := regexp.MustCompile(`(?s)case \*array\.` + ty + `:.*?if math\.IsNaN\(v\) \|\| math\.IsInf\(v, 0\) \{\s*w\.WriteString\("([^"]*)"\)\s*\} else \{\s*scratch = strconv\.AppendFloat\(scratch\[:0\], v, 'f', -1, 64\)`)
		mm := re.FindStringSubmatch(wtxt)
		if mm == nil {
			return fmt.Errorf("writeArrowValue: %s non-finite test changed", ty)
		}
		if nonFinite != "" && nonFinite != mm[1] {
			return fmt.Errorf("writeArrowValue: Float32/Float64 non-finite texts differ")
		}
		nonFinite = mm[1]
	}
	mm := regexp.MustCompile(`(?s)if col\.IsNull\(row\) \{\s*w\.WriteString\("([^"]*)"\)\s*return scratch`).FindStringSubmatch(wtxt)
	if mm == nil {
		return fmt.Errorf("writeArrowValue: null test changed")
	}
	nullTxt := mm[1]
	mm = regexp.MustCompile(`(?s)case \*array\.Boolean:\s*if c\.Value\(row\) \{\s*w\.WriteString\("([^"]*)"\)\s*\} else \{\s*w\.WriteString\("([^"]*)"\)`).FindStringSubmatch(wtxt)
	if mm == nil {
		return fmt.Errorf("writeArrowValue: Boolean case changed")
	}
	fmt.Fprintf(L, "def jsonNonFiniteText : List Nat := %s\ndef jsonNullText : List Nat := %s\ndef jsonTrueText : List Nat := %s\ndef jsonFalseText : List Nat := %s\n",
		natList([]byte(nonFinite)), natList([]byte(nullTxt)), natList([]byte(mm[1])), natList([]byte(mm[2])))
	// BLOB / Decimal128 cells
	if !strings.Contains(wtxt, "case *array.Binary:\n\t\t// A BLOB") && !regexp.MustCompile(`(?s)case \*array\.Binary:.*?writeJSONString\(w, scratch, blobText\(c\.Value\(row\)\)\)`).MatchString(wtxt) {
		return fmt.Errorf("writeArrowValue: Binary case no longer writes blobText(c.Value(row))")
	}
	if !regexp.MustCompile(`(?s)case \*array\.Binary:[^}]*?writeJSONString\(w, scratch, blobText\(c\.Value\(row\)\)\)\s*case`).MatchString(wtxt) {
		return fmt.Errorf("writeArrowValue: Binary case no longer writes exactly blobText(c.Value(row))")
	}
	if !regexp.MustCompile(`(?s)case \*array\.Decimal128:[^}]*?writeJSONString\(w, scratch, decimalText\(c\.Value\(row\)\.BigInt\(\), int\(c\.DataType\(\)\.\(\*arrow\.Decimal128Type\)\.Scale\)\)\)\s*default`).MatchString(wtxt) {
		return fmt.Errorf("writeArrowValue: Decimal128 case changed")
	}
	bt := aj.FuncDecl("", "blobText")
	if bt == nil {
		return fmt.Errorf("blobText not found")
	}
	bm := regexp.MustCompile("(?s)const hexd = \"([^\"]*)\"\\s*out := make\\(\\[\\]byte, 0, len\\(b\\)\\)\\s*for _, c := range b \\{\\s*if c >= (\\d+) && c <= (\\d+)((?: && c != '(?:\\\\.|[^'])')*) \\{\\s*out = append\\(out, c\\)\\s*\\} else \\{\\s*out = append\\(out, ((?:'(?:\\\\.|[^'])', )+)hexd\\[c>>4\\], hexd\\[c&15\\]\\)\\s*\\}\\s*\\}\\s*return string\\(out\\)").FindStringSubmatch(aj.Text(bt.Body))
	if bm == nil {
		return fmt.Errorf("blobText: body changed: %s", aj.Text(bt.Body))
	}
	chars := func(txt string) ([]byte, error) {
		var out []byte
		for _, q := range regexp.MustCompile(`'(?:\\.|[^'])'`).FindAllString(txt, -1) {
			u, err := strconv.Unquote(q)
			if err != nil || len(u) != 1 {
				return nil, fmt.Errorf("blobText: char literal %s", q)
			}
			out = append(out, u[0])
		}
		return out, nil
	}
	excl2, err := chars(bm[4])
	if err != nil {
		return err
	}
	pref, err := chars(bm[5])
	if err != nil {
		return err
	}
	if len(bm[1]) != 16 {
		return fmt.Errorf("blobText: hexd has %d digits", len(bm[1]))
	}
	fmt.Fprintf(L, "def blobPrintLo : Nat := %s\ndef blobPrintHi : Nat := %s\ndef blobExcluded : List Nat := %s\ndef blobEscPrefix : List Nat := %s\ndef blobHexDigits : List Nat := %s\n",
		bm[2], bm[3], natList(excl2), natList(pref), natList([]byte(bm[1])))
	dtf := aj.FuncDecl("", "decimalText")
	if dtf == nil {
		return fmt.Errorf("decimalText not found")
	}
	wantDT := regexp.MustCompile(`\s+`).ReplaceAllString(`{ neg := unscaled.Sign() < 0 s := new(big.Int).Abs(unscaled).String() if scale > 0 { for len(s) <= scale { s = "0" + s } s = s[:len(s)-scale] + "." + s[len(s)-scale:] } if neg { s = "-" + s } return s }`, " ")
	if got := regexp.MustCompile(`\s+`).ReplaceAllString(aj.Text(dtf.Body), " "); got != wantDT {
		return fmt.Errorf("decimalText: body changed: %s", got)
	}
	saj := aj.FuncDecl("", "streamArrowJSON")
	if saj == nil {
		return fmt.Errorf("streamArrowJSON not found")
	}
	ws := callStrings(saj, "WriteString")
	wantPrefix := []string{`{"success":true,"columns":`, `,"data":[`}
	if len(ws) < 5 {
		return fmt.Errorf("streamArrowJSON: envelope literals: %q", ws)
	}
	_ = wantPrefix
	names := []string{"jsonEnvOpen", "jsonEnvData", "jsonEnvRowCount", "jsonEnvExec", "jsonEnvTimestamp"}
	keyRe := []string{`"columns":$`, `"data":\[$`, `"row_count":$`, `"execution_time_ms":$`, `"timestamp":$`}
	for i, nm := range names {
		if !regexp.MustCompile(keyRe[i]).MatchString(ws[i]) {
			return fmt.Errorf("streamArrowJSON: envelope literal #%d is %q", i, ws[i])
		}
		fmt.Fprintf(L, "def %s : List Nat := %s\n", nm, natList([]byte(ws[i])))
	}
	if !strings.Contains(aj.Text(saj), "if governanceMaxRows > 0 && rowCount >= governanceMaxRows {\n\t\t\t\tgoto done") {
		return fmt.Errorf("streamArrowJSON: governance row-limit test changed")
	}
	out.JSON["json_envelope"] = ws[:5]

	// ---------------- msgpack fork
	dir, ver, err := modDir(repo)
	if err != nil {
		return err
	}
	out.JSON["msgpack_version"] = ver
	pc, err := fg.ParseFile(dir, "msgpcode/msgpcode.go")
	if err != nil {
		return err
	}
	codes := fg.NewConstEnv([]*fg.File{pc})
	fmt.Fprintf(L, "\n/-! msgpack fork github.com/Basekick-Labs/msgpack/v6 %s: msgpcode constants -/\n", ver)
	for _, nm := range []string{"Nil", "False", "True", "Float", "Double", "Uint8", "Uint16", "Uint32", "Uint64", "Int8", "Int16", "Int32", "Int64",
		"FixedStrLow", "Str8", "Str16", "Str32", "Bin8", "Bin16", "Bin32", "FixedArrayLow", "Array16", "Array32", "FixedMapLow", "Map16", "Map32",
		"FixExt1", "FixExt2", "FixExt4", "FixExt8", "FixExt16", "Ext8", "Ext16", "Ext32", "NegFixedNumLow"} {
		e, ok := codes.Exprs[nm]
		if !ok {
			return fmt.Errorf("msgpcode.%s not found", nm)
		}
		v, err := codes.EvalInt(e)
		if err != nil {
			return fmt.Errorf("msgpcode.%s: %v", nm, err)
		}
		fmt.Fprintf(L, "def c%s : Nat := %d\n", nm, v)
	}
	parse := func(rel string) (*fg.File, error) { return fg.ParseFile(dir, rel) }
	en, err := parse("encode_number.go")
	if err != nil {
		return err
	}
	es, err := parse("encode_slice.go")
	if err != nil {
		return err
	}
	em, err := parse("encode_map.go")
	if err != nil {
		return err
	}
	ex, err := parse("ext.go")
	if err != nil {
		return err
	}
	tm, err := parse("time.go")
	if err != nil {
		return err
	}
	get := func(f *fg.File, name string, want []string) ([]branch, error) {
		d := f.FuncDecl("Encoder", name)
		if d == nil {
			return nil, fmt.Errorf("msgpack: (*Encoder).%s not found", name)
		}
		bs, last, err := ifChain(f, d, codes)
		if err != nil {
			return nil, err
		}
		return bs, expectCalls(name, bs, last, want)
	}
	fmt.Fprintln(L, "\n/-! size-class thresholds of the header writers -/")
	bs, err := get(en, "EncodeUint", []string{"e.w.WriteByte(byte(n))", "e.EncodeUint8(uint8(n))", "e.EncodeUint16(uint16(n))", "e.EncodeUint32(uint32(n))", "e.EncodeUint64(n)"})
	if err != nil {
		return err
	}
	for i, nm := range []string{"uintFixLe", "uint8Le", "uint16Le", "uint32Le"} {
		b, err := excl(bs[i])
		if err != nil {
			return fmt.Errorf("EncodeUint: %v", err)
		}
		fmt.Fprintf(L, "def %s : Nat := %d\n", nm, b-1)
	}
	bs, err = get(en, "EncodeInt", []string{"e.EncodeUint(uint64(n))", "e.w.WriteByte(byte(n))", "e.EncodeInt8(int8(n))", "e.EncodeInt16(int16(n))", "e.EncodeInt32(int32(n))", "e.EncodeInt64(n)"})
	if err != nil {
		return err
	}
	if bs[0].op != ">=" || bs[0].val != 0 {
		return fmt.Errorf("EncodeInt: first test is not n >= 0")
	}
	for i, nm := range []string{"intFixGe", "int8Ge", "int16Ge", "int32Ge"} {
		b := bs[i+1]
		v := b.val
		if b.op == ">" {
			v++
		} else if b.op != ">=" {
			return fmt.Errorf("EncodeInt: operator %s", b.op)
		}
		fmt.Fprintf(L, "def %s : Int := %s\n", nm, fg.LeanInt(v))
	}
	for _, w := range []struct{ fn, code, arg string }{{"EncodeUint8", "Uint8", "n"}, {"EncodeUint16", "Uint16", "n"}, {"EncodeUint32", "Uint32", "n"}, {"EncodeUint64", "Uint64", "n"},
		{"EncodeInt8", "Int8", "uint8(n)"}, {"EncodeInt16", "Int16", "uint16(n)"}, {"EncodeInt32", "Int32", "uint32(n)"}, {"EncodeInt64", "Int64", "uint64(n)"}} {
		d := en.FuncDecl("Encoder", w.fn)
		if d == nil || !strings.Contains(en.Text(d.Body), "(msgpcode."+w.code+", "+w.arg+")") {
			return fmt.Errorf("msgpack: %s no longer writes msgpcode.%s + big-endian value", w.fn, w.code)
		}
	}
	for _, w := range []struct {
		fn   string
		n    int
		body string
	}{{"write1", 2, "e.buf[1] = n"}, {"write2", 3, "e.buf[1] = byte(n >> 8)\n\te.buf[2] = byte(n)"},
		{"write4", 5, "e.buf[1] = byte(n >> 24)\n\te.buf[2] = byte(n >> 16)\n\te.buf[3] = byte(n >> 8)\n\te.buf[4] = byte(n)"},
		{"write8", 9, "e.buf[1] = byte(n >> 56)\n\te.buf[2] = byte(n >> 48)\n\te.buf[3] = byte(n >> 40)\n\te.buf[4] = byte(n >> 32)\n\te.buf[5] = byte(n >> 24)\n\te.buf[6] = byte(n >> 16)\n\te.buf[7] = byte(n >> 8)\n\te.buf[8] = byte(n)"}} {
		d := en.FuncDecl("Encoder", w.fn)
		if d == nil || !strings.Contains(en.Text(d.Body), w.body) || !strings.Contains(en.Text(d.Body), "e.buf[0] = code") {
			return fmt.Errorf("msgpack: %s is no longer code + big-endian bytes", w.fn)
		}
	}
	for _, w := range []struct{ fn, code string }{{"EncodeFloat32", "e.write4(msgpcode.Float, math.Float32bits(n))"}, {"EncodeFloat64", "e.write8(msgpcode.Double, math.Float64bits(n))"}} {
		d := en.FuncDecl("Encoder", w.fn)
		if d == nil || !strings.Contains(en.Text(d.Body), w.code) {
			return fmt.Errorf("msgpack: %s changed", w.fn)
		}
	}
	bs, err = get(es, "encodeStringLen", []string{"e.writeCode(msgpcode.FixedStrLow | byte(l))", "e.write1(msgpcode.Str8, uint8(l))", "e.write2(msgpcode.Str16, uint16(l))", "e.write4(msgpcode.Str32, uint32(l))"})
	if err != nil {
		return err
	}
	b0, e0 := excl(bs[0])
	b1, e1 := excl(bs[1])
	b2, e2 := excl(bs[2])
	if e0 != nil || e1 != nil || e2 != nil {
		return fmt.Errorf("encodeStringLen: operators changed")
	}
	fmt.Fprintf(L, "def strFixLt : Nat := %d\ndef str8Lt : Nat := %d\ndef str16Le : Nat := %d\n", b0, b1, b2-1)
	bs, err = get(es, "EncodeBytesLen", []string{"e.write1(msgpcode.Bin8, uint8(l))", "e.write2(msgpcode.Bin16, uint16(l))", "e.write4(msgpcode.Bin32, uint32(l))"})
	if err != nil {
		return err
	}
	b0, e0 = excl(bs[0])
	b1, e1 = excl(bs[1])
	if e0 != nil || e1 != nil {
		return fmt.Errorf("EncodeBytesLen: operators changed")
	}
	fmt.Fprintf(L, "def bin8Lt : Nat := %d\ndef bin16Le : Nat := %d\n", b0, b1-1)
	bs, err = get(es, "EncodeArrayLen", []string{"e.writeCode(msgpcode.FixedArrayLow | byte(l))", "e.write2(msgpcode.Array16, uint16(l))", "e.write4(msgpcode.Array32, uint32(l))"})
	if err != nil {
		return err
	}
	b0, e0 = excl(bs[0])
	b1, e1 = excl(bs[1])
	if e0 != nil || e1 != nil {
		return fmt.Errorf("EncodeArrayLen: operators changed")
	}
	fmt.Fprintf(L, "def arrFixLt : Nat := %d\ndef arr16Le : Nat := %d\n", b0, b1-1)
	bs, err = get(em, "EncodeMapLen", []string{"e.writeCode(msgpcode.FixedMapLow | byte(l))", "e.write2(msgpcode.Map16, uint16(l))", "e.write4(msgpcode.Map32, uint32(l))"})
	if err != nil {
		return err
	}
	b0, e0 = excl(bs[0])
	b1, e1 = excl(bs[1])
	if e0 != nil || e1 != nil {
		return fmt.Errorf("EncodeMapLen: operators changed")
	}
	fmt.Fprintf(L, "def mapFixLt : Nat := %d\ndef map16Le : Nat := %d\n", b0, b1-1)
	for _, w := range []struct {
		f        *fg.File
		fn, want string
	}{{es, "EncodeString", "e.encodeNormalString(v)"}, {es, "encodeNormalString", "e.encodeStringLen(len(v))"}, {es, "EncodeBytes", "e.EncodeBytesLen(len(v))"}} {
		d := w.f.FuncDecl("Encoder", w.fn)
		if d == nil || !strings.Contains(w.f.Text(d.Body), w.want) {
			return fmt.Errorf("msgpack: %s changed", w.fn)
		}
	}
	// ext
	xd := ex.FuncDecl("Encoder", "encodeExtLen")
	if xd == nil {
		return fmt.Errorf("msgpack: encodeExtLen not found")
	}
	var fix []string
	for _, st := range xd.Body.List {
		if s, ok := st.(*ast.SwitchStmt); ok {
			for _, cc := range s.Body.List {
				cl := cc.(*ast.CaseClause)
				if len(cl.List) != 1 || len(cl.Body) != 1 {
					return fmt.Errorf("encodeExtLen: case shape")
				}
				v, err := litValue(cl.List[0])
				if err != nil {
					return err
				}
				mm := regexp.MustCompile(`^return e\.writeCode\(msgpcode\.(\w+)\)$`).FindStringSubmatch(ex.Text(cl.Body[0]))
				if mm == nil {
					return fmt.Errorf("encodeExtLen: case %d body %s", v, ex.Text(cl.Body[0]))
				}
				cv, err := codes.EvalInt(codes.Exprs[mm[1]])
				if err != nil {
					return err
				}
				fix = append(fix, fmt.Sprintf("(%d, %d)", v, cv))
			}
		}
	}
	bs, last, err := ifChain(ex, xd, codes)
	if err != nil {
		return err
	}
	if err := expectCalls("encodeExtLen", bs, last, []string{"e.write1(msgpcode.Ext8, uint8(l))", "e.write2(msgpcode.Ext16, uint16(l))", "e.write4(msgpcode.Ext32, uint32(l))"}); err != nil {
		return err
	}
	b0, e0 = excl(bs[0])
	b1, e1 = excl(bs[1])
	if e0 != nil || e1 != nil {
		return fmt.Errorf("encodeExtLen: operators changed")
	}
	fmt.Fprintf(L, "def extFixLens : List (Nat × Nat) := [%s]\ndef ext8Le : Nat := %d\ndef ext16Le : Nat := %d\n", strings.Join(fix, ", "), b0-1, b1-1)
	// time
	tsrc := string(tm.Src)
	mm = regexp.MustCompile(`var timeExtID int8 = (-?\d+)`).FindStringSubmatch(tsrc)
	if mm == nil {
		return fmt.Errorf("time.go: timeExtID")
	}
	id, _ := strconv.Atoi(mm[1])
	td := tm.FuncDecl("Encoder", "encodeTime")
	if td == nil {
		return fmt.Errorf("time.go: encodeTime not found")
	}
	tt := tm.Text(td.Body)
	m2 := regexp.MustCompile(`(?s)secs := uint64\(tm\.Unix\(\)\)\s*if secs>>(\d+) == 0 \{\s*data := uint64\(tm\.Nanosecond\(\)\)<<(\d+) \| secs\s*if data&(0x[0-9a-fA-F]+) == 0 \{\s*b := e\.timeBuf\[:4\]\s*binary\.BigEndian\.PutUint32\(b, uint32\(data\)\)\s*return b\s*\}\s*b := e\.timeBuf\[:8\]\s*binary\.BigEndian\.PutUint64\(b, data\)\s*return b\s*\}\s*b := e\.timeBuf\[:12\]\s*binary\.BigEndian\.PutUint32\(b, uint32\(tm\.Nanosecond\(\)\)\)\s*binary\.BigEndian\.PutUint64\(b\[4:\], secs\)\s*return b`).FindStringSubmatch(tt)
	if m2 == nil || m2[1] != m2[2] {
		return fmt.Errorf("time.go: encodeTime body changed")
	}
	mask, _ := strconv.ParseUint(m2[3], 0, 64)
	et := tm.FuncDecl("Encoder", "EncodeTime")
	if et == nil || !strings.Contains(tm.Text(et.Body), "e.encodeExtLen(len(b))") || !strings.Contains(tm.Text(et.Body), "e.w.WriteByte(byte(timeExtID))") {
		return fmt.Errorf("time.go: EncodeTime changed")
	}
	fmt.Fprintf(L, "def timeExtId : Nat := %d\ndef timeSecShift : Nat := %s\ndef timeHighMask : Nat := %d\n", (id+256)%256, m2[1], mask)

	// ---------------- msgpack envelope
	qm, err := fg.ParseFile(repo, "internal/api/query_msgpack.go")
	if err != nil {
		return err
	}
	sm := qm.FuncDecl("", "streamMsgPackFromBatches")
	if sm == nil {
		return fmt.Errorf("streamMsgPackFromBatches not found")
	}
	mm = regexp.MustCompile(`mapLen := (\d+)`).FindStringSubmatch(qm.Text(sm.Body))
	if mm == nil {
		return fmt.Errorf("streamMsgPackFromBatches: mapLen")
	}
	keys := callStrings(sm, "EncodeString")
	if len(keys) != 8 || keys[7] != "profile" {
		return fmt.Errorf("streamMsgPackFromBatches: literal keys changed: %q", keys)
	}
	var kl []string
	for _, k := range keys[:7] {
		kl = append(kl, natList([]byte(k)))
	}
	fmt.Fprintln(L, "\n/-! msgpack response envelope (query_msgpack.go:streamMsgPackFromBatches): key order, map length -/")
	fmt.Fprintf(L, "def mpEnvMapLen : Nat := %s\ndef mpEnvKeys : List (List Nat) := [%s]\n", mm[1], strings.Join(kl, ", "))
	out.JSON["msgpack_keys"] = keys
	for _, w := range []string{"encodeInt64Column:enc.EncodeInt64(c.Value(i))", "encodeInt32Column:enc.EncodeInt(int64(c.Value(i)))", "encodeUint64Column:enc.EncodeUint64(c.Value(i))",
		"encodeUint32Column:enc.EncodeUint(uint64(c.Value(i)))", "encodeFloat64Column:enc.EncodeFloat64(c.Value(i))", "encodeStringColumn:enc.EncodeString(c.Value(i))",
		"encodeBinaryColumn:enc.EncodeBytes(c.Value(i))", "encodeBoolColumn:enc.EncodeBool(c.Value(i))", "encodeTimestampColumn:enc.EncodeTime(t)"} {
		p := strings.SplitN(w, ":", 2)
		d := qm.FuncDecl("", p[0])
		if d == nil || !strings.Contains(qm.Text(d.Body), p[1]) {
			return fmt.Errorf("%s no longer calls %s", p[0], p[1])
		}
	}
	fmt.Fprintln(L, "\nend Arc.Generated.C19")
	return nil
}
