package main

import (
	"fmt"
	"go/ast"
	"go/token"
	"math/big"
	"sort"
	"strings"
	"verif/factgen/fg"
)

// C31: the integer arithmetic of the import time conversions (unit → multiply / divide / identity,
// auto-detection thresholds), the float twins of the same tables, the accepted explicit formats,
// the shape of inferAndConvertColumn's final type switch and bool literal test, and the ERROR
// POLICY of the import control flow (what follows a per-row / per-column / per-hour error:
// return vs continue), plus "exactly one buffer write, after every parse/convert error return".
func main() { fg.Main("C31", c31) }

type op struct {
	Kind string `json:"kind"` // mul | div | id | auto
	K    int64  `json:"k"`
}

func (o op) lean() string {
	switch o.Kind {
	case "mul":
		return fmt.Sprintf(".mul %d", o.K)
	case "div":
		return fmt.Sprintf(".div %d", o.K)
	case "id":
		return ".id"
	default:
		return ".auto"
	}
}

func litInt(e ast.Expr) (int64, bool) {
	bl, ok := e.(*ast.BasicLit)
	if !ok || (bl.Kind != token.INT && bl.Kind != token.FLOAT) {
		return 0, false
	}
	s := strings.ReplaceAll(bl.Value, "_", "")
	f, ok := new(big.Float).SetPrec(200).SetString(s)
	if !ok || !f.IsInt() {
		return 0, false
	}
	i, acc := f.Int64()
	if acc != big.Exact {
		return 0, false
	}
	return i, true
}

// valueOp: the op a return expression applies to variable `v`:  v*K | v/K | v | g(v) (auto) ;
// with float=true the expression is wrapped in int64( … ).
func valueOp(f *fg.File, e ast.Expr, v string, float bool, autoName string) (op, error) {
	if float {
		c, ok := e.(*ast.CallExpr)
		if !ok || fg.CalleeName(c) != "int64" || len(c.Args) != 1 {
			return op{}, fmt.Errorf("expected int64(<expr>), got %s", f.Text(e))
		}
		e = c.Args[0]
		// the float arms may round instead of truncating: int64(math.Round(<expr>))
		if rc, ok := e.(*ast.CallExpr); ok && f.Text(rc.Fun) == "math.Round" && len(rc.Args) == 1 {
			e = rc.Args[0]
		}
	}
	switch x := e.(type) {
	case *ast.Ident:
		if x.Name == v {
			return op{"id", 0}, nil
		}
	case *ast.BinaryExpr:
		id, ok := x.X.(*ast.Ident)
		k, ok2 := litInt(x.Y)
		if ok && ok2 && id.Name == v && k > 0 {
			if x.Op == token.MUL {
				return op{"mul", k}, nil
			}
			if x.Op == token.QUO {
				return op{"div", k}, nil
			}
		}
	case *ast.CallExpr:
		if autoName != "" && fg.CalleeName(x) == autoName && len(x.Args) == 1 {
			if id, ok := x.Args[0].(*ast.Ident); ok && id.Name == v {
				return op{"auto", 0}, nil
			}
		}
	}
	return op{}, fmt.Errorf("unrecognised conversion expression %s", f.Text(e))
}

func singleReturn(f *fg.File, body []ast.Stmt) (ast.Expr, error) {
	if len(body) != 1 {
		return nil, fmt.Errorf("case body has %d statements (expected a single return)", len(body))
	}
	r, ok := body[0].(*ast.ReturnStmt)
	if !ok || len(r.Results) != 1 {
		return nil, fmt.Errorf("case body is not `return <expr>`: %s", f.Text(body[0]))
	}
	return r.Results[0], nil
}

type labelled struct {
	Label string `json:"label"`
	Op    op     `json:"op"`
}
type thresh struct {
	Below int64 `json:"below"`
	Op    op    `json:"op"`
}

// tagSwitch: `switch <tag> { case <lit>: return e … default: return e }` as the LAST statement of fn.
func tagSwitch(f *fg.File, fd *ast.FuncDecl, tag, v string, float bool, autoName string) ([]labelled, op, error) {
	var sw *ast.SwitchStmt
	for _, s := range fd.Body.List {
		if x, ok := s.(*ast.SwitchStmt); ok {
			sw = x
		}
	}
	if sw == nil || sw.Tag == nil || f.Text(sw.Tag) != tag {
		return nil, op{}, fmt.Errorf("%s: `switch %s` not found", fd.Name.Name, tag)
	}
	if len(fd.Body.List) != 1 {
		return nil, op{}, fmt.Errorf("%s: body is not a single switch", fd.Name.Name)
	}
	var rows []labelled
	var def *op
	for _, c := range sw.Body.List {
		cc := c.(*ast.CaseClause)
		e, err := singleReturn(f, cc.Body)
		if err != nil {
			return nil, op{}, fmt.Errorf("%s: %v", fd.Name.Name, err)
		}
		o, err := valueOp(f, e, v, float, autoName)
		if err != nil {
			return nil, op{}, fmt.Errorf("%s: %v", fd.Name.Name, err)
		}
		if cc.List == nil {
			oo := o
			def = &oo
			continue
		}
		for _, l := range cc.List {
			lab := f.Text(l)
			lab = strings.Trim(lab, "\"")
			lab = strings.TrimPrefix(lab, "arrow.")
			rows = append(rows, labelled{lab, o})
		}
	}
	if def == nil {
		return nil, op{}, fmt.Errorf("%s: no default arm", fd.Name.Name)
	}
	return rows, *def, nil
}

// threshSwitch: tagless `switch { case <abs> < <lit>: return e … default: return e }`
func threshSwitch(f *fg.File, fd *ast.FuncDecl, abs, v string, float bool) ([]thresh, op, error) {
	var sw *ast.SwitchStmt
	for _, s := range fd.Body.List {
		if x, ok := s.(*ast.SwitchStmt); ok {
			sw = x
		}
	}
	if sw == nil || sw.Tag != nil {
		return nil, op{}, fmt.Errorf("%s: tagless switch not found", fd.Name.Name)
	}
	var rows []thresh
	var def *op
	for _, c := range sw.Body.List {
		cc := c.(*ast.CaseClause)
		e, err := singleReturn(f, cc.Body)
		if err != nil {
			return nil, op{}, fmt.Errorf("%s: %v", fd.Name.Name, err)
		}
		o, err := valueOp(f, e, v, float, "")
		if err != nil {
			return nil, op{}, fmt.Errorf("%s: %v", fd.Name.Name, err)
		}
		if cc.List == nil {
			oo := o
			def = &oo
			continue
		}
		if len(cc.List) != 1 {
			return nil, op{}, fmt.Errorf("%s: multi-expression case", fd.Name.Name)
		}
		be, ok := cc.List[0].(*ast.BinaryExpr)
		if !ok || be.Op != token.LSS || f.Text(be.X) != abs {
			return nil, op{}, fmt.Errorf("%s: case %s is not `%s < <const>`", fd.Name.Name, f.Text(cc.List[0]), abs)
		}
		k, ok := litInt(be.Y)
		if !ok {
			return nil, op{}, fmt.Errorf("%s: threshold %s is not an integral literal", fd.Name.Name, f.Text(be.Y))
		}
		if def != nil {
			return nil, op{}, fmt.Errorf("%s: case after default", fd.Name.Name)
		}
		rows = append(rows, thresh{k, o})
	}
	if def == nil {
		return nil, op{}, fmt.Errorf("%s: no default arm", fd.Name.Name)
	}
	for i := 1; i < len(rows); i++ {
		if rows[i].Below <= rows[i-1].Below {
			return nil, op{}, fmt.Errorf("%s: thresholds not increasing", fd.Name.Name)
		}
	}
	return rows, *def, nil
}

// ---- error policy

type branch struct {
	Fn     string `json:"fn"`
	Cond   string `json:"cond"`
	Action string `json:"action"` // return-error | return-nil | continue | break | fallthrough
}

var errCond = []string{"err != nil", "terr != nil", "herr != nil", "conv != nil", "errResp != nil", "ierr != nil",
	`s == ""`, ".IsNull(i)", "math.IsNaN(", "rowCount == 0", "numRows == 0", "len(runes) != 1", "len(header) == 0",
	"err == io.EOF", "errors.Is(err, errImportTooLarge)", "!ok || len(times) == 0"}

func isErrCond(s string) bool {
	if strings.Contains(s, "err == nil") {
		return false
	}
	// best-effort cleanup inside an error path (e.g. deleting already-written hour files and only
	// logging a delete error `derr`) is not part of the import's error policy
	if strings.Contains(s, "derr") {
		return false
	}
	for _, p := range errCond {
		if strings.Contains(s, p) {
			return true
		}
	}
	return false
}

func lastAction(f *fg.File, body *ast.BlockStmt) string {
	if len(body.List) == 0 {
		return "fallthrough"
	}
	switch x := body.List[len(body.List)-1].(type) {
	case *ast.ReturnStmt:
		if len(x.Results) == 0 {
			return "return-nil"
		}
		last := f.Text(x.Results[len(x.Results)-1])
		if last == "nil" {
			return "return-nil"
		}
		return "return-error"
	case *ast.BranchStmt:
		return strings.ToLower(x.Tok.String())
	}
	return "fallthrough"
}

func errBranches(f *fg.File, fd *ast.FuncDecl) []branch {
	var out []branch
	ast.Inspect(fd.Body, func(n ast.Node) bool {
		is, ok := n.(*ast.IfStmt)
		if !ok {
			return true
		}
		cond := f.Text(is.Cond)
		if is.Init != nil {
			cond = f.Text(is.Init) + "; " + cond
		}
		if isErrCond(cond) {
			cond = strings.Join(strings.Fields(cond), " ")
			out = append(out, branch{fd.Name.Name, cond, lastAction(f, is.Body)})
		}
		return true
	})
	return out
}

func c31(repo string, out *fg.Out) error {
	api, err := fg.ParseFile(repo, "internal/api/import_inprocess.go")
	if err != nil {
		return err
	}
	need := func(name string) (*ast.FuncDecl, error) {
		fd := api.FuncDecl("", name)
		if fd == nil {
			fd = api.FuncDecl("ImportHandler", name)
		}
		if fd == nil || fd.Body == nil {
			return nil, fmt.Errorf("func %s not found in internal/api/import_inprocess.go", name)
		}
		return fd, nil
	}

	// ---- integer tables
	fd, err := need("intTimeToMicros")
	if err != nil {
		return err
	}
	intTime, intTimeDef, err := tagSwitch(api, fd, "timeFormat", "n", false, "autoIntEpochToMicros")
	if err != nil {
		return err
	}
	fd, err = need("autoIntEpochToMicros")
	if err != nil {
		return err
	}
	autoInt, autoIntDef, err := threshSwitch(api, fd, "absN", "n", false)
	if err != nil {
		return err
	}
	// the |n| preamble with the MinInt64 clamp
	clamp := false
	if len(fd.Body.List) == 3 {
		a := strings.Join(strings.Fields(api.Text(fd.Body.List[0])+" "+api.Text(fd.Body.List[1])), " ")
		want := "absN := n if absN < 0 { if absN == math.MinInt64 { absN = math.MaxInt64 } else { absN = -absN } }"
		if a == want {
			clamp = true
		} else if a != "absN := n if absN < 0 { absN = -absN }" {
			return fmt.Errorf("autoIntEpochToMicros: unrecognised |n| preamble: %s", a)
		}
	} else {
		return fmt.Errorf("autoIntEpochToMicros: body has %d statements (expected absN init, sign fix, switch)", len(fd.Body.List))
	}
	fd, err = need("arrowTimestampToMicros")
	if err != nil {
		return err
	}
	arrowTs, arrowDef, err := tagSwitch(api, fd, "unit", "v", false, "")
	if err != nil {
		return err
	}
	// ---- float twins
	fd, err = need("epochToMicros")
	if err != nil {
		return err
	}
	epochF, epochFDef, err := tagSwitch(api, fd, "format", "f", true, "")
	if err != nil {
		return err
	}
	fd, err = need("autoEpochToMicros")
	if err != nil {
		return err
	}
	autoF, autoFDef, err := threshSwitch(api, fd, "absF", "f", true)
	if err != nil {
		return err
	}

	// ---- oneTimeValueToMicros: explicit formats, auto arm, default arm rejects
	fd, err = need("oneTimeValueToMicros")
	if err != nil {
		return err
	}
	var explicit []string
	unknownRejected, autoArm := false, false
	var sw *ast.SwitchStmt
	for _, s := range fd.Body.List {
		if x, ok := s.(*ast.SwitchStmt); ok {
			sw = x
		}
	}
	if sw == nil || sw.Tag == nil || api.Text(sw.Tag) != "timeFormat" {
		return fmt.Errorf("oneTimeValueToMicros: `switch timeFormat` not found")
	}
	for _, c := range sw.Body.List {
		cc := c.(*ast.CaseClause)
		if cc.List == nil {
			unknownRejected = len(cc.Body) == 1 && lastAction(api, &ast.BlockStmt{List: cc.Body}) == "return-error"
			continue
		}
		labs := []string{}
		for _, l := range cc.List {
			labs = append(labs, strings.Trim(api.Text(l), "\""))
		}
		if len(labs) == 1 && labs[0] == "" {
			autoArm = true
			continue
		}
		if len(fg.CallsNamed(&ast.BlockStmt{List: cc.Body}, "intTimeToMicros")) != 1 {
			return fmt.Errorf("oneTimeValueToMicros: explicit arm does not call intTimeToMicros exactly once")
		}
		explicit = append(explicit, labs...)
	}
	if !autoArm {
		return fmt.Errorf("oneTimeValueToMicros: no `case \"\"` (auto) arm")
	}

	// ---- inferAndConvertColumn: final switch order, bool literal set
	fd, err = need("inferAndConvertColumn")
	if err != nil {
		return err
	}
	var inferSwitch []string
	if last, ok := fd.Body.List[len(fd.Body.List)-1].(*ast.SwitchStmt); ok && last.Tag == nil {
		for _, c := range last.Body.List {
			cc := c.(*ast.CaseClause)
			if cc.List == nil {
				inferSwitch = append(inferSwitch, "default")
			} else {
				inferSwitch = append(inferSwitch, api.Text(cc.List[0]))
			}
		}
	} else {
		return fmt.Errorf("inferAndConvertColumn: last statement is not the tagless type switch")
	}
	parseOrder := []string{}
	ast.Inspect(fd.Body, func(n ast.Node) bool {
		if c, ok := n.(*ast.CallExpr); ok {
			switch fg.CalleeName(c) {
			case "ParseInt", "ParseFloat", "isBoolLiteral":
				parseOrder = append(parseOrder, fg.CalleeName(c)+"("+argsText(api, c)+")")
			}
		}
		return true
	})
	fd, err = need("isBoolLiteral")
	if err != nil {
		return err
	}
	boolLit := strings.Join(strings.Fields(api.Text(fd.Body)), " ")

	// ---- error policy
	var branches []branch
	for _, fn := range []string{"stringsToTimeMicros", "parquetColumnToTimeMicros", "importCSV", "importParquet"} {
		fd, err := need(fn)
		if err != nil {
			return err
		}
		b := errBranches(api, fd)
		if len(b) == 0 {
			return fmt.Errorf("%s: no error branch found (shape changed)", fn)
		}
		branches = append(branches, b...)
	}
	aw, err := fg.ParseFile(repo, "internal/ingest/arrow_writer.go")
	if err != nil {
		return err
	}
	fp := aw.FuncDecl("ArrowBuffer", "flushPartitionedData")
	if fp == nil {
		return fmt.Errorf("ArrowBuffer.flushPartitionedData not found")
	}
	branches = append(branches, errBranches(aw, fp)...)

	// exactly one buffer write per import function, after every conversion-error return
	type seq struct {
		Fn            string `json:"fn"`
		Writes        int    `json:"writes"`
		ReturnsBefore int    `json:"error_returns_before_write"`
		ReturnsAfter  int    `json:"error_returns_after_write"`
		FlushAfter    bool   `json:"flushall_after_write"`
	}
	var seqs []seq
	for _, fn := range []string{"importCSV", "importParquet"} {
		fd, _ := need(fn)
		ws := fg.CallsNamed(fd.Body, "WriteTypedColumnarDirect")
		s := seq{Fn: fn, Writes: len(ws)}
		if len(ws) != 1 {
			return fmt.Errorf("%s: %d WriteTypedColumnarDirect calls (expected 1)", fn, len(ws))
		}
		wpos := ws[0].Pos()
		ast.Inspect(fd.Body, func(n ast.Node) bool {
			r, ok := n.(*ast.ReturnStmt)
			if !ok || len(r.Results) != 2 || api.Text(r.Results[1]) == "nil" {
				return true
			}
			if r.Pos() < wpos {
				s.ReturnsBefore++
			} else {
				s.ReturnsAfter++
			}
			return true
		})
		for _, fl := range fg.CallsNamed(fd.Body, "FlushAll") {
			if fl.Pos() > wpos {
				s.FlushAfter = true
			}
		}
		// the write must not be inside a loop
		inLoop := false
		ast.Inspect(fd.Body, func(n ast.Node) bool {
			switch l := n.(type) {
			case *ast.ForStmt:
				if l.Pos() < wpos && wpos < l.End() {
					inLoop = true
				}
			case *ast.RangeStmt:
				if l.Pos() < wpos && wpos < l.End() {
					inLoop = true
				}
			}
			return true
		})
		if inLoop {
			return fmt.Errorf("%s: WriteTypedColumnarDirect is inside a loop", fn)
		}
		seqs = append(seqs, s)
	}

	// inferSchema / getSchema / getColumnSignature skip columns whose name starts with '_'
	skipUnderscore := 0
	for _, fn := range []string{"inferSchema", "getSchema"} {
		fd := aw.FuncDecl("ArrowWriter", fn)
		if fd == nil {
			return fmt.Errorf("ArrowWriter.%s not found", fn)
		}
		ast.Inspect(fd.Body, func(n ast.Node) bool {
			if is, ok := n.(*ast.IfStmt); ok && lastAction(aw, is.Body) == "continue" {
				// accepted spellings of the guard (with or without the empty-name check in front)
				switch strings.Join(strings.Fields(aw.Text(is.Cond)), " ") {
				case "name[0] == '_'", "len(name) == 0 || name[0] == '_'":
					skipUnderscore++
				}
			}
			return true
		})
	}
	// shape expectation: the guard is either in BOTH functions or in NEITHER (0 = the skip was
	// removed on purpose; then `C31_underscore_witness` stops holding and must be restated)
	if skipUnderscore != 0 && skipUnderscore != 2 {
		return fmt.Errorf("inferSchema/getSchema: found %d `name[0] == '_'` skip guards (expected 2, or 0 if removed)", skipUnderscore)
	}
	if skipUnderscore == 0 {
		for _, fn := range []string{"inferSchema", "getSchema"} {
			if strings.Contains(aw.Text(aw.FuncDecl("ArrowWriter", fn).Body), "'_'") {
				return fmt.Errorf("%s still mentions '_' but no recognised skip guard was found (guard rewritten?)", fn)
			}
		}
	}

	// ---- guards added by the C31 repairs (each is either present in its expected shape or absent)
	findIf := func(fn, cond string) (bool, string, error) {
		fd, err := need(fn)
		if err != nil {
			return false, "", err
		}
		found, act := false, ""
		ast.Inspect(fd.Body, func(n ast.Node) bool {
			if is, ok := n.(*ast.IfStmt); ok {
				c := api.Text(is.Cond)
				if is.Init != nil {
					c = api.Text(is.Init) + "; " + c
				}
				if strings.Join(strings.Fields(c), " ") == cond {
					found, act = true, lastAction(api, is.Body)
				}
			}
			return true
		})
		return found, act, nil
	}
	guard := func(fn, cond, wantAct string) (bool, error) {
		f, act, err := findIf(fn, cond)
		if err != nil {
			return false, err
		}
		if f && act != wantAct {
			return false, fmt.Errorf("%s: guard `%s` ends in %s (expected %s)", fn, cond, act, wantAct)
		}
		return f, nil
	}
	rejectLong, err := guard("importCSV", "len(rec) > len(header)", "return-error")
	if err != nil {
		return err
	}
	hdrUnderscore, err := guard("validateImportHeader", "name[0] == '_'", "return-error")
	if err != nil {
		return err
	}
	u64Checked, err := guard("arrowColumnToTyped", "!a.IsNull(i) && a.Value(i) > math.MaxInt64", "return-error")
	if err != nil {
		return err
	}
	g1, _, _ := findIf("inferAndConvertColumn", "intBuf[j] > 1<<53 || intBuf[j] < -(1<<53)")
	g2, _, _ := findIf("inferAndConvertColumn", "f >= 1<<53 || f <= -(1<<53)")
	g3, _, _ := findIf("inferAndConvertColumn", "_, ierr := strconv.ParseInt(s, 10, 64); ierr == nil || errors.Is(ierr, strconv.ErrRange)")
	if g1 != g2 || g2 != g3 {
		return fmt.Errorf("inferAndConvertColumn: the 2^53 exactness guards are only partly present (migration=%v parse=%v int-literal=%v)", g1, g2, g3)
	}
	inexactText := g1
	csvFd, _ := need("importCSV")
	csvBody := api.Text(csvFd.Body)
	bomFirst := false
	switch {
	case strings.Contains(csvBody, "br.Peek(3)") && strings.Contains(csvBody, "br.Discard(3)") && strings.Contains(csvBody, "csv.NewReader(br)"):
		bomFirst = true
	case strings.Contains(csvBody, "csv.NewReader(r)"):
	default:
		return fmt.Errorf("importCSV: unrecognised construction of the csv reader (BOM handling)")
	}

	// ---- emit
	w := &out.Lean
	fmt.Fprintf(w, "namespace Arc.Generated.C31\n")
	fmt.Fprintf(w, "/-- what a conversion arm does to the integer (float arms: before the int64 truncation) -/\n")
	fmt.Fprintf(w, "inductive Op | mul (k : Int) | div (k : Int) | id | auto\nderiving Repr, DecidableEq\n")
	emitLab := func(name, doc string, rows []labelled, def op) {
		fmt.Fprintf(w, "/-- %s -/\ndef %s : List (String × Op) := [", doc, name)
		for i, r := range rows {
			if i > 0 {
				fmt.Fprintf(w, ", ")
			}
			fmt.Fprintf(w, "(%s, %s)", fg.LeanStr(r.Label), r.Op.lean())
		}
		fmt.Fprintf(w, "]\ndef %sDefault : Op := %s\n", name, def.lean())
	}
	emitThr := func(name, doc string, rows []thresh, def op) {
		fmt.Fprintf(w, "/-- %s -/\ndef %s : List (Int × Op) := [", doc, name)
		for i, r := range rows {
			if i > 0 {
				fmt.Fprintf(w, ", ")
			}
			fmt.Fprintf(w, "(%d, %s)", r.Below, r.Op.lean())
		}
		fmt.Fprintf(w, "]\ndef %sDefault : Op := %s\n", name, def.lean())
	}
	emitLab("intTime", "intTimeToMicros: `switch timeFormat` arm ↦ op on n", intTime, intTimeDef)
	emitThr("autoInt", "autoIntEpochToMicros: `absN < bound` arms in order", autoInt, autoIntDef)
	fmt.Fprintf(w, "/-- autoIntEpochToMicros clamps |MinInt64| to MaxInt64 before classifying -/\ndef autoIntAbsClamp : Bool := %v\n", clamp)
	emitLab("arrowTs", "arrowTimestampToMicros: arrow.TimeUnit arm ↦ op on v", arrowTs, arrowDef)
	emitLab("epochFloat", "epochToMicros (float twin): int64(<op> f)", epochF, epochFDef)
	emitThr("autoFloat", "autoEpochToMicros (float twin): `absF < bound` arms", autoF, autoFDef)
	fmt.Fprintf(w, "/-- explicit formats accepted by oneTimeValueToMicros (besides \"\" = auto) -/\ndef explicitFormats : List String := [")
	for i, s := range explicit {
		if i > 0 {
			fmt.Fprintf(w, ", ")
		}
		fmt.Fprintf(w, "%s", fg.LeanStr(s))
	}
	fmt.Fprintf(w, "]\ndef unknownFormatRejected : Bool := %v\n", unknownRejected)
	fmt.Fprintf(w, "/-- arms of inferAndConvertColumn's final switch, in order -/\ndef inferSwitch : List String := [")
	for i, s := range inferSwitch {
		if i > 0 {
			fmt.Fprintf(w, ", ")
		}
		fmt.Fprintf(w, "%s", fg.LeanStr(s))
	}
	fmt.Fprintf(w, "]\n/-- parse calls of inferAndConvertColumn in source order -/\ndef inferParseCalls : List String := [")
	for i, s := range parseOrder {
		if i > 0 {
			fmt.Fprintf(w, ", ")
		}
		fmt.Fprintf(w, "%s", fg.LeanStr(s))
	}
	fmt.Fprintf(w, "]\ndef isBoolLiteralBody : String := %s\n", fg.LeanStr(boolLit))
	sort.SliceStable(branches, func(i, j int) bool { return branches[i].Fn < branches[j].Fn })
	fmt.Fprintf(w, "/-- every error branch (function, condition, what ends its body) of the import control flow -/\n")
	fmt.Fprintf(w, "def errBranches : List (String × String × String) := [\n")
	for i, b := range branches {
		sep := ","
		if i == len(branches)-1 {
			sep = ""
		}
		fmt.Fprintf(w, "  (%s, %s, %s)%s\n", fg.LeanStr(b.Fn), fg.LeanStr(b.Cond), fg.LeanStr(b.Action), sep)
	}
	fmt.Fprintf(w, "]\n/-- (function, #WriteTypedColumnarDirect calls, error returns before it, error returns after it, FlushAll follows) -/\n")
	fmt.Fprintf(w, "def writeSeq : List (String × Nat × Nat × Nat × Bool) := [")
	for i, s := range seqs {
		if i > 0 {
			fmt.Fprintf(w, ", ")
		}
		fmt.Fprintf(w, "(%s, %d, %d, %d, %v)", fg.LeanStr(s.Fn), s.Writes, s.ReturnsBefore, s.ReturnsAfter, s.FlushAfter)
	}
	fmt.Fprintf(w, "]\n/-- number of `if name[0] == '_' { continue }` guards in ArrowWriter.inferSchema/getSchema -/\ndef underscoreSkips : Nat := %d\n", skipUnderscore)
	fmt.Fprintf(w, "/-- importCSV rejects a record longer than the header -/\ndef rejectLongRows : Bool := %v\n", rejectLong)
	fmt.Fprintf(w, "/-- validateImportHeader rejects column names starting with `_` -/\ndef headerRejectsUnderscore : Bool := %v\n", hdrUnderscore)
	fmt.Fprintf(w, "/-- arrowColumnToTyped rejects UINT64 values above MaxInt64 -/\ndef uint64RangeChecked : Bool := %v\n", u64Checked)
	fmt.Fprintf(w, "/-- inferAndConvertColumn keeps a column text when an integer cell is not exactly a float64 -/\ndef inexactIntsStayText : Bool := %v\n", inexactText)
	fmt.Fprintf(w, "/-- importCSV strips a UTF-8 BOM before the csv reader (tokenisation is a parameter; the harness mirrors this) -/\ndef bomStrippedBeforeTokenising : Bool := %v\n", bomFirst)
	fmt.Fprintf(w, "end Arc.Generated.C31\n")
	out.JSON["reject_long_rows"] = rejectLong
	out.JSON["header_rejects_underscore"] = hdrUnderscore
	out.JSON["uint64_range_checked"] = u64Checked
	out.JSON["inexact_ints_stay_text"] = inexactText
	out.JSON["bom_stripped_before_tokenising"] = bomFirst

	out.JSON["int_time"] = intTime
	out.JSON["int_time_default"] = intTimeDef
	out.JSON["auto_int"] = autoInt
	out.JSON["auto_int_default"] = autoIntDef
	out.JSON["auto_int_abs_clamp"] = clamp
	out.JSON["arrow_ts"] = arrowTs
	out.JSON["arrow_ts_default"] = arrowDef
	out.JSON["epoch_float"] = epochF
	out.JSON["auto_float"] = autoF
	out.JSON["auto_float_default"] = autoFDef
	out.JSON["epoch_float_default"] = epochFDef
	out.JSON["explicit_formats"] = explicit
	out.JSON["unknown_format_rejected"] = unknownRejected
	out.JSON["infer_switch"] = inferSwitch
	out.JSON["err_branches"] = branches
	out.JSON["write_seq"] = seqs
	out.JSON["underscore_skips"] = skipUnderscore
	return nil
}

func argsText(f *fg.File, c *ast.CallExpr) string {
	var a []string
	for _, x := range c.Args {
		a = append(a, f.Text(x))
	}
	return strings.Join(a, ", ")
}
