package main

import (
	"fmt"
	"go/ast"
	"go/token"
	"sort"
	"strings"
	"verif/factgen/fg"
)

// C22: facts about internal/cluster/raft that the Lean model of the FSM relies on:
//   - the CommandType iota block and the Apply dispatch switch (type → apply function, log index passed?)
//   - for every dispatched apply function: the nondeterministic calls reachable inside package raft
//     (time.Now/Since/Until, math/rand, crypto/rand, os.*, go statements, select) — must be none
//   - which validators each apply function and Restore call (the model pairs them the same way)
//   - the length caps used by the validators
func main() { fg.Main("C22", c22) }

const pkgDir = "internal/cluster/raft"

func c22(repo string, out *fg.Out) error {
	files, err := fg.ParseDir(repo, pkgDir)
	if err != nil {
		return err
	}
	// ---- CommandType constants (iota + 1 block)
	var consts []string
	for _, f := range files {
		for _, d := range f.AST.Decls {
			gd, ok := d.(*ast.GenDecl)
			if !ok || gd.Tok != token.CONST {
				continue
			}
			isCmd := false
			for i, sp := range gd.Specs {
				vs := sp.(*ast.ValueSpec)
				if i == 0 {
					if id, ok := vs.Type.(*ast.Ident); ok && id.Name == "CommandType" && len(vs.Values) == 1 && f.Text(vs.Values[0]) == "iota + 1" {
						isCmd = true
					}
				}
				if isCmd {
					if i > 0 && (vs.Type != nil || len(vs.Values) != 0) {
						return fmt.Errorf("CommandType const block: %s breaks the iota sequence", vs.Names[0].Name)
					}
					for _, n := range vs.Names {
						consts = append(consts, n.Name)
					}
				}
			}
		}
	}
	if len(consts) == 0 {
		return fmt.Errorf("`const ( CommandAddNode CommandType = iota + 1 …)` block not found in %s", pkgDir)
	}
	num := map[string]int{}
	for i, c := range consts {
		num[c] = i + 1
	}
	// ---- Apply dispatch
	af, apply := fg.FindFunc(files, "ClusterFSM", "Apply")
	if apply == nil {
		return fmt.Errorf("func (f *ClusterFSM) Apply not found")
	}
	var sw *ast.SwitchStmt
	ast.Inspect(apply.Body, func(n ast.Node) bool {
		if s, ok := n.(*ast.SwitchStmt); ok && sw == nil && af.Text(s.Tag) == "cmd.Type" {
			sw = s
		}
		return true
	})
	if sw == nil {
		return fmt.Errorf("`switch cmd.Type` not found in ClusterFSM.Apply")
	}
	type disp struct {
		N       int
		Const   string
		Func    string
		UsesIdx bool
	}
	var table []disp
	hasDefault := false
	for _, st := range sw.Body.List {
		cc := st.(*ast.CaseClause)
		if cc.List == nil {
			hasDefault = true
			continue
		}
		if len(cc.List) != 1 || len(cc.Body) != 1 {
			return fmt.Errorf("Apply: unexpected case shape at line %d", af.Line(cc))
		}
		id, ok := cc.List[0].(*ast.Ident)
		if !ok || num[id.Name] == 0 {
			return fmt.Errorf("Apply: case %s is not a CommandType constant", af.Text(cc.List[0]))
		}
		ret, ok := cc.Body[0].(*ast.ReturnStmt)
		if !ok || len(ret.Results) != 1 {
			return fmt.Errorf("Apply: case %s does not `return f.applyX(...)`", id.Name)
		}
		call, ok := ret.Results[0].(*ast.CallExpr)
		if !ok {
			return fmt.Errorf("Apply: case %s does not return a call", id.Name)
		}
		args := make([]string, len(call.Args))
		for i, a := range call.Args {
			args[i] = af.Text(a)
		}
		uses := false
		switch strings.Join(args, ",") {
		case "cmd.Payload":
		case "cmd.Payload,log.Index":
			uses = true
		default:
			return fmt.Errorf("Apply: case %s passes unexpected arguments (%s)", id.Name, strings.Join(args, ","))
		}
		table = append(table, disp{num[id.Name], id.Name, fg.CalleeName(call), uses})
	}
	if !hasDefault {
		return fmt.Errorf("Apply: no default (unknown command) arm")
	}
	sort.Slice(table, func(i, j int) bool { return table[i].N < table[j].N })

	// ---- package-local call graph
	type fn struct {
		file *fg.File
		decl *ast.FuncDecl
	}
	funcs := map[string]fn{}
	for _, f := range files {
		for _, d := range f.AST.Decls {
			if fd, ok := d.(*ast.FuncDecl); ok && fd.Body != nil {
				funcs[fd.Name.Name] = fn{f, fd}
			}
		}
	}
	nondetIn := func(f *fg.File, body ast.Node) []string {
		var out []string
		ast.Inspect(body, func(n ast.Node) bool {
			switch x := n.(type) {
			case *ast.GoStmt:
				out = append(out, "go-statement")
			case *ast.SelectStmt:
				out = append(out, "select")
			case *ast.SelectorExpr:
				if id, ok := x.X.(*ast.Ident); ok {
					switch id.Name {
					case "time":
						switch x.Sel.Name {
						case "Now", "Since", "Until", "After", "Tick", "NewTimer", "NewTicker", "Sleep":
							out = append(out, "time."+x.Sel.Name)
						}
					case "rand", "os", "uuid", "runtime":
						out = append(out, id.Name+"."+x.Sel.Name)
					}
				}
			}
			return true
		})
		return out
	}
	reach := func(root string) (nondet []string, validators []string, err error) {
		seen := map[string]bool{}
		var visit func(name string)
		vset := map[string]bool{}
		visit = func(name string) {
			if seen[name] {
				return
			}
			seen[name] = true
			fn, ok := funcs[name]
			if !ok {
				return
			}
			for _, nd := range nondetIn(fn.file, fn.decl.Body) {
				nondet = append(nondet, name+":"+nd)
			}
			ast.Inspect(fn.decl.Body, func(n ast.Node) bool {
				c, ok := n.(*ast.CallExpr)
				if !ok {
					return true
				}
				callee := fg.CalleeName(c)
				if strings.HasPrefix(strings.ToLower(callee), "validate") {
					vset[callee] = true
				}
				// only follow calls that stay in the package: f.method(...) or bare function names
				switch fx := c.Fun.(type) {
				case *ast.Ident:
					visit(fx.Name)
				case *ast.SelectorExpr:
					if id, ok := fx.X.(*ast.Ident); ok && id.Name == "f" {
						visit(fx.Sel.Name)
					}
				}
				return true
			})
		}
		if _, ok := funcs[root]; !ok {
			return nil, nil, fmt.Errorf("function %s not found in %s", root, pkgDir)
		}
		visit(root)
		for v := range vset {
			validators = append(validators, v)
		}
		sort.Strings(validators)
		sort.Strings(nondet)
		return
	}
	type perFn struct {
		Name       string
		Nondet     []string
		Validators []string
	}
	var per []perFn
	roots := []string{}
	for _, d := range table {
		roots = append(roots, d.Func)
	}
	roots = append(roots, "Restore", "Snapshot", "Persist")
	for _, r := range roots {
		nd, vs, err := reach(r)
		if err != nil {
			return err
		}
		per = append(per, perFn{r, nd, vs})
	}

	// ---- caps
	env := fg.NewConstEnv(files)
	capNames := []string{"MaxManifestPathLen", "maxTokenHashLen", "maxTokenPrefixLen", "rbacNameMaxLen", "rbacPatternMaxLen", "rbacDescriptionMaxLen"}
	caps := map[string]int64{}
	for _, n := range capNames {
		e, ok := env.Exprs[n]
		if !ok {
			return fmt.Errorf("const %s not found", n)
		}
		v, err := env.EvalInt(e)
		if err != nil {
			return fmt.Errorf("%s: %v", n, err)
		}
		caps[n] = v
	}

	// ---- applyUpdateFileStruct indexes unconditionally (no `entry.Database != ""` guard)
	uf, ud := fg.FindFunc(files, "ClusterFSM", "applyUpdateFileStruct")
	if ud == nil {
		return fmt.Errorf("applyUpdateFileStruct not found")
	}
	guarded, indexes := false, false
	ast.Inspect(ud.Body, func(n ast.Node) bool {
		switch x := n.(type) {
		case *ast.IfStmt:
			if uf.Text(x.Cond) == `entry.Database != ""` {
				guarded = true
			}
		case *ast.AssignStmt:
			if len(x.Lhs) == 1 && uf.Text(x.Lhs[0]) == "idx[entry.Path]" {
				indexes = true
			}
		}
		return true
	})
	if !indexes {
		return fmt.Errorf("applyUpdateFileStruct: `idx[entry.Path] = struct{}{}` not found")
	}
	updateFileIndexesAll := !guarded
	// ---- applyUpdateToken validates a changed name like validateTokenEntry does
	tf, td := fg.FindFunc(files, "ClusterFSM", "applyUpdateToken")
	if td == nil {
		return fmt.Errorf("applyUpdateToken not found")
	}
	emptyRule, lenRule := false, false
	ast.Inspect(td.Body, func(n ast.Node) bool {
		x, ok := n.(*ast.IfStmt)
		if !ok || tf.Text(x.Cond) != `field == "name"` {
			return true
		}
		for _, st := range x.Body.List {
			is, ok := st.(*ast.IfStmt)
			if !ok || len(is.Body.List) == 0 {
				continue
			}
			if _, ret := is.Body.List[len(is.Body.List)-1].(*ast.ReturnStmt); !ret {
				continue
			}
			switch tf.Text(is.Cond) {
			case `p.Name == ""`:
				emptyRule = true
			case `len(p.Name) > 256`:
				lenRule = true
			}
		}
		return true
	})
	updateTokenValidatesName := emptyRule && lenRule

	// ---- Snapshot(): every primary map is copied entry by entry BY VALUE (`c := *v; m[k] = &c`),
	// never by reusing the live pointer (`m[k] = v`) — in-place mutations applied between
	// Snapshot() and Persist() must not leak into the snapshot.
	sf, sd := fg.FindFunc(files, "ClusterFSM", "Snapshot")
	if sd == nil {
		return fmt.Errorf("ClusterFSM.Snapshot not found")
	}
	type snapCopy struct {
		Map  string
		Deep bool
	}
	var snapCopies []snapCopy
	for _, st := range sd.Body.List {
		rs, ok := st.(*ast.RangeStmt)
		if !ok {
			continue
		}
		src := sf.Text(rs.X) // f.nodes, f.tokens, …
		val := ""
		if id, ok := rs.Value.(*ast.Ident); ok {
			val = id.Name
		}
		copied := map[string]bool{} // local names bound to `*val`
		deep, stored := false, false
		for _, b := range rs.Body.List {
			as, ok := b.(*ast.AssignStmt)
			if !ok || len(as.Lhs) != 1 || len(as.Rhs) != 1 {
				continue
			}
			rhs := sf.Text(as.Rhs[0])
			if id, ok := as.Lhs[0].(*ast.Ident); ok && rhs == "*"+val {
				copied[id.Name] = true
				continue
			}
			if _, ok := as.Lhs[0].(*ast.IndexExpr); ok {
				stored = true
				if strings.HasPrefix(rhs, "&") && copied[strings.TrimPrefix(rhs, "&")] {
					deep = true
				}
			}
		}
		if !stored {
			return fmt.Errorf("Snapshot: range over %s stores nothing", src)
		}
		snapCopies = append(snapCopies, snapCopy{strings.TrimPrefix(src, "f."), deep})
	}
	if len(snapCopies) == 0 {
		return fmt.Errorf("Snapshot: no `for k, v := range f.<map>` copy loops found")
	}
	// ---- length checks: which length function every `… > limit` test uses, per function
	// (apply-time update paths must measure in the same unit as the validate*Entry functions that
	// Create and Restore use: bytes, `len`)
	type lenCheck struct {
		Func, Arg, LenFn, Limit string
	}
	var lenChecks []lenCheck
	lenFuncs := []string{"ValidateManifestPath", "validateTokenHashAndPrefix", "validateTokenEntry", "validateOrganizationEntry",
		"validateTeamEntry", "validateRoleEntry", "validateMeasurementPermissionEntry",
		"applyUpdateToken", "applyUpdateOrganization", "applyUpdateTeam", "applyUpdateRole"}
	for _, name := range lenFuncs {
		fn, ok := funcs[name]
		if !ok {
			return fmt.Errorf("function %s not found", name)
		}
		seen := map[string]bool{}
		ast.Inspect(fn.decl.Body, func(n ast.Node) bool {
			is, ok := n.(*ast.IfStmt)
			if !ok {
				return true
			}
			bound := map[string]*ast.CallExpr{} // `if n := f(x); n > limit`
			if as, ok := is.Init.(*ast.AssignStmt); ok && len(as.Lhs) == 1 && len(as.Rhs) == 1 {
				if id, ok := as.Lhs[0].(*ast.Ident); ok {
					if c, ok := as.Rhs[0].(*ast.CallExpr); ok {
						bound[id.Name] = c
					}
				}
			}
			ast.Inspect(is.Cond, func(m ast.Node) bool {
				be, ok := m.(*ast.BinaryExpr)
				if !ok || be.Op != token.GTR {
					return true
				}
				var call *ast.CallExpr
				switch x := be.X.(type) {
				case *ast.CallExpr:
					call = x
				case *ast.Ident:
					call = bound[x.Name]
				}
				if call == nil || len(call.Args) != 1 {
					return true
				}
				lc := lenCheck{name, fn.file.Text(call.Args[0]), fn.file.Text(call.Fun), fn.file.Text(be.Y)}
				key := lc.Arg + "|" + lc.LenFn + "|" + lc.Limit
				if !seen[key] {
					seen[key] = true
					lenChecks = append(lenChecks, lc)
				}
				return true
			})
			return true
		})
	}
	if len(lenChecks) == 0 {
		return fmt.Errorf("no length checks found")
	}

	// ---- Restore: snapshot map fields installed WITHOUT a fresh map / nil guard (`f.x = snapshot.Y`)
	// must not be `omitempty`: an empty map would be omitted by Persist, decode to nil, and the next
	// write to it would panic inside Apply.
	type snapField struct {
		isMap, omit bool
	}
	snapFields := map[string]snapField{}
	for _, f := range files {
		for _, d := range f.AST.Decls {
			gd, ok := d.(*ast.GenDecl)
			if !ok || gd.Tok != token.TYPE {
				continue
			}
			for _, sp := range gd.Specs {
				ts := sp.(*ast.TypeSpec)
				st, ok := ts.Type.(*ast.StructType)
				if !ok || ts.Name.Name != "FSMSnapshot" {
					continue
				}
				for _, fl := range st.Fields.List {
					_, isMap := fl.Type.(*ast.MapType)
					tag := ""
					if fl.Tag != nil {
						tag = fl.Tag.Value
					}
					for _, n := range fl.Names {
						snapFields[n.Name] = snapField{isMap, strings.Contains(tag, "omitempty")}
					}
				}
			}
		}
	}
	if len(snapFields) == 0 {
		return fmt.Errorf("type FSMSnapshot struct not found")
	}
	rf2, rd2 := fg.FindFunc(files, "ClusterFSM", "Restore")
	if rd2 == nil {
		return fmt.Errorf("ClusterFSM.Restore not found")
	}
	type unguarded struct {
		Field string
		Omit  bool
	}
	var unguardedMaps []unguarded
	ast.Inspect(rd2.Body, func(n ast.Node) bool {
		as, ok := n.(*ast.AssignStmt)
		if !ok || len(as.Lhs) != 1 || len(as.Rhs) != 1 {
			return true
		}
		l, r := rf2.Text(as.Lhs[0]), rf2.Text(as.Rhs[0])
		if strings.HasPrefix(l, "f.") && strings.HasPrefix(r, "snapshot.") {
			if sf, ok := snapFields[strings.TrimPrefix(r, "snapshot.")]; ok && sf.isMap {
				unguardedMaps = append(unguardedMaps, unguarded{strings.TrimPrefix(r, "snapshot."), sf.omit})
			}
		}
		return true
	})

	w := &out.Lean
	list := func(xs []string) string {
		q := make([]string, len(xs))
		for i, x := range xs {
			q[i] = fg.LeanStr(x)
		}
		return "[" + strings.Join(q, ", ") + "]"
	}
	fmt.Fprintf(w, "namespace Arc.Generated.C22\n")
	fmt.Fprintf(w, "/-- `ClusterFSM.Apply`: (command type number, constant, apply function, log index passed) -/\n")
	fmt.Fprintf(w, "def dispatch : List (Nat × String × String × Bool) := [\n")
	for i, d := range table {
		sep := ","
		if i == len(table)-1 {
			sep = ""
		}
		fmt.Fprintf(w, "  (%d, %s, %s, %v)%s\n", d.N, fg.LeanStr(d.Const), fg.LeanStr(d.Func), d.UsesIdx, sep)
	}
	fmt.Fprintf(w, "]\n/-- number of CommandType constants -/\ndef commandCount : Nat := %d\n", len(consts))
	fmt.Fprintf(w, "/-- per entry point: clock/random/OS/goroutine uses reachable inside package raft -/\n")
	fmt.Fprintf(w, "def nondet : List (String × List String) := [\n")
	for i, p := range per {
		sep := ","
		if i == len(per)-1 {
			sep = ""
		}
		fmt.Fprintf(w, "  (%s, %s)%s\n", fg.LeanStr(p.Name), list(p.Nondet), sep)
	}
	fmt.Fprintf(w, "]\n/-- per entry point: validators reachable inside package raft -/\n")
	fmt.Fprintf(w, "def validators : List (String × List String) := [\n")
	for i, p := range per {
		sep := ","
		if i == len(per)-1 {
			sep = ""
		}
		fmt.Fprintf(w, "  (%s, %s)%s\n", fg.LeanStr(p.Name), list(p.Validators), sep)
	}
	fmt.Fprintf(w, "]\n")
	for _, n := range capNames {
		fmt.Fprintf(w, "def %s : Nat := %d\n", strings.ToLower(n[:1])+n[1:], caps[n])
	}
	fmt.Fprintf(w, "/-- `Snapshot()`: per primary map, are the entries copied by value (true) or is the live pointer reused -/\n")
	fmt.Fprintf(w, "def snapshotCopies : List (String × Bool) := [\n")
	for i, sc := range snapCopies {
		sep := ","
		if i == len(snapCopies)-1 {
			sep = ""
		}
		fmt.Fprintf(w, "  (%s, %v)%s\n", fg.LeanStr(sc.Map), sc.Deep, sep)
	}
	fmt.Fprintf(w, "]\n/-- every `<lengthFn>(<arg>) > <limit>` test: (function, argument, length function, limit) -/\n")
	fmt.Fprintf(w, "def lengthChecks : List (String × String × String × String) := [\n")
	for i, lc := range lenChecks {
		sep := ","
		if i == len(lenChecks)-1 {
			sep = ""
		}
		fmt.Fprintf(w, "  (%s, %s, %s, %s)%s\n", fg.LeanStr(lc.Func), fg.LeanStr(lc.Arg), fg.LeanStr(lc.LenFn), fg.LeanStr(lc.Limit), sep)
	}
	fmt.Fprintf(w, "]\n")
	out.JSON["snapshot_copies"] = snapCopies
	out.JSON["length_checks"] = lenChecks
	fmt.Fprintf(w, "/-- snapshot map fields that `Restore` installs directly (`f.x = snapshot.Y`, no fresh map): (field, tagged omitempty) -/\n")
	fmt.Fprintf(w, "def restoreUnguardedMaps : List (String × Bool) := [")
	for i, u := range unguardedMaps {
		if i > 0 {
			fmt.Fprintf(w, ", ")
		}
		fmt.Fprintf(w, "(%s, %v)", fg.LeanStr(u.Field), u.Omit)
	}
	fmt.Fprintf(w, "]\n")
	out.JSON["restore_unguarded_maps"] = unguardedMaps
	fmt.Fprintf(w, "def updateFileIndexesEveryDatabase : Bool := %v\n", updateFileIndexesAll)
	fmt.Fprintf(w, "def updateTokenValidatesName : Bool := %v\n", updateTokenValidatesName)
	fmt.Fprintf(w, "end Arc.Generated.C22\n")
	out.JSON["updateFileIndexesEveryDatabase"] = updateFileIndexesAll
	out.JSON["updateTokenValidatesName"] = updateTokenValidatesName
	out.JSON["dispatch"] = table
	out.JSON["per_function"] = per
	out.JSON["caps"] = caps
	return nil
}
