package main

import (
	"fmt"
	"go/ast"
	"go/token"
	"strconv"
	"strings"
	"verif/factgen/fg"
)

// C03: constants and shapes of the flush pipeline in internal/ingest/arrow_writer.go that the Lean
// model hard-codes: microPerHour, the exact body of HourBucketID, radixSkipThreshold, the radix
// sort's bias mask / digit width / pass count, the default sort key, the four-map delete pattern of
// every extraction site, the extract → Unlock → enqueue order and the storage path format.
func main() { fg.Main("C03", c03) }

func norm(s string) string { return strings.Join(strings.Fields(s), " ") }

func c03(repo string, out *fg.Out) error {
	const rel = "internal/ingest/arrow_writer.go"
	f, err := fg.ParseFile(repo, rel)
	if err != nil {
		return err
	}
	env := fg.NewConstEnv([]*fg.File{f})
	cint := func(name string) (int64, error) {
		e, ok := env.Exprs[name]
		if !ok {
			return 0, fmt.Errorf("const %s not found in %s", name, rel)
		}
		return env.EvalInt(e)
	}
	mph, err := cint("microPerHour")
	if err != nil {
		return err
	}
	thr, err := cint("radixSkipThreshold")
	if err != nil {
		return err
	}
	iters, err := cint("schemaEvolutionMaxIters")
	if err != nil {
		return err
	}

	body := func(recv, name string) (string, *ast.FuncDecl, error) {
		fd := f.FuncDecl(recv, name)
		if fd == nil || fd.Body == nil {
			return "", nil, fmt.Errorf("func %s not found in %s", name, rel)
		}
		return norm(f.Text(fd.Body)), fd, nil
	}

	// --- HourBucketID: the model's `hourBucketID` is this body, literally
	hb, _, err := body("", "HourBucketID")
	if err != nil {
		return err
	}
	wantHB := norm(`{ h := microTime / microPerHour
		if microTime < 0 && microTime%microPerHour != 0 { h-- }
		return h }`)
	if hb != wantHB {
		return fmt.Errorf("HourBucketID body changed: got %q, the model encodes %q", hb, wantHB)
	}
	// hourIDToTime
	hi, _, err := body("", "hourIDToTime")
	if err != nil {
		return err
	}
	if hi != norm(`{ return time.UnixMicro(hourID * microPerHour).UTC() }`) {
		return fmt.Errorf("hourIDToTime body changed: %q", hi)
	}

	// --- radixSortBias: `return uint64(t) ^ <mask>`
	_, fdBias, err := body("", "radixSortBias")
	if err != nil {
		return err
	}
	var mask uint64
	okBias := false
	if len(fdBias.Body.List) == 1 {
		if rs, ok := fdBias.Body.List[0].(*ast.ReturnStmt); ok && len(rs.Results) == 1 {
			if be, ok := rs.Results[0].(*ast.BinaryExpr); ok && be.Op == token.XOR {
				if lit, ok := be.Y.(*ast.BasicLit); ok && norm(f.Text(be.X)) == "uint64(t)" {
					if v, err := strconv.ParseUint(strings.ReplaceAll(lit.Value, "_", ""), 0, 64); err == nil {
						mask, okBias = v, true
					}
				}
			}
		}
	}
	if !okBias {
		return fmt.Errorf("radixSortBias is no longer `return uint64(t) ^ <literal>`: %s", norm(f.Text(fdBias.Body)))
	}

	// --- radixPermuteByTime: `for shift := uint(0); shift < 64; shift += 8`, `& 0xff`, `[256]int`
	rp, fdRP, err := body("", "radixPermuteByTime")
	if err != nil {
		return err
	}
	var keyBits, digitBits int64 = -1, -1
	ast.Inspect(fdRP.Body, func(n ast.Node) bool {
		fs, ok := n.(*ast.ForStmt)
		if !ok || fs.Cond == nil || fs.Post == nil {
			return true
		}
		c, ok1 := fs.Cond.(*ast.BinaryExpr)
		p, ok2 := fs.Post.(*ast.AssignStmt)
		if ok1 && ok2 && c.Op == token.LSS && norm(f.Text(c.X)) == "shift" && p.Tok == token.ADD_ASSIGN {
			if v, err := env.EvalInt(c.Y); err == nil {
				keyBits = v
			}
			if v, err := env.EvalInt(p.Rhs[0]); err == nil {
				digitBits = v
			}
		}
		return true
	})
	if keyBits < 0 || digitBits < 0 {
		return fmt.Errorf("radixPermuteByTime: `for shift := uint(0); shift < K; shift += D` not found")
	}
	for _, frag := range []string{
		"count[(radixSortBias(times[ix])>>shift)&0xff]++",
		"if count[(radixSortBias(times[src[0]])>>shift)&0xff] == n { continue }",
		"var count [256]int",
		"for i := 0; i < 256; i++ { c := count[i] count[i] = sum sum += c }",
		"for _, ix := range src { b := (radixSortBias(times[ix]) >> shift) & 0xff dst[count[b]] = ix count[b]++ }",
		"src, dst = dst, src",
	} {
		if !strings.Contains(rp, frag) {
			return fmt.Errorf("radixPermuteByTime: expected fragment %q not found", frag)
		}
	}
	// permuteByTime: sorted fast path, then threshold, then radix
	pb, _, err := body("", "permuteByTime")
	if err != nil {
		return err
	}
	i1 := strings.Index(pb, "if times[i] < times[i-1] { alreadySorted = false break }")
	i2 := strings.Index(pb, "if n < radixSkipThreshold { return permuteByTimeSort(times) }")
	i3 := strings.Index(pb, "return radixPermuteByTime(times)")
	if i1 < 0 || i2 < i1 || i3 < i2 {
		return fmt.Errorf("permuteByTime: expected sorted-scan, then `n < radixSkipThreshold` comparison sort, then radix")
	}
	// default sort key
	sk, _, err := body("ArrowBuffer", "getSortKeys")
	if err != nil {
		return err
	}
	if !strings.Contains(sk, `return append(keys, "time")`) {
		return fmt.Errorf("getSortKeys no longer appends \"time\"")
	}

	// --- extraction sites: all four maps deleted; size extraction precedes Unlock precedes enqueue
	del4 := []string{"delete(shard.buffers, bufferKey)", "delete(shard.bufferStartTimes, bufferKey)", "delete(shard.bufferRecordCounts, bufferKey)", "delete(shard.bufferSchemas, bufferKey)"}
	for _, fn := range []string{"writeColumnarInternal", "writeTypedColumnarRaw"} {
		b, _, err := body("ArrowBuffer", fn)
		if err != nil {
			return err
		}
		last := -1
		for _, d := range del4 {
			i := strings.Index(b, d)
			if i < 0 {
				return fmt.Errorf("%s: %s not found", fn, d)
			}
			if i > last {
				last = i
			}
		}
		ap := strings.Index(b, "shard.buffers[bufferKey] = append(shard.buffers[bufferKey], typedColumns)")
		sc := strings.Index(b, "b.flushOnSchemaChangeLocked(")
		un := strings.LastIndex(b, "shard.mu.Unlock()")
		eq := strings.Index(b, "b.tryEnqueueFlush(")
		if !(sc >= 0 && sc < ap && ap < last && last < un && un < eq) {
			return fmt.Errorf("%s: expected order schema-flush < append < extract(deletes) < Unlock < tryEnqueueFlush", fn)
		}
	}
	fb, _, err := body("ArrowBuffer", "flushBufferLocked")
	if err != nil {
		return err
	}
	last := -1
	for _, d := range del4 {
		i := strings.LastIndex(fb, d)
		if i < 0 {
			return fmt.Errorf("flushBufferLocked: %s not found", d)
		}
		if i > last {
			last = i
		}
	}
	if un := strings.Index(fb[last:], "shard.mu.Unlock()"); un < 0 || strings.Index(fb, "b.mergeBatches(recordsToFlush)") < last {
		return fmt.Errorf("flushBufferLocked: expected deletes < Unlock < mergeBatches")
	}

	// --- storage path format
	gp, _, err := body("ArrowBuffer", "generateStoragePath")
	if err != nil {
		return err
	}
	const pathFmt = `"%s/%s/%s/%s/%s/%s/%s_%s_%09d.parquet"`
	for _, frag := range []string{pathFmt, `partitionTime.Format("2006")`, `partitionTime.Format("01")`, `partitionTime.Format("02")`, `partitionTime.Format("15")`,
		"database, measurement, year, month, day, hour, measurement, timestamp, nanos"} {
		if !strings.Contains(gp, frag) {
			return fmt.Errorf("generateStoragePath: expected %s", frag)
		}
	}

	w := &out.Lean
	fmt.Fprintf(w, "namespace Arc.Generated.C03\n")
	fmt.Fprintf(w, "def microPerHour : Int := %s\n", fg.LeanInt(mph))
	fmt.Fprintf(w, "def radixSkipThreshold : Nat := %d\n", thr)
	fmt.Fprintf(w, "def schemaEvolutionMaxIters : Nat := %d\n", iters)
	fmt.Fprintf(w, "def radixBiasMask : Nat := %d\n", mask)
	fmt.Fprintf(w, "def radixKeyBits : Nat := %d\n", keyBits)
	fmt.Fprintf(w, "def radixDigitBits : Nat := %d\n", digitBits)
	fmt.Fprintf(w, "def radixBuckets : Nat := 256\n")
	fmt.Fprintf(w, "def hourBucketBody : String := %s\n", fg.LeanStr(hb))
	fmt.Fprintf(w, "def storagePathFormat : String := %s\n", fg.LeanStr(strings.Trim(pathFmt, `"`)))
	fmt.Fprintf(w, "end Arc.Generated.C03\n")
	out.JSON["micro_per_hour"] = mph
	out.JSON["radix_skip_threshold"] = thr
	out.JSON["schema_evolution_max_iters"] = iters
	out.JSON["radix_bias_mask"] = fmt.Sprintf("%d", mask)
	return nil
}
