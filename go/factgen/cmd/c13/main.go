package main

import (
	"fmt"
	"go/ast"
	"go/token"
	"math/big"
	"strconv"
	"strings"

	"verif/factgen/fg"
)

// C13: the per-file ERROR POLICY of the backup and restore loops (what follows a per-file error:
// log+continue / count+continue / return err), how a skip count reaches checkSkipRatio and the
// manifest, whether a restoreDataFiles error fails RestoreBackup, the maxSkipRatio fraction, the
// staging-file cleanup after a failed WriteReader, and the path-classification string literals.
// Every fact comes with the shape it is read from; a moved/reshaped construct is a SHAPE-MISMATCH.
func main() { fg.Main("C13", c13) }

const (
	polContinue = 0 // log and continue; nothing counted; function still returns nil
	polCount    = 1 // count and continue; the count is acted upon by the caller / after the loop
	polAbort    = 2 // return a non-nil error
)

func isNilIdent(e ast.Expr) bool {
	id, ok := e.(*ast.Ident)
	return ok && id.Name == "nil"
}

// returnsError: a return statement whose LAST result is not the literal nil.
func returnsError(s ast.Stmt) bool {
	r, ok := s.(*ast.ReturnStmt)
	return ok && len(r.Results) > 0 && !isNilIdent(r.Results[len(r.Results)-1])
}

func isErrNotNil(e ast.Expr) bool {
	b, ok := e.(*ast.BinaryExpr)
	if !ok || b.Op != token.NEQ {
		return false
	}
	id, ok := b.X.(*ast.Ident)
	return ok && id.Name == "err" && isNilIdent(b.Y)
}

// counts: does the statement list bump a counter (x++, x += …, atomic.AddInt64(…), x = append(x, …))?
func counts(stmts []ast.Stmt) bool {
	found := false
	for _, s := range stmts {
		ast.Inspect(s, func(n ast.Node) bool {
			switch x := n.(type) {
			case *ast.IncDecStmt:
				if x.Tok == token.INC {
					found = true
				}
			case *ast.AssignStmt:
				if x.Tok == token.ADD_ASSIGN {
					found = true
				}
				for _, r := range x.Rhs {
					if c, ok := r.(*ast.CallExpr); ok && fg.CalleeName(c) == "append" {
						found = true
					}
				}
			case *ast.CallExpr:
				if strings.HasPrefix(fg.CalleeName(x), "AddInt") {
					found = true
				}
			}
			return true
		})
	}
	return found
}

// classify the tail of an error branch: continue (counted or not) / return err.
func classifyTail(stmts []ast.Stmt) (int, error) {
	if len(stmts) == 0 {
		return 0, fmt.Errorf("empty error branch (falls through)")
	}
	last := stmts[len(stmts)-1]
	if returnsError(last) {
		return polAbort, nil
	}
	if br, ok := last.(*ast.BranchStmt); ok && br.Tok == token.CONTINUE && br.Label == nil {
		if counts(stmts) {
			return polCount, nil
		}
		return polContinue, nil
	}
	return 0, fmt.Errorf("error branch ends in neither `continue` nor `return <err>`")
}

// perFileErrBranch finds, in fn, `for … range <files>` → `<x>, err := m.<callee>(…)` directly followed by
// `if err != nil { … }` and returns that branch, the loop, and the statements after the loop.
func perFileErrBranch(fn *ast.FuncDecl, callee string) (*ast.IfStmt, *ast.RangeStmt, []ast.Stmt, error) {
	for i, s := range fn.Body.List {
		rs, ok := s.(*ast.RangeStmt)
		if !ok {
			continue
		}
		for j, b := range rs.Body.List {
			as, ok := b.(*ast.AssignStmt)
			if !ok || len(as.Rhs) != 1 {
				continue
			}
			c, ok := as.Rhs[0].(*ast.CallExpr)
			if !ok || fg.CalleeName(c) != callee {
				continue
			}
			if j+1 >= len(rs.Body.List) {
				return nil, nil, nil, fmt.Errorf("%s: call to %s is the last statement of the loop", fn.Name.Name, callee)
			}
			ifs, ok := rs.Body.List[j+1].(*ast.IfStmt)
			if !ok || !isErrNotNil(ifs.Cond) || ifs.Else != nil {
				return nil, nil, nil, fmt.Errorf("%s: call to %s is not followed by `if err != nil {…}`", fn.Name.Name, callee)
			}
			return ifs, rs, fn.Body.List[i+1:], nil
		}
	}
	return nil, nil, nil, fmt.Errorf("%s: no top-level `for … range` loop calling %s", fn.Name.Name, callee)
}

// failsAfterLoop: after the loop there is an `if …{ return <non-nil err> }`.
func failsAfterLoop(after []ast.Stmt) bool {
	for _, s := range after {
		if ifs, ok := s.(*ast.IfStmt); ok {
			for _, b := range ifs.Body.List {
				if returnsError(b) {
					return true
				}
			}
		}
	}
	return false
}

// errBranchOfCall: inside fn, the `if err := <recv>.<method>(…); err != nil {…}` (or assignment followed
// by if) whose call's selector chain text contains `recvText` and method name is `method`.
func errBranchOfCall(f *fg.File, fn *ast.FuncDecl, recvText, method string) *ast.IfStmt {
	var out *ast.IfStmt
	ast.Inspect(fn.Body, func(n ast.Node) bool {
		ifs, ok := n.(*ast.IfStmt)
		if !ok || ifs.Init == nil || !isErrNotNil(ifs.Cond) {
			return true
		}
		as, ok := ifs.Init.(*ast.AssignStmt)
		if !ok || len(as.Rhs) != 1 {
			return true
		}
		c, ok := as.Rhs[0].(*ast.CallExpr)
		if !ok || fg.CalleeName(c) != method {
			return true
		}
		if recvText != "" && !strings.Contains(f.Text(c.Fun), recvText) {
			return true
		}
		if out == nil {
			out = ifs
		}
		return true
	})
	return out
}

// ioPhase describes one storage call site family inside a stream* function: how many times
// <recv>.<method> is called (attempts; a call inside a loop is a shape we do not model), the
// top-level `if err != nil { return <err> }` that reports its failure, and whether a
// Truncate + Seek of the temp file happens between the first and the last attempt.
type ioPhase struct {
	attempts int
	resets   bool
	branch   *ast.IfStmt
}

func findIOPhase(f *fg.File, fn *ast.FuncDecl, recvText, method string) (*ioPhase, error) {
	var calls []*ast.CallExpr
	inLoop := false
	var walk func(n ast.Node, loop bool)
	walk = func(n ast.Node, loop bool) {
		ast.Inspect(n, func(m ast.Node) bool {
			switch x := m.(type) {
			case *ast.ForStmt:
				if m != n {
					walk(x.Body, true)
					return false
				}
			case *ast.RangeStmt:
				if m != n {
					walk(x.Body, true)
					return false
				}
			case *ast.CallExpr:
				if fg.CalleeName(x) == method && strings.Contains(f.Text(x.Fun), recvText) {
					calls = append(calls, x)
					if loop {
						inLoop = true
					}
				}
			}
			return true
		})
	}
	walk(fn.Body, false)
	if len(calls) == 0 {
		return nil, fmt.Errorf("%s: no %s.%s call", fn.Name.Name, recvText, method)
	}
	if inLoop {
		return nil, fmt.Errorf("%s: %s.%s is called inside a loop (retry loops are not modelled)", fn.Name.Name, recvText, method)
	}
	ph := &ioPhase{attempts: len(calls)}
	first, last := calls[0], calls[len(calls)-1]
	trunc, seek := false, false
	ast.Inspect(fn.Body, func(m ast.Node) bool {
		if c, ok := m.(*ast.CallExpr); ok && c.Pos() > first.End() && c.End() < last.Pos() {
			switch fg.CalleeName(c) {
			case "Truncate":
				trunc = true
			case "Seek":
				seek = true
			}
		}
		return true
	})
	ph.resets = trunc && seek
	// the failure report: first top-level `if [init;] err != nil { …; return <err> }` at or after the first call
	for _, st := range fn.Body.List {
		ifs, ok := st.(*ast.IfStmt)
		if !ok || ifs.End() < first.Pos() || !isErrNotNil(ifs.Cond) || ifs.Else != nil {
			continue
		}
		if ifs.Pos() > last.End() || (ifs.Init != nil && ifs.Init.Pos() <= last.Pos() && last.End() <= ifs.Init.End()) {
			if len(ifs.Body.List) > 0 && returnsError(ifs.Body.List[len(ifs.Body.List)-1]) {
				ph.branch = ifs
				break
			}
			return nil, fmt.Errorf("%s: a %s.%s error is not returned", fn.Name.Name, recvText, method)
		}
	}
	if ph.branch == nil {
		return nil, fmt.Errorf("%s: no `if err != nil { return <err> }` after %s.%s", fn.Name.Name, recvText, method)
	}
	return ph, nil
}

func mentions(f *fg.File, n ast.Node, ident string) bool {
	found := false
	ast.Inspect(n, func(m ast.Node) bool {
		if id, ok := m.(*ast.Ident); ok && id.Name == ident {
			found = true
		}
		return true
	})
	return found
}

func strLit(e ast.Expr) (string, bool) {
	bl, ok := e.(*ast.BasicLit)
	if !ok || bl.Kind != token.STRING {
		return "", false
	}
	s, err := strconv.Unquote(bl.Value)
	return s, err == nil
}

func leanCodes(s string) string {
	var parts []string
	for _, b := range []byte(s) {
		parts = append(parts, strconv.Itoa(int(b)))
	}
	return "[" + strings.Join(parts, ", ") + "]"
}

func c13(repo string, out *fg.Out) error {
	files, err := fg.ParseDir(repo, "internal/backup")
	if err != nil {
		return err
	}
	need := func(recv, name string) (*fg.File, *ast.FuncDecl, error) {
		f, fd := fg.FindFunc(files, recv, name)
		if fd == nil || fd.Body == nil {
			return nil, nil, fmt.Errorf("func %s not found in internal/backup", name)
		}
		return f, fd, nil
	}

	// ---------------------------------------------------------------- restore side
	_, rdf, err := need("Manager", "restoreDataFiles")
	if err != nil {
		return err
	}
	rbranch, _, rafter, err := perFileErrBranch(rdf, "streamRestoreFile")
	if err != nil {
		return err
	}
	restorePol, err := classifyTail(rbranch.Body.List)
	if err != nil {
		return fmt.Errorf("restoreDataFiles: %v", err)
	}
	switch restorePol {
	case polCount:
		if !failsAfterLoop(rafter) {
			return fmt.Errorf("restoreDataFiles counts failed files but no `if … { return <err> }` follows the loop")
		}
	case polContinue:
		last := rdf.Body.List[len(rdf.Body.List)-1]
		if r, ok := last.(*ast.ReturnStmt); !ok || len(r.Results) != 1 || !isNilIdent(r.Results[0]) {
			return fmt.Errorf("restoreDataFiles continues on a per-file error but does not end in `return nil`")
		}
		if failsAfterLoop(rafter) {
			return fmt.Errorf("restoreDataFiles continues uncounted on a per-file error yet returns an error after the loop")
		}
	}
	rbf, rb, err := need("Manager", "RestoreBackup")
	if err != nil {
		return err
	}
	// ---- the step program of RestoreBackup: every top-level `if opts.RestoreX [&& manifest.HasY] {…}`
	// wrapper in source order, with what happens to the error its step returns, plus every
	// top-level `if err != nil { fail }` check of the shared error variable.
	failsRestore := func(body []ast.Stmt) bool { // sets Status="failed" and returns a non-nil error
		setsFailed, ret := false, false
		for _, s := range body {
			if as, ok := s.(*ast.AssignStmt); ok && len(as.Lhs) == 1 && len(as.Rhs) == 1 {
				if v, ok := strLit(as.Rhs[0]); ok && v == "failed" && strings.HasSuffix(rbf.Text(as.Lhs[0]), ".Status") {
					setsFailed = true
				}
			}
			if returnsError(s) {
				ret = true
			}
		}
		return setsFailed && ret
	}
	stepCall := func(e ast.Expr) int {
		c, ok := e.(*ast.CallExpr)
		if !ok {
			return -1
		}
		switch fg.CalleeName(c) {
		case "restoreDataFiles":
			return 0
		case "restoreSQLite":
			return 1
		case "restoreConfig":
			return 2
		}
		return -1
	}
	wantCond := map[int]string{0: "opts.RestoreData", 1: "opts.RestoreMetadata&&manifest.HasMetadata", 2: "opts.RestoreConfig&&manifest.HasConfig"}
	type instr struct{ Kind, Mode int }
	var prog []instr
	seenManifest, skipManifestCheck := false, false
	dataSkipNoParquet := false
	lastStep := token.NoPos
	for _, top := range rb.Body.List {
		if !seenManifest { // everything up to and including the GetBackup error check
			if len(fg.CallsNamed(top, "GetBackup")) > 0 {
				seenManifest = true
				skipManifestCheck = true
			}
			continue
		}
		if skipManifestCheck { // the `if err != nil {…}` belonging to GetBackup
			skipManifestCheck = false
			if x, ok := top.(*ast.IfStmt); ok && x.Init == nil && isErrNotNil(x.Cond) {
				if !failsRestore(x.Body.List) {
					return fmt.Errorf("RestoreBackup: a GetBackup error no longer fails the restore")
				}
				continue
			}
			return fmt.Errorf("RestoreBackup: GetBackup is not followed by `if err != nil {fail}`")
		}
		ifs, ok := top.(*ast.IfStmt)
		if !ok {
			// a step call outside a wrapper is a shape we do not know
			bad := false
			ast.Inspect(top, func(n ast.Node) bool {
				if e, ok := n.(ast.Expr); ok && stepCall(e) >= 0 {
					bad = true
				}
				return true
			})
			if bad {
				return fmt.Errorf("RestoreBackup: a restore step is called outside an `if opts.Restore… {}` wrapper (line %d)", rbf.Line(top))
			}
			continue
		}
		cond := strings.ReplaceAll(rbf.Text(ifs.Cond), " ", "")
		if ifs.Init == nil && isErrNotNil(ifs.Cond) {
			if !failsRestore(ifs.Body.List) {
				return fmt.Errorf("RestoreBackup: top-level `if err != nil {…}` (line %d) does not fail the restore", rbf.Line(ifs))
			}
			prog = append(prog, instr{9, 0})
			continue
		}
		if !strings.HasPrefix(cond, "opts.Restore") {
			continue
		}
		// known counter-conditioned shape: `if opts.RestoreData && manifest.TotalFiles == 0 { no step }
		// else if opts.RestoreData { step }` = the data step is skipped for a backup that inventories no
		// parquet file. Recorded as a fact (the model follows it; the theorems require it to be false).
		if el, ok := ifs.Else.(*ast.IfStmt); ok && ifs.Init == nil && cond == wantCond[0]+"&&manifest.TotalFiles==0" &&
			el.Init == nil && el.Else == nil && strings.ReplaceAll(rbf.Text(el.Cond), " ", "") == wantCond[0] {
			hasStep := false
			ast.Inspect(ifs.Body, func(n ast.Node) bool {
				if e, ok := n.(ast.Expr); ok && stepCall(e) >= 0 {
					hasStep = true
				}
				return true
			})
			if hasStep {
				return fmt.Errorf("RestoreBackup: step inside the TotalFiles==0 branch (line %d)", rbf.Line(ifs))
			}
			dataSkipNoParquet = true
			ifs = el
			cond = wantCond[0]
		}
		if ifs.Init != nil || ifs.Else != nil {
			return fmt.Errorf("RestoreBackup: unexpected init/else on step wrapper (line %d)", rbf.Line(ifs))
		}
		kind, mode := -1, -1
		body := ifs.Body.List
		for i, st := range body {
			switch x := st.(type) {
			case *ast.IfStmt: // if err :=|= step(); err != nil { … }
				as, ok := x.Init.(*ast.AssignStmt)
				if !ok || len(as.Rhs) != 1 || stepCall(as.Rhs[0]) < 0 {
					continue
				}
				kind = stepCall(as.Rhs[0])
				switch {
				case isErrNotNil(x.Cond) && failsRestore(x.Body.List):
					mode = 0
				case as.Tok == token.ASSIGN:
					mode = 1 // stored in the shared variable, not failed here
				default:
					mode = 3 // declared locally and dropped
				}
			case *ast.AssignStmt: // err = step()
				if len(x.Rhs) != 1 || stepCall(x.Rhs[0]) < 0 {
					continue
				}
				kind = stepCall(x.Rhs[0])
				mode = 3
				if x.Tok == token.ASSIGN {
					mode = 1
				}
				for _, nx := range body[i+1:] { // an unconditional-on-error failure right after it
					if n2, ok := nx.(*ast.IfStmt); ok && n2.Init == nil && isErrNotNil(n2.Cond) && failsRestore(n2.Body.List) {
						mode = 0
					}
				}
			case *ast.ExprStmt:
				if stepCall(x.X) >= 0 {
					kind, mode = stepCall(x.X), 3
				}
			}
			if kind >= 0 {
				break
			}
		}
		if kind < 0 {
			return fmt.Errorf("RestoreBackup: wrapper `if %s` (line %d) contains no recognisable restore step", cond, rbf.Line(ifs))
		}
		if cond != wantCond[kind] {
			return fmt.Errorf("RestoreBackup: step %d is guarded by `%s`, expected `%s`", kind, cond, wantCond[kind])
		}
		prog = append(prog, instr{kind, mode})
		lastStep = ifs.End()
	}
	if len(prog) == 0 || lastStep == token.NoPos {
		return fmt.Errorf("RestoreBackup: no restore steps found")
	}
	// no OTHER condition of RestoreBackup may look at the manifest's counters
	nCounterConds := 0
	ast.Inspect(rb.Body, func(n ast.Node) bool {
		if x, ok := n.(*ast.IfStmt); ok {
			t := rbf.Text(x.Cond)
			if strings.Contains(t, "TotalFiles") || strings.Contains(t, "TotalSizeBytes") || strings.Contains(t, "SkippedFiles") || strings.Contains(t, ".Databases") {
				nCounterConds++
			}
		}
		return true
	})
	if want := map[bool]int{false: 0, true: 1}[dataSkipNoParquet]; nCounterConds != want {
		return fmt.Errorf("RestoreBackup: %d condition(s) on manifest counters (TotalFiles/TotalSizeBytes/SkippedFiles/Databases), expected %d", nCounterConds, want)
	}
	completedUncond := false
	for _, s := range rb.Body.List { // direct children only = unconditional
		if as, ok := s.(*ast.AssignStmt); ok && len(as.Lhs) == 1 && len(as.Rhs) == 1 && s.Pos() > lastStep {
			if v, ok := strLit(as.Rhs[0]); ok && v == "completed" && strings.HasSuffix(rbf.Text(as.Lhs[0]), ".Status") {
				completedUncond = true
			}
		}
	}
	if !completedUncond {
		return fmt.Errorf("RestoreBackup: unconditional `progress.Status = \"completed\"` after the last step not found")
	}
	srf, sr, err := need("Manager", "streamRestoreFile")
	if err != nil {
		return err
	}
	rReadPh, err := findIOPhase(srf, sr, "backupStorage", "ReadTo")
	if err != nil {
		return err
	}
	rWritePh, err := findIOPhase(srf, sr, "dataStorage", "WriteReader")
	if err != nil {
		return err
	}
	if rWritePh.branch.Pos() < rReadPh.branch.End() {
		return fmt.Errorf("streamRestoreFile: write before read?")
	}
	rWrite := rWritePh.branch
	restoreCleans := len(fg.CallsNamed(rWrite.Body, "cleanupPartialWrite"))+len(fg.CallsNamed(rWrite.Body, "Delete")) > 0

	// ---------------------------------------------------------------- backup side
	cdfF, cdf, err := need("Manager", "copyDataFiles")
	if err != nil {
		return err
	}
	bbranch, _, bafter, err := perFileErrBranch(cdf, "streamBackupFile")
	if err != nil {
		return err
	}
	// optional leading guard `if !isSourceReadError(err) { … }` splits the branch in two classes
	body := bbranch.Body.List
	srcPol, otherPol := -1, -1
	if len(body) > 0 {
		if g, ok := body[0].(*ast.IfStmt); ok && strings.ReplaceAll(cdfF.Text(g.Cond), " ", "") == "!isSourceReadError(err)" && g.Else == nil {
			otherPol, err = classifyTail(g.Body.List)
			if err != nil {
				return fmt.Errorf("copyDataFiles (non-source-read branch): %v", err)
			}
			srcPol, err = classifyTail(body[1:])
			if err != nil {
				return fmt.Errorf("copyDataFiles (source-read branch): %v", err)
			}
		}
	}
	if srcPol < 0 {
		p, err := classifyTail(body)
		if err != nil {
			return fmt.Errorf("copyDataFiles: %v", err)
		}
		srcPol, otherPol = p, p
	}
	if srcPol == polCount {
		// the count must reach progress.SkippedFiles
		ok := false
		for _, s := range bafter {
			for _, c := range fg.CallsNamed(s, "AddInt64") {
				if strings.Contains(cdfF.Text(c), "SkippedFiles") {
					ok = true
				}
			}
			if as, isAs := s.(*ast.AssignStmt); isAs && strings.Contains(cdfF.Text(as), "SkippedFiles") {
				ok = true
			}
		}
		if !ok {
			return fmt.Errorf("copyDataFiles counts skipped files but never adds them to progress.SkippedFiles")
		}
	}
	_, ise, err := need("", "isSourceReadError")
	if err != nil {
		return err
	}
	if len(fg.CallsNamed(ise.Body, "Is")) != 1 || !mentions(nil, ise.Body, "errBackupRead") {
		return fmt.Errorf("isSourceReadError is no longer `errors.Is(err, errBackupRead)`")
	}
	sbfF, sbf, err := need("Manager", "streamBackupFile")
	if err != nil {
		return err
	}
	bReadPh, err := findIOPhase(sbfF, sbf, "dataStorage", "ReadTo")
	if err != nil {
		return err
	}
	bWritePh, err := findIOPhase(sbfF, sbf, "backupStorage", "WriteReader")
	if err != nil {
		return err
	}
	if bWritePh.branch.Pos() < bReadPh.branch.End() {
		return fmt.Errorf("streamBackupFile: write before read?")
	}
	bRead, bWrite := bReadPh.branch, bWritePh.branch
	readIsSrc := mentions(nil, bRead.Body, "errBackupRead")
	writeIsSrc := mentions(nil, bWrite.Body, "errBackupRead")
	backupCleans := len(fg.CallsNamed(bWrite.Body, "cleanupPartialWrite"))+len(fg.CallsNamed(bWrite.Body, "Delete")) > 0
	pick := func(isSrc bool) int {
		if isSrc {
			return srcPol
		}
		return otherPol
	}
	backupReadPol, backupWritePol := pick(readIsSrc), pick(writeIsSrc)

	cbF, cb, err := need("Manager", "CreateBackup")
	if err != nil {
		return err
	}
	copies := fg.CallsNamed(cb.Body, "copyDataFiles")
	if len(copies) != 2 {
		return fmt.Errorf("CreateBackup: expected 2 copyDataFiles calls (data, Iceberg metadata), found %d", len(copies))
	}
	nFail := 0
	ast.Inspect(cb.Body, func(n ast.Node) bool {
		ifs, ok := n.(*ast.IfStmt)
		if !ok || ifs.Init == nil || !isErrNotNil(ifs.Cond) {
			return true
		}
		as, ok := ifs.Init.(*ast.AssignStmt)
		if !ok || len(as.Rhs) != 1 {
			return true
		}
		if c, ok := as.Rhs[0].(*ast.CallExpr); ok && fg.CalleeName(c) == "copyDataFiles" {
			if len(ifs.Body.List) > 0 && returnsError(ifs.Body.List[len(ifs.Body.List)-1]) {
				nFail++
			}
		}
		return true
	})
	if nFail != 2 {
		return fmt.Errorf("CreateBackup: a copyDataFiles error must fail the backup at both call sites (found %d)", nFail)
	}
	ratioChecked := false
	if rIf := errBranchOfCall(cbF, cb, "", "checkSkipRatio"); rIf != nil {
		if len(rIf.Body.List) > 0 && returnsError(rIf.Body.List[len(rIf.Body.List)-1]) && rIf.Pos() > copies[1].End() {
			ratioChecked = true
		}
	}
	// manifest.SkippedFiles = …progress.SkippedFiles… before MarshalManifest(manifest)
	marshal := fg.CallsNamed(cb.Body, "MarshalManifest")
	if len(marshal) != 1 {
		return fmt.Errorf("CreateBackup: expected one MarshalManifest call")
	}
	manifestSkipped := false
	for _, s := range cb.Body.List {
		if as, ok := s.(*ast.AssignStmt); ok && len(as.Lhs) == 1 && len(as.Rhs) == 1 && as.Tok == token.ASSIGN {
			if cbF.Text(as.Lhs[0]) == "manifest.SkippedFiles" && strings.Contains(cbF.Text(as.Rhs[0]), "progress.SkippedFiles") && as.End() < marshal[0].Pos() &&
				as.Pos() > copies[1].End() { // taken after EVERY file group was copied
				manifestSkipped = true
			}
		}
	}
	// the manifest must be persisted through backupStorage.Write and a failure must fail the backup
	if w := errBranchOfCall(cbF, cb, "backupStorage", "Write"); w == nil || len(w.Body.List) == 0 || !returnsError(w.Body.List[len(w.Body.List)-1]) {
		return fmt.Errorf("CreateBackup: manifest write failure no longer fails the backup")
	}
	// inventory switch: `.parquet` first, then isIcebergMetadata
	parquetSuffix := ""
	ast.Inspect(cb.Body, func(n ast.Node) bool {
		sw, ok := n.(*ast.SwitchStmt)
		if !ok || sw.Tag != nil || len(sw.Body.List) < 2 {
			return true
		}
		c0, ok0 := sw.Body.List[0].(*ast.CaseClause)
		c1, ok1 := sw.Body.List[1].(*ast.CaseClause)
		if !ok0 || !ok1 || len(c0.List) != 1 || len(c1.List) != 1 {
			return true
		}
		h, okh := c0.List[0].(*ast.CallExpr)
		i, oki := c1.List[0].(*ast.CallExpr)
		if okh && oki && fg.CalleeName(h) == "HasSuffix" && len(h.Args) == 2 && fg.CalleeName(i) == "isIcebergMetadata" {
			if v, ok := strLit(h.Args[1]); ok {
				parquetSuffix = v
			}
		}
		return true
	})
	if parquetSuffix == "" {
		return fmt.Errorf("CreateBackup: inventory `switch { case strings.HasSuffix(obj.Path, <lit>): … case isIcebergMetadata(obj.Path): …}` not found")
	}
	_, iim, err := need("", "isIcebergMetadata")
	if err != nil {
		return err
	}
	metaSeg, metaNotSuffix := "", ""
	for _, c := range fg.CallsNamed(iim.Body, "Contains") {
		if len(c.Args) == 2 {
			if v, ok := strLit(c.Args[1]); ok {
				metaSeg = v
			}
		}
	}
	for _, c := range fg.CallsNamed(iim.Body, "HasSuffix") {
		if len(c.Args) == 2 {
			if v, ok := strLit(c.Args[1]); ok {
				metaNotSuffix = v
			}
		}
	}
	if metaSeg == "" || metaNotSuffix != parquetSuffix {
		return fmt.Errorf("isIcebergMetadata: expected Contains(p, <seg>) && !HasSuffix(p, %q); got seg=%q suffix=%q", parquetSuffix, metaSeg, metaNotSuffix)
	}

	// checkSkipRatio + maxSkipRatio
	csF, cs, err := need("Manager", "checkSkipRatio")
	if err != nil {
		return err
	}
	okCond, okGuard := false, false
	for _, s := range cs.Body.List {
		if ifs, ok := s.(*ast.IfStmt); ok {
			t := strings.ReplaceAll(csF.Text(ifs.Cond), " ", "")
			if t == "float64(skipped)>maxSkipRatio*float64(totalFiles)" && len(ifs.Body.List) > 0 && returnsError(ifs.Body.List[len(ifs.Body.List)-1]) {
				okCond = true
			}
			if t == "skipped==0||totalFiles==0" {
				okGuard = true
			}
		}
	}
	if !okCond || !okGuard {
		return fmt.Errorf("checkSkipRatio: expected `if skipped == 0 || totalFiles == 0 {return nil}` and `if float64(skipped) > maxSkipRatio*float64(totalFiles) {return err}`")
	}
	env := fg.NewConstEnv(files)
	rl, ok := env.Exprs["maxSkipRatio"].(*ast.BasicLit)
	if !ok || (rl.Kind != token.FLOAT && rl.Kind != token.INT) {
		return fmt.Errorf("const maxSkipRatio is not a numeric literal")
	}
	rat, ok := new(big.Rat).SetString(rl.Value)
	if !ok || rat.Sign() < 0 || !rat.Num().IsInt64() || !rat.Denom().IsInt64() {
		return fmt.Errorf("maxSkipRatio literal %q not understood", rl.Value)
	}
	partSuffix := ""
	if e, ok := env.Exprs["partSuffix"]; ok {
		partSuffix, _ = strLit(e)
	}
	if partSuffix == "" {
		return fmt.Errorf("const partSuffix not found")
	}
	// Manifest.SkippedFiles is a persisted field
	tagOK := false
	for _, f := range files {
		ast.Inspect(f.AST, func(n ast.Node) bool {
			fld, ok := n.(*ast.Field)
			if ok && len(fld.Names) == 1 && fld.Names[0].Name == "SkippedFiles" && fld.Tag != nil && strings.Contains(fld.Tag.Value, "json:\"skipped_files") {
				tagOK = true
			}
			return true
		})
	}
	if !tagOK {
		return fmt.Errorf("Manifest.SkippedFiles `json:\"skipped_files…\"` field not found")
	}
	// LocalBackend listings skip hidden files and walk in lexical order
	lf, err := fg.ParseFile(repo, "internal/storage/local.go")
	if err != nil {
		return err
	}
	for _, name := range []string{"List", "ListObjects"} {
		fd := lf.FuncDecl("LocalBackend", name)
		if fd == nil {
			return fmt.Errorf("LocalBackend.%s not found", name)
		}
		if len(fg.CallsNamed(fd.Body, "WalkDir")) != 1 || !strings.Contains(lf.Text(fd.Body), `strings.HasPrefix(d.Name(), ".")`) {
			return fmt.Errorf("LocalBackend.%s: expected filepath.WalkDir + hidden-file skip", name)
		}
	}

	w := &out.Lean
	fmt.Fprintf(w, "namespace Arc.Generated.C13\n")
	fmt.Fprintf(w, "/-- per-file error policy codes: 0 = log and `continue` (nothing counted, the function still returns nil);\n1 = count as skipped and `continue` (the caller inspects the count); 2 = `return err`. -/\n")
	fmt.Fprintf(w, "def backupReadErr : Nat := %d\n", backupReadPol)
	fmt.Fprintf(w, "def backupWriteErr : Nat := %d\n", backupWritePol)
	fmt.Fprintf(w, "def restoreFileErr : Nat := %d\n", restorePol)
	fmt.Fprintf(w, "def backupCleansPart : Bool := %v\n", backupCleans)
	fmt.Fprintf(w, "def restoreCleansPart : Bool := %v\n", restoreCleans)
	fmt.Fprintf(w, "/-- per-file I/O attempts (1 = no retry) and whether a read retry truncates+rewinds the temp file -/\n")
	fmt.Fprintf(w, "def backupReadAttempts : Nat := %d\n", bReadPh.attempts)
	fmt.Fprintf(w, "def backupRetryResets : Bool := %v\n", bReadPh.resets)
	fmt.Fprintf(w, "def backupWriteAttempts : Nat := %d\n", bWritePh.attempts)
	fmt.Fprintf(w, "def restoreReadAttempts : Nat := %d\n", rReadPh.attempts)
	fmt.Fprintf(w, "def restoreRetryResets : Bool := %v\n", rReadPh.resets)
	fmt.Fprintf(w, "def restoreWriteAttempts : Nat := %d\n", rWritePh.attempts)
	fmt.Fprintf(w, "def ratioNum : Nat := %d\n", rat.Num().Int64())
	fmt.Fprintf(w, "def ratioDen : Nat := %d\n", rat.Denom().Int64())
	fmt.Fprintf(w, "def ratioChecked : Bool := %v\n", ratioChecked)
	fmt.Fprintf(w, "def manifestSkippedBeforeMarshal : Bool := %v\n", manifestSkipped)
	var ps []string
	for _, in := range prog {
		ps = append(ps, fmt.Sprintf("(%d, %d)", in.Kind, in.Mode))
	}
	fmt.Fprintf(w, "/-- RestoreBackup step program: (kind 0=data 1=sqlite 2=config 9=check-shared-err, mode 0=fail-now 1=assign 2=accumulate 3=ignore) -/\n")
	fmt.Fprintf(w, "def restoreProgram : List (Nat × Nat) := [%s]\n", strings.Join(ps, ", "))
	fmt.Fprintf(w, "/-- RestoreBackup skips the data step when manifest.TotalFiles == 0 (no parquet inventoried) -/\n")
	fmt.Fprintf(w, "def dataSkippedWhenNoParquet : Bool := %v\n", dataSkipNoParquet)
	fmt.Fprintf(w, "def parquetSuffix : List Nat := %s\n", leanCodes(parquetSuffix))
	fmt.Fprintf(w, "def metadataSeg : List Nat := %s\n", leanCodes(metaSeg))
	fmt.Fprintf(w, "def partSuffix : List Nat := %s\n", leanCodes(partSuffix))
	fmt.Fprintf(w, "end Arc.Generated.C13\n")
	out.JSON["backup_read_err"] = backupReadPol
	out.JSON["backup_write_err"] = backupWritePol
	out.JSON["restore_file_err"] = restorePol
	out.JSON["backup_cleans_part"] = backupCleans
	out.JSON["restore_cleans_part"] = restoreCleans
	out.JSON["ratio"] = []int64{rat.Num().Int64(), rat.Denom().Int64()}
	out.JSON["ratio_checked"] = ratioChecked
	out.JSON["manifest_skipped_before_marshal"] = manifestSkipped
	out.JSON["read_err_is_source_read"] = readIsSrc
	out.JSON["write_err_is_source_read"] = writeIsSrc
	out.JSON["io_attempts"] = map[string]any{"backup_read": bReadPh.attempts, "backup_read_retry_resets": bReadPh.resets, "backup_write": bWritePh.attempts,
		"restore_read": rReadPh.attempts, "restore_read_retry_resets": rReadPh.resets, "restore_write": rWritePh.attempts}
	out.JSON["data_skipped_when_no_parquet"] = dataSkipNoParquet
	out.JSON["restore_program"] = prog
	out.JSON["parquet_suffix"] = parquetSuffix
	out.JSON["metadata_seg"] = metaSeg
	out.JSON["part_suffix"] = partSuffix
	return nil
}
