package main

import (
	"fmt"
	"go/ast"
	"go/token"
	"strings"
	"verif/factgen/fg"
)

// C12: the ORDER of storage/metadata mutations inside Migrator.MigrateFile with the error policy of
// every step, the guard/probe/delete tiers of ReconcileOrphanedFiles (+ its window), the phase order
// of Manager.RunMigrationCycle, the only supported migration direction (FindCandidates) and the
// metadata-tier -> globbed-tier table of QueryHandler.buildMultiTierReadParquet.
func main() { fg.Main("C12", c12) }

type step struct {
	Name    string   `json:"name"`
	Act     string   `json:"act"` // Lean term of type Act
	OnFail  string   `json:"on_fail"`
	Cleanup []string `json:"cleanup"`
	Abort   bool     `json:"abort"`
	Line    int      `json:"line"`
}

// mutating callee names we expect inside MigrateFile; anything else that looks like a backend or
// metadata mutation makes the extraction fail (so that a new mutation cannot go unmodelled).
var known = map[string]bool{"RecordMigration": true, "copyFileStreaming": true, "UpdateTier": true,
	"Delete": true, "CompleteMigration": true}
var suspicious = map[string]bool{"Write": true, "WriteReader": true, "RecordFile": true, "DeleteFile": true,
	"DeleteBatch": true, "AppendReader": true, "copyFile": true, "RemoveDirectory": true, "Exec": true, "ExecContext": true}

func c12(repo string, out *fg.Out) error {
	mig, err := fg.ParseFile(repo, "internal/tiering/migrator.go")
	if err != nil {
		return err
	}
	man, err := fg.ParseFile(repo, "internal/tiering/manager.go")
	if err != nil {
		return err
	}
	qf, err := fg.ParseFile(repo, "internal/api/query.go")
	if err != nil {
		return err
	}

	// ---- supported direction: FindCandidates `if fromTier != TierHot || toTier != TierCold { return … }`
	fc := mig.FuncDecl("Migrator", "FindCandidates")
	if fc == nil {
		return fmt.Errorf("Migrator.FindCandidates not found")
	}
	srcTier, dstTier := "", ""
	for _, st := range fc.Body.List {
		is, ok := st.(*ast.IfStmt)
		if !ok {
			continue
		}
		be, ok := is.Cond.(*ast.BinaryExpr)
		if !ok || be.Op != token.LOR {
			continue
		}
		l, ok1 := be.X.(*ast.BinaryExpr)
		r, ok2 := be.Y.(*ast.BinaryExpr)
		if !ok1 || !ok2 || l.Op != token.NEQ || r.Op != token.NEQ {
			continue
		}
		if mig.Text(l.X) == "fromTier" && mig.Text(r.X) == "toTier" && hasReturn(is.Body) {
			srcTier, dstTier = tierOf(mig.Text(l.Y)), tierOf(mig.Text(r.Y))
		}
	}
	if srcTier == "" || dstTier == "" {
		return fmt.Errorf("FindCandidates: direction guard `fromTier != TierX || toTier != TierY {return}` not found")
	}
	// FindCandidates selects by the METADATA tier of the source
	if len(fg.CallsNamed(fc, "GetFilesOlderThan")) != 1 ||
		!strings.Contains(mig.Text(fg.CallsNamed(fc, "GetFilesOlderThan")[0]), "fromTier") {
		return fmt.Errorf("FindCandidates: expected metadata.GetFilesOlderThan(ctx, fromTier, …)")
	}

	// ---- MigrateFile skeleton
	mf := mig.FuncDecl("Migrator", "MigrateFile")
	if mf == nil {
		return fmt.Errorf("Migrator.MigrateFile not found")
	}
	// backend variables: x := m.manager.GetBackendForTier(candidate.CurrentTier|TargetTier)
	tierVar := map[string]string{} // ident -> "src"/"dst"
	for _, st := range mf.Body.List {
		as, ok := st.(*ast.AssignStmt)
		if !ok || len(as.Lhs) != 1 || len(as.Rhs) != 1 {
			continue
		}
		c, ok := as.Rhs[0].(*ast.CallExpr)
		if !ok || fg.CalleeName(c) != "GetBackendForTier" || len(c.Args) != 1 {
			continue
		}
		switch mig.Text(c.Args[0]) {
		case "candidate.CurrentTier":
			tierVar[mig.Text(as.Lhs[0])] = "src"
		case "candidate.TargetTier":
			tierVar[mig.Text(as.Lhs[0])] = "dst"
		}
	}
	role := func(expr string) (string, error) {
		switch {
		case expr == "candidate.CurrentTier":
			return srcTier, nil
		case expr == "candidate.TargetTier":
			return dstTier, nil
		case tierVar[expr] == "src":
			return srcTier, nil
		case tierVar[expr] == "dst":
			return dstTier, nil
		}
		return "", fmt.Errorf("cannot resolve tier of %q", expr)
	}
	// Lean term for one mutating call
	actOf := func(c *ast.CallExpr) (string, string, error) {
		nm := fg.CalleeName(c)
		switch nm {
		case "RecordMigration":
			return "record", ".record", nil
		case "CompleteMigration":
			return "complete", ".complete", nil
		case "copyFileStreaming":
			if len(c.Args) < 3 {
				return "", "", fmt.Errorf("copyFileStreaming: arity")
			}
			s, err := role(mig.Text(c.Args[1]))
			if err != nil {
				return "", "", err
			}
			d, err := role(mig.Text(c.Args[2]))
			if err != nil {
				return "", "", err
			}
			return "copy", fmt.Sprintf(".copy .%s .%s", s, d), nil
		case "UpdateTier":
			if len(c.Args) != 3 || mig.Text(c.Args[1]) != "candidate.Path" {
				return "", "", fmt.Errorf("UpdateTier: expected (ctx, candidate.Path, <tier>)")
			}
			t, err := role(mig.Text(c.Args[2]))
			if err != nil {
				return "", "", err
			}
			return "meta", ".setMeta ." + t, nil
		case "Delete":
			sel, ok := c.Fun.(*ast.SelectorExpr)
			if !ok {
				return "", "", fmt.Errorf("Delete: not a method call")
			}
			t, err := role(mig.Text(sel.X))
			if err != nil {
				return "", "", err
			}
			if len(c.Args) != 2 || mig.Text(c.Args[1]) != "candidate.Path" {
				return "", "", fmt.Errorf("Delete: expected (ctx, candidate.Path)")
			}
			return "delete-" + t, ".del ." + t, nil
		}
		return "", "", fmt.Errorf("unexpected mutating call %s", nm)
	}
	mutCalls := func(n ast.Node) ([]*ast.CallExpr, error) {
		var cs []*ast.CallExpr
		var bad error
		ast.Inspect(n, func(m ast.Node) bool {
			c, ok := m.(*ast.CallExpr)
			if !ok {
				return true
			}
			nm := fg.CalleeName(c)
			if known[nm] {
				cs = append(cs, c)
			} else if suspicious[nm] {
				bad = fmt.Errorf("MigrateFile line %d: unmodelled mutating call %s", mig.Line(c), nm)
			}
			return true
		})
		return cs, bad
	}
	var steps []step
	addStep := func(c *ast.CallExpr, errBody *ast.BlockStmt) error {
		nm, act, err := actOf(c)
		if err != nil {
			return fmt.Errorf("line %d: %v", mig.Line(c), err)
		}
		s := step{Name: nm, Act: act, Line: mig.Line(c)}
		if errBody != nil && hasReturn(errBody) {
			s.Abort = true
			cl, err := mutCalls(errBody)
			if err != nil {
				return err
			}
			for _, cc := range cl {
				_, a, err := actOf(cc)
				if err != nil {
					return fmt.Errorf("line %d: %v", mig.Line(cc), err)
				}
				s.Cleanup = append(s.Cleanup, a)
			}
		} else if errBody != nil {
			cl, err := mutCalls(errBody)
			if err != nil {
				return err
			}
			if len(cl) != 0 {
				return fmt.Errorf("line %d: tolerated failure of %s runs further mutations (not modelled)", mig.Line(c), nm)
			}
		}
		steps = append(steps, s)
		return nil
	}
	list := mf.Body.List
	for i := 0; i < len(list); i++ {
		st := list[i]
		cs, err := mutCalls(st)
		if err != nil {
			return err
		}
		if len(cs) == 0 {
			continue
		}
		switch x := st.(type) {
		case *ast.AssignStmt:
			// v, err := call(...)   followed by   if <errvar> != nil { … }
			if len(cs) != 1 || len(x.Rhs) != 1 || x.Rhs[0] != ast.Expr(cs[0]) {
				return fmt.Errorf("line %d: unexpected assignment shape around a mutating call", mig.Line(st))
			}
			errVar := mig.Text(x.Lhs[len(x.Lhs)-1])
			var body *ast.BlockStmt
			if i+1 < len(list) {
				if is, ok := list[i+1].(*ast.IfStmt); ok && is.Init == nil && mig.Text(is.Cond) == errVar+" != nil" {
					body = is.Body
					if is.Else != nil {
						return fmt.Errorf("line %d: else branch after error check not expected", mig.Line(is))
					}
					i++
				}
			}
			if body == nil {
				return fmt.Errorf("line %d: result of %s is not error-checked by the next statement", mig.Line(st), fg.CalleeName(cs[0]))
			}
			if err := addStep(cs[0], body); err != nil {
				return err
			}
		case *ast.IfStmt:
			if x.Init != nil {
				// if err := call(...); err != nil { … } [else { no mutations }]
				as, ok := x.Init.(*ast.AssignStmt)
				if !ok || len(as.Rhs) != 1 {
					return fmt.Errorf("line %d: unexpected if-init", mig.Line(st))
				}
				c, ok := as.Rhs[0].(*ast.CallExpr)
				if !ok || !known[fg.CalleeName(c)] {
					return fmt.Errorf("line %d: if-init does not hold the mutating call", mig.Line(st))
				}
				if mig.Text(x.Cond) != mig.Text(as.Lhs[len(as.Lhs)-1])+" != nil" {
					return fmt.Errorf("line %d: if-init condition is not an error check", mig.Line(st))
				}
				if x.Else != nil {
					ec, err := mutCalls(x.Else)
					if err != nil {
						return err
					}
					if len(ec) != 0 {
						return fmt.Errorf("line %d: mutations in the success branch not modelled", mig.Line(st))
					}
				}
				if err := addStep(c, x.Body); err != nil {
					return err
				}
			} else {
				// if migrationID > 0 { metadata.CompleteMigration(...) }  — calls whose result is dropped
				if x.Else != nil || hasReturn(x.Body) {
					return fmt.Errorf("line %d: unexpected guarded mutation block", mig.Line(st))
				}
				for _, bs := range x.Body.List {
					es, ok := bs.(*ast.ExprStmt)
					if !ok {
						return fmt.Errorf("line %d: unexpected statement in guarded mutation block", mig.Line(bs))
					}
					c, ok := es.X.(*ast.CallExpr)
					if !ok || fg.CalleeName(c) != "CompleteMigration" || mig.Text(x.Cond) != "migrationID > 0" {
						return fmt.Errorf("line %d: only `if migrationID > 0 { CompleteMigration }` expected here", mig.Line(bs))
					}
					if err := addStep(c, nil); err != nil {
						return err
					}
				}
			}
		default:
			return fmt.Errorf("line %d: mutating call in unexpected statement kind %T", mig.Line(st), st)
		}
	}
	if len(steps) < 3 {
		return fmt.Errorf("MigrateFile: only %d mutation steps recognised", len(steps))
	}
	// the copy-failure clean-up is guarded by migrationID > 0 exactly like the final CompleteMigration;
	// the model gives `.complete` that guard (no effect when RecordMigration failed).

	// ---- copyFileStreaming: a source-read error must reach the destination writer and the caller.
	// Expected shape: goroutine A `err := src.ReadTo(..., pw); pw.CloseWithError(err); errCh <- err`,
	// goroutine B `err := dst.WriteReader(..., pr, ...); pr.CloseWithError(err); errCh <- err`, then a
	// loop receiving BOTH results and a non-nil return when either is non-nil. (A plain pw.Close()
	// would look like a clean EOF to WriteReader, which would promote a truncated object.)
	cs := mig.FuncDecl("Migrator", "copyFileStreaming")
	if cs == nil {
		return fmt.Errorf("Migrator.copyFileStreaming not found")
	}
	{
		srcOK, dstOK := false, false
		ast.Inspect(cs, func(n ast.Node) bool {
			fl, ok := n.(*ast.FuncLit)
			if !ok {
				return true
			}
			var errVar, side, pipeEnd string
			closed, sent := false, false
			for _, st := range fl.Body.List {
				switch x := st.(type) {
				case *ast.AssignStmt:
					if len(x.Lhs) == 1 && len(x.Rhs) == 1 {
						if c, ok := x.Rhs[0].(*ast.CallExpr); ok {
							switch fg.CalleeName(c) {
							case "ReadTo":
								if len(c.Args) == 3 {
									errVar, side, pipeEnd = mig.Text(x.Lhs[0]), "src", mig.Text(c.Args[2])
								}
							case "WriteReader":
								if len(c.Args) == 4 {
									errVar, side, pipeEnd = mig.Text(x.Lhs[0]), "dst", mig.Text(c.Args[2])
								}
							}
						}
					}
				case *ast.ExprStmt:
					if c, ok := x.X.(*ast.CallExpr); ok && fg.CalleeName(c) == "CloseWithError" && len(c.Args) == 1 {
						if sel, ok := c.Fun.(*ast.SelectorExpr); ok && mig.Text(sel.X) == pipeEnd && mig.Text(c.Args[0]) == errVar && errVar != "" {
							closed = true
						}
					}
				case *ast.SendStmt:
					if mig.Text(x.Value) == errVar && errVar != "" {
						sent = true
					}
				}
			}
			if closed && sent && side == "src" {
				srcOK = true
			}
			if closed && sent && side == "dst" {
				dstOK = true
			}
			return true
		})
		txt := mig.Text(cs)
		collects := strings.Contains(txt, "i < 2") && strings.Contains(txt, "<-errCh") &&
			strings.Contains(txt, "firstErr != nil") && strings.Contains(txt, "return fmt.Errorf(\"streaming copy failed")
		if !srcOK {
			return fmt.Errorf("copyFileStreaming: source-read error does not reach the writer (expected `err := src.ReadTo(..., pw); pw.CloseWithError(err); errCh <- err`)")
		}
		if !dstOK || !collects {
			return fmt.Errorf("copyFileStreaming: expected the WriteReader goroutine (pr.CloseWithError(err); errCh <- err) and a loop collecting both errors")
		}
	}

	// ---- ReconcileOrphanedFiles
	rf := mig.FuncDecl("Migrator", "ReconcileOrphanedFiles")
	if rf == nil {
		return fmt.Errorf("Migrator.ReconcileOrphanedFiles not found")
	}
	gr := fg.CallsNamed(rf, "GetRecentlyMigratedFiles")
	if len(gr) != 1 || len(gr[0].Args) != 3 {
		return fmt.Errorf("ReconcileOrphanedFiles: expected one GetRecentlyMigratedFiles(ctx, tier, window)")
	}
	recGuard := tierOf(mig.Text(gr[0].Args[1]))
	if recGuard == "" {
		return fmt.Errorf("ReconcileOrphanedFiles: guard tier %q", mig.Text(gr[0].Args[1]))
	}
	env := fg.NewConstEnv([]*fg.File{mig})
	var windowNs int64 = -1
	ast.Inspect(rf, func(n ast.Node) bool {
		vs, ok := n.(*ast.ValueSpec)
		if ok && len(vs.Names) == 1 && vs.Names[0].Name == mig.Text(gr[0].Args[2]) && len(vs.Values) == 1 {
			if v, err := env.EvalInt(vs.Values[0]); err == nil {
				windowNs = v
			}
		}
		return true
	})
	if windowNs <= 0 {
		return fmt.Errorf("ReconcileOrphanedFiles: window constant not evaluable")
	}
	recBackend := map[string]string{}
	ast.Inspect(rf, func(n ast.Node) bool {
		as, ok := n.(*ast.AssignStmt)
		if !ok || len(as.Lhs) != 1 || len(as.Rhs) != 1 {
			return true
		}
		if c, ok := as.Rhs[0].(*ast.CallExpr); ok && fg.CalleeName(c) == "GetBackendForTier" && len(c.Args) == 1 {
			recBackend[mig.Text(as.Lhs[0])] = tierOf(mig.Text(c.Args[0]))
		}
		return true
	})
	ex, dl := fg.CallsNamed(rf, "Exists"), fg.CallsNamed(rf, "Delete")
	if len(ex) != 1 || len(dl) != 1 || ex[0].Pos() > dl[0].Pos() {
		return fmt.Errorf("ReconcileOrphanedFiles: expected one Exists probe followed by one Delete")
	}
	recvTier := func(c *ast.CallExpr) string {
		if sel, ok := c.Fun.(*ast.SelectorExpr); ok {
			return recBackend[mig.Text(sel.X)]
		}
		return ""
	}
	recProbe, recDel := recvTier(ex[0]), recvTier(dl[0])
	if recProbe == "" || recDel == "" {
		return fmt.Errorf("ReconcileOrphanedFiles: cannot resolve the backend of Exists/Delete")
	}
	for nm := range suspicious {
		if len(fg.CallsNamed(rf, nm)) != 0 {
			return fmt.Errorf("ReconcileOrphanedFiles: unmodelled mutating call %s", nm)
		}
	}
	if len(fg.CallsNamed(rf, "UpdateTier")) != 0 {
		return fmt.Errorf("ReconcileOrphanedFiles: unmodelled UpdateTier")
	}

	// the reconcile loop must visit EVERY enumerated file: no `break`, and `return` only on ctx cancellation
	{
		var loop *ast.RangeStmt
		ast.Inspect(rf, func(n ast.Node) bool {
			if r, ok := n.(*ast.RangeStmt); ok && loop == nil && len(fg.CallsNamed(r, "Exists")) == 1 {
				loop = r
			}
			return true
		})
		if loop == nil || mig.Text(loop.X) != mig.Text(gr[0]) && !strings.Contains(mig.Text(rf), mig.Text(loop.X)+", err := m.manager.metadata.GetRecentlyMigratedFiles") {
			return fmt.Errorf("ReconcileOrphanedFiles: loop over the GetRecentlyMigratedFiles result not found")
		}
		var bad error
		var walk func(n ast.Node, inCtxDone bool)
		walk = func(n ast.Node, inCtxDone bool) {
			ast.Inspect(n, func(c ast.Node) bool {
				switch x := c.(type) {
				case *ast.FuncLit:
					return false
				case *ast.CommClause:
					done := x.Comm != nil && strings.Contains(mig.Text(x.Comm), "ctx.Done()")
					for _, b := range x.Body {
						walk(b, done)
					}
					return false
				case *ast.BranchStmt:
					if x.Tok == token.BREAK || x.Tok == token.GOTO {
						bad = fmt.Errorf("ReconcileOrphanedFiles line %d: the loop over migrated files ends early (%s); reconciliation must check every file in the window", mig.Line(x), x.Tok)
					}
				case *ast.ReturnStmt:
					if !inCtxDone {
						bad = fmt.Errorf("ReconcileOrphanedFiles line %d: the loop over migrated files returns early outside ctx cancellation", mig.Line(x))
					}
				}
				return true
			})
		}
		walk(loop.Body, false)
		if bad != nil {
			return bad
		}
	}

	// ---- tier cache: which MetadataStore mutators invalidate the per-measurement tier cache
	mdf, err := fg.ParseFile(repo, "internal/tiering/metadata.go")
	if err != nil {
		return err
	}
	var invalidators []string
	for _, mu := range [][2]string{{"RecordFile", "recordFile"}, {"UpdateTier", "updateTier"}, {"DeleteFile", "deleteFile"}} {
		fd := mdf.FuncDecl("MetadataStore", mu[0])
		if fd == nil {
			return fmt.Errorf("MetadataStore.%s not found", mu[0])
		}
		if len(fg.CallsNamed(fd, "invalidateTierCache")) > 0 {
			invalidators = append(invalidators, "."+mu[1])
		}
	}
	// any other method writing tier_files would be an unmodelled mutator
	for _, d := range mdf.AST.Decls {
		fd, ok := d.(*ast.FuncDecl)
		if !ok || fd.Body == nil || fd.Name.Name == "initSchema" {
			continue
		}
		txt := mdf.Text(fd.Body)
		if (strings.Contains(txt, "UPDATE tier_files") || strings.Contains(txt, "INSERT INTO tier_files") || strings.Contains(txt, "DELETE FROM tier_files")) &&
			fd.Name.Name != "RecordFile" && fd.Name.Name != "UpdateTier" && fd.Name.Name != "DeleteFile" {
			return fmt.Errorf("metadata.go: unmodelled tier_files mutator %s", fd.Name.Name)
		}
	}
	mdEnv := fg.NewConstEnv([]*fg.File{mdf})
	ttlExpr, ok := mdEnv.Exprs["tierCacheTTL"]
	if !ok {
		return fmt.Errorf("const tierCacheTTL not found")
	}
	ttlNs, err := mdEnv.EvalInt(ttlExpr)
	if err != nil || ttlNs <= 0 || ttlNs%1000000000 != 0 {
		return fmt.Errorf("tierCacheTTL not a whole number of seconds")
	}
	gt := mdf.FuncDecl("MetadataStore", "GetTiersForMeasurement")
	if gt == nil || !strings.Contains(mdf.Text(gt), "time.Now().Before(entry.expiresAt)") || !strings.Contains(mdf.Text(gt), "time.Now().Add(tierCacheTTL)") {
		return fmt.Errorf("GetTiersForMeasurement: cache hit/fill shape changed")
	}

	// ---- RunMigrationCycle phase order
	rc := man.FuncDecl("Manager", "RunMigrationCycle")
	if rc == nil {
		return fmt.Errorf("Manager.RunMigrationCycle not found")
	}
	type ph struct {
		name string
		pos  token.Pos
	}
	var phs []ph
	for nm, lab := range map[string]string{"ScanAndRegisterFiles": "scan", "MigrateTier": "migrate", "ReconcileOrphanedFiles": "reconcile"} {
		cs := fg.CallsNamed(rc, nm)
		if len(cs) != 1 {
			return fmt.Errorf("RunMigrationCycle: expected exactly one call of %s", nm)
		}
		phs = append(phs, ph{lab, cs[0].Pos()})
		if nm == "MigrateTier" {
			if len(cs[0].Args) != 3 || tierOf(man.Text(cs[0].Args[1])) != srcTier || tierOf(man.Text(cs[0].Args[2])) != dstTier {
				return fmt.Errorf("RunMigrationCycle: MigrateTier direction differs from FindCandidates' guard")
			}
		}
	}
	for i := 0; i < len(phs); i++ {
		for j := i + 1; j < len(phs); j++ {
			if phs[j].pos < phs[i].pos {
				phs[i], phs[j] = phs[j], phs[i]
			}
		}
	}
	// ScanAndRegisterFiles registers what the HOT backend lists with Tier: TierHot
	sf := man.FuncDecl("Manager", "ScanAndRegisterFiles")
	if sf == nil {
		return fmt.Errorf("Manager.ScanAndRegisterFiles not found")
	}
	sft := man.Text(sf)
	if !strings.Contains(sft, "m.hotBackend.(storage.ObjectLister)") || len(fg.CallsNamed(sf, "RecordFile")) != 1 {
		return fmt.Errorf("ScanAndRegisterFiles: expected hotBackend lister + one RecordFile")
	}
	// does the scan skip objects whose path already has a tier_files row? (it does not today: every
	// listed object is upserted, which re-registers an orphaned hot copy as hot and gets it re-migrated)
	scanSkips := false
	{
		var loop *ast.RangeStmt
		ast.Inspect(sf, func(n ast.Node) bool {
			if r, ok := n.(*ast.RangeStmt); ok && loop == nil && len(fg.CallsNamed(r, "RecordFile")) == 1 {
				loop = r
			}
			return true
		})
		if loop == nil {
			return fmt.Errorf("ScanAndRegisterFiles: loop around RecordFile not found")
		}
		recPos := fg.CallsNamed(loop, "RecordFile")[0].Pos()
		for _, st := range loop.Body.List {
			if st.Pos() > recPos {
				break
			}
			is, ok := st.(*ast.IfStmt)
			if !ok {
				continue
			}
			txt := man.Text(is)
			if !strings.Contains(txt, "m.metadata.") {
				continue
			}
			if len(fg.CallsNamed(is, "RecordFile")) == 1 {
				continue // the registration itself
			}
			hasContinue := false
			ast.Inspect(is.Body, func(n ast.Node) bool {
				if b, ok := n.(*ast.BranchStmt); ok && b.Tok == token.CONTINUE {
					hasContinue = true
				}
				return true
			})
			if hasContinue && len(fg.CallsNamed(is, "GetFile")) == 1 && strings.Contains(txt, "existing != nil") {
				scanSkips = true
			} else {
				return fmt.Errorf("ScanAndRegisterFiles line %d: unmodelled metadata-dependent branch before RecordFile", man.Line(is))
			}
		}
	}
	scanTier := ""
	ast.Inspect(sf, func(n ast.Node) bool {
		kv, ok := n.(*ast.KeyValueExpr)
		if ok && man.Text(kv.Key) == "Tier" {
			scanTier = tierOf(man.Text(kv.Value))
		}
		return true
	})
	if scanTier == "" {
		return fmt.Errorf("ScanAndRegisterFiles: Tier of the registered FileMetadata not found")
	}

	// ---- query side: buildMultiTierReadParquet
	bq := qf.FuncDecl("QueryHandler", "buildMultiTierReadParquet")
	if bq == nil {
		return fmt.Errorf("QueryHandler.buildMultiTierReadParquet not found")
	}
	if len(fg.CallsNamed(bq, "GetTiersForMeasurement")) != 1 {
		return fmt.Errorf("buildMultiTierReadParquet: expected one GetTiersForMeasurement")
	}
	type qg struct{ key, globs string }
	var qgs []qg
	fallback := ""
	coldVar := map[string]string{}
	ast.Inspect(bq, func(n ast.Node) bool {
		as, ok := n.(*ast.AssignStmt)
		if ok && len(as.Lhs) == 1 && len(as.Rhs) == 1 {
			if c, ok := as.Rhs[0].(*ast.CallExpr); ok && fg.CalleeName(c) == "GetBackendForTier" && len(c.Args) == 1 {
				coldVar[qf.Text(as.Lhs[0])] = tierOf(qf.Text(c.Args[0]))
			}
		}
		return true
	})
	var qerr error
	for _, st := range bq.Body.List {
		is, ok := st.(*ast.IfStmt)
		if !ok {
			continue
		}
		cond := qf.Text(is.Cond)
		if cond == "len(actualTiers) == 0" {
			if !hasReturn(is.Body) || !strings.Contains(qf.Text(is.Body), "h.getStoragePath(database, measurement)") {
				qerr = fmt.Errorf("buildMultiTierReadParquet: empty-metadata fallback is not the primary (hot) storage path")
			}
			fallback = "hot"
			continue
		}
		if strings.HasPrefix(cond, "actualTiers[") && strings.HasSuffix(cond, "]") {
			key := tierOf(strings.TrimSuffix(strings.TrimPrefix(cond, "actualTiers["), "]"))
			if key == "" {
				qerr = fmt.Errorf("buildMultiTierReadParquet: unknown tier key in %q", cond)
				continue
			}
			body := qf.Text(is.Body)
			globs := ""
			switch {
			case strings.Contains(body, "storage.GetStoragePath("):
				cs := fg.CallsNamed(is.Body, "GetStoragePath")
				if len(cs) == 1 && len(cs[0].Args) == 3 {
					globs = coldVar[qf.Text(cs[0].Args[0])]
				}
			case strings.Contains(body, "h.getStoragePath(database, measurement)"):
				globs = "hot" // h.storage is the primary (hot) backend
			}
			if globs == "" || strings.Count(body, "paths = append(paths,") != 1 {
				qerr = fmt.Errorf("buildMultiTierReadParquet: cannot resolve which tier %q adds to the glob list", cond)
				continue
			}
			qgs = append(qgs, qg{key, globs})
		}
	}
	if qerr != nil {
		return qerr
	}
	if fallback == "" || len(qgs) == 0 {
		return fmt.Errorf("buildMultiTierReadParquet: tier guards / fallback not found")
	}

	// ---- emit
	L := &out.Lean
	fmt.Fprintf(L, "import Arc.Model.C12.Types\nnamespace Arc.Generated.C12\nopen Arc.C12\n\n")
	fmt.Fprintf(L, "/-- the only direction FindCandidates/MigrateTier support (source tier is selected by METADATA tier) -/\n")
	fmt.Fprintf(L, "def srcTier : Tier := .%s\ndef dstTier : Tier := .%s\n\n", srcTier, dstTier)
	fmt.Fprintf(L, "/-- storage/metadata mutations of Migrator.MigrateFile in source order, with their error policy -/\n")
	fmt.Fprintf(L, "def migrateSteps : List Step := [\n")
	var js []map[string]any
	for i, s := range steps {
		of := ".tolerate"
		if s.Abort {
			of = ".abort [" + strings.Join(s.Cleanup, ", ") + "]"
		}
		s.OnFail = of
		sep := ","
		if i == len(steps)-1 {
			sep = ""
		}
		fmt.Fprintf(L, "  ⟨%s, %s, %s⟩%s  -- migrator.go:%d\n", fg.LeanStr(s.Name), s.Act, of, sep, s.Line)
		js = append(js, map[string]any{"name": s.Name, "act": s.Act, "on_fail": of, "line": s.Line})
	}
	fmt.Fprintf(L, "]\n\n")
	fmt.Fprintf(L, "/-- copyFileStreaming: a source-read error closes the pipe WITH the error and is returned to MigrateFile -/\ndef copySrcErrPropagates : Bool := true\n\n")
	fmt.Fprintf(L, "/-- ReconcileOrphanedFiles: metadata tier it enumerates, tier it probes with Exists, tier it deletes from -/\n")
	fmt.Fprintf(L, "def recGuard : Tier := .%s\ndef recProbe : Tier := .%s\ndef recDelete : Tier := .%s\n", recGuard, recProbe, recDel)
	fmt.Fprintf(L, "def reconcileWindowHours : Nat := %d\n\n", windowNs/3600000000000)
	fmt.Fprintf(L, "/-- … and its loop visits every enumerated file (no early break/return except ctx cancellation) -/\ndef recLoopExhaustive : Bool := true\n\n")
	fmt.Fprintf(L, "/-- MetadataStore mutators of tier_files that call invalidateTierCache; TTL of GetTiersForMeasurement's cache -/\n")
	fmt.Fprintf(L, "def cacheInvalidatedBy : List Mutator := [%s]\ndef tierCacheTTLSeconds : Nat := %d\n\n", strings.Join(invalidators, ", "), ttlNs/1000000000)
	fmt.Fprintf(L, "/-- ScanAndRegisterFiles upserts every object listed in the hot backend with this tier -/\ndef scanTier : Tier := .%s\n/-- … unless the path already has a tier_files row -/\ndef scanSkipsRegistered : Bool := %v\n\n", scanTier, scanSkips)
	var names []string
	for _, p := range phs {
		names = append(names, "."+p.name)
	}
	fmt.Fprintf(L, "/-- phase order of Manager.RunMigrationCycle -/\ndef cycleOrder : List Phase := [%s]\n\n", strings.Join(names, ", "))
	fmt.Fprintf(L, "/-- buildMultiTierReadParquet: (tier key present in tier_files for the measurement, tier whose glob is added) -/\n")
	var qs []string
	for _, q := range qgs {
		qs = append(qs, fmt.Sprintf("(.%s, .%s)", q.key, q.globs))
	}
	fmt.Fprintf(L, "def queryGlobs : List (Tier × Tier) := [%s]\n", strings.Join(qs, ", "))
	fmt.Fprintf(L, "/-- … and the tier globbed when the measurement has no tier_files row at all -/\ndef queryFallback : Tier := .%s\n", fallback)
	fmt.Fprintf(L, "end Arc.Generated.C12\n")

	out.JSON["migrate_steps"] = js
	out.JSON["direction"] = []string{srcTier, dstTier}
	out.JSON["reconcile"] = map[string]any{"guard": recGuard, "probe": recProbe, "delete": recDel, "window_hours": windowNs / 3600000000000}
	out.JSON["cycle_order"] = func() []string {
		var r []string
		for _, p := range phs {
			r = append(r, p.name)
		}
		return r
	}()
	out.JSON["scan_tier"] = scanTier
	out.JSON["cache_invalidated_by"] = invalidators
	out.JSON["scan_skips_registered"] = scanSkips
	out.JSON["copy_src_err_propagates"] = true
	return nil
}

func tierOf(s string) string {
	s = strings.TrimPrefix(s, "tiering.")
	switch s {
	case "TierHot":
		return "hot"
	case "TierCold":
		return "cold"
	}
	return ""
}

func hasReturn(b *ast.BlockStmt) bool {
	found := false
	ast.Inspect(b, func(n ast.Node) bool {
		if _, ok := n.(*ast.FuncLit); ok {
			return false
		}
		if _, ok := n.(*ast.ReturnStmt); ok {
			found = true
		}
		return true
	})
	return found
}
