package main

// C14 fact extractor. Regenerates from the CURRENT sources (internal/api/query.go, query_arrow.go,
// regex_rewriter.go, like_optimizer.go, internal/sql/mask.go):
//   - the file-reading table-function denylist (names + the regex frame around them),
//   - every regex literal the validation / extraction / rewrite path uses,
//   - skipPrefixes, the FROM-clause terminator keywords, the invalid-identifier sentinel,
//   - the ORDER of the validation steps inside ValidateSQLRequest, of the normalisation steps inside
//     checkQueryPermissions / convertSQLToStoragePaths / convertSQLToStoragePathsWithHeaderDB, and of the
//     gate calls at each endpoint (executeQuery, executeQueryArrow, estimateQuery, queryMeasurement),
//   - the structural facts the subset theorem depends on: the read_parquet short-circuit literal, the
//     `with ` gate around extractCTENames in the header path, the presence of the single-table fast path,
//     the blank sets of isDotOrCallAt / isWhitespace, the backslash-escape branch of the masker,
//   - the trigger substrings of the four text pre-passes.
// Every expected shape that is missing is a SHAPE-MISMATCH (exit 2).

import (
	"fmt"
	"go/ast"
	"go/token"
	"sort"
	"strconv"
	"strings"

	"verif/factgen/fg"
)

func main() { fg.Main("C14", c14) }

// constant string expressions: literals, +, strings.Join([]string{...}, sep)
func evalStr(e ast.Expr) (string, error) {
	switch v := e.(type) {
	case *ast.BasicLit:
		if v.Kind == token.STRING {
			return strconv.Unquote(v.Value)
		}
	case *ast.ParenExpr:
		return evalStr(v.X)
	case *ast.BinaryExpr:
		if v.Op == token.ADD {
			a, err := evalStr(v.X)
			if err != nil {
				return "", err
			}
			b, err := evalStr(v.Y)
			if err != nil {
				return "", err
			}
			return a + b, nil
		}
	case *ast.CallExpr:
		if fg.CalleeName(v) == "Join" {
			if len(v.Args) == 2 {
				xs, err := strList(v.Args[0])
				if err != nil {
					return "", err
				}
				sep, err := evalStr(v.Args[1])
				if err != nil {
					return "", err
				}
				return strings.Join(xs, sep), nil
			}
		}
	}
	return "", fmt.Errorf("not a constant string expression: %T", e)
}

func strList(e ast.Expr) ([]string, error) {
	cl, ok := e.(*ast.CompositeLit)
	if !ok {
		return nil, fmt.Errorf("not a composite literal: %T", e)
	}
	var out []string
	for _, el := range cl.Elts {
		s, err := evalStr(el)
		if err != nil {
			return nil, err
		}
		out = append(out, s)
	}
	return out, nil
}

// package-level `name = <expr>` (var or const)
func pkgValue(files []*fg.File, name string) (ast.Expr, bool) {
	for _, f := range files {
		for _, d := range f.AST.Decls {
			gd, ok := d.(*ast.GenDecl)
			if !ok || (gd.Tok != token.VAR && gd.Tok != token.CONST) {
				continue
			}
			for _, s := range gd.Specs {
				vs := s.(*ast.ValueSpec)
				for i, n := range vs.Names {
					if n.Name == name && i < len(vs.Values) {
						return vs.Values[i], true
					}
				}
			}
		}
	}
	return nil, false
}

func regexLiteral(files []*fg.File, name string) (string, error) {
	e, ok := pkgValue(files, name)
	if !ok {
		return "", fmt.Errorf("package variable %s not found", name)
	}
	c, ok := e.(*ast.CallExpr)
	if !ok || fg.CalleeName(c) != "MustCompile" || len(c.Args) != 1 {
		return "", fmt.Errorf("%s is not regexp.MustCompile(<const string>)", name)
	}
	return evalStr(c.Args[0])
}

// ordered list of the watched callee names inside a function body (every occurrence, source order)
func callOrder(fd *ast.FuncDecl, watch map[string]bool) []string {
	type hit struct {
		pos  token.Pos
		name string
	}
	var hs []hit
	ast.Inspect(fd.Body, func(n ast.Node) bool {
		if c, ok := n.(*ast.CallExpr); ok {
			nm := fg.CalleeName(c)
			if watch[nm] {
				hs = append(hs, hit{c.Pos(), nm})
			}
		}
		return true
	})
	sort.Slice(hs, func(i, j int) bool { return hs[i].pos < hs[j].pos })
	out := make([]string, len(hs))
	for i, h := range hs {
		out[i] = h.name
	}
	return out
}

func firstOrder(xs []string) []string {
	seen := map[string]bool{}
	var out []string
	for _, x := range xs {
		if !seen[x] {
			seen[x] = true
			out = append(out, x)
		}
	}
	return out
}

func set(xs ...string) map[string]bool {
	m := map[string]bool{}
	for _, x := range xs {
		m[x] = true
	}
	return m
}

func leanList(xs []string) string {
	p := make([]string, len(xs))
	for i, x := range xs {
		p[i] = fg.LeanStr(x)
	}
	return "[" + strings.Join(p, ", ") + "]"
}

// string literals passed as 2nd argument to strings.Contains(...) inside a function
func containsLiterals(fd *ast.FuncDecl) []string {
	var out []string
	for _, c := range fg.CallsNamed(fd, "Contains") {
		if len(c.Args) == 2 {
			if s, err := evalStr(c.Args[1]); err == nil {
				out = append(out, s)
			}
		}
	}
	return out
}

func c14(repo string, out *fg.Out) error {
	api, err := fg.ParseDir(repo, "internal/api")
	if err != nil {
		return err
	}
	mask, err := fg.ParseFile(repo, "internal/sql/mask.go")
	if err != nil {
		return err
	}
	L := &out.Lean
	fmt.Fprintf(L, "namespace Arc.Generated.C14\n\n")

	// ---- denylist
	e, ok := pkgValue(api, "ioTableFunctionPattern")
	if !ok {
		return fmt.Errorf("ioTableFunctionPattern not found")
	}
	call, ok := e.(*ast.CallExpr)
	if !ok || fg.CalleeName(call) != "MustCompile" || len(call.Args) != 1 {
		return fmt.Errorf("ioTableFunctionPattern is not regexp.MustCompile(...)")
	}
	// expected frame: `(?i)\b(` + strings.Join([]string{…}, "|") + `)\s*\(`
	b1, ok := call.Args[0].(*ast.BinaryExpr)
	if !ok {
		return fmt.Errorf("ioTableFunctionPattern: expected prefix + Join + suffix")
	}
	b2, ok := b1.X.(*ast.BinaryExpr)
	if !ok {
		return fmt.Errorf("ioTableFunctionPattern: expected prefix + Join + suffix")
	}
	prefix, err1 := evalStr(b2.X)
	suffix, err2 := evalStr(b1.Y)
	join, ok := b2.Y.(*ast.CallExpr)
	if err1 != nil || err2 != nil || !ok || len(join.Args) != 2 {
		return fmt.Errorf("ioTableFunctionPattern: expected prefix + strings.Join(list, sep) + suffix")
	}
	names, err := strList(join.Args[0])
	if err != nil {
		return err
	}
	sep, err := evalStr(join.Args[1])
	if err != nil {
		return err
	}
	if len(names) == 0 {
		return fmt.Errorf("empty denylist")
	}
	fmt.Fprintf(L, "def denylist : List String := %s\n", leanList(names))
	fmt.Fprintf(L, "def denylistPrefix : String := %s\ndef denylistSep : String := %s\ndef denylistSuffix : String := %s\n\n", fg.LeanStr(prefix), fg.LeanStr(sep), fg.LeanStr(suffix))
	out.JSON["denylist"] = names

	// ---- regex literals
	regs := map[string]string{}
	for _, n := range []string{"patternDBTable", "patternSimpleTable", "patternJoinDBTable", "patternJoinSimpleTable", "patternCTENames",
		"showDatabasesPattern", "showTablesPattern", "tablePosPlaceholder", "tablePosTokenPattern", "validIdentifierPattern", "dangerousSQLPattern"} {
		s, err := regexLiteral(api, n)
		if err != nil {
			return err
		}
		regs[n] = s
		fmt.Fprintf(L, "def %s : String := %s\n", n, fg.LeanStr(s))
	}
	out.JSON["regexes"] = regs
	fmt.Fprintln(L)

	// ---- skipPrefixes, terminators, sentinel
	sp, ok := pkgValue(api, "skipPrefixes")
	if !ok {
		return fmt.Errorf("skipPrefixes not found")
	}
	skip, err := strList(sp)
	if err != nil {
		return err
	}
	fmt.Fprintf(L, "def skipPrefixes : List String := %s\n", leanList(skip))
	_, term := fg.FindFunc(api, "", "fromClauseTerminator")
	if term == nil {
		return fmt.Errorf("fromClauseTerminator not found")
	}
	var terms []string
	ast.Inspect(term.Body, func(n ast.Node) bool {
		if cc, ok := n.(*ast.CaseClause); ok {
			for _, x := range cc.List {
				if s, err := evalStr(x); err == nil {
					terms = append(terms, s)
				}
			}
		}
		return true
	})
	if len(terms) == 0 {
		return fmt.Errorf("fromClauseTerminator: no case strings")
	}
	fmt.Fprintf(L, "def fromClauseTerminators : List String := %s\n", leanList(terms))
	for _, fn := range []string{"tableRefStatementKind", "statementStartsAfter"} {
		_, fd := fg.FindFunc(api, "", fn)
		if fd == nil {
			return fmt.Errorf("%s not found", fn)
		}
		var ws []string
		ast.Inspect(fd.Body, func(n ast.Node) bool {
			if cc, ok := n.(*ast.CaseClause); ok {
				for _, x := range cc.List {
					if s, err := evalStr(x); err == nil {
						ws = append(ws, s)
					}
				}
			}
			return true
		})
		if len(ws) == 0 {
			return fmt.Errorf("%s: no case strings", fn)
		}
		fmt.Fprintf(L, "def %s : List String := %s\n", fn, leanList(ws))
	}
	se, ok := pkgValue(api, "arcInvalidIdentifierSentinel")
	if !ok {
		return fmt.Errorf("arcInvalidIdentifierSentinel not found")
	}
	sent, err := evalStr(se)
	if err != nil {
		return err
	}
	fmt.Fprintf(L, "def sentinel : String := %s\n\n", fg.LeanStr(sent))

	// ---- order of steps
	order := func(recv, fn string, watch map[string]bool, first bool) ([]string, *ast.FuncDecl, error) {
		_, fd := fg.FindFunc(api, recv, fn)
		if fd == nil {
			return nil, nil, fmt.Errorf("function %s not found", fn)
		}
		xs := callOrder(fd, watch)
		if first {
			xs = firstOrder(xs)
		}
		if len(xs) == 0 {
			return nil, nil, fmt.Errorf("%s: none of the expected calls found", fn)
		}
		return xs, fd, nil
	}
	vsteps, _, err := order("", "ValidateSQLRequest", set("TrimSpace", "backticksToDoubleQuotes", "scanSQLFeatures", "MaskStringLiterals", "stripSQLComments",
		"TrimRight", "MatchString", "ioDenylistNormalise", "FindStringSubmatch", "stringLiteralInTablePosition", "invalidQuotedIdentifierInTablePosition"), false)
	if err != nil {
		return err
	}
	fmt.Fprintf(L, "def validateSteps : List String := %s\n", leanList(vsteps))
	psteps, _, err := order("QueryHandler", "checkQueryPermissions", set("scanSQLFeatures", "MaskStringLiterals", "MaskFromKeywordsInFunctionBodies", "stripSQLComments",
		"extractTableReferences", "Get", "CheckPermissionsBatch"), true)
	if err != nil {
		return err
	}
	fmt.Fprintf(L, "def permissionSteps : List String := %s\n", leanList(psteps))
	rw := set("RewriteRegexToStringFuncs", "rewriteTimeBucket", "rewriteDateTrunc", "OptimizeLikePatterns", "scanSQLFeatures", "MaskStringLiterals",
		"MaskFromKeywordsInFunctionBodies", "stripSQLComments", "extractCTENames", "ReplaceAllStringFunc", "replaceTableRefs", "UnmaskFromKeywordsInFunctionBodies",
		"UnmaskStringLiterals", "convertSingleTableQuery", "isSingleTableQuery")
	rsteps, _, err := order("QueryHandler", "convertSQLToStoragePaths", rw, true)
	if err != nil {
		return err
	}
	fmt.Fprintf(L, "def rewriteSteps : List String := %s\n", leanList(rsteps))
	hsteps, hfd, err := order("QueryHandler", "convertSQLToStoragePathsWithHeaderDB", rw, true)
	if err != nil {
		return err
	}
	fmt.Fprintf(L, "def rewriteHeaderSteps : List String := %s\n", leanList(hsteps))
	gates := set("ValidateSQLRequest", "validateHeaderDatabase", "hasCrossDatabaseSyntax", "normalizeSQLForShow", "checkMeasurementPermission", "checkQueryPermissions",
		"getTransformedSQL", "getTransformedSQLForParallel", "validateIdentifier", "validateWhereClauseQuery", "validateOrderByClause")
	eps := map[string][]string{}
	for _, ep := range []string{"executeQuery", "executeQueryArrow", "estimateQuery", "queryMeasurement"} {
		xs, _, err := order("QueryHandler", ep, gates, true)
		if err != nil {
			return err
		}
		eps[ep] = xs
		fmt.Fprintf(L, "def steps_%s : List String := %s\n", ep, leanList(xs))
	}
	out.JSON["endpoint_steps"] = eps
	fmt.Fprintln(L)

	// ---- structural facts
	_, gt := fg.FindFunc(api, "QueryHandler", "getTransformedSQL")
	_, gtp := fg.FindFunc(api, "QueryHandler", "getTransformedSQLForParallel")
	if gt == nil || gtp == nil {
		return fmt.Errorf("getTransformedSQL[ForParallel] not found")
	}
	sc1, sc2 := containsLiterals(gt), containsLiterals(gtp)
	if len(sc1) < 3 || len(sc2) < 3 || sc1[0] != sc2[0] {
		return fmt.Errorf("getTransformedSQL: expected the short-circuit strings.Contains(sqlLower, <lit>) in both variants, got %v / %v", sc1, sc2)
	}
	fmt.Fprintf(L, "def shortCircuitLiteral : String := %s\n", fg.LeanStr(sc1[0]))
	fmt.Fprintf(L, "def rewriteNeeds : List String := %s\n", leanList(sc1[1:3]))
	// skip-prefix test runs on the RESOLVED name (placeholder resolution before shouldSkipTableConversion)
	// in every simple-table handler of both rewrite functions and in both loops of the extractor
	var skipOnResolved []bool
	for _, fn := range []string{"convertSQLToStoragePaths", "convertSQLToStoragePathsWithHeaderDB"} {
		ff, fd := fg.FindFunc(api, "QueryHandler", fn)
		if fd == nil {
			return fmt.Errorf("%s not found", fn)
		}
		n := 0
		ast.Inspect(fd.Body, func(x ast.Node) bool {
			fl, ok := x.(*ast.FuncLit)
			if !ok {
				return true
			}
			skips := fg.CallsNamed(fl, "shouldSkipTableConversion")
			if len(skips) == 0 {
				return true
			}
			n++
			res := fg.CallsNamed(fl, "resolveIdent")
			okk := len(skips) == 1 && len(res) >= 1 && len(skips[0].Args) == 1 &&
				ff.Text(skips[0].Args[0]) == "strings.ToLower(resolved)" && res[0].Pos() < skips[0].Pos()
			skipOnResolved = append(skipOnResolved, okk)
			return false
		})
		if n != 2 {
			return fmt.Errorf("%s: expected 2 simple-table handlers calling shouldSkipTableConversion, found %d", fn, n)
		}
	}
	ef, efd := fg.FindFunc(api, "", "extractTableReferences")
	if efd == nil {
		return fmt.Errorf("extractTableReferences not found")
	}
	etxt := ef.Text(efd)
	eskips := fg.CallsNamed(efd, "shouldSkipTableConversion")
	if len(eskips) != 2 {
		return fmt.Errorf("extractTableReferences: expected 2 shouldSkipTableConversion calls, found %d", len(eskips))
	}
	for _, c := range eskips {
		skipOnResolved = append(skipOnResolved, len(c.Args) == 1 && ef.Text(c.Args[0]) == "table" &&
			strings.Count(etxt, "tableName := resolve(") == 2 && strings.Count(etxt, "table := strings.ToLower(tableName)") == 2)
	}
	bs2 := make([]string, len(skipOnResolved))
	for i, b := range skipOnResolved {
		bs2[i] = fmt.Sprint(b)
	}
	fmt.Fprintf(L, "def skipTestOnResolvedName : List Bool := [%s]\n", strings.Join(bs2, ", "))
	// ---- repairs of round 2 (each is a structural fact; a regression flips it and breaks C14_repairs_in_place)
	// (a) the `seen` key of bare references: "default." + tableName (case-exact) vs + table (lower-cased)
	foldsCase := strings.Contains(etxt, `key := "default." + table`+"\n")
	exactCase := strings.Count(etxt, `key := "default." + tableName`) == 2
	if foldsCase == exactCase {
		return fmt.Errorf("extractTableReferences: cannot classify the seen key of bare references")
	}
	fmt.Fprintf(L, "def seenKeyFoldsCase : Bool := %v\n", foldsCase)
	// (b) isSingleTableQuery guards the fast path with the extractor's own regex + CTE names
	_, ist := fg.FindFunc(api, "", "isSingleTableQuery")
	if ist == nil {
		return fmt.Errorf("isSingleTableQuery not found")
	}
	fmt.Fprintf(L, "def fastPathGuarded : Bool := %v\n", len(fg.CallsNamed(ist, "FindAllStringIndex")) == 1 && len(fg.CallsNamed(ist, "extractCTENames")) == 1)
	// (c) masker: comments are skipped; unmask is single-pass; FROM-mask prefix is fresh; dollar tags accept >= 0x80
	mfd0 := mask.FuncDecl("", "MaskStringLiterals")
	if mfd0 == nil {
		return fmt.Errorf("MaskStringLiterals not found")
	}
	mtxt := mask.Text(mfd0)
	fmt.Fprintf(L, "def maskerSkipsComments : Bool := %v\n", strings.Contains(mtxt, "sql[i+1] == '-'") && strings.Contains(mtxt, "depth"))
	ufd := mask.FuncDecl("", "UnmaskStringLiterals")
	if ufd == nil {
		return fmt.Errorf("UnmaskStringLiterals not found")
	}
	fmt.Fprintf(L, "def unmaskSinglePass : Bool := %v\n", len(fg.CallsNamed(ufd, "NewReplacer")) == 1 && len(fg.CallsNamed(ufd, "Replace")) == 1 && len(fg.CallsNamed(ufd, "ReplaceAll")) == 0)
	ffd := mask.FuncDecl("", "MaskFromKeywordsInFunctionBodies")
	if ffd == nil {
		return fmt.Errorf("MaskFromKeywordsInFunctionBodies not found")
	}
	ftxt := mask.Text(ffd)
	fmt.Fprintf(L, "def fromMaskPrefixFresh : Bool := %v\n", strings.Contains(ftxt, "for strings.Contains(sql, prefix)"))
	dfd := mask.FuncDecl("", "dollarQuoteTag")
	if dfd == nil {
		return fmt.Errorf("dollarQuoteTag not found")
	}
	fmt.Fprintf(L, "def dollarTagNonAscii : Bool := %v\n", strings.Contains(mask.Text(dfd), "c >= 0x80"))
	// (d) ioDenylistNormalise masks before exposing identifier names (no quote stripping on the raw text)
	_, ion := fg.FindFunc(api, "", "ioDenylistNormalise")
	if ion == nil {
		return fmt.Errorf("ioDenylistNormalise not found")
	}
	fmt.Fprintf(L, "def denylistMasksFirst : Bool := %v\n", len(fg.CallsNamed(ion, "NewReplacer")) == 0 && len(fg.CallsNamed(ion, "IdentifierNames")) == 1)
	// transform-cache key: `cacheKey := headerDB + <sep> + sql`, assigned exactly once (unconditionally)
	var keyAssigns []ast.Expr
	ast.Inspect(gt.Body, func(n ast.Node) bool {
		if as, ok := n.(*ast.AssignStmt); ok && len(as.Lhs) == 1 && len(as.Rhs) == 1 {
			if id, ok := as.Lhs[0].(*ast.Ident); ok && id.Name == "cacheKey" {
				keyAssigns = append(keyAssigns, as.Rhs[0])
			}
		}
		return true
	})
	if len(keyAssigns) != 1 {
		return fmt.Errorf("getTransformedSQL: expected exactly one assignment to cacheKey, found %d", len(keyAssigns))
	}
	kb, ok := keyAssigns[0].(*ast.BinaryExpr)
	if !ok {
		return fmt.Errorf("getTransformedSQL: cacheKey is not headerDB + sep + sql")
	}
	kb2, ok2 := kb.X.(*ast.BinaryExpr)
	kl, _ := kb.Y.(*ast.Ident)
	if !ok2 || kl == nil || kl.Name != "sql" {
		return fmt.Errorf("getTransformedSQL: cacheKey is not headerDB + sep + sql")
	}
	kh, _ := kb2.X.(*ast.Ident)
	ksep, kerr := evalStr(kb2.Y)
	if kh == nil || kh.Name != "headerDB" || kerr != nil || len(ksep) != 1 {
		return fmt.Errorf("getTransformedSQL: cacheKey is not headerDB + <one-byte separator> + sql")
	}
	fmt.Fprintf(L, "def cacheKeySepByte : Nat := %d\n", ksep[0])
	// `with ` gate: extractCTENames inside `if strings.Contains(sqlLower, "with ")` in the header path
	gated, gateLit := false, ""
	ast.Inspect(hfd.Body, func(n ast.Node) bool {
		ifs, ok := n.(*ast.IfStmt)
		if !ok {
			return true
		}
		c, ok := ifs.Cond.(*ast.CallExpr)
		if !ok || fg.CalleeName(c) != "Contains" || len(c.Args) != 2 {
			return true
		}
		if len(fg.CallsNamed(ifs.Body, "extractCTENames")) > 0 {
			if s, err := evalStr(c.Args[1]); err == nil {
				gated, gateLit = true, s
			}
		}
		return true
	})
	fmt.Fprintf(L, "def headerCteGated : Bool := %v\ndef headerCteGateLiteral : String := %s\n", gated, fg.LeanStr(gateLit))
	fast := len(fg.CallsNamed(hfd, "convertSingleTableQuery")) > 0
	fmt.Fprintf(L, "def headerFastPath : Bool := %v\n", fast)
	_, cst := fg.FindFunc(api, "QueryHandler", "convertSingleTableQuery")
	fastLit := ""
	if cst != nil {
		for _, c := range fg.CallsNamed(cst, "Index") {
			if len(c.Args) == 2 {
				fastLit, _ = evalStr(c.Args[1])
			}
		}
	}
	if fast && fastLit == "" {
		return fmt.Errorf("convertSingleTableQuery: expected strings.Index(sqlLower, <lit>)")
	}
	fmt.Fprintf(L, "def fastPathNeedle : String := %s\n", fg.LeanStr(fastLit))
	// blank sets
	_, dc := fg.FindFunc(api, "", "isDotOrCallAt")
	if dc == nil {
		return fmt.Errorf("isDotOrCallAt not found")
	}
	cut := ""
	for _, c := range fg.CallsNamed(dc, "TrimLeft") {
		if len(c.Args) == 2 {
			cut, _ = evalStr(c.Args[1])
		}
	}
	if cut == "" {
		return fmt.Errorf("isDotOrCallAt: expected strings.TrimLeft(…, <cutset>)")
	}
	fmt.Fprintf(L, "def rewriteBlanks : String := %s\n", fg.LeanStr(cut))
	wsf, ws := fg.FindFunc(api, "", "isWhitespace")
	if ws == nil {
		return fmt.Errorf("isWhitespace not found")
	}
	var wsChars string
	ast.Inspect(ws.Body, func(n ast.Node) bool {
		if bl, ok := n.(*ast.BasicLit); ok && bl.Kind == token.CHAR {
			if s, err := strconv.Unquote(bl.Value); err == nil {
				wsChars += s
			}
		}
		return true
	})
	_ = wsf
	if wsChars == "" {
		return fmt.Errorf("isWhitespace: no char literals")
	}
	fmt.Fprintf(L, "def extractBlanks : String := %s\n", fg.LeanStr(wsChars))
	_, ifc := fg.FindFunc(api, "", "isFunctionCallAt")
	if ifc == nil || len(fg.CallsNamed(ifc, "isWhitespace")) == 0 {
		return fmt.Errorf("isFunctionCallAt: expected to skip isWhitespace bytes")
	}
	// masker: backslash-escape branch
	mfd := mask.FuncDecl("", "MaskStringLiterals")
	if mfd == nil {
		return fmt.Errorf("MaskStringLiterals not found")
	}
	bs := strings.Contains(mask.Text(mfd), `sql[i-1] == '\\'`)
	fmt.Fprintf(L, "def maskBackslashEscapes : Bool := %v\n", bs)
	// pre-pass triggers
	var trig []string
	for _, fn := range []string{"RewriteRegexToStringFuncs", "rewriteTimeBucket", "rewriteDateTrunc", "OptimizeLikePatterns"} {
		_, fd := fg.FindFunc(api, "", fn)
		if fd == nil {
			return fmt.Errorf("pre-pass %s not found", fn)
		}
		ls := containsLiterals(fd)
		if len(ls) == 0 {
			return fmt.Errorf("pre-pass %s: expected a strings.Contains fast-path guard", fn)
		}
		for _, l := range ls {
			if len(l) >= 4 {
				trig = append(trig, strings.ToLower(l))
			}
		}
	}
	fmt.Fprintf(L, "def prepassTriggers : List String := %s\n", leanList(trig))
	out.JSON["prepass_triggers"] = trig
	fmt.Fprintf(L, "\nend Arc.Generated.C14\n")
	return nil
}
