package main

import (
	"fmt"
	"go/ast"
	"go/token"
	"regexp"
	"strconv"
	"strings"
	"verif/factgen/fg"
)

// C10: the SQL templates of internal/api/delete.go that decide which rows are matched, counted
// and kept, classified into the keep-filter kinds the Lean model knows:
//
//	WHERE %s                      -> "plain"      (row selected iff the predicate is TRUE)
//	NOT (%s)                      -> Keep.notP    (row kept iff NOT p is TRUE, i.e. p is FALSE)
//	(%s) IS NOT TRUE              -> Keep.isNotTrue (row kept iff p is FALSE or NULL)
//
// anything else is a SHAPE-MISMATCH. Also checked: the verb that sits inside the filter is fed
// by the `whereClause` parameter, `deleted := rowsBefore - rowsAfter`, and the whole-file branch
// `if rowsAfter == 0`.
func main() { fg.Main("C10", c10) }

var ws = regexp.MustCompile(`\s+`)

func norm(s string) string { return strings.TrimSpace(ws.ReplaceAllString(s, " ")) }

// sprintfTemplates returns every fmt.Sprintf(<string literal>, args…) call inside fn.
type tmpl struct {
	text string
	args []ast.Expr
}

func sprintfTemplates(fn *ast.FuncDecl) []tmpl {
	var out []tmpl
	ast.Inspect(fn.Body, func(n ast.Node) bool {
		c, ok := n.(*ast.CallExpr)
		if !ok || fg.CalleeName(c) != "Sprintf" || len(c.Args) == 0 {
			return true
		}
		lit, ok := c.Args[0].(*ast.BasicLit)
		if !ok || lit.Kind != token.STRING {
			return true
		}
		s, err := strconv.Unquote(lit.Value)
		if err != nil {
			return true
		}
		out = append(out, tmpl{norm(s), c.Args[1:]})
		return true
	})
	return out
}

var verb = regexp.MustCompile(`%[sdvq]`)

// argOfVerbAt returns the name of the identifier feeding the verb that starts at byte offset off.
func argOfVerbAt(t tmpl, off int) string {
	idx := 0
	for _, m := range verb.FindAllStringIndex(t.text, -1) {
		if m[0] == off {
			if idx < len(t.args) {
				switch a := t.args[idx].(type) {
				case *ast.Ident:
					return a.Name
				case *ast.CallExpr:
					return fg.CalleeName(a) + "(…)"
				}
			}
			return "?"
		}
		idx++
	}
	return "?"
}

// classify the filter expression (text after WHERE up to the closing context).
func classify(expr string) (string, int, error) {
	e := norm(expr)
	switch {
	case e == "%s":
		return "plain", 0, nil
	case regexp.MustCompile(`^(?i)NOT \(%s\)$`).MatchString(e):
		return "notP", strings.Index(e, "%s"), nil
	case regexp.MustCompile(`^(?i)\(%s\) IS NOT TRUE$`).MatchString(e):
		return "isNotTrue", strings.Index(e, "%s"), nil
	}
	return "", 0, fmt.Errorf("unrecognised filter expression %q (expected `%%s`, `NOT (%%s)` or `(%%s) IS NOT TRUE`)", e)
}

func c10(repo string, out *fg.Out) error {
	f, err := fg.ParseFile(repo, "internal/api/delete.go")
	if err != nil {
		return err
	}
	get := func(name string) (*ast.FuncDecl, error) {
		fd := f.FuncDecl("DeleteHandler", name)
		if fd == nil {
			return nil, fmt.Errorf("method DeleteHandler.%s not found in internal/api/delete.go", name)
		}
		return fd, nil
	}
	// one template of the function must match re (group 1 = the filter expression)
	pick := func(fn string, re *regexp.Regexp) (string, tmpl, int, error) {
		fd, err := get(fn)
		if err != nil {
			return "", tmpl{}, 0, err
		}
		var hits []tmpl
		var exprs []string
		var offs []int
		for _, t := range sprintfTemplates(fd) {
			if m := re.FindStringSubmatchIndex(t.text); m != nil {
				hits = append(hits, t)
				exprs = append(exprs, t.text[m[2]:m[3]])
				offs = append(offs, m[2])
			}
		}
		if len(hits) != 1 {
			return "", tmpl{}, 0, fmt.Errorf("%s: expected exactly one SQL template matching /%s/, found %d", fn, re, len(hits))
		}
		return exprs[0], hits[0], offs[0], nil
	}
	kindOf := func(fn string, re *regexp.Regexp) (string, string, error) {
		expr, t, base, err := pick(fn, re)
		if err != nil {
			return "", "", err
		}
		k, rel, err := classify(expr)
		if err != nil {
			return "", "", fmt.Errorf("%s: %v", fn, err)
		}
		// offset of the %s inside the normalised template
		lead := len(expr) - len(strings.TrimLeft(expr, " "))
		arg := argOfVerbAt(t, base+lead+rel)
		if arg != "whereClause" {
			return "", "", fmt.Errorf("%s: the verb inside the filter is fed by %q, expected the whereClause parameter", fn, arg)
		}
		return k, norm(expr), nil
	}

	type fact struct{ Kind, Expr string }
	facts := map[string]fact{}
	specs := []struct {
		key, fn string
		re      *regexp.Regexp
	}{
		{"affectedBatch", "countMatchingRowsInFiles", regexp.MustCompile(`(?i)FROM read_parquet\(%s, filename=true, union_by_name=true\) WHERE (.+?) GROUP BY filename HAVING COUNT\(\*\) > 0$`)},
		{"affectedSingle", "countMatchingRowsIndividually", regexp.MustCompile(`(?i)^SELECT COUNT\(\*\) FROM read_parquet\('%s'\) WHERE (.+)$`)},
		{"countKeep", "rewriteFileWithoutDeletedRows", regexp.MustCompile(`(?i)^SELECT COUNT\(\*\) as total, COUNT\(\*\) FILTER \(WHERE (.+)\) as remaining FROM read_parquet\('%s'\)$`)},
		{"rewriteKeepLocal", "rewriteLocalFile", regexp.MustCompile(`(?i)^COPY \( SELECT \* FROM read_parquet\('%s'\) WHERE (.+?) \) TO '%s' \(`)},
		{"rewriteKeepRemote", "rewriteS3File", regexp.MustCompile(`(?i)^COPY \( SELECT \* FROM read_parquet\('%s'\) WHERE (.+?) \) TO '%s' \(`)},
	}
	for _, s := range specs {
		k, e, err := kindOf(s.fn, s.re)
		if err != nil {
			return err
		}
		facts[s.key] = fact{k, e}
	}
	for _, k := range []string{"affectedBatch", "affectedSingle"} {
		if facts[k].Kind != "plain" {
			return fmt.Errorf("%s: affected-file search must select rows with a plain `WHERE %%s`, found %q", k, facts[k].Expr)
		}
	}
	for _, k := range []string{"countKeep", "rewriteKeepLocal", "rewriteKeepRemote"} {
		if facts[k].Kind == "plain" {
			return fmt.Errorf("%s: keep filter is the un-negated predicate %q", k, facts[k].Expr)
		}
	}

	// `deleted := rowsBefore - rowsAfter` and `if rowsAfter == 0 {` in rewriteFileWithoutDeletedRows;
	// `count > 0` in the individual fallback.
	fd, _ := get("rewriteFileWithoutDeletedRows")
	body := norm(f.Text(fd.Body))
	if !strings.Contains(body, "deleted := rowsBefore - rowsAfter") {
		return fmt.Errorf("rewriteFileWithoutDeletedRows: `deleted := rowsBefore - rowsAfter` not found")
	}
	if !strings.Contains(body, "if rowsAfter == 0 {") {
		return fmt.Errorf("rewriteFileWithoutDeletedRows: `if rowsAfter == 0 {` (whole-file removal branch) not found")
	}
	if !strings.Contains(body, "Scan(&rowsBefore, &rowsAfter)") {
		return fmt.Errorf("rewriteFileWithoutDeletedRows: `Scan(&rowsBefore, &rowsAfter)` not found (column order total, remaining)")
	}
	// the pairing of DuckDB's reported filename with the storage-relative path (whole-file removal
	// deletes by relativePath): exact lookup keyed by the full query path.
	fdb, _ := get("countMatchingRowsInFiles")
	bb := norm(f.Text(fdb.Body))
	for _, want := range []string{"pathMap[f.queryPath] = f.relativePath", "relativePath, ok := pathMap[filename]",
		"path: filename,", "relativePath: relativePath,", "matchCount: count,"} {
		if !strings.Contains(bb, want) {
			return fmt.Errorf("countMatchingRowsInFiles: `%s` not found (filename -> relativePath pairing changed)", want)
		}
	}
	fdr, _ := get("rewriteFileWithoutDeletedRows")
	if !strings.Contains(norm(f.Text(fdr.Body)), "h.storage.Delete(ctx, relativePath)") {
		return fmt.Errorf("rewriteFileWithoutDeletedRows: `h.storage.Delete(ctx, relativePath)` not found")
	}
	fd2, _ := get("countMatchingRowsIndividually")
	if !strings.Contains(norm(f.Text(fd2.Body)), "if count > 0 {") {
		return fmt.Errorf("countMatchingRowsIndividually: `if count > 0 {` not found")
	}
	for _, fn := range []string{"rewriteLocalFile", "rewriteS3File"} {
		fdx, err := get(fn)
		if err != nil {
			return err
		}
		if !strings.Contains(norm(f.Text(fdx.Body)), "deleted := rowsBefore - rowsAfter") {
			return fmt.Errorf("%s: `deleted := rowsBefore - rowsAfter` not found", fn)
		}
	}
	// handleDelete: dry run returns totalToDelete (sum of matchCount)
	fd3, err := get("handleDelete")
	if err != nil {
		return err
	}
	hb := norm(f.Text(fd3.Body))
	for _, want := range []string{"totalToDelete += f.matchCount", "DeletedCount: totalToDelete", "totalDeleted += deleted", "DeletedCount: totalDeleted",
		"totalToDelete > int64(h.config.MaxRowsPerDelete)", "totalToDelete > int64(h.config.ConfirmationThreshold) && !req.Confirm", "!req.DryRun && !req.Confirm", "isFullTableDelete && !req.Confirm"} {
		if !strings.Contains(hb, want) {
			return fmt.Errorf("handleDelete: `%s` not found", want)
		}
	}

	// --- the affected-file scan covers EVERY listed parquet file: one batch call over the whole
	// slice, or (if someone chunks it) every chunk's result appended.
	faf, err := get("findAffectedFiles")
	if err != nil {
		return err
	}
	scanAll, scanShape := false, ""
	var walk func(n ast.Node, inLoop bool)
	walk = func(n ast.Node, inLoop bool) {
		ast.Inspect(n, func(x ast.Node) bool {
			switch v := x.(type) {
			case *ast.ForStmt:
				if v.Body != nil {
					walk(v.Body, true)
				}
				return false
			case *ast.RangeStmt:
				// the listing filter loop is a range loop too; only calls matter
				walk(v.Body, true)
				return false
			case *ast.AssignStmt:
				if len(v.Rhs) != 1 {
					return true
				}
				c, ok := v.Rhs[0].(*ast.CallExpr)
				if !ok || fg.CalleeName(c) != "countMatchingRowsInFiles" || len(c.Args) != 3 {
					return true
				}
				arg := norm(f.Text(c.Args[1]))
				lhs := norm(f.Text(v.Lhs[0]))
				switch {
				case !inLoop && arg == "parquetFiles" && lhs == "affected":
					scanAll, scanShape = true, "single batch over parquetFiles"
				case inLoop:
					// chunked: the chunk result must be accumulated, not assigned to `affected`
					scanShape = "chunked: " + lhs + " = countMatchingRowsInFiles(" + arg + ")"
					body := norm(f.Text(faf.Body))
					scanAll = lhs != "affected" && strings.Contains(body, "affected = append(affected, "+lhs+"...)")
				default:
					scanShape = "unrecognised: " + lhs + " = countMatchingRowsInFiles(" + arg + ")"
				}
			}
			return true
		})
	}
	walk(faf.Body, false)
	if scanShape == "" || strings.HasPrefix(scanShape, "unrecognised") {
		return fmt.Errorf("findAffectedFiles: batch count call shape not recognised (%s)", scanShape)
	}
	chunk := int64(0)
	for _, fl := range []*fg.File{f} {
		env := fg.NewConstEnv([]*fg.File{fl})
		for name, e := range env.Exprs {
			if strings.Contains(strings.ToLower(name), "perquery") || strings.Contains(strings.ToLower(name), "chunk") || strings.Contains(strings.ToLower(name), "batchsize") {
				if v, err := env.EvalInt(e); err == nil {
					chunk = v
				}
			}
		}
	}
	// --- the confirmed delete recomputes the affected set from storage: unconditional top-level
	// `affected, err := h.findAffectedFiles(...)` in handleDelete, no handler state beyond the known
	// fields, nothing stored on the handler in the dry-run branch.
	rescans := false
	for _, st := range fd3.Body.List {
		if as, ok := st.(*ast.AssignStmt); ok && as.Tok == token.DEFINE &&
			norm(f.Text(as)) == "affected, err := h.findAffectedFiles(ctx, req.Database, req.Measurement, req.Where)" {
			rescans = true
		}
	}
	var fields []string
	ast.Inspect(f.AST, func(x ast.Node) bool {
		ts, ok := x.(*ast.TypeSpec)
		if !ok || ts.Name.Name != "DeleteHandler" {
			return true
		}
		if st, ok := ts.Type.(*ast.StructType); ok {
			for _, fl := range st.Fields.List {
				for _, nm := range fl.Names {
					fields = append(fields, nm.Name)
				}
			}
		}
		return false
	})
	if got, want := strings.Join(fields, ","), "db,storage,config,authManager,coordinator,tempDir,logger"; got != want {
		return fmt.Errorf("DeleteHandler struct fields are [%s], expected [%s]: new handler state must be reviewed (a delete request must not depend on earlier requests)", got, want)
	}
	dryStateless := false
	for _, st := range fd3.Body.List {
		if is, ok := st.(*ast.IfStmt); ok && norm(f.Text(is.Cond)) == "req.DryRun" {
			dryStateless = !regexp.MustCompile(`\bh\.`).MatchString(f.Text(is.Body))
		}
	}
	if !dryStateless {
		rescans = false
	}

	// --- the predicate text reaching the SQL builders is req.Where VERBATIM: nothing assigns to
	// req.Where / req / whereClause, and every hop passes the same identifier on.
	verbatim := true
	why := ""
	assigns := func(fn *ast.FuncDecl, names ...string) {
		ast.Inspect(fn.Body, func(x ast.Node) bool {
			as, ok := x.(*ast.AssignStmt)
			if !ok {
				return true
			}
			for _, l := range as.Lhs {
				t := norm(f.Text(l))
				for _, n := range names {
					if t == n {
						verbatim = false
						why = fn.Name.Name + ": assignment to " + t
					}
				}
			}
			return true
		})
	}
	assigns(fd3, "req.Where", "req")
	for _, want := range []string{"h.validateWhereClause(req.Where)", "h.findAffectedFiles(ctx, req.Database, req.Measurement, req.Where)",
		"h.rewriteFileWithoutDeletedRows(ctx, f.path, f.relativePath, req.Where)", "c.BodyParser(&req)"} {
		if !strings.Contains(hb, want) {
			verbatim, why = false, "handleDelete: `"+want+"` not found"
		}
	}
	for _, fn := range []string{"findAffectedFiles", "countMatchingRowsInFiles", "countMatchingRowsIndividually", "rewriteFileWithoutDeletedRows", "rewriteLocalFile", "rewriteS3File"} {
		fdx, err := get(fn)
		if err != nil {
			return err
		}
		assigns(fdx, "whereClause")
		hasParam := false
		for _, pl := range fdx.Type.Params.List {
			for _, nm := range pl.Names {
				if nm.Name == "whereClause" {
					hasParam = true
				}
			}
		}
		if !hasParam {
			verbatim, why = false, fn+": no parameter named whereClause"
		}
	}
	fb := norm(f.Text(faf.Body))
	for _, want := range []string{"h.countMatchingRowsIndividually(ctx, parquetFiles, whereClause)"} {
		if !strings.Contains(fb, want) {
			verbatim, why = false, "findAffectedFiles: `"+want+"` not found"
		}
	}
	rb := norm(f.Text(fdr.Body))
	for _, want := range []string{"h.rewriteLocalFile(ctx, queryPath, relativePath, whereClause, rowsBefore, rowsAfter)", "h.rewriteS3File(ctx, queryPath, relativePath, whereClause, rowsBefore, rowsAfter)"} {
		if !strings.Contains(rb, want) {
			verbatim, why = false, "rewriteFileWithoutDeletedRows: `"+want+"` not found"
		}
	}

	w := &out.Lean
	fmt.Fprintf(w, "namespace Arc.Generated.C10\n")
	fmt.Fprintf(w, "/-- How a keep filter treats the three-valued result of the user predicate. -/\n")
	fmt.Fprintf(w, "inductive Keep | notP | isNotTrue\nderiving DecidableEq, Repr\n")
	for _, k := range []string{"countKeep", "rewriteKeepLocal", "rewriteKeepRemote"} {
		fmt.Fprintf(w, "/-- delete.go template: `%s` -/\n", facts[k].Expr)
		fmt.Fprintf(w, "def %s : Keep := .%s\n", k, facts[k].Kind)
	}
	bl := func(v bool) string {
		if v {
			return "true"
		}
		return "false"
	}
	fmt.Fprintf(w, "/-- findAffectedFiles: %s (chunk constant: %d; 0 = none) -/\n", scanShape, chunk)
	fmt.Fprintf(w, "def affectedScanCoversAllFiles : Bool := %s\n", bl(scanAll))
	fmt.Fprintf(w, "/-- handleDelete: unconditional `affected, err := h.findAffectedFiles(…)` for dry AND confirmed requests, dry-run branch touches no handler state -/\n")
	fmt.Fprintf(w, "def confirmRescansStorage : Bool := %s\n", bl(rescans))
	fmt.Fprintf(w, "/-- the WHERE text used by the scan, the count and the rewrite is req.Where as parsed from the body, untransformed%s -/\n", map[bool]string{true: "", false: " — VIOLATED: " + why}[verbatim])
	fmt.Fprintf(w, "def whereTextVerbatim : Bool := %s\n", bl(verbatim))
	fmt.Fprintf(w, "end Arc.Generated.C10\n")
	out.JSON["where_text_verbatim"] = verbatim
	out.JSON["affected_scan"] = map[string]any{"covers_all": scanAll, "shape": scanShape, "chunk": chunk}
	out.JSON["confirm_rescans_storage"] = rescans
	for k, v := range facts {
		out.JSON[k] = map[string]string{"kind": v.Kind, "expr": v.Expr}
	}
	return nil
}
