//go:build verif

// C24 trace-refinement harness: the REAL replication.Sender and replication.Receiver (and the real
// wal.Writer hook path, wired as coordinator.StartReplication wires it) over net.Pipe, behind a
// frame-level adversary proxy; producers under forced schedules (verifsched points between sequence
// assignment and enqueue) and free-running (1–16 goroutines). Every observed event is one op line
// whose outcome the Lean LTS must predict; monitors check the property's clauses on the real run.
package main

import (
	"encoding/json"
	"fmt"
	"os"
	"path/filepath"
	"sort"
	"sync"
	"time"

	"github.com/basekick-labs/arc/internal/cluster/replication"
	"github.com/basekick-labs/arc/internal/verif/vh"
	"github.com/basekick-labs/arc/internal/verifclock"
	"github.com/basekick-labs/arc/internal/wal"
	"github.com/rs/zerolog"
)

func payload(r *vh.Rand, big bool) []byte {
	n := 0
	switch r.Intn(12) {
	case 0:
		n = 0
	case 1, 2:
		n = 1
	case 3:
		if big {
			n = r.Range(1000, 70000)
		} else {
			n = r.Range(100, 600)
		}
	default:
		n = r.Range(2, 40)
	}
	b := make([]byte, n)
	for i := range b {
		b[i] = byte(r.U64())
	}
	if n > 0 && r.Chance(30) { // small alphabets: equal payloads / equal concatenations do occur
		for i := range b {
			b[i] = byte('a' + r.Intn(2))
		}
	}
	return b
}

// ---------------------------------------------------------------- adversary

func (w *world) mutateJSON(body []byte, f func(m map[string]any)) []byte {
	var m map[string]any
	if json.Unmarshal(body, &m) != nil {
		return body
	}
	f(m)
	out, _ := json.Marshal(m)
	return out
}

func (w *world) histOf(typ byte) []frame {
	var fs []frame
	for _, f := range w.hist {
		if f.typ == typ {
			fs = append(fs, f)
		}
	}
	return fs
}

// wireStep: one action of the proxy on the frames in flight. honest = pass only.
func (w *world) wireStep(honest bool) {
	s := w.sess
	r := w.r
	if len(s.W) == 0 {
		return
	}
	applyOk := true
	act := "pass"
	if !honest {
		if r.Chance(4) {
			applyOk = false
		}
		if r.Chance(35) {
			act = vh.Pick(r, []string{"flip", "dup", "drop", "reorder", "splice", "splice", "replay", "replay", "stale", "close", "type", "windowdrop", "windowdrop"})
		}
	}
	drift := int64(r.Intn(3))
	head := s.W[0]
	if act != "dup" && act != "reorder" && act != "replay" && act != "close" && act != "windowdrop" &&
		!(act == "splice" && len(w.hist) == 0) {
		s.atWindowStart = head.typ == replication.MsgReplicateCheckpoint // head leaves the wire
	}
	if act != "pass" || !applyOk {
		s.honest = false
		w.nontriv = true
	}
	w.c.Tag("wire:" + act)
	switch act {
	case "pass":
		s.W = s.W[1:]
		w.send(head, applyOk, drift)
	case "drop":
		s.W = s.W[1:]
	case "windowdrop":
		w.windowDrop()
	case "dup":
		w.send(head, applyOk, drift)
	case "reorder":
		if len(s.W) >= 2 {
			s.W[0], s.W[1] = s.W[1], s.W[0]
		}
	case "flip":
		s.W = s.W[1:]
		f := head.clone()
		if len(f.body) > 0 {
			i := r.Intn(len(f.body))
			f.body[i] ^= 1 << uint(r.Intn(8))
		}
		w.send(f, applyOk, drift)
	case "type":
		s.W = s.W[1:]
		f := head.clone()
		f.typ = vh.Pick(r, []byte{0x10, 0x11, 0x12, 0x13, 0x14, 0x1F, 0x00, 0x7F})
		w.send(f, applyOk, drift)
	case "stale":
		s.W = s.W[1:]
		d := vh.Pick(r, []int64{w.tol, -w.tol, w.tol + 1, -w.tol - 1, w.tol - 1, 3 * w.tol, -3 * w.tol})
		w.send(head, applyOk, d)
	case "replay": // any frame seen earlier in this case (this or an older session)
		if len(w.hist) > 0 {
			w.send(vh.Pick(r, w.hist), applyOk, int64(r.Intn(int(w.tol)+2)))
		}
	case "close":
		w.closeWire()
	case "splice":
		es, cs := w.histOf(replication.MsgReplicateEntry), w.histOf(replication.MsgReplicateCheckpoint)
		if head.typ == replication.MsgReplicateEntry && len(es) > 0 {
			s.W = s.W[1:]
			var o map[string]any
			json.Unmarshal(vh.Pick(r, es).body, &o)
			f := head.clone()
			f.body = w.mutateJSON(f.body, func(m map[string]any) {
				switch r.Intn(5) {
				case 0:
					m["payload"] = o["payload"]
				case 1:
					m["seq"] = o["seq"]
				case 2:
					m["tag"] = o["tag"]
				case 3:
					m["seq"], m["tag"] = o["seq"], o["tag"]
				default:
					if sq, ok := m["seq"].(float64); ok {
						m["seq"] = sq + float64(r.Range(1, 3))
					}
				}
			})
			w.send(f, applyOk, drift)
		} else if head.typ == replication.MsgReplicateCheckpoint && len(cs) > 0 {
			s.W = s.W[1:]
			var o map[string]any
			json.Unmarshal(vh.Pick(r, cs).body, &o)
			f := head.clone()
			f.body = w.mutateJSON(f.body, func(m map[string]any) {
				switch r.Intn(6) {
				case 0:
					m["cumulative_payload_hash"] = o["cumulative_payload_hash"]
				case 1:
					m["last_seq"] = o["last_seq"]
				case 2:
					m["hmac"], m["nonce"], m["timestamp"] = o["hmac"], o["nonce"], o["timestamp"]
				case 3:
					m["cluster_name"] = "other"
				case 4:
					if ts, ok := m["timestamp"].(float64); ok {
						m["timestamp"] = ts + float64(r.Range(-2, 2))
					}
				default:
					m["sender_node_id"] = "writer-2"
				}
			})
			w.send(f, applyOk, drift)
		}
	}
	if w.sess != nil && !w.sess.alive {
		w.detach()
	}
}

// windowDrop removes one whole checkpoint window from the wire: every entry frame since the last
// checkpoint and the checkpoint that closes the span (interval 1: one entry + its checkpoint). If
// the head of the wire is in the middle of a window, the rest of that window is passed first.
func (w *world) windowDrop() bool {
	s := w.sess
	// find a window that lies completely in W: [i, j] with W[j] a checkpoint, W[i..j-1] entries, and
	// W[i-1] a checkpoint (or i == 0 and the last frame taken off the wire was a checkpoint / none)
	start := 0
	if !s.atWindowStart {
		for start < len(s.W) && s.W[start].typ != replication.MsgReplicateCheckpoint {
			start++
		}
		start++
	}
	j := start
	for j < len(s.W) && s.W[j].typ != replication.MsgReplicateCheckpoint {
		j++
	}
	if start >= len(s.W) || j >= len(s.W) || j == start {
		return false
	}
	for i := 0; i < start && w.sess != nil && w.sess.alive; i++ { // finish the current window honestly
		f := s.W[0]
		s.W = s.W[1:]
		s.atWindowStart = f.typ == replication.MsgReplicateCheckpoint
		w.send(f, true, 0)
	}
	if w.sess == nil || !w.sess.alive {
		return false
	}
	n := j - start + 1
	s.W = s.W[n:]
	s.atWindowStart = true
	s.honest = false
	w.nontriv = true
	w.c.Tag(fmt.Sprintf("wire:windowdrop-done"))
	return true
}

// directed: three checkpoint windows; the first is delivered, the second vanishes on the wire, the
// third is delivered. The reader must not stay connected past the third window's checkpoint.
func windowDropCase(c *vh.Ctx, r *vh.Rand, ww *wal.Writer, atomic bool, tol int64, no int, iv int, windows int) {
	w := newWorld(c, r, ww, atomic, 4*iv*windows+8, iv, tol, no)
	w.connect()
	for i := 0; i < iv*windows; i++ {
		p := payload(r, false)
		if len(p) == 0 {
			p = []byte{byte(i)}
		}
		if w.assign(0, p, i%3) {
			w.enqueue(0)
		}
	}
	s := w.sess
	victim := 1 + r.Intn(windows-1) // never the first window only: any but window 0, or window 0 too
	if r.Chance(25) {
		victim = 0
	}
	for k := 0; k < windows && w.sess != nil && w.sess.alive; k++ {
		if k == victim {
			if !w.windowDrop() {
				w.c.Tag("wire:windowdrop-impossible")
			}
			continue
		}
		for w.sess != nil && w.sess.alive && len(s.W) > 0 {
			f := s.W[0]
			s.W = s.W[1:]
			s.atWindowStart = f.typ == replication.MsgReplicateCheckpoint
			w.send(f, true, 0)
			if f.typ == replication.MsgReplicateCheckpoint {
				break
			}
		}
	}
	if w.sess != nil && !w.sess.alive {
		w.detach()
	}
	w.finish()
}

// directed: a burst of appends while the reader is briefly slow (the distribution loop is stuck in
// one write), every append with DISTINCT payload bytes and lengths; then the reader catches up on an
// honest wire. Every applied payload must be what the writer appended under that sequence number.
func burstCase(c *vh.Ctx, r *vh.Rand, ww *wal.Writer, atomic bool, tol int64, no int, path int, n int) {
	w := newWorld(c, r, ww, atomic, n+8, vh.Pick(r, []int{1, 3, 1024}), tol, no)
	w.connect()
	w.sess.stalled = true
	w.sess.gate.setOpen(false)
	for i := 0; i < n; i++ {
		p := make([]byte, r.Range(3, 60))
		for j := range p {
			p[j] = byte(r.U64())
		}
		p[0] = byte(i + 1)
		pa := path
		if pa < 0 {
			pa = r.Intn(3)
		}
		w.appendDirect(0, p, pa)
	}
	w.c.Tag("burst-behind-stalled-reader")
	w.nontriv = true
	w.sess.stalled = false
	w.sess.gate.setOpen(true)
	w.settle()
	for w.sess != nil && w.sess.alive && len(w.sess.W) > 0 {
		w.wireStep(true)
	}
	w.finish()
}

// ---------------------------------------------------------------- case generators

// random lockstep case: producers stepped one atomic action at a time.
func lockstepCase(c *vh.Ctx, r *vh.Rand, ww *wal.Writer, atomic bool, tol int64, no int, maxK int) {
	k := r.Range(1, maxK)
	cp := vh.Pick(r, []int{1, 2, 3, 5, 64})
	iv := vh.Pick(r, []int{1, 2, 3, 5, 1024})
	honest := r.Chance(35)
	w := newWorld(c, r, ww, atomic, cp, iv, tol, no)
	steps := r.Range(15, 70)
	for i := 0; i < steps; i++ {
		var acts []string
		if w.sess == nil {
			acts = append(acts, "con", "con", "con")
		} else {
			if len(w.sess.W) > 0 && w.sess.alive {
				acts = append(acts, "wire", "wire", "wire", "wire")
			}
			if !w.sess.stalled && w.sess.inflight == nil && len(w.mq) == 0 && r.Chance(15) {
				acts = append(acts, "stall")
			}
			if w.sess.stalled {
				acts = append(acts, "unstall")
			}
			if r.Chance(4) {
				acts = append(acts, "det")
			}
		}
		var idle, held []int
		for t := 0; t < k; t++ {
			if _, h := w.holding[t]; h {
				held = append(held, t)
			} else {
				idle = append(idle, t)
			}
		}
		if len(idle) > 0 && (!atomic || len(held) == 0) {
			acts = append(acts, "a", "a", "a")
		}
		if len(held) > 0 {
			acts = append(acts, "e", "e")
		}
		switch vh.Pick(r, acts) {
		case "con":
			w.connect()
		case "wire":
			w.wireStep(honest)
		case "stall":
			w.sess.stalled = true
			w.sess.gate.setOpen(false)
			w.c.Tag("stall")
		case "unstall":
			w.sess.stalled = false
			w.sess.gate.setOpen(true)
			w.settle()
		case "det":
			w.sess.honest = false
			w.detach()
		case "a":
			if len(held) > 0 {
				w.nontriv = true
				w.c.Tag("producers:overlap")
			}
			w.assign(vh.Pick(r, idle), payload(r, c.Thorough()), r.Intn(3))
		case "e":
			w.enqueue(vh.Pick(r, held))
		}
	}
	// drain what is still on the wire, then close
	for i := 0; i < 200 && w.sess != nil && w.sess.alive && (len(w.sess.W) > 0 || len(w.holding) > 0); i++ {
		if len(w.sess.W) > 0 {
			w.wireStep(honest)
		} else {
			mt := -1
			for t := range w.holding {
				if t >= 0 && (mt < 0 || t < mt) {
					mt = t
				}
			}
			if mt < 0 {
				break
			}
			w.enqueue(mt)
		}
	}
	w.finish()
}

// the schedule DESIGN.md predicted: assign(1), assign(2), enqueue(2), enqueue(1) on an honest wire.
func witnessCase(c *vh.Ctx, r *vh.Rand, ww *wal.Writer, atomic bool, tol int64, no int, path int, iv int) {
	w := newWorld(c, r, ww, atomic, 8, iv, tol, no)
	w.connect()
	p1, p2 := []byte("first"), []byte("second")
	ok1 := w.assign(0, p1, path)
	ok2 := w.assign(1, p2, path)
	if ok1 && ok2 {
		w.nontriv = true
		w.c.Tag("forced-schedule:realised")
		w.enqueue(1)
		w.enqueue(0)
	} else { // assignment+enqueue are one critical section: thread 1 cannot get a number while 0 holds it
		w.c.Tag("forced-schedule:unrealisable")
		if ok1 {
			w.enqueue(0)
		}
		if x := w.holding[-2]; x != nil {
			delete(w.holding, -2)
			if p, ok := x.th.Await(3 * time.Second); ok && p == "c24.wal.assigned" {
				x.th.Release()
				p, ok = x.th.Await(3 * time.Second)
			}
			if x.entry.Sequence == 0 && w.lastHook != nil {
				x.entry = w.lastHook
			}
			x.pay = append([]byte(nil), x.entry.Payload...)
			w.holding[1] = x
			w.assigned[x.entry.Sequence] = true
			w.op(fmt.Sprintf("a 1 %s", vh.Hex(x.pay)), fmt.Sprintf("seq=%d", x.entry.Sequence))
			w.enqueue(1)
		}
	}
	for w.sess != nil && w.sess.alive && len(w.sess.W) > 0 {
		w.wireStep(true)
	}
	w.finish()
}

// free-running producers; honest wire; the linearisation is reconstructed from the observed
// sequence numbers (counter order) and the channel order (order of the sender's frames).
func freeCase(c *vh.Ctx, r *vh.Rand, ww *wal.Writer, atomic bool, tol int64, no int, k, m int) {
	iv := vh.Pick(r, []int{1, 3, 7, 1024})
	w := newWorld(c, r, ww, atomic, k*m+8, iv, tol, no)
	w.lockstep = false
	type rec struct {
		t       int
		payload []byte
	}
	var mu sync.Mutex
	bySeq := map[uint64]rec{}
	w.connect()
	s := w.sess
	var wg sync.WaitGroup
	start := make(chan struct{})
	for g := 0; g < k; g++ {
		rr := r.Fork()
		path := r.Intn(3)
		wg.Add(1)
		go func(g int) {
			defer wg.Done()
			<-start
			for i := 0; i < m; i++ {
				p := payload(rr, false)
				switch path {
				case 0:
					e := &replication.ReplicateEntry{TimestampUS: 1, Payload: p}
					cp := append([]byte(nil), p...)
					w.sender.Replicate(e)
					mu.Lock()
					bySeq[e.Sequence] = rec{g, cp}
					mu.Unlock()
				case 1:
					w.ww.AppendRaw(p)
				default:
					w.ww.AppendRawWithMeta("db", p)
				}
			}
		}(g)
	}
	// hook-path appends report through frec; the goroutine is identified by a goroutine-local trick:
	// the payload object is unique per call, so map by the entry pointer's payload slice identity is
	// not needed — thread ids only matter to the model for "not already holding", which any fresh id
	// per append satisfies; hook-path appends get ids k, k+1, … .
	next := k
	w.frec = func(re *replication.ReplicateEntry, atAppend []byte) {
		mu.Lock()
		bySeq[re.Sequence] = rec{next, atAppend}
		next++
		mu.Unlock()
	}
	type arr struct {
		f   frame
		seq uint64
		ck  *frame
		out []string
		ops []string
	}
	var arrs []*arr
	close(start)
	total := k * m
	handle := func(f frame, a *arr) {
		if !s.alive {
			return
		}
		opT, _, cp := w.classify(f, true)
		if cp != nil {
			verifclock.Set(cp.Timestamp * 1_000_000_000)
			opT = fmt.Sprintf(opT, 0)
		}
		w.ob.nextApply.Store(true)
		a.ops = append(a.ops, opT)
		a.out = append(a.out, w.deliver(f))
	}
	for n := 0; n < total; n++ {
		f, ok := w.nextFrame(s, 10*time.Second)
		if !ok || f.typ != replication.MsgReplicateEntry {
			w.c.Tag("free:frame-missing")
			break
		}
		sq, _ := w.noteSenderFrame(s, f)
		a := &arr{f: f, seq: sq}
		arrs = append(arrs, a)
		handle(f, a)
		s.since++
		if s.since >= w.interval {
			f2, ok := w.nextFrame(s, 10*time.Second)
			if !ok || f2.typ != replication.MsgReplicateCheckpoint {
				w.c.Tag("free:ckpt-missing")
				break
			}
			w.noteSenderFrame(s, f2)
			s.since = 0
			a.ck = &f2
			handle(f2, a)
		}
	}
	wg.Wait()
	// canonical linearisation
	nextSeq := uint64(1)
	seqs := make([]uint64, 0, len(bySeq))
	for sq := range bySeq {
		seqs = append(seqs, sq)
	}
	sort.Slice(seqs, func(i, j int) bool { return seqs[i] < seqs[j] })
	emitAssign := func(upto uint64) {
		for nextSeq <= upto {
			rc, ok := bySeq[nextSeq]
			if !ok {
				w.op(fmt.Sprintf("a %d -", 9999), fmt.Sprintf("seq-missing=%d", nextSeq))
			} else {
				w.assigned[nextSeq] = true
				w.op(fmt.Sprintf("a %d %s", int(nextSeq)+100, vh.Hex(rc.payload)), fmt.Sprintf("seq=%d", nextSeq))
			}
			nextSeq++
		}
	}
	inversions := 0
	var prev uint64
	sAlive := true
	sentIdx := 0
	for _, a := range arrs {
		emitAssign(a.seq)
		if a.seq < prev {
			inversions++
		}
		prev = a.seq
		rc := bySeq[a.seq]
		w.queued[a.seq] = rc.payload
		w.op(fmt.Sprintf("e %d", int(a.seq)+100), "queued")
		ck := "-"
		if a.ck != nil {
			cp, _ := replication.ParseCheckpoint(a.ck.body)
			ck = fmt.Sprint(cp.LastSequence)
		}
		w.op("d", fmt.Sprintf("sent seq=%d ck=%s", a.seq, ck))
		sentIdx++
		for i, o := range a.ops {
			if !sAlive {
				break
			}
			w.op(o, a.out[i])
			w.c.Tag("recv:" + a.out[i])
			switch {
			case a.out[i] == "applied":
				e, _ := replication.ParseEntry(a.f.body)
				x := ent{e.Sequence, e.Payload}
				if n := len(w.applied); n > 0 && w.applied[n-1].seq >= x.seq {
					w.fail("applied-not-increasing:receiveLoop", fmt.Sprintf("reader applied seq %d after seq %d", x.seq, w.applied[n-1].seq))
				}
				if p, ok := w.queued[x.seq]; !ok || string(p) != string(x.payload) {
					w.fail("applied-not-queued:receiveLoop", fmt.Sprintf("reader applied (seq %d) which the writer never enqueued with that sequence/payload", x.seq))
				}
				w.applied = append(w.applied, x)
				s.applied = append(s.applied, x)
			case a.out[i] == "ckpt-ok":
				// with an honest wire the applied entries must be everything sent so far
				if len(s.applied) != sentIdx {
					w.fail("checkpoint-verified-with-gap:receiveLoop", fmt.Sprintf("checkpoint verified with %d applied of %d sent", len(s.applied), sentIdx))
				}
			case len(a.out[i]) > 5 && a.out[i][:5] == "drop:":
				sAlive = false
				w.nontriv = true
				w.fail("healthy-connection-dropped:"+a.out[i][5:],
					fmt.Sprintf("%d free-running producers, honest wire: the reader dropped the connection (%s) at the sender's frame seq=%d (%d applied before)", k, a.out[i], a.seq, len(w.applied)))
			}
		}
	}
	emitAssign(uint64(total))
	if inversions > 0 {
		w.c.Tag("free:channel-order-inverted")
		w.nontriv = true
	} else {
		w.c.Tag("free:channel-order-sorted")
	}
	w.c.Tag(fmt.Sprintf("free:k=%d", k))
	w.finish()
}

func main() {
	c := vh.Start()
	atomic := false
	tol := int64(300)
	if c.Facts != nil {
		if v, ok := c.Facts["assign_enqueue_atomic"].(bool); ok {
			atomic = v
		}
		if v, ok := c.Facts["hmac_tolerance_sec"].(float64); ok {
			tol = int64(v)
		}
	}
	r := vh.NewRand(c.Seed)
	dir := filepath.Join(c.OutDir, "wal")
	os.MkdirAll(dir, 0o755)
	ww, err := wal.NewWriter(&wal.WriterConfig{WALDir: dir, SyncMode: wal.SyncModeAsync, Logger: zerolog.Nop(), BufferSize: 1 << 16})
	if err != nil {
		fmt.Fprintln(os.Stderr, "wal:", err)
		os.Exit(1)
	}
	no := 0
	// (1) the predicted 4-step schedule, through each append path, with and without a checkpoint per entry
	for path := 0; path < 3; path++ {
		for _, iv := range []int{1024, 1} {
			no++
			witnessCase(c, r, ww, atomic, tol, no, path, iv)
		}
	}
	// (1b) a whole checkpoint window vanishes on the wire
	for _, iv := range []int{1, 1, 2, 3, 4, 16} {
		for _, wn := range []int{3, 4} {
			no++
			windowDropCase(c, r, ww, atomic, tol, no, iv, wn)
		}
	}
	// (1c) bursts behind a briefly slow reader, through each append path
	for _, path := range []int{2, 2, 1, 0, -1, 2} {
		no++
		burstCase(c, r, ww, atomic, tol, no, path, r.Range(4, 12))
	}
	// (2) random lockstep cases (forced schedules + adversary)
	nLock, nFree, maxK := 120, 24, 4
	if c.Thorough() {
		nLock, nFree, maxK = 8000, 800, 16
	}
	if c.N > 0 {
		nLock = c.N
	}
	for i := 0; i < nLock; i++ {
		no++
		lockstepCase(c, r, ww, atomic, tol, no, maxK)
	}
	// (3) free-running producers, k = 1..16
	for i := 0; i < nFree; i++ {
		no++
		k := 1 + i%16
		m := r.Range(5, 30)
		freeCase(c, r, ww, atomic, tol, no, k, m)
	}
	ww.Close()
	os.RemoveAll(dir)
	c.Finish("case = one run of the real Sender+Receiver over net.Pipe: (a) the forced 4-step schedule through Replicate / AppendRaw / AppendRawWithMeta, (b) random lockstep schedules of 1–16 producer threads (assign / enqueue as separate steps), random buffer sizes 1–64 and checkpoint intervals 1–1024, stalls that fill the buffer, 1–3 sessions, and a proxy that passes, flips, duplicates, drops, reorders, splices, replays (entries and checkpoints, also across sessions), retimes and closes, plus injected apply failures, (c) 1–16 free-running producer goroutines on an honest wire; non-trivial = overlapping producers, any wire fault, a reported drop or a dropped connection; distinct = distinct op text")
}
