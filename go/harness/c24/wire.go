//go:build verif

package main

import (
	"context"
	"encoding/binary"
	"encoding/json"
	"io"
	"net"
	"strings"
	"sync"
	"sync/atomic"
	"time"
)

// ---- frames on the wire: [4-byte big-endian length][1-byte type][JSON body]
type frame struct {
	typ  byte
	body []byte
}

func (f frame) bytes() []byte {
	out := make([]byte, 5+len(f.body))
	binary.BigEndian.PutUint32(out[0:4], uint32(1+len(f.body)))
	out[4] = f.typ
	copy(out[5:], f.body)
	return out
}

func (f frame) clone() frame { return frame{f.typ, append([]byte(nil), f.body...)} }

func readFrame(r io.Reader) (frame, error) {
	var hdr [5]byte
	if _, err := io.ReadFull(r, hdr[:]); err != nil {
		return frame{}, err
	}
	n := binary.BigEndian.Uint32(hdr[0:4])
	body := make([]byte, n-1)
	if _, err := io.ReadFull(r, body); err != nil {
		return frame{}, err
	}
	return frame{hdr[4], body}, nil
}

// ---- gateConn: the sender's end of the pipe. While the gate is closed every Write blocks, i.e.
// distributionLoop is stuck inside sendToReader with one popped entry in flight.
type gateConn struct {
	net.Conn
	mu      sync.Mutex
	cond    *sync.Cond
	open    bool
	waiting atomic.Int32
}

func newGate(c net.Conn) *gateConn {
	g := &gateConn{Conn: c, open: true}
	g.cond = sync.NewCond(&g.mu)
	return g
}

func (g *gateConn) Write(b []byte) (int, error) {
	g.mu.Lock()
	for !g.open {
		g.waiting.Store(1)
		g.cond.Wait()
	}
	g.waiting.Store(0)
	g.mu.Unlock()
	return g.Conn.Write(b)
}

func (g *gateConn) setOpen(v bool) {
	g.mu.Lock()
	g.open = v
	g.mu.Unlock()
	g.cond.Broadcast()
}

func (g *gateConn) Close() error {
	g.setOpen(true)
	return g.Conn.Close()
}

// ---- receiver-side observations
type rev struct {
	kind    string // "apply" | "log" | "exit"
	ok      bool   // apply: handler's answer
	payload []byte
	reason  string // log: mapped reason
}

type obs struct {
	ch        chan rev
	nextApply atomic.Bool // answer of the next ApplyReplicatedEntry call (true = succeed)
	unknown   atomic.Int32
}

func newObs() *obs {
	o := &obs{ch: make(chan rev, 4096)}
	o.nextApply.Store(true)
	return o
}

// ApplyReplicatedEntry is the reader's ingest handler.
func (o *obs) apply(_ context.Context, payload []byte) error {
	ok := o.nextApply.Load()
	o.ch <- rev{kind: "apply", ok: ok, payload: append([]byte(nil), payload...)}
	if !ok {
		return errInjected
	}
	return nil
}

type injected struct{}

func (injected) Error() string { return "injected apply failure" }

var errInjected = injected{}

var reasonOf = map[string]string{
	"Failed to parse entry": "bad",
	"Replication checkpoint parse failed; dropping connection":           "bad",
	"Unexpected message type; dropping connection":                       "bad",
	"Error from writer; dropping connection":                             "bad",
	"Failed to parse error message from writer; dropping connection":     "bad",
	"Replication entry missing MAC tag; dropping connection":             "tag",
	"Replication entry tag length mismatch; dropping connection":         "tag",
	"Replication entry tag malformed; dropping connection":               "tag",
	"Replication entry MAC tag verification failed; dropping connection": "tag",
	"Replication entry sequence did not advance; dropping connection":    "seq",
	"Replication checkpoint cluster name mismatch; dropping connection":  "ckpt-cluster",
	"Replication checkpoint sequence mismatch; dropping connection":      "ckpt-seq",
	"Replication checkpoint hash length mismatch; dropping connection":   "ckpt-hash",
	"Replication checkpoint hash malformed; dropping connection":         "ckpt-hash",
	"Replication checkpoint hash mismatch; dropping connection":          "ckpt-hash",
	"Replication checkpoint HMAC validation failed; dropping connection": "ckpt-mac",
	"Connection closed":               "eof",
	"Failed to apply entry":           "applyfail",
	"Replication checkpoint verified": "ckpt-ok",
}

// Write receives one zerolog JSON line from the REAL receiver's logger.
func (o *obs) Write(p []byte) (int, error) {
	var m map[string]any
	if err := json.Unmarshal(p, &m); err != nil {
		return len(p), nil
	}
	msg, _ := m["message"].(string)
	r, ok := reasonOf[msg]
	if !ok {
		if msg != "Failed to send ack" && msg != "Replication receive loop started without session key, refusing to process stream" {
			o.unknown.Add(1)
		}
		return len(p), nil
	}
	if r == "ckpt-mac" {
		if e, _ := m["error"].(string); strings.Contains(e, "timestamp expired") {
			r = "ckpt-stale"
		}
	}
	o.ch <- rev{kind: "log", reason: r}
	return len(p), nil
}

func (o *obs) next(d time.Duration) (rev, bool) {
	select {
	case e := <-o.ch:
		return e, true
	case <-time.After(d):
		return rev{}, false
	}
}

func (o *obs) drain() {
	for {
		select {
		case <-o.ch:
		default:
			return
		}
	}
}

// ---- sender-side log: reported drops
type sndLog struct {
	mu      sync.Mutex
	dropped []uint64
}

func (s *sndLog) Write(p []byte) (int, error) {
	var m map[string]any
	if json.Unmarshal(p, &m) == nil {
		if msg, _ := m["message"].(string); msg == "Replication buffer full, entry dropped" {
			if v, ok := m["sequence"].(float64); ok {
				s.mu.Lock()
				s.dropped = append(s.dropped, uint64(v))
				s.mu.Unlock()
			}
		}
	}
	return len(p), nil
}

func (s *sndLog) take() []uint64 {
	s.mu.Lock()
	defer s.mu.Unlock()
	d := s.dropped
	s.dropped = nil
	return d
}
