//go:build verif

package main

import (
	"bytes"
	"context"
	"crypto/sha256"
	"encoding/hex"
	"fmt"
	"io"
	"net"
	"sort"
	"strings"
	"sync/atomic"
	"time"

	"github.com/basekick-labs/arc/internal/cluster/replication"
	"github.com/basekick-labs/arc/internal/cluster/security"
	"github.com/basekick-labs/arc/internal/verif/verifsched"
	"github.com/basekick-labs/arc/internal/verif/vh"
	"github.com/basekick-labs/arc/internal/verifclock"
	"github.com/basekick-labs/arc/internal/wal"
	"github.com/rs/zerolog"
)

const (
	secret   = "verif-c24-shared-secret"
	cluster  = "c24"
	senderID = "writer-1"
	readerID = "reader-1"
)

type ent struct {
	seq     uint64
	payload []byte
}

type ckrec struct {
	lastSeq uint64
	hash    []byte
	nonce   string
	sender  string
	ts      int64
	mac     []byte
	session int
}

type oprec struct{ op, out string }

type thr struct {
	t     int
	th    *verifsched.Thread
	entry *replication.ReplicateEntry
	pay   []byte // the entry's payload bytes AT THE TIME of the append call (copied)
}

type session struct {
	id            int
	rid           string
	gate          *gateConn
	a2, b1        net.Conn
	frames        chan frame
	done          chan struct{}
	alive         bool // receiver's receiveLoop is running
	active        bool // sender has the reader
	stalled       bool
	inflight      *oprec
	infEnt        ent
	tags          map[string]uint64
	sent          []ent
	since         int
	W             []frame
	honest        bool
	atWindowStart bool
	applyFail     bool
	applied       []ent
	queuedAt      int // len(world.popped) at connect
}

type world struct {
	c        *vh.Ctx
	r        *vh.Rand
	atomic   bool
	cap      int
	interval int
	tol      int64
	caseNo   int

	sender *replication.Sender
	slog   *sndLog
	recv   *replication.Receiver
	ob     *obs
	ctx    context.Context
	cancel context.CancelFunc
	ww     *wal.Writer

	ops      []*oprec
	holding  map[int]*thr
	mq       []ent
	queued   map[uint64][]byte
	queuedL  []ent
	popped   []ent
	assigned map[uint64]bool
	dropOut  []uint64
	repDrops []uint64
	applied  []ent
	sess     *session
	nsess    int
	ckpts    []ckrec
	hist     []frame
	nontriv  bool
	lockstep bool
	lastHook *replication.ReplicateEntry
	lastPay  []byte
	sentinel atomic.Int64
	frec     func(*replication.ReplicateEntry, []byte)
}

func newWorld(c *vh.Ctx, r *vh.Rand, ww *wal.Writer, atomicF bool, cp, interval int, tol int64, caseNo int) *world {
	w := &world{c: c, r: r, atomic: atomicF, cap: cp, interval: interval, tol: tol, caseNo: caseNo, ww: ww,
		holding: map[int]*thr{}, queued: map[uint64][]byte{}, assigned: map[uint64]bool{}, lockstep: true}
	w.ctx, w.cancel = context.WithCancel(context.Background())
	w.slog = &sndLog{}
	w.sender = replication.NewSender(&replication.SenderConfig{
		BufferSize: cp, WriteTimeout: 10 * time.Minute, Logger: zerolog.New(w.slog),
		SharedSecret: secret, ClusterName: cluster, LocalNodeID: senderID, CheckpointInterval: interval,
	})
	w.sender.Start(w.ctx)
	// a second, permanently connected reader that only counts the entries broadcast to it
	sa, sb := net.Pipe()
	srd, err := w.sender.PrepareReader(sa, "sentinel", "sentinel-nonce", 0)
	if err != nil {
		panic(err)
	}
	w.sender.ActivateReader(srd)
	go func() {
		for {
			f, err := readFrame(sb)
			if err != nil {
				return
			}
			if f.typ == replication.MsgReplicateEntry {
				w.sentinel.Add(1)
			}
		}
	}()
	w.ob = newObs()
	w.recv = replication.NewReceiver(&replication.ReceiverConfig{
		ReaderID: readerID, WriterAddr: "pipe", Logger: zerolog.New(w.ob), SharedSecret: secret, ClusterName: cluster,
		IngestHandler: replication.IngestHandlerFunc(w.ob.apply), AckInterval: 5 * time.Millisecond,
	})
	// the wiring of coordinator.StartReplication (factgen checks the shape of that closure)
	ww.SetReplicationHook(func(e *wal.ReplicationEntry) {
		re := &replication.ReplicateEntry{Sequence: e.Sequence, TimestampUS: e.TimestampUS, Payload: e.Payload}
		// the bytes the writer appended, copied NOW: the entry's payload must stay what it was when
		// it was queued (ownership: an enqueued payload is immutable)
		cp := append([]byte(nil), e.Payload...)
		if w.lockstep {
			w.lastHook = re
			w.lastPay = cp
		}
		w.sender.Replicate(re)
		if !w.lockstep && w.frec != nil {
			w.frec(re, cp)
		}
	})
	b2i := 0
	if atomicF {
		b2i = 1
	}
	w.op(fmt.Sprintf("cfg %d %d %d %d", b2i, cp, interval, tol), "ok")
	return w
}

func (w *world) op(op, out string) *oprec {
	r := &oprec{op, out}
	w.ops = append(w.ops, r)
	return r
}

func (w *world) fail(key, what string) {
	var b strings.Builder
	for _, o := range w.ops {
		b.WriteString(o.op)
		b.WriteString(" => ")
		b.WriteString(o.out)
		b.WriteString("\n")
	}
	s := b.String()
	if len(s) > 6000 {
		s = s[:6000] + "…"
	}
	w.c.Fail(key, what, s)
}

// ---------------------------------------------------------------- producers (lockstep)

// assign starts one append on thread t and runs it up to the schedule point right after the
// sequence assignment of Sender.Replicate. path: 0 = Sender.Replicate directly, 1 = wal.AppendRaw,
// 2 = wal.AppendRawWithMeta (both through the replication hook). holdWal parks it at the WAL's own
// point first (between w.sequence++ and hook(...)) — returns with the thread parked there.
func (w *world) assign(t int, payload []byte, path int) bool {
	entry := &replication.ReplicateEntry{TimestampUS: 1, Payload: payload}
	var th *verifsched.Thread
	name := fmt.Sprintf("p%d", t)
	switch path {
	case 0:
		th = verifsched.Spawn(name, func() { w.sender.Replicate(entry) })
	case 1:
		th = verifsched.Spawn(name, func() { w.ww.AppendRaw(payload) })
	default:
		th = verifsched.Spawn(name, func() { w.ww.AppendRawWithMeta("db", payload) })
	}
	w.lastHook = nil
	th.Release()
	p, ok := th.Await(3 * time.Second)
	if ok && p == "c24.wal.assigned" {
		th.Release()
		p, ok = th.Await(1 * time.Second)
	}
	x := &thr{t: t, th: th, entry: entry}
	if !ok { // blocked before the point: assignment+enqueue are under a lock held by another thread
		w.c.Tag("assign-blocked")
		w.holding[-1-t] = x
		return false
	}
	if p != "c24.assigned" {
		w.op(fmt.Sprintf("a %d %s", t, vh.Hex(payload)), "unexpected-point:"+p)
		return false
	}
	x.pay = append([]byte(nil), payload...)
	if path != 0 {
		x.entry = w.lastHook
		x.pay = w.lastPay
	}
	w.holding[t] = x
	w.assigned[x.entry.Sequence] = true
	w.op(fmt.Sprintf("a %d %s", t, vh.Hex(x.pay)), fmt.Sprintf("seq=%d", x.entry.Sequence))
	return true
}

func (w *world) enqueue(t int) {
	x := w.holding[t]
	delete(w.holding, t)
	before := w.sender.VerifDropped()
	x.th.Release()
	for {
		p, ok := x.th.Await(5 * time.Second)
		if !ok {
			w.op(fmt.Sprintf("e %d", t), "stuck")
			return
		}
		if p == "done" {
			break
		}
		x.th.Release()
	}
	e := ent{x.entry.Sequence, x.pay}
	w.noteEnqueue(t, e, before)
}

// appendDirect runs one append on the harness goroutine itself (no schedule control: assignment and
// enqueue back to back), through the same three paths. Used for bursts behind a stalled reader.
func (w *world) appendDirect(t int, payload []byte, path int) {
	before := w.sender.VerifDropped()
	var seq uint64
	pay := append([]byte(nil), payload...)
	switch path {
	case 0:
		entry := &replication.ReplicateEntry{TimestampUS: 1, Payload: payload}
		w.sender.Replicate(entry)
		seq = entry.Sequence
	case 1:
		w.lastHook = nil
		w.ww.AppendRaw(payload)
		seq, pay = w.lastHook.Sequence, w.lastPay
	default:
		w.lastHook = nil
		w.ww.AppendRawWithMeta("db", payload)
		seq, pay = w.lastHook.Sequence, w.lastPay
	}
	w.assigned[seq] = true
	w.op(fmt.Sprintf("a %d %s", t, vh.Hex(pay)), fmt.Sprintf("seq=%d", seq))
	w.noteEnqueue(t, ent{seq, pay}, before)
}

func (w *world) noteEnqueue(t int, e ent, before int64) {
	if w.sender.VerifDropped() > before {
		w.dropOut = append(w.dropOut, e.seq)
		w.op(fmt.Sprintf("e %d", t), "dropped")
		w.c.Tag("enqueue:dropped")
		w.nontriv = true
	} else {
		w.mq = append(w.mq, e)
		w.queued[e.seq] = e.payload
		w.queuedL = append(w.queuedL, e)
		w.op(fmt.Sprintf("e %d", t), "queued")
		w.c.Tag("enqueue:queued")
	}
	w.settle()
}

// ---------------------------------------------------------------- distribution

func waitFor(d time.Duration, f func() bool) bool {
	end := time.Now().Add(d)
	for !f() {
		if time.Now().After(end) {
			return false
		}
		time.Sleep(50 * time.Microsecond)
	}
	return true
}

// settle lets distributionLoop do what it does eagerly (pop whenever the channel is non-empty and
// it is not stuck in a write) and records one `d` op per pop, in order.
func (w *world) settle() {
	for {
		s := w.sess
		if s != nil && s.active {
			if s.inflight != nil {
				if s.stalled {
					return
				}
				w.collect(s.inflight, s.infEnt)
				s.inflight = nil
				continue
			}
			if len(w.mq) == 0 {
				return
			}
			e := w.mq[0]
			w.mq = w.mq[1:]
			w.popped = append(w.popped, e)
			rec := w.op("d", "")
			if s.stalled {
				if !waitFor(3*time.Second, func() bool { return s.gate.waiting.Load() == 1 }) {
					rec.out = "not-popped"
					return
				}
				s.inflight, s.infEnt = rec, e
				w.c.Tag("dist:inflight-stalled")
				return
			}
			w.collect(rec, e)
			continue
		}
		if len(w.mq) == 0 {
			return
		}
		// the sentinel reader sees one frame per broadcast, written after broadcastEntry took its
		// snapshot of the reader map: once it has seen every enqueued entry, all of them were popped
		// and broadcast without our reader.
		if !waitFor(3*time.Second, func() bool { return w.sentinel.Load() == int64(len(w.queuedL)) }) {
			w.op("d", "not-drained")
			return
		}
		for _, e := range w.mq {
			w.popped = append(w.popped, e)
			w.op("d", "discard")
			w.c.Tag("dist:discard")
		}
		w.mq = nil
		return
	}
}

func (w *world) nextFrame(s *session, d time.Duration) (frame, bool) {
	select {
	case f, ok := <-s.frames:
		return f, ok
	case <-time.After(d):
		return frame{}, false
	}
}

// collect reads what sendToReader wrote for one popped entry: the entry frame and, when the
// interval is reached, the checkpoint frame.
func (w *world) collect(rec *oprec, e ent) {
	s := w.sess
	f, ok := w.nextFrame(s, 3*time.Second)
	if !ok {
		rec.out = "sent-missing"
		return
	}
	ck, err := w.noteSenderFrame(s, f)
	if err != "" {
		rec.out = err
		return
	}
	_ = ck
	pe, _ := replication.ParseEntry(f.body)
	ckS := "-"
	s.since++
	if s.since >= w.interval {
		f2, ok := w.nextFrame(s, 3*time.Second)
		if !ok {
			rec.out = fmt.Sprintf("sent seq=%d ck=missing", pe.Sequence)
			return
		}
		l, err := w.noteSenderFrame(s, f2)
		ckS = fmt.Sprint(l)
		if err != "" {
			ckS += "!" + err
		}
		s.since = 0
		w.c.Tag("dist:checkpoint")
	}
	rec.out = fmt.Sprintf("sent seq=%d ck=%s", pe.Sequence, ckS)
	w.c.Tag("dist:sent")
}

// noteSenderFrame records a frame the REAL sender emitted (entry: tag registry; checkpoint: record +
// check that its hash is the SHA-256 of everything streamed in this session).
func (w *world) noteSenderFrame(s *session, f frame) (uint64, string) {
	w.hist = append(w.hist, f)
	s.W = append(s.W, f)
	switch f.typ {
	case replication.MsgReplicateEntry:
		pe, err := replication.ParseEntry(f.body)
		if err != nil {
			return 0, "sender-frame-unparsable"
		}
		tb, err := hex.DecodeString(pe.Tag)
		if err != nil || len(tb) != security.ReplicationEntryTagLen {
			return 0, "sender-tag-malformed"
		}
		s.tags[string(tb)] = pe.Sequence
		s.sent = append(s.sent, ent{pe.Sequence, pe.Payload})
		return pe.Sequence, ""
	case replication.MsgReplicateCheckpoint:
		cp, err := replication.ParseCheckpoint(f.body)
		if err != nil {
			return 0, "sender-ckpt-unparsable"
		}
		hb, _ := hex.DecodeString(cp.CumulativePayloadHashHex)
		h := sha256.New()
		for _, e := range s.sent {
			h.Write(e.payload)
		}
		mb, _ := hex.DecodeString(cp.HMAC)
		w.ckpts = append(w.ckpts, ckrec{cp.LastSequence, hb, cp.Nonce, cp.SenderNodeID, cp.Timestamp, mb, s.id})
		if !bytes.Equal(h.Sum(nil), hb) { // not the hash of everything streamed since the handshake
			w.c.Tag("dist:checkpoint-hash-not-session-scoped")
			return cp.LastSequence, "hash-not-session-scoped"
		}
		return cp.LastSequence, ""
	}
	return 0, "sender-frame-type"
}

// ---------------------------------------------------------------- sessions

func (w *world) connect() {
	w.nsess++
	a1, a2 := net.Pipe()
	b1, b2 := net.Pipe()
	s := &session{id: w.nsess, gate: newGate(a1), a2: a2, b1: b1, frames: make(chan frame, 1<<14),
		done: make(chan struct{}), alive: true, active: true, tags: map[string]uint64{}, honest: true, atWindowStart: true,
		queuedAt: len(w.popped)}
	nonce := fmt.Sprintf("n%d-%d-%d", w.c.Seed, w.caseNo, w.nsess)
	key, err := security.DeriveReplicationSessionKey(secret, nonce)
	if err != nil {
		panic(err)
	}
	// a fresh reader id per session: the writer's old receiveLoop ends with `defer
	// s.RemoveReader(reader.id)` — by id, so with a re-used id it would tear down the NEW connection
	// (a reconnect race of the real Sender, reported separately; not a C24 clause).
	s.rid = fmt.Sprintf("%s-s%d", readerID, w.nsess)
	rd, err := w.sender.PrepareReader(s.gate, s.rid, nonce, w.recv.LastSequence())
	if err != nil {
		panic(err)
	}
	w.sender.ActivateReader(rd)
	go func() {
		for {
			f, err := readFrame(a2)
			if err != nil {
				close(s.frames)
				return
			}
			s.frames <- f
		}
	}()
	go io.Copy(a2, b1) // acks reader → writer
	w.ob.drain()
	go func() {
		w.recv.VerifServe(w.ctx, b2, key)
		w.ob.ch <- rev{kind: "exit"}
		close(s.done)
	}()
	w.sess = s
	w.op("con", "ok")
	w.c.Tag("session")
}

// outcome of one frame written to the reader.
func (w *world) deliver(f frame) string {
	s := w.sess
	s.b1.SetWriteDeadline(time.Now().Add(3 * time.Second))
	if _, err := s.b1.Write(f.bytes()); err != nil {
		return "write-failed"
	}
	return w.await()
}

func (w *world) await() string {
	s := w.sess
	ev, ok := w.ob.next(5 * time.Second)
	if !ok {
		return "timeout"
	}
	switch ev.kind {
	case "apply":
		if ev.ok {
			return "applied"
		}
		ev2, ok := w.ob.next(5 * time.Second)
		if !ok || ev2.reason != "applyfail" {
			return "applyfail-without-log"
		}
		return "applyfail"
	case "log":
		if ev.reason == "ckpt-ok" {
			return "ckpt-ok"
		}
		if ev.reason == "applyfail" {
			return "applyfail-unexpected"
		}
		ev2, ok := w.ob.next(5 * time.Second)
		if !ok || ev2.kind != "exit" {
			return "drop-without-exit:" + ev.reason
		}
		<-s.done
		s.alive = false
		return "drop:" + ev.reason
	default:
		<-s.done
		s.alive = false
		return "drop:silent"
	}
}

// closeWire: the adversary (or the end of the case) closes the connection to the reader.
func (w *world) closeWire() {
	s := w.sess
	s.b1.Close()
	w.op("cl", w.await())
}

// detach: the writer removes the reader (what broadcastEntry does after a failed write).
func (w *world) detach() {
	s := w.sess
	if s.alive {
		w.closeWire()
	}
	w.sender.RemoveReader(s.rid)
	s.gate.setOpen(true)
	s.stalled = false
	s.active = false
	s.a2.Close()
	s.b1.Close()
	w.op("det", "ok")
	if s.inflight != nil { // the write that was in flight fails; its frame never reached the wire
		s.inflight.out = fmt.Sprintf("sent seq=%d ck=%s", s.infEnt.seq, w.mirrorCk(s))
		if w.mirrorCk(s) != "-" {
			// the model's `dist` step emits entry+checkpoint atomically; the real write was cut before
			// the checkpoint existed. Keep the record indices aligned with a record nothing can match.
			w.ckpts = append(w.ckpts, ckrec{lastSeq: s.infEnt.seq, session: s.id, nonce: "\x00never"})
		}
		s.inflight = nil
	}
	w.sess = nil
	w.settle()
}

func (w *world) mirrorCk(s *session) string {
	if s.since+1 >= w.interval {
		return fmt.Sprint(s.infEnt.seq)
	}
	return "-"
}

// ---------------------------------------------------------------- delivering (classification + monitors)

func (w *world) classify(f frame, applyOk bool) (string, *replication.ReplicateEntry, *replication.ReplicateCheckpoint) {
	s := w.sess
	switch f.typ {
	case replication.MsgReplicateEntry:
		e, err := replication.ParseEntry(f.body)
		if err != nil {
			return "db parse-entry", nil, nil
		}
		ref := "g"
		if len(e.Tag) == 2*security.ReplicationEntryTagLen {
			if tb, err := hex.DecodeString(e.Tag); err == nil {
				if sq, ok := s.tags[string(tb)]; ok {
					ref = fmt.Sprint(sq)
				}
			}
		}
		a := 0
		if applyOk {
			a = 1
		}
		return fmt.Sprintf("de %d %s %s %d", e.Sequence, vh.Hex(e.Payload), ref, a), e, nil
	case replication.MsgReplicateCheckpoint:
		cp, err := replication.ParseCheckpoint(f.body)
		if err != nil {
			return "db parse-ckpt", nil, nil
		}
		href := "x"
		if len(cp.CumulativePayloadHashHex) == 64 {
			if hb, err := hex.DecodeString(cp.CumulativePayloadHashHex); err == nil {
				for i, r := range w.ckpts {
					if bytes.Equal(r.hash, hb) {
						href = fmt.Sprintf("c%d", i)
						break
					}
				}
				if href == "x" && bytes.Equal(hb, emptyHash[:]) {
					href = "e"
				}
			}
		}
		mref := "x"
		if mb, err := hex.DecodeString(cp.HMAC); err == nil {
			for i, r := range w.ckpts {
				if r.nonce == cp.Nonce && r.sender == cp.SenderNodeID && r.ts == cp.Timestamp && bytes.Equal(r.mac, mb) {
					mref = fmt.Sprintf("c%d", i)
					break
				}
			}
		}
		cl := 0
		if cp.ClusterName == cluster {
			cl = 1
		}
		return fmt.Sprintf("dc %d %s %d %%d %s", cp.LastSequence, href, cl, mref), nil, cp
	}
	return fmt.Sprintf("db type-%02x", f.typ), nil, nil
}

var emptyHash = sha256.Sum256(nil)

// send delivers one frame to the REAL receiver, records the op and runs the property monitors.
// drift: for checkpoints, receiver clock minus the frame's timestamp (seconds).
func (w *world) send(f frame, applyOk bool, drift int64) string {
	s := w.sess
	opText, e, cp := w.classify(f, applyOk)
	if cp != nil {
		if cp.Timestamp > 4e9 || cp.Timestamp < -4e9 {
			verifclock.Set(time.Now().UnixNano())
		} else {
			verifclock.Set((cp.Timestamp+drift)*1_000_000_000 + int64(w.r.Intn(1_000_000_000)))
		}
		opText = fmt.Sprintf(opText, verifclock.Now().Unix()-cp.Timestamp)
	}
	w.ob.nextApply.Store(applyOk)
	out := w.deliver(f)
	w.op(opText, out)
	w.c.Tag("recv:" + out)
	if !applyOk {
		s.applyFail = true
	}
	switch {
	case out == "applied":
		x := ent{e.Sequence, e.Payload}
		if n := len(w.applied); n > 0 && w.applied[n-1].seq >= x.seq {
			w.fail("applied-not-increasing:receiveLoop", fmt.Sprintf("reader applied seq %d after seq %d", x.seq, w.applied[n-1].seq))
		}
		if p, ok := w.queued[x.seq]; !ok || !bytes.Equal(p, x.payload) {
			w.fail("applied-not-queued:receiveLoop", fmt.Sprintf("reader applied (seq %d, %d payload bytes) which the writer never enqueued with that sequence/payload", x.seq, len(x.payload)))
		}
		w.applied = append(w.applied, x)
		s.applied = append(s.applied, x)
		if s.honest && !s.applyFail {
			n := len(s.applied)
			if n > len(s.sent) || s.sent[n-1].seq != x.seq {
				w.fail("gap-on-honest-wire:receiveLoop", fmt.Sprintf("honest wire: applied #%d is seq %d but the sender's frame #%d was seq %d", n, x.seq, n, s.sent[min(n, len(s.sent))-1].seq))
			}
		}
	case out == "ckpt-ok":
		w.checkCkpt(s, cp)
	case strings.HasPrefix(out, "drop:"):
		if s.honest && !s.applyFail {
			w.nontriv = true
			w.fail("healthy-connection-dropped:"+strings.TrimPrefix(out, "drop:"),
				fmt.Sprintf("the wire delivered exactly what the sender wrote (no fault injected, no apply error) and the reader dropped the connection: %s", out))
		}
	}
	return out
}

// gap-free at a verified checkpoint (hypotheses of C24_checkpoint: ordered sender stream, non-empty
// payloads, no apply failure in the session).
func (w *world) checkCkpt(s *session, cp *replication.ReplicateCheckpoint) {
	if s.applyFail {
		w.c.Tag("ckpt-monitor:skipped-applyfail")
		return
	}
	for _, p := range w.queued { // the theorem's NonEmpty hypothesis covers every payload of the run
		if len(p) == 0 {
			if len(s.applied) == 0 {
				w.c.Tag("ckpt-monitor:empty-payload-checkpoint-replayed-into-fresh-session")
			}
			w.c.Tag("ckpt-monitor:skipped-hypothesis")
			return
		}
	}
	for i, e := range s.sent {
		if len(e.payload) == 0 || (i > 0 && s.sent[i-1].seq >= e.seq) {
			w.c.Tag("ckpt-monitor:skipped-hypothesis")
			return
		}
	}
	n := len(s.applied)
	okk := n > 0 && n <= len(s.sent) && s.applied[n-1].seq == cp.LastSequence
	for i := 0; okk && i < n; i++ {
		okk = s.sent[i].seq == s.applied[i].seq && bytes.Equal(s.sent[i].payload, s.applied[i].payload)
	}
	if !okk {
		w.fail("checkpoint-verified-with-gap:receiveLoop", fmt.Sprintf("checkpoint last_seq=%d verified although the %d entries applied in this session are not the first %d frames the sender emitted", cp.LastSequence, n, n))
	}
	w.c.Tag("ckpt-monitor:checked")
}

// ---------------------------------------------------------------- end of case

func (w *world) finish() {
	ts := make([]int, 0, len(w.holding))
	for t := range w.holding {
		ts = append(ts, t)
	}
	sort.Ints(ts)
	for _, t := range ts {
		if t >= 0 {
			w.enqueue(t)
		}
	}
	if w.sess != nil && w.sess.stalled {
		w.sess.stalled = false
		w.sess.gate.setOpen(true)
		w.settle()
	}
	if w.sess != nil {
		w.detach()
	}
	w.repDrops = append(w.repDrops, w.slog.take()...)
	// accounting monitor: every assigned sequence number is enqueued or reported as dropped
	rep := map[uint64]bool{}
	for _, d := range w.repDrops {
		rep[d] = true
	}
	for sq := range w.assigned {
		if _, q := w.queued[sq]; !q && !rep[sq] {
			w.fail("drop-not-reported:Sender.Replicate", fmt.Sprintf("sequence %d was assigned, never reached the channel and was not reported as dropped", sq))
		}
	}
	// FIFO monitor: what distributionLoop emitted is the channel order
	ds := make([]string, len(w.repDrops))
	for i, d := range w.repDrops {
		ds[i] = fmt.Sprint(d)
	}
	w.op("end", fmt.Sprintf("last=%d applied=%d dropped=[%s]", w.recv.LastSequence(), len(w.applied), strings.Join(ds, ",")))
	w.sender.Stop()
	w.cancel()
	if n := w.ob.unknown.Load(); n > 0 {
		w.c.Tag("recv:unknown-log-line")
	}
	var canon strings.Builder
	for _, o := range w.ops {
		w.c.Op(o.op, o.out)
		canon.WriteString(o.op)
		canon.WriteByte(';')
	}
	w.c.Case(canon.String(), w.nontriv)
	verifclock.Real()
}
