//go:build verif

// C17 correspondence harness: arc's real performance rewrites (rewriteTimeBucket, rewriteDateTrunc,
// RewriteRegexToStringFuncs, OptimizeLikePatterns) against the real DuckDB linked into arc.
// For every generated input it (1) calls the real rewrite function and records the rewritten SQL text
// (diffed with the Lean model's text), (2) evaluates original and rewritten expression in DuckDB per row
// and compares them (property monitors, c.Fail with one stable key per discrepancy class), and (3)
// records DuckDB's own value of every modelled function (epoch, ::BIGINT, //, to_timestamp, date_trunc,
// time_bucket, LIKE/3VL, regexp_replace/extract, split_part/substr) so that the Lean semantics are
// validated against DuckDB itself.
package main

import (
	"database/sql"
	"encoding/hex"
	"fmt"
	"io"
	"math"
	"os"
	"sort"
	"strconv"
	"strings"

	"github.com/basekick-labs/arc/internal/api"
	"github.com/basekick-labs/arc/internal/database"
	"github.com/basekick-labs/arc/internal/verif/vh"
	"github.com/rs/zerolog"
)

var (
	c  *vh.Ctx
	db *sql.DB
	r  *vh.Rand
)

func must(err error) {
	if err != nil {
		panic(err)
	}
}

func hx(s string) string {
	if s == "" {
		return "-"
	}
	return hex.EncodeToString([]byte(s))
}

// ---------------------------------------------------------------- exact integer model (classification only)

const usPerSec = int64(1000000)
const defaultOriginSec = int64(946857600)

func floorDiv(a, b int64) int64 {
	q := a / b
	if (a%b != 0) && ((a < 0) != (b < 0)) {
		q--
	}
	return q
}
func secOf(t int64) int64  { return floorDiv(t, usPerSec) }
func fracOf(t int64) int64 { return t - secOf(t)*usPerSec }
func roundsUp(t int64) bool {
	f := fracOf(t)
	s := secOf(t)
	return f > 500000 || (f == 500000 && ((s%2)+2)%2 == 1)
}
func epochX(t int64) int64 {
	if roundsUp(t) {
		return secOf(t) + 1
	}
	return secOf(t)
}

type cfg struct {
	isDt   bool
	unit   string // date_trunc unit (lower)
	three  bool
	s      int64 // seconds of the rewrite
	o      int64 // originEpoch of the rewrite
	W      int64 // original width µs
	O      int64 // original origin µs
	kept   bool
	orig   string // original call text
	rew    string // text the real code put in its place
	label  string
	column string
	noRows bool // configuration only (interval rejected by DuckDB / width outside the int64 µs range)
}

func (g *cfg) origX(t int64) int64 {
	return g.O + floorDiv(t-g.O, g.W)*g.W
}
func (g *cfg) rewX(t int64) int64 {
	if g.three { // since ee4a0eb: integer-µs floor arithmetic on the origin's phase — exact
		return g.origX(t)
	}
	return (g.o + (epochX(t)-g.o)/g.s*g.s) * usPerSec
}

func within53(t int64) bool { return t <= 1<<53 && t >= -(1<<53) }

// classify names the discrepancy class of a row on which DuckDB(original) != DuckDB(rewritten).
func (g *cfg) classify(t, ov, nv int64) string {
	fn := "time_bucket"
	if g.isDt {
		fn = "date_trunc"
	}
	if g.isDt && g.unit == "week" {
		return fn + ":week-starts-thursday-in-epoch-arithmetic"
	}
	if !g.isDt && g.s*usPerSec != g.W {
		return fn + ":amount-parsed-differently" // the rewrite's width is not DuckDB's reading of the interval literal
	}
	if !g.isDt && g.O%usPerSec != 0 {
		return fn + ":origin-subsecond-truncated"
	}
	if !g.isDt && !g.three && defaultOriginSec%g.s != 0 {
		return fn + ":default-origin-2000-01-03-ignored"
	}
	if d := ov - nv; (!within53(t) || !within53(ov)) && d > -usPerSec && d < usPerSec { // input or bucket start beyond 2^53 µs
		return fn + ":far-future-double-precision" // sub-second difference outside the exact range of binary64
	}
	if g.origX(t) == g.rewX(t) {
		if !within53(t) {
			return fn + ":far-future-double-precision"
		}
		return fn + ":unclassified"
	}
	e := epochX(t) - g.o
	if e < 0 {
		if g.three {
			return fn + ":before-origin-truncates-toward-zero"
		}
		return fn + ":pre-1970-truncates-toward-zero"
	}
	if roundsUp(t) {
		return fn + ":subsecond-rounds-up-across-bucket-edge"
	}
	return fn + ":unclassified"
}

// ---------------------------------------------------------------- DuckDB helpers

func loadTs(ts []int64) {
	_, err := db.Exec("CREATE OR REPLACE TABLE c17ts(i INTEGER, us BIGINT)")
	must(err)
	for lo := 0; lo < len(ts); lo += 500 {
		hi := lo + 500
		if hi > len(ts) {
			hi = len(ts)
		}
		var sb strings.Builder
		sb.WriteString("INSERT INTO c17ts VALUES ")
		for i := lo; i < hi; i++ {
			if i > lo {
				sb.WriteByte(',')
			}
			fmt.Fprintf(&sb, "(%d,%d)", i, ts[i])
		}
		_, err := db.Exec(sb.String())
		must(err)
	}
}

func oneLine(s string) string { return strings.Join(strings.Fields(s), " ") }

// evalPairs evaluates two BIGINT-valued expressions over c17ts (column ts = make_timestamp(us)).
// Returns per row (a, aok, b, bok); a row whose expression raises an error has ok=false and err text.
type pairRes struct {
	a, b       sql.NullInt64
	aerr, berr string
}

func queryCol(q string, n int) ([]sql.NullInt64, error) {
	rows, err := db.Query(q)
	if err != nil {
		return nil, err
	}
	defer rows.Close()
	out := make([]sql.NullInt64, 0, n)
	for rows.Next() {
		var v sql.NullInt64
		if err := rows.Scan(&v); err != nil {
			return nil, err
		}
		out = append(out, v)
	}
	return out, rows.Err()
}

const tsFrom = "(SELECT i, make_timestamp(us) AS ts, make_timestamp(us) AS \"time\" FROM c17ts) t"

func evalExpr(expr string, ts []int64) ([]sql.NullInt64, []string) {
	n := len(ts)
	errs := make([]string, n)
	vals, err := queryCol("SELECT epoch_us("+expr+") FROM "+tsFrom+" ORDER BY i", n)
	if err == nil && len(vals) == n {
		return vals, errs
	}
	vals = make([]sql.NullInt64, n)
	for i := range ts {
		v, err := queryCol(fmt.Sprintf("SELECT epoch_us(%s) FROM %s WHERE i = %d", expr, tsFrom, i), 1)
		if err != nil || len(v) != 1 {
			errs[i] = "error"
			if err != nil {
				errs[i] = oneLine(err.Error())
			}
			continue
		}
		vals[i] = v[0]
	}
	return vals, errs
}

// ---------------------------------------------------------------- A. per-function validation

func f64canon(f float64) string {
	if f == 0 {
		return "0"
	}
	b := math.Float64bits(f)
	neg := b>>63 == 1
	exp := int((b >> 52) & 0x7ff)
	m := b & (1<<52 - 1)
	if exp == 0 {
		exp = 1
	} else {
		m |= 1 << 52
	}
	e := exp - 1075
	for m != 0 && m%2 == 0 {
		m /= 2
		e++
	}
	s := ""
	if neg {
		s = "-"
	}
	return fmt.Sprintf("%s%dp%d", s, m, e)
}

func genTimestamps(n int, extra []int64) []int64 {
	ts := append([]int64{}, extra...)
	ranges := [][2]int64{
		{1577836800e6, 1893456000e6},   // 2020..2030
		{-2208988800e6, 0},             // 1900..1970
		{0, 4102444800e6},              // 1970..2100
		{8e15, 9.1e15},                 // around 2^53 µs (year ~2255)
		{1e16, 9.0e18},                 // far future
		{-9.0e18, -1e16},               // far past
		{-62135596800e6, -2208988800e6}, // year 1..1900
	}
	fr := []int64{0, 1, 499999, 500000, 500001, 999999, 250000, 750000}
	for len(ts) < n {
		rg := ranges[r.Intn(len(ranges))]
		span := rg[1] - rg[0]
		t := rg[0] + int64(r.U64()%uint64(span))
		switch r.Intn(3) {
		case 0:
			t = floorDiv(t, usPerSec)*usPerSec + vh.Pick(r, fr)
		case 1:
			t = floorDiv(t, usPerSec) * usPerSec
		}
		ts = append(ts, t)
	}
	return ts
}

func validateFunctions(n int) {
	edges := []int64{0, 1, -1, 500000, -500000, 1500000, -1500000, 2500000, -2500000, 499999, 500001, -499999, -500001,
		1 << 53, 1<<53 + 1, 1<<53 - 1, -(1 << 53), 9007199254740993, 8589934592500000, 8589934592499999, 17179869184500001,
		17179869184499999, 9000000000000500000, 9000000000000499999, -9000000000000500000, 9100000000000000000, 253402300799999999}
	ts := genTimestamps(n, edges)
	loadTs(ts)
	rows, err := db.Query("SELECT epoch(ts), epoch(ts)::BIGINT FROM " + tsFrom + " ORDER BY i")
	must(err)
	i := 0
	for rows.Next() {
		var d float64
		var b int64
		must(rows.Scan(&d, &b))
		x := 0
		if b == epochX(ts[i]) {
			x = 1
		}
		if within53(ts[i]) && x == 0 {
			c.Tag("fn:epoch-exact-model-differs-within-2^53")
		}
		c.Op(fmt.Sprintf("fn epoch %d", ts[i]), fmt.Sprintf("d=%s i=%d x=%d", f64canon(d), b, x))
		c.Tag("fn:epoch")
		i++
	}
	must(rows.Err())
	rows.Close()
	// to_timestamp on BIGINT seconds
	var xs []int64
	for _, t := range ts {
		xs = append(xs, floorDiv(t, usPerSec))
	}
	xs = append(xs, 9223372036854, -9223372022400, 549755813888, 549755813889, 1<<39+12345)
	loadTs(xs)
	vals, err := queryCol("SELECT epoch_us(to_timestamp(us)) FROM c17ts ORDER BY i", len(xs))
	must(err)
	for i, v := range vals {
		x := 0
		if v.Int64 == xs[i]*usPerSec && xs[i] < 9223372036854 && xs[i] > -9223372036854 {
			x = 1
		}
		c.Op(fmt.Sprintf("fn tots %d", xs[i]), fmt.Sprintf("%d x=%d", v.Int64, x))
		c.Tag("fn:to_timestamp")
	}
	// integer division
	as := []int64{0, 1, -1, 7, -7, 3599, -3599, 3600, -3600, 3601, -3601, 1700000000, -1700000000, 9223372036854, -9223372036854}
	bs := []int64{1, 2, 60, 3600, 86400, 604800, 25200, 7}
	for k := 0; k < n/4; k++ {
		as = append(as, int64(r.U64()%20000000000)-10000000000)
	}
	for _, a := range as {
		b := vh.Pick(r, bs)
		var v sql.NullInt64
		must(db.QueryRow(fmt.Sprintf("SELECT (%d::BIGINT) // (%d::BIGINT)", a, b)).Scan(&v))
		c.Op(fmt.Sprintf("fn idiv %d %d", a, b), fmt.Sprintf("%d", v.Int64))
		c.Tag("fn:idiv")
	}
	// origin parsing (real parseTimeBucketOrigin) and intervalToSeconds (real)
	for _, o := range originCorpus() {
		t, err := api.VerifParseTimeBucketOrigin(o)
		out := "err"
		if err == nil {
			out = fmt.Sprintf("%d %d", t.Unix(), t.Nanosecond()/1000)
		}
		c.Op("fn origin "+hx(o), out)
		c.Tag("fn:origin")
	}
	for k := 0; k < 40; k++ {
		o := randOrigin()
		t, err := api.VerifParseTimeBucketOrigin(o)
		out := "err"
		if err == nil {
			out = fmt.Sprintf("%d %d", t.Unix(), t.Nanosecond()/1000)
		}
		c.Op("fn origin "+hx(o), out)
	}
	for _, u := range []string{"second", "minute", "hour", "day", "week", "month", "year", "hours", "Hour", ""} {
		for _, a := range []string{"0", "1", "5", "90", "1000000", "007", "010", "0015", "08", "09", "030", "00", "9223372036854775807", "9223372036854775808", "99999999999999999999"} {
			if u == "" {
				continue
			}
			if len(a) > 10 && u != "second" {
				continue // n*mult would overflow int; outside the model's stated precondition
			}
			c.Op(fmt.Sprintf("fn its %s %s", a, u), strconv.Itoa(api.VerifIntervalToSeconds(a, u)))
			c.Tag("fn:intervalToSeconds")
		}
	}
}

func originCorpus() []string {
	return []string{"2024-01-01", "2024-01-01 00:30:00", "2024-01-01T00:30:00", "2024-01-01 00:30:00Z", "2024-01-01T00:30:00Z",
		"2000-01-03", "1970-01-01", "1969-12-31 23:59:59", "1900-03-01 12:00:00", "2024-02-29 23:59:59", "2023-02-29", "2024-13-01",
		"2024-01-01 00:00:00.5", "2024-01-01 00:00:00.123456", "2024-01-01T00:00:00.999999Z", "garbage", "2024-01-01 24:00:00",
		"2024-01-01 00:60:00", "2024-1-1", "2262-04-11 23:47:16", "0001-01-01", "9999-12-31 23:59:59", "2024-01-01 00:00:00 ", "2024-04-31",
		"2024-01-01 00:00:00.", "2024-01-01 00:00:00.1234567"}
}

func randOrigin() string {
	y := vh.Pick(r, []int{1, 1600, 1899, 1960, 1969, 1970, 1999, 2000, 2024, 2038, 2100, 2400, 9999})
	mo, d := r.Range(1, 12), r.Range(1, 31)
	h, mi, s := r.Range(0, 23), r.Range(0, 59), r.Range(0, 59)
	date := fmt.Sprintf("%04d-%02d-%02d", y, mo, d)
	switch r.Intn(6) {
	case 0:
		return date
	case 1:
		return fmt.Sprintf("%s %02d:%02d:%02d", date, h, mi, s)
	case 2:
		return fmt.Sprintf("%sT%02d:%02d:%02d", date, h, mi, s)
	case 3:
		return fmt.Sprintf("%s %02d:%02d:%02dZ", date, h, mi, s)
	case 4:
		return fmt.Sprintf("%sT%02d:%02d:%02dZ", date, h, mi, s)
	}
	return fmt.Sprintf("%s %02d:%02d:%02d.%d", date, h, mi, s, r.Intn(1000))
}

// ---------------------------------------------------------------- B/C. date_trunc and time_bucket

var unitSecs = map[string]int64{"second": 1, "minute": 60, "hour": 3600, "day": 86400, "week": 604800}

// applyRewrite runs the real rewrite on `SELECT <call> AS b FROM t` and returns the text that replaced <call>.
func applyRewrite(call string, dt bool) (string, bool) {
	prefix, suffix := "SELECT ", " AS b FROM t"
	in := prefix + call + suffix
	var out string
	if dt {
		out = api.VerifRewriteDateTrunc(in)
	} else {
		out = api.VerifRewriteTimeBucket(in)
	}
	if !strings.HasPrefix(out, prefix) || !strings.HasSuffix(out, suffix) || len(out) < len(prefix)+len(suffix) {
		return out, false
	}
	return out[len(prefix) : len(out)-len(suffix)], true
}

func edgeTimestamps(g *cfg, n int) []int64 {
	var ts []int64
	deltas := []int64{-300000, -500000, 0, 1, 499999, 500000, 500001, 999999, 1000000, 1500000, 2500000, -1000001, -1000000, -500001, -499999, -1}
	add := func(base int64) {
		for _, d := range deltas {
			t := base + d
			if t > -9.0e18 && t < 9.0e18 {
				ts = append(ts, t)
			}
		}
	}
	W := g.W
	if W <= 0 {
		W = usPerSec
	}
	anchors := []int64{1700000000 * usPerSec, 0, g.O, -1000000000 * usPerSec, 1 << 53, 4e18}
	for _, a := range anchors {
		if W > 4e18 {
			continue
		}
		k := floorDiv(a-g.O, W)
		for _, dk := range []int64{0, 1} {
			base := g.O + (k+dk)*W // an edge of the original grid
			if (k+dk) != 0 && (base-g.O)/(k+dk) != W {
				continue
			}
			add(base)
		}
		if g.s > 0 && g.s < 4e12 {
			sw := g.s * usPerSec
			base := g.o*usPerSec + floorDiv(a-g.o*usPerSec, sw)*sw // an edge of the rewrite's grid
			add(base)
		}
	}
	if len(ts) > n*2/3 {
		r2 := r.Fork()
		keep := ts[:0]
		for _, t := range ts {
			if r2.Intn(len(ts)) < n*2/3 {
				keep = append(keep, t)
			}
		}
		ts = keep
	}
	return genTimestamps(n, ts)
}

func runTimeCfg(g *cfg, nTs int) {
	var opLine string
	if g.isDt {
		opLine = fmt.Sprintf("dtcfg %s %s", g.label, g.column)
	} else {
		opLine = g.label
	}
	impl := g.rew
	if g.kept {
		impl = "keep"
	}
	c.Op(opLine, impl)
	fn := "time_bucket"
	if g.isDt {
		fn = "date_trunc"
	}
	if g.kept {
		c.Tag(fn + ":kept")
		c.Case(opLine, false)
		return
	}
	c.Tag(fn + ":rewritten")
	if g.noRows {
		c.Tag(fn + ":rewritten-but-interval-not-evaluable")
		c.Case(opLine, true)
		// no model rows (width outside the modelled range); still: where DuckDB evaluates the original,
		// the rewrite must agree
		probe := []int64{0, 1700000000 * usPerSec, -1000000000 * usPerSec}
		loadTs(probe)
		ov, oerr := evalExpr(g.orig, probe)
		nv, nerr := evalExpr(g.rew, probe)
		for i, t := range probe {
			if oerr[i] == "" && (nerr[i] != "" || ov[i] != nv[i]) {
				key := fn + ":width-outside-int64-microseconds"
				if nerr[i] == "" && g.s > 0 && g.s <= 9223372036854 { // the width itself still fits: an ordinary class
					g.W = g.s * usPerSec
					key = g.classify(t, ov[i].Int64, nv[i].Int64)
				}
				c.Tag("mismatch:" + key)
				c.Fail(key, fmt.Sprintf("%s = %d for ts=%dµs but arc's rewrite %s = %d %s", g.orig, ov[i].Int64, t, g.rew, nv[i].Int64, nerr[i]),
					fmt.Sprintf("SELECT epoch_us(%s) AS original, epoch_us(%s) AS rewritten FROM (SELECT make_timestamp(%d) AS ts, make_timestamp(%d) AS \"time\") t;", g.orig, g.rew, t, t))
				break
			}
		}
		return
	}
	ts := edgeTimestamps(g, nTs)
	loadTs(ts)
	origExpr, rewExpr := g.orig, g.rew
	if _, err := queryCol("SELECT epoch_us("+origExpr+") FROM "+tsFrom+" WHERE i = 0", 1); err != nil && strings.Contains(err.Error(), "Binder Error") {
		c.Tag(fn + ":original-rejected-by-duckdb-binder") // e.g. an untyped string origin: ambiguous overload
		c.Case(opLine, true)
		return
	}
	ov, oerr := evalExpr(origExpr, ts)
	nv, nerr := evalExpr(rewExpr, ts)
	var canon strings.Builder
	canon.WriteString(opLine)
	for i, t := range ts {
		if oerr[i] != "" {
			c.Tag(fn + ":original-errors")
			continue
		}
		replay := fmt.Sprintf("SELECT epoch_us(%s) AS original, epoch_us(%s) AS rewritten FROM (SELECT make_timestamp(%d) AS ts, make_timestamp(%d) AS \"time\") t;",
			origExpr, rewExpr, t, t)
		if nerr[i] != "" {
			c.Fail(fn+":rewritten-expression-errors", fmt.Sprintf("%s evaluates on ts=%dµs but arc's rewrite %s raises: %s", g.orig, t, g.rew, nerr[i]), replay)
			continue
		}
		c.Op(fmt.Sprintf("t %d", t), fmt.Sprintf("o=%d n=%d", ov[i].Int64, nv[i].Int64))
		fmt.Fprintf(&canon, " %d", t)
		if ov[i].Int64 != nv[i].Int64 {
			key := g.classify(t, ov[i].Int64, nv[i].Int64)
			c.Tag("mismatch:" + key)
			c.Fail(key, fmt.Sprintf("DuckDB: %s = %dµs but arc's rewrite %s = %dµs for ts = %dµs", g.orig, ov[i].Int64, g.rew, nv[i].Int64, t), replay)
		} else {
			c.Tag(fn + ":equal")
		}
	}
	c.Case(canon.String(), true)
}

func dtConfigs(units []string) []*cfg {
	var out []*cfg
	spell := func(u string, k int) string {
		switch k {
		case 1:
			return strings.ToUpper(u)
		case 2:
			return strings.ToUpper(u[:1]) + u[1:]
		}
		return u
	}
	for _, u := range units {
		for k := 0; k < 3; k++ {
			us := spell(u, k)
			col := vh.Pick(r, []string{"ts", "time", "t.ts", "\"time\""})
			if k == 2 && r.Chance(30) {
				col = "(ts)"
			}
			call := []string{"date_trunc('%s', %s)", "DATE_TRUNC( '%s' ,  %s )", "Date_Trunc('%s',%s)"}[k]
			call = fmt.Sprintf(call, us, col)
			rew, ok := applyRewrite(call, true)
			if !ok {
				panic("date_trunc rewrite damaged the surrounding SQL: " + rew)
			}
			g := &cfg{isDt: true, unit: strings.ToLower(u), orig: call, rew: rew, kept: rew == call, label: us, column: col}
			g.s = unitSecs[g.unit]
			g.W = g.s * usPerSec
			if g.unit == "week" {
				g.O = 345600 * usPerSec
			}
			out = append(out, g)
		}
	}
	return out
}

func tbConfig(amount string, unitw string, origin string, hasOrigin bool, style int, col string) *cfg {
	iv := fmt.Sprintf("'%s %s'", amount, unitw)
	if style&1 == 1 {
		iv = "INTERVAL " + iv
	}
	call := ""
	if hasOrigin {
		o := "'" + origin + "'"
		if style&2 == 2 || r.Chance(70) {
			o = "TIMESTAMP " + o
		}
		call = fmt.Sprintf("time_bucket(%s, %s, %s)", iv, col, o)
	} else {
		call = fmt.Sprintf("time_bucket(%s, %s)", iv, col)
	}
	if style&4 == 4 {
		call = strings.Replace(call, "time_bucket(", "TIME_BUCKET( ", 1)
	}
	rew, ok := applyRewrite(call, false)
	if !ok {
		panic("time_bucket rewrite damaged the surrounding SQL: " + rew)
	}
	g := &cfg{orig: call, rew: rew, kept: rew == call, three: hasOrigin, column: col}
	oh := "-"
	if hasOrigin {
		oh = hx(origin)
	}
	amt := amount
	if amount == "" || strings.ContainsAny(amount, " \t") {
		amt = "h:" + hx(amount)
	}
	g.label = fmt.Sprintf("tbcfg %s %s %s %s", amt, unitw, col, oh)
	if g.kept {
		return g
	}
	g.O = defaultOriginSec * usPerSec
	if hasOrigin {
		t, err := api.VerifParseTimeBucketOrigin(origin)
		must(err)
		g.o = t.Unix()
		g.O = g.o*usPerSec + int64(t.Nanosecond()/1000)
	}
	// the width the REAL rewrite uses (same unit normalisation as rewriteTimeBucket) …
	g.s = int64(api.VerifIntervalToSeconds(strings.TrimRight(amount, " \t"), strings.ToLower(strings.TrimSuffix(unitw, "s")))) // `(\d+)\s*`: trailing blanks are not captured
	// … and DuckDB's own reading of the interval literal
	var w sql.NullInt64
	if err := db.QueryRow(fmt.Sprintf("SELECT epoch_us(TIMESTAMP '1970-01-01 00:00:00' + INTERVAL '%s %s')", amount, unitw)).Scan(&w); err != nil || !w.Valid || w.Int64 <= 0 {
		g.noRows = true
		return g
	}
	g.W = w.Int64
	if g.s <= 0 || g.s > 9e12 {
		g.noRows = true
		return g
	}
	return g
}

// ---------------------------------------------------------------- D. LIKE / <> '' reordering

type ex struct {
	k    byte // 'L','N','E','Q' atoms; '!' not; '&' and; '|' or
	c, p int
	a, b *ex
}

var likePats = []string{"%google%", "%.google.%", "abc%", "%"}
var eqVals = []string{"abc", "", "google"}
var cellVals = []any{nil, "", "google", "a.google.b", "abc"}

func (e *ex) enc() string {
	switch e.k {
	case 'L', 'N', 'Q':
		return fmt.Sprintf("%c%d%d", e.k, e.c, e.p)
	case 'E':
		return fmt.Sprintf("E%d", e.c)
	case '!':
		return "!" + e.a.enc()
	}
	return "(" + e.a.enc() + string(e.k) + e.b.enc() + ")"
}
func (e *ex) sql() string {
	switch e.k {
	case 'L':
		return fmt.Sprintf("c%d LIKE '%s'", e.c, likePats[e.p])
	case 'N':
		return fmt.Sprintf("c%d NOT LIKE '%s'", e.c, likePats[e.p])
	case 'Q':
		return fmt.Sprintf("c%d = '%s'", e.c, eqVals[e.p])
	case 'E':
		return fmt.Sprintf("c%d <> ''", e.c)
	case '!':
		return "NOT " + e.a.sql()
	case '&':
		return "(" + e.a.sql() + " AND " + e.b.sql() + ")"
	}
	return "(" + e.a.sql() + " OR " + e.b.sql() + ")"
}

type where [][]*ex

func (w where) enc() string {
	var ds []string
	for _, d := range w {
		var fs []string
		for _, f := range d {
			fs = append(fs, f.enc())
		}
		ds = append(ds, strings.Join(fs, "&"))
	}
	return strings.Join(ds, "|")
}
func (w where) sql() string {
	var ds []string
	for _, d := range w {
		var fs []string
		for _, f := range d {
			fs = append(fs, f.sql())
		}
		ds = append(ds, strings.Join(fs, " AND "))
	}
	return strings.Join(ds, " OR ")
}

func genAtom() *ex {
	switch x := r.Intn(100); {
	case x < 35:
		return &ex{k: 'L', c: r.Intn(3), p: r.Intn(4)}
	case x < 50:
		return &ex{k: 'N', c: r.Intn(3), p: r.Intn(4)}
	case x < 85:
		return &ex{k: 'E', c: r.Intn(3)}
	}
	return &ex{k: 'Q', c: r.Intn(3), p: r.Intn(3)}
}
func genFac(depth int) *ex {
	x := r.Intn(100)
	switch {
	case x < 55 || depth == 0:
		return genAtom()
	case x < 70:
		return &ex{k: '!', a: genFac(depth - 1)}
	case x < 85:
		return &ex{k: '&', a: genFac(depth - 1), b: genFac(depth - 1)}
	}
	return &ex{k: '|', a: genFac(depth - 1), b: genFac(depth - 1)}
}
func genWhere() where {
	nd := 1
	if x := r.Intn(100); x >= 85 {
		nd = 3
	} else if x >= 55 {
		nd = 2
	}
	var w where
	for i := 0; i < nd; i++ {
		var d []*ex
		for j, k := 0, r.Range(1, 4); j < k; j++ {
			d = append(d, genFac(2))
		}
		w = append(w, d)
	}
	if r.Chance(60) { // make pattern 2 applicable: the clause ends in `AND col <> ''`
		last := w[len(w)-1]
		if len(last) == 1 {
			last = append(last, nil)
		}
		last[len(last)-1] = &ex{k: 'E', c: r.Intn(3)}
		w[len(w)-1] = last
	}
	if r.Chance(35) { // make pattern 1 applicable: the clause starts with `<like> AND col <> ''`
		first := w[0]
		for len(first) < 2 {
			first = append(first, genAtom())
		}
		k := byte('L')
		if r.Chance(30) {
			k = 'N'
		}
		first[0] = &ex{k: k, c: r.Intn(3), p: r.Intn(4)}
		first[1] = &ex{k: 'E', c: r.Intn(3)}
		w[0] = first
	}
	return w
}

func at(k byte, cidx, p int) *ex { return &ex{k: k, c: cidx, p: p} }

func likeCorpus() []where {
	L, N, E, Q := func(c, p int) *ex { return at('L', c, p) }, func(c, p int) *ex { return at('N', c, p) }, func(c int) *ex { return at('E', c, 0) }, func(c, p int) *ex { return at('Q', c, p) }
	not := func(a *ex) *ex { return &ex{k: '!', a: a} }
	and := func(a, b *ex) *ex { return &ex{k: '&', a: a, b: b} }
	or := func(a, b *ex) *ex { return &ex{k: '|', a: a, b: b} }
	return []where{
		{{L(0, 0), E(1)}},                          // ClickBench Q21
		{{L(0, 0), N(1, 1), E(2)}},                 // ClickBench Q23
		{{E(1), L(0, 0)}},                          // already first
		{{E(0), L(1, 0), E(2)}},                    // both ends
		{{Q(0, 0), Q(1, 2), E(2)}},                 // no LIKE: untouched
		{{L(0, 0)}, {Q(1, 0), E(2)}},               // OR at top level: a LIKE .. OR b = .. AND c <> ''
		{{Q(1, 0)}, {L(0, 0), E(2)}},               //
		{{L(0, 0), E(1)}, {Q(2, 0)}},               // pattern 1 only
		{{L(0, 0), E(1)}, {Q(2, 0), E(0)}},         // pattern 1 then pattern 2 across OR
		{{or(L(0, 0), Q(1, 0)), E(2)}},             // parenthesised OR: safe
		{{not(L(0, 0)), E(1)}},                     // NOT a LIKE .. AND b <> ''
		{{L(0, 0), not(E(1))}},                     // negated empty check: untouched
		{{and(L(0, 0), E(1))}},                     // parenthesised: untouched
		{{L(0, 0), and(Q(1, 0), E(2))}},            // empty check inside parentheses at the end
		{{not(or(L(0, 1), not(E(2)))), Q(0, 1), E(1)}},
		{{L(0, 0)}, {L(1, 1)}, {N(2, 2), E(0)}},
		{{E(0)}, {L(1, 0), E(0)}},
	}
}

func loadRows() {
	_, err := db.Exec("CREATE OR REPLACE TABLE c17rows(id INTEGER, c0 VARCHAR, c1 VARCHAR, c2 VARCHAR)")
	must(err)
	for id := 0; id < 125; id++ {
		_, err := db.Exec("INSERT INTO c17rows VALUES (?, ?, ?, ?)", id, cellVals[id/25], cellVals[(id/5)%5], cellVals[id%5])
		must(err)
	}
}

func truthVec(clause string) (string, error) {
	rows, err := db.Query("SELECT (" + clause + ") FROM c17rows ORDER BY id")
	if err != nil {
		return "", err
	}
	defer rows.Close()
	var sb strings.Builder
	for rows.Next() {
		var v sql.NullBool
		if err := rows.Scan(&v); err != nil {
			return "", err
		}
		switch {
		case !v.Valid:
			sb.WriteByte('N')
		case v.Bool:
			sb.WriteByte('T')
		default:
			sb.WriteByte('F')
		}
	}
	return sb.String(), rows.Err()
}

func idList(q string) (string, error) {
	rows, err := db.Query(q)
	if err != nil {
		return "", err
	}
	defer rows.Close()
	var ids []int
	for rows.Next() {
		var v int
		if err := rows.Scan(&v); err != nil {
			return "", err
		}
		ids = append(ids, v)
	}
	sort.Ints(ids)
	return fmt.Sprint(ids), rows.Err()
}

var likeSuffixes = []struct {
	s     string
	endOk int
}{{"", 1}, {" ORDER BY id", 1}, {" LIMIT 1000", 1}, {" GROUP BY id", 1}, {"  ", 1}, {" order by id limit 500", 1}, {";", 0}, {" UNION ALL SELECT -1", 0}}

func runLike(w where) {
	sfx := likeSuffixes[r.Intn(len(likeSuffixes))]
	prefix := "SELECT id FROM c17rows WHERE "
	clause := w.sql()
	in := prefix + clause + sfx.s
	out, changed := api.OptimizeLikePatterns(in)
	op := fmt.Sprintf("like %d %s", sfx.endOk, w.enc())
	if !strings.HasPrefix(out, prefix) || !strings.HasSuffix(out, sfx.s) {
		c.Fail("like-reorder:surrounding-sql-damaged", "OptimizeLikePatterns changed text outside the WHERE clause", in+"\n→ "+out)
		c.Op(op, "damaged")
		return
	}
	newClause := out[len(prefix) : len(out)-len(sfx.s)]
	ov, err := truthVec(clause)
	must(err)
	nv, err := truthVec(newClause)
	if err != nil {
		c.Fail("like-reorder:rewritten-sql-invalid", "rewritten WHERE clause is rejected by DuckDB: "+oneLine(err.Error()), in+"\n→ "+out)
		c.Op(op, "sql="+newClause+" invalid")
		return
	}
	c.Op(op, fmt.Sprintf("sql=%s o=%s n=%s", newClause, ov, nv))
	c.Case(op, changed)
	switch {
	case !changed:
		c.Tag("like:unchanged")
	case len(w) > 1:
		c.Tag("like:reordered-with-top-level-OR")
	default:
		c.Tag("like:reordered")
	}
	// filter decision per row: TRUE keeps the row, FALSE/NULL drops it
	for i := 0; i < len(ov) && i < len(nv); i++ {
		if (ov[i] == 'T') != (nv[i] == 'T') {
			key := "like-reorder:unclassified"
			if len(w) > 1 {
				key = "like-reorder:empty-check-moved-across-top-level-OR"
			}
			c.Tag("mismatch:" + key)
			c.Fail(key, fmt.Sprintf("row id=%d (c0,c1,c2 = %v,%v,%v): original WHERE is %c, rewritten WHERE is %c", i, cellVals[i/25], cellVals[(i/5)%5], cellVals[i%5], ov[i], nv[i]),
				"original:  "+in+"\nrewritten: "+out+"\nrows: c17rows = {NULL,'','google','a.google.b','abc'}^3, id = 25*i0+5*i1+i2")
			break
		}
	}
	if ov != nv {
		c.Tag("like:3vl-vector-differs")
	}
	// the whole statements, when they are valid stand-alone (GROUP BY id / UNION need no change)
	if a, err := idList(in); err == nil {
		b, err2 := idList(out)
		if err2 != nil {
			c.Fail("like-reorder:rewritten-sql-invalid", "rewritten statement is rejected by DuckDB: "+oneLine(err2.Error()), in+"\n→ "+out)
		} else if a != b && !strings.Contains(sfx.s, "LIMIT") && !strings.Contains(sfx.s, "limit") {
			c.Tag("like:statement-result-differs")
		}
	}
}

// ---------------------------------------------------------------- E. URL-domain regex → CASE

const patReplace = `^https?://(?:www\.)?([^/]+)/.*$`
const patExtract = `^https?://(?:www\.)?([^/]+)`

func urlCorpus() []string {
	return []string{"", "http://example.com", "http://example.com/", "https://www.example.com/path/x?q=1", "http://www.example.com/a", "https://sub.example.com/a/b",
		"https://www./x", "https://www.", "http://www.", "https://www", "https://", "http://", "http:///x", "https:///", "foo/bar", "foo", "/x", "//",
		"HTTPS://EXAMPLE.COM/", "Https://www.a.com/", "ftp://a.com/x", "https://a.com/x\ny", "https://a\nb.com/x", "https://a.com/\n", "https://é.com/ü", "https://www.é.com/",
		"https://www.www.a.com/", "http://https://a.com/", "https://a.com//", "x https://a.com/", " https://a.com/", "https://a.com", "https://www.a.com", "https:/a.com/",
		"http://a", "http://a/", "https://w/", "https://www.a/", "www.a.com/x", "https://a.com/http://b.com/", "'", "https://a'b.com/'", "%", "https://%/_"}
}

func randURL() string {
	pieces := []string{"http://", "https://", "www.", "/", ".", "a", "example", "com", "\n", "é", "HTTP://", "?q=", "www", ":", "//", "x/y", "", " ", "-", "%", "_", "ww.", "http:/", "s"}
	if r.Chance(50) {
		s := vh.Pick(r, []string{"http://", "https://", "http://www.", "https://www.", "", "HTTPS://"})
		s += vh.Pick(r, []string{"example.com", "a", "", "www.", "sub.a.org", "é.fr", "a\nb"})
		s += vh.Pick(r, []string{"", "/", "/p", "/p/q?x=1", "//", "/\n", "/a\nb"})
		return s
	}
	var sb strings.Builder
	for i, k := 0, r.Range(0, 6); i < k; i++ {
		sb.WriteString(vh.Pick(r, pieces))
	}
	return sb.String()
}

func classifyReplace(s string) string {
	var rest string
	switch {
	case strings.HasPrefix(s, "https://"):
		rest = s[8:]
	case strings.HasPrefix(s, "http://"):
		rest = s[7:]
	default:
		return "url-replace:no-scheme-input-cut-at-slash"
	}
	if strings.HasPrefix(rest, "www.") && (len(rest) == 4 || rest[4] == '/') {
		return "url-replace:www-dot-with-empty-domain"
	}
	if strings.HasPrefix(rest, "www.") {
		rest = rest[4:]
	}
	i := strings.IndexByte(rest, '/')
	switch {
	case i < 0:
		return "url-replace:url-without-path-slash"
	case i == 0:
		return "url-replace:empty-host"
	case strings.Contains(rest[i:], "\n"):
		return "url-replace:newline-in-path"
	}
	return "url-replace:unclassified"
}

func classifyExtract(s string) string {
	var rest string
	switch {
	case strings.HasPrefix(s, "https://"):
		rest = s[8:]
	case strings.HasPrefix(s, "http://"):
		rest = s[7:]
	default:
		return "url-extract:no-scheme-input-not-empty"
	}
	if strings.HasPrefix(rest, "www.") && (len(rest) == 4 || rest[4] == '/') {
		return "url-extract:www-dot-with-empty-domain"
	}
	return "url-extract:unclassified"
}

func nullHex(v sql.NullString) string {
	if !v.Valid {
		return "NULL"
	}
	return hx(v.String)
}

func urlRewrite(call string) (string, bool) {
	prefix, suffix := "SELECT ", " AS k FROM c17urls ORDER BY i"
	out, _ := api.RewriteRegexToStringFuncs(prefix + call + suffix)
	if !strings.HasPrefix(out, prefix) || !strings.HasSuffix(out, suffix) {
		return out, false
	}
	return out[len(prefix) : len(out)-len(suffix)], true
}

func strCol(expr string) ([]sql.NullString, error) {
	rows, err := db.Query("SELECT " + expr + " FROM c17urls ORDER BY i")
	if err != nil {
		return nil, err
	}
	defer rows.Close()
	var out []sql.NullString
	for rows.Next() {
		var v sql.NullString
		if err := rows.Scan(&v); err != nil {
			return nil, err
		}
		out = append(out, v)
	}
	return out, rows.Err()
}

func runURLs(n int) {
	urls := urlCorpus()
	for len(urls) < n {
		urls = append(urls, randURL())
	}
	_, err := db.Exec("CREATE OR REPLACE TABLE c17urls(i INTEGER, u VARCHAR)")
	must(err)
	_, err = db.Exec("INSERT INTO c17urls VALUES (-1, NULL)")
	must(err)
	for i, u := range urls {
		_, err := db.Exec("INSERT INTO c17urls VALUES (?, ?)", i, u)
		must(err)
	}
	callRep := "REGEXP_REPLACE(u, '" + patReplace + `', '\1')`
	callExt := "REGEXP_EXTRACT(u, '" + patExtract + "', 1)"
	caseRep, ok1 := urlRewrite(callRep)
	caseExt, ok2 := urlRewrite(callExt)
	if !ok1 || !ok2 || caseRep == callRep || caseExt == callExt {
		panic("canonical URL-domain patterns are no longer rewritten: " + caseRep + " / " + caseExt)
	}
	c.Op("urlcfg r u "+hx(callRep), caseRep)
	c.Op("urlcfg e u "+hx(callExt), caseExt)
	// a differently named / cased call, and the `\/` spelling of the same pattern
	altCall := "regexp_replace( Referer , '" + patReplace + `' , '\1' )`
	if alt, ok := urlRewrite(altCall); ok && alt != altCall {
		c.Op("urlcfg r Referer "+hx(altCall), alt)
	}
	escCall := `REGEXP_EXTRACT(u, '^https?:\/\/(?:www\.)?([^\/]+)', 1)`
	if alt, ok := urlRewrite(escCall); ok && alt != escCall {
		c.Op("urlcfg e u "+hx(escCall), alt)
	}
	rep, err := strCol(callRep)
	must(err)
	ext, err := strCol(callExt)
	must(err)
	cs, err := strCol(caseRep)
	must(err)
	csE, err := strCol(caseExt) // the replacement of the REGEXP_EXTRACT call (same text as caseRep today)
	must(err)
	for i := range rep { // row 0 is the NULL row (i = -1)
		var op, s string
		if i == 0 {
			op = "url NULL"
		} else {
			s = urls[i-1]
			op = "url " + hx(s)
		}
		c.Op(op, fmt.Sprintf("rep=%s ext=%s caseR=%s caseE=%s", nullHex(rep[i]), nullHex(ext[i]), nullHex(cs[i]), nullHex(csE[i])))
		c.Case(op, strings.HasPrefix(s, "http"))
		if rep[i] != cs[i] {
			key := classifyReplace(s)
			c.Tag("mismatch:" + key)
			c.Fail(key, fmt.Sprintf("u=%q: REGEXP_REPLACE(u,'%s','\\1') = %q but arc's CASE rewrite = %q", s, patReplace, rep[i].String, cs[i].String),
				fmt.Sprintf("SELECT %s AS original, %s AS rewritten FROM (SELECT %s AS u);", callRep, caseRep, sqlStr(s)))
		} else {
			c.Tag("url-replace:equal")
		}
		if ext[i] != csE[i] {
			key := classifyExtract(s)
			c.Tag("mismatch:" + key)
			c.Fail(key, fmt.Sprintf("u=%q: REGEXP_EXTRACT(u,'%s',1) = %q but arc's CASE rewrite = %q", s, patExtract, ext[i].String, csE[i].String),
				fmt.Sprintf("SELECT %s AS original, %s AS rewritten FROM (SELECT %s AS u);", callExt, caseExt, sqlStr(s)))
		} else {
			c.Tag("url-extract:equal")
		}
	}
	// other patterns that trigger the same rewrite (monitor only: no Lean model of arbitrary regexes)
	variants := []struct{ key, call string }{
		{"url-variant:pattern-without-www-group-gets-www-stripped", `REGEXP_REPLACE(u, '^https?://([^/]+)/.*$', '\1')`},
		{"url-variant:unanchored-pattern", `REGEXP_EXTRACT(u, 'https?://(?:www\.)?([^/]+)', 1)`},
		{"url-variant:double-backslash-replacement-is-literal", "REGEXP_REPLACE(u, '" + patReplace + `', '\\1')`},
		{"url-variant:escaped-slash-class", `REGEXP_REPLACE(u, '^https?:\/\/(?:www\.)?([^\/]+)\/.*$', '\1')`},
		{"url-variant:https-only-pattern", `REGEXP_EXTRACT(u, '^https://([^/]+)', 1)`},
	}
	for _, v := range variants {
		rw, ok := urlRewrite(v.call)
		if !ok || rw == v.call {
			c.Tag("url-variant:not-rewritten")
			continue
		}
		a, err := strCol(v.call)
		if err != nil {
			c.Tag("url-variant:original-errors")
			continue
		}
		b, err := strCol(rw)
		must(err)
		base := rep
		if strings.HasPrefix(v.call, "REGEXP_EXTRACT") {
			base = ext
		}
		for i := range a {
			// only rows on which the canonical pattern agrees with the CASE: the difference is specific to the variant
			baseCase := cs
			if strings.HasPrefix(v.call, "REGEXP_EXTRACT") {
				baseCase = csE
			}
			if a[i] != b[i] && base[i] == baseCase[i] {
				s := ""
				if i > 0 {
					s = urls[i-1]
				}
				c.Tag("mismatch:" + v.key)
				c.Fail(v.key, fmt.Sprintf("u=%q: %s = %q but arc's CASE rewrite = %q", s, v.call, a[i].String, b[i].String),
					fmt.Sprintf("SELECT %s AS original, %s AS rewritten FROM (SELECT %s AS u);", v.call, rw, sqlStr(s)))
				break
			}
		}
	}
}

func sqlStr(s string) string { return "'" + strings.ReplaceAll(s, "'", "''") + "'" }

// ---------------------------------------------------------------- special timestamps (monitor only)

func specialTimestamps() {
	for _, sp := range []string{"'infinity'::TIMESTAMP", "'-infinity'::TIMESTAMP", "NULL::TIMESTAMP"} {
		for _, call := range []string{"date_trunc('hour', ts)", "time_bucket(INTERVAL '1 hour', ts)"} {
			rew, ok := applyRewrite(call, strings.HasPrefix(call, "date"))
			if !ok || rew == call {
				continue
			}
			q := func(e string) (string, error) {
				var v sql.NullString
				err := db.QueryRow("SELECT (" + e + ")::VARCHAR FROM (SELECT " + sp + " AS ts)").Scan(&v)
				if err != nil {
					return "", err
				}
				if !v.Valid {
					return "NULL", nil
				}
				return strings.TrimSuffix(v.String, "+00"), nil
			}
			a, err := q(call)
			if err != nil {
				continue
			}
			b, err := q(rew)
			fn := call[:strings.Index(call, "(")]
			replay := fmt.Sprintf("SELECT %s AS original, %s AS rewritten FROM (SELECT %s AS ts);", call, rew, sp)
			if err != nil {
				c.Tag("mismatch:" + fn + ":infinity-cast-error")
				c.Fail(fn+":infinity-cast-error", fmt.Sprintf("%s on %s = %s but the rewrite raises: %s", call, sp, a, oneLine(err.Error())), replay)
			} else if a != b {
				c.Tag("mismatch:" + fn + ":infinity-becomes-null")
				c.Fail(fn+":infinity-becomes-null", fmt.Sprintf("%s on %s = %s but the rewrite = %s", call, sp, a, b), replay)
			} else {
				c.Tag(fn + ":special-equal")
			}
		}
	}
}

func factStrings(key string, def []string) []string {
	v, ok := c.Facts[key].([]any)
	if !ok {
		return def
	}
	var out []string
	for _, x := range v {
		out = append(out, x.(string))
	}
	return out
}

func main() {
	c = vh.Start()
	r = vh.NewRand(c.Seed)
	logger := zerolog.New(io.Discard).Level(zerolog.Disabled)
	root, err := os.MkdirTemp("/var/tmp", "verif-c17-*")
	must(err)
	defer os.RemoveAll(root)
	d, err := database.New(&database.Config{MemoryLimit: "512MB", ThreadCount: 2, MaxConnections: 1, LocalStorageRoot: root}, logger)
	must(err)
	defer d.Close()
	db = d.DB()
	db.SetMaxOpenConns(1)
	var tz string
	must(db.QueryRow("SELECT current_setting('TimeZone')").Scan(&tz))
	c.Extra["duckdb_timezone"] = tz

	scale := 1
	if c.Thorough() {
		scale = 12
	}
	if c.N > 0 {
		scale = c.N
	}
	dtUnits := factStrings("dt_units", []string{"second", "minute", "hour", "day", "week", "month"})
	tbUnits := factStrings("tb_units", []string{"second", "seconds", "minute", "minutes", "hour", "hours", "day", "days", "week", "weeks", "month", "months"})

	// A. DuckDB function semantics + arc helper functions
	validateFunctions(300 * scale)

	// B. date_trunc: every unit of the trigger regex, three spellings
	for _, g := range dtConfigs(dtUnits) {
		runTimeCfg(g, 150*scale)
	}
	specialTimestamps()

	// C. time_bucket: edge grid of (amount, unit word) with and without origin, then random
	amounts := []string{"1", "2", "5", "7", "15", "30", "90", "0", "99999999999999999999"}
	origins := []string{"2024-01-01", "2024-01-01 00:30:00", "1969-12-31T23:00:00", "2000-01-03 00:00:00Z", "2024-01-01 00:00:00.5", "2023-02-29", "2030-06-15T12:34:56Z"}
	grid := 0
	for _, a := range amounts {
		for _, u := range tbUnits {
			grid++
			if !c.Thorough() && grid%3 != int(c.Seed%3) && !(a == "1" || a == "7") {
				continue
			}
			runTimeCfg(tbConfig(a, u, "", false, r.Intn(8), "ts"), 60*scale)
			o := origins[grid%len(origins)]
			runTimeCfg(tbConfig(a, u, o, true, r.Intn(8), "ts"), 60*scale)
		}
	}
	// amount spellings: leading zeros (Go must read them in base 10 like DuckDB), signs, blanks, decimals,
	// exponents, hex-looking, underscores, very large — on every seed, with and without origin
	spellings := []string{"010", "08", "09", "0015", "007", "030", "012", "0005", "00010", "0100", "000", "+5", " 5", "5.0", "1e1", "0x10", "1_0", "5 ", "-5",
		"2147483647", "2147483648", "3000000000", "4294967296", "9223372036854775807", "9223372036854775808", "9223372036854", "9223372036855"}
	spellInfo := map[string]string{}
	for _, a := range spellings {
		units := []string{"seconds", "minute", "hours"}
		if len(a) >= 10 {
			units = []string{"seconds"}
		}
		for _, u := range units {
			var w sql.NullInt64
			if err := db.QueryRow(fmt.Sprintf("SELECT epoch_us(TIMESTAMP '1970-01-01 00:00:00' + INTERVAL '%s %s')", a, u)).Scan(&w); err != nil {
				spellInfo[a+" "+u] = "duckdb-rejects"
			} else {
				spellInfo[a+" "+u] = fmt.Sprintf("duckdb-width-us=%d", w.Int64)
			}
			g2 := tbConfig(a, u, "", false, 1, "ts")
			spellInfo[a+" "+u] += map[bool]string{true: " arc-keeps", false: fmt.Sprintf(" arc-seconds=%d", g2.s)}[g2.kept]
			runTimeCfg(g2, 60)
			runTimeCfg(tbConfig(a, u, "2024-01-01", true, 3, "ts"), 60)
		}
	}
	c.Extra["amount_spellings"] = spellInfo
	for _, a := range []string{"200000000", "15250284", "15250285", "3000000"} { // widths beyond int64 µs that DuckDB may still accept (days are stored separately)
		runTimeCfg(tbConfig(a, "weeks", "", false, 1, "ts"), 20)
		runTimeCfg(tbConfig(a, "weeks", "2024-01-01", true, 3, "ts"), 20)
	}
	// spellings the regex accepts / rejects
	for _, u := range []string{"HOURS", "Hours", "hourS", "HOUR", "Minute"} {
		runTimeCfg(tbConfig("3", u, "", false, 1, "ts"), 40)
	}
	runTimeCfg(tbConfig("1", "hour", "", false, 1, "(ts)"), 10)
	runTimeCfg(tbConfig("1", "hour", "2024-01-01", true, 3, "(ts)"), 10)
	for k := 0; k < 25*scale; k++ {
		a := strconv.Itoa(vh.Pick(r, []int{1, 2, 3, 4, 5, 6, 7, 8, 10, 12, 13, 15, 20, 24, 30, 45, 48, 60, 90, 100, 365, 1000, 86400, r.Range(1, 100000)}))
		u := vh.Pick(r, tbUnits)
		col := vh.Pick(r, []string{"ts", "time", "t.ts"})
		if r.Bool() {
			runTimeCfg(tbConfig(a, u, "", false, r.Intn(8), col), 40*scale)
		} else {
			o := randOrigin()
			if r.Chance(30) {
				o = vh.Pick(r, origins)
			}
			runTimeCfg(tbConfig(a, u, o, true, r.Intn(8), col), 40*scale)
		}
	}

	// D. LIKE / <> '' reordering
	loadRows()
	for _, w := range likeCorpus() {
		runLike(w)
	}
	for k := 0; k < 400*scale; k++ {
		runLike(genWhere())
	}

	// E. URL-domain extraction
	runURLs(1500 * scale)

	// malformed ops
	c.Op("bogus 1 2", "bad-op")
	c.Op("t notanumber", "bad-op")
	c.Op("like 1 L0", "bad-op")

	c.Finish("cases = (rewrite configuration, timestamp list) for date_trunc/time_bucket, one WHERE clause for the LIKE optimizer, one string for the URL rewrite; edge grids (bucket edges of both grids ± sub-second deltas, pre-1970, 2^53 µs, far future/past; ClickBench shapes; URL corpus) run before random; non-trivial = the real rewrite changed the SQL (time/LIKE) or the string has an http scheme (URL); distinct = distinct op text")
}
