//go:build verif

// C28 correspondence harness: drives the REAL slidingWindowCounter, quotaTracker and Manager of
// internal/governance under the virtual clock (the overlay clockifies sliding_window.go,
// quota_tracker.go, manager.go), in the order executeQuery uses (CheckRateLimit, then CheckQuota).
//
// Ops (one line each; all times are unix ns of the virtual clock):
//
//	sw.new W slots limit now | sw.allow now | sw.burst now k | sw.limit L | sw.rem now | sw.retry now
//	qt.new mh md now | qt.allow now | qt.burst now k | qt.limits mh md | qt.usage now
//	m.new drpm drph dqh dqd | m.set tok rpm rph qh qd now | m.del tok | m.query tok now |
//	m.burst tok now k | m.usage tok now
//
// `burst` = k concurrent goroutines at a frozen clock (aggregate outcome is schedule independent).
// Every output line carries the full internal state of the touched limiter/tracker (hooks).
package main

import (
	"context"
	"database/sql"
	"fmt"
	"strings"
	"sync"
	"time"

	"github.com/basekick-labs/arc/internal/config"
	"github.com/basekick-labs/arc/internal/governance"
	"github.com/basekick-labs/arc/internal/metrics"
	"github.com/basekick-labs/arc/internal/verif/vh"
	"github.com/basekick-labs/arc/internal/verifclock"
	_ "github.com/mattn/go-sqlite3"
	"github.com/rs/zerolog"
)

const (
	ms   = int64(time.Millisecond)
	sec  = int64(time.Second)
	hr   = int64(time.Hour)
	day  = 24 * int64(time.Hour)
	h0   = int64(1700002800) * sec // an hour boundary (2023-11-14T23:00:00Z)
	d0   = int64(1700006400) * sec // a UTC day boundary (2023-11-15T00:00:00Z)
	goff = 62135596800             // seconds from Go's zero time to the unix epoch
)

// ---------------------------------------------------------------- formatting (must match Drive/C28.lean)

func slotsStr(sl []int) string {
	var b []string
	for i, v := range sl {
		if v != 0 {
			b = append(b, fmt.Sprintf("%d:%d", i, v))
		}
	}
	if len(b) == 0 {
		return "-"
	}
	return strings.Join(b, ",")
}

func swStr(s *governance.VerifSW) string {
	st := s.VerifState()
	return fmt.Sprintf("total=%d cur=%d last=%d limit=%d slots=%s", st.Total, st.Cur, st.Last, st.Limit, slotsStr(st.Slots))
}

func qtStr(q *governance.VerifQT) string {
	st := q.VerifState()
	return fmt.Sprintf("h=%d d=%d hr=%d dr=%d mh=%d md=%d", st.H, st.D, st.HourReset, st.DayReset, st.MaxH, st.MaxD)
}

func tokStr(m *governance.Manager, tok int64) string {
	mi, ho, qt := m.VerifTok(tok)
	a, b, c := "M[-]", "H[-]", "Q[-]"
	if mi != nil {
		a = "M[" + swStr(mi) + "]"
	}
	if ho != nil {
		b = "H[" + swStr(ho) + "]"
	}
	if qt != nil {
		c = "Q[" + qtStr(qt) + "]"
	}
	return a + " " + b + " " + c
}

// ---------------------------------------------------------------- property monitors

// swMon watches one limiter (from creation to deletion). Times are *effective* times: the running
// maximum of the clock readings the limiter has seen (equal to the reading itself while the clock
// never goes backwards).
type swMon struct {
	site      string
	w         int64 // configured window length
	n         int64 // slot count
	d         int64 // slot duration
	eff       int64
	admitted  []int64 // queries admitted while a positive limit was in force
	passed    []int64 // requests this limiter counted while a positive limit was in force
	lim0      int
	limChange bool
	init      bool
}

func (mo *swMon) see(now int64) int64 {
	if !mo.init || now > mo.eff {
		mo.eff = now
		mo.init = true
	}
	return mo.eff
}

func countSince(ts []int64, lo int64, closed bool) int {
	k := 0
	for i := len(ts) - 1; i >= 0; i-- {
		if ts[i] > lo || (closed && ts[i] == lo) {
			k++
		} else {
			break
		}
	}
	return k
}

func (mo *swMon) noteLimit(l int) {
	if !mo.limChange && mo.lim0 == 0 {
		mo.lim0 = l
	} else if l != mo.lim0 {
		mo.limChange = true
	}
}

// onPass: the limiter let a request through (limit = the limit in force, >0) at effective time t.
func (mo *swMon) onPass(t int64) { mo.passed = append(mo.passed, t) }

// onAdmit: a query was admitted (passed every check) at effective time t under positive limit.
func (mo *swMon) onAdmit(c *vh.Ctx, t int64, limit int, replay func() string) {
	mo.admitted = append(mo.admitted, t)
	mo.noteLimit(limit)
	// (b) what the code does guarantee: any closed window of length (n-1)*d
	if k := countSince(mo.admitted, t-(mo.n-1)*mo.d, true); k > limit {
		c.Fail("slotwindow-exceeded:"+mo.site,
			fmt.Sprintf("%s: %d queries admitted within (n-1)*d = %dns ending at %d, limit %d — the slotted counter's own guarantee is broken", mo.site, k, (mo.n-1)*mo.d, t, limit), replay())
		return
	}
	// (a) the property as stated: any window of the configured length
	if mo.w > 0 {
		if k := countSince(mo.admitted, t-mo.w, false); k > limit {
			first := mo.admitted[len(mo.admitted)-k]
			c.Fail("window-exceeded:"+mo.site,
				fmt.Sprintf("%s: %d queries admitted in the window (%d, %d] of the configured length %dns (they span only %dns), limit %d", mo.site, k, t-mo.w, t, mo.w, t-first, limit), replay())
		}
	}
	// (c) with a constant limit the slotted counter admits at most 2*limit per n*d
	if !mo.limChange {
		if k := countSince(mo.admitted, t-mo.n*mo.d, true); k > 2*limit {
			c.Fail("window-2x-exceeded:"+mo.site,
				fmt.Sprintf("%s: %d queries admitted within n*d = %dns ending at %d, more than 2*limit (limit %d)", mo.site, k, mo.n*mo.d, t, limit), replay())
		}
	}
}

// onReject: the limiter rejected at effective time t under limit>0: at least `limit` counted
// requests must lie in the last n*d (otherwise the rejection is spurious, e.g. a raised limit
// not applied to the next request).
func (mo *swMon) onReject(c *vh.Ctx, t int64, limit int, replay func() string) {
	if k := countSince(mo.passed, t-mo.n*mo.d, false); k < limit {
		c.Fail("spurious-reject:"+mo.site,
			fmt.Sprintf("%s: rejected at %d under limit %d although only %d requests were counted in the last n*d = %dns", mo.site, t, limit, k, mo.n*mo.d), replay())
	}
}

// qtMon watches one quota tracker.
type qtMon struct {
	site string
	eff  int64
	init bool
	admH []int64 // admitted while maxPerHour > 0
	admD []int64 // admitted while maxPerDay > 0
	all  []int64 // every query the tracker counted
}

func (mo *qtMon) see(now int64) int64 {
	if !mo.init || now > mo.eff {
		mo.eff = now
		mo.init = true
	}
	return mo.eff
}

func fdiv(a, b int64) int64 {
	q := a / b
	if a%b != 0 && (a < 0) != (b < 0) {
		q--
	}
	return q
}

func countBucket(ts []int64, t, period int64, skipBoundary bool) int {
	k := 0
	b := fdiv(t, period)
	for i := len(ts) - 1; i >= 0; i-- {
		if fdiv(ts[i], period) != b {
			break
		}
		if skipBoundary && ts[i]%period == 0 {
			continue
		}
		k++
	}
	return k
}

func (mo *qtMon) onAdmit(c *vh.Ctx, t int64, maxH, maxD int, replay func() string) {
	mo.all = append(mo.all, t)
	chk := func(name string, ts []int64, period int64, max int) {
		k := countBucket(ts, t, period, false)
		if k <= max {
			return
		}
		if countBucket(ts, t, period, true) <= max {
			c.Fail("quota-"+name+"-exceeded:boundary-instant:"+mo.site,
				fmt.Sprintf("%s: %d queries admitted in the clock %s starting at %d, quota %d — queries arriving exactly at the reset instant are charged to the previous %s", mo.site, k, name, fdiv(t, period)*period, max, name), replay())
		} else {
			c.Fail("quota-"+name+"-exceeded:"+mo.site,
				fmt.Sprintf("%s: %d queries admitted in the clock %s starting at %d, quota %d", mo.site, k, name, fdiv(t, period)*period, max), replay())
		}
	}
	if maxH > 0 {
		mo.admH = append(mo.admH, t)
		chk("hour", mo.admH, hr, maxH)
	}
	if maxD > 0 {
		mo.admD = append(mo.admD, t)
		chk("day", mo.admD, day, maxD)
	}
}

func (mo *qtMon) onReject(c *vh.Ctx, t int64, which string, max int, replay func() string) {
	period := hr
	if which == "day" {
		period = day
	}
	lo := fdiv(t, period) * period
	if t%period == 0 {
		lo -= period
	}
	if k := countSince(mo.all, lo, true); k < max {
		c.Fail("spurious-quota-reject:"+mo.site,
			fmt.Sprintf("%s: %s quota %d rejected at %d although only %d queries were counted since %d", mo.site, which, max, t, k, lo), replay())
	}
}

// ---------------------------------------------------------------- case runner

type runner struct {
	c     *vh.Ctx
	canon strings.Builder
	nOps  int
	rej   bool
}

func (r *runner) op(op, out string) {
	r.c.Op(op, out)
	r.canon.WriteString(op)
	r.canon.WriteByte(';')
	r.nOps++
}
func (r *runner) replay() string { return r.canon.String() }
func (r *runner) done() {
	r.c.Case(r.canon.String(), r.rej)
}

// ---- unit sliding window
type swCase struct {
	r   *runner
	s   *governance.VerifSW
	mon *swMon
}

func newSWCase(c *vh.Ctx, w int64, slots, limit int, now int64) *swCase {
	verifclock.Set(now)
	k := &swCase{r: &runner{c: c}}
	k.s = governance.VerifNewSW(time.Duration(w), slots, limit)
	st := k.s.VerifState()
	k.mon = &swMon{site: "sw-unit", w: w, n: int64(st.N), d: st.D}
	k.mon.see(now)
	k.r.op(fmt.Sprintf("sw.new %d %d %d %d", w, slots, limit, now), fmt.Sprintf("ok d=%d n=%d last=%d", st.D, st.N, st.Last))
	return k
}

func (k *swCase) allow(now int64) bool {
	verifclock.Set(now)
	ok := k.s.Allow()
	t := k.mon.see(now)
	lim := k.s.VerifState().Limit
	op := fmt.Sprintf("sw.allow %d", now)
	b := "0 "
	if ok {
		b = "1 "
	}
	k.r.op(op, b+swStr(k.s))
	k.r.c.Tag(fmt.Sprintf("sw.allow:%v", ok))
	if ok {
		k.mon.onPass(t)
	}
	if lim > 0 {
		if ok {
			k.mon.onAdmit(k.r.c, t, lim, k.r.replay)
		} else {
			k.r.rej = true
			k.mon.onReject(k.r.c, t, lim, k.r.replay)
		}
	}
	return ok
}

func (k *swCase) burst(now int64, n int) {
	verifclock.Set(now)
	var wg sync.WaitGroup
	res := make([]bool, n)
	for i := 0; i < n; i++ {
		wg.Add(1)
		go func(i int) { defer wg.Done(); res[i] = k.s.Allow() }(i)
	}
	wg.Wait()
	t := k.mon.see(now)
	lim := k.s.VerifState().Limit
	a := 0
	for _, ok := range res {
		if ok {
			a++
		}
	}
	k.r.op(fmt.Sprintf("sw.burst %d %d", now, n), fmt.Sprintf("adm=%d ", a)+swStr(k.s))
	k.r.c.Tag("sw.burst")
	for i := 0; i < a; i++ {
		k.mon.onPass(t)
	}
	if lim > 0 {
		for i := 0; i < a; i++ {
			k.mon.onAdmit(k.r.c, t, lim, k.r.replay)
		}
		if a < n {
			k.r.rej = true
			k.mon.onReject(k.r.c, t, lim, k.r.replay)
		}
	}
}

func (k *swCase) limit(l int) {
	k.s.UpdateLimit(l)
	k.r.op(fmt.Sprintf("sw.limit %d", l), "ok")
	k.r.c.Tag("sw.limit")
}
func (k *swCase) rem(now int64) {
	verifclock.Set(now)
	v := k.s.Remaining()
	k.mon.see(now)
	k.r.op(fmt.Sprintf("sw.rem %d", now), fmt.Sprintf("rem=%d ", v)+swStr(k.s))
	k.r.c.Tag("sw.rem")
}
func (k *swCase) retry(now int64) {
	verifclock.Set(now)
	v := k.s.RetryAfterSec()
	k.mon.see(now)
	k.r.op(fmt.Sprintf("sw.retry %d", now), fmt.Sprintf("retry=%d ", v)+swStr(k.s))
	k.r.c.Tag("sw.retry")
}

// ---- unit quota tracker
type qtCase struct {
	r   *runner
	q   *governance.VerifQT
	mon *qtMon
}

func newQTCase(c *vh.Ctx, mh, md int, now int64) *qtCase {
	verifclock.Set(now)
	k := &qtCase{r: &runner{c: c}, mon: &qtMon{site: "qt-unit"}}
	k.q = governance.VerifNewQT(mh, md)
	k.mon.see(now)
	k.r.op(fmt.Sprintf("qt.new %d %d %d", mh, md, now), "ok "+qtStr(k.q))
	return k
}

func (k *qtCase) allow(now int64) bool {
	verifclock.Set(now)
	ok, reason := k.q.AllowQuery()
	t := k.mon.see(now)
	st := k.q.VerifState()
	v := "ok"
	switch {
	case ok:
	case strings.HasPrefix(reason, "Hourly"):
		v = "hour"
	case strings.HasPrefix(reason, "Daily"):
		v = "day"
	default:
		v = "other:" + strings.ReplaceAll(reason, " ", "_")
	}
	k.r.op(fmt.Sprintf("qt.allow %d", now), v+" "+qtStr(k.q))
	k.r.c.Tag("qt.allow:" + v)
	if ok {
		k.mon.onAdmit(k.r.c, t, st.MaxH, st.MaxD, k.r.replay)
	} else {
		k.r.rej = true
		if v == "hour" {
			k.mon.onReject(k.r.c, t, v, st.MaxH, k.r.replay)
		} else if v == "day" {
			k.mon.onReject(k.r.c, t, v, st.MaxD, k.r.replay)
		}
	}
	return ok
}

func (k *qtCase) burst(now int64, n int) {
	verifclock.Set(now)
	var wg sync.WaitGroup
	res := make([]int, n)
	for i := 0; i < n; i++ {
		wg.Add(1)
		go func(i int) {
			defer wg.Done()
			ok, reason := k.q.AllowQuery()
			switch {
			case ok:
				res[i] = 0
			case strings.HasPrefix(reason, "Hourly"):
				res[i] = 1
			default:
				res[i] = 2
			}
		}(i)
	}
	wg.Wait()
	t := k.mon.see(now)
	st := k.q.VerifState()
	var cnt [3]int
	for _, v := range res {
		cnt[v]++
	}
	k.r.op(fmt.Sprintf("qt.burst %d %d", now, n), fmt.Sprintf("adm=%d hour=%d day=%d ", cnt[0], cnt[1], cnt[2])+qtStr(k.q))
	k.r.c.Tag("qt.burst")
	for i := 0; i < cnt[0]; i++ {
		k.mon.onAdmit(k.r.c, t, st.MaxH, st.MaxD, k.r.replay)
	}
	if cnt[1] > 0 {
		k.r.rej = true
		k.mon.onReject(k.r.c, t, "hour", st.MaxH, k.r.replay)
	}
	if cnt[2] > 0 {
		k.r.rej = true
		k.mon.onReject(k.r.c, t, "day", st.MaxD, k.r.replay)
	}
}

func (k *qtCase) limits(mh, md int) {
	k.q.UpdateLimits(mh, md)
	k.r.op(fmt.Sprintf("qt.limits %d %d", mh, md), "ok")
	k.r.c.Tag("qt.limits")
}
func (k *qtCase) usage(now int64) {
	verifclock.Set(now)
	k.q.GetUsage()
	k.mon.see(now)
	k.r.op(fmt.Sprintf("qt.usage %d", now), qtStr(k.q))
	k.r.c.Tag("qt.usage")
}

// ---- manager
type tokMon struct {
	minute, hour *swMon
	qt           *qtMon
}

type mgrCase struct {
	r        *runner
	m        *governance.Manager
	db       *sql.DB
	mons     map[int64]*tokMon
	has      map[int64]bool // a per-token policy row exists
	monitor  bool           // clock non-decreasing in this case: monitors on
	lastNow  int64
	ctx      context.Context
	defaults config.GovernanceConfig
}

func newMgrCase(c *vh.Ctx, d [4]int, monitor bool) *mgrCase {
	db, err := sql.Open("sqlite3", ":memory:")
	if err != nil {
		panic(err)
	}
	db.SetMaxOpenConns(1)
	k := &mgrCase{r: &runner{c: c}, db: db, mons: map[int64]*tokMon{}, has: map[int64]bool{}, monitor: monitor, ctx: context.Background()}
	k.defaults = config.GovernanceConfig{Enabled: true, DefaultRateLimitPerMin: d[0], DefaultRateLimitPerHour: d[1], DefaultMaxQueriesPerHour: d[2], DefaultMaxQueriesPerDay: d[3]}
	m, err := governance.NewManager(&governance.ManagerConfig{DB: db, Config: &k.defaults, Logger: zerolog.Nop()})
	if err != nil {
		panic(err)
	}
	k.m = m
	k.r.op(fmt.Sprintf("m.new %d %d %d %d", d[0], d[1], d[2], d[3]), "ok")
	return k
}

func (k *mgrCase) close() { k.db.Close() }

func (k *mgrCase) mon(tok int64) *tokMon {
	t := k.mons[tok]
	if t == nil {
		dm, nm := effCfg(siteMinute)
		dh, nh := effCfg(siteHour)
		t = &tokMon{
			minute: &swMon{site: "minute-limiter", w: siteMinute.w, n: nm, d: dm},
			hour:   &swMon{site: "hour-limiter", w: siteHour.w, n: nh, d: dh},
			qt:     &qtMon{site: "manager"},
		}
		k.mons[tok] = t
	}
	return t
}

func (k *mgrCase) set(tok int64, p [4]int, now int64) {
	verifclock.Set(now)
	pol := &governance.Policy{TokenID: tok, RateLimitPerMinute: p[0], RateLimitPerHour: p[1], MaxQueriesPerHour: p[2], MaxQueriesPerDay: p[3]}
	var err error
	if k.has[tok] {
		_, err = k.m.UpdatePolicy(k.ctx, pol)
	} else {
		_, err = k.m.CreatePolicy(k.ctx, pol)
	}
	out := "ok " + tokStr(k.m, tok)
	if err != nil {
		out = "error:" + strings.ReplaceAll(err.Error(), " ", "_")
	}
	k.has[tok] = true
	k.r.op(fmt.Sprintf("m.set %d %d %d %d %d %d", tok, p[0], p[1], p[2], p[3], now), out)
	k.r.c.Tag("m.set")
}

func (k *mgrCase) del(tok int64) {
	err := k.m.DeletePolicy(k.ctx, tok)
	out := "ok " + tokStr(k.m, tok)
	if err != nil {
		out = "error:" + strings.ReplaceAll(err.Error(), " ", "_")
	}
	delete(k.has, tok)
	delete(k.mons, tok) // the token's limiters are gone: a new lifetime starts
	k.r.op(fmt.Sprintf("m.del %d", tok), out)
	k.r.c.Tag("m.del")
}

// one request through the governance block of executeQuery: CheckRateLimit, return on reject,
// then CheckQuota. Returns 0 admit, 1 rl-minute, 2 rl-hour, 3 q-hour, 4 q-day and the retry-after.
func (k *mgrCase) request(tok int64) (int, int) {
	if r := k.m.CheckRateLimit(tok); !r.Allowed {
		if strings.Contains(r.Reason, "per minute") {
			return 1, r.RetryAfterSec
		}
		return 2, r.RetryAfterSec
	}
	if r := k.m.CheckQuota(tok); !r.Allowed {
		if strings.HasPrefix(r.Reason, "Hourly") {
			return 3, 0
		}
		return 4, 0
	}
	return 0, 0
}

type qsnap struct {
	present bool
	h, d    int
}

func (k *mgrCase) quotaSnap(tok int64) qsnap {
	_, _, qt := k.m.VerifTok(tok)
	if qt == nil {
		return qsnap{}
	}
	st := qt.VerifState()
	return qsnap{true, st.H, st.D}
}

func (k *mgrCase) observe(tok int64, now int64, pol *governance.Policy, v int, before, after qsnap) {
	c := k.r.c
	if v == 1 || v == 2 {
		// "a query rejected by the rate limit consumes no quota"
		if before != after {
			c.Fail("quota-consumed-on-ratelimit-reject",
				fmt.Sprintf("token %d: rate-limit rejection at %d changed the quota counters from %+v to %+v", tok, now, before, after), k.r.replay())
		}
	}
	if v != 0 {
		k.r.rej = true
	}
	if !k.monitor || pol == nil {
		return
	}
	mo := k.mon(tok)
	if pol.RateLimitPerMinute > 0 {
		if v == 1 {
			mo.minute.onReject(c, now, pol.RateLimitPerMinute, k.r.replay)
		} else {
			mo.minute.onPass(now)
			if v == 0 {
				mo.minute.onAdmit(c, now, pol.RateLimitPerMinute, k.r.replay)
			}
		}
	}
	if pol.RateLimitPerHour > 0 && v != 1 {
		if v == 2 {
			mo.hour.onReject(c, now, pol.RateLimitPerHour, k.r.replay)
		} else {
			mo.hour.onPass(now)
			if v == 0 {
				mo.hour.onAdmit(c, now, pol.RateLimitPerHour, k.r.replay)
			}
		}
	}
	if (pol.MaxQueriesPerHour > 0 || pol.MaxQueriesPerDay > 0) && v != 1 && v != 2 {
		switch v {
		case 0:
			mo.qt.onAdmit(c, now, pol.MaxQueriesPerHour, pol.MaxQueriesPerDay, k.r.replay)
		case 3:
			mo.qt.onReject(c, now, "hour", pol.MaxQueriesPerHour, k.r.replay)
		case 4:
			mo.qt.onReject(c, now, "day", pol.MaxQueriesPerDay, k.r.replay)
		}
	}
}

var vnames = []string{"admit", "rl-minute", "rl-hour", "q-hour", "q-day"}

func (k *mgrCase) query(tok int64, now int64) {
	verifclock.Set(now)
	pol := k.m.GetCachedPolicy(tok)
	before := k.quotaSnap(tok)
	v, retry := k.request(tok)
	after := k.quotaSnap(tok)
	out := vnames[v]
	if v == 1 || v == 2 {
		out += fmt.Sprintf(" retry=%d", retry)
	}
	k.r.op(fmt.Sprintf("m.query %d %d", tok, now), out+" "+tokStr(k.m, tok))
	k.r.c.Tag("m.query:" + vnames[v])
	k.observe(tok, now, pol, v, before, after)
}

func (k *mgrCase) burst(tok int64, now int64, n int) {
	verifclock.Set(now)
	pol := k.m.GetCachedPolicy(tok)
	before := k.quotaSnap(tok)
	var wg sync.WaitGroup
	res := make([]int, n)
	for i := 0; i < n; i++ {
		wg.Add(1)
		go func(i int) { defer wg.Done(); res[i], _ = k.request(tok) }(i)
	}
	wg.Wait()
	after := k.quotaSnap(tok)
	var cnt [5]int
	for _, v := range res {
		cnt[v]++
	}
	k.r.op(fmt.Sprintf("m.burst %d %d %d", tok, now, n),
		fmt.Sprintf("admit=%d rlm=%d rlh=%d qh=%d qd=%d ", cnt[0], cnt[1], cnt[2], cnt[3], cnt[4])+tokStr(k.m, tok))
	k.r.c.Tag("m.burst")
	// quota counters may move at most by the number of admitted requests (the clock is frozen, so a
	// reset can only make them smaller)
	if after.present && (after.h > before.h+cnt[0] || after.d > before.d+cnt[0]) {
		k.r.c.Fail("quota-consumed-on-ratelimit-reject",
			fmt.Sprintf("token %d: burst of %d at %d admitted %d but quota counters moved from %+v to %+v", tok, n, now, cnt[0], before, after), k.r.replay())
	}
	// feed the monitors: passes first, then rejections (all at one instant)
	for v := 0; v < 5; v++ {
		order := []int{0, 3, 4, 2, 1}[v]
		for i := 0; i < cnt[order]; i++ {
			k.observe(tok, now, pol, order, qsnap{}, qsnap{})
		}
	}
}

func (k *mgrCase) usage(tok int64, now int64) {
	verifclock.Set(now)
	u := k.m.GetTokenUsage(tok)
	k.r.op(fmt.Sprintf("m.usage %d %d", tok, now),
		fmt.Sprintf("h=%d d=%d hr=%d dr=%d remM=%d remH=%d ", u.QueriesThisHour, u.QueriesThisDay, u.HourResetAt.UnixNano(), u.DayResetAt.UnixNano(),
			u.RateLimitRemainingPerMin, u.RateLimitRemainingPerHour)+tokStr(k.m, tok))
	k.r.c.Tag("m.usage")
}

// ---------------------------------------------------------------- generators

// slotBase returns a slot-aligned instant (w.r.t. Truncate's zero-time origin) at or after h0.
func slotBase(d int64) int64 {
	offMod := mulmod(goff, sec, d) // (goff*1e9) mod d without overflowing int64
	r := (h0%d + offMod) % d
	return h0 + (d-r)%d
}

func mulmod(a, b, m int64) int64 {
	var res int64
	a %= m
	for b > 0 {
		if b&1 == 1 {
			res = (res + a) % m
		}
		a = (a * 2) % m
		b >>= 1
	}
	return res
}

type swCfg struct {
	w     int64
	slots int
}

var swCfgs = []swCfg{
	{60 * sec, 60}, {hr, 60}, // the two real call sites
	{sec, 4}, {10 * ms, 60} /* clamped to 1ms slots */, {7 * sec, 3} /* d does not divide the window */, {100 * ms, 0}, /* default 60 slots */
	{2 * sec, 1}, {5 * sec, -3}, {0, 5}, {-sec, 2}, {90 * sec, 7},
}

func effCfg(cf swCfg) (d int64, n int64) {
	n = int64(cf.slots)
	if n <= 0 {
		n = 60
	}
	d = cf.w / n
	if d < ms {
		d = ms
	}
	return
}

// (window, slots) of getOrCreateMinuteLimiter / getOrCreateHourLimiter, from the regenerated facts
var siteMinute, siteHour = swCfg{60 * sec, 60}, swCfg{hr, 60}

func loadFacts(c *vh.Ctx) {
	ss, ok := c.Facts["sites"].([]any)
	if !ok {
		return
	}
	for _, x := range ss {
		m := x.(map[string]any)
		cf := swCfg{int64(m["window_ns"].(float64)), int(m["slots"].(float64))}
		switch m["name"].(string) {
		case "getOrCreateMinuteLimiter":
			siteMinute = cf
		case "getOrCreateHourLimiter":
			siteHour = cf
		}
	}
	swCfgs[0], swCfgs[1] = siteMinute, siteHour
}

func main() {
	c := vh.Start()
	loadFacts(c)
	metrics.Init(zerolog.Nop())
	r := vh.NewRand(c.Seed)
	thorough := c.Thorough()

	// ---- (0) minimal witness of the slot-boundary behaviour (known finding window-exceeded:*) and the
	// regression cases of the reset-instant defect fixed in /repo 9f59e62 (the boundary monitors stay live)
	{
		k := newSWCase(c, 60*sec, 60, 2, h0)
		k.burst(h0+sec-1, 3)
		k.burst(h0+60*sec, 3)
		k.r.done()
		q := newQTCase(c, 1, 0, h0-hr/2)
		q.allow(h0)
		q.allow(h0 + 1)
		q.r.done()
		q = newQTCase(c, 0, 1, d0-hr/2)
		q.allow(d0)
		q.allow(d0 + 1)
		q.r.done()
		m := newMgrCase(c, [4]int{}, true)
		m.set(7, [4]int{2, 0, 0, 0}, h0)
		m.burst(7, h0+sec-1, 3)
		m.burst(7, h0+60*sec, 3)
		m.r.done()
		m.close()
		m = newMgrCase(c, [4]int{}, true)
		m.set(8, [4]int{0, 1, 0, 0}, h0)
		m.query(8, h0+60*sec-1)
		m.query(8, h0+hr)
		m.r.done()
		m.close()
		m = newMgrCase(c, [4]int{}, true)
		m.set(9, [4]int{0, 0, 2, 0}, h0-5)
		m.query(9, h0-5) // creates the tracker just before the hour boundary (hourResetAt = h0)
		m.query(9, h0)   // exactly at the reset instant: must reset and be charged to the new hour
		m.query(9, h0+1)
		m.query(9, h0+2) // third query of the clock hour starting at h0 under quota 2: must be rejected
		m.r.done()
		m.close()
		m = newMgrCase(c, [4]int{0, 0, 0, 2}, true) // default policy, daily quota 2
		m.query(5, d0-5)
		m.query(5, d0)
		m.query(5, d0+1)
		m.query(5, d0+2)
		m.r.done()
		m.close()
	}

	// ---- (1) sliding-window edge grid: burst late/early in a slot, second burst around (n-1)d, nd, W
	gi := 0
	for ci, cf := range swCfgs {
		d, n := effCfg(cf)
		base := slotBase(d) + int64(ci)*7*d
		for _, lim := range []int{1, 2, 3} {
			for _, p := range []int64{0, 1, d / 2, d - 1} {
				gaps := []int64{(n-1)*d - p - 1, (n-1)*d - p, (n-1)*d - 1, (n - 1) * d, (n-1)*d + 1, n*d - p - 1, n*d - p, n*d - 1, n * d, n*d + 1, cf.w - 1, cf.w, cf.w + 1, d - p, 2*d - p}
				for _, g := range gaps {
					gi++
					if !thorough && gi%4 != int(c.Seed%4) {
						continue
					}
					if g < 0 {
						continue
					}
					k := newSWCase(c, cf.w, cf.slots, lim, base)
					t1 := base + p
					for i := 0; i <= lim; i++ {
						k.allow(t1)
					}
					k.retry(t1)
					t2 := t1 + g
					k.burst(t2, lim+1)
					k.rem(t2)
					k.r.done()
				}
			}
		}
	}

	// ---- (2) quota edge grid: creation phase × arrivals at boundary-1 / boundary / boundary+1
	for _, lim := range [][2]int{{1, 0}, {2, 0}, {0, 1}, {0, 2}, {2, 3}, {3, 2}, {1, 1}} {
		for _, bnd := range []int64{h0, d0, h0 + 5*hr, d0 + 3*day} {
			for _, ph := range []int64{-hr, -hr + 1, -hr / 2, -1, 0} {
				for _, pat := range [][]int64{{-1, 0, 1}, {0, 0, 1, 1}, {-1, -1, 0, 1, 1}, {0, hr, hr + 1}, {0, 1, hr - 1, hr, hr + 1}, {-1, day, day + 1}, {0, 1, -1, 0, 1}} {
					gi++
					if !thorough && gi%3 != int(c.Seed%3) {
						continue
					}
					k := newQTCase(c, lim[0], lim[1], bnd+ph)
					for _, off := range pat {
						k.allow(bnd + off)
					}
					k.usage(bnd + pat[len(pat)-1])
					k.r.done()
				}
			}
		}
	}

	nSW, nQT, nM := 2500, 2500, 1200
	if thorough {
		nSW, nQT, nM = 60000, 60000, 25000
	}
	if c.N > 0 {
		nSW, nQT, nM = c.N, c.N, c.N
	}

	// jump generator: period p (slot / hour / day), window multiples of n
	jump := func(now, p, n int64, origin int64, back bool) int64 {
		// distance to the next p-boundary (w.r.t. origin)
		rem := ((now-origin)%p + p) % p
		toNext := p - rem
		switch r.Intn(14) {
		case 0:
			return now
		case 1:
			return now + 1
		case 2:
			return now + int64(r.Intn(int(min64(p, 1<<40))))
		case 3:
			return now + toNext - 1
		case 4:
			return now + toNext
		case 5:
			return now + toNext + 1
		case 6:
			return now + vh.Pick(r, []int64{1, 2, n - 2, n - 1, n, n + 1})*p + vh.Pick(r, []int64{-1, 0, 0, 1})
		case 7:
			return now + toNext + vh.Pick(r, []int64{n - 2, n - 1, n})*p + vh.Pick(r, []int64{-1, 0, 1})
		case 8:
			return now + int64(r.Intn(3))*p + int64(r.Intn(int(min64(p, 1<<40))))
		case 9:
			return now + int64(r.Intn(5))*day + int64(r.Intn(int(hr)))
		case 10, 11:
			if back {
				return now - vh.Pick(r, []int64{1, p / 2, p, 2 * p, (n - 1) * p, n * p, (n + 1) * p, int64(r.Intn(int(min64(3*p, 1<<40))))})
			}
			return now
		default:
			return now + int64(r.Intn(int(min64(p/4+1, 1<<40))))
		}
	}

	// ---- (3) random sliding-window histories (incl. backward jumps, limit updates, bursts)
	for i := 0; i < nSW; i++ {
		cf := vh.Pick(r, swCfgs)
		if r.Chance(50) {
			cf = swCfgs[r.Intn(2)]
		}
		d, n := effCfg(cf)
		origin := slotBase(d)
		now := origin + int64(r.Intn(100))*d + vh.Pick(r, []int64{0, 0, 1, d / 2, d - 1})
		lim := vh.Pick(r, []int{1, 1, 2, 3, 4, 0, -1})
		k := newSWCase(c, cf.w, cf.slots, lim, now)
		back := r.Chance(35)
		steps := r.Range(4, 40)
		for j := 0; j < steps; j++ {
			now = jump(now, d, n, origin, back)
			switch x := r.Intn(20); {
			case x < 12:
				k.allow(now)
			case x < 15:
				k.burst(now, r.Range(2, 8))
			case x < 17:
				k.limit(vh.Pick(r, []int{0, 1, 2, 3, 5, -2}))
			case x < 18:
				k.rem(now)
			default:
				k.retry(now)
			}
		}
		k.r.done()
	}

	// ---- (4) random quota histories
	for i := 0; i < nQT; i++ {
		now := vh.Pick(r, []int64{h0, d0, d0 - hr, h0 + 3*hr}) + vh.Pick(r, []int64{0, 1, -1, hr / 3, -hr / 2})
		k := newQTCase(c, vh.Pick(r, []int{0, 1, 2, 3}), vh.Pick(r, []int{0, 1, 2, 4, 6}), now)
		back := r.Chance(30)
		steps := r.Range(4, 40)
		for j := 0; j < steps; j++ {
			if r.Chance(25) {
				now = jump(now, day, 2, 0, back)
			} else {
				now = jump(now, hr, 24, 0, back)
			}
			switch x := r.Intn(20); {
			case x < 13:
				k.allow(now)
			case x < 16:
				k.burst(now, r.Range(2, 8))
			case x < 18:
				k.limits(vh.Pick(r, []int{0, 1, 2, 3, 5}), vh.Pick(r, []int{0, 1, 2, 4, 7}))
			default:
				k.usage(now)
			}
		}
		k.r.done()
	}

	// ---- (5) random manager histories: 3 tokens, default policy or per-token policies, updates, deletes
	for i := 0; i < nM; i++ {
		var defs [4]int
		if r.Chance(40) {
			defs = [4]int{vh.Pick(r, []int{0, 1, 2, 3}), vh.Pick(r, []int{0, 0, 2, 4}), vh.Pick(r, []int{0, 0, 2, 3}), vh.Pick(r, []int{0, 0, 3, 5})}
		}
		monotone := !r.Chance(30)
		k := newMgrCase(c, defs, monotone)
		now := vh.Pick(r, []int64{h0, d0, h0 - 61*sec, d0 - hr}) + vh.Pick(r, []int64{0, 1, -1, sec / 2, -30 * sec})
		steps := r.Range(6, 50)
		for j := 0; j < steps; j++ {
			switch r.Intn(4) {
			case 0:
				now = jump(now, sec, 60, 0, !monotone)
			case 1:
				now = jump(now, 60*sec, 60, 0, !monotone)
			case 2:
				now = jump(now, hr, 24, 0, !monotone)
			default:
				if r.Chance(20) {
					now = jump(now, day, 2, 0, !monotone)
				}
			}
			tok := int64(1 + r.Intn(3))
			switch x := r.Intn(20); {
			case x < 11:
				k.query(tok, now)
			case x < 14:
				k.burst(tok, now, r.Range(2, 8))
			case x < 17:
				k.set(tok, [4]int{vh.Pick(r, []int{0, 1, 2, 3, 5}), vh.Pick(r, []int{0, 0, 2, 4, 6}), vh.Pick(r, []int{0, 0, 1, 2, 4}), vh.Pick(r, []int{0, 0, 2, 3, 6})}, now)
			case x < 18:
				k.del(tok)
			default:
				k.usage(tok, now)
			}
		}
		k.r.done()
		k.close()
	}

	// ---- (6) malformed op lines (driver must reject them)
	for _, bad := range []string{"sw.allow", "sw.allow x", "qt.new 1 2", "m.query 1", "frobnicate 1 2 3", "sw.new 1 2 3 4 5"} {
		c.Op(bad, "bad-op")
	}

	verifclock.Real()
	c.Finish("cases = one limiter/tracker/manager lifetime with a history of timed ops (edge grids over slot phase × gap around (n-1)d, nd, W and over hour/day reset instants; random histories with forward/backward clock jumps, limit updates, deletes, concurrent bursts); non-trivial = at least one rejection; distinct = distinct op text")
}

func min64(a, b int64) int64 {
	if a < b {
		return a
	}
	return b
}
