//go:build verif

// C14 search + correspondence harness.
//
// World: a temp storage root under /var/tmp with three databases (allowed, secret, default); every row of
// the two databases the caller may NOT read carries a canary string. The caller is granted exactly one
// database through a recording RBAC checker plugged into the real api.QueryHandler. Every generated
// statement goes through the real fiber routes (POST /api/v1/query, /api/v1/query/arrow,
// /api/v1/query/estimate, GET /api/v1/query/:measurement, GET /api/v1/measurements) against the real
// sandboxed DuckDB, i.e. ValidateSQLRequest + header rules + SHOW gate + checkQueryPermissions +
// getTransformedSQL[ForParallel] + execution, exactly as production wires them.
//
// Monitors (property violations of the REAL code; <class> = generator family, see gen.go `families`):
//
//	canary-read:<class>                   response contains a canary, or the statement executed successfully and
//	                                      DuckDB's own parse tree of the executed text names stored files of a
//	                                      (database, measurement) whose read permission was not checked
//	unchecked-reference-rewritten:<class> the rewrite spliced read_parquet('<root>/<db>/<m>/…') for a pair that was
//	                                      not permission-checked into text DuckDB's parser accepts (files exist)
//	show-unchecked-listing:<class>        a SHOW / listing response names a measurement of an unchecked database
//
// Ops (diffed against the Lean string-level model drive_c14; only statements in the model's scope:
// ASCII bytes only, none of the substrings extract/substring/trim/overlay, not a SHOW command):
//
//	q <header-hex> <sql-hex>   ->  rej:<reason> | hdr:bad | cross | ok refs=<db.m,…|->
//
// where the impl side is ValidateSQLRequest / validateHeaderDatabase / hasCrossDatabaseSyntax and the
// list of pairs the real checkQueryPermissions handed to the RBAC checker during the HTTP request.
package main

import (
	"bufio"
	"fmt"
	"os"
	"regexp"
	"sort"
	"strconv"
	"strings"
	"time"

	"github.com/basekick-labs/arc/internal/api"
	"github.com/basekick-labs/arc/internal/verif/vh"
)

type run struct {
	c *vh.Ctx
	e *env
	g *gen
}

func decision(sqlText, hdr string) string {
	if err := api.ValidateSQLRequest(sqlText); err != nil {
		m := err.Error()
		switch {
		case strings.Contains(m, "is required"):
			return "rej:empty"
		case strings.Contains(m, "maximum length"):
			return "rej:toolong"
		case strings.Contains(m, "Multiple SQL"):
			return "rej:multi"
		case strings.Contains(m, "Dangerous SQL"):
			return "rej:danger"
		case strings.Contains(m, "File I/O function"):
			return "rej:io"
		case strings.Contains(m, "String literal not allowed"):
			return "rej:strtab"
		case strings.Contains(m, "Quoted identifier in table position"):
			return "rej:identtab"
		}
		return "rej:other"
	}
	if !api.VerifC14HeaderOK(hdr) {
		return "hdr:bad"
	}
	if hdr != "" && api.VerifC14HasCross(sqlText) {
		return "cross"
	}
	return "ok"
}

var scopeBad = []string{"extract", "substring", "trim", "overlay"}

func inScope(sqlText, hdr string) bool {
	for i := 0; i < len(sqlText); i++ {
		if sqlText[i] >= 0x80 {
			return false
		}
	}
	for i := 0; i < len(hdr); i++ {
		if hdr[i] >= 0x80 {
			return false
		}
	}
	l := strings.ToLower(sqlText)
	// a quoted identifier NAMED like an identifier placeholder: ioDenylistNormalise substitutes names in map
	// order, which is only deterministic when no name is itself a placeholder
	if strings.Contains(l, "\"__ident_") || strings.Contains(l, "`__ident_") {
		return false
	}
	for _, w := range scopeBad {
		if strings.Contains(l, w) {
			return false
		}
	}
	return true
}

func hexOrDash(s string) string { return vh.Hex([]byte(s)) }

var spliceRe = regexp.MustCompile(`read_parquet\('([^']*)', union_by_name=true\)`)

// rewritten returns the (db, measurement) pairs of the read_parquet('<root>/<db>/<m>/**/*.parquet', …)
// texts that are present in `final` but not in the caller's own text.
func (r *run) rewritten(orig, final string) [][2]string {
	var out [][2]string
	seen := map[[2]string]bool{}
	for _, m := range spliceRe.FindAllStringSubmatch(final, -1) {
		if strings.Contains(orig, m[0]) {
			continue
		}
		p := m[1]
		if !strings.HasPrefix(p, r.e.root+"/") || !strings.HasSuffix(p, "/**/*.parquet") {
			continue
		}
		seg := strings.Split(strings.TrimSuffix(strings.TrimPrefix(p, r.e.root+"/"), "/**/*.parquet"), "/")
		if len(seg) != 2 {
			continue
		}
		k := [2]string{seg[0], seg[1]}
		if !seen[k] {
			seen[k] = true
			out = append(out, k)
		}
	}
	return out
}

func (r *run) scrub(s string) string { return strings.ReplaceAll(s, r.e.root, "<ROOT>") }

// judge applies the monitors to one executed request.
func (r *run) judge(endpoint string, s stmt, o outcome, final string, paths []string) {
	c := r.c
	rep := r.scrub(replayLine(endpoint, s)) + "   (<ROOT> = storage root; databases allowed/secret/default; caller granted only 'allowed')"
	if o.canary {
		fam := attribute(s, "text", nil, [2]string{})
		if len(r.rewritten(s.sql, final)) > 0 && !strings.Contains(final, "parquet_scan") && strings.Count(final, "read_parquet") == len(spliceRe.FindAllString(final, -1)) {
			fam = attribute(s, "rewrite", nil, [2]string{})
		}
		c.Tag("canary:" + fam)
		if s.family == "denylist-gap" {
			c.Tag("denylist-gap-fn:" + s.shape)
		}
		c.Fail("canary-read:"+fam, fmt.Sprintf("response of %s contains canary rows of an unauthorised database; permission-checked pairs: %s", endpoint, fmtChecked(o.checked)), rep)
	}
	executed := o.status != 400 && o.status != 403
	if !executed {
		return
	}
	files, tables, parsed := r.e.readSet(final)
	if !parsed {
		c.Tag("exec:duckdb-parser-rejects")
	}
	pats := append(append([]string{}, files...), paths...)
	for _, t := range tables {
		if strings.ContainsAny(t, "/*") || strings.HasSuffix(t, ".parquet") {
			pats = append(pats, t)
		}
	}
	ok200 := o.status == 200 && (o.success || strings.HasSuffix(endpoint, "/arrow"))
	rw := r.rewritten(s.sql, final)
	for _, k := range r.e.touched(pats) {
		if checkedCovers(o.checked, k[0], k[1]) {
			continue
		}
		if ok200 {
			mech := "text"
			for _, w := range rw {
				if w == k {
					mech = "rewrite"
				}
			}
			fam := attribute(s, mech, o.checked, k)
			c.Fail("canary-read:"+fam, fmt.Sprintf("%s executed successfully and DuckDB's parse of the executed text reads stored files of %s.%s; permission-checked pairs: %s", endpoint, k[0], k[1], fmtChecked(o.checked)), rep)
			c.Tag("unchecked-read:" + fam)
			if s.family == "denylist-gap" {
				c.Tag("denylist-gap-fn:" + s.shape)
			}
		} else {
			c.Tag("nearmiss:unchecked-files-named-but-exec-failed:" + errClass(o.errText))
		}
	}
	for _, k := range rw {
		if checkedCovers(o.checked, k[0], k[1]) {
			continue
		}
		if _, isDB := layout[k[0]]; !isDB || len(r.e.touched([]string{r.g.path(k[0], k[1])})) == 0 {
			c.Tag("rewrite:unchecked-pair-without-stored-files")
			continue
		}
		if parsed {
			fam := attribute(s, "rewrite", o.checked, k)
			c.Fail("unchecked-reference-rewritten:"+fam, fmt.Sprintf("the rewrite spliced read_parquet for %s.%s (stored files exist) which was never permission-checked (checked: %s); DuckDB's parser accepts the text (status %d)", k[0], k[1], fmtChecked(o.checked), o.status), rep)
			c.Tag("unchecked-rewrite:" + fam)
		} else {
			c.Tag("nearmiss:unchecked-rewrite-parser-rejected:" + s.family)
		}
	}
}

var showLike = regexp.MustCompile(`(?i)^\s*show\b`)

// one statement: ops line (decision + refs through POST /api/v1/query) and the monitors on up to three endpoints.
func (r *run) one(s stmt, allEndpoints bool) {
	c := r.c
	s.sql = strings.ToValidUTF8(s.sql, "\uFFFD") // what the JSON body can carry
	c.Tag("family:" + s.family)
	dec := decision(s.sql, s.hdr)
	o := r.e.query("/api/v1/query", s.sql, s.hdr)
	kind, _ := api.VerifC14ShowKind(s.sql)
	if os.Getenv("C14_DEBUG") != "" {
		b := string(o.body)
		if len(b) > 300 {
			b = b[:300]
		}
		fmt.Fprintf(os.Stderr, "DEBUG %q -> %s status=%d body=%s\n", s.sql, dec, o.status, b)
	}
	c.Tag("decision:" + dec)
	c.Tag(fmt.Sprintf("status:%d", o.status))
	// consistency of the handler with its parts (tie of the op line to the HTTP path)
	if o.status == 599 {
		c.Tag("test-transport-error")
		o = r.e.query("/api/v1/query", s.sql, s.hdr) // once more
	}
	if (dec != "ok") != (o.status == 400) && kind == 0 && len(s.sql) > 0 && o.status != 599 {
		c.Fail("harness-inconsistent:decision-vs-status", fmt.Sprintf("decision %s but HTTP status %d", dec, o.status), r.scrub(replayLine("/api/v1/query", s)))
	}
	if kind == 0 && inScope(s.sql, s.hdr) {
		line := dec
		if dec == "ok" {
			line += " refs=" + fmtChecked(o.checked)
		}
		c.Op("q "+hexOrDash(s.hdr)+" "+hexOrDash(s.sql), line)
	}
	if o.status != 400 && o.status != 403 {
		c.Tag("executed:" + errClass(o.errText))
	}
	if dec == "ok" && kind == 0 {
		final, paths, _ := r.e.qh.VerifC14TransformedParallel(s.sql, s.hdr)
		r.judge("/api/v1/query", s, o, final, paths)
		if allEndpoints && o.status != 403 {
			plain := r.e.qh.VerifC14Transformed(s.sql, s.hdr)
			oa := r.e.query("/api/v1/query/arrow", s.sql, s.hdr)
			r.judge("/api/v1/query/arrow", s, oa, plain, nil)
			oe := r.e.query("/api/v1/query/estimate", s.sql, s.hdr)
			r.judge("/api/v1/query/estimate", s, oe, "SELECT COUNT(*) FROM ("+plain+") AS t", nil)
		}
	} else if o.canary {
		c.Fail("canary-read:"+s.family, "response contains canary rows although the request was not accepted as a query", r.scrub(replayLine("/api/v1/query", s)))
	}
	c.Case(s.hdr+"\x00"+r.scrub(s.sql), dec == "ok" && s.family != "plain")
}

// ---------------------------------------------------------------- GET /api/v1/query/:measurement

func (r *run) measurementGrid() {
	c := r.c
	wheres := []string{"", "v >= 0", "host IN (SELECT host FROM " + secretDB + ".cpu)", "EXISTS (SELECT 1 FROM " + secretDB + ".cpu s WHERE s.canary LIKE 'C%')",
		"v < (SELECT count(*) FROM " + secretDB + ".vault)", "host IN (SELECT host FROM cpu)", "host IN (SELECT host FROM " + allowedDB + ".mem)",
		"canary IN (SELECT canary FROM " + secretDB + ".cpu UNION SELECT 'x')", "host = 'h1' -- x", "host = 'h1'; SELECT 1", "v IN (SELECT v FROM parquet_scan('" + r.g.secretPath() + "'))",
		"v IN (SELECT v FROM '" + r.g.secretPath() + "')", "host IN (SELECT host FROM \"" + secretDB + "\".\"cpu\")", "host IN (SELECT host\nFROM\n" + secretDB + ".cpu)"}
	for _, tgt := range [][2]string{{allowedDB, "cpu"}, {secretDB, "cpu"}, {"", "cpu"}, {allowedDB, "vault"}, {allowedDB, "cpu-x"}, {"..", "cpu"}, {allowedDB, "cpu;"}} {
		for _, w := range wheres {
			s := stmt{family: "measurement-where-subquery", hdr: "", sql: fmt.Sprintf("GET measurement=%s database=%s where=%s", tgt[1], tgt[0], w)}
			o := r.e.queryMeasurement(tgt[1], tgt[0], w)
			c.Tag("family:" + s.family)
			c.Tag(fmt.Sprintf("measurement-status:%d", o.status))
			db := tgt[0]
			if db == "" {
				db = "default"
			}
			composed := fmt.Sprintf("SELECT * FROM %s.%s", db, tgt[1])
			if w != "" {
				composed += " WHERE " + w
			}
			composed += " ORDER BY time DESC LIMIT 100 OFFSET 0"
			final := r.e.qh.VerifC14Transformed(composed, "")
			s2 := s
			s2.sql = composed
			if o.status != 400 && o.status != 403 {
				c.Tag("executed:" + errClass(o.errText))
			}
			r.judgeAs("/api/v1/query/:measurement", s, s2, o, final)
			c.Case("measurement\x00"+r.scrub(s.sql), o.status == 200)
		}
	}
}

func (r *run) judgeAs(endpoint string, shown, composed stmt, o outcome, final string) {
	// same monitors; the replay text shows the HTTP parameters, the rewrite comparison uses the composed SQL
	tmp := composed
	tmp.sql = composed.sql
	saved := shown.sql
	tmp.family = shown.family
	_ = saved
	// replayLine prints tmp.sql; make it the request parameters
	rr := stmt{family: shown.family, hdr: "", sql: shown.sql + "  [composed: " + composed.sql + "]"}
	c := r.c
	rep := r.scrub(replayLine(endpoint, rr))
	if o.canary {
		c.Fail("canary-read:"+shown.family, "response contains canary rows; checked: "+fmtChecked(o.checked), rep)
	}
	if o.status == 400 || o.status == 403 {
		return
	}
	files, tables, parsed := r.e.readSet(final)
	pats := append([]string{}, files...)
	for _, t := range tables {
		if strings.ContainsAny(t, "/*") {
			pats = append(pats, t)
		}
	}
	for _, k := range r.e.touched(pats) {
		if checkedCovers(o.checked, k[0], k[1]) {
			continue
		}
		if o.status == 200 && o.success {
			c.Fail("canary-read:"+shown.family, fmt.Sprintf("%s executed successfully and the executed text reads stored files of %s.%s; permission-checked pairs: %s", endpoint, k[0], k[1], fmtChecked(o.checked)), rep)
			c.Tag("unchecked-read:" + shown.family)
		} else {
			c.Tag("nearmiss:unchecked-files-named-but-exec-failed:" + errClass(o.errText))
		}
	}
	for _, k := range r.rewritten(composed.sql, final) {
		if checkedCovers(o.checked, k[0], k[1]) || len(r.e.touched([]string{r.g.path(k[0], k[1])})) == 0 {
			continue
		}
		if parsed {
			c.Fail("unchecked-reference-rewritten:"+shown.family, fmt.Sprintf("the rewrite spliced read_parquet for %s.%s which was never permission-checked (checked: %s)", k[0], k[1], fmtChecked(o.checked)), rep)
		}
	}
}

// ---------------------------------------------------------------- SHOW / listing endpoints

func (r *run) showGrid() {
	c := r.c
	leak := func(b []byte) bool { return strings.Contains(string(b), "vault") }
	var qs []string
	for _, cmd := range []string{"SHOW TABLES", "SHOW MEASUREMENTS", "show tables", "SHOW  TABLES", "SHOW\nTABLES", "SHOW\tMEASUREMENTS"} {
		qs = append(qs, cmd, cmd+";", cmd+" ;", " "+cmd+" ", "/* x */ "+cmd, cmd+" -- x", cmd+" /* ' */", "-- '\n"+cmd)
		for _, d := range []string{secretDB, `"` + secretDB + `"`, "'" + secretDB + "'", "`" + secretDB + "`", secretDB + ";", `"` + secretDB + `";`, "/**/" + secretDB, secretDB + " --x",
			allowedDB, "..", secretDB + "/../" + secretDB, `"` + secretDB + `--x"`, "`" + secretDB + "--x`", secretDB + ".cpu", "$$" + secretDB + "$$", "E'" + secretDB + "'", strings.ToUpper(secretDB)} {
			qs = append(qs, cmd+" FROM "+d, cmd+" from "+d, cmd+"\nFROM\n"+d, cmd+" IN "+d)
		}
	}
	qs = append(qs, "SHOW DATABASES", "show databases;", "/* */ SHOW DATABASES", "SHOW DATABASES -- '", "SHOW ALL TABLES", "SHOW TABLES; SELECT 1", "SHOW", "SHOW search_path",
		"DESCRIBE", "SHOW TABLES FROM", "SHOW SCHEMAS", "SHOW TABLES LIKE 'v%'", "SHOW\fTABLES FROM "+secretDB, "SHOW\vTABLES FROM "+secretDB, "SHOW TABLES FROM "+secretDB)
	for _, hdr := range []string{"", allowedDB, secretDB} {
		for _, q := range qs {
			for _, ep := range []string{"/api/v1/query", "/api/v1/query/arrow", "/api/v1/query/estimate"} {
				o := r.e.query(ep, q, hdr)
				kind, db := api.VerifC14ShowKind(q)
				c.Tag("family:show")
				c.Tag(fmt.Sprintf("show-kind:%d status:%d", kind, o.status))
				s := stmt{family: "show", hdr: hdr, sql: q}
				if leak(o.body) && !checkedCovers(o.checked, secretDB, "*") {
					c.Fail("show-unchecked-listing:show", fmt.Sprintf("%s lists measurements of the unauthorised database (show kind %d, explicit db %q); checked: %s", ep, kind, db, fmtChecked(o.checked)), r.scrub(replayLine(ep, s)))
				}
				if o.canary {
					c.Fail("canary-read:show", "response contains canary rows", r.scrub(replayLine(ep, s)))
				}
				if kind != 0 && o.status == 200 && len(o.checked) == 0 {
					c.Fail("show-unchecked-listing:no-check", fmt.Sprintf("%s answered a SHOW command (kind %d) without any permission check", ep, kind), r.scrub(replayLine(ep, s)))
				}
				c.Case("show\x00"+ep+"\x00"+hdr+"\x00"+q, kind != 0)
			}
		}
	}
	for _, qs := range []string{"", "?database=" + secretDB, "?database=" + allowedDB, "?database=..", "?database=" + secretDB + "%00", "?database=" + secretDB + "&database=" + allowedDB, "?database=" + allowedDB + "&database=" + secretDB, "?Database=" + secretDB} {
		o := r.e.do("GET", "/api/v1/measurements"+qs, "", nil)
		c.Tag(fmt.Sprintf("list-status:%d", o.status))
		if leak(o.body) && !checkedCovers(o.checked, secretDB, "*") && !checkedCovers(o.checked, "*", "*") {
			c.Fail("show-unchecked-listing:measurements", "GET /api/v1/measurements lists measurements of the unauthorised database; checked: "+fmtChecked(o.checked), "GET /api/v1/measurements"+qs)
		}
		c.Case("list\x00"+qs, true)
	}
}

// ---------------------------------------------------------------- transform-cache key collision

// REGRESSION monitor (fixed in /repo 12df811: key = header + NUL + sql; must never fire again).
// Two principals: the owner of `secret` primes the transform cache (key = header + ":" + sql) through an
// endpoint that uses getTransformedSQL; a caller whose ONE database is `default` then sends, WITHOUT a
// header, the text "<header>:<sql>": the permission side checks default.cpu, the cache returns the
// owner's rewrite.
func (r *run) cacheCollision() {
	c := r.c
	for i, q := range []string{"SELECT canary FROM cpu", "SELECT canary FROM cpu WHERE host <> 'zz'", "SELECT b.canary FROM cpu a JOIN cpu b ON true"} {
		for _, prime := range []string{"/api/v1/query/arrow", "/api/v1/query/estimate", "/api/v1/query"} {
			qq := fmt.Sprintf("%s LIMIT %d", q, 7+i) // distinct text per attempt
			if prime == "/api/v1/query/estimate" {
				qq = fmt.Sprintf("%s LIMIT %d", q, 17+i)
			} else if prime == "/api/v1/query" {
				qq = fmt.Sprintf("%s LIMIT %d", q, 27+i)
			}
			r.e.rec.grant = secretDB
			po := r.e.query(prime, qq, secretDB)
			r.e.rec.grant = defaultDB
			atk := secretDB + ":" + qq
			o := r.e.query("/api/v1/query", atk, "")
			// the separator of the repaired key (regression: must address a different entry)
			if o2 := r.e.query("/api/v1/query", secretDB+"\x00"+qq, ""); o2.canary {
				o, atk = o2, secretDB+"\x00"+qq
			}
			r.e.rec.grant = ""
			c.Tag(fmt.Sprintf("cache-collision:prime=%d attack=%d canary=%v", po.status, o.status, o.canary))
			s := stmt{family: "transform-cache-key-collision", hdr: "", sql: atk}
			if o.canary && strings.Contains(string(o.body), canaryTag+secretDB) {
				c.Fail("canary-read:transform-cache-key-collision",
					fmt.Sprintf("a caller granted only `default` (checked: %s) receives rows of `secret`: the transform cache entry primed by the owner's request (header secret, %s) is returned for the header-less text", fmtChecked(o.checked), prime),
					"1) owner of secret: POST "+prime+" header=\"secret\" sql="+strconv.Quote(qq)+"  2) within the cache TTL, caller granted only `default`: "+r.scrub(replayLine("/api/v1/query", s)))
			}
			c.Case("cache-collision\x00"+prime+"\x00"+qq, true)
		}
	}
}

// ---------------------------------------------------------------- replay / corpus

var replayRe = regexp.MustCompile(`^endpoint=(\S+) family=(\S+) header=("(?:[^"\\]|\\.)*") sql=("(?:[^"\\]|\\.)*")`)

func (r *run) replayFile(path string) int {
	f, err := os.Open(path)
	if err != nil {
		return 0
	}
	defer f.Close()
	n := 0
	sc := bufio.NewScanner(f)
	sc.Buffer(make([]byte, 1<<20), 1<<20)
	for sc.Scan() {
		m := replayRe.FindStringSubmatch(sc.Text())
		if m == nil {
			continue
		}
		hdr, e1 := strconv.Unquote(m[3])
		q, e2 := strconv.Unquote(m[4])
		if e1 != nil || e2 != nil {
			continue
		}
		q = strings.ReplaceAll(q, "<ROOT>", r.e.root)
		r.one(stmt{family: m[2], shape: "corpus", hdr: hdr, sql: q}, true)
		n++
	}
	return n
}

func main() {
	c := vh.Start()
	e := newEnv()
	defer e.close()
	g := &gen{r: vh.NewRand(c.Seed), root: e.root, thorough: c.Thorough()}
	if d, ok := c.Facts["denylist"].([]any); ok {
		for _, x := range d {
			if s, isStr := x.(string); isStr {
				g.deny = append(g.deny, s)
			}
		}
	}
	if len(g.deny) == 0 {
		g.deny = []string{"read_parquet", "parquet_scan", "parquet_metadata", "parquet_schema", "parquet_file_metadata", "parquet_kv_metadata", "parquet_bloom_probe",
			"read_csv", "read_csv_auto", "sniff_csv", "read_json", "read_json_auto", "read_json_objects", "read_json_objects_auto", "read_ndjson", "read_ndjson_auto",
			"read_ndjson_objects", "read_text", "read_blob", "read_xlsx", "glob", "delta_scan", "iceberg_scan", "iceberg_metadata", "iceberg_snapshots", "arc_partition_agg"}
	}
	if rows, err := e.raw.Query("SELECT DISTINCT function_name FROM duckdb_functions() WHERE function_type IN ('table', 'table_macro') AND function_name SIMILAR TO '[a-z_][a-z0-9_]*' ORDER BY 1"); err == nil {
		for rows.Next() {
			var fn string
			if rows.Scan(&fn) == nil {
				g.tableFuncs = append(g.tableFuncs, fn)
			}
		}
		rows.Close()
	}
	c.Extra["duckdb_table_functions"] = len(g.tableFuncs)
	r := &run{c: c, e: e, g: g}
	t0 := time.Now()
	if c.Replay != "" {
		r.replayFile(c.Replay)
		c.Finish("replay of " + c.Replay)
		return
	}
	// 1. corpus
	if ents, err := os.ReadDir("/verif/corpus/C14"); err == nil {
		names := []string{}
		for _, en := range ents {
			if strings.HasSuffix(en.Name(), ".replay") {
				names = append(names, en.Name())
			}
		}
		sort.Strings(names)
		for _, n := range names {
			r.replayFile("/verif/corpus/C14/" + n)
		}
	}
	// 2. grids
	grid := g.grid()
	for _, s := range grid {
		r.one(s, true)
	}
	r.measurementGrid()
	r.showGrid()
	r.cacheCollision()
	// 3. random compositions + malformed stream
	n := c.N
	if n == 0 {
		n = 6000
		if c.Thorough() {
			n = 150000
		}
	}
	budget := 45 * time.Second
	if c.Thorough() {
		budget = 12 * time.Minute
	}
	done := 0
	// the random phase gets its own slice of time on top of the grids (quick: 25 s)
	if !c.Thorough() {
		budget = time.Since(t0) + 25*time.Second
	}
	for i := 0; i < n && time.Since(t0) < budget; i++ {
		var s stmt
		if i%5 == 4 {
			s = g.malformed()
		} else {
			s = g.randomStmt()
		}
		r.one(s, i%4 == 0)
		done++
	}
	c.Extra["grid_statements"] = len(grid)
	c.Extra["random_statements"] = done
	c.Extra["seconds"] = int(time.Since(t0).Seconds())
	c.Extra["test_transport_errors"] = e.testErrs
	c.Finish("non-trivial = statement accepted by ValidateSQLRequest + header rules and carrying a disguise family other than plain")
}

// attribute names the finding class of a monitor hit. Grid / corpus statements carry their family; a
// random composition is attributed by the mechanism observed (a reference the REWRITE spliced without a
// check vs. live TEXT the validator did not see) and then by its lexical features, in a fixed priority.
var (
	phRe     = regexp.MustCompile(`__(?:STR|IDENT)_\d+__`)
	withGap  = regexp.MustCompile(`(?i)\bwith\s`)
	cteComma = regexp.MustCompile(`(?i),\s*\w+(?:\s*\([^)]*\))?\s+AS\s*\(`)
	gluedRe  = regexp.MustCompile(`(?i)[0-9]from\b`)
	dqMarker = regexp.MustCompile("\"[^\"]*(?:\\$|--|/\\*|')[^\"]*\"")
	nlParen  = regexp.MustCompile(`\w[ \t]*[\n\r\f\v][ \t\n\r]*\(`)
)

func attribute(s stmt, mech string, checked []chk, k [2]string) string {
	for _, c := range checked {
		if c.db == k[0] && c.m != k[1] && strings.EqualFold(c.m, k[1]) {
			return "case-fold"
		}
	}
	if s.family != "random" {
		return s.family
	}
	q := s.sql
	if mech == "rewrite" && s.hdr != "" {
		switch {
		case withGap.MatchString(q) && !strings.Contains(strings.ToLower(q), "with "), cteComma.MatchString(q):
			return "header-cte-gate"
		case gluedRe.MatchString(q):
			return "header-glued-from"
		case nlParen.MatchString(q):
			return "header-call-newline"
		}
	}
	for i := 0; i < len(q); i++ {
		if q[i] >= 0x80 {
			return "reader-nonascii-blank"
		}
	}
	switch {
	case phRe.MatchString(q):
		return "placeholder-lookalike"
	case dqMarker.MatchString(q):
		return "comment-marker-in-literal"
	case strings.Contains(q, `\'`):
		return "backslash-quote"
	case strings.Contains(q, `\"`), strings.Contains(q, "\\`"):
		return "backslash-dquote"
	case strings.Contains(q, "-- '") || strings.Contains(q, "--'"):
		return "quote-in-line-comment"
	case strings.Contains(q, "/* ' */") || strings.Contains(q, "/* $$ */"):
		return "quote-in-block-comment"
	case strings.Contains(q, `"/*"`), strings.Contains(q, `"--"`):
		return "comment-marker-in-literal"
	}
	return "random"
}
