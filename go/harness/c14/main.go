//go:build verif

package main

import (
	"bufio"
	"fmt"
	"os"
	"strconv"
	"strings"

	"github.com/basekick-labs/arc/internal/api"
	"github.com/basekick-labs/arc/internal/verif/vh"
)

var _ = api.ValidateSQLRequest
var _ = vh.Hex

func probe(path string) {
	e := newEnv()
	defer e.close()
	f, err := os.Open(path)
	must(err)
	{
		var js string
		err := e.raw.QueryRow("SELECT json_serialize_sql(?::VARCHAR)::VARCHAR", "SELECT a FROM read_parquet('/x/y', union_by_name=true), 'zz' t, s.u JOIN \"q\" ON true").Scan(&js)
		fmt.Println("ORACLE", err, js)
		err = e.db.DB().QueryRow("SELECT json_serialize_sql('SELECT 1 FROM t')").Scan(&js)
		fmt.Println("ORACLE2", err, js)
	}
	sc := bufio.NewScanner(f)
	sc.Buffer(make([]byte, 1<<20), 1<<20)
	for sc.Scan() {
		line := sc.Text()
		if line == "" || strings.HasPrefix(line, "#") {
			continue
		}
		i := strings.Index(line, "|")
		hdr, q := line[:i], line[i+1:]
		q = strings.ReplaceAll(q, "ROOT", e.root)
		if uq, err := strconv.Unquote(`"` + strings.ReplaceAll(q, `"`, `\"`) + `"`); err == nil {
			_ = uq
		}
		q = strings.ReplaceAll(q, `\n`, "\n")
		q = strings.ReplaceAll(q, `\t`, "\t")
		q = strings.ReplaceAll(q, `\r`, "\r")
		verr := api.ValidateSQLRequest(q)
		o := e.query("/api/v1/query", q, hdr)
		final, paths, _ := e.qh.VerifC14TransformedParallel(q, hdr)
		files, tables, ok := e.readSet(final)
		b := string(o.body)
		if len(b) > 300 {
			b = b[:300]
		}
		fmt.Printf("---- hdr=%q sql=%q\n  validate=%v status=%d success=%v canary=%v err=%s\n  checked=%s\n  final=%q paths=%v\n  parse_ok=%v files=%v tables=%v touched=%v\n  body=%s\n",
			hdr, q, verr, o.status, o.success, o.canary, errClass(o.errText), fmtChecked(o.checked), final, paths, ok, files, tables, e.touched(files), b)
	}
}

func main() {
	if p := os.Getenv("C14_PROBE"); p != "" {
		probe(p)
		return
	}
}
