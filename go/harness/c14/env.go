//go:build verif

package main

import (
	"bytes"
	"database/sql"
	"encoding/json"
	"fmt"
	"io"
	"net/http/httptest"
	"net/url"
	"os"
	"path/filepath"
	"sort"
	"strings"
	"sync"

	"github.com/basekick-labs/arc/internal/api"
	"github.com/basekick-labs/arc/internal/auth"
	"github.com/basekick-labs/arc/internal/database"
	"github.com/basekick-labs/arc/internal/storage"
	"github.com/gofiber/fiber/v2"
	"github.com/rs/zerolog"
)

// The world: a storage root with three databases. The caller may read exactly ONE of them.
const (
	allowedDB = "allowed" // the only database the caller is granted
	secretDB  = "secret"  // unauthorised; every row carries a canary
	defaultDB = "default" // unauthorised too (target of header-less bare references)
	canaryTag = "CANARY_" // never appears in any generated SQL text
)

var layout = map[string][]string{
	allowedDB: {"cpu", "mem", "pg_ok"},
	secretDB:  {"cpu", "vault", "pg_ledger"},
	// measurements whose names start with a skipPrefixes entry exist too (only reachable quoted)
	defaultDB: {"cpu", "pg_ledger", "duckdb_audit", "information_schema_log", "read_parquet_log"},
}

// ---------------------------------------------------------------- recording RBAC checker

type chk struct {
	db, m, perm string
	allowed     bool
}

type recorder struct {
	mu    sync.Mutex
	reqs  []chk
	grant string // the ONE database the current caller may read ("" = allowedDB)
}

func (r *recorder) IsRBACEnabled() bool { return true }
func (r *recorder) decide(q *auth.PermissionCheckRequest) *auth.PermissionCheckResult {
	g := r.grant
	if g == "" {
		g = allowedDB
	}
	ok := q.TokenInfo != nil && q.Permission == "read" && q.Database == g
	r.mu.Lock()
	r.reqs = append(r.reqs, chk{q.Database, q.Measurement, q.Permission, ok})
	r.mu.Unlock()
	if ok {
		return &auth.PermissionCheckResult{Allowed: true, Source: "rbac"}
	}
	return &auth.PermissionCheckResult{Allowed: false, Source: "denied", Reason: "not granted"}
}
func (r *recorder) CheckPermission(q *auth.PermissionCheckRequest) *auth.PermissionCheckResult {
	return r.decide(q)
}
func (r *recorder) CheckPermissionsBatch(qs []*auth.PermissionCheckRequest) []*auth.PermissionCheckResult {
	out := make([]*auth.PermissionCheckResult, len(qs))
	for i, q := range qs {
		out[i] = r.decide(q)
	}
	return out
}
func (r *recorder) take() []chk {
	r.mu.Lock()
	defer r.mu.Unlock()
	x := r.reqs
	r.reqs = nil
	return x
}

// ---------------------------------------------------------------- environment

type env struct {
	tmp, root   string
	db          *database.DuckDB
	raw         *sql.DB // un-sandboxed DuckDB: parse oracle (json_serialize_sql) only
	qh          *api.QueryHandler
	app         *fiber.App
	rec         *recorder
	testErrs    int
	readerCache map[string]bool
}

func must(err error) {
	if err != nil {
		panic(err)
	}
}

func newEnv() *env {
	tmp, err := os.MkdirTemp("/var/tmp", "verif-c14-")
	must(err)
	root := filepath.Join(tmp, "data")
	must(os.MkdirAll(root, 0o755))
	logger := zerolog.New(io.Discard).Level(zerolog.Disabled)
	be, err := storage.NewLocalBackend(root, logger)
	must(err)
	db, err := database.New(&database.Config{MemoryLimit: "512MB", ThreadCount: 2, MaxConnections: 2, LocalStorageRoot: root}, logger)
	must(err)
	e := &env{tmp: tmp, root: root, db: db, rec: &recorder{}}
	// canary data: one parquet file per measurement, written through the sandboxed connection
	dbs := make([]string, 0, len(layout))
	for d := range layout {
		dbs = append(dbs, d)
	}
	sort.Strings(dbs)
	for _, d := range dbs {
		for _, m := range layout[d] {
			dir := filepath.Join(root, d, m, "2024", "01", "01", "00")
			must(os.MkdirAll(dir, 0o755))
			mark := "OK_" + d + "_" + m
			if d != allowedDB {
				mark = canaryTag + d + "_" + m
			}
			q := fmt.Sprintf("COPY (SELECT TIMESTAMP '2024-01-01 00:00:00' + to_seconds(i) AS time, 'h' || i AS host, i AS v, '%s' AS canary FROM range(3) t(i)) TO '%s' (FORMAT PARQUET)",
				mark, filepath.Join(dir, "part0.parquet"))
			_, err := db.DB().Exec(q)
			must(err)
		}
	}
	raw, err := sql.Open("duckdb", "")
	must(err)
	raw.SetMaxOpenConns(1)
	e.raw = raw
	e.qh = api.NewQueryHandler(db, be, logger, 30, 0)
	e.qh.SetAuthAndRBAC(nil, e.rec)
	app := fiber.New(fiber.Config{DisableStartupMessage: true})
	app.Use(func(c *fiber.Ctx) error {
		c.Locals("token_info", &auth.TokenInfo{ID: 7, Name: "one-db-reader", Permissions: []string{"read"}, Enabled: true})
		return c.Next()
	})
	e.qh.RegisterRoutes(app)
	e.app = app
	return e
}

func (e *env) close() {
	if e.raw != nil {
		e.raw.Close()
	}
	e.db.Close()
	os.RemoveAll(e.tmp)
}

// ---------------------------------------------------------------- one request through the real handlers

type outcome struct {
	endpoint string
	status   int
	success  bool
	errText  string
	body     []byte
	checked  []chk
	canary   bool
}

func (e *env) do(method, target, hdr string, body []byte) outcome {
	e.rec.take()
	var rd io.Reader
	if body != nil {
		rd = bytes.NewReader(body)
	}
	req := httptest.NewRequest(method, target, rd)
	if body != nil {
		req.Header.Set("Content-Type", "application/json")
	}
	if hdr != "" {
		req.Header.Set("x-arc-database", hdr)
	}
	resp, err := e.app.Test(req, -1)
	if err != nil {
		// fiber's in-memory test transport occasionally fails to re-parse a streamed response; the
		// request itself ran. Reported as status 599 (tagged by the caller), never as a verdict.
		e.testErrs++
		return outcome{endpoint: target, status: 599, errText: "test-transport: " + err.Error(), checked: e.rec.take()}
	}
	b, _ := io.ReadAll(resp.Body)
	resp.Body.Close()
	o := outcome{endpoint: target, status: resp.StatusCode, body: b, checked: e.rec.take()}
	var r struct {
		Success bool   `json:"success"`
		Error   string `json:"error"`
	}
	if json.Unmarshal(b, &r) == nil {
		o.success, o.errText = r.Success, r.Error
	}
	o.canary = bytes.Contains(b, []byte(canaryTag))
	return o
}

func (e *env) query(endpoint, sqlText, hdr string) outcome {
	body, _ := json.Marshal(map[string]string{"sql": sqlText})
	return e.do("POST", endpoint, hdr, body)
}

func (e *env) queryMeasurement(measurement, database, where string) outcome {
	v := url.Values{}
	if database != "" {
		v.Set("database", database)
	}
	if where != "" {
		v.Set("where", where)
	}
	return e.do("GET", "/api/v1/query/"+url.PathEscape(measurement)+"?"+v.Encode(), "", nil)
}

// errClass maps DuckDB / handler error text to a small enum.
func errClass(s string) string {
	switch {
	case s == "":
		return "-"
	case strings.Contains(s, "Parser Error"), strings.Contains(s, "syntax error"):
		return "parser"
	case strings.Contains(s, "Catalog Error"):
		return "catalog"
	case strings.Contains(s, "Binder Error"):
		return "binder"
	case strings.Contains(s, "Permission Error"):
		return "sandbox"
	case strings.Contains(s, "No files found"):
		return "nofiles"
	case strings.Contains(s, "IO Error"):
		return "io"
	case strings.Contains(s, "Conversion Error"), strings.Contains(s, "Invalid Input"):
		return "value"
	}
	return "other"
}

// ---------------------------------------------------------------- DuckDB's own view of the executed text

// readSet asks the linked DuckDB (un-sandboxed side connection, never executes the statement) for the
// parse tree of `final` and returns the file arguments of every table function plus every base-table
// name; ok=false when DuckDB's parser rejects the text (nothing can have been read).
func (e *env) readSet(final string) (files []string, tables []string, ok bool) {
	var js sql.NullString
	if err := e.raw.QueryRow("SELECT json_serialize_sql(?::VARCHAR)::VARCHAR", final).Scan(&js); err != nil || !js.Valid {
		return nil, nil, false
	}
	var tree any
	if json.Unmarshal([]byte(js.String), &tree) != nil {
		return nil, nil, false
	}
	if m, isMap := tree.(map[string]any); isMap {
		if er, has := m["error"]; has {
			if b, _ := er.(bool); b {
				return nil, nil, false
			}
		}
	}
	var walk func(x any)
	var strs func(x any, out *[]string)
	strs = func(x any, out *[]string) {
		switch v := x.(type) {
		case map[string]any:
			if c, _ := v["class"].(string); c == "CONSTANT" {
				if val, _ := v["value"].(map[string]any); val != nil {
					if s, isStr := val["value"].(string); isStr {
						*out = append(*out, s)
					}
				}
			}
			for _, y := range v {
				strs(y, out)
			}
		case []any:
			for _, y := range v {
				strs(y, out)
			}
		}
	}
	walk = func(x any) {
		switch v := x.(type) {
		case map[string]any:
			switch v["type"] {
			case "TABLE_FUNCTION":
				name := ""
				if fm, _ := v["function"].(map[string]any); fm != nil {
					name, _ = fm["function_name"].(string)
				}
				if e.isFileReader(name) {
					strs(v["function"], &files)
				}
			case "BASE_TABLE":
				name, _ := v["table_name"].(string)
				schema, _ := v["schema_name"].(string)
				if schema != "" {
					name = schema + "." + name
				}
				tables = append(tables, name)
			}
			for _, y := range v {
				walk(y)
			}
		case []any:
			for _, y := range v {
				walk(y)
			}
		}
	}
	walk(tree)
	return files, tables, true
}

// isFileReader: does the table function `fn` open files named by its first argument? Decided by probing
// the un-sandboxed side connection with a path that does not exist (a reader fails with an IO /
// "No files found" error, anything else succeeds or fails to bind). Cached per name.
func (e *env) isFileReader(fn string) bool {
	fn = strings.ToLower(fn)
	if v, ok := e.readerCache[fn]; ok {
		return v
	}
	if e.readerCache == nil {
		e.readerCache = map[string]bool{}
	}
	missing := e.tmp + "/__c14_missing__/x.parquet"
	res := false
	for _, arg := range []string{"'" + missing + "'", "['" + missing + "']"} {
		rows, err := e.raw.Query("SELECT * FROM \"" + fn + "\"(" + arg + ") LIMIT 0")
		if err == nil {
			rows.Close()
			break
		}
		m := err.Error()
		if strings.Contains(m, "No files found") || strings.Contains(m, "IO Error") || strings.Contains(m, "Cannot open") || strings.Contains(m, "No such file") || strings.Contains(m, "does not exist") && !strings.Contains(m, "Catalog Error") {
			res = true
			break
		}
	}
	e.readerCache[fn] = res
	return res
}

// touched maps path / glob texts to the (database, measurement) directories under the storage root
// that hold at least one matching stored file.
func (e *env) touched(pats []string) [][2]string {
	seen := map[[2]string]bool{}
	var out [][2]string
	for _, p := range pats {
		if !strings.Contains(p, "/") && !strings.Contains(p, "*") && !strings.HasSuffix(p, ".parquet") {
			continue
		}
		q := p
		if !filepath.IsAbs(q) {
			q = filepath.Join(e.root, q)
		}
		for _, f := range globFiles(q) {
			rel, err := filepath.Rel(e.root, f)
			if err != nil || strings.HasPrefix(rel, "..") {
				continue
			}
			seg := strings.Split(rel, string(filepath.Separator))
			if len(seg) < 3 {
				continue
			}
			k := [2]string{seg[0], seg[1]}
			if !seen[k] {
				seen[k] = true
				out = append(out, k)
			}
		}
	}
	sort.Slice(out, func(i, j int) bool { return out[i][0]+"/"+out[i][1] < out[j][0]+"/"+out[j][1] })
	return out
}

// globFiles expands a DuckDB-style glob (`**` = any number of directories) over regular files.
func globFiles(pat string) []string {
	var out []string
	if !strings.ContainsAny(pat, "*?[") {
		if st, err := os.Stat(pat); err == nil {
			if st.Mode().IsRegular() {
				return []string{pat}
			}
		}
		return nil
	}
	// walk from the longest wildcard-free prefix
	segs := strings.Split(pat, "/")
	base := "/"
	i := 1
	for ; i < len(segs); i++ {
		if strings.ContainsAny(segs[i], "*?[") {
			break
		}
		base = filepath.Join(base, segs[i])
	}
	rest := segs[i:]
	filepath.Walk(base, func(p string, info os.FileInfo, err error) error {
		if err != nil || info.IsDir() {
			return nil
		}
		rel, _ := filepath.Rel(base, p)
		if matchSegs(rest, strings.Split(rel, "/")) {
			out = append(out, p)
		}
		return nil
	})
	return out
}

func matchSegs(pat, name []string) bool {
	if len(pat) == 0 {
		return len(name) == 0
	}
	if pat[0] == "**" {
		for k := 0; k <= len(name); k++ {
			if matchSegs(pat[1:], name[k:]) {
				return true
			}
		}
		return false
	}
	if len(name) == 0 {
		return false
	}
	ok, _ := filepath.Match(pat[0], name[0])
	return ok && matchSegs(pat[1:], name[1:])
}

func checkedCovers(checked []chk, db, m string) bool {
	for _, c := range checked {
		if c.perm == "read" && c.db == db && (c.m == m || c.m == "*") {
			return true
		}
	}
	return false
}

func fmtChecked(cs []chk) string {
	if len(cs) == 0 {
		return "-"
	}
	p := make([]string, len(cs))
	for i, c := range cs {
		p[i] = c.db + "." + c.m
	}
	return strings.Join(p, ",")
}
