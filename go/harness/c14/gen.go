//go:build verif

package main

import (
	"fmt"
	"strings"

	"github.com/basekick-labs/arc/internal/verif/vh"
)

// One generated request. `family` is the lexical / structural class the statement belongs to; it is
// the <class> part of the monitor keys, so it must come from the fixed list `families`.
type stmt struct {
	family string
	shape  string
	hdr    string
	sql    string
}

// Fixed list of families (finding classes). Keep stable: known_findings.jsonl keys refer to them.
var families = []string{
	"plain",                           // no disguise at all
	"quoting",                         // legal quoting styles around names / paths (single, double, backtick, dollar, E)
	"reader-spelling",                 // file-reading table functions: case, whitespace/comment before '(', quoted / qualified names
	"reader-nonascii-blank",           // a non-ASCII blank (U+00A0) between the reader name and the parenthesis
	"backslash-quote",                 // `\` before the closing quote of a plain '…' literal
	"backslash-dquote",                // `\` before the closing quote of a "…" identifier
	"estring-backslash",               // E'…\\' (escaped backslash before the closing quote) and E'…\'…'
	"quote-in-line-comment",           // quote character inside a `--` comment
	"quote-in-block-comment",          // quote character inside a /* */ comment
	"comment-marker-in-literal",       // `--`, `/*`, `*/` inside literals / quoted identifiers
	"nested-block-comment",            // /* /* */ */
	"placeholder-lookalike",           // user text that looks like __STR_n__ / __IDENT_n__
	"dollar-quote",                    // $$…$$, $tag$…$tag$, stray `$`
	"dollar-quote-tag",                // $tag$ replacement scans with every short tag (digits / underscore / non-ASCII in every position)
	"dollar-quote-nonascii-tag",       // the same with a non-ASCII letter in the tag (DuckDB accepts it, the masker does not)
	"skip-prefix-quoted",              // quoted measurement names starting with a skipPrefixes entry
	"from-mask-lookalike",             // user text shaped like __FROM_MASK_n__ next to EXTRACT/SUBSTRING/TRIM/OVERLAY
	"strip-mask-order",                // comment marker inside a literal arranged to flip the quote pairing if comments are stripped first
	"statement-kind-replacement-scan", // TABLE/SUMMARIZE/DESCRIBE/SHOW/PIVOT/UNPIVOT '<path>': table reference without FROM
	"query-function",                  // query('<sql text>') / query_table('<name>'): SQL handed over inside a string literal
	"denylist-gap",                    // table functions of the linked DuckDB that are not on the denylist
	"header-glued-from",               // header set; FROM glued to a preceding digit (single-table fast path)
	"header-cte-gate",                 // header set; CTE-name exclusion on the permission side only
	"header-call-newline",             // header set; identifier followed by newline + '('
	"header-cross-db",                 // header set; dotted references in every spelling
	"whitespace",                      // exotic whitespace between FROM/JOIN and the reference
	"cte-shadow",                      // CTE names shadowing / colliding with real measurements, no header
	"case-fold",                       // same measurement in different letter case
	"measurement-where-subquery",      // GET /api/v1/query/:measurement with a subquery in `where`
	"show",                            // SHOW / listing endpoints
	"random",                          // random compositions
}

type gen struct {
	r          *vh.Rand
	root       string
	deny       []string // file-reading function names (from factgen when available)
	thorough   bool
	tableFuncs []string // every table function / table macro of the linked DuckDB
}

func (g *gen) secretPath() string { return g.root + "/" + secretDB + "/cpu/**/*.parquet" }
func (g *gen) path(db, m string) string {
	return g.root + "/" + db + "/" + m + "/**/*.parquet"
}

// ---------------------------------------------------------------- building blocks

// readers that make sense on a parquet glob and the column they expose
var parquetReaders = []string{"read_parquet", "parquet_scan"}
var otherReaders = []string{"glob", "read_blob", "read_text", "parquet_metadata", "parquet_schema", "parquet_file_metadata", "parquet_kv_metadata", "read_csv", "read_csv_auto", "read_json", "sniff_csv"}

func mixCase(s string, r *vh.Rand) string {
	b := []byte(s)
	for i := range b {
		if b[i] >= 'a' && b[i] <= 'z' && r.Bool() {
			b[i] -= 32
		}
	}
	return string(b)
}

// spellings of a call `name(`
func callSpellings(name string) []string {
	up := strings.ToUpper(name)
	mx := strings.ToUpper(name[:1]) + name[1:]
	return []string{
		name + "(", up + "(", mx + "(", name + " (", name + "\t(", name + "\n(", name + "\r\n(", name + "\f(", name + "\v(",
		name + "/**/(", name + " /* x */ (", name + "--x\n(", `"` + name + `"(`, "`" + name + "`(", `"` + up + `"(`,
		"main." + name + "(", "system.main." + name + "(", `main."` + name + `"(`, name + " (", name + " ( ",
	}
}

// spellings of a string / quoted token holding a path
func pathQuotes(p string) []string {
	return []string{
		"'" + p + "'", `"` + p + `"`, "`" + p + "`", "$$" + p + "$$", "$q$" + p + "$q$", "E'" + p + "'", "e'" + p + "'",
		"$Q1$" + p + "$Q1$", "'" + p + "'::VARCHAR", "('" + p + "')", "U&'" + p + "'", "X'00'",
	}
}

// shapes: place a table-position text `ref` into a complete statement that exposes the `canary` column
// (ok = a table text the caller may legitimately read under the same header).
type shapeFn struct {
	name string
	f    func(ok, ref string) string
}

var shapes = []shapeFn{
	{"from", func(ok, ref string) string { return "SELECT canary FROM " + ref }},
	{"from-alias", func(ok, ref string) string { return "SELECT t.canary FROM " + ref + " AS t WHERE t.v >= 0" }},
	{"join", func(ok, ref string) string { return "SELECT b.canary FROM " + ok + " a JOIN " + ref + " b ON true" }},
	{"left-join", func(ok, ref string) string {
		return "SELECT b.canary FROM " + ok + " a LEFT OUTER JOIN " + ref + " b ON a.v = b.v"
	}},
	{"cross-join", func(ok, ref string) string { return "SELECT b.canary FROM " + ok + " a CROSS JOIN " + ref + " b" }},
	{"comma", func(ok, ref string) string { return "SELECT b.canary FROM " + ok + " a, " + ref + " b" }},
	{"comma-after-subquery", func(ok, ref string) string {
		return "SELECT b.canary FROM (SELECT v FROM " + ok + ") a, " + ref + " b"
	}},
	{"subquery", func(ok, ref string) string { return "SELECT canary FROM (SELECT * FROM " + ref + ") q" }},
	{"cte", func(ok, ref string) string { return "WITH w AS (SELECT * FROM " + ref + ") SELECT canary FROM w" }},
	{"in-subquery", func(ok, ref string) string {
		return "SELECT host FROM " + ok + " WHERE host IN (SELECT host FROM " + ref + ")"
	}},
	{"scalar-subquery", func(ok, ref string) string { return "SELECT (SELECT max(canary) FROM " + ref + ") AS c" }},
	{"union", func(ok, ref string) string {
		return "SELECT canary FROM " + ok + " UNION ALL SELECT canary FROM " + ref
	}},
	{"join-lateral", func(ok, ref string) string {
		return "SELECT b.canary FROM " + ok + " a JOIN LATERAL (SELECT * FROM " + ref + ") b ON true"
	}},
	{"from-first", func(ok, ref string) string { return "FROM " + ref + " SELECT canary" }},
	{"exists", func(ok, ref string) string {
		return "SELECT host FROM " + ok + " WHERE EXISTS (SELECT 1 FROM " + ref + " s WHERE s.canary LIKE 'C%')"
	}},
}

func isASCII(s string) bool {
	for i := 0; i < len(s); i++ {
		if s[i] >= 0x80 {
			return false
		}
	}
	return true
}

func okTable(hdr string) string {
	if hdr == "" {
		return allowedDB + ".cpu"
	}
	return "cpu"
}

// the forbidden targets in table position for a given header
func (g *gen) forbiddenRefs(hdr string) []string {
	if hdr == "" {
		return []string{secretDB + ".cpu", `"` + secretDB + `"."cpu"`, `"` + secretDB + `".cpu`, secretDB + `."cpu"`,
			strings.ToUpper(secretDB) + ".cpu", secretDB + ".vault", "cpu" /* default.cpu */, `"cpu"`, secretDB + " . cpu", secretDB + ".\ncpu"}
	}
	return []string{"cpu", `"cpu"`, "vault", "CPU"}
}

// ---------------------------------------------------------------- the grid

func (g *gen) grid() []stmt {
	var out []stmt
	add := func(fam, shape, hdr, sql string) { out = append(out, stmt{fam, shape, hdr, sql}) }
	sp := g.secretPath()

	// --- plain: every shape x (allowed | forbidden) reference x header
	for _, hdr := range []string{"", allowedDB, secretDB} {
		for _, sh := range shapes {
			add("plain", sh.name+":ok", hdr, sh.f(okTable(hdr), okTable(hdr)))
			for _, ref := range g.forbiddenRefs(hdr) {
				add("plain", sh.name, hdr, sh.f(okTable(hdr), ref))
			}
		}
	}
	add("plain", "no-table", "", "SELECT 1+1")
	add("plain", "multi", "", "SELECT 1; SELECT canary FROM "+secretDB+".cpu")
	add("plain", "trailing-semicolon", "", "SELECT canary FROM "+allowedDB+".cpu;")
	for _, kw := range []string{"ATTACH '" + g.root + "/x.db' AS x", "COPY (SELECT 1) TO '" + g.root + "/o.csv'", "SET enable_external_access = true",
		"RESET allowed_directories", "PRAGMA database_list", "CALL pragma_version()", "INSTALL httpfs", "LOAD httpfs", "DETACH x",
		"CREATE TABLE t AS SELECT 1", "DROP TABLE t", "DELETE FROM t", "INSERT INTO t VALUES (1)", "UPDATE t SET a = 1", "CREATE OR REPLACE SECRET s (TYPE S3)",
		"EXPORT DATABASE '" + g.root + "/e'", "IMPORT DATABASE '" + g.root + "/e'", "TRUNCATE TABLE t", "ALTER TABLE t ADD COLUMN c INT", "CREATE VIEW v AS SELECT 1",
		"SELECT * FROM duckdb_settings()", "SELECT current_setting('allowed_directories')", "SELECT * FROM duckdb_secrets()", "DESCRIBE SELECT * FROM " + secretDB + ".cpu",
		"SUMMARIZE " + secretDB + ".cpu", "TABLE " + secretDB + ".cpu", "PIVOT " + secretDB + ".cpu ON host USING sum(v)", "EXPLAIN SELECT canary FROM " + secretDB + ".cpu",
		"SELECT getvariable('x')", "SELECT * FROM information_schema.tables", "SELECT * FROM pg_catalog.pg_tables"} {
		add("plain", "statement-kind", "", kw)
	}

	// --- quoting: replacement scans in every quoting style x every shape (subset) x header
	for _, hdr := range []string{"", allowedDB} {
		for _, q := range pathQuotes(sp) {
			for _, sh := range shapes {
				add("quoting", "replacement-scan:"+sh.name, hdr, sh.f(okTable(hdr), q))
			}
			add("quoting", "glued", hdr, "SELECT canary FROM"+q)
			add("quoting", "glued-comma", hdr, "SELECT b.canary FROM "+okTable(hdr)+" a,"+q+" b")
		}
		// relative / traversal spellings of the path
		for _, p := range []string{secretDB + "/cpu/**/*.parquet", "./" + secretDB + "/cpu/**/*.parquet", g.root + "/" + allowedDB + "/../" + secretDB + "/cpu/**/*.parquet",
			g.root + "/*/cpu/**/*.parquet", g.root + "/**/*.parquet", g.root + "/s?cret/cpu/**/*.parquet", g.root + "//" + secretDB + "/cpu/2024/01/01/00/part0.parquet"} {
			add("quoting", "path-spelling", hdr, "SELECT canary FROM '"+p+"'")
			add("quoting", "path-spelling-dq", hdr, `SELECT canary FROM "`+p+`"`)
			add("quoting", "path-spelling-comma-dq", hdr, "SELECT b.canary FROM "+okTable(hdr)+` a, "`+p+`" b`)
		}
	}
	// quoted identifiers as database / measurement names
	for _, ref := range []string{`"` + allowedDB + `"."cpu"`, `"` + allowedDB + `".cpu`, allowedDB + `."cpu"`, "`" + allowedDB + "`.`cpu`", `"` + allowedDB + `"."c""pu"`,
		`"` + secretDB + `/cpu"."x"`, `"../` + secretDB + `".cpu`, allowedDB + `."../` + secretDB + `/cpu"`, `"` + allowedDB + `.cpu"`, `"` + secretDB + `.cpu"`} {
		for _, sh := range shapes[:9] {
			add("quoting", "quoted-name:"+sh.name, "", sh.f(okTable(""), ref))
		}
	}

	// --- reader spellings
	readers := append(append([]string{}, parquetReaders...), otherReaders...)
	for _, d := range g.deny {
		found := false
		for _, x := range readers {
			found = found || x == d
		}
		if !found {
			readers = append(readers, d)
		}
	}
	for _, rd := range readers {
		for i, spell := range callSpellings(rd) {
			col := "*"
			if rd == "read_parquet" || rd == "parquet_scan" {
				col = "canary"
			}
			for _, q := range []string{"'" + sp + "'", "$$" + sp + "$$", "['" + sp + "']"} {
				fam := "reader-spelling"
				if !isASCII(spell) {
					fam = "reader-nonascii-blank"
				}
				add(fam, "from", "", "SELECT "+col+" FROM "+spell+q+")")
				if i < 4 {
					add("reader-spelling", "comma", "", "SELECT b.* FROM "+okTable("")+" a, "+spell+q+") b")
					add("reader-spelling", "in-subquery", "", "SELECT host FROM "+okTable("")+" WHERE host IN (SELECT host FROM "+spell+q+"))")
					add("reader-spelling", "hdr", allowedDB, "SELECT "+col+" FROM "+spell+q+")")
				}
			}
		}
	}
	// scalar (non-table) file functions and near-miss names
	for _, s := range []string{"SELECT read_text('" + sp + "')", "SELECT content FROM read_text('" + sp + "')", "SELECT * FROM read_parquet_mock('" + sp + "')",
		"SELECT * FROM xread_parquet('" + sp + "')", "SELECT * FROM parquet_scan ('" + sp + "')",
		"SELECT * FROM duckdb_functions() WHERE function_name = 'glob'", "SELECT * FROM read_parquet ('" + sp + "')",
		"SELECT * FROM arc_partition_agg('" + sp + "')", "SELECT * FROM delta_scan('" + g.root + "')", "SELECT * FROM iceberg_scan('" + g.root + "')",
		"SELECT * FROM read_ndjson_objects('" + sp + "')", "SELECT * FROM read_json_objects_auto('" + sp + "')", "SELECT * FROM read_xlsx('" + sp + "')",
		"SELECT * FROM parquet_bloom_probe('" + sp + "', 'canary', 'x')", "SELECT * FROM read_duckdb('" + sp + "')", "SELECT * FROM sniff_csv('" + sp + "')",
		"SELECT * FROM read_csv(['" + sp + "'])", "SELECT * FROM read_avro('" + sp + "')",
		"SELECT * FROM read_lines('" + sp + "')", "SELECT * FROM read_blob('" + g.root + "/" + secretDB + "/**')", "SELECT size FROM read_text('" + g.root + "/**/*.parquet')",
		"SELECT * FROM file_glob('" + sp + "')", "SELECT file FROM GLOB('" + g.root + "/*/*')"} {
		add("reader-spelling", "misc", "", s)
	}

	// --- table functions that execute SQL text / resolve table names handed over as STRINGS
	for _, hdr := range []string{"", allowedDB} {
		for _, q := range []string{
			"SELECT * FROM query('SELECT 42')",
			"SELECT * FROM query('SELECT canary FROM parquet_scan(''" + sp + "'')')",
			"SELECT * FROM query($$SELECT canary FROM parquet_scan('" + sp + "')$$)",
			"SELECT * FROM QUERY ('SELECT canary FROM ''" + sp + "''')",
			"SELECT * FROM \"query\"('SELECT canary FROM glob(''" + sp + "'')')",
			"SELECT b.* FROM " + okTable(hdr) + " a, query('SELECT canary FROM parquet_scan(''" + sp + "'')') b",
			"SELECT * FROM query_table('" + secretDB + ".cpu')",
			"SELECT * FROM query_table('" + sp + "')",
			"SELECT * FROM query_table(['" + sp + "'])",
			"SELECT (SELECT max(canary) FROM query('SELECT canary FROM parquet_scan(''" + sp + "'')')) AS c",
		} {
			add("query-function", "grid", hdr, q)
		}
	}
	// --- every table function the linked DuckDB knows that is NOT on the denylist
	for _, fn := range g.tableFuncs {
		denied := false
		for _, d := range g.deny {
			denied = denied || strings.EqualFold(d, fn)
		}
		if denied || fn == "query" || fn == "query_table" {
			continue
		}
		add("denylist-gap", fn, "", "SELECT * FROM "+fn+"('"+sp+"')")
		add("denylist-gap", fn, "", "SELECT * FROM "+fn+"(['"+sp+"'])")
		add("denylist-gap", fn, allowedDB, "SELECT b.* FROM cpu a, "+fn+"('"+sp+"') b")
	}

	// --- dollar-quote tags: every tag of length 0..3 (and a sample of length 4) over letters / digits /
	// underscore / a non-ASCII letter, as a replacement scan in table position. The path avoids `/*` and
	// `--` so that it survives comment stripping when the masker does NOT recognise the tag.
	{
		file := g.root + "/" + secretDB + "/cpu/2024/01/01/00/part0.parquet"
		alpha := []string{"a", "T", "_", "1", "9", "é"}
		tags := []string{""}
		level := []string{""}
		for l := 1; l <= 4; l++ {
			var next []string
			for _, p := range level {
				for _, ch := range alpha {
					next = append(next, p+ch)
				}
			}
			level = next
			if l < 4 || g.thorough {
				tags = append(tags, level...)
			} else {
				for i := 0; i < 240; i++ {
					tags = append(tags, level[g.r.Intn(len(level))])
				}
				tags = append(tags, "a2b_", "T0T0", "_9_9", "ab1c", "a1é_")
			}
		}
		for _, tg := range tags {
			lit := "$" + tg + "$" + file + "$" + tg + "$"
			fam := "dollar-quote-tag"
			if !isASCII(tg) {
				fam = "dollar-quote-nonascii-tag"
			}
			add(fam, "from", "", "SELECT canary FROM "+lit)
			add(fam, "comma", "", "SELECT b.canary FROM "+okTable("")+" a, "+lit+" b")
			add(fam, "subquery", allowedDB, "SELECT canary FROM (SELECT * FROM "+lit+") q")
			add(fam, "cte", allowedDB, "WITH w AS (SELECT * FROM "+lit+") SELECT canary FROM w")
		}
	}

	// --- measurements whose names start with a skip prefix (pg_, duckdb_, information_schema, read_parquet):
	// bare they are system tables for both sides; QUOTED both sides must resolve the placeholder BEFORE the
	// skip-prefix test (else the rewriter splices a path the extractor never reported)
	for _, hdr := range []string{"", allowedDB, secretDB} {
		for _, m := range []string{"pg_ledger", "duckdb_audit", "information_schema_log", "read_parquet_log", "pg_ok", "PG_ledger", "Duckdb_audit"} {
			refs := []string{`"` + m + `"`, m, "`" + m + "`"}
			if hdr == "" {
				refs = append(refs, defaultDB+`."`+m+`"`, `"`+defaultDB+`"."`+m+`"`, `"`+defaultDB+`".`+m, defaultDB+"."+m, secretDB+`."`+m+`"`, `"`+secretDB+`"."`+m+`"`, allowedDB+`."`+m+`"`)
			}
			for _, ref := range refs {
				for _, sh := range shapes[:9] {
					add("skip-prefix-quoted", sh.name, hdr, sh.f(okTable(hdr), ref))
				}
				add("skip-prefix-quoted", "natural-join", hdr, "SELECT * FROM "+okTable(hdr)+" a NATURAL JOIN "+ref)
				add("skip-prefix-quoted", "with-literal", hdr, "SELECT 'x' AS q, canary FROM "+ref)
			}
		}
	}
	// --- __FROM_MASK_n__ look-alike: UnmaskFromKeywordsInFunctionBodies replaces EVERY occurrence of the
	// placeholder it generated for EXTRACT(… FROM …) - including the user's own text - by FROM
	for _, hdr := range []string{"", allowedDB} {
		for _, fn := range []string{"EXTRACT(year FROM DATE '2024-01-01')", "extract(hour from time)", "SUBSTRING('abc' FROM 2)", "TRIM(BOTH 'x' FROM 'xax')", "OVERLAY('abc' PLACING 'z' FROM 2)"} {
			for _, q := range []string{"'" + sp + "'", "$$" + sp + "$$", `"` + sp + `"`, secretDB + ".cpu", "parquet_scan('" + sp + "')"} {
				add("from-mask-lookalike", "select", hdr, "SELECT "+fn+" AS y, canary __FROM_MASK_0__ "+q)
				add("from-mask-lookalike", "second", hdr, "SELECT "+fn+" AS y, "+fn+" AS z, canary __FROM_MASK_1__ "+q)
				add("from-mask-lookalike", "with-from", hdr, "SELECT "+fn+" AS y, b.canary FROM "+okTable(hdr)+" a __FROM_MASK_0__ "+q+" b")
			}
		}
		add("from-mask-lookalike", "no-trigger", hdr, "SELECT 1 AS y, canary __FROM_MASK_0__ '"+sp+"'")
	}

	// --- mask-then-strip vs strip-then-mask: a comment marker INSIDE a literal, placed so that stripping
	// comments FIRST deletes one quote and flips the quote pairing of everything that follows; the text
	// between the next two literals (a foreign file path) then becomes a string in table position. Every
	// consumer (validator, cross-db check, permission extractor, both transforms) must use the same order.
	{
		file := g.root + "/" + secretDB + "/cpu/2024/01/01/00/part0.parquet"
		for _, hdr := range []string{"", allowedDB, secretDB} {
			ok := okTable(hdr)
			for _, mark := range []string{"a -- b", "a --", "--", "a /* b", "x -- y -- z"} {
				for _, tailq := range []string{" --'", " -- '", "\n--'", " /*'*/"} {
					add("strip-mask-order", "comma", hdr, "SELECT '"+mark+"' AS t\n, ' , z.canary FROM "+ok+", '"+file+"' z"+tailq)
					add("strip-mask-order", "join", hdr, "SELECT '"+mark+"' AS t\n, ' , z.canary FROM "+ok+" a JOIN '"+file+"' z ON true"+tailq)
					add("strip-mask-order", "from", hdr, "SELECT '"+mark+"' AS t\n, ' , canary FROM '"+file+"'"+tailq)
					add("strip-mask-order", "reader", hdr, "SELECT '"+mark+"' AS t\n, ' , canary FROM parquet_scan('"+file+"')"+tailq)
					add("strip-mask-order", "dq", hdr, "SELECT \""+mark+"\" AS t\n, \" , z.canary FROM "+ok+", '"+file+"' z --\"")
				}
			}
		}
	}

	// --- statement kinds that take a table reference WITHOUT the FROM keyword: TABLE x, SUMMARIZE x, DESCRIBE x,
	// SHOW x, PIVOT x ON …, UNPIVOT x ON … - with a replacement scan (quoted path) as x. No FROM/JOIN means: not
	// in "table position" for the validator, no reference for the extractor, short-circuited transform.
	{
		file := g.root + "/" + secretDB + "/cpu/2024/01/01/00/part0.parquet"
		for _, hdr := range []string{"", allowedDB} {
			for _, q := range []string{"'" + file + "'", `"` + file + `"`, "$$" + file + "$$", "E'" + file + "'", "'" + sp + "'", secretDB + ".cpu", "cpu"} {
				for _, st := range []string{"TABLE %s", "table %s", "SUMMARIZE %s", "SUMMARIZE TABLE %s", "DESCRIBE %s", "DESC %s", "DESCRIBE TABLE %s", "SHOW %s", "PIVOT %s ON canary USING count(*)",
					"UNPIVOT %s ON v INTO NAME n VALUE x", "EXPLAIN TABLE %s", "EXPLAIN ANALYZE TABLE %s", "(TABLE %s)", "WITH w AS (TABLE %s) SELECT canary FROM w", "SELECT canary FROM (TABLE %s) t",
					"SELECT canary FROM (PIVOT %s ON host USING count(*)) t", "TABLE %s ORDER BY v LIMIT 2", "SUMMARIZE SELECT canary FROM %s", "PIVOT_WIDER %s ON canary USING count(*)"} {
					add("statement-kind-replacement-scan", strings.Fields(st)[0], hdr, fmt.Sprintf(st, q))
				}
			}
		}
	}

	// --- lexical disguises: hide a live payload from the validator
	tails := func() []string {
		var t []string
		for _, rd := range []string{"read_parquet", "parquet_scan", "PARQUET_SCAN", "read_parquet "} {
			for _, q := range []string{"'" + sp + "'", "$$" + sp + "$$"} {
				t = append(t, ", canary FROM "+rd+"("+q+")")
			}
		}
		t = append(t, ", canary FROM '"+sp+"'", ", canary FROM $$"+sp+"$$", ", canary FROM "+secretDB+".cpu", ", canary FROM cpu",
			" AS a UNION ALL SELECT canary FROM parquet_scan($$"+sp+"$$)", ", (SELECT max(canary) FROM parquet_scan($$"+sp+"$$)) AS c")
		return t
	}()
	for _, hdr := range []string{"", allowedDB, secretDB} {
		for _, t := range tails {
			add("backslash-quote", "open", hdr, `SELECT 'a\'`+t+` --'`)
			add("backslash-quote", "open-where", hdr, `SELECT canary FROM `+okTable(hdr)+` WHERE host = 'a\' UNION ALL SELECT canary FROM parquet_scan($$`+sp+`$$) --'`)
			add("backslash-quote", "double", hdr, `SELECT 'a\\'`+t+` --'`)
			add("backslash-quote", "closed-by-literal", hdr, `SELECT 'a\'`+t+`, '' AS z`)
			add("backslash-dquote", "open", hdr, `SELECT 1 AS "a\"`+t+` --"`)
			add("backslash-dquote", "backtick", hdr, "SELECT 1 AS `a\\`"+t+" --`")
			add("estring-backslash", "escaped-backslash", hdr, `SELECT E'a\\'`+t+` --'`)
			add("estring-backslash", "escaped-quote", hdr, `SELECT E'a\'`+t+` --'`)
			add("estring-backslash", "lower-e", hdr, `SELECT e'a\\\\\\'`+t+` --'`)
			add("estring-backslash", "ident-then-quote", hdr, `SELECT 1 AS vale'a\\'`+t+` --'`)
			add("quote-in-line-comment", "single", hdr, "SELECT 1 -- '\n"+t+" -- '")
			add("quote-in-line-comment", "double", hdr, "SELECT 1 -- \"\n"+t+" -- \"")
			add("quote-in-line-comment", "dollar", hdr, "SELECT 1 -- $$\n"+t+" -- $$")
			add("quote-in-line-comment", "backtick", hdr, "SELECT 1 -- `\n"+t+" -- `")
			add("quote-in-line-comment", "crlf", hdr, "SELECT 1 -- it's\r\n"+t+" -- it's")
			add("quote-in-block-comment", "single", hdr, "SELECT 1 /* ' */"+t+" /* ' */")
			add("quote-in-block-comment", "double", hdr, "SELECT 1 /* \" */"+t+" /* \" */")
			add("quote-in-block-comment", "dollar", hdr, "SELECT 1 /* $$ */"+t+" /* $$ */")
			add("quote-in-block-comment", "dollar-tag", hdr, "SELECT 1 /* $x$ */"+t+" /* $x$ */")
			add("quote-in-block-comment", "estring", hdr, "SELECT 1 /* E' */"+t+" /* ' */")
			add("comment-marker-in-literal", "dash", hdr, "SELECT '--'"+t)
			add("comment-marker-in-literal", "block-open", hdr, "SELECT '/*'"+t+" -- */")
			add("comment-marker-in-literal", "block-open-dq", hdr, `SELECT 1 AS "/*"`+t+" -- */")
			add("comment-marker-in-literal", "block-close", hdr, "SELECT 1 /* '*/' */"+t)
			add("comment-marker-in-literal", "dash-in-dollar", hdr, "SELECT $$--$$"+t)
			add("comment-marker-in-literal", "dollar-in-dq", hdr, `SELECT 1 AS "$$"`+t+` -- $$`)
			add("comment-marker-in-literal", "dollar-in-dq-open", hdr, `SELECT 1 AS "$$"`+t)
			add("comment-marker-in-literal", "quote-in-dq", hdr, `SELECT 1 AS "'"`+t+` -- '`)
			add("nested-block-comment", "hide-from-duckdb", hdr, "SELECT 1 /* /* */"+t+" /* */ */")
			add("nested-block-comment", "open-close", hdr, "SELECT 1 /* /* */ */"+t)
			add("nested-block-comment", "unterminated", hdr, "SELECT 1"+t+" /* /* */")
			add("dollar-quote", "quote-inside", hdr, "SELECT $$'$$"+t+" --'")
			add("dollar-quote", "tag", hdr, "SELECT $a$'$a$"+t+" --'")
			add("dollar-quote", "after-ident", hdr, "SELECT 1 AS x$$"+t+" --$$")
			add("dollar-quote", "digit-tag", hdr, "SELECT $1$"+t+" --$1$")
			add("dollar-quote", "param", hdr, "SELECT $1"+t)
			add("dollar-quote", "nonascii-tag", hdr, "SELECT $é$"+t+" --$é$")
			add("dollar-quote", "unterminated", hdr, "SELECT 1"+t+" , $$x")
			add("dollar-quote", "mismatched-tag", hdr, "SELECT $a$ $b$"+t+" -- $a$")
			add("dollar-quote", "nested-tags", hdr, "SELECT $a$ $$ $a$"+t+" -- $$")
		}
		// placeholder look-alikes: the payload sits inside literal #1, quoted with $$ so that it is
		// live once unmask splices it into the text of literal #0
		for _, rd := range []string{"parquet_scan", "glob", "read_blob", "Parquet_Scan "} {
			pay := " , * FROM " + rd + "($$" + sp + "$$) --"
			add("placeholder-lookalike", "str-in-str", hdr, "SELECT '__STR_1__' , '"+pay+"'")
			add("placeholder-lookalike", "str-in-str-from", hdr, "SELECT '__STR_1__' , '"+pay+"' FROM "+okTable(hdr))
			add("placeholder-lookalike", "str-in-str-where", hdr, "SELECT '__STR_1__' AS a FROM "+okTable(hdr)+" WHERE host <> '"+pay+"'")
			add("placeholder-lookalike", "str-in-ident", hdr, `SELECT "__STR_1__" , '`+pay+`' FROM `+okTable(hdr))
			add("placeholder-lookalike", "ident-in-str", hdr, `SELECT '__IDENT_1__' , "`+pay+`" FROM `+okTable(hdr))
			add("placeholder-lookalike", "str-2", hdr, "SELECT '__STR_2__' , 'x' , '"+pay+"' FROM "+okTable(hdr))
			add("placeholder-lookalike", "dollar-in-str", hdr, "SELECT $$__STR_1__$$ , '"+pay+"' FROM "+okTable(hdr))
		}
		for _, s := range []string{"SELECT canary FROM __STR_0__", "SELECT canary FROM __IDENT_0__", "SELECT b.canary FROM " + okTable(hdr) + " a, __STR_0__ b",
			"SELECT '" + sp + "' AS p, canary FROM __STR_0__", `SELECT "` + sp + `" AS p, canary FROM __IDENT_0__`, "SELECT 'x' FROM __STR_0__",
			"SELECT __FROM_MASK_0__, canary FROM " + okTable(hdr), "SELECT EXTRACT(year FROM time), '__FROM_MASK_0__' FROM " + okTable(hdr),
			"SELECT __STR_0__ FROM " + okTable(hdr) + " WHERE host = 'h1'", `SELECT "__STR_0__" FROM ` + okTable(hdr) + ` WHERE host = 'h1'`} {
			add("placeholder-lookalike", "bare", hdr, s)
		}
	}

	// --- header families (the caller names the unauthorised database in the header)
	for _, hdr := range []string{secretDB, allowedDB} {
		for _, pre := range []string{"1", "1.5", "1e0", ".5", "0x1F", "'a'", "1 ", "v+1", "(1)", "1::INT", "1_", "$1"} {
			add("header-glued-from", "select", hdr, "SELECT canary,"+pre+"from cpu")
			add("header-glued-from", "select-upper", hdr, "SELECT canary,"+pre+"FROM cpu")
			add("header-glued-from", "select-tab", hdr, "SELECT canary,"+pre+"from\tcpu")
			add("header-glued-from", "where", hdr, "SELECT canary,"+pre+"from cpu WHERE v >= 0 ORDER BY v LIMIT 5")
		}
		for _, ws := range []string{"\n", "\t", "\r\n", "\f", "\v", "/**/", " /* */ ", "--\n", "  ", " "} {
			add("header-cte-gate", "with", hdr, "WITH"+ws+"cpu AS (SELECT 1 AS one) SELECT canary FROM cpu")
			add("header-cte-gate", "with-cols", hdr, "WITH"+ws+"cpu(one) AS (SELECT 1) SELECT canary FROM cpu")
			add("header-cte-gate", "with-quoted", hdr, "WITH"+ws+"cpu AS (SELECT 'x' AS one) SELECT canary FROM cpu")
			add("header-cte-gate", "with-recursive", hdr, "WITH"+ws+"RECURSIVE cpu AS (SELECT 1 AS one) SELECT canary FROM cpu")
			add("header-cte-gate", "with-join", hdr, "WITH"+ws+"cpu AS (SELECT 1 AS one) SELECT b.canary FROM mem a JOIN cpu b ON true")
			add("header-cte-gate", "with-used", hdr, "WITH"+ws+"w AS (SELECT 1 AS one) SELECT canary FROM w, cpu")
		}
		for _, s := range []string{
			"SELECT canary, sum(v) OVER cpu FROM cpu WINDOW w AS (ORDER BY time), cpu AS (ORDER BY time)",
			"SELECT canary, sum(v) OVER w FROM cpu WINDOW w AS (ORDER BY time) ,cpu AS (ORDER BY v)",
			"SELECT canary, sum(v) OVER w FROM cpu WINDOW w AS (ORDER BY time),\ncpu AS(ORDER BY v)",
			"SELECT canary, 'x' AS q, sum(v) OVER w FROM cpu WINDOW w AS (ORDER BY time), cpu AS (ORDER BY v)",
			"SELECT b.canary FROM mem a JOIN cpu b ON true WINDOW w AS (ORDER BY 1), cpu AS (ORDER BY 1)",
			"SELECT canary FROM cpu WHERE host IN (SELECT 'h1', cpu AS (x))",
		} {
			add("header-cte-gate", "window", hdr, s)
		}
		for _, ws := range []string{"\n", "\r", "\r\n", " \n", "\n ", "\t\n", "\f", "\v"} {
			add("header-call-newline", "from", hdr, "SELECT canary FROM cpu"+ws+"(x)")
			add("header-call-newline", "from-alias-cols", hdr, "SELECT canary FROM cpu"+ws+"(time, host, v, canary)")
			add("header-call-newline", "join", hdr, "SELECT b.canary FROM mem a JOIN cpu"+ws+"(x) b ON true")
			add("header-call-newline", "quoted", hdr, "SELECT 'q', canary FROM cpu"+ws+"(x)")
			add("header-call-newline", "no-header-form", "", "SELECT canary FROM cpu"+ws+"(x)")
		}
		for _, ref := range []string{secretDB + ".cpu", `"` + secretDB + `".cpu`, secretDB + `."cpu"`, `"` + secretDB + `"."cpu"`, secretDB + " .cpu", secretDB + ". cpu",
			secretDB + " . cpu", secretDB + "\n.cpu", secretDB + "/**/.cpu", secretDB + ".cpu.v", "main." + secretDB + ".cpu", "`" + secretDB + "`.cpu", secretDB + "./**/cpu",
			"LATERAL " + secretDB + ".cpu", "ONLY " + secretDB + ".cpu"} {
			for _, sh := range shapes[:8] {
				add("header-cross-db", sh.name, hdr, sh.f("cpu", ref))
			}
		}
	}

	// --- whitespace between keyword and reference
	for _, hdr := range []string{"", secretDB} {
		ref := secretDB + ".cpu"
		if hdr != "" {
			ref = "cpu"
		}
		for _, ws := range []string{"\t", "\n", "\r", "\r\n", "\f", "\v", "  \n\t ", "/**/", " /* c */ ", "--c\n", " -- '\n", "/*'*/", "\u00a0", "\u2003", "\u3000", "\ufeff", "\x00", "\x1f", "\x85"} {
			add("whitespace", "from", hdr, "SELECT canary FROM"+ws+ref)
			add("whitespace", "join", hdr, "SELECT b.canary FROM "+okTable("")+" a JOIN"+ws+ref+" b ON true")
			add("whitespace", "left-join", hdr, "SELECT b.canary FROM "+okTable("")+" a LEFT"+ws+"JOIN"+ws+ref+" b ON true")
			add("whitespace", "comma", hdr, "SELECT b.canary FROM "+okTable("")+" a,"+ws+ref+" b")
		}
		for _, kw := range []string{"NATURAL JOIN", "ASOF JOIN", "POSITIONAL JOIN", "SEMI JOIN", "ANTI JOIN", "FULL OUTER JOIN", "INNER JOIN", "RIGHT JOIN", "CROSS JOIN LATERAL", "LEFT JOIN LATERAL",
			"JOIN LATERAL", "LATERAL JOIN", "NATURAL LEFT JOIN", "natural\nleft\touter\njoin", "STRAIGHT_JOIN", "ASOF LEFT JOIN", "LEFT ASOF JOIN"} {
			add("whitespace", "join-kind", hdr, "SELECT * FROM "+okTable(hdr)+" a "+kw+" "+ref+" b USING (v)")
			add("whitespace", "join-kind-bare", hdr, "SELECT * FROM "+okTable(hdr)+" a "+kw+" "+ref)
		}
	}

	// --- CTE shadowing without header
	for _, s := range []string{
		"WITH cpu AS (SELECT * FROM " + allowedDB + ".cpu) SELECT canary FROM cpu",
		"WITH " + secretDB + " AS (SELECT 1 AS cpu) SELECT canary FROM " + secretDB + ".cpu",
		"WITH cpu AS (SELECT 1 AS one) SELECT canary FROM " + secretDB + ".cpu",
		"WITH x AS (SELECT 1 AS one), cpu AS (SELECT 2 AS two) SELECT * FROM cpu",
		"WITH x(a) AS (SELECT 1), cpu (b) AS (SELECT 2) SELECT * FROM cpu",
		`WITH "cpu" AS (SELECT 1 AS one) SELECT * FROM cpu`,
		`WITH cpu AS (SELECT 1 AS one) SELECT * FROM "cpu"`,
		`WITH CPU AS (SELECT 1 AS one) SELECT * FROM cpu`,
		"WITH cpu AS MATERIALIZED (SELECT 1 AS one) SELECT canary FROM cpu",
		"WITH cpu AS NOT MATERIALIZED (SELECT 1 AS one) SELECT canary FROM cpu",
		"SELECT canary, sum(v) OVER cpu FROM cpu WINDOW w AS (ORDER BY time), cpu AS (ORDER BY time)",
		"WITH RECURSIVE r(n) AS (SELECT 1 UNION ALL SELECT n+1 FROM r WHERE n < 3) SELECT n FROM r",
		"WITH w AS (SELECT canary FROM " + secretDB + ".cpu) SELECT * FROM w",
		"WITH w AS (SELECT 1), v AS (SELECT canary FROM cpu) SELECT * FROM v",
	} {
		add("cte-shadow", "grid", "", s)
		add("header-cte-gate", "cte-shadow-grid", allowedDB, s)
		add("header-cte-gate", "cte-shadow-grid", secretDB, s)
	}

	// --- case folding of the permission de-duplication
	for _, hdr := range []string{"", allowedDB, secretDB} {
		for _, s := range []string{"SELECT b.canary FROM cpu a JOIN CPU b ON true", "SELECT b.canary FROM CPU a JOIN cpu b ON true",
			"SELECT * FROM cpu a, Cpu b", "SELECT canary FROM default.cpu a JOIN CPU b ON true", "SELECT canary FROM Default.cpu", "SELECT canary FROM DEFAULT.cpu"} {
			add("case-fold", "grid", hdr, s)
		}
	}
	return out
}

// ---------------------------------------------------------------- random compositions

func (g *gen) pick(xs []string) string { return xs[g.r.Intn(len(xs))] }

func (g *gen) noise() string {
	return g.pick([]string{"", "", "", " ", "\n", "\t", " /* c */ ", " -- c\n", " /* ' */ ", " -- '\n", "/**/", " /* /* */ */ ", " /* $$ */ "})
}

func (g *gen) literal() string {
	body := g.pick([]string{"a", "it''s", "a\\", "\\", "--", "/*", "*/", "__STR_0__", "__STR_1__", "__IDENT_0__", "FROM " + secretDB + ".cpu", "from x",
		"read_parquet(", ";", "$$", "a\"b", "JOIN " + secretDB + ".cpu", ""})
	switch g.r.Intn(8) {
	case 0:
		return `"` + strings.ReplaceAll(body, `'`, ``) + `"`
	case 1:
		return "$$" + strings.ReplaceAll(body, "$$", "") + "$$"
	case 2:
		return "$t$" + body + "$t$"
	case 3:
		return "E'" + strings.ReplaceAll(body, `\`, `\\`) + "'"
	case 4:
		return "`" + body + "`"
	default:
		return "'" + body + "'"
	}
}

func (g *gen) randomStmt() stmt {
	hdr := g.pick([]string{"", "", allowedDB, secretDB})
	sp := g.secretPath()
	// a reference: allowed, forbidden, reader call, replacement scan
	ref := func() string {
		switch g.r.Intn(10) {
		case 0, 1, 2:
			return okTable(hdr)
		case 3, 4:
			return g.pick(g.forbiddenRefs(hdr))
		case 5:
			rd := g.pick(append(append([]string{}, parquetReaders...), otherReaders...))
			if g.r.Bool() {
				rd = mixCase(rd, g.r)
			}
			return g.pick(callSpellings(rd)) + g.pick([]string{"'" + sp + "'", "$$" + sp + "$$"}) + ")"
		case 6:
			return g.pick(pathQuotes(sp))
		case 7:
			return "(SELECT * FROM " + g.pick(g.forbiddenRefs(hdr)) + ")"
		case 8:
			return g.pick([]string{"range(3)", "generate_series (1,2)", "unnest([1])", "information_schema.tables", "duckdb_tables()", "pg_catalog.pg_class"})
		default:
			return g.pick([]string{"w", "cpu", "mem", "vault", "__STR_0__", `"cpu"`, "cpu\n(x)", "1cpu"})
		}
	}
	kwFrom := g.pick([]string{"FROM", "from", "From", "FROM", "fRoM"})
	sep := func() string {
		return g.pick([]string{" ", " ", " ", "\n", "\t", "  ", " /* */ ", "\r\n", " --\n", "/**/"})
	}
	var b strings.Builder
	if g.r.Chance(25) {
		b.WriteString("WITH" + g.pick([]string{" ", " ", "\n", "\t"}) + g.pick([]string{"w", "cpu", "mem", "x"}) + g.pick([]string{"", "(a)", " (a, b)"}) +
			" AS (SELECT " + g.pick([]string{"1", "*", "canary", g.literal()}) + g.pick([]string{"", " " + kwFrom + " " + ref()}) + ") ")
	}
	b.WriteString("SELECT " + g.pick([]string{"canary", "*", "1", "t.canary", "count(*)", g.literal(), g.literal() + ", canary", "canary,1"}))
	b.WriteString(g.noise())
	if g.r.Chance(92) {
		b.WriteString(g.pick([]string{" ", " ", "\n", ""}) + kwFrom + sep() + ref() + g.pick([]string{"", " t", " AS t", " t(a,b,c,d)"}))
		for k := g.r.Intn(3); k > 0; k-- {
			switch g.r.Intn(3) {
			case 0:
				b.WriteString(g.noise() + "," + sep() + ref() + g.pick([]string{"", " u"}))
			case 1:
				b.WriteString(g.noise() + " " + g.pick([]string{"JOIN", "LEFT JOIN", "CROSS JOIN", "join", "NATURAL JOIN", "LEFT OUTER JOIN", "JOIN LATERAL", "ASOF JOIN"}) + sep() + ref() +
					g.pick([]string{" u ON true", " ON true", "", " u USING (v)"}))
			default:
				b.WriteString(g.noise())
			}
		}
		if g.r.Chance(40) {
			b.WriteString(" WHERE " + g.pick([]string{"host = " + g.literal(), "v IN (SELECT v " + kwFrom + sep() + ref() + ")", "v >= 0", "host <> " + g.literal() + " AND v < 9",
				"EXISTS (SELECT 1 " + kwFrom + " " + ref() + ")", "EXTRACT(year FROM time) = 2024", "canary LIKE " + g.literal()}))
		}
		if g.r.Chance(15) {
			b.WriteString(" WINDOW w AS (ORDER BY v), " + g.pick([]string{"cpu", "w2", "mem"}) + " AS (ORDER BY v)")
		}
		if g.r.Chance(15) {
			b.WriteString(" UNION ALL SELECT canary " + kwFrom + sep() + ref())
		}
	}
	b.WriteString(g.noise())
	if g.r.Chance(12) {
		b.WriteString(g.pick([]string{";", " ;", "; ", "-- '", "/* ' */", " --'", "; SELECT 1"}))
	}
	return stmt{"random", "random", hdr, b.String()}
}

// malformed stream: arbitrary bytes from a SQL-ish alphabet
func (g *gen) malformed() stmt {
	alpha := []string{"'", "\"", "`", "$$", "$a$", "\\", "--", "/*", "*/", "\n", " ", "(", ")", ",", ";", ".", "FROM", "JOIN", "SELECT", "WITH", "AS", "cpu", secretDB, allowedDB,
		"read_parquet", "parquet_scan", "__STR_0__", "__IDENT_0__", "E'", "canary", "*", "1", "=", "\x00", "\xff", "é", g.secretPath()}
	n := g.r.Range(1, 14)
	var b strings.Builder
	for i := 0; i < n; i++ {
		b.WriteString(g.pick(alpha))
		if g.r.Chance(50) {
			b.WriteString(" ")
		}
	}
	return stmt{"random", "malformed", g.pick([]string{"", allowedDB, secretDB, "bad db", "../x", "a'b"}), b.String()}
}

func replayLine(endpoint string, s stmt) string {
	return fmt.Sprintf("endpoint=%s family=%s header=%q sql=%q", endpoint, s.family, s.hdr, s.sql)
}
