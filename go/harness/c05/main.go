//go:build verif

// C05 harness: WAL crash recovery restores exactly the acknowledged rows.
//
// For random write histories it runs, on the REAL code (ingest.MessagePackDecoder / LineProtocolParser /
// BatchToColumnar, ingest.ArrowBuffer with a real wal.Writer, wal.Recovery.RecoverWithOptions and the two
// recovery callbacks whose source is copied verbatim from cmd/arc/main.go at build time):
//   * the crash-free LIVE path (requests -> buffer -> flush -> Parquet objects), and
//   * RESTART paths (same requests, WAL persisted, process state dropped at a crash point, a fresh
//     ArrowBuffer + WAL writer + startup recovery wired like main()),
// reads the stored rows back from the Parquet objects and compares them per row id with each other
// (property monitors) and with the Lean model (op lines `u …` = data part, `t.…` = crash LTS).
package main

import (
	"context"
	"encoding/binary"
	"encoding/hex"
	"fmt"
	"math"
	"os"
	"path/filepath"
	"sort"
	"strconv"
	"strings"
	"sync"
	"sync/atomic"
	"time"

	"github.com/Basekick-Labs/msgpack/v6"
	"github.com/basekick-labs/arc/internal/config"
	"github.com/basekick-labs/arc/internal/ingest"
	"github.com/basekick-labs/arc/internal/verif/vh"
	"github.com/basekick-labs/arc/internal/wal"
	"github.com/basekick-labs/arc/pkg/models"
	"github.com/rs/zerolog"
)

const nowSentinel = int64(1_700_000_000_000_000) // the model's `now`; generated timestamps are shown as this

func baseCfg() *config.IngestConfig {
	return &config.IngestConfig{
		MaxBufferSize: 1 << 30, MaxBufferAgeMS: 3600_000, Compression: "snappy",
		WriteStatistics: true, DataPageVersion: "2.0",
		FlushWorkers: 1, FlushQueueSize: 16, ShardCount: 4,
	}
}

// ---- rendering of decoded values into op fields

func renderVal(v interface{}) string {
	switch x := v.(type) {
	case nil:
		return "n"
	case int64:
		return "i" + strconv.FormatInt(x, 10)
	case int:
		return "i" + strconv.FormatInt(int64(x), 10)
	case int8:
		return "i" + strconv.FormatInt(int64(x), 10)
	case int16:
		return "i" + strconv.FormatInt(int64(x), 10)
	case int32:
		return "i" + strconv.FormatInt(int64(x), 10)
	case uint8:
		return "i" + strconv.FormatInt(int64(x), 10)
	case uint16:
		return "i" + strconv.FormatInt(int64(x), 10)
	case uint32:
		return "i" + strconv.FormatInt(int64(x), 10)
	case uint:
		return "i" + strconv.FormatInt(int64(x), 10)
	case uint64:
		if x > math.MaxInt64 {
			return "o"
		}
		return "i" + strconv.FormatInt(int64(x), 10)
	case float64:
		return fmt.Sprintf("f%016x", math.Float64bits(x))
	case float32:
		return fmt.Sprintf("f%016x", math.Float64bits(float64(x)))
	case string:
		return "s" + hexs(x)
	case bool:
		if x {
			return "b1"
		}
		return "b0"
	}
	return "o"
}

func asInt64(v interface{}) (int64, bool) {
	s := renderVal(v)
	if s[0] != 'i' {
		return 0, false
	}
	n, _ := strconv.ParseInt(s[1:], 10, 64)
	return n, true
}

func renderCols(cols map[string][]interface{}) string {
	names := make([]string, 0, len(cols))
	for n := range cols {
		names = append(names, n)
	}
	sort.Strings(names)
	var parts []string
	for _, n := range names {
		vs := make([]string, len(cols[n]))
		for i, v := range cols[n] {
			vs[i] = renderVal(v)
		}
		parts = append(parts, hexs(n)+"="+strings.Join(vs, ","))
	}
	if len(parts) == 0 {
		return "-"
	}
	return strings.Join(parts, " ")
}

// ---- units: one unit = one ArrowBuffer write = one WAL entry

type unit struct {
	kind    string // raw | pcol | rgrp
	db      string
	op      string
	rids    []int64
	hasTime bool // raw: the body carries a time column
	rowFmt  bool // WAL entry is row format
	intMeas bool // raw entry whose "m" is not a string
	rawBody []byte // raw unit: the request body at acknowledgement time
	names   map[string]bool
	req     *areq
	write   func(b *ingest.ArrowBuffer, conn []byte) error
	entry   int
	liveT   map[int64]int64 // rid -> live timestamp (filled by the crash-free run)
}

func ridsOf(col []interface{}) []int64 {
	var out []int64
	for _, v := range col {
		if n, ok := asInt64(v); ok {
			out = append(out, n)
		}
	}
	return out
}

func effDB(h string) string {
	if h == "" {
		return "default"
	}
	return h
}

type frontend struct {
	dec *ingest.MessagePackDecoder
	lp  *ingest.LineProtocolParser
}

func newFrontend(typed bool) *frontend {
	d := ingest.NewMessagePackDecoder(zerolog.Nop())
	d.SetTypedDecodeEnabled(typed) // main() wiring: enabled unless decimal columns are configured
	return &frontend{dec: d, lp: ingest.NewLineProtocolParser()}
}

// unitsOf runs the real request front end (what the HTTP handlers do between body and ArrowBuffer) and
// returns one unit per buffer write. The op text is rendered from the decoded structures BEFORE the write.
func (fe *frontend) unitsOf(q *areq) ([]*unit, error) {
	ctx := context.Background()
	db := effDB(q.db)
	var us []*unit
	if q.kind == "lp" {
		recs := fe.lp.ParseBatchWithPrecision(append([]byte(nil), q.body...), q.prec)
		if len(recs) == 0 {
			return nil, fmt.Errorf("no valid records")
		}
		cm := ingest.BatchToColumnar(recs)
		var ms []string
		for m := range cm {
			ms = append(ms, m)
		}
		sort.Strings(ms)
		for _, m := range ms {
			rec := cm[m]
			u := &unit{kind: "pcol", db: db, rowFmt: true, req: q, hasTime: true, names: map[string]bool{}}
			u.op = "u pcol " + hexs(db) + " " + hexs(rec.Measurement) + " " + renderCols(rec.Columns)
			u.rids = ridsOf(rec.Columns["rid"])
			for n := range rec.Columns {
				u.names[n] = true
			}
			r := rec
			u.write = func(b *ingest.ArrowBuffer, _ []byte) error { return b.WriteColumnarRecord(ctx, db, r) }
			us = append(us, u)
		}
		return us, nil
	}
	out, err := fe.dec.Decode(append([]byte(nil), q.body...))
	if err != nil {
		return nil, err
	}
	list, ok := out.([]interface{})
	if !ok {
		return nil, fmt.Errorf("decoder returned %T", out)
	}
	groups := map[string][]*models.Record{}
	var gorder []string
	for _, it := range list {
		switch r := it.(type) {
		case *models.ColumnarRecord:
			if len(r.RawPayload) > 0 {
				u, err := rawUnit(db, q, r.RawPayload)
				if err != nil {
					return nil, err
				}
				rec := r
				u.write = func(b *ingest.ArrowBuffer, conn []byte) error {
					rc := *rec // RawPayload aliases the connection's request buffer, as in the fasthttp handler
					rc.RawPayload = aliasInto(conn, rec.RawPayload)
					return b.Write(ctx, db, []interface{}{&rc})
				}
				us = append(us, u)
			} else {
				u := &unit{kind: "pcol", db: db, rowFmt: true, req: q, hasTime: true, names: map[string]bool{}}
				u.op = "u pcol " + hexs(db) + " " + hexs(r.Measurement) + " " + renderCols(r.Columns)
				u.rids = ridsOf(r.Columns["rid"])
				for n := range r.Columns {
					u.names[n] = true
				}
				rec := r
				u.write = func(b *ingest.ArrowBuffer, _ []byte) error { return b.Write(ctx, db, []interface{}{rec}) }
				us = append(us, u)
			}
		case *ingest.TypedColumnarRecord:
			u, err := rawUnit(db, q, r.RawPayload)
			if err != nil {
				return nil, err
			}
			rec := r
			u.write = func(b *ingest.ArrowBuffer, conn []byte) error {
				rc := *rec
				rc.RawPayload = aliasInto(conn, rec.RawPayload)
				return b.Write(ctx, db, []interface{}{&rc})
			}
			us = append(us, u)
		case *models.Record:
			if _, ok := groups[r.Measurement]; !ok {
				gorder = append(gorder, r.Measurement)
			}
			groups[r.Measurement] = append(groups[r.Measurement], r)
		default:
			return nil, fmt.Errorf("unexpected decoder output %T", it)
		}
	}
	for _, m := range gorder {
		recs := groups[m]
		u := &unit{kind: "rgrp", db: db, rowFmt: true, req: q, hasTime: true, names: map[string]bool{}}
		var parts []string
		for _, r := range recs {
			// timestamp exactly as rowsToColumnar picks it
			var ts int64
			if r.Timestamp != 0 {
				ts = r.Timestamp
			} else if !r.Time.IsZero() {
				ts = r.Time.UnixMicro()
			} else {
				return nil, fmt.Errorf("row without time")
			}
			var tg, fl []string
			for k, v := range r.Tags {
				tg = append(tg, hexs(k)+":"+hexs(v))
				u.names[k] = true
			}
			for k, v := range r.Fields {
				fl = append(fl, hexs(k)+":"+renderVal(v))
				u.names[k] = true
				if k == "rid" {
					if n, ok := asInt64(v); ok {
						u.rids = append(u.rids, n)
					}
				}
			}
			sort.Strings(tg)
			sort.Strings(fl)
			t, f := strings.Join(tg, ";"), strings.Join(fl, ";")
			if t == "" {
				t = "-"
			}
			if f == "" {
				f = "-"
			}
			parts = append(parts, strconv.FormatInt(ts, 10)+"/"+t+"/"+f)
		}
		u.op = "u rgrp " + hexs(db) + " " + hexs(m) + " " + strings.Join(parts, " ")
		items := make([]interface{}, len(recs))
		for i, r := range recs {
			items[i] = r
		}
		u.write = func(b *ingest.ArrowBuffer, _ []byte) error { return b.Write(ctx, db, items) }
		us = append(us, u)
	}
	return us, nil
}

func rawUnit(db string, q *areq, raw []byte) (*unit, error) {
	// the same library call the WAL reader makes on the stored bytes
	var m map[string]interface{}
	if err := msgpack.Unmarshal(raw, &m); err != nil {
		return nil, err
	}
	u := &unit{kind: "raw", db: db, req: q, names: map[string]bool{}, rawBody: append([]byte(nil), raw...)}
	mtxt := "o"
	switch mv := m["m"].(type) {
	case string:
		mtxt = "s" + hexs(mv)
	default:
		if n, ok := asInt64(mv); ok {
			mtxt = "i" + strconv.FormatInt(n, 10)
		}
		u.intMeas = true
	}
	cols := map[string][]interface{}{}
	if cm, ok := m["columns"].(map[string]interface{}); ok {
		for k, v := range cm {
			if arr, ok := v.([]interface{}); ok {
				cols[k] = arr
				u.names[k] = true
			}
		}
	}
	_, u.hasTime = cols["time"]
	u.rids = ridsOf(cols["rid"])
	u.op = "u raw " + hexs(db) + " " + mtxt + " " + renderCols(cols)
	return u, nil
}

// aliasInto copies the body into the connection's (re-used) request buffer and returns the aliasing slice.
func aliasInto(conn []byte, body []byte) []byte {
	if len(body) > len(conn) {
		return append([]byte(nil), body...)
	}
	copy(conn, body)
	return conn[:len(body):len(body)]
}

// scribble: the next request on the connection overwrites the buffer.
func scribble(conn []byte, salt int) {
	for i := range conn {
		conn[i] = byte(0xA5 ^ i ^ salt)
	}
}

// checkWalPayloads: every persisted raw entry must hold exactly the bytes the request had when it was
// acknowledged (envelope + body).
func checkWalPayloads(c *vh.Ctx, m *machine, us []*unit) {
	e := 0
	for _, f := range m.walFiles() {
		path := filepath.Join(m.walDir, f)
		b, err := os.ReadFile(path)
		if err != nil {
			continue
		}
		offs, _ := framedEntries(path)
		start := int64(wal.WALFileHeaderSize)
		for _, end := range offs {
			if e >= len(us) {
				return
			}
			u := us[e]
			if u.kind == "raw" {
				got := b[start+int64(wal.WALEntryHeaderSize) : end]
				want := append([]byte{wal.WALEnvelopeMarker, byte(len(u.db) >> 8), byte(len(u.db))}, u.db...)
				want = append(want, u.rawBody...)
				if string(got) != string(want) {
					c.Fail("wal-payload-aliased:AppendRawWithMeta",
						fmt.Sprintf("WAL entry %d of an acknowledged raw (top-level MessagePack columnar) write does not hold the bytes the request had when it was acknowledged: the request buffer was re-used (next request on the connection) while the WAL writer goroutine was lagging, and the file holds %d bytes that differ from the acknowledged envelope+body (checksum in the entry header was computed at append time)", e, len(got)),
						fmt.Sprintf("%s ;; hold the WAL writer goroutine (it waits for w.mu), POST the request, overwrite the connection buffer as the next request does, release the writer, let it drain; expected payload hex %s, file holds %s", u.req.descr, vh.Hex(want), vh.Hex(got)))
					c.Tag("mon:wal-payload-aliased")
				}
			}
			start = end
			e++
		}
	}
}

// ---- machine / process incarnations

// errSink collects error-level log lines of the ArrowBuffer (a failed flush is only logged when it happens
// inside a schema-change flush; the rows of that buffer are gone).
type errSink struct {
	mu    sync.Mutex
	lines []string
}

func (e *errSink) Write(b []byte) (int, error) {
	e.mu.Lock()
	e.lines = append(e.lines, strings.TrimSpace(string(b)))
	e.mu.Unlock()
	return len(b), nil
}

func (e *errSink) mergeConflict() string {
	e.mu.Lock()
	defer e.mu.Unlock()
	for _, l := range e.lines {
		if strings.Contains(l, "changes type between batches") {
			return l
		}
	}
	return ""
}

type machine struct {
	failedEntry int // entry whose recovery callback was made to fail (-1: none)
	sink   errSink
	d      *disk
	walDir string
	ev     []string // LTS event log
	files  []string // WAL file names in creation order (ordinal = index)
	nextE  int
}

func (m *machine) emit(s string) { m.ev = append(m.ev, s) }

func (m *machine) fileOrd(name string) int {
	for i, f := range m.files {
		if f == name {
			return i
		}
	}
	m.files = append(m.files, name)
	return len(m.files) - 1
}

func (m *machine) walFiles() []string {
	fs, _ := filepath.Glob(filepath.Join(m.walDir, "*.wal"))
	sort.Strings(fs)
	out := make([]string, len(fs))
	for i, f := range fs {
		out[i] = filepath.Base(f)
	}
	return out
}

type proc struct {
	m        *machine
	v        *view
	w        *wal.Writer
	buf      *ingest.ArrowBuffer
	poisoned bool
	failAt   int
}

func ridList(rs []int64) string {
	if len(rs) == 0 {
		return "-"
	}
	s := make([]string, len(rs))
	for i, r := range rs {
		s[i] = strconv.FormatInt(r, 10)
	}
	return strings.Join(s, ",")
}

func (m *machine) boot(walMax int64) (*proc, error) {
	p := &proc{m: m, v: m.d.open()}
	p.v.onWrite = func(path string, data []byte) {
		rows, err := decodeParquetRows(path, data)
		if err != nil {
			m.emit("t.badfile " + err.Error())
			return
		}
		var rs []int64
		for _, r := range rows {
			if r.hasRid {
				rs = append(rs, r.rid)
			}
		}
		sort.Slice(rs, func(i, j int) bool { return rs[i] < rs[j] })
		m.emit("t.flush " + ridList(rs))
	}
	w, err := wal.NewWriter(&wal.WriterConfig{WALDir: m.walDir, SyncMode: wal.SyncModeAsync, MaxSizeBytes: walMax,
		MaxAge: time.Hour, BufferSize: 10000, Logger: zerolog.Nop()})
	if err != nil {
		return nil, err
	}
	p.w = w
	m.fileOrd(filepath.Base(w.CurrentFile()))
	p.buf = ingest.NewArrowBuffer(baseCfg(), p.v, zerolog.New(&m.sink).Level(zerolog.ErrorLevel))
	p.buf.SetWAL(w)
	return p, nil
}

func (p *proc) drainWAL(want int64) error {
	for i := 0; i < 4000; i++ {
		if atomic.LoadInt64(&p.w.TotalEntries) >= want {
			return nil
		}
		time.Sleep(500 * time.Microsecond)
	}
	return fmt.Errorf("WAL writer did not persist %d entries (has %d)", want, atomic.LoadInt64(&p.w.TotalEntries))
}

// kill: the process dies. Durable state (disk, WAL directory) stays; everything in memory is gone.
func (p *proc) kill() {
	p.v.kill()
	p.w.Close()
	if !p.poisoned {
		p.buf.Close()
	}
}

// shutdownFlush: FlushAll + Close (rows reach the disk).
func (p *proc) flushClose() error {
	err := p.buf.FlushAll(context.Background())
	p.buf.Close()
	p.w.Close()
	return err
}

// framedEntries counts the complete framed entries of a WAL file and returns the offsets after each.
func framedEntries(path string) ([]int64, error) {
	b, err := os.ReadFile(path)
	if err != nil {
		return nil, err
	}
	var offs []int64
	off := int64(wal.WALFileHeaderSize)
	for off+int64(wal.WALEntryHeaderSize) <= int64(len(b)) {
		n := int64(binary.BigEndian.Uint32(b[off : off+4]))
		end := off + int64(wal.WALEntryHeaderSize) + n
		if end > int64(len(b)) {
			break
		}
		offs = append(offs, end)
		off = end
	}
	return offs, nil
}

type crashSignal struct{}

// recoverStartup wires startup recovery exactly like main(): callbacks from cmd/arc/main.go, SkipActiveFile
// = the new writer's file, BatchSize = config default. crashAt>0: the process dies right after the
// crashAt-th callback invocation returned.
func (p *proc) recoverStartup(entryOfRid map[int64]int, fileOfEntry map[int]int, crashAt int) (crashed bool, err error) {
	m := p.m
	failAt := p.failAt // >0: the failAt-th callback invocation fails (injected back-pressure error), the real callback is not run
	rowCb := createWALRecoveryCallback(p.buf, zerolog.Nop())
	colCb := createColumnarRecoveryCallback(p.buf, zerolog.Nop())
	present := map[string]bool{}
	for _, f := range m.walFiles() {
		present[f] = true
	}
	replayed := map[int]bool{}
	noteDeletes := func() {
		now := map[string]bool{}
		for _, f := range m.walFiles() {
			now[f] = true
		}
		var gone []string
		for f := range present {
			if !now[f] {
				gone = append(gone, f)
			}
		}
		sort.Strings(gone)
		for _, f := range gone {
			delete(present, f)
			ord := m.fileOrd(f)
			var es []int
			for e, fo := range fileOfEntry {
				if fo == ord && !replayed[e] {
					es = append(es, e)
				}
			}
			sort.Ints(es)
			for _, e := range es {
				m.emit(fmt.Sprintf("t.skip %d", e))
				replayed[e] = true
			}
			m.emit(fmt.Sprintf("t.delete %d", ord))
		}
	}
	cnt := 0
	// the LTS event of an entry's replay is recorded when its callback starts: the callback re-buffers the
	// entry's rows one by one and schema-change flushes of those rows happen inside it
	before := func(rid interface{}) bool {
		fail := failAt > 0 && cnt+1 == failAt
		if n, ok := asInt64(rid); ok {
			if e, ok := entryOfRid[n]; ok && !replayed[e] {
				if fail {
					m.failedEntry = e
					m.emit(fmt.Sprintf("t.fail %d", e))
				} else {
					replayed[e] = true
					m.emit(fmt.Sprintf("t.replay %d", e))
				}
			}
		}
		return fail
	}
	after := func(rid interface{}) {
		cnt++
		if crashAt > 0 && cnt == crashAt {
			panic(crashSignal{})
		}
	}
	wrow := func(ctx context.Context, records []map[string]interface{}) error {
		noteDeletes()
		var rid interface{}
		if len(records) > 0 {
			rid = records[0]["rid"]
		}
		if before(rid) {
			cnt++
			return fmt.Errorf("injected: replay callback failed (back-pressure)")
		}
		err := rowCb(ctx, records)
		if err != nil {
			m.emit("t.cberr " + err.Error())
		}
		after(rid)
		return err
	}
	wcol := func(ctx context.Context, database, measurement string, columns map[string][]interface{}) error {
		noteDeletes()
		var rid interface{}
		if c := columns["rid"]; len(c) > 0 {
			rid = c[0]
		}
		if before(rid) {
			cnt++
			return fmt.Errorf("injected: replay callback failed (back-pressure)")
		}
		err := colCb(ctx, database, measurement, columns)
		if err != nil {
			m.emit("t.cberr " + err.Error())
		}
		after(rid)
		return err
	}
	func() {
		defer func() {
			if r := recover(); r != nil {
				if _, ok := r.(crashSignal); ok {
					crashed = true
					return
				}
				err = fmt.Errorf("PANIC in startup recovery: %v", r)
				p.poisoned = true // locks may be held by the unwound frames: never touch this buffer again
			}
		}()
		rec := wal.NewRecovery(m.walDir, zerolog.Nop())
		_, err = rec.RecoverWithOptions(context.Background(), wrow, &wal.RecoveryOptions{
			SkipActiveFile: p.w.CurrentFile(), BatchSize: 10000, ColumnarCallback: wcol})
	}()
	noteDeletes()
	return crashed, err
}

// ---- scenarios

type scen struct {
	name       string
	live       bool // crash-free run: requests, flush, clean stop
	flushAfter int  // FlushAll after this unit index (-1: none)
	keep       int  // number of WAL entries that reached the file before the crash (-1: all)
	torn       int  // extra bytes of the next entry left at the tail
	crashAtCb  int  // first recovery dies after this many callbacks (0: no)
	killAfter  bool // first recovery completes, process dies before any flush
	failAtCb   int  // the failAtCb-th callback of the first recovery fails (injected error); then killAfter
	freshDisk  bool // data-part comparison: the restarted process gets an empty object store, so that
	// only what recovery restores is observed (rows flushed by schema-change flushes before the crash are
	// the subject of the crash schedules, not of the data comparison)
	walMax     int64
}

type result struct {
	rows    []srow
	ev      []string
	persist int // entries persisted
	nCb     int
	err     error
	fileOfEntry    map[int]int
	failedEntry    int
	failedFileKept bool
	merge   string // a flush failed with a column type conflict in mergeBatches (its rows are gone)
	stage   string
	t0, t1  int64
}

func runScenario(c *vh.Ctx, us []*unit, sc scen) (res result) {
	stage := "live-write"
	defer func() {
		if r := recover(); r != nil {
			// the buffer that panicked may hold locks; it is abandoned (goroutines leak until exit)
			res.err = fmt.Errorf("PANIC in stage %s: %v", stage, r)
			res.stage = stage
		}
	}()
	dir, err := os.MkdirTemp("/dev/shm", "verif-c05-")
	if err != nil {
		dir, err = os.MkdirTemp("", "verif-c05-")
	}
	if err != nil {
		res.err = err
		return res
	}
	defer os.RemoveAll(dir)
	m := &machine{d: newDisk(), walDir: filepath.Join(dir, "wal"), failedEntry: -1}
	res.t0 = time.Now().UnixMicro()
	p, err := m.boot(sc.walMax)
	if err != nil {
		res.err = err
		return res
	}
	entryOfRid := map[int64]int{}
	conn := make([]byte, 1<<16) // the connection's request buffer (fasthttp re-uses it for the next request)
	for i, u := range us {
		// the WAL writer goroutine lags: it is held until the next request has overwritten the buffer
		p.w.VerifC05Pause()
		err := u.write(p.buf, conn)
		scribble(conn, i)
		p.w.VerifC05Resume()
		if err != nil {
			res.err = fmt.Errorf("unit %d rejected by the live path: %v", i, err)
			p.kill()
			return res
		}
		u.entry = i
		for _, r := range u.rids {
			entryOfRid[r] = i
		}
		m.emit(fmt.Sprintf("t.ack %d %s", i, ridList(u.rids)))
		if sc.flushAfter == i {
			if err := p.buf.FlushAll(context.Background()); err != nil {
				res.err = err
				p.kill()
				return res
			}
		}
	}
	if err := p.drainWAL(int64(len(us))); err != nil {
		res.err = err
		p.kill()
		return res
	}
	checkWalPayloads(c, m, us)
	if sc.live {
		stage = "live-flush"
		if err := p.flushClose(); err != nil {
			res.err = err
			res.stage = stage
			return res
		}
		if mc := m.sink.mergeConflict(); mc != "" {
			res.err = fmt.Errorf("live flush failed: %s", mc)
			res.stage = stage
			return res
		}
		res.rows, res.err = m.d.allRows()
		res.ev = m.ev
		res.t1 = time.Now().UnixMicro()
		return res
	}
	if mc := m.sink.mergeConflict(); mc != "" {
		res.err = fmt.Errorf("live flush failed: %s", mc)
		res.stage = "live-flush"
		p.kill()
		return res
	}
	p.kill()
	// which entry sits in which file (framing only); cut the log at the crash point
	fileOfEntry := map[int]int{}
	e := 0
	files := m.walFiles()
	for fi, f := range files {
		ord := m.fileOrd(f)
		if fi > 0 {
			m.emit("t.rotate")
		}
		path := filepath.Join(m.walDir, f)
		offs, err := framedEntries(path)
		if err != nil {
			res.err = err
			return res
		}
		for k, off := range offs {
			if sc.keep >= 0 && e >= sc.keep {
				cut := int64(wal.WALFileHeaderSize)
				if k > 0 {
					cut = offs[k-1]
				}
				if int64(sc.torn) < off-cut {
					cut += int64(sc.torn)
				}
				os.Truncate(path, cut)
				for _, g := range files[fi+1:] {
					os.Remove(filepath.Join(m.walDir, g))
				}
				goto cutDone
			}
			fileOfEntry[e] = ord
			m.emit(fmt.Sprintf("t.persist %d", e))
			e++
		}
	}
cutDone:
	res.persist = e
	if sc.keep < 0 && e != len(us) {
		res.err = fmt.Errorf("WAL holds %d framed entries for %d acknowledged writes", e, len(us))
		return res
	}
	m.emit("t.crash")
	if sc.freshDisk {
		m.d = newDisk()
	}
	p2, err := m.boot(sc.walMax)
	if err != nil {
		res.err = err
		return res
	}
	m.emit("t.restart")
	stage = "recovery"
	p2.failAt = sc.failAtCb
	crashed, err := p2.recoverStartup(entryOfRid, fileOfEntry, sc.crashAtCb)
	if err != nil {
		res.err = err
		res.stage = stage
		p2.kill()
		return res
	}
	res.fileOfEntry, res.failedEntry = fileOfEntry, m.failedEntry
	if m.failedEntry >= 0 {
		// the file holding the entry whose replay failed must survive this recovery pass
		ord := fileOfEntry[m.failedEntry]
		res.failedFileKept = false
		for _, f := range m.walFiles() {
			if m.fileOrd(f) == ord {
				res.failedFileKept = true
			}
		}
	}
	last := p2
	if crashed || sc.killAfter {
		p2.kill()
		m.emit("t.crash")
		p3, err := m.boot(sc.walMax)
		if err != nil {
			res.err = err
			return res
		}
		m.emit("t.restart")
		if _, err := p3.recoverStartup(entryOfRid, fileOfEntry, 0); err != nil {
			res.err = err
			res.stage = stage
			p3.kill()
			return res
		}
		last = p3
	}
	stage = "flush-after-recovery"
	if err := last.flushClose(); err != nil && m.sink.mergeConflict() == "" {
		res.err = err
		res.stage = stage
		return res
	}
	res.merge = m.sink.mergeConflict()
	res.rows, res.err = m.d.allRows()
	res.ev = m.ev
	res.t1 = time.Now().UnixMicro()
	return res
}

// ---- comparison helpers

func byRid(rows []srow) map[int64][]srow {
	out := map[int64][]srow{}
	for _, r := range rows {
		if r.hasRid {
			out[r.rid] = append(out[r.rid], r)
		}
	}
	return out
}

// rowsText: canonical rows of a unit, generated timestamps replaced by the model's `now`.
func rowsText(u *unit, by map[int64][]srow, t0, t1 int64) string {
	var ts []string
	for _, rid := range u.rids {
		for i := range by[rid] {
			r := &by[rid][i]
			var ov *int64
			if u.kind == "raw" && !u.hasTime && r.time >= t0 && r.time <= t1 {
				s := nowSentinel
				ov = &s
			}
			ts = append(ts, r.text(ov))
		}
	}
	if len(ts) == 0 {
		return "-"
	}
	sort.Strings(ts)
	return strings.Join(ts, ";")
}

func storedCounts(rows []srow) string {
	cnt := map[int64]int{}
	for _, r := range rows {
		if r.hasRid {
			cnt[r.rid]++
		}
	}
	ids := make([]int64, 0, len(cnt))
	for id := range cnt {
		ids = append(ids, id)
	}
	sort.Slice(ids, func(i, j int) bool { return ids[i] < ids[j] })
	var ps []string
	for _, id := range ids {
		ps = append(ps, fmt.Sprintf("%d*%d", id, cnt[id]))
	}
	if len(ps) == 0 {
		return "-"
	}
	return strings.Join(ps, ",")
}

var reserved = []string{"_measurement", "measurement", "m", "_database", "database"}

func describe(us []*unit) string {
	var sb strings.Builder
	for i, u := range us {
		if i > 0 {
			sb.WriteString(" || ")
		}
		sb.WriteString(u.op)
	}
	return sb.String()
}

// dataMonitors: the property itself, on the real code: every acknowledged row whose WAL entry reached the
// file must come back from a plain crash-before-flush restart identical to the crash-free run.
func dataMonitors(c *vh.Ctx, us []*unit, live, rest map[int64][]srow) {
	for _, u := range us {
		replay := fmt.Sprintf("request %s (body hex %s) -> unit `%s`; crash after the WAL entry is persisted and before any flush; restart with startup recovery; compare stored rows",
			u.req.descr, vh.Hex(u.req.body), u.op)
		for _, rid := range u.rids {
			l, r := live[rid], rest[rid]
			if len(l) != 1 {
				// not a C05 matter (C03 owns the crash-free flush pipeline): recorded, not failed
				c.Tag("live-anomaly:row-count")
				c.Extra["live-anomaly"] = fmt.Sprintf("crash-free run stored rid %d %d times; %s", rid, len(l), replay)
				continue
			}
			entry := "row-entry"
			if u.kind == "raw" {
				entry = "raw-entry"
			}
			if len(r) == 0 {
				switch {
				case u.intMeas:
					c.Fail("row-lost:raw-entry:non-string-measurement:parseColumnarEntry",
						fmt.Sprintf("acknowledged row rid=%d (measurement sent as an integer, stored live as %q) is not restored: readEntry rejects the raw entry (\"m\" is not a string) and the WAL file is deleted", rid, l[0].meas), replay)
				case u.rowFmt && u.names["_measurement"]:
					c.Fail("row-lost:row-entry:_measurement-column-not-a-string:createWALRecoveryCallback",
						fmt.Sprintf("acknowledged row rid=%d is not restored: its value in the column named _measurement (NULL / non-string) overwrote the WAL record's measurement key and the row callback skips records without measurement", rid), replay)
				default:
					c.Fail("row-lost:"+entry+":other", fmt.Sprintf("acknowledged + persisted row rid=%d missing after restart", rid), replay)
				}
				c.Tag("mon:lost")
				continue
			}
			if len(r) > 1 {
				c.Fail("row-duplicated:"+entry+":plain-restart", fmt.Sprintf("row rid=%d stored %d times after a plain restart", rid, len(r)), replay)
				continue
			}
			a, b := l[0], r[0]
			if a.db != b.db {
				cause := "other"
				if u.names["_database"] {
					cause = "_database-column"
				}
				why := "no column named _database is involved"
				if cause != "other" {
					why = "a column named _database overwrites the WAL record's routing key"
				}
				c.Fail("rerouted-database:"+entry+":"+cause,
					fmt.Sprintf("row rid=%d written to database %q is restored into database %q (%s)", rid, a.db, b.db, why), replay)
				c.Tag("mon:rerouted-db")
			}
			if a.meas != b.meas {
				cause := "other"
				if u.names["_measurement"] {
					cause = "_measurement-column"
				}
				c.Fail("rerouted-measurement:"+entry+":"+cause,
					fmt.Sprintf("row rid=%d of measurement %q is restored into measurement %q", rid, a.meas, b.meas), replay)
				c.Tag("mon:rerouted-meas")
			}
			if a.time != b.time {
				switch {
				case u.kind == "raw" && !u.hasTime:
					c.Fail("timestamp-changed:raw-entry:generated-time-not-in-wal",
						fmt.Sprintf("row rid=%d had the server-generated time %d; after restart it has %d (the raw WAL entry does not carry the generated column; replay generates a new one)", rid, a.time, b.time), replay)
				case u.rowFmt && (a.time < 10_000_000_000_000 || a.time >= 10_000_000_000_000_000):
					c.Fail("timestamp-rescaled:row-entry:normalizeTimestampColumns-on-replay",
						fmt.Sprintf("row rid=%d stored live with time %d us is restored with time %d (replay re-detects the unit of an already-microsecond value)", rid, a.time, b.time), replay)
				default:
					c.Fail("timestamp-changed:"+entry+":other", fmt.Sprintf("row rid=%d time %d -> %d", rid, a.time, b.time), replay)
				}
				c.Tag("mon:time")
			}
			// cells
			bm := map[string]string{}
			for _, x := range b.cells {
				bm[x.name] = x.text
			}
			for _, x := range a.cells {
				y, ok := bm[x.name]
				delete(bm, x.name)
				if ok && y == x.text {
					continue
				}
				isRes := false
				for _, k := range reserved {
					if k == x.name {
						isRes = true
					}
				}
				if ok && u.rowFmt && strings.HasPrefix(x.text, "s") && strings.HasPrefix(y, "s") {
					if raw, err := hexDecode(x.text[1:]); err == nil {
						if san, mod := ingest.SanitizeUTF8(string(raw)); mod && "s"+hexs(san) == y {
							// msgpack-row TAG values are not sanitised by the live path (only fields are); replay
							// sanitises every string. The live value is invalid UTF-8; observation, not a failure.
							c.Tag("obs:invalid-utf8-tag-sanitised-only-on-replay")
							continue
						}
					}
				}
				switch {
				case !ok && isRes && u.rowFmt:
					c.Fail("column-dropped:row-entry:reserved-name:createWALRecoveryCallback",
						fmt.Sprintf("row rid=%d: column %q (value %s) stored by the live path is missing after restart (the row callback removes keys _measurement, measurement, m, _database, database)", rid, x.name, x.text), replay)
					c.Tag("mon:dropped")
				case !ok:
					c.Fail("column-dropped:"+entry+":other", fmt.Sprintf("row rid=%d: column %q missing after restart", rid, x.name), replay)
				default:
					c.Fail("value-changed:"+entry+":other", fmt.Sprintf("row rid=%d: column %q %s -> %s", rid, x.name, x.text, y), replay)
				}
			}
			for n, y := range bm {
				c.Fail("column-added:"+entry+":other", fmt.Sprintf("row rid=%d: column %q=%s appears only after restart", rid, n, y), replay)
			}
		}
	}
}

func hexDecode(s string) ([]byte, error) {
	if s == "-" {
		return nil, nil
	}
	return hex.DecodeString(s)
}

func countsOf(rows []srow) map[int64]int {
	cnt := map[int64]int{}
	for _, r := range rows {
		if r.hasRid {
			cnt[r.rid]++
		}
	}
	return cnt
}

// crashMonitors: rows that a plain restart restores exactly once must be stored exactly once in every
// crash schedule whose WAL prefix contains them.
func crashMonitors(c *vh.Ctx, us []*unit, sc scen, res result, plain map[int64][]srow) {
	cnt := countsOf(res.rows)
	// rows that reached the object store before a crash while their WAL file still existed
	flushedBeforeCrash := map[int64]bool{}
	{
		flushed := map[int64]bool{}
		for _, e := range res.ev {
			if strings.HasPrefix(e, "t.flush ") {
				for _, f := range strings.Split(e[8:], ",") {
					if n, err := strconv.ParseInt(f, 10, 64); err == nil {
						flushed[n] = true
					}
				}
			}
			if e == "t.crash" {
				for k := range flushed {
					flushedBeforeCrash[k] = true
				}
			}
		}
	}
	if sc.failAtCb > 0 {
		if res.failedEntry < 0 {
			return
		}
		key := "acked-row-lost:file-deleted-after-failed-replay"
		fu := us[res.failedEntry]
		kind := "row-format"
		if fu.kind == "raw" {
			kind = "columnar (raw)"
		}
		replay := fmt.Sprintf("%s ;; units: %s ;; crash after all WAL entries are persisted; restart: the recovery callback of WAL entry %d (%s) returns an error (injected; stands for cancelled ctx / back-pressure / validation error); process dies before a flush; restart again with a healthy callback; flush ;; events: %s",
			reqsOf(us), describe(us), res.failedEntry, kind, strings.Join(res.ev, " | "))
		if !res.failedFileKept {
			c.Fail(key, fmt.Sprintf("RecoverWithOptions deleted the WAL file although the replay callback of its %s entry %d failed (the file is the only copy of that entry's acknowledged rows)", kind, res.failedEntry), replay)
			c.Tag("mon:file-deleted-after-failed-replay")
		}
		ford := res.fileOfEntry[res.failedEntry]
		for i, u := range us {
			if i >= res.persist || res.fileOfEntry[i] != ford {
				continue
			}
			for _, rid := range u.rids {
				if len(plain[rid]) == 1 && cnt[rid] == 0 {
					c.Fail(key, fmt.Sprintf("row rid=%d (acknowledged, WAL entry %d persisted, same WAL file as the entry whose replay failed) is stored 0 times after the next clean recovery", rid, i), replay)
					c.Tag("mon:file-deleted-after-failed-replay")
				}
			}
		}
		return
	}
	var lostK string
	switch {
	case sc.killAfter:
		lostK = "row-lost:crash-after-recovery-before-flush:RecoverWithOptions-removes-wal-before-flush"
	case sc.crashAtCb > 0:
		lostK = "row-lost:crash-during-recovery:wal-file-removed-before-flush"
	case sc.flushAfter >= 0:
		lostK = "row-lost:crash-after-flush:other"
	case sc.keep >= 0:
		lostK = "row-lost:wal-prefix:other"
	default:
		lostK = "row-lost:crash-after-last-ack:other"
	}
	var ds []string
	seen := map[*areq]bool{}
	for _, u := range us {
		if !seen[u.req] {
			seen[u.req] = true
			ds = append(ds, u.req.descr)
		}
	}
	replay := fmt.Sprintf("requests: %s ;; units: %s ;; schedule: %s ;; events: %s", strings.Join(ds, " ; "), describe(us), sc.name, strings.Join(res.ev, " | "))
	for i, u := range us {
		if i >= res.persist {
			continue
		}
		for _, rid := range u.rids {
			if len(plain[rid]) != 1 {
				continue // data-part finding, reported by dataMonitors
			}
			switch n := cnt[rid]; {
			case n == 0:
				c.Fail(lostK, fmt.Sprintf("row rid=%d (acknowledged, WAL entry %d persisted) is stored 0 times after schedule %q", rid, i, sc.name), replay)
				c.Tag("mon:crash-lost")
			case n > 1:
				dupK := "row-duplicated:other"
				if flushedBeforeCrash[rid] {
					dupK = "row-duplicated:flushed-before-crash:wal-entry-replayed-again"
				}
				c.Fail(dupK, fmt.Sprintf("row rid=%d (acknowledged, WAL entry %d persisted) is stored %d times after schedule %q: it was flushed to Parquet before a crash, its WAL file still existed, and startup recovery replayed it again", rid, i, n, sc.name), replay)
				c.Tag("mon:crash-dup")
			}
		}
	}
}

func mergeKey(us []*unit) string {
	for _, u := range us {
		for n := range u.names {
			if u.rowFmt && strings.HasPrefix(n, "_") && n != "_database" && n != "_measurement" {
				return "row-lost:flush-after-replay:null-in-underscore-column:mergeBatches-type-conflict"
			}
		}
	}
	return "row-lost:flush-after-replay:mergeBatches-type-conflict:other"
}

func reqsOf(us []*unit) string {
	var ds []string
	seen := map[*areq]bool{}
	for _, u := range us {
		if !seen[u.req] {
			seen[u.req] = true
			ds = append(ds, u.req.descr)
		}
	}
	return "requests: " + strings.Join(ds, " ; ")
}

func recoveryFailKey(err error, us []*unit, stage string) string {
	key := "restart-failed:" + stage
	if strings.Contains(err.Error(), "PANIC") && strings.Contains(err.Error(), "interface conversion") {
		key = "recovery-panic:row-entry:mergeBatches-type-assert:other"
		for _, u := range us {
			for n := range u.names {
				if u.rowFmt && strings.HasPrefix(n, "_") && n != "_database" && n != "_measurement" {
					key = "recovery-panic:row-entry:null-in-underscore-column:mergeBatches-type-assert"
				}
			}
		}
	}
	return key
}

func emitTrace(c *vh.Ctx, sc scen, res result) {
	c.Op("t.new "+sc.name, "ok")
	for _, e := range res.ev {
		c.Op(e, "ok")
	}
	c.Op("t.obs", storedCounts(res.rows))
}

func main() {
	c := vh.Start()
	r := vh.NewRand(c.Seed*0x2545F4914F6CDD1D + 0x9E3779B9) // vh's streams of consecutive seeds are shifts of each other
	nHist := 40
	if c.Thorough() {
		nHist = 200
	}
	if c.N > 0 {
		nHist = c.N
	}
	probeTypedFallback(c)
	relDirStage(c)
	// edge grid first: one minimal request per candidate class (their replays are the ones reported)
	for i, q := range edgeRequests() {
		runHistory(c, r.Fork(), []*areq{q}, -1-i)
	}
	for h := 0; h < nHist; h++ {
		g := &gen{r: r.Fork()}
		n := 1 + g.r.Intn(12)
		if h < 8 {
			n = 1 + h%3
		}
		reqs := g.history(n)
		runHistory(c, g.r, reqs, h)
	}
	c.Finish("non-trivial = history containing a row-format WAL entry, a reserved column name, a non-normal timestamp or a crash schedule with >1 WAL file")
}

func runHistory(c *vh.Ctx, r *vh.Rand, reqs []*areq, h int) {
	fe := newFrontend(r.Intn(100) < 80)
	tDecode := time.Now().UnixMicro()
	var us []*unit
	for _, q := range reqs {
		u, err := fe.unitsOf(q)
		if err != nil {
			c.Tag("frontend-rejected:" + q.kind)
			continue
		}
		us = append(us, u...)
	}
	if len(us) == 0 {
		return
	}
	walMax := int64(100 << 20)
	if r.Intn(100) < 50 {
		walMax = int64(64 + r.Intn(600)) // rotate after (almost) every entry: several WAL files
	}
	liveRes := runScenario(c, us, scen{name: "live", live: true, flushAfter: -1, keep: -1, walMax: walMax})
	if liveRes.err != nil {
		c.Tag("live-error")
		c.Extra[fmt.Sprintf("live-error-%d", h)] = liveRes.err.Error() + " :: " + describe(us)
		return
	}
	plain := runScenario(c, us, scen{name: "plain", flushAfter: -1, keep: -1, walMax: walMax, freshDisk: true})
	if plain.err != nil && (plain.stage == "live-write" || plain.stage == "") {
		c.Tag("live-error")
		return
	}
	if plain.err != nil {
		key := recoveryFailKey(plain.err, us, "plain")
		c.Fail(key, "startup recovery of a WAL written by acknowledged requests does not complete: "+plain.err.Error()+
			" (a NULL cell of a column whose name starts with '_' is replayed as a one-row all-NULL string column; getColumnSignature skips '_' columns, so the next row's typed column is merged into the same buffer)", describe(us))
		c.Tag("mon:recovery-panic")
		return
	}
	if plain.merge != "" {
		stored, total := 0, 0
		pc := countsOf(plain.rows)
		for _, u := range us {
			for _, rid := range u.rids {
				total++
				if pc[rid] > 0 {
					stored++
				}
			}
		}
		if stored == total {
			c.Tag("merge-conflict-but-all-rows-stored")
			return
		}
		c.Fail(mergeKey(us), fmt.Sprintf("%d of %d acknowledged rows are lost at startup recovery: the flush of the replayed rows fails (", total-stored, total)+plain.merge+
			"). The row callback replays each row as a one-row batch; a NULL cell of a column whose name starts with '_' becomes a one-row all-NULL string column, getColumnSignature skips '_' columns, so the next row's typed column of that name shares the buffer; mergeBatches refuses the type conflict, the flush fails, the buffer is dropped and the WAL file is already deleted", reqsOf(us)+" ;; "+describe(us))
		c.Tag("mon:merge-conflict-after-replay")
		return
	}
	lv, rs := byRid(liveRes.rows), byRid(plain.rows)
	nontrivial := false
	for _, u := range us {
		out := "live=" + rowsText(u, lv, tDecode, liveRes.t1) + " wal="
		if u.rowFmt {
			out += "rows"
		} else {
			out += "raw"
		}
		out += " replay=" + rowsText(u, rs, plain.t0, plain.t1)
		c.Op(u.op, out)
		c.Tag("unit:" + u.kind)
		c.Tag("req:" + u.req.kind)
		if u.rowFmt {
			nontrivial = true
		}
		for _, k := range reserved {
			if u.names[k] {
				c.Tag("reserved-name:" + k)
				nontrivial = true
			}
		}
	}
	dataMonitors(c, us, lv, rs)

	// crash schedules
	var scs []scen
	scs = append(scs, scen{name: "kill-after-last-ack", flushAfter: -1, keep: -1, walMax: walMax})
	scs = append(scs, scen{name: "kill-after-recovery-before-flush", flushAfter: -1, keep: -1, killAfter: true, walMax: walMax})
	nCb := len(us)
	pick := func(n int) []int {
		if c.Thorough() || n <= 2 {
			out := make([]int, n)
			for i := range out {
				out[i] = i
			}
			return out
		}
		return []int{r.Intn(n), r.Intn(n)}
	}
	for _, k := range pick(nCb) {
		scs = append(scs, scen{name: fmt.Sprintf("kill-after-callback-%d", k+1), flushAfter: -1, keep: -1, crashAtCb: k + 1, walMax: walMax})
	}
	for _, k := range pick(nCb) {
		scs = append(scs, scen{name: fmt.Sprintf("callback-%d-fails-then-kill", k+1), flushAfter: -1, keep: -1, failAtCb: k + 1, killAfter: true, walMax: walMax})
	}
	for _, j := range pick(len(us)) {
		scs = append(scs, scen{name: fmt.Sprintf("flush-after-unit-%d-then-kill", j), flushAfter: j, keep: -1, walMax: walMax})
	}
	for _, k := range pick(len(us)) {
		scs = append(scs, scen{name: fmt.Sprintf("wal-holds-%d-entries-torn-%d", k, k*7%23), flushAfter: -1, keep: k, torn: k * 7 % 23, walMax: walMax})
	}
	for _, sc := range scs {
		res := runScenario(c, us, sc)
		if res.err != nil {
			if res.stage == "live-write" || res.stage == "live-flush" {
				c.Tag("live-error")
			} else {
				c.Fail(recoveryFailKey(res.err, us, res.stage), res.err.Error(), describe(us)+" ;; "+sc.name)
			}
			continue
		}
		if res.merge != "" {
			c.Fail(mergeKey(us), "flush of replayed rows fails: "+res.merge, reqsOf(us)+" ;; "+describe(us)+" ;; "+sc.name)
			continue
		}
		c.Tag("schedule:" + strings.TrimRight(sc.name, "0123456789-"))
		crashMonitors(c, us, sc, res, rs)
		emitTrace(c, sc, res)
	}
	c.Case(describe(us), nontrivial)
}

// probeTypedFallback: candidate (d). WriteTypedColumnarDirect (the TLE import path) has no raw payload, so the
// WAL entry is built by typedBatchToWALRecords, which ignores Validity. Not reachable from the request kinds
// the property quantifies over (msgpack / line protocol always carry raw bytes or []interface{} columns), so
// this is recorded as an observation, not as a property failure.
func probeTypedFallback(c *vh.Ctx) {
	dir, err := os.MkdirTemp("/dev/shm", "verif-c05-")
	if err != nil {
		return
	}
	defer os.RemoveAll(dir)
	m := &machine{d: newDisk(), walDir: filepath.Join(dir, "wal")}
	p, err := m.boot(100 << 20)
	if err != nil {
		return
	}
	batch := &ingest.TypedColumnBatch{
		Data:     map[string]interface{}{"time": []int64{1_700_000_000_000_000, 1_700_000_000_000_001}, "rid": []int64{1, 2}, "load": []int64{5, 0}},
		Validity: map[string][]bool{"load": {true, false}},
	}
	if err := p.buf.WriteTypedColumnarDirect(context.Background(), "default", "tle", batch, 2); err != nil {
		c.Extra["typed-fallback-probe"] = "write error: " + err.Error()
		p.kill()
		return
	}
	p.drainWAL(1)
	p.kill()
	p2, err := m.boot(100 << 20)
	if err != nil {
		return
	}
	if _, err := p2.recoverStartup(map[int64]int{}, map[int]int{}, 0); err != nil {
		p2.kill()
		return
	}
	p2.flushClose()
	rows, _ := m.d.allRows()
	for _, r := range rows {
		if r.hasRid && r.rid == 2 {
			has := false
			for _, x := range r.cells {
				if x.name == "load" {
					has = true
					c.Extra["typed-fallback-probe"] = "NULL in a typed batch without raw payload (WriteTypedColumnarDirect) is restored as " + x.text + " (typedBatchToWALRecords ignores Validity); not reachable from msgpack / line-protocol requests"
					c.Tag("probe:typed-fallback:null-became-zero")
				}
			}
			if !has {
				c.Tag("probe:typed-fallback:null-preserved")
			}
		}
	}
}

// edgeRequests: minimal requests, one per way a persisted WAL entry can replay differently from the live path.
func edgeRequests() []*areq {
	lp := func(db, prec, body string) *areq {
		return &areq{kind: "lp", db: db, prec: prec, body: []byte(body),
			descr: fmt.Sprintf("line protocol, x-arc-database=%q, precision=%q, body %q", db, prec, body)}
	}
	mp := func(kind, db, text string, v interface{}) *areq {
		return &areq{kind: kind, db: db, body: mustPack(v), descr: fmt.Sprintf("msgpack, x-arc-database=%q, body %s", db, text)}
	}
	i64 := func(xs ...int64) []interface{} {
		out := make([]interface{}, len(xs))
		for i, x := range xs {
			out[i] = x
		}
		return out
	}
	return []*areq{
		lp("", "us", "cpu rid=1i,v=1 1700000000000000"), // clean
		lp("", "us", "cpu rid=1i,v=1 5000000"),          // 1970-01-01T00:00:05Z
		lp("", "us", "cpu rid=1i,v=1 -1000000"),         // 1969-12-31T23:59:59Z
		lp("", "s", "cpu rid=1i,v=1 8000000"),           // 1970-04-03 (before 1970-04-27)
		lp("", "us", "cpu rid=1i,v=1 11000000000000000"), // year 2318
		lp("", "us", "cpu,m=x rid=1i,v=1 1700000000000000"),
		lp("", "us", "cpu,database=x,measurement=y rid=1i,v=1 1700000000000000"),
		lp("prod", "us", "cpu,_database=lab rid=1i,v=1 1700000000000000"),
		lp("prod", "us", "cpu,_measurement=mem rid=1i,v=1 1700000000000000"),
		lp("prod", "us", "cpu,_measurement=mem rid=1i,v=1 1700000000000000\ncpu rid=2i,v=2 1700000000000001"),
		lp("prod", "us", "cpu rid=1i,v=1 1700000000000000\ncpu rid=2i,v=2,_x=7i 1700000000000001"),
		mp("raw", "", `{m:5, columns:{time:[1700000000], rid:[1], v:[1.5]}}`,
			map[string]interface{}{"m": int64(5), "columns": map[string]interface{}{"time": i64(1700000000), "rid": i64(1), "v": []interface{}{1.5}}}),
		mp("raw", "", `{m:"cpu", columns:{rid:[1], v:[1.5]}}`,
			map[string]interface{}{"m": "cpu", "columns": map[string]interface{}{"rid": i64(1), "v": []interface{}{1.5}}}),
		mp("raw", "prod", `{m:"cpu", columns:{time:[-5, 1700000000], rid:[1,2], database:["x","y"], _database:["lab","lab"]}}`,
			map[string]interface{}{"m": "cpu", "columns": map[string]interface{}{"time": i64(-5, 1700000000), "rid": i64(1, 2),
				"database": []interface{}{"x", "y"}, "_database": []interface{}{"lab", "lab"}}}),
		mp("ncol", "", `[{m:"cpu", columns:{time:[5], rid:[1], v:[1.5]}}]`,
			[]interface{}{map[string]interface{}{"m": "cpu", "columns": map[string]interface{}{"time": i64(5), "rid": i64(1), "v": []interface{}{1.5}}}}),
		mp("row", "", `{m:"cpu", t:-5, fields:{rid:1, v:1.5}, tags:{database:"x"}}`,
			map[string]interface{}{"m": "cpu", "t": int64(-5), "fields": map[string]interface{}{"rid": int64(1), "v": 1.5}, "tags": map[string]interface{}{"database": "x"}}),
		mp("brow", "lab", `{batch:[{m:"cpu", t:1700000000, fields:{rid:1, _database:"prod"}}]}`,
			map[string]interface{}{"batch": []interface{}{map[string]interface{}{"m": "cpu", "t": int64(1700000000),
				"fields": map[string]interface{}{"rid": int64(1), "_database": "prod"}}}}),
	}
}
