//go:build verif

package main

// Startup-order stage: mirrors main()'s wiring for EVERY incarnation — wal.NewWriter(dir), ArrowBuffer+SetWAL,
// wal.NewRecovery(dir) with SkipActiveFile = writer.CurrentFile() BEFORE any write, then acknowledged writes,
// a kill, and the next start — with the WAL directory spelled the way a config file spells it: relative
// ("wal", "./wal", "wal/", "wal/../wal"; the shipped default is "./data/wal") as well as absolute. The writer
// and the recovery build their file paths independently from that string; main() compares them.

import (
	"context"
	"fmt"
	"os"
	"path/filepath"
	"sort"
	"strings"
	"time"

	"github.com/basekick-labs/arc/internal/ingest"
	"github.com/basekick-labs/arc/internal/verif/vh"
	"github.com/basekick-labs/arc/internal/wal"
	"github.com/rs/zerolog"
)

type mainProc struct {
	v   *view
	w   *wal.Writer
	buf *ingest.ArrowBuffer
}

// startLikeMain: the WAL part of main() up to "ready to ingest".
func startLikeMain(d *disk, walDir string) (*mainProc, string, error) {
	p := &mainProc{v: d.open()}
	w, err := wal.NewWriter(&wal.WriterConfig{WALDir: walDir, SyncMode: wal.SyncModeAsync, MaxSizeBytes: 100 << 20,
		MaxAge: time.Hour, BufferSize: 10000, Logger: zerolog.Nop()})
	if err != nil {
		return nil, "", err
	}
	p.w = w
	rec := wal.NewRecovery(walDir, zerolog.Nop()) // main: wal.NewRecovery(cfg.WAL.Directory, …)
	p.buf = ingest.NewArrowBuffer(baseCfg(), p.v, zerolog.Nop())
	p.buf.SetWAL(w)
	rowCb := createWALRecoveryCallback(p.buf, zerolog.Nop())
	colCb := createColumnarRecoveryCallback(p.buf, zerolog.Nop())
	active := w.CurrentFile()
	_, err = rec.RecoverWithOptions(context.Background(), rowCb, &wal.RecoveryOptions{
		SkipActiveFile: active, BatchSize: 10000, ColumnarCallback: colCb})
	return p, active, err
}

func relDirStage(c *vh.Ctx) {
	cwd, err := os.Getwd()
	if err != nil {
		return
	}
	defer os.Chdir(cwd)
	fe := newFrontend(true)
	for vi, spell := range []string{"wal", "./wal", "wal/", "wal/../wal", "data/wal", "ABS"} {
		base, _ := filepath.Abs(c.OutDir)
		scratch, err := os.MkdirTemp(base, "reldir-")
		if err != nil {
			c.Fail("restart-failed:reldir", err.Error(), spell)
			return
		}
		out := func() string {
			defer os.RemoveAll(scratch)
			if err := os.Chdir(scratch); err != nil {
				return "err:chdir"
			}
			defer os.Chdir(cwd)
			dir := spell
			if spell == "ABS" {
				dir = filepath.Join(scratch, "wal")
			}
			d := newDisk()
			p, active, err := startLikeMain(d, dir)
			if err != nil {
				return "err:start:" + err.Error()
			}
			_, statErr := os.Stat(active)
			activeKept := statErr == nil
			reqs := []*areq{
				{kind: "lp", db: "prod", prec: "us", body: []byte(fmt.Sprintf("cpu rid=%di,v=1 1700000000000000", 1)),
					descr: `line protocol, x-arc-database="prod", precision="us", body "cpu rid=1i,v=1 1700000000000000"`},
				{kind: "raw", db: "", body: mustPack(map[string]interface{}{"m": "mem", "columns": map[string]interface{}{
					"time": []interface{}{int64(1700000000)}, "rid": []interface{}{int64(2)}, "v": []interface{}{1.5}}}),
					descr: `msgpack {m:"mem", columns:{time:[1700000000], rid:[2], v:[1.5]}}`},
			}
			conn := make([]byte, 1<<12)
			n := 0
			for _, q := range reqs {
				us, err := fe.unitsOf(q)
				if err != nil {
					return "err:frontend"
				}
				for _, u := range us {
					if err := u.write(p.buf, conn); err != nil {
						return "err:write:" + err.Error()
					}
					n++
				}
			}
			for i := 0; i < 4000 && p.w.TotalEntries < int64(n); i++ {
				time.Sleep(500 * time.Microsecond)
			}
			// kill: nothing was flushed
			p.v.kill()
			p.w.Close()
			p.buf.Close()
			p2, _, err := startLikeMain(d, dir)
			if err != nil {
				return "err:restart:" + err.Error()
			}
			p2.buf.FlushAll(context.Background())
			p2.buf.Close()
			p2.w.Close()
			rows, err := d.allRows()
			if err != nil {
				return "err:read:" + err.Error()
			}
			cnt := countsOf(rows)
			var lost []string
			for _, rid := range []int64{1, 2} {
				if cnt[rid] == 0 {
					lost = append(lost, fmt.Sprint(rid))
				}
			}
			sort.Strings(lost)
			replay := fmt.Sprintf("cd <scratch>; wal.directory=%q; start like main(): wal.NewWriter(dir) -> ArrowBuffer.SetWAL -> wal.NewRecovery(dir).RecoverWithOptions(SkipActiveFile: writer.CurrentFile()=%q); then %s ; %s ; wait until the WAL writer drained; kill -9; start again the same way; FlushAll; read the stored rows",
				dir, active, reqs[0].descr, reqs[1].descr)
			if !activeKept || len(lost) > 0 {
				c.Fail("acked-row-lost:active-file-deleted-by-startup-recovery",
					fmt.Sprintf("WAL directory spelled %q: after startup recovery the writer's active file %q exists=%v (SkipActiveFile did not match the path recovery lists it under => it was deleted as an empty leftover and the writer appends to an unlinked inode); acknowledged rows lost after kill+restart: rid %s",
						dir, active, activeKept, strings.Join(lost, ",")), replay)
				c.Tag("mon:active-file-deleted")
			}
			o := "active-kept"
			if !activeKept {
				o = "active-deleted"
			}
			if len(lost) == 0 {
				return o + " restored=all"
			}
			return o + " lost=" + strings.Join(lost, ",")
		}()
		c.Op(fmt.Sprintf("s.reldir %d %s", vi, hexs(spell)), out)
		c.Tag("reldir:" + spell)
	}
}
