//go:build verif

package main

// Request generator: write histories mixing MessagePack columnar (top level = raw WAL entry; inside an
// array or a {"batch": [...]} = row WAL entry), MessagePack row / array-of-rows / batch-of-rows and line
// protocol, over several databases, with timestamps in every unit incl. pre-1970 and pre-1970-04-27 and
// columns / tags / fields named database, measurement, m, _database, _measurement.

import (
	"fmt"
	"math"
	"strconv"
	"strings"

	"github.com/Basekick-Labs/msgpack/v6"
	"github.com/basekick-labs/arc/internal/verif/vh"
)

type val struct {
	k byte // n i f s b
	i int64
	f float64
	s string
	b bool
}

type acol struct {
	name string
	vals []val
}

type acolumnar struct {
	m    interface{} // string or int64
	cols []acol
}

type kv struct {
	k string
	v val
}

type apoint struct {
	meas   interface{} // string | int64 (msgpack rows only)
	t      *int64      // client units; nil = absent
	host   *string
	tags   []kv // string values
	fields []kv
}

type areq struct {
	kind   string // raw ncol bcol row rows brow lp
	db     string // "" = no x-arc-database header
	cols   []acolumnar
	points []apoint
	prec   string
	body   []byte
	rids   []int64
	descr  string // human readable, for replays
}

type colSpec struct {
	name string
	ty   byte
	w    int
}

var colPool = []colSpec{
	{"host", 's', 45}, {"region", 's', 25}, {"v", 'f', 60}, {"load", 'i', 40}, {"ok", 'b', 20}, {"note", 's', 15},
	{"database", 's', 7}, {"measurement", 's', 7}, {"m", 's', 7}, {"_database", 's', 7}, {"_measurement", 's', 5}, {"_x", 'i', 3},
}

var measPool = []string{"cpu", "mem", "disk_io"}
var dbPool = []string{"", "prod", "lab"}

type gen struct {
	r       *vh.Rand
	rid     int64
	dbIntTy bool // this history types the `_database` column as integer
	lpSafe  bool
}

func (g *gen) strVal(name string, lp bool) string {
	switch name {
	case "database", "_database":
		return vh.Pick(g.r, []string{"prod", "lab", "other_db", "default"})
	case "measurement", "_measurement":
		return vh.Pick(g.r, []string{"mem", "zz", "cpu"})
	case "m":
		return vh.Pick(g.r, []string{"mem", "q", "cpu"})
	case "note":
		if lp {
			return vh.Pick(g.r, []string{"n1", "hello", "x-y"})
		}
		return vh.Pick(g.r, []string{"n1", "h\xc3\xa9llo", "bad\xffutf8", "", "a b,c=d"})
	}
	return vh.Pick(g.r, []string{"a", "b", "srv1", "eu-west", "us_east"})
}

func (g *gen) value(cs colSpec, lp bool) val {
	ty := cs.ty
	if cs.name == "_database" && g.dbIntTy {
		ty = 'i'
	}
	switch ty {
	case 's':
		return val{k: 's', s: g.strVal(cs.name, lp)}
	case 'f':
		return val{k: 'f', f: vh.Pick(g.r, []float64{0.5, -1.25, 3, 0.001, 2.5e10, 97.125, -0.0})}
	case 'i':
		return val{k: 'i', i: vh.Pick(g.r, []int64{0, 1, -1, 7, 42, 300, 70000, -5_000_000_000, 1 << 40})}
	default:
		return val{k: 'b', b: g.r.Bool()}
	}
}

func (g *gen) pickCols() []colSpec {
	var out []colSpec
	for _, cs := range colPool {
		if g.r.Intn(100) < cs.w {
			out = append(out, cs)
		}
	}
	if len(out) == 0 {
		out = append(out, colPool[2])
	}
	return out
}

// microsecond instants by class
func (g *gen) instantUS() (int64, string) {
	switch p := g.r.Intn(100); {
	case p < 50:
		return 1_600_000_000_000_000 + int64(g.r.Intn(200_000_000))*1_000_000 + int64(g.r.Intn(1_000_000)), "normal"
	case p < 64:
		return 10_000_000_000 + g.r.Int63()%(10_000_000_000_000-10_000_000_000), "pre-1970-04-27"
	case p < 74:
		return g.r.Int63() % 10_000_000_000, "first-hours-of-1970"
	case p < 90:
		return -1 - g.r.Int63()%10_000_000_000, "pre-1970"
	default:
		return 10_000_000_000_000_000 + g.r.Int63()%2_000_000_000_000_000, "after-2286"
	}
}

// client-unit time values of a columnar request (one unit per request, as real clients send)
func (g *gen) clientTimes(n int, nested bool) ([]int64, string) {
	out := make([]int64, n)
	switch p := g.r.Intn(100); {
	case p < 25: // seconds
		b := 1_600_000_000 + int64(g.r.Intn(200_000_000))
		for i := range out {
			out[i] = b + int64(g.r.Intn(8000))
		}
		return out, "s"
	case p < 45:
		b := 1_600_000_000_000 + int64(g.r.Intn(200_000_000))*1000
		for i := range out {
			out[i] = b + int64(g.r.Intn(8_000_000))
		}
		return out, "ms"
	case p < 65:
		b := 1_600_000_000_000_000 + int64(g.r.Intn(200_000_000))*1_000_000
		for i := range out {
			out[i] = b + int64(g.r.Intn(2_000_000_000))
		}
		return out, "us"
	case p < 75:
		b := 1_600_000_000_000_000_000 + int64(g.r.Intn(200_000_000))*1_000_000_000
		for i := range out {
			out[i] = b + int64(g.r.Intn(2_000_000_000))
		}
		return out, "ns"
	case p < 87: // negative (pre-1970): the decoder reads them as seconds
		lim := int64(1_000_000_000)
		if nested {
			lim = 9000
		}
		for i := range out {
			out[i] = -1 - g.r.Int63()%lim
		}
		return out, "neg"
	default: // small seconds (1970)
		for i := range out {
			out[i] = g.r.Int63() % 9_000_000
		}
		return out, "s-1970"
	}
}

func (g *gen) nextRid() int64 { g.rid++; return g.rid }

func (g *gen) columnar(nested bool) (acolumnar, []int64, string) {
	n := 1 + g.r.Intn(4)
	var c acolumnar
	c.m = vh.Pick(g.r, measPool)
	if g.r.Intn(100) < 7 {
		c.m = int64(g.r.Intn(9))
	}
	note := ""
	if g.r.Intn(100) < 92 || nested && g.r.Intn(100) < 50 {
		ts, u := g.clientTimes(n, nested)
		note = "time:" + u
		tc := acol{name: "time"}
		for _, t := range ts {
			tc.vals = append(tc.vals, val{k: 'i', i: t})
		}
		c.cols = append(c.cols, tc)
	} else {
		note = "time:absent"
	}
	var rids []int64
	rc := acol{name: "rid"}
	for i := 0; i < n; i++ {
		id := g.nextRid()
		rids = append(rids, id)
		rc.vals = append(rc.vals, val{k: 'i', i: id})
	}
	c.cols = append(c.cols, rc)
	for _, cs := range g.pickCols() {
		col := acol{name: cs.name}
		for i := 0; i < n; i++ {
			if g.r.Intn(100) < 10 {
				col.vals = append(col.vals, val{k: 'n'})
			} else {
				col.vals = append(col.vals, g.value(cs, false))
			}
		}
		c.cols = append(c.cols, col)
	}
	return c, rids, note
}

func (g *gen) point(lp bool) (apoint, int64) {
	var p apoint
	p.meas = vh.Pick(g.r, measPool)
	if !lp && g.r.Intn(100) < 6 {
		p.meas = int64(g.r.Intn(9))
	}
	id := g.nextRid()
	p.fields = append(p.fields, kv{"rid", val{k: 'i', i: id}})
	for _, cs := range g.pickCols() {
		v := g.value(cs, lp)
		if cs.ty == 's' && v.k == 's' && g.r.Intn(100) < 70 {
			p.tags = append(p.tags, kv{cs.name, v})
		} else {
			p.fields = append(p.fields, kv{cs.name, v})
		}
	}
	if !lp && g.r.Intn(100) < 30 {
		h := vh.Pick(g.r, []string{"srv1", "srv2"})
		p.host = &h
	}
	return p, id
}

func goInt(r *vh.Rand, v int64) interface{} {
	switch r.Intn(6) {
	case 0:
		if v >= math.MinInt8 && v <= math.MaxInt8 {
			return int8(v)
		}
	case 1:
		if v >= math.MinInt32 && v <= math.MaxInt32 {
			return int32(v)
		}
	case 2:
		if v >= 0 {
			return uint64(v)
		}
	case 3:
		if v >= 0 && v <= math.MaxUint16 {
			return uint16(v)
		}
	}
	return v
}

func (g *gen) goVal(v val) interface{} {
	switch v.k {
	case 'n':
		return nil
	case 'i':
		return goInt(g.r, v.i)
	case 'f':
		return v.f
	case 's':
		return v.s
	default:
		return v.b
	}
}

func (g *gen) columnarMap(c acolumnar) map[string]interface{} {
	cols := map[string]interface{}{}
	for _, col := range c.cols {
		arr := make([]interface{}, len(col.vals))
		for i, v := range col.vals {
			arr[i] = g.goVal(v)
		}
		cols[col.name] = arr
	}
	m := map[string]interface{}{"columns": cols}
	switch mv := c.m.(type) {
	case string:
		m["m"] = mv
	case int64:
		m["m"] = goInt(g.r, mv)
	}
	if g.r.Intn(100) < 10 {
		m["extra"] = "ignored"
	}
	return m
}

func (g *gen) pointMap(p apoint) map[string]interface{} {
	m := map[string]interface{}{}
	switch mv := p.meas.(type) {
	case string:
		m["m"] = mv
	case int64:
		m["m"] = goInt(g.r, mv)
	}
	if p.t != nil {
		m["t"] = goInt(g.r, *p.t)
	}
	if p.host != nil {
		m["h"] = *p.host
	}
	f := map[string]interface{}{}
	for _, x := range p.fields {
		f[x.k] = g.goVal(x.v)
	}
	m["fields"] = f
	if len(p.tags) > 0 {
		t := map[string]interface{}{}
		for _, x := range p.tags {
			t[x.k] = x.v.s
		}
		m["tags"] = t
	}
	return m
}

func lpEsc(s string) string {
	s = strings.ReplaceAll(s, ",", `\,`)
	s = strings.ReplaceAll(s, " ", `\ `)
	return strings.ReplaceAll(s, "=", `\=`)
}

func lpLine(p apoint, ts string) string {
	var sb strings.Builder
	sb.WriteString(p.meas.(string))
	for _, t := range p.tags {
		sb.WriteString("," + lpEsc(t.k) + "=" + lpEsc(t.v.s))
	}
	sb.WriteByte(' ')
	for i, f := range p.fields {
		if i > 0 {
			sb.WriteByte(',')
		}
		sb.WriteString(lpEsc(f.k) + "=")
		switch f.v.k {
		case 'i':
			sb.WriteString(strconv.FormatInt(f.v.i, 10) + "i")
		case 'f':
			sb.WriteString(strconv.FormatFloat(f.v.f, 'g', -1, 64))
		case 's':
			sb.WriteString(`"` + strings.ReplaceAll(f.v.s, `"`, `\"`) + `"`)
		default:
			if f.v.b {
				sb.WriteString("true")
			} else {
				sb.WriteString("false")
			}
		}
	}
	if ts != "" {
		sb.WriteString(" " + ts)
	}
	return sb.String()
}

func mustPack(v interface{}) []byte {
	b, err := msgpack.Marshal(v)
	if err != nil {
		panic(err)
	}
	return b
}

// rowTime: client `t` of a msgpack row for a wanted instant class
func (g *gen) rowTime() (*int64, string) {
	switch p := g.r.Intn(100); {
	case p < 8:
		return nil, "t:absent"
	case p < 35:
		v := 1_600_000_000 + int64(g.r.Intn(200_000_000))
		return &v, "t:s"
	case p < 55:
		v := 1_600_000_000_000 + int64(g.r.Intn(200_000_000))*1000 + int64(g.r.Intn(1000))
		return &v, "t:ms"
	case p < 72:
		v := 1_600_000_000_000_000 + int64(g.r.Intn(200_000_000))*1_000_000 + int64(g.r.Intn(1000000))
		return &v, "t:us"
	case p < 86:
		v := -1 - g.r.Int63()%9000
		return &v, "t:neg"
	default:
		v := g.r.Int63() % 9_000_000
		return &v, "t:s-1970"
	}
}

func (g *gen) request(kind string) *areq {
	q := &areq{kind: kind, db: vh.Pick(g.r, dbPool)}
	var notes []string
	switch kind {
	case "raw":
		c, rids, n := g.columnar(false)
		q.cols, q.rids = []acolumnar{c}, rids
		notes = append(notes, n)
		q.body = mustPack(g.columnarMap(c))
	case "ncol", "bcol":
		k := 1 + g.r.Intn(2)
		var items []interface{}
		for i := 0; i < k; i++ {
			c, rids, n := g.columnar(true)
			q.cols = append(q.cols, c)
			q.rids = append(q.rids, rids...)
			notes = append(notes, n)
			items = append(items, g.columnarMap(c))
		}
		if kind == "ncol" {
			q.body = mustPack(items)
		} else {
			q.body = mustPack(map[string]interface{}{"batch": items})
		}
	case "row", "rows", "brow":
		k := 1
		if kind != "row" {
			k = 1 + g.r.Intn(4)
		}
		var items []interface{}
		for i := 0; i < k; i++ {
			p, id := g.point(false)
			t, n := g.rowTime()
			p.t = t
			notes = append(notes, n)
			q.points = append(q.points, p)
			q.rids = append(q.rids, id)
			items = append(items, g.pointMap(p))
		}
		switch kind {
		case "row":
			q.body = mustPack(items[0])
		case "rows":
			q.body = mustPack(items)
		default:
			q.body = mustPack(map[string]interface{}{"batch": items})
		}
	case "lp":
		q.prec = vh.Pick(g.r, []string{"", "ns", "us", "ms", "s"})
		k := 1 + g.r.Intn(4)
		var lines []string
		for i := 0; i < k; i++ {
			p, id := g.point(true)
			us, cls := g.instantUS()
			for (q.prec == "" || q.prec == "ns") && cls == "after-2286" { // not expressible in int64 nanoseconds
				us, cls = g.instantUS()
			}
			ts := ""
			switch q.prec {
			case "", "ns":
				ts = strconv.FormatInt(us*1000+int64(g.r.Intn(1000)), 10)
				if us < 0 {
					ts = strconv.FormatInt(us*1000, 10)
				}
			case "us":
				ts = strconv.FormatInt(us, 10)
			case "ms":
				ts = strconv.FormatInt(us/1000, 10)
			default:
				ts = strconv.FormatInt(us/1_000_000, 10)
			}
			if g.r.Intn(100) < 6 {
				ts, cls = "", "no-timestamp"
			}
			notes = append(notes, "ts:"+cls)
			q.points = append(q.points, p)
			q.rids = append(q.rids, id)
			lines = append(lines, lpLine(p, ts))
		}
		if g.r.Intn(100) < 20 {
			lines = append(lines, "# comment", "")
		}
		q.body = []byte(strings.Join(lines, "\n"))
	}
	q.descr = fmt.Sprintf("%s db=%q %s", kind, q.db, strings.Join(notes, ","))
	return q
}

var kindWeights = []struct {
	k string
	w int
}{{"raw", 30}, {"ncol", 10}, {"bcol", 8}, {"row", 8}, {"rows", 12}, {"brow", 8}, {"lp", 24}}

func (g *gen) history(n int) []*areq {
	g.dbIntTy = g.r.Intn(100) < 25
	var out []*areq
	for i := 0; i < n; i++ {
		p := g.r.Intn(100)
		kind := "raw"
		for _, kw := range kindWeights {
			if p < kw.w {
				kind = kw.k
				break
			}
			p -= kw.w
		}
		out = append(out, g.request(kind))
	}
	return out
}
