//go:build verif

// C32 correspondence harness: "writes land only where the caller is allowed to write".
//
// Drives the REAL fiber handlers (app.Test) of arc for every write surface:
//
//	POST /api/v1/write/msgpack (columnar / row / batch / top-level array), /write, /api/v2/write,
//	/api/v1/write/line-protocol, /api/v1/write/tle, /api/v1/import/{csv,parquet,lp,tle}
//
// with a RECORDING RBAC checker (allow-list: database allowed_db, measurements cpu, mem), a real
// ArrowBuffer over a recording in-memory storage backend and a real wal.Writer whose replication hook
// captures what a reader would receive.  After the handler: buffer keys, FlushAll, storage paths; then
// every captured WAL entry goes through the REAL replication apply path (Receiver.applyEntry ->
// Coordinator.buildReplicationIngestHandler -> wal.ParseEnvelope) into a second ArrowBuffer.
// The compiled Lean model must print the same line for every op; monitors compare what was stored
// with (request database, permission-checked measurements).
package main

import (
	"bytes"
	"context"
	"encoding/hex"
	"fmt"
	"io"
	"mime/multipart"
	"net/http"
	"net/http/httptest"
	"net/url"
	"os"
	"path/filepath"
	"sort"
	"strings"
	"sync"

	"github.com/basekick-labs/arc/internal/api"
	"github.com/basekick-labs/arc/internal/auth"
	"github.com/basekick-labs/arc/internal/cluster"
	"github.com/basekick-labs/arc/internal/cluster/replication"
	"github.com/basekick-labs/arc/internal/config"
	"github.com/basekick-labs/arc/internal/ingest"
	"github.com/basekick-labs/arc/internal/storage"
	"github.com/basekick-labs/arc/internal/verif/vh"
	"github.com/basekick-labs/arc/internal/wal"
	"github.com/gofiber/fiber/v2"
	"github.com/rs/zerolog"
)

// ---------------------------------------------------------------- recording storage backend

type memBackend struct {
	mu    sync.Mutex
	files map[string][]byte
	order []string
}

func newMem() *memBackend { return &memBackend{files: map[string][]byte{}} }
func (m *memBackend) Write(_ context.Context, p string, d []byte) error {
	m.mu.Lock()
	defer m.mu.Unlock()
	m.files[p] = append([]byte(nil), d...)
	m.order = append(m.order, p)
	return nil
}
func (m *memBackend) WriteReader(ctx context.Context, p string, r io.Reader, _ int64) error {
	b, err := io.ReadAll(r)
	if err != nil {
		return err
	}
	return m.Write(ctx, p, b)
}
func (m *memBackend) Read(_ context.Context, p string) ([]byte, error) {
	m.mu.Lock()
	defer m.mu.Unlock()
	d, ok := m.files[p]
	if !ok {
		return nil, os.ErrNotExist
	}
	return d, nil
}
func (m *memBackend) ReadTo(ctx context.Context, p string, w io.Writer) error {
	d, err := m.Read(ctx, p)
	if err != nil {
		return err
	}
	_, err = w.Write(d)
	return err
}
func (m *memBackend) ReadToAt(ctx context.Context, p string, w io.Writer, off int64) error {
	d, err := m.Read(ctx, p)
	if err != nil {
		return err
	}
	if off < 0 || off >= int64(len(d)) {
		return fmt.Errorf("offset out of range")
	}
	_, err = w.Write(d[off:])
	return err
}
func (m *memBackend) StatFile(_ context.Context, p string) (int64, error) {
	m.mu.Lock()
	defer m.mu.Unlock()
	if d, ok := m.files[p]; ok {
		return int64(len(d)), nil
	}
	return -1, nil
}
func (m *memBackend) List(_ context.Context, prefix string) ([]string, error) {
	m.mu.Lock()
	defer m.mu.Unlock()
	var out []string
	for k := range m.files {
		if strings.HasPrefix(k, prefix) {
			out = append(out, k)
		}
	}
	sort.Strings(out)
	return out, nil
}
func (m *memBackend) Delete(_ context.Context, p string) error {
	m.mu.Lock()
	defer m.mu.Unlock()
	delete(m.files, p)
	return nil
}
func (m *memBackend) Exists(_ context.Context, p string) (bool, error) {
	m.mu.Lock()
	defer m.mu.Unlock()
	_, ok := m.files[p]
	return ok, nil
}
func (m *memBackend) Close() error       { return nil }
func (m *memBackend) Type() string       { return "verif-mem" }
func (m *memBackend) ConfigJSON() string { return "{}" }
func (m *memBackend) take() []string {
	m.mu.Lock()
	defer m.mu.Unlock()
	out := m.order
	m.order = nil
	m.files = map[string][]byte{}
	return out
}

var _ storage.Backend = (*memBackend)(nil)

// ---------------------------------------------------------------- recording RBAC checker

const allowedDB = "allowed_db"

var allowedMeas = map[string]bool{"cpu": true, "mem": true}

type check struct {
	db, m, perm string
	allowed     bool
}

type recRBAC struct {
	enabled bool
	calls   []check
}

func (r *recRBAC) IsRBACEnabled() bool { return r.enabled }
func (r *recRBAC) CheckPermission(q *auth.PermissionCheckRequest) *auth.PermissionCheckResult {
	// Same rule as auth.RBACManager for one role: the role has database-level write on allowed_db, narrowed by
	// measurement-level permissions (cpu, mem). A request with an EMPTY measurement is a database-level question
	// and is decided by the role-level grant alone; a named measurement is decided by the measurement permissions.
	ok := q.Permission == "write" && q.Database == allowedDB && (q.Measurement == "" || allowedMeas[q.Measurement])
	r.calls = append(r.calls, check{q.Database, q.Measurement, q.Permission, ok})
	if ok {
		return &auth.PermissionCheckResult{Allowed: true, Source: "rbac"}
	}
	return &auth.PermissionCheckResult{Allowed: false, Source: "denied", Reason: "verif allow-list"}
}
func (r *recRBAC) CheckPermissionsBatch(qs []*auth.PermissionCheckRequest) []*auth.PermissionCheckResult {
	out := make([]*auth.PermissionCheckResult, len(qs))
	for i, q := range qs {
		out[i] = r.CheckPermission(q)
	}
	return out
}

// ---------------------------------------------------------------- environment

type env struct {
	c        *vh.Ctx
	r        *vh.Rand
	tmp      string
	app      *fiber.App
	mp       *api.MsgPackHandler
	rbac     *recRBAC
	token    bool
	wstore   *memBackend
	wbuf     *ingest.ArrowBuffer
	walw     *wal.Writer
	captured [][]byte
	rstore   *memBackend
	rbuf     *ingest.ArrowBuffer
	recv     *replication.Receiver
	pstore   *memBackend         // WAL crash-recovery copy
	pbuf     *ingest.ArrowBuffer // … written by the real recovery callbacks of cmd/arc (verbatim copies)
	nreplay  int
	parquet  []byte // a real Parquet file produced by the pipeline (columns time, v, measurement, database; `_`-prefixed columns are dropped by the Parquet writer)
	local    *storage.LocalBackend
	seq      uint64
}

func icfg() *config.IngestConfig {
	return &config.IngestConfig{MaxBufferSize: 1000000, MaxBufferAgeMS: 3600000, FlushWorkers: 1, FlushQueueSize: 4, ShardCount: 2}
}

func newEnv(c *vh.Ctx) *env {
	e := &env{c: c, r: vh.NewRand(c.Seed), rbac: &recRBAC{enabled: true}}
	base := "/dev/shm"
	if _, err := os.Stat(base); err != nil {
		base = "/var/tmp"
	}
	tmp, err := os.MkdirTemp(base, "verif-c32-")
	if err != nil {
		panic(err)
	}
	e.tmp = tmp
	lg := zerolog.Nop()
	e.wstore, e.rstore, e.pstore = newMem(), newMem(), newMem()
	e.wbuf = ingest.NewArrowBuffer(icfg(), e.wstore, lg)
	e.rbuf = ingest.NewArrowBuffer(icfg(), e.rstore, lg)
	e.pbuf = ingest.NewArrowBuffer(icfg(), e.pstore, lg)
	w, err := wal.NewWriter(&wal.WriterConfig{WALDir: filepath.Join(tmp, "wal"), SyncMode: wal.SyncModeAsync, Logger: lg})
	if err != nil {
		panic(err)
	}
	e.walw = w
	w.SetReplicationHook(func(en *wal.ReplicationEntry) {
		e.captured = append(e.captured, append([]byte(nil), en.Payload...))
	})
	e.wbuf.SetWAL(w)
	e.recv = replication.NewReceiver(&replication.ReceiverConfig{ReaderID: "reader-1", IngestHandler: cluster.VerifC32ReplicationIngestHandler(e.rbuf), Logger: lg})
	lb, err := storage.NewLocalBackend(filepath.Join(tmp, "local"), lg)
	if err != nil {
		panic(err)
	}
	e.local = lb

	app := fiber.New(fiber.Config{DisableStartupMessage: true, BodyLimit: 64 << 20})
	app.Use(func(fc *fiber.Ctx) error {
		if e.token {
			fc.Locals("token_info", &auth.TokenInfo{ID: 7, Name: "verif-caller", Enabled: true, Permissions: []string{"write"}})
		}
		return fc.Next()
	})
	e.mp = api.NewMsgPackHandler(lg, e.wbuf, 16<<20)
	e.mp.SetAuthAndRBAC(nil, e.rbac)
	lp := api.NewLineProtocolHandler(e.wbuf, lg)
	lp.SetAuthAndRBAC(nil, e.rbac)
	tl := api.NewTLEHandler(e.wbuf, lg)
	tl.SetAuthAndRBAC(nil, e.rbac)
	ih := api.NewImportHandler(lg)
	ih.SetArrowBuffer(e.wbuf)
	ih.SetAuthAndRBAC(nil, e.rbac)
	e.mp.RegisterRoutes(app)
	lp.RegisterRoutes(app)
	tl.RegisterRoutes(app)
	ih.RegisterRoutes(app)
	e.app = app
	e.makeParquet()
	return e
}

func (e *env) close() {
	e.wbuf.Close()
	e.rbuf.Close()
	e.pbuf.Close()
	e.walw.Close()
	os.RemoveAll(e.tmp)
}

const tsMicros = int64(1700000000000000)

// makeParquet: a real Parquet file, produced by the real pipeline, with routing-like column names.
func (e *env) makeParquet() {
	cols := map[string][]interface{}{
		"time":        {tsMicros},
		"v":           {int64(1)},
		"measurement": {"evil_m2"},
		"database":    {"evil_db2"},
	}
	if err := e.rbuf.WriteColumnarDirectNoWAL(context.Background(), "seed", "seed", cols); err != nil {
		panic(err)
	}
	if err := e.rbuf.FlushAll(context.Background()); err != nil {
		panic(err)
	}
	ps := e.rstore.order
	if len(ps) != 1 {
		panic("no seed parquet file")
	}
	e.parquet = append([]byte(nil), e.rstore.files[ps[0]]...)
	e.rstore.take()
}

func (e *env) setMode(mode string) {
	e.rbac.enabled = mode != "off"
	e.token = mode != "notoken"
}

// ---------------------------------------------------------------- observation

type obs struct {
	status    string
	code      int
	body      string
	checks    []check
	keys      []string // writer buffer keys after the handler
	paths     []string // writer storage paths (raw)
	rkeys     []string // reader buffer keys after applying the captured WAL entries
	pkeys     []string // buffer keys after WAL crash recovery of the same entries (real wal.Recovery + cmd/arc callbacks)
	replayErr string
	nwal      int
	walRaw    int // enveloped entries
	applyErr  string
}

func hx(s string) string {
	if s == "" {
		return "-"
	}
	return hex.EncodeToString([]byte(s))
}
func tk(s *string) string {
	if s == nil {
		return "~"
	}
	return hx(*s)
}
func hxs(xs []string) string {
	out := make([]string, len(xs))
	for i, x := range xs {
		out[i] = hx(x)
	}
	return sortU(out)
}
func sortU(xs []string) string {
	m := map[string]bool{}
	var u []string
	for _, x := range xs {
		if !m[x] {
			m[x] = true
			u = append(u, x)
		}
	}
	sort.Strings(u)
	return strings.Join(u, ",")
}

// normPath: (everything before the 4 partition segments) | (file name without the 34-byte stamp suffix)
func normPath(p string) (prefix, filePrefix string) {
	segs := strings.Split(p, "/")
	n := len(segs)
	if n < 5 {
		return p, "?"
	}
	file := segs[n-1]
	if len(file) >= 34 {
		file = file[:len(file)-34]
	}
	return strings.Join(segs[:n-5], "/"), file
}

func statusClass(code int) string {
	switch {
	case code >= 200 && code < 300:
		return "ok"
	case code == 403:
		return "403"
	case code >= 400 && code < 500:
		return "400"
	default:
		return "500"
	}
}

func (e *env) run(req *http.Request) obs {
	ctx := context.Background()
	e.rbac.calls = nil
	e.captured = nil
	e.wstore.take()
	e.rstore.take()
	var o obs
	resp, err := e.app.Test(req, -1)
	if err != nil {
		o.status, o.body = "500", "test-error: "+err.Error()
	} else {
		b, _ := io.ReadAll(resp.Body)
		resp.Body.Close()
		o.code, o.body, o.status = resp.StatusCode, string(b), statusClass(resp.StatusCode)
	}
	o.checks = append([]check(nil), e.rbac.calls...)
	o.keys = e.wbuf.VerifC32BufferKeys()
	if err := e.wbuf.FlushAll(ctx); err != nil {
		o.applyErr = "writer-flush: " + err.Error()
	}
	o.paths = e.wstore.take()
	caps := e.captured
	e.captured = nil
	o.nwal = len(caps)
	if os.Getenv("C32_DEBUG") != "" {
		for _, p := range caps {
			q := p
			if len(q) > 300 {
				q = q[:300]
			}
			fmt.Fprintf(os.Stderr, "DEBUG %s wal entry %d bytes: %q\n", req.URL.String(), len(p), q)
		}
	}
	for _, p := range caps {
		if len(p) > 0 && p[0] == wal.WALEnvelopeMarker {
			o.walRaw++
		}
		p := p
		e.seq++
		r := vh.Guard(func() string {
			if err := e.recv.VerifC32ApplyEntry(e.seq, p); err != nil {
				return "err:" + err.Error()
			}
			return ""
		})
		if r != "" && o.applyErr == "" {
			o.applyErr = r
		}
	}
	o.rkeys = e.rbuf.VerifC32BufferKeys()
	e.rbuf.FlushAll(ctx)
	e.rstore.take()
	if len(caps) > 0 {
		o.pkeys, o.replayErr = e.replay(caps)
	}
	return o
}

// replay: the captured payloads are exactly the bytes the writer's WAL file holds (the hook sees the entry payload,
// envelope included).  They are appended to a fresh WAL file with the real wal.Writer and recovered with the real
// wal.Recovery / wal.Reader and the two recovery callbacks of cmd/arc/main.go into a third ArrowBuffer.
func (e *env) replay(caps [][]byte) (keys []string, errs string) {
	ctx := context.Background()
	e.nreplay++
	dir := filepath.Join(e.tmp, fmt.Sprintf("replay-%d", e.nreplay))
	defer os.RemoveAll(dir)
	lg := zerolog.Nop()
	w, err := wal.NewWriter(&wal.WriterConfig{WALDir: dir, SyncMode: wal.SyncModeAsync, Logger: lg})
	if err != nil {
		return nil, "wal-writer: " + err.Error()
	}
	for _, p := range caps {
		if err := w.AppendRaw(p); err != nil {
			errs = "append: " + err.Error()
		}
	}
	if err := w.Close(); err != nil {
		errs = "close: " + err.Error()
	}
	res := vh.Guard(func() string {
		_, err := wal.NewRecovery(dir, lg).RecoverWithOptions(ctx, createWALRecoveryCallback(e.pbuf, lg),
			&wal.RecoveryOptions{ColumnarCallback: createColumnarRecoveryCallback(e.pbuf, lg)})
		if err != nil {
			return "recover: " + err.Error()
		}
		return ""
	})
	if res != "" {
		errs = res
	}
	keys = e.pbuf.VerifC32BufferKeys()
	e.pbuf.FlushAll(ctx)
	e.pstore.take()
	return keys, errs
}

func (o *obs) line() string {
	chk := "*"
	if o.status == "ok" || o.status == "500" {
		var cs []string
		for _, c := range o.checks {
			cs = append(cs, hx(c.db)+":"+hx(c.m))
		}
		chk = sortU(cs)
	}
	fl := 0
	if len(o.keys) == 0 && len(o.paths) > 0 {
		fl = 1
	}
	var ps []string
	for _, p := range o.paths {
		a, b := normPath(p)
		ps = append(ps, hx(a)+"|"+hx(b))
	}
	s := fmt.Sprintf("st=%s chk=[%s] keys=[%s] fl=%d paths=[%s] rkeys=[%s]", o.status, chk, hxs(o.keys), fl, sortU(ps), hxs(o.rkeys))
	if o.applyErr != "" {
		s += " applyerr=" + strings.ReplaceAll(o.applyErr, " ", "_")
	}
	return s
}

// ---------------------------------------------------------------- monitors

type reqInfo struct {
	endpoint string   // msgpack | lp-v1 | lp-v2 | lp-simple | import-lp | import-csv | import-parquet | write-tle | import-tle
	mode     string   // rbac | off | notoken
	named    []string // every database the request names anywhere outside the payload (header, query), plus "default"
	replay   string
	emptyM   bool // payload contains a record with measurement ""
	dupKey   bool // msgpack body repeats a top-level key
}

func (e *env) monitors(ri reqInfo, o *obs) {
	c := e.c
	named := map[string]bool{}
	for _, n := range ri.named {
		named[n] = true
	}
	// exactly the (database, measurement) pairs for which CheckPermission(db, m, "write") was called and answered
	// "allowed"; a database-level call (measurement "") stands for no measurement at all
	allowedChecked := map[string]bool{}
	for _, k := range o.checks {
		if k.perm == "write" && k.allowed && k.m != "" {
			allowedChecked[k.db+"\x00"+k.m] = true
		}
	}
	type stored struct{ db, m, how string }
	var all []stored
	for _, p := range o.paths {
		pre, _ := normPath(p)
		i := strings.IndexByte(pre, '/')
		db, m := pre, ""
		if i >= 0 {
			db, m = pre[:i], pre[i+1:]
		}
		all = append(all, stored{db, m, "storage path " + fmt.Sprintf("%q", p)})
	}
	for _, k := range o.keys {
		parts := ingest.VerifC32SplitBufferKey(k)
		if len(parts) == 2 {
			all = append(all, stored{parts[0], parts[1], "buffer key " + fmt.Sprintf("%q", k)})
		} else {
			all = append(all, stored{k, "", "buffer key " + fmt.Sprintf("%q", k)})
		}
	}
	for _, s := range all {
		if !named[s.db] {
			c.Fail("row-stored-outside-request-database:"+ri.endpoint,
				fmt.Sprintf("%s: rows stored under database %q, which the request named neither in the header nor in a query parameter (%s)", ri.endpoint, s.db, s.how), ri.replay)
		}
		if ri.mode == "rbac" && !allowedChecked[s.db+"\x00"+s.m] {
			class := "other"
			if s.m == "" {
				class = "empty-measurement"
			}
			extra := ""
			if s.m == "" && strings.HasPrefix(s.how, "storage path") {
				extra = e.localLanding(strings.TrimPrefix(s.how, "storage path "))
			}
			c.Fail("row-stored-under-unchecked-measurement:"+ri.endpoint+":"+class,
				fmt.Sprintf("%s: rows stored under %q/%q although CheckPermission was never consulted for that measurement (consulted: %v) — %s%s", ri.endpoint, s.db, s.m, o.checks, s.how, extra), ri.replay)
		}
	}
	if o.status == "403" && (len(all) > 0 || len(o.rkeys) > 0) {
		c.Fail("denied-request-stored-rows:"+ri.endpoint, fmt.Sprintf("%s answered 403 but stored %v (reader %v)", ri.endpoint, all, o.rkeys), ri.replay)
	}
	// replicated copy: the reader must store under the database and measurements the writer stored under
	wdb, wms := map[string]bool{}, map[string]bool{}
	for _, s := range all {
		wdb[s.db] = true
		wms[s.m] = true
	}
	class := "payload-field"
	if ri.dupKey {
		class = "duplicate-key"
	}
	for _, cp := range []struct {
		what string
		keys []string
	}{{"replicated", o.rkeys}, {"replayed", o.pkeys}} {
		for _, k := range cp.keys {
			parts := ingest.VerifC32SplitBufferKey(k)
			if len(parts) != 2 || o.status != "ok" {
				continue // (a rejected request that stored rows is reported by the monitors above)
			}
			if !wdb[parts[0]] {
				key := "replicated-row-stored-outside-request-database:unenveloped-wal-rows"
				if cp.what == "replayed" {
					key = "replayed-row-stored-outside-request-database:wal-recovery"
				}
				c.Fail(key, fmt.Sprintf("%s: the writer stored the request under database(s) %v; the %s copy of its WAL entries (%d entries, %d enveloped) lands under %q (buffer key %q)", ri.endpoint, keysOf(wdb), cp.what, o.nwal, o.walRaw, parts[0], k), ri.replay)
			}
			if !wms[parts[1]] {
				key := "replicated-row-redirected-by-payload-field:measurement"
				if ri.dupKey {
					key = "replicated-row-stored-under-unchecked-measurement:duplicate-key"
				}
				if cp.what == "replayed" {
					key = "replayed-row-stored-under-unchecked-measurement:" + class
				}
				c.Fail(key, fmt.Sprintf("%s: the writer checked and stored measurement(s) %v; the %s copy lands under measurement %q (buffer key %q), for which CheckPermission was never consulted (consulted: %v)", ri.endpoint, keysOf(wms), cp.what, parts[1], k, o.checks), ri.replay+fmt.Sprintf("; %s keys %q", cp.what, cp.keys))
			}
		}
		// the copy must also be complete for an accepted request: every measurement the writer stored arrives
		if o.status == "ok" && cp.what == "replayed" && o.replayErr == "" {
			got := map[string]bool{}
			for _, k := range cp.keys {
				got[k] = true
			}
			for _, k := range o.keys {
				if !got[k] {
					c.Tag("note:replayed-copy-misses-a-writer-key")
				}
			}
		}
	}
	if o.replayErr != "" {
		c.Tag("note:replay-error")
	}
}

func parseEnvelopeDB(p []byte) string { db, _ := wal.ParseEnvelope(p, "default"); return db }
func nil2ctx() context.Context        { return context.Background() }

func keysOf(m map[string]bool) []string {
	var out []string
	for k := range m {
		out = append(out, k)
	}
	sort.Strings(out)
	return out
}

// localLanding writes the same key through the real LocalBackend and reports where the file really is.
func (e *env) localLanding(quoted string) string {
	p := strings.Trim(quoted, "\"")
	if err := e.local.Write(context.Background(), p, []byte("x")); err != nil {
		return "; LocalBackend.Write: " + err.Error()
	}
	root := filepath.Join(e.tmp, "local")
	var found []string
	filepath.Walk(root, func(fp string, info os.FileInfo, err error) error {
		if err == nil && !info.IsDir() {
			rel, _ := filepath.Rel(root, fp)
			found = append(found, rel)
		}
		return nil
	})
	os.RemoveAll(root)
	os.MkdirAll(root, 0o755)
	return fmt.Sprintf("; on the local backend that key is the file %v", found)
}

// ---------------------------------------------------------------- request builders

func sp(s string) *string { return &s }

func (e *env) newReq(path string, q url.Values, hdr map[string]*string, body []byte, ctype string) *http.Request {
	u := path
	if len(q) > 0 {
		u += "?" + q.Encode()
	}
	req := httptest.NewRequest("POST", u, bytes.NewReader(body))
	for k, v := range hdr {
		if v != nil {
			req.Header.Set(k, *v)
		}
	}
	if ctype != "" {
		req.Header.Set("Content-Type", ctype)
	}
	return req
}

func multipartFile(name string, data []byte) ([]byte, string) {
	var buf bytes.Buffer
	mw := multipart.NewWriter(&buf)
	fw, _ := mw.CreateFormFile("file", name)
	fw.Write(data)
	mw.Close()
	return buf.Bytes(), mw.FormDataContentType()
}

func namedDBs(vals ...*string) []string {
	out := []string{"default"}
	for _, v := range vals {
		if v != nil && *v != "" {
			out = append(out, *v)
		}
	}
	return out
}

func main() {
	c := vh.Start()
	e := newEnv(c)
	defer e.close()
	e.grid()
	n := c.N
	if n == 0 {
		n = 2500
		if c.Thorough() {
			n = 40000
		}
	}
	for i := 0; i < n; i++ {
		e.randomCase()
	}
	e.repGrid()
	e.aliasStage()
	c.Extra["allow_list"] = "database allowed_db, measurements cpu, mem; everything else denied"
	c.Finish("non-trivial = routing-like payload name present, empty/odd measurement, header/query disagreement, nested batch, failing element, denied or invalid name, non-default RBAC mode, malformed envelope")
}
