//go:build verif

package main

import (
	"encoding/binary"
	"encoding/hex"
	"fmt"
	"math"
	"net/url"
	"sort"
	"strconv"
	"strings"

	"github.com/basekick-labs/arc/internal/verif/vh"
)

// ---------------------------------------------------------------- minimal msgpack encoder (ordered maps)

type kvp struct {
	k string
	v interface{}
}
type om []kvp

func enc(b []byte, v interface{}) []byte {
	switch x := v.(type) {
	case nil:
		return append(b, 0xc0)
	case bool:
		if x {
			return append(b, 0xc3)
		}
		return append(b, 0xc2)
	case int:
		return encInt(b, int64(x))
	case int64:
		return encInt(b, x)
	case float64:
		b = append(b, 0xcb)
		return binary.BigEndian.AppendUint64(b, math.Float64bits(x))
	case string:
		n := len(x)
		switch {
		case n < 32:
			b = append(b, 0xa0|byte(n))
		case n < 256:
			b = append(b, 0xd9, byte(n))
		default:
			b = append(b, 0xda, byte(n>>8), byte(n))
		}
		return append(b, x...)
	case []interface{}:
		n := len(x)
		if n < 16 {
			b = append(b, 0x90|byte(n))
		} else {
			b = append(b, 0xdc, byte(n>>8), byte(n))
		}
		for _, it := range x {
			b = enc(b, it)
		}
		return b
	case om:
		n := len(x)
		if n < 16 {
			b = append(b, 0x80|byte(n))
		} else {
			b = append(b, 0xde, byte(n>>8), byte(n))
		}
		for _, e := range x {
			b = enc(b, e.k)
			b = enc(b, e.v)
		}
		return b
	}
	panic(fmt.Sprintf("enc: %T", v))
}

func encInt(b []byte, v int64) []byte {
	switch {
	case v >= 0 && v < 128:
		return append(b, byte(v))
	case v < 0 && v >= -32:
		return append(b, byte(v))
	case v >= 0:
		b = append(b, 0xcf)
		return binary.BigEndian.AppendUint64(b, uint64(v))
	default:
		b = append(b, 0xd3)
		return binary.BigEndian.AppendUint64(b, uint64(v))
	}
}

// ---------------------------------------------------------------- name pools

var routingNames = []string{"database", "_database", "measurement", "_measurement", "m"}
var plainNames = []string{"v", "region", "usage", "hostx"}
var long129 = strings.Repeat("a", 129)
var measPool = []string{"cpu", "mem", "cpu", "mem", "other", "evil_m", "m", "database", "_database", "measurement",
	"_measurement", "", "", "..", "a/b", "1abc", "a.b", "cpu/../mem", long129, "Cpu", "cpu-1_x", "measurement_5", "é"}

// LP measurement names must survive the text syntax unescaped
var lpMeasPool = []string{"cpu", "mem", "cpu", "mem", "other", "evil_m", "m", "database", "_database", "measurement",
	"_measurement", "", "..", "a/b", "1abc", "a.b", "cpu/../mem", long129, "Cpu", "cpu-1_x", "é"}
var dbPool = []*string{nil, sp(""), sp(allowedDB), sp(allowedDB), sp("other_db"), sp("default"), sp("../x"), sp("a/b"), sp("1db"), sp(strings.Repeat("d", 65)), sp("evil_db")}

func payloadValue(name string) interface{} {
	switch name {
	case "_measurement":
		return "evil_m"
	case "measurement":
		return "evil_m2"
	case "m":
		return "evil_m3"
	case "_database":
		return "evil_db"
	case "database":
		return "evil_db2"
	}
	return int64(1)
}

func isRouting(n string) bool {
	for _, r := range routingNames {
		if r == n {
			return true
		}
	}
	return false
}

// ---------------------------------------------------------------- abstract msgpack payloads

type mval struct {
	isInt bool
	s     string
	i     int64
}

func (m mval) tok() string {
	if m.isInt {
		return "i" + strconv.FormatInt(m.i, 10)
	}
	return "s" + hx(m.s)
}
func (m mval) val() interface{} {
	if m.isInt {
		return m.i
	}
	return m.s
}
func (m mval) name() string {
	if m.isInt {
		return fmt.Sprintf("measurement_%d", m.i)
	}
	return m.s
}

type item struct {
	kind   byte // C R E J B
	m      mval
	cols   []string // C
	tags   []string // R
	fields []string // R
	nrows  int
	ev     int // variant of E / J
	items  []item
	dup    int    // C only: hand-encoded body with REPEATED top-level keys (0 = none); the abstract item is what a last-wins map decode sees
	decoy  string // the measurement carried by the earlier, overridden "m" key
}

func names(ns []string) string {
	var b strings.Builder
	b.WriteString(strconv.Itoa(len(ns)))
	for _, n := range ns {
		b.WriteByte(' ')
		b.WriteString(hx(n))
	}
	return b.String()
}

func (it item) tok() string {
	switch it.kind {
	case 'C':
		return "C " + it.m.tok() + " " + names(it.cols)
	case 'R':
		return "R " + it.m.tok() + " " + names(it.tags) + " " + names(it.fields)
	case 'E':
		return "E"
	case 'J':
		return "J"
	case 'B':
		s := "B " + strconv.Itoa(len(it.items))
		for _, x := range it.items {
			s += " " + x.tok()
		}
		return s
	}
	panic("kind")
}

func colVals(name string, n int) []interface{} {
	out := make([]interface{}, n)
	for i := range out {
		if name == "time" {
			out[i] = int64(1700000000000) // ms
		} else {
			out[i] = payloadValue(name)
		}
	}
	return out
}

func (it item) value() interface{} {
	switch it.kind {
	case 'C':
		cols := om{}
		for _, cn := range it.cols {
			cols = append(cols, kvp{cn, colVals(cn, it.nrows)})
		}
		other := om{{"time", colVals("time", it.nrows)}, {"zz", colVals("zz", it.nrows)}}
		switch it.dup {
		case 1: // {m: decoy, columns, m: real}
			return om{{"m", it.decoy}, {"columns", cols}, {"m", it.m.val()}}
		case 2: // {m: decoy, m: real, columns}
			return om{{"m", it.decoy}, {"m", it.m.val()}, {"columns", cols}}
		case 3: // {columns, m: decoy, m: real}
			return om{{"columns", cols}, {"m", it.decoy}, {"m", it.m.val()}}
		case 4: // {m: real, columns: other, columns: real}
			return om{{"m", it.m.val()}, {"columns", other}, {"columns", cols}}
		case 5: // {columns: other, m: decoy, columns: real, m: real}
			return om{{"columns", other}, {"m", it.decoy}, {"columns", cols}, {"m", it.m.val()}}
		case 6: // {m: decoy, columns, m: real, m: real} (three times)
			return om{{"m", it.decoy}, {"columns", cols}, {"m", it.decoy}, {"m", it.m.val()}}
		}
		return om{{"m", it.m.val()}, {"columns", cols}}
	case 'R':
		tags, fields := om{}, om{}
		for _, t := range it.tags {
			v := payloadValue(t)
			if _, ok := v.(string); !ok {
				v = "tv"
			}
			tags = append(tags, kvp{t, v})
		}
		for _, f := range it.fields {
			fields = append(fields, kvp{f, payloadValue(f)})
		}
		return om{{"m", it.m.val()}, {"t", int64(1700000000000)}, {"fields", fields}, {"tags", tags}}
	case 'E':
		switch it.ev % 6 {
		case 0:
			return om{{"columns", om{{"time", []interface{}{int64(1700000000000)}}}}} // no m
		case 1:
			return om{{"m", 1.5}, {"fields", om{{"v", int64(1)}}}} // m of invalid type
		case 2:
			return om{{"m", "cpu"}, {"columns", om{}}} // empty columns
		case 3:
			return om{{"m", "cpu"}, {"columns", om{{"a", []interface{}{int64(1), int64(2)}}, {"b", []interface{}{int64(1)}}}}} // length mismatch
		case 4:
			return om{{"m", "cpu"}} // no fields
		default:
			return om{{"m", "cpu"}, {"t", "yesterday"}, {"fields", om{{"v", int64(1)}}}} // bad timestamp
		}
	case 'J':
		switch it.ev % 3 {
		case 0:
			return int64(7)
		case 1:
			return "cpu"
		default:
			return nil
		}
	case 'B':
		var xs []interface{}
		for _, x := range it.items {
			xs = append(xs, x.value())
		}
		if xs == nil {
			xs = []interface{}{}
		}
		return om{{"batch", xs}}
	}
	panic("kind")
}

type top struct {
	kind  byte // 0 X M A
	it    item
	items []item
	xv    int
}

func (t top) tok() string {
	switch t.kind {
	case '0':
		return "0"
	case 'X':
		return "X"
	case 'M':
		return "M " + t.it.tok()
	default:
		s := "A " + strconv.Itoa(len(t.items))
		for _, x := range t.items {
			s += " " + x.tok()
		}
		return s
	}
}

func (t top) bytes() []byte {
	switch t.kind {
	case '0':
		return nil
	case 'X':
		switch t.xv % 3 {
		case 0:
			return enc(nil, int64(5))
		case 1:
			return enc(nil, "cpu")
		default:
			return enc(nil, nil)
		}
	case 'M':
		return enc(nil, t.it.value())
	default:
		var xs []interface{}
		for _, x := range t.items {
			xs = append(xs, x.value())
		}
		if xs == nil {
			xs = []interface{}{}
		}
		return enc(nil, xs)
	}
}

// walk: does the payload contain an empty measurement / routing-like names / nesting / failing element
func (it item) features(f map[string]bool, depth int) {
	switch it.kind {
	case 'C', 'R':
		if it.dup != 0 {
			f["dup-key"] = true
		}
		if it.m.name() == "" {
			f["empty-m"] = true
		}
		if it.m.isInt {
			f["int-m"] = true
		}
		for _, l := range [][]string{it.cols, it.tags, it.fields} {
			for _, n := range l {
				if isRouting(n) {
					f["routing-name"] = true
				}
			}
		}
	case 'E', 'J':
		f["failing-element"] = true
	case 'B':
		if depth > 0 {
			f["nested-batch"] = true
		}
		for _, x := range it.items {
			x.features(f, depth+1)
		}
	}
}

// ---------------------------------------------------------------- generators

type schema struct{ tags, fields []string }

type gen struct {
	r       *vh.Rand
	schemas map[string]schema
}

func (g *gen) subset(pool []string, p int) []string {
	var out []string
	for _, n := range pool {
		if g.r.Chance(p) {
			out = append(out, n)
		}
	}
	return out
}

// schemaFor: one tag/field layout per measurement per request (tags and fields disjoint, fields non-empty)
func (g *gen) schemaFor(m string) schema {
	if s, ok := g.schemas[m]; ok {
		return s
	}
	all := append(append([]string{}, routingNames...), plainNames...)
	var s schema
	for _, n := range all {
		switch g.r.Intn(5) {
		case 0:
			s.tags = append(s.tags, n)
		case 1, 2:
			s.fields = append(s.fields, n)
		}
	}
	if len(s.fields) == 0 {
		s.fields = []string{"v"}
	}
	g.schemas[m] = s
	return s
}

func (g *gen) mval(pool []string) mval {
	if g.r.Chance(6) {
		return mval{isInt: true, i: int64(g.r.Intn(7)) - 2}
	}
	return mval{s: vh.Pick(g.r, pool)}
}

func (g *gen) colItem(m mval) item {
	cols := g.subset(append(append([]string{}, routingNames...), plainNames...), 35)
	if g.r.Chance(75) {
		cols = append([]string{"time"}, cols...)
	}
	if len(cols) == 0 {
		cols = []string{"v"}
	}
	it := item{kind: 'C', m: m, cols: cols, nrows: 1 + g.r.Intn(2)}
	if g.r.Chance(8) {
		it.dup = 1 + g.r.Intn(6)
		it.decoy = vh.Pick(g.r, []string{"cpu", "mem", "billing", "other", ""})
	}
	return it
}

func (g *gen) rowItem(m mval) item {
	s := g.schemaFor(m.name())
	return item{kind: 'R', m: m, tags: s.tags, fields: s.fields}
}

func (g *gen) item(depth int) item {
	x := g.r.Intn(100)
	switch {
	case x < 38:
		return g.colItem(g.mval(measPool))
	case x < 76:
		return g.rowItem(g.mval(measPool))
	case x < 84:
		return item{kind: 'E', ev: g.r.Intn(6)}
	case x < 90:
		return item{kind: 'J', ev: g.r.Intn(3)}
	default:
		if depth >= 3 {
			return g.colItem(g.mval(measPool))
		}
		return g.batch(depth + 1)
	}
}

func (g *gen) batch(depth int) item {
	n := g.r.Intn(4)
	b := item{kind: 'B'}
	for i := 0; i < n; i++ {
		b.items = append(b.items, g.item(depth))
	}
	return b
}

func (g *gen) top() top {
	x := g.r.Intn(100)
	switch {
	case x < 2:
		return top{kind: '0'}
	case x < 5:
		return top{kind: 'X', xv: g.r.Intn(3)}
	case x < 30:
		return top{kind: 'M', it: g.colItem(g.mval(measPool))}
	case x < 50:
		return top{kind: 'M', it: g.rowItem(g.mval(measPool))}
	case x < 54:
		return top{kind: 'M', it: item{kind: 'E', ev: g.r.Intn(6)}}
	case x < 75:
		return top{kind: 'M', it: g.batch(1)}
	default:
		n := g.r.Intn(5)
		t := top{kind: 'A'}
		for i := 0; i < n; i++ {
			t.items = append(t.items, g.item(1))
		}
		return t
	}
}

// friendly variants: mostly names the allow-list accepts, so the ok path is exercised often
var friendlyMeas = []string{"cpu", "mem", "cpu", "mem", "cpu", "", "other"}

func (g *gen) friendlyTop() top {
	switch g.r.Intn(4) {
	case 0:
		return top{kind: 'M', it: g.colItem(mval{s: vh.Pick(g.r, friendlyMeas)})}
	case 1:
		return top{kind: 'M', it: g.rowItem(mval{s: vh.Pick(g.r, friendlyMeas)})}
	case 2:
		b := item{kind: 'B'}
		for i := 0; i < 1+g.r.Intn(3); i++ {
			if g.r.Bool() {
				b.items = append(b.items, g.colItem(mval{s: vh.Pick(g.r, friendlyMeas)}))
			} else {
				b.items = append(b.items, g.rowItem(mval{s: vh.Pick(g.r, friendlyMeas)}))
			}
		}
		return top{kind: 'M', it: b}
	default:
		t := top{kind: 'A'}
		for i := 0; i < 1+g.r.Intn(3); i++ {
			if g.r.Bool() {
				t.items = append(t.items, g.colItem(mval{s: vh.Pick(g.r, friendlyMeas)}))
			} else {
				t.items = append(t.items, g.rowItem(mval{s: vh.Pick(g.r, friendlyMeas)}))
			}
		}
		return t
	}
}

// ---------------------------------------------------------------- one msgpack case

func (e *env) mode() string {
	x := e.r.Intn(100)
	switch {
	case x < 84:
		return "rbac"
	case x < 94:
		return "off"
	default:
		return "notoken"
	}
}

func (e *env) mpCase(mode string, hdr, qdb *string, t top) {
	e.setMode(mode)
	body := t.bytes()
	op := fmt.Sprintf("mp %s %s %s %s", mode, tk(hdr), tk(qdb), t.tok())
	ext := "!"
	if len(body) > 0 {
		if ms, err := e.mp.VerifC32Extract(append([]byte(nil), body...)); err == nil {
			ext = hxs(ms)
		}
	}
	q := url.Values{}
	if qdb != nil {
		q.Set("db", *qdb)
	}
	req := e.newReq("/api/v1/write/msgpack", q, map[string]*string{"x-arc-database": hdr}, body, "application/msgpack")
	o := e.run(req)
	e.c.Op(op, "ext=["+ext+"] "+o.line())
	f := map[string]bool{}
	switch t.kind {
	case 'M':
		t.it.features(f, 0)
	case 'A':
		for _, x := range t.items {
			x.features(f, 1)
		}
	}
	shape := map[byte]string{'0': "empty", 'X': "scalar", 'A': "array", 'M': "map"}[t.kind]
	if t.kind == 'M' {
		shape = map[byte]string{'C': "columnar", 'R': "row", 'B': "batch", 'E': "bad-map"}[t.it.kind]
	}
	e.c.Tag("mp:" + shape + ":" + o.status)
	for k := range f {
		e.c.Tag("mp-feature:" + k)
	}
	nontriv := len(f) > 0 || mode != "rbac" || (hdr != nil && qdb != nil && *hdr != *qdb) || o.status != "ok"
	e.c.Case(op, nontriv)
	e.monitors(reqInfo{endpoint: "msgpack", mode: mode, named: namedDBs(hdr, qdb), emptyM: f["empty-m"], dupKey: f["dup-key"],
		replay: fmt.Sprintf("POST /api/v1/write/msgpack%s header x-arc-database=%s, RBAC mode %s (allow-list allowed_db: cpu, mem), body (msgpack, hex) %s  [op: %s]  -> HTTP %d; CheckPermission calls %v; buffer keys %q; storage paths %q",
			qs(q), show(hdr), mode, hex.EncodeToString(body), op, o.code, o.checks, o.keys, o.paths)}, &o)
}

func qs(q url.Values) string {
	if len(q) == 0 {
		return ""
	}
	return "?" + q.Encode()
}
func show(s *string) string {
	if s == nil {
		return "(absent)"
	}
	return fmt.Sprintf("%q", *s)
}

// ---------------------------------------------------------------- line protocol

type point struct {
	junk         bool
	jv           int
	m            string
	tags, fields []string
}

func (p point) tok() string {
	if p.junk {
		return "Z"
	}
	return "P " + hx(p.m) + " " + names(p.tags) + " " + names(p.fields)
}

func (p point) text() string {
	if p.junk {
		switch p.jv % 3 {
		case 0:
			return "# a comment"
		case 1:
			return "cpu,host=a" // no field set
		default:
			return "   "
		}
	}
	var b strings.Builder
	b.WriteString(p.m)
	if p.m == "" && len(p.tags) == 0 {
		b.WriteByte(',') // keep the measurement position empty ("," alone parses as measurement "")
	}
	for _, t := range p.tags {
		v := payloadValue(t)
		s, ok := v.(string)
		if !ok {
			s = "tv"
		}
		b.WriteString("," + t + "=" + s)
	}
	b.WriteByte(' ')
	for i, f := range p.fields {
		if i > 0 {
			b.WriteByte(',')
		}
		v := payloadValue(f)
		if s, ok := v.(string); ok {
			b.WriteString(f + "=\"" + s + "\"")
		} else {
			b.WriteString(f + "=1i")
		}
	}
	b.WriteString(" 1700000000000000000")
	return b.String()
}

func (g *gen) points(pool []string) []point {
	n := 1 + g.r.Intn(4)
	if g.r.Chance(3) {
		n = 0
	}
	var ps []point
	for i := 0; i < n; i++ {
		if g.r.Chance(8) {
			ps = append(ps, point{junk: true, jv: g.r.Intn(3)})
			continue
		}
		m := vh.Pick(g.r, pool)
		s := g.schemaFor(m)
		if m == "" {
			s.tags = nil // ",k=v f=1" parses as measurement "k=v": keep the measurement position really empty
		}
		ps = append(ps, point{m: m, tags: s.tags, fields: s.fields})
	}
	return ps
}

var lpEndpoints = map[string]string{"v1": "/write", "v2": "/api/v2/write", "simple": "/api/v1/write/line-protocol", "import": "/api/v1/import/lp"}
var lpNames = map[string]string{"v1": "lp-v1", "v2": "lp-v2", "simple": "lp-simple", "import": "import-lp"}

func (e *env) lpCase(ep, mode string, hdr, qdb, qbucket, qmeas *string, pts []point) {
	e.setMode(mode)
	op := fmt.Sprintf("lp %s %s %s %s %s %s %d", ep, mode, tk(hdr), tk(qdb), tk(qbucket), tk(qmeas), len(pts))
	var lines []string
	for _, p := range pts {
		op += " " + p.tok()
		lines = append(lines, p.text())
	}
	text := strings.Join(lines, "\n")
	q := url.Values{}
	if qdb != nil {
		q.Set("db", *qdb)
	}
	if qbucket != nil {
		q.Set("bucket", *qbucket)
	}
	if qmeas != nil {
		q.Set("measurement", *qmeas)
	}
	body, ctype := []byte(text), "text/plain"
	if ep == "import" {
		body, ctype = multipartFile("data.lp", []byte(text))
	}
	req := e.newReq(lpEndpoints[ep], q, map[string]*string{"x-arc-database": hdr}, body, ctype)
	o := e.run(req)
	e.c.Op(op, o.line())
	e.c.Tag("lp:" + ep + ":" + o.status)
	rn := false
	for _, p := range pts {
		for _, l := range [][]string{p.tags, p.fields} {
			for _, n := range l {
				rn = rn || isRouting(n)
			}
		}
	}
	if rn {
		e.c.Tag("lp-feature:routing-name")
	}
	e.c.Case(op, rn || mode != "rbac" || o.status != "ok" || (hdr != nil && qdb != nil))
	named := namedDBs(hdr, qdb, qbucket)
	e.monitors(reqInfo{endpoint: lpNames[ep], mode: mode, named: named,
		replay: fmt.Sprintf("POST %s%s header x-arc-database=%s, RBAC mode %s (allow-list allowed_db: cpu, mem), line protocol body %q  [op: %s]  -> HTTP %d; CheckPermission calls %v; buffer keys %q; storage paths %q; reader keys %q",
			lpEndpoints[ep], qs(q), show(hdr), mode, text, op, o.code, o.checks, o.keys, o.paths, o.rkeys)}, &o)
}

// ---------------------------------------------------------------- single-target endpoints

const issLine1 = "1 25544U 98067A   24051.34722222  .00016717  00000-0  10270-3 0  9014"
const issLine2 = "2 25544  51.6400 208.9163 0006703 319.1918  40.8793 15.49560830442108"

var onePaths = map[string]string{"csv": "/api/v1/import/csv", "parquet": "/api/v1/import/parquet", "tle": "/api/v1/write/tle", "itle": "/api/v1/import/tle"}
var oneNames = map[string]string{"csv": "import-csv", "parquet": "import-parquet", "tle": "write-tle", "itle": "import-tle"}

func (e *env) oneCase(ep, mode string, hdr, qdb, mparam *string, fileOK bool, cols []string) {
	e.setMode(mode)
	nrows := 1
	var file []byte
	switch ep {
	case "csv":
		nrows = 2
		if fileOK {
			hdrs := append([]string{"time"}, cols...)
			var sb strings.Builder
			sb.WriteString(strings.Join(hdrs, ",") + "\n")
			for i := 0; i < nrows; i++ {
				row := []string{"1700000000"}
				for _, cn := range cols {
					row = append(row, fmt.Sprint(payloadValue(cn)))
				}
				sb.WriteString(strings.Join(row, ",") + "\n")
			}
			file = []byte(sb.String())
		} else {
			file = []byte("a,b\n1,2\n") // no time column
		}
	case "parquet":
		cols = []string{"database", "measurement", "v"}
		if fileOK {
			file = e.parquet
		} else {
			file = []byte("PAR1 this is not a parquet file PAR1")
		}
	default:
		cols = nil
		if fileOK {
			file = []byte("ISS (ZARYA)\n" + issLine1 + "\n" + issLine2 + "\n")
		} else {
			file = []byte("hello world\nthis is no TLE\n")
		}
	}
	sort.Strings(cols)
	op := fmt.Sprintf("one %s %s %s %s %s %d %d %s", ep, mode, tk(hdr), tk(qdb), tk(mparam), b2i(fileOK), nrows, names(cols))
	q := url.Values{}
	if qdb != nil {
		q.Set("db", *qdb)
	}
	h := map[string]*string{"x-arc-database": hdr}
	if ep == "tle" || ep == "itle" {
		h["x-arc-measurement"] = mparam
	} else if mparam != nil {
		q.Set("measurement", *mparam)
	}
	body, ctype := file, "text/plain"
	if ep != "tle" {
		body, ctype = multipartFile("data."+ep, file)
	}
	req := e.newReq(onePaths[ep], q, h, body, ctype)
	o := e.run(req)
	e.c.Op(op, o.line())
	e.c.Tag("one:" + ep + ":" + o.status)
	e.c.Case(op, mode != "rbac" || o.status != "ok" || (hdr != nil && qdb != nil))
	e.monitors(reqInfo{endpoint: oneNames[ep], mode: mode, named: namedDBs(hdr, qdb),
		replay: fmt.Sprintf("POST %s%s headers x-arc-database=%s x-arc-measurement/measurement=%s, RBAC mode %s, file columns %v  [op: %s]  -> HTTP %d; CheckPermission calls %v; buffer keys %q; storage paths %q; reader keys %q",
			onePaths[ep], qs(q), show(hdr), show(mparam), mode, cols, op, o.code, o.checks, o.keys, o.paths, o.rkeys)}, &o)
}

func b2i(b bool) int {
	if b {
		return 1
	}
	return 0
}

// ---------------------------------------------------------------- grids and random cases

func (e *env) grid() {
	g := &gen{r: e.r, schemas: map[string]schema{}}
	cpuCol := item{kind: 'C', m: mval{s: "cpu"}, cols: []string{"time", "v", "database", "_database", "measurement", "_measurement", "m"}, nrows: 1}
	cpuRow := item{kind: 'R', m: mval{s: "cpu"}, tags: []string{"database", "_measurement"}, fields: []string{"v", "m", "measurement", "_database"}}
	// (0) minimal replays of the known-shape candidates first, so that a finding's recorded replay is the small one
	adb := sp(allowedDB)
	e.mpCase("rbac", adb, nil, top{kind: 'M', it: item{kind: 'C', m: mval{s: ""}, cols: []string{"time", "v"}, nrows: 1}})
	e.mpCase("rbac", adb, nil, top{kind: 'M', it: item{kind: 'R', m: mval{s: ""}, fields: []string{"v"}}})
	e.mpCase("rbac", adb, nil, top{kind: 'M', it: item{kind: 'B', items: []item{{kind: 'R', m: mval{s: ""}, fields: []string{"v"}}}}})
	e.mpCase("rbac", adb, nil, top{kind: 'A', items: []item{{kind: 'C', m: mval{s: ""}, cols: []string{"time", "v"}, nrows: 1}}})
	e.lpCase("simple", "rbac", adb, nil, nil, nil, []point{{m: "cpu", fields: []string{"v"}}})
	e.lpCase("simple", "rbac", adb, nil, nil, nil, []point{{m: "cpu", tags: []string{"_measurement"}, fields: []string{"v"}}})
	e.oneCase("csv", "rbac", sp("other_db"), nil, sp("cpu"), true, []string{"v"})
	e.oneCase("csv", "rbac", nil, nil, sp("cpu"), true, []string{"v"})
	e.oneCase("parquet", "rbac", sp("other_db"), nil, sp("cpu"), true, nil)
	e.oneCase("parquet", "rbac", nil, nil, sp("cpu"), true, nil)
	// (0a) hand-encoded msgpack bodies that REPEAT a top-level key, every order; real = what a last-wins map decode
	// sees (and what the WAL reader / the replica will see), decoy = the overridden earlier value
	for dup := 1; dup <= 6; dup++ {
		for _, rd := range [][2]string{{"billing", "cpu"}, {"cpu", "billing"}, {"cpu", "mem"}, {"cpu", ""}, {"", "cpu"}} {
			it := item{kind: 'C', m: mval{s: rd[0]}, cols: []string{"time", "v"}, nrows: 1, dup: dup, decoy: rd[1]}
			e.mpCase("rbac", adb, nil, top{kind: 'M', it: it})
			e.mpCase("rbac", adb, nil, top{kind: 'A', items: []item{it}})
			e.mpCase("rbac", adb, nil, top{kind: 'M', it: item{kind: 'B', items: []item{it}}})
			e.mpCase("off", adb, nil, top{kind: 'M', it: it})
		}
	}
	// (0b) several measurements in ONE request: allowed + allowed, allowed + denied, denied + allowed — every
	// endpoint that can carry more than one measurement, every msgpack container shape
	for _, pair := range [][2]string{{"cpu", "billing"}, {"billing", "cpu"}, {"cpu", "mem"}, {"cpu", "cpu"}} {
		c1 := item{kind: 'C', m: mval{s: pair[0]}, cols: []string{"time", "v"}, nrows: 1}
		c2 := item{kind: 'C', m: mval{s: pair[1]}, cols: []string{"time", "v"}, nrows: 1}
		r1 := item{kind: 'R', m: mval{s: pair[0]}, fields: []string{"v"}}
		r2 := item{kind: 'R', m: mval{s: pair[1]}, fields: []string{"v"}}
		for _, its := range [][]item{{c1, c2}, {r1, r2}, {c1, r2}, {r1, c2}} {
			e.mpCase("rbac", adb, nil, top{kind: 'M', it: item{kind: 'B', items: its}})
			e.mpCase("rbac", adb, nil, top{kind: 'A', items: its})
		}
		pts := []point{{m: pair[0], fields: []string{"v"}}, {m: pair[1], fields: []string{"v"}}}
		for _, ep := range []string{"v1", "v2", "simple", "import"} {
			e.lpCase(ep, "rbac", adb, nil, nil, nil, pts)
		}
		e.lpCase("v1", "rbac", nil, adb, nil, nil, pts)
		e.lpCase("v2", "rbac", nil, nil, adb, nil, pts)
		e.lpCase("import", "rbac", nil, adb, nil, nil, pts)
	}
	hdrs := []*string{nil, sp(""), sp(allowedDB), sp("other_db"), sp("../x"), sp("1db")}
	qvals := []*string{nil, sp(""), sp(allowedDB), sp("other_db"), sp("a/b")}
	// (1) database header x query parameter, every combination, every endpoint, routing-like names everywhere
	for _, h := range hdrs {
		for _, q := range qvals {
			e.mpCase("rbac", h, q, top{kind: 'M', it: cpuCol})
			e.mpCase("rbac", h, q, top{kind: 'M', it: cpuRow})
			pts := []point{{m: "cpu", tags: []string{"database", "_measurement"}, fields: []string{"v", "m", "measurement", "_database"}}}
			for _, ep := range []string{"v1", "v2", "simple", "import"} {
				e.lpCase(ep, "rbac", h, q, nil, nil, pts)
				if ep == "v2" {
					e.lpCase(ep, "rbac", h, nil, q, nil, pts)
					e.lpCase(ep, "rbac", h, sp("evil_db"), q, nil, pts)
				}
			}
			for _, ep := range []string{"csv", "parquet", "tle", "itle"} {
				e.oneCase(ep, "rbac", h, q, sp("cpu"), true, []string{"_measurement", "database", "m", "v"})
			}
		}
	}
	// (2) every measurement name x every msgpack shape x mode
	allowed := sp(allowedDB)
	for _, mode := range []string{"rbac", "off", "notoken"} {
		var ms []mval
		for _, s := range measPool {
			ms = append(ms, mval{s: s})
		}
		ms = append(ms, mval{isInt: true, i: 5}, mval{isInt: true, i: -5}, mval{isInt: true, i: 0})
		for _, m := range ms {
			g.schemas = map[string]schema{}
			col, row := g.colItem(m), g.rowItem(m)
			okc := item{kind: 'C', m: mval{s: "cpu"}, cols: []string{"time", "v"}, nrows: 1}
			for _, it := range []item{col, row} {
				e.mpCase(mode, allowed, nil, top{kind: 'M', it: it})
				e.mpCase(mode, allowed, nil, top{kind: 'M', it: item{kind: 'B', items: []item{it}}})
				e.mpCase(mode, allowed, nil, top{kind: 'M', it: item{kind: 'B', items: []item{okc, it}}})
				e.mpCase(mode, allowed, nil, top{kind: 'A', items: []item{it}})
				e.mpCase(mode, allowed, nil, top{kind: 'A', items: []item{okc, it, okc}})
				e.mpCase(mode, allowed, nil, top{kind: 'A', items: []item{okc, {kind: 'B', items: []item{it}}, okc}})
				e.mpCase(mode, allowed, nil, top{kind: 'M', it: item{kind: 'B', items: []item{okc, {kind: 'B', items: []item{it}}}}})
			}
		}
		for _, m := range lpMeasPool {
			g.schemas = map[string]schema{}
			s := g.schemaFor(m)
			if m == "" {
				s.tags = nil
			}
			first := "cpu" // a second, well-formed point of ANOTHER measurement (one layout per measurement per request)
			if m == "cpu" {
				first = "mem"
			}
			for _, ep := range []string{"v1", "v2", "simple", "import"} {
				e.lpCase(ep, mode, allowed, nil, nil, nil, []point{{m: m, tags: s.tags, fields: s.fields}})
				e.lpCase(ep, mode, allowed, nil, nil, nil, []point{{m: first, fields: []string{"v"}}, {m: m, tags: s.tags, fields: s.fields}})
			}
			e.lpCase("import", mode, allowed, nil, nil, sp(m), []point{{m: first, fields: []string{"v"}}, {m: m, tags: s.tags, fields: s.fields}})
			for _, ep := range []string{"csv", "parquet", "tle", "itle"} {
				e.oneCase(ep, mode, allowed, nil, sp(m), true, []string{"_measurement", "v"})
			}
		}
		for _, ep := range []string{"csv", "parquet", "tle", "itle"} {
			e.oneCase(ep, mode, allowed, nil, nil, true, []string{"v"})
			e.oneCase(ep, mode, allowed, nil, sp("cpu"), false, []string{"v"})
			e.oneCase(ep, mode, allowed, nil, sp("other"), false, []string{"v"})
		}
		// failing elements and odd tops
		for ev := 0; ev < 6; ev++ {
			bad := item{kind: 'E', ev: ev}
			okc := item{kind: 'C', m: mval{s: "cpu"}, cols: []string{"time", "v"}, nrows: 1}
			e.mpCase(mode, allowed, nil, top{kind: 'M', it: bad})
			e.mpCase(mode, allowed, nil, top{kind: 'A', items: []item{bad, okc}})
			e.mpCase(mode, allowed, nil, top{kind: 'M', it: item{kind: 'B', items: []item{okc, bad, {kind: 'J', ev: ev}}}})
		}
		for xv := 0; xv < 3; xv++ {
			e.mpCase(mode, allowed, nil, top{kind: 'X', xv: xv})
		}
		e.mpCase(mode, allowed, nil, top{kind: '0'})
		e.mpCase(mode, allowed, nil, top{kind: 'A'})
		e.mpCase(mode, allowed, nil, top{kind: 'M', it: item{kind: 'B'}})
	}
}

func (e *env) randomCase() {
	g := &gen{r: e.r, schemas: map[string]schema{}}
	mode := e.mode()
	hdr, qdb := vh.Pick(e.r, dbPool), vh.Pick(e.r, dbPool)
	if e.r.Chance(45) {
		hdr = sp(allowedDB)
	}
	if e.r.Chance(40) {
		qdb = nil
	}
	x := e.r.Intn(100)
	switch {
	case x < 50:
		t := g.top()
		if e.r.Chance(45) {
			t = g.friendlyTop()
		}
		e.mpCase(mode, hdr, qdb, t)
	case x < 82:
		ep := vh.Pick(e.r, []string{"v1", "v2", "simple", "import"})
		pool := lpMeasPool
		if e.r.Chance(50) {
			pool = friendlyMeas[:5]
		}
		var qb, qm *string
		if ep == "v2" && e.r.Chance(60) {
			qb = vh.Pick(e.r, dbPool)
		}
		if ep == "import" && e.r.Chance(40) {
			qm = sp(vh.Pick(e.r, pool))
		}
		e.lpCase(ep, mode, hdr, qdb, qb, qm, g.points(pool))
	default:
		ep := vh.Pick(e.r, []string{"csv", "parquet", "tle", "itle"})
		var mp *string
		if !e.r.Chance(15) {
			pool := measPool
			if e.r.Chance(50) {
				pool = friendlyMeas[:5]
			}
			mp = sp(vh.Pick(e.r, pool))
		}
		cols := g.subset(append(append([]string{}, routingNames...), plainNames...), 40)
		if len(cols) == 0 {
			cols = []string{"v"}
		}
		e.oneCase(ep, mode, hdr, qdb, mp, !e.r.Chance(12), cols)
	}
}

// ---------------------------------------------------------------- replicated entries with crafted envelopes

type rrow []kvp // value: string | int64 | nil

func rowTok(r rrow) string {
	s := strconv.Itoa(len(r))
	for _, kv := range r {
		s += " " + hx(kv.k) + " "
		switch v := kv.v.(type) {
		case string:
			s += "s" + hx(v)
		case nil:
			s += "z"
		default:
			s += "n"
		}
	}
	return s
}

func (e *env) repCase(prefix []byte, innerTok string, inner []byte, rowDBs []string, label string) {
	payload := append(append([]byte(nil), prefix...), inner...)
	e.rstore.take()
	e.seq++
	res := vh.Guard(func() string {
		if err := e.recv.VerifC32ApplyEntry(e.seq, payload); err != nil {
			return "err:" + strings.ReplaceAll(err.Error(), " ", "_")
		}
		return "ok"
	})
	keys := e.rbuf.VerifC32BufferKeys()
	e.rbuf.FlushAll(nil2ctx())
	e.rstore.take()
	out := "res=panic"
	db := "default"
	if !strings.HasPrefix(res, "panic:") {
		// database as the real ParseEnvelope would report it is only observable through the keys; print the
		// envelope's own claim so that the model's ParseEnvelope is compared byte for byte
		db = envelopeDB(payload)
		out = fmt.Sprintf("res=%s db=%s keys=[%s]", res, hx(db), hxs(keys))
	}
	pre := "-"
	if len(prefix) > 0 {
		pre = hex.EncodeToString(prefix)
	}
	op := fmt.Sprintf("rep %s %d %s", pre, len(inner), innerTok)
	e.c.Op(op, out)
	e.c.Tag("rep:" + label + ":" + strings.SplitN(res, ":", 2)[0])
	e.c.Case(op, len(prefix) > 0)
	// monitor: every key must be under the database the entry names: the envelope's (else "default"), or, for a
	// row entry, the `_database` the writer stamped on that row (authoritative for rows)
	for _, k := range keys {
		ok := strings.HasPrefix(k, db+"/")
		for _, rd := range rowDBs {
			ok = ok || (rd != "" && strings.HasPrefix(k, rd+"/"))
		}
		if !ok {
			e.c.Fail("replicated-row-stored-outside-envelope-database:applyEntry",
				fmt.Sprintf("replicated entry (envelope database %q, row _database values %q) stored under buffer key %q", db, rowDBs, k),
				fmt.Sprintf("Receiver.applyEntry(payload hex %s)", hex.EncodeToString(payload)))
		}
	}
	if strings.HasPrefix(res, "panic:") {
		e.c.Tag("note:ParseEnvelope-panics-on-dbLen>=65533")
	}
}

// envelopeDB: the real wal.ParseEnvelope, guarded
func envelopeDB(p []byte) string { return parseEnvelopeDB(p) }

func (e *env) repGrid() {
	type inner struct {
		tok string
		b   []byte
		dbs []string // `_database` string cells of the rows
	}
	mkK := func(m interface{}, mtok string, cols []string) inner {
		cm := om{}
		for _, cn := range cols {
			cm = append(cm, kvp{cn, colVals2(cn)})
		}
		mp := om{}
		if mtok != "~" {
			mp = append(mp, kvp{"m", m})
		}
		mp = append(mp, kvp{"columns", cm})
		return inner{fmt.Sprintf("K %s %d", mtok, len(cols)), enc(nil, mp), nil}
	}
	mkW := func(rows []rrow) inner {
		t := "W " + strconv.Itoa(len(rows))
		var xs []interface{}
		var dbs []string
		for _, r := range rows {
			t += " " + rowTok(r)
			xs = append(xs, om(r))
			for _, kv := range r {
				if s, ok := kv.v.(string); ok && kv.k == "_database" {
					dbs = append(dbs, s)
				}
			}
		}
		if xs == nil {
			xs = []interface{}{}
		}
		return inner{t, enc(nil, xs), dbs}
	}
	data := func(extra ...kvp) rrow {
		return append(rrow{{"time", tsMicros}, {"v", int64(1)}}, extra...)
	}
	inners := []inner{
		mkK("cpu", "s"+hx("cpu"), []string{"time", "v"}),
		mkK("cpu", "s"+hx("cpu"), []string{"time", "v", "_measurement", "database", "m"}),
		mkK("", "s-", []string{"time", "v"}),
		mkK(int64(5), "i5", []string{"time", "v"}),
		mkK(nil, "~", []string{"time", "v"}),
		mkK("cpu", "s"+hx("cpu"), nil),
		mkK("a/b", "s"+hx("a/b"), []string{"time", "v"}),
		mkW([]rrow{data(kvp{"_measurement", "cpu"}, kvp{"_database", "prod"})}),
		mkW([]rrow{data(kvp{"_measurement", "cpu"}, kvp{"_database", "prod"}), data(kvp{"_measurement", "mem"}, kvp{"database", "prod"})}),
		mkW([]rrow{data(kvp{"_measurement", ""}, kvp{"measurement", "viam"}, kvp{"m", "x"})}),
		mkW([]rrow{data(kvp{"_measurement", nil}, kvp{"measurement", int64(1)}, kvp{"m", "viam3"})}),
		mkW([]rrow{data(kvp{"measurement", "only2"}), data(kvp{"m", "only3"}), data()}),
		mkW([]rrow{{{"_measurement", "nodata"}, {"_database", "prod"}}, data(kvp{"_measurement", "cpu"})}),
		mkW([]rrow{data(kvp{"_measurement", "cpu"}, kvp{"_database", ""}), data(kvp{"_measurement", "cpu"}, kvp{"_database", int64(3)}), data(kvp{"_measurement", "cpu"}, kvp{"database", "viadb"})}),
		mkW([]rrow{data(kvp{"_measurement", "cpu"}, kvp{"_database", "prod"}), data(kvp{"_measurement", "cpu"}, kvp{"_database", "stage"}), data(kvp{"_measurement", "mem"}, kvp{"_database", "prod"})}),
		mkW(nil),
		{"G", enc(nil, int64(7)), nil},
		{"G", enc(nil, "cpu"), nil},
	}
	env := func(declared int, name string) []byte {
		return append([]byte{1, byte(declared >> 8), byte(declared)}, name...)
	}
	type pre struct {
		label string
		b     []byte
	}
	pres := []pre{
		{"none", nil},
		{"env", env(4, "prod")},
		{"env", env(10, allowedDB)},
		{"env-empty-db", env(0, "")},
		{"env-slash-db", env(3, "a/b")},
		{"env-dotdot-db", env(5, "../..")},
		{"env-long-db", env(300, strings.Repeat("x", 300))},
		{"env-short-decl", env(2, "prod")},
		{"env-truncated", env(4000, "prod")},
		{"env-wrap", env(65533, "prod")},
		{"env-wrap", env(65534, "prod")},
		{"env-wrap", env(65535, "prod")},
		{"env-big-nowrap", env(65532, "prod")},
		{"marker-2", append([]byte{2, 0, 4}, "prod"...)},
	}
	for _, p := range pres {
		for _, in := range inners {
			e.repCase(p.b, in.tok, in.b, in.dbs, p.label)
		}
	}
}

func colVals2(name string) []interface{} {
	if name == "time" {
		return []interface{}{tsMicros}
	}
	return []interface{}{payloadValue(name)}
}
