//go:build verif

package main

import (
	"context"
	"fmt"
	"net/url"
	"strings"
	"sync"
	"time"

	"github.com/basekick-labs/arc/internal/api"
	"github.com/basekick-labs/arc/internal/config"
	"github.com/basekick-labs/arc/internal/ingest"
	"github.com/gofiber/fiber/v2"
	"github.com/rs/zerolog"
	"github.com/valyala/fasthttp"
)

// Stage "aliased request buffer".  fiber's c.Get / c.Query return strings that alias the fasthttp request
// buffer; the ArrowBuffer keeps the database (and measurement) of a size-triggered flush in a flushTask that a
// worker consumes AFTER the handler returned.  app.Test gives every request a fresh RequestCtx and the main
// stage flushes synchronously, so here:
//   * ONE fasthttp.RequestCtx serves every request (what a keep-alive connection / the ctx pool does),
//   * MaxBufferSize = 1: every write leaves as an async flush task,
//   * the single flush worker is parked inside the first storage write (gated backend) until all requests are in,
// then the gate opens and every stored path is compared with the database / measurement its request named.

type gatedBackend struct {
	*memBackend
	mu      sync.Mutex
	calls   int
	entered chan struct{}
	gate    chan struct{}
}

func (g *gatedBackend) Write(ctx context.Context, p string, d []byte) error {
	g.mu.Lock()
	g.calls++
	first := g.calls == 1
	g.mu.Unlock()
	if first {
		close(g.entered)
		<-g.gate
	}
	return g.memBackend.Write(ctx, p, d)
}

type aliasReq struct {
	ep, src string // src: header | query
	db, m   string
}

func (e *env) aliasDo(fctx *fasthttp.RequestCtx, h fasthttp.RequestHandler, r aliasReq) int {
	fctx.Request.Reset()
	fctx.Response.Reset()
	fctx.Request.Header.SetMethod("POST")
	q := url.Values{}
	path, body, ctype := "", []byte(nil), "text/plain"
	dbq := "db"
	lpBody := []byte(r.m + " v=1i 1700000000000000000")
	switch r.ep {
	case "lp-simple":
		path, body = "/api/v1/write/line-protocol", lpBody
	case "lp-v1":
		path, body = "/write", lpBody
	case "lp-v2":
		path, body, dbq = "/api/v2/write", lpBody, "bucket"
	case "msgpack":
		path, ctype = "/api/v1/write/msgpack", "application/msgpack"
		body = enc(nil, om{{"m", r.m}, {"columns", om{{"time", []interface{}{int64(1700000000000)}}, {"v", []interface{}{int64(1)}}}}})
	case "write-tle":
		path, body = "/api/v1/write/tle", []byte("ISS (ZARYA)\n"+issLine1+"\n"+issLine2+"\n")
		fctx.Request.Header.Set("x-arc-measurement", r.m)
	case "import-lp":
		path = "/api/v1/import/lp"
		body, ctype = multipartFile("d.lp", lpBody)
	case "import-csv":
		path = "/api/v1/import/csv"
		q.Set("measurement", r.m)
		body, ctype = multipartFile("d.csv", []byte("time,v\n1700000000,1\n"))
	case "import-tle":
		path = "/api/v1/import/tle"
		body, ctype = multipartFile("d.tle", []byte("ISS (ZARYA)\n"+issLine1+"\n"+issLine2+"\n"))
		fctx.Request.Header.Set("x-arc-measurement", r.m)
	}
	if r.src == "header" {
		fctx.Request.Header.Set("x-arc-database", r.db)
	} else {
		q.Set(dbq, r.db)
	}
	if len(q) > 0 {
		path += "?" + q.Encode()
	}
	fctx.Request.SetRequestURI(path)
	fctx.Request.Header.SetContentType(ctype)
	fctx.Request.SetBody(body)
	h(fctx)
	return fctx.Response.StatusCode()
}

func (e *env) aliasStage() {
	lg := zerolog.Nop()
	store := &gatedBackend{memBackend: newMem(), entered: make(chan struct{}), gate: make(chan struct{})}
	buf := ingest.NewArrowBuffer(&config.IngestConfig{MaxBufferSize: 1, MaxBufferAgeMS: 3600000, FlushWorkers: 1, FlushQueueSize: 4096, ShardCount: 4}, store, lg)
	opened := false
	defer func() {
		if !opened {
			close(store.gate)
		}
		buf.Close()
	}()
	app := fiber.New(fiber.Config{DisableStartupMessage: true, BodyLimit: 64 << 20})
	api.NewMsgPackHandler(lg, buf, 16<<20).RegisterRoutes(app)
	api.NewLineProtocolHandler(buf, lg).RegisterRoutes(app)
	api.NewTLEHandler(buf, lg).RegisterRoutes(app)
	ih := api.NewImportHandler(lg)
	ih.SetArrowBuffer(buf)
	ih.RegisterRoutes(app)
	h := app.Handler()

	// park the only flush worker (its own connection)
	warm := &fasthttp.RequestCtx{}
	warm.Init(&fasthttp.Request{}, nil, nil)
	if code := e.aliasDo(warm, h, aliasReq{"lp-simple", "header", "warmup", "warm"}); code/100 != 2 {
		e.c.Tag("alias:warmup-failed")
		return
	}
	select {
	case <-store.entered:
	case <-time.After(20 * time.Second):
		e.c.Tag("alias:worker-never-parked")
		return
	}

	type scen struct {
		b, c  aliasReq
		codeB int
		codeC int
	}
	var scens []scen
	conn := &fasthttp.RequestCtx{} // ONE RequestCtx for every following request
	conn.Init(&fasthttp.Request{}, nil, nil)
	srcs := map[string][]string{"lp-simple": {"header"}, "lp-v1": {"header", "query"}, "lp-v2": {"header", "query"}, "msgpack": {"header"},
		"write-tle": {"header"}, "import-lp": {"header", "query"}, "import-csv": {"header", "query"}, "import-tle": {"header", "query"}}
	n := 0
	for _, ep := range []string{"lp-simple", "lp-v1", "lp-v2", "msgpack", "write-tle", "import-lp", "import-csv", "import-tle"} {
		for _, src := range srcs[ep] {
			for _, pair := range [][2]string{{"default", "tenantb"}, {"tenanta", "tenantb"}, {"default", "zz"}, {"allowed_db", "zzzzzzzzzzzz"}, {"dflt", "default"}} {
				n++
				s := scen{b: aliasReq{ep, src, pair[0], fmt.Sprintf("b%d", n)}, c: aliasReq{ep, src, pair[1], fmt.Sprintf("c%d", n)}}
				s.codeB = e.aliasDo(conn, h, s.b)
				s.codeC = e.aliasDo(conn, h, s.c)
				scens = append(scens, s)
			}
		}
	}
	// one more request so that the last scenario's header slot is overwritten as well
	e.aliasDo(conn, h, aliasReq{"lp-simple", "header", "lastone", "last"})

	close(store.gate)
	opened = true
	want := 2 + 2*len(scens)
	deadline := time.Now().Add(60 * time.Second)
	for time.Now().Before(deadline) {
		store.memBackend.mu.Lock()
		got := len(store.memBackend.order)
		store.memBackend.mu.Unlock()
		if got >= want {
			break
		}
		time.Sleep(5 * time.Millisecond)
	}
	buf.FlushAll(context.Background())
	paths := store.memBackend.take()
	byMeas := map[string][]string{} // measurement segment -> "db/m" prefixes
	for _, p := range paths {
		pre, _ := normPath(p)
		segs := strings.SplitN(pre, "/", 2)
		if len(segs) == 2 {
			byMeas[segs[1]] = append(byMeas[segs[1]], pre)
		}
	}
	show := func(r aliasReq) string {
		ps := byMeas[r.m]
		if len(ps) == 0 {
			return "?"
		}
		return hxs(ps)
	}
	for _, s := range scens {
		op := fmt.Sprintf("alias %s %s %s %s %s %s", s.b.ep, s.b.src, hx(s.b.db), hx(s.b.m), hx(s.c.db), hx(s.c.m))
		out := fmt.Sprintf("b=%s c=%s", show(s.b), show(s.c))
		if s.codeB/100 != 2 || s.codeC/100 != 2 {
			out += fmt.Sprintf(" status=%d/%d", s.codeB, s.codeC)
		}
		e.c.Op(op, out)
		e.c.Tag("alias:" + s.b.ep + ":" + s.b.src)
		e.c.Case(op, true)
		for _, r := range []aliasReq{s.b, s.c} {
			for _, pre := range byMeas[r.m] {
				if pre != r.db+"/"+r.m {
					e.c.Fail("row-stored-outside-request-database:aliased-request-buffer",
						fmt.Sprintf("%s (%s): the request named database %q, measurement %q; its rows, flushed by the async worker after the same RequestCtx had served the next request, are stored under %q", r.ep, r.src, r.db, r.m, pre),
						fmt.Sprintf("ArrowBuffer{MaxBufferSize:1, FlushWorkers:1} over a gated backend (worker parked in the first Write); ONE fasthttp.RequestCtx: %s database=%q (by %s) measurement %q -> HTTP %d; then %s database=%q measurement %q -> HTTP %d; open the gate; stored paths for %q: %q", s.b.ep, s.b.db, s.b.src, s.b.m, s.codeB, s.c.ep, s.c.db, s.c.m, s.codeC, r.m, byMeas[r.m]))
				}
			}
			if len(byMeas[r.m]) == 0 {
				// the measurement itself was rewritten (or the write was lost): look for it under its database
				e.c.Fail("row-stored-outside-request-database:aliased-request-buffer",
					fmt.Sprintf("%s (%s): no stored path carries measurement %q of the request that named database %q", r.ep, r.src, r.m, r.db),
					fmt.Sprintf("same stage; all stored paths: %q", paths))
			}
		}
	}
}
