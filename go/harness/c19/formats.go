//go:build verif

package main

import (
	"bufio"
	"bytes"
	"context"
	"encoding/json"
	"fmt"
	"strings"
	"time"
	"unicode/utf8"

	"github.com/Basekick-Labs/msgpack/v6"
	"github.com/apache/arrow-go/v18/arrow"
	"github.com/apache/arrow-go/v18/arrow/array"
	"github.com/apache/arrow-go/v18/arrow/ipc"
	"github.com/apache/arrow-go/v18/arrow/memory"
	"github.com/basekick-labs/arc/internal/api"
	"github.com/basekick-labs/arc/internal/verif/vh"
)

type colTruth struct {
	name  string
	key   string // type key for monitors
	dt    arrow.DataType
	cells []tcell
}

type resultSet struct {
	desc   string // replay description (SQL text or generator description)
	schema *arrow.Schema
	recs   []arrow.Record
	cols   []colTruth
	nrows  int
}

func newResultSet(desc string, schema *arrow.Schema, recs []arrow.Record, keys []string) *resultSet {
	rs := &resultSet{desc: desc, schema: schema, recs: recs}
	for j, f := range schema.Fields() {
		ct := colTruth{name: f.Name, dt: f.Type, key: typeKey(f.Type)}
		if keys != nil && keys[j] != "" {
			ct.key = keys[j]
		}
		for _, r := range recs {
			a := r.Column(j)
			for i := 0; i < a.Len(); i++ {
				ct.cells = append(ct.cells, truthCell(a, i))
			}
		}
		rs.cols = append(rs.cols, ct)
	}
	for _, r := range recs {
		rs.nrows += int(r.NumRows())
	}
	return rs
}

func (rs *resultSet) release() {
	for _, r := range rs.recs {
		r.Release()
	}
}

func (rs *resultSet) reader() array.RecordReader {
	rd, err := array.NewRecordReader(rs.schema, rs.recs)
	must(err)
	return rd
}

type decoded struct {
	malformed string
	cols      []string
	rowCount  int64
	rows      [][]any
	types     []string
}

// ---------------------------------------------------------------- JSON

type jsonEnv struct {
	Success         *bool           `json:"success"`
	Columns         []string        `json:"columns"`
	Data            [][]any         `json:"data"`
	RowCount        *int64          `json:"row_count"`
	ExecutionTimeMs json.Number     `json:"execution_time_ms"`
	Timestamp       *string         `json:"timestamp"`
	Profile         json.RawMessage `json:"profile"`
}

func decodeJSON(body []byte) decoded {
	var d decoded
	if !utf8.Valid(body) {
		d.malformed = "body is not valid UTF-8 (RFC 8259 §8.1)"
	} else if !json.Valid(body) {
		d.malformed = "encoding/json rejects the body"
	}
	dec := json.NewDecoder(bytes.NewReader(body))
	dec.UseNumber()
	dec.DisallowUnknownFields()
	var e jsonEnv
	if err := dec.Decode(&e); err != nil {
		if d.malformed == "" {
			d.malformed = "decode: " + err.Error()
		}
		return d
	}
	if dec.More() && d.malformed == "" {
		d.malformed = "trailing data after the JSON document"
	}
	if e.Success == nil || !*e.Success || e.RowCount == nil || e.Timestamp == nil || e.Columns == nil || e.Data == nil {
		if d.malformed == "" {
			d.malformed = "envelope field missing"
		}
		if e.RowCount == nil {
			return d
		}
	}
	d.cols = e.Columns
	d.rowCount = *e.RowCount
	d.rows = e.Data
	return d
}

// ---------------------------------------------------------------- MessagePack

func decodeMsgPack(body []byte) decoded {
	var d decoded
	rd := bytes.NewReader(body)
	dec := msgpack.NewDecoder(rd)
	v, err := dec.DecodeInterface()
	if err != nil {
		d.malformed = "decode: " + err.Error()
		return d
	}
	if rd.Len() != 0 {
		d.malformed = fmt.Sprintf("%d trailing bytes after the document", rd.Len())
	}
	m, ok := v.(map[string]any)
	if !ok {
		d.malformed = fmt.Sprintf("top level is %T, not a map", v)
		return d
	}
	bad := func(s string) decoded {
		if d.malformed == "" {
			d.malformed = s
		}
		return d
	}
	if s, ok := m["success"].(bool); !ok || !s {
		return bad("success != true")
	}
	cols, ok := m["columns"].([]any)
	if !ok {
		return bad("columns missing")
	}
	for _, c := range cols {
		s, ok := c.(string)
		if !ok {
			return bad("column name not a string")
		}
		d.cols = append(d.cols, s)
	}
	if tys, ok := m["types"].([]any); ok {
		for _, c := range tys {
			s, _ := c.(string)
			d.types = append(d.types, s)
		}
	} else {
		return bad("types missing")
	}
	rc, ok := anyToBig(m["row_count"])
	if !ok {
		return bad("row_count missing")
	}
	d.rowCount = rc.Int64()
	data, ok := m["data"].([]any)
	if !ok {
		return bad("data missing")
	}
	if len(data) != len(d.cols) {
		return bad(fmt.Sprintf("data has %d column arrays for %d columns", len(data), len(d.cols)))
	}
	n := -1
	colArrs := make([][]any, len(data))
	for j, ca := range data {
		arr, ok := ca.([]any)
		if !ok {
			return bad(fmt.Sprintf("data[%d] is %T", j, ca))
		}
		if n >= 0 && len(arr) != n {
			return bad("column arrays of different length")
		}
		n = len(arr)
		colArrs[j] = arr
	}
	if n < 0 {
		n = int(d.rowCount)
	}
	d.rows = make([][]any, n)
	for i := 0; i < n; i++ {
		d.rows[i] = make([]any, len(colArrs))
		for j := range colArrs {
			d.rows[i][j] = colArrs[j][i]
		}
	}
	if _, ok := m["timestamp"].(string); !ok {
		return bad("timestamp missing")
	}
	if _, ok := anyToBig(m["execution_time_ms"]); !ok {
		return bad("execution_time_ms missing")
	}
	return d
}

// ---------------------------------------------------------------- running the real encoders on a record set

const fixedTS = "2026-01-02T03:04:05Z"

func runJSON(rs *resultSet, maxRows int) (body []byte, n int, err error) {
	rd := rs.reader()
	defer rd.Release()
	var buf bytes.Buffer
	w := bufio.NewWriter(&buf)
	n, err = api.C19StreamArrowJSON(context.Background(), w, rd, maxRows, time.Now(), fixedTS)
	w.Flush()
	return buf.Bytes(), n, err
}

func runMsgPack(rs *resultSet, maxRows int) (body []byte, n int, drainErr, streamErr error) {
	rd := rs.reader()
	defer rd.Release()
	var buf bytes.Buffer
	w := bufio.NewWriter(&buf)
	n, drainErr, streamErr = api.C19MsgPack(context.Background(), w, rd, maxRows, time.Now(), fixedTS)
	w.Flush()
	return buf.Bytes(), n, drainErr, streamErr
}

// runIPC mirrors the stream-writer closure of executeQueryArrow for a reader that does not come from
// DuckDB: the real normalizeDecimalSchema / castDecimalBatch plus arrow-go's ipc.Writer. (DuckDB result
// sets go through the real handler over HTTP, see duck.go.) A cast error stops the loop like `break streamLoop`.
func runIPC(rs *resultSet) (body []byte, castErr error) {
	schema := rs.schema
	if ns, _ := api.C19DecimalTargets(schema); ns != nil {
		schema = ns
	}
	var buf bytes.Buffer
	w := ipc.NewWriter(&buf, ipc.WithSchema(schema))
	for _, r := range rs.recs {
		cb, err := api.C19CastDecimalBatch(r)
		if err != nil {
			castErr = err
			break
		}
		err = w.Write(cb)
		cb.Release()
		must(err)
	}
	must(w.Close())
	return buf.Bytes(), castErr
}

func decodeIPC(body []byte) (*arrow.Schema, []arrow.Record, error) {
	rd, err := ipc.NewReader(bytes.NewReader(body), ipc.WithAllocator(memory.DefaultAllocator))
	if err != nil {
		return nil, nil, err
	}
	defer rd.Release()
	var recs []arrow.Record
	for rd.Next() {
		r := rd.Record()
		r.Retain()
		recs = append(recs, r)
	}
	if err := rd.Err(); err != nil {
		return rd.Schema(), recs, err
	}
	return rd.Schema(), recs, nil
}

// ---------------------------------------------------------------- monitors

type monitor struct {
	c *vh.Ctx
}

func short(s string, n int) string {
	if len(s) > n {
		return s[:n] + "…"
	}
	return s
}

func sameNames(a, b []string) bool {
	if len(a) != len(b) {
		return false
	}
	for i := range a {
		if a[i] != b[i] {
			return false
		}
	}
	return true
}

// invalidUTF8Col: first column holding a string/blob cell that is not valid UTF-8 ("" if none).
func invalidUTF8Col(rs *resultSet, nrows int) (key string, cell tcell) {
	// VARCHAR cells first: they reach writeJSONString unconverted (hand-built records only; DuckDB's VARCHAR is
	// always valid UTF-8). BLOB cells go through blobText (ASCII) and can only be the culprit when no VARCHAR is.
	for _, kind := range []string{"str", "bin"} {
		for _, ct := range rs.cols {
			for i, t := range ct.cells {
				if i >= nrows {
					break
				}
				if t.kind == kind && !utf8.Valid(t.s) {
					return ct.key, t
				}
			}
		}
	}
	return "", tcell{}
}

// reachable: can DuckDB hand this cell to the encoders? (VARCHAR is always valid UTF-8.)
func reachable(ct colTruth, t tcell) bool {
	return !(t.kind == "str" && !utf8.Valid(t.s))
}

// checkDecoded runs every monitor of one decoded JSON / msgpack response against the truth.
// expectRows = number of leading truth rows the response must carry.
func (m *monitor) checkDecoded(format string, rs *resultSet, d decoded, expectRows int, check func(tcell, any) string) {
	c := m.c
	replayHead := fmt.Sprintf("format=%s source=%s", format, short(rs.desc, 600))
	if d.malformed != "" {
		key, cell := invalidUTF8Col(rs, expectRows)
		if key == "" {
			key = "envelope"
			if len(rs.cols) == 1 {
				key = rs.cols[0].key
			}
		}
		if (key == "utf8" || key == "large_utf8") && format == "json" {
			c.Tag("json:invalid-utf8-varchar-passthrough(unreachable-from-duckdb)")
		} else {
			c.Fail(format+"-malformed:"+key, fmt.Sprintf("%s response is not well-formed: %s", format, d.malformed),
				fmt.Sprintf("%s type=%s value=%s", replayHead, key, canon(cell)))
		}
	}
	if d.cols == nil && d.rows == nil {
		return
	}
	want := make([]string, len(rs.cols))
	for j := range rs.cols {
		want[j] = rs.cols[j].name
	}
	if !sameNames(want, d.cols) {
		if format == "json" && !utf8.ValidString(strings.Join(want, "")) {
			c.Tag("json:invalid-utf8-column-name(unreachable)")
		} else {
			c.Fail("column-names-differ:"+format, fmt.Sprintf("columns %q decoded as %q", want, d.cols), replayHead)
		}
	}
	if int(d.rowCount) != expectRows || len(d.rows) != expectRows {
		c.Fail("row-count-differs:"+format, fmt.Sprintf("expected %d rows, envelope row_count=%d, data rows=%d", expectRows, d.rowCount, len(d.rows)), replayHead)
	}
	for i := 0; i < len(d.rows) && i < expectRows; i++ {
		row := d.rows[i]
		if len(row) != len(rs.cols) {
			c.Fail(format+"-malformed:envelope", fmt.Sprintf("row %d has %d cells for %d columns", i, len(row), len(rs.cols)), replayHead)
			continue
		}
		for j, ct := range rs.cols {
			t := ct.cells[i]
			v := row[j]
			if t.null != (v == nil) {
				// documented: non-finite floats become null in JSON
				if format == "json" && !t.null && v == nil && check(t, v) == "" {
					c.Tag("json:non-finite->null:" + ct.key)
					continue
				}
				c.Fail(fmt.Sprintf("null-position-differs:%s:%s", format, ct.key),
					fmt.Sprintf("row %d col %q: truth %s, decoded %s", i, ct.name, canon(t), short(canonAny(v), 120)),
					fmt.Sprintf("%s type=%s value=%s", replayHead, ct.key, short(canon(t), 300)))
				continue
			}
			if why := check(t, v); why != "" {
				if !reachable(ct, t) {
					c.Tag(format + ":invalid-utf8-varchar-cell(unreachable-from-duckdb)")
					continue
				}
				c.Fail(fmt.Sprintf("%s-cell-differs:%s", format, ct.key),
					fmt.Sprintf("row %d col %q: %s", i, ct.name, short(why, 300)),
					fmt.Sprintf("%s type=%s value=%s", replayHead, ct.key, short(canon(t), 300)))
			}
		}
	}
}

// rowsCanon: canonical text of the decoded rows (for limited-vs-unlimited comparison).
func rowsCanon(rows [][]any) []string {
	out := make([]string, len(rows))
	for i, r := range rows {
		p := make([]string, len(r))
		for j := range r {
			p[j] = canonAny(r[j])
		}
		out[i] = strings.Join(p, "|")
	}
	return out
}

func (m *monitor) checkRowLimit(format string, rs *resultSet, full, lim decoded, maxRows int) {
	want := rs.nrows
	if maxRows > 0 && maxRows < want {
		want = maxRows
	}
	replay := fmt.Sprintf("format=%s maxRows=%d source=%s", format, maxRows, short(rs.desc, 600))
	if int(lim.rowCount) != want || len(lim.rows) != want {
		m.c.Fail("row-count-differs:"+format, fmt.Sprintf("row limit %d over %d rows: row_count=%d data rows=%d, want %d", maxRows, rs.nrows, lim.rowCount, len(lim.rows), want), replay)
		return
	}
	a, b := rowsCanon(full.rows), rowsCanon(lim.rows)
	for i := 0; i < want && i < len(a); i++ {
		if a[i] != b[i] {
			m.c.Fail("rowlimit-altered-rows:"+format, fmt.Sprintf("row %d differs under row limit %d: %s vs %s", i, maxRows, short(a[i], 150), short(b[i], 150)), replay)
			return
		}
	}
	if !sameNames(full.cols, lim.cols) {
		m.c.Fail("column-names-differ:"+format, "column names change under a row limit", replay)
	}
}

// checkIPC compares a decoded Arrow IPC stream with the truth (decimal columns: int64/float64 rule).
func (m *monitor) checkIPC(fmtName string, rs *resultSet, schema *arrow.Schema, recs []arrow.Record, derr error, expectRows int) {
	c := m.c
	replayHead := "format=" + fmtName + " source=" + short(rs.desc, 600)
	if derr != nil || schema == nil {
		key := "envelope"
		if len(rs.cols) == 1 {
			key = rs.cols[0].key
		}
		c.Fail(fmtName+"-malformed:"+key, fmt.Sprintf("arrow IPC stream does not decode: %v", derr), replayHead)
		return
	}
	want := make([]string, len(rs.cols))
	got := make([]string, schema.NumFields())
	for j := range rs.cols {
		want[j] = rs.cols[j].name
	}
	for j := range got {
		got[j] = schema.Field(j).Name
	}
	if !sameNames(want, got) {
		c.Fail("column-names-differ:"+fmtName, fmt.Sprintf("columns %q decoded as %q", want, got), replayHead)
		return
	}
	n := 0
	for _, r := range recs {
		n += int(r.NumRows())
	}
	if n != expectRows {
		c.Fail("row-count-differs:"+fmtName, fmt.Sprintf("expected %d rows, stream carries %d", expectRows, n), replayHead)
	}
	for j, ct := range rs.cols {
		i := 0
		for _, r := range recs {
			a := r.Column(j)
			for k := 0; k < a.Len() && i < len(ct.cells); k, i = k+1, i+1 {
				t := ct.cells[i]
				g := truthCell(a, k)
				if t.null != g.null {
					c.Fail("null-position-differs:"+fmtName+":"+ct.key, fmt.Sprintf("row %d col %q: truth %s decoded %s", i, ct.name, canon(t), canon(g)),
						fmt.Sprintf("%s type=%s value=%s", replayHead, ct.key, short(canon(t), 300)))
					continue
				}
				if t.null {
					continue
				}
				why := ""
				if t.kind == "dec" {
					switch g.kind {
					case "int":
						if t.scale != 0 || g.i.Cmp(t.i) != 0 {
							why = fmt.Sprintf("decimal %s became integer %s", decText(t), g.i)
						}
					case "f64":
						f := float64frombits(g.f64)
						if t.scale == 0 || !decimalAsFloatOK(t, f) {
							why = fmt.Sprintf("decimal %s became float64 %v", decText(t), f)
						}
					case "dec":
						if canon(g) != canon(t) {
							why = fmt.Sprintf("decimal %s became %s", decText(t), decText(g))
						}
					default:
						why = "decimal became " + g.kind
					}
				} else if canon(g) != canon(t) {
					why = fmt.Sprintf("truth %s decoded %s", short(canon(t), 150), short(canon(g), 150))
				}
				if why != "" {
					c.Fail(fmtName+"-cell-differs:"+ct.key, fmt.Sprintf("row %d col %q: %s", i, ct.name, why),
						fmt.Sprintf("%s type=%s value=%s", replayHead, ct.key, short(canon(t), 300)))
				}
			}
		}
	}
}
