//go:build verif

package main

// Direct Arrow record generators: one column class per Arrow type arc can hand to the encoders.

import (
	"fmt"
	"math"
	"math/big"
	"strings"

	"github.com/apache/arrow-go/v18/arrow"
	"github.com/apache/arrow-go/v18/arrow/array"
	"github.com/apache/arrow-go/v18/arrow/decimal128"
	"github.com/apache/arrow-go/v18/arrow/memory"
	"github.com/basekick-labs/arc/internal/verif/vh"
)

func float64frombits(b uint64) float64 { return math.Float64frombits(b) }

var mem = memory.DefaultAllocator

var edgeStrings = []string{
	"", "a", "\"", "\\", "\"\\\"", "\n\r\t\b\f", "\x00", "\x01\x1f", "\x7f", "é", "中文", "😀", "a\"b\\c/d",
	"  ", "</script>", "tab\there", strings.Repeat("x", 31), strings.Repeat("y", 32),
	strings.Repeat("z", 255), strings.Repeat("w", 256), "\\u0041", "nul\x00mid", "\ufeffbom", "\U0010ffff",
	"{\"k\":1}", "[1,2]", "null", "ünï©ødé \x1b[0m",
}

var invalidUTF8 = []string{
	"\xff", "\xc0\x80", "\xed\xa0\x80", "\xf5\x80\x80\x80", "\xe2\x82", "a\x80b", "\xf0\x9f\x98", "\xfe\xff", "ok\xc3",
}

var edgeI64 = []int64{0, 1, -1, 31, 32, -32, -33, 127, 128, -128, -129, 255, 256, 32767, 32768, -32768, -32769, 65535, 65536,
	2147483647, 2147483648, -2147483648, -2147483649, 4294967295, 4294967296, 9007199254740993, math.MaxInt64, math.MinInt64, math.MinInt64 + 1}

var edgeU64 = []uint64{0, 1, 127, 128, 255, 256, 65535, 65536, 4294967295, 4294967296, 1<<63 - 1, 1 << 63, math.MaxUint64}

var edgeF64 = []uint64{
	0, 0x8000000000000000, 0x7ff0000000000000, 0xfff0000000000000, 0x7ff8000000000000, 0x7ff8000000000001, 0xfff8000000000000,
	0x7ff0000000000001, 0x0000000000000001, 0x000fffffffffffff, 0x0010000000000000, 0x7fefffffffffffff, 0xffefffffffffffff,
	0x3ff0000000000000, 0xbff0000000000000, 0x3fb999999999999a, 0x4340000000000000, 0x4340000000000001, 0x43e0000000000000,
	0x3ff8000000000000, 0x4059000000000000, 0x3e112e0be826d695, 0x7e37e43c8800759c, 0x44b52d02c7e14af6,
}

var edgeF32 = []uint32{0, 0x80000000, 0x7f800000, 0xff800000, 0x7fc00000, 0x7fc00001, 0xffc00000, 0x7f800001, 1, 0x007fffff,
	0x00800000, 0x7f7fffff, 0xff7fffff, 0x3f800000, 0x3dcccccd, 0x4b800000, 0x3fc00000}

func randString(r *vh.Rand) string {
	switch r.Intn(10) {
	case 0, 1:
		return vh.Pick(r, edgeStrings)
	case 2:
		return vh.Pick(r, edgeStrings) + vh.Pick(r, edgeStrings)
	}
	n := r.Intn(12)
	if r.Chance(5) {
		n = r.Range(30, 300)
	}
	var sb strings.Builder
	for i := 0; i < n; i++ {
		switch r.Intn(8) {
		case 0:
			sb.WriteByte(byte(r.Intn(32)))
		case 1:
			sb.WriteByte("\"\\/\x7f'"[r.Intn(5)])
		case 2:
			sb.WriteRune(rune(0x80 + r.Intn(0x700)))
		case 3:
			sb.WriteRune(rune(0x800 + r.Intn(0xd000-0x800)))
		case 4:
			sb.WriteRune(rune(0x10000 + r.Intn(0x100000)))
		default:
			sb.WriteByte(byte(32 + r.Intn(95)))
		}
	}
	return sb.String()
}

func randBytes(r *vh.Rand) []byte {
	switch r.Intn(6) {
	case 0:
		return []byte{}
	case 1:
		return []byte(randString(r))
	case 2:
		return []byte(vh.Pick(r, invalidUTF8))
	}
	n := r.Intn(20)
	if r.Chance(4) {
		n = r.Range(250, 300)
	}
	b := make([]byte, n)
	for i := range b {
		b[i] = byte(r.U64())
	}
	return b
}

func randI64(r *vh.Rand, bits uint) int64 {
	var v int64
	if r.Chance(35) {
		v = vh.Pick(r, edgeI64)
	} else {
		v = int64(r.U64()) >> uint(r.Intn(64))
	}
	if bits < 64 {
		// wrap into the width (two's complement)
		sh := 64 - bits
		v = (v << sh) >> sh
	}
	return v
}

func randU64(r *vh.Rand, bits uint) uint64 {
	var v uint64
	if r.Chance(35) {
		v = vh.Pick(r, edgeU64)
	} else {
		v = r.U64() >> uint(r.Intn(64))
	}
	if bits < 64 {
		v &= (1 << bits) - 1
	}
	return v
}

func randF64bits(r *vh.Rand) uint64 {
	switch r.Intn(4) {
	case 0:
		return vh.Pick(r, edgeF64)
	case 1:
		return math.Float64bits(float64(int64(r.U64()>>uint(r.Intn(64)))) / float64(int64(1)<<uint(r.Intn(20))))
	case 2:
		return math.Float64bits(float64(r.Intn(100000)-50000) / 100)
	}
	return r.U64()
}

func randF32bits(r *vh.Rand) uint32 {
	if r.Chance(30) {
		return vh.Pick(r, edgeF32)
	}
	if r.Chance(30) {
		return math.Float32bits(float32(r.Intn(100000)-50000) / 100)
	}
	return uint32(r.U64())
}

// timestamps stay inside DuckDB's TIMESTAMP domain (±2^63 µs around the epoch); most inside years 1..9999
func randTS(r *vh.Rand, u arrow.TimeUnit) int64 {
	var us int64
	switch r.Intn(8) {
	case 0:
		us = vh.Pick(r, []int64{0, 1, -1, 999999, 1000000, -1000000, -999999, 1704067201123456, -62135596800000000, 253402300799999999,
			4294967295000000, 4294967296000000, 17179869183999999, 17179869184000000, -1000001})
	case 1:
		us = int64(r.U64()>>1) % 9000000000000000000
		if r.Bool() {
			us = -us
		}
	default:
		us = -62135596800000000 + int64(r.U64()%315537897600000000)
	}
	switch u {
	case arrow.Second:
		q, _ := floorDiv(us, 1000000)
		return q
	case arrow.Millisecond:
		q, _ := floorDiv(us, 1000)
		return q
	case arrow.Microsecond:
		return us
	}
	// ns: int64 nanoseconds cover 1677..2262 only
	if us > 9223372036854775 || us < -9223372036854775 {
		us %= 9223372036854775
	}
	return us*1000 + int64(r.Intn(1000))
}

func randDecimal(r *vh.Rand, prec int32) *big.Int {
	lim := new(big.Int).Exp(big.NewInt(10), big.NewInt(int64(prec)), nil)
	var v *big.Int
	switch r.Intn(6) {
	case 0:
		v = new(big.Int).Sub(lim, big.NewInt(1))
	case 1:
		v = big.NewInt(int64(r.Intn(2000)) - 1000)
	case 2:
		v = big.NewInt(vh.Pick(r, edgeI64))
	default:
		v = new(big.Int).SetUint64(r.U64())
		v.Mul(v, new(big.Int).SetUint64(r.U64()>>uint(r.Intn(64))))
		v.Mul(v, big.NewInt(int64(1+r.Intn(1000))))
	}
	v.Rem(v, lim)
	if r.Bool() {
		v.Neg(v)
	}
	return v
}

// fill appends one random non-null value (or nested value) to builder b.
func fill(b array.Builder, r *vh.Rand, depth int) {
	switch x := b.(type) {
	case *array.Int8Builder:
		x.Append(int8(randI64(r, 8)))
	case *array.Int16Builder:
		x.Append(int16(randI64(r, 16)))
	case *array.Int32Builder:
		x.Append(int32(randI64(r, 32)))
	case *array.Int64Builder:
		x.Append(randI64(r, 64))
	case *array.Uint8Builder:
		x.Append(uint8(randU64(r, 8)))
	case *array.Uint16Builder:
		x.Append(uint16(randU64(r, 16)))
	case *array.Uint32Builder:
		x.Append(uint32(randU64(r, 32)))
	case *array.Uint64Builder:
		x.Append(randU64(r, 64))
	case *array.Float32Builder:
		x.Append(math.Float32frombits(randF32bits(r)))
	case *array.Float64Builder:
		x.Append(math.Float64frombits(randF64bits(r)))
	case *array.BooleanBuilder:
		x.Append(r.Bool())
	case *array.StringBuilder:
		if depth == 0 && r.Chance(4) {
			x.Append(vh.Pick(r, invalidUTF8)) // not producible by DuckDB VARCHAR: tagged, never a finding
		} else {
			x.Append(randString(r))
		}
	case *array.LargeStringBuilder:
		x.Append(randString(r))
	case *array.BinaryBuilder:
		x.Append(randBytes(r))
	case *array.Date32Builder:
		x.Append(arrow.Date32(int32(-719162 + r.Intn(3652059)))) // 0001-01-01 .. 9999-12-31
	case *array.TimestampBuilder:
		x.Append(arrow.Timestamp(randTS(r, x.Type().(*arrow.TimestampType).Unit)))
	case *array.Time64Builder:
		x.Append(arrow.Time64(r.U64() % 86400000000))
	case *array.Decimal128Builder:
		dt := x.Type().(*arrow.Decimal128Type)
		x.Append(decimal128.FromBigInt(randDecimal(r, dt.Precision)))
	case *array.MonthDayNanoIntervalBuilder:
		x.Append(arrow.MonthDayNanoInterval{Months: int32(r.Intn(2400) - 1200), Days: int32(r.Intn(80000) - 40000),
			Nanoseconds: (int64(r.U64()>>12) - (1 << 50)) / 1000 * 1000})
	case *array.ListBuilder:
		x.Append(true)
		n := r.Intn(4)
		for i := 0; i < n; i++ {
			if r.Chance(20) {
				x.ValueBuilder().AppendNull()
			} else {
				fill(x.ValueBuilder(), r, depth+1)
			}
		}
	case *array.StructBuilder:
		x.Append(true)
		for i := 0; i < x.NumField(); i++ {
			if r.Chance(20) {
				x.FieldBuilder(i).AppendNull()
			} else {
				fill(x.FieldBuilder(i), r, depth+1)
			}
		}
	default:
		panic(fmt.Sprintf("fill: unsupported builder %T", b))
	}
}

type colClass struct {
	name string
	dt   arrow.DataType
}

func directClasses() []colClass {
	ts := func(u arrow.TimeUnit, tz string) arrow.DataType { return &arrow.TimestampType{Unit: u, TimeZone: tz} }
	i32, i64, f64, str := arrow.PrimitiveTypes.Int32, arrow.PrimitiveTypes.Int64, arrow.PrimitiveTypes.Float64, arrow.BinaryTypes.String
	return []colClass{
		{"i8", arrow.PrimitiveTypes.Int8}, {"i16", arrow.PrimitiveTypes.Int16}, {"i32", i32}, {"i64", i64},
		{"u8", arrow.PrimitiveTypes.Uint8}, {"u16", arrow.PrimitiveTypes.Uint16}, {"u32", arrow.PrimitiveTypes.Uint32}, {"u64", arrow.PrimitiveTypes.Uint64},
		{"f32", arrow.PrimitiveTypes.Float32}, {"f64", f64}, {"b", arrow.FixedWidthTypes.Boolean},
		{"s", str}, {"ls", arrow.BinaryTypes.LargeString}, {"bin", arrow.BinaryTypes.Binary},
		{"d32", arrow.FixedWidthTypes.Date32},
		{"ts_s", ts(arrow.Second, "")}, {"ts_ms", ts(arrow.Millisecond, "")}, {"ts_us", ts(arrow.Microsecond, "")}, {"ts_ns", ts(arrow.Nanosecond, "")},
		{"tz_s", ts(arrow.Second, "UTC")}, {"tz_ms", ts(arrow.Millisecond, "Etc/UTC")}, {"tz_us", ts(arrow.Microsecond, "Etc/UTC")}, {"tz_ns", ts(arrow.Nanosecond, "America/New_York")},
		{"hugeint", &arrow.Decimal128Type{Precision: 38, Scale: 0}},
		{"dec18_0", &arrow.Decimal128Type{Precision: 18, Scale: 0}},
		{"dec9_2", &arrow.Decimal128Type{Precision: 9, Scale: 2}},
		{"dec18_4", &arrow.Decimal128Type{Precision: 18, Scale: 4}},
		{"dec38_10", &arrow.Decimal128Type{Precision: 38, Scale: 10}},
		{"ival", arrow.FixedWidthTypes.MonthDayNanoInterval},
		{"t64", arrow.FixedWidthTypes.Time64us},
		{"l_i32", arrow.ListOf(i32)}, {"l_s", arrow.ListOf(str)}, {"l_f64", arrow.ListOf(f64)}, {"l_l_i64", arrow.ListOf(arrow.ListOf(i64))},
		{"st", arrow.StructOf(arrow.Field{Name: "a", Type: i32, Nullable: true}, arrow.Field{Name: "b", Type: str, Nullable: true},
			arrow.Field{Name: "c", Type: arrow.ListOf(i64), Nullable: true}, arrow.Field{Name: "d", Type: f64, Nullable: true},
			arrow.Field{Name: "e", Type: arrow.FixedWidthTypes.Boolean, Nullable: true})},
	}
}

// nullAt decides the null pattern: 0 none, 1 first, 2 last, 3 random third, 4 all, 5 alternating
func nullAt(mode, i, n int, r *vh.Rand) bool {
	switch mode {
	case 1:
		return i == 0
	case 2:
		return i == n-1
	case 3:
		return r.Chance(33)
	case 4:
		return true
	case 5:
		return i%2 == 1
	}
	return false
}

func buildColumn(dt arrow.DataType, n, nullMode int, r *vh.Rand) arrow.Array {
	b := array.NewBuilder(mem, dt)
	defer b.Release()
	for i := 0; i < n; i++ {
		if nullAt(nullMode, i, n, r) {
			b.AppendNull()
		} else {
			fill(b, r, 0)
		}
	}
	return b.NewArray()
}

// buildResultSet builds batches of the given sizes over the given classes.
func buildResultSet(desc string, classes []colClass, sizes []int, nullMode int, r *vh.Rand) *resultSet {
	fields := make([]arrow.Field, len(classes))
	for j, c := range classes {
		fields[j] = arrow.Field{Name: fmt.Sprintf("%s_%d", c.name, j), Type: c.dt, Nullable: true}
	}
	schema := arrow.NewSchema(fields, nil)
	var recs []arrow.Record
	for _, n := range sizes {
		cols := make([]arrow.Array, len(classes))
		for j, c := range classes {
			cols[j] = buildColumn(c.dt, n, nullMode, r)
		}
		recs = append(recs, array.NewRecord(schema, cols, int64(n)))
		for _, a := range cols {
			a.Release()
		}
	}
	return newResultSet(desc, schema, recs, nil)
}
